import Gnmi.Basic
/-!
# Model of `ctree/tree.go` (sequential semantics)

`Tree.leafBranch` is `nil` (only ever at the root: the zero tree, or a tree emptied
by a delete), a value (leaf) or a `branch` (map from child name to node).  Go's map
becomes an association list with unique keys (`WF`); iteration order is list order
and every statement about results of a map iteration is up to permutation.

Each function follows the Go function of the same name arm by arm; results carry
*relative* paths which the caller prefixes with the child name on the way up
(`pre k`), which is what `append(prefix, k)` does read bottom-up.
-/
namespace Gnmi

inductive Trie (V : Type) where
  | empty : Trie V                                   -- leafBranch == nil
  | leaf (v : V) : Trie V                            -- leafBranch is a value
  | branch (cs : List (String × Trie V)) : Trie V    -- leafBranch is a branch
deriving Inhabited

namespace Trie
variable {V : Type}

/-- `newBranch(path, value)`. -/
def chain : Path → V → Trie V
  | [], v => .leaf v
  | k :: p, v => .branch [(k, chain p v)]

mutual
/-- `Add` = `terminalAdd` (empty path) / `intermediateAdd` + `slowAdd`. `none` = error. -/
def add : Trie V → Path → V → Option (Trie V)
  | .empty, [], v => some (.leaf v)                        -- terminalAdd on the nil root
  | .empty, k :: p, v => some (.branch [(k, chain p v)])  -- slowAdd: nil becomes branch{}
  | .leaf _, [], v => some (.leaf v)                       -- terminalAdd overwrites
  | .leaf _, _ :: _, _ => none                             -- "already a leaf"
  | .branch _, [], _ => none                               -- "leaf in place of a branch"
  | .branch cs, k :: p, v => (addL cs k p v).map .branch
def addL : List (String × Trie V) → String → Path → V → Option (List (String × Trie V))
  | [], k, p, v => some [(k, chain p v)]                   -- slowAdd: newBranch
  | (k', t) :: cs, k, p, v =>
      if k' = k then (add t p v).map (fun t' => (k', t') :: cs)
      else (addL cs k p v).map (fun cs' => (k', t) :: cs')
end

mutual
/-- `Get`: the node at `path`, if any. -/
def get : Trie V → Path → Option (Trie V)
  | t, [] => some t
  | .branch cs, k :: p => getL cs k p
  | .empty, _ :: _ => none
  | .leaf _, _ :: _ => none
def getL : List (String × Trie V) → String → Path → Option (Trie V)
  | [], _, _ => none
  | (k', t) :: cs, k, p => if k' = k then get t p else getL cs k p
end

mutual
/-- `Walk`: every leaf with its relative path (map order = list order). -/
def walk : Trie V → List (Path × V)
  | .empty => []
  | .leaf v => [([], v)]
  | .branch cs => walkL cs
def walkL : List (String × Trie V) → List (Path × V)
  | [] => []
  | (k, t) :: cs => (walk t).map (pre k) ++ walkL cs
end

mutual
/-- `Query` = `queryInternal` + `enumerateChildren`. -/
def query : Trie V → Path → List (Path × V)
  | .empty, _ => []                                        -- case nil: do nothing / not a branch
  | .leaf v, [] => [([], v)]
  | .leaf v, [g] => if g = glob then [([], v)] else []     -- single trailing `*` at a leaf
  | .leaf _, _ :: _ :: _ => []
  | .branch cs, [] => queryAll cs []
  | .branch cs, g :: q => if g = glob then queryAll cs q else queryOne cs g q
def queryAll : List (String × Trie V) → Path → List (Path × V)
  | [], _ => []
  | (k, t) :: cs, q => (query t q).map (pre k) ++ queryAll cs q
def queryOne : List (String × Trie V) → String → Path → List (Path × V)
  | [], _, _ => []
  | (k, t) :: cs, g, q => if k = g then (query t q).map (pre k) else queryOne cs g q
end

/-- A node's parent removes it when `internalDelete` returned `true` for it:
in the model a removed node is `.empty`. -/
def isEmpty : Trie V → Bool
  | .empty => true
  | _ => false

/-- `len(b) == 0` ⇒ this node is to be removed too. -/
def mkBranch (cs : List (String × Trie V)) : Trie V :=
  match cs with
  | [] => .empty
  | _ :: _ => .branch cs

/-- Does the delete sub-path end at this node (`[]`, or one `*` which is stripped)? -/
def endsHere (q : Path) : Bool :=
  match q with
  | [] => true
  | [g] => g == glob
  | _ => false

mutual
/-- `internalDelete` with condition `c`: the remaining node (`.empty` when the parent is
to unlink it) and the removed leaves with relative paths. -/
def del (c : V → Bool) : Trie V → Path → Trie V × List (Path × V)
  | .empty, _ => (.empty, [])
  | .leaf v, q => if endsHere q && c v then (.empty, [([], v)]) else (.leaf v, [])
  | .branch cs, [] => let r := delAll c cs []; (mkBranch r.1, r.2)
  | .branch cs, g :: q =>
      if g = glob then let r := delAll c cs q; (mkBranch r.1, r.2)
      else let r := delOne c cs g q; (mkBranch r.1, r.2)
def delAll (c : V → Bool) : List (String × Trie V) → Path → List (String × Trie V) × List (Path × V)
  | [], _ => ([], [])
  | (k, t) :: cs, q =>
      let r := del c t q
      let rs := delAll c cs q
      (if isEmpty r.1 then rs.1 else (k, r.1) :: rs.1, r.2.map (pre k) ++ rs.2)
def delOne (c : V → Bool) : List (String × Trie V) → String → Path → List (String × Trie V) × List (Path × V)
  | [], _, _ => ([], [])
  | (k, t) :: cs, g, q =>
      if k = g then
        let r := del c t q
        (if isEmpty r.1 then cs else (k, r.1) :: cs, r.2.map (pre k))
      else
        let rs := delOne c cs g q
        ((k, t) :: rs.1, rs.2)
end

/-- `Children()`: the child names of a branch node. -/
def childKeys : Trie V → List String
  | .branch cs => cs.map (·.1)
  | _ => []

/-- `Leaf.Update` through a handle fetched with `GetLeaf(path)`, used immediately and only
when the node is a leaf. -/
def upd (t : Trie V) (p : Path) (v : V) : Option (Trie V) :=
  match get t p with
  | some (.leaf _) => add t p v
  | _ => none

/-! ### Sorted walk (`walkInternalSorted`): child names sorted with `sort.Strings`. -/

/-- Insert a child's results into a list ordered by child name. -/
def insKey {α : Type} (k : String) (a : α) : List (String × α) → List (String × α)
  | [] => [(k, a)]
  | (k', a') :: r => if k < k' then (k, a) :: (k', a') :: r else (k', a') :: insKey k a r

mutual
def walkSorted : Trie V → List (Path × V)
  | .empty => []
  | .leaf v => [([], v)]
  | .branch cs => ((walkSortedL cs).map (fun kr => kr.2.map (pre kr.1))).flatten
/-- the children's results, ordered by child name -/
def walkSortedL : List (String × Trie V) → List (String × List (Path × V))
  | [] => []
  | (k, t) :: cs => insKey k (walkSorted t) (walkSortedL cs)
end

/-! ### Well-formedness: what every tree reachable through the API satisfies. -/

mutual
/-- a non-root node: never `nil`, a branch is non-empty and has unique child names -/
def WF : Trie V → Prop
  | .empty => False
  | .leaf _ => True
  | .branch cs => cs ≠ [] ∧ WFL cs
def WFL : List (String × Trie V) → Prop
  | [] => True
  | (k, t) :: cs => WF t ∧ (∀ kt ∈ cs, kt.1 ≠ k) ∧ WFL cs
end

/-- the root may also be `nil` (zero tree / emptied tree) -/
def WFRoot (t : Trie V) : Prop := t = .empty ∨ WF t

end Trie
end Gnmi
