import Gnmi.Model.RecvSurfaces
/-!
`manager.Config` makes every callback optional: `Connect`, `Sync`, `Update`, `Reset` may each be
nil, and the receive loop of `manager.go` (`handleUpdates` / `handleGNMIUpdate`) tests each of
them where it would call it.  This file models that loop for an arbitrary subset of configured
callbacks as the list of callbacks it invokes over one scripted session (every response of the
stream, then the `Recv` error that ends it).

`optSession m rs` is written the way the Go code reads: one `if m.<cb> != nil` per call site; an
*absent callback at a call site that does not test it* is a nil function call, i.e. `panic`.
The four call sites are the parameters `guards` of `optSessionG`, so that the theorem says what
the nil checks buy: with all four guards the session never panics, whatever the mask.

Tied to the code by the `wi opt` correspondence (go/vcorr/wi.go: the real `handleUpdates` through
the seam `VerifHandleUpdates`, on a Manager built by `NewManager` from a Config holding exactly
the callbacks of the mask).
-/
namespace Gnmi.MgrOpt
open Gnmi.RX

/-- the four optional callbacks of the receive loop -/
inductive Cb where
  | connect | sync | update | reset
deriving DecidableEq, Repr

/-- which callbacks `manager.Config` holds (true = non-nil) -/
structure Mask where
  connect : Bool
  sync : Bool
  update : Bool
  reset : Bool
deriving DecidableEq, Repr

def Mask.has (m : Mask) : Cb → Bool
  | .connect => m.connect
  | .sync => m.sync
  | .update => m.update
  | .reset => m.reset

def Mask.all : Mask := ⟨true, true, true, true⟩

/-- one call site: `if cb != nil { cb(...) }` when guarded, `cb(...)` when not -/
def site (guarded : Bool) (m : Mask) (c : Cb) : Outcome (List Cb) :=
  if m.has c then .ok [c] else if guarded then .ok [] else .panic

variable {F D : Type}

/-- `handleGNMIUpdate`: the callback the response reaches (`none`: an error is returned and logged) -/
def target : Response F D → Outcome (Option Cb)
  | r => match handleGNMIUpdate r with
    | .panic => .panic
    | .err _ => .ok none
    | .ok .sync => .ok (some .sync)
    | .ok (.update _) => .ok (some .update)

/-- the loop of `handleUpdates` over the responses of the stream -/
def optLoop (g : Cb → Bool) (m : Mask) : Bool → List (Response F D) → Outcome (List Cb)
  | _, [] => site (g .reset) m .reset               -- `Recv` fails: `m.reset(name)`, return
  | connected, r :: rest =>
    match (if connected then Outcome.ok [] else site (g .connect) m .connect) with
    | .panic => .panic
    | .err e => .err e
    | .ok c =>
      match target r with
      | .panic => .panic
      | .err e => .err e
      | .ok t =>
        match (match t with | none => Outcome.ok [] | some cb => site (g cb) m cb) with
        | .panic => .panic
        | .err e => .err e
        | .ok u =>
          match optLoop g m true rest with
          | .ok l => .ok (c ++ u ++ l)
          | o => o

/-- the session as `manager.go` has it: every call site guarded -/
def optSession (m : Mask) (rs : List (Response F D)) : Outcome (List Cb) :=
  optLoop (fun _ => true) m false rs

end Gnmi.MgrOpt
