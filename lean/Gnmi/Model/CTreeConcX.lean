import Gnmi.Model.CTreeConc
/-!
# Extension of the ctree locking-protocol LTS: panic outcomes, writer preference, node reads

`Model/CTreeConc.lean` (`CC`) is kept as it is.  A configuration of the extended LTS (`CX`) is a
`CC.Cfg` (field `base`) plus, per thread, the additional state below.  Every transition of `CX`
either is a transition of `CC` on `base` whose guard is *strengthened* (so the projection of a
`CX` run is a `CC` run: `Lemmas/…`, theorem `reach_base`; all invariants of `CC` carry over) or
leaves `base` alone.

## What is added

1. **Panic outcomes.**  `panics v s l` is the condition under which the code of transition `l`
   would panic in Go although its thread is at that program point:
   * a held node that is no longer there (the model's form of a nil dereference on a node deleted
     concurrently): every transition that inspects `t.leafBranch` of the node on top of the lock
     stack (`rlockChild`, `termWrite`, `upgRelease`, `insert`, `clobber`, `addErr`, `getMiss`);
   * `rlockChild` of a query/walk whose next child (taken from the snapshot of child names made
     when the node was locked) is missing: `b[name].walkInternalSorted(…)` is a method call on a
     nil `*Tree` (for `Walk`/`Query`, whose `range` would skip the entry, this is flagged too);
   * `Children()`: the unchecked `t.leafBranch.(branch)` after `t.isBranch()` returned true
     (`getHit` of a root `Children` call whose recorded `isBranch` result was `true` while the
     root is not a branch any more);
   * variant `rc = false` only (`slowAdd` does not look at the node again after the
     `RUnlock → Lock` exchange but asserts `t.leafBranch.(branch)`): `insert` on a node that
     became a leaf in the upgrade window.
   In the code as it is (`rc = true`) `slowAdd` re-examines the node with a type switch
   (`nil` / `branch` / default → error), so the last case is the `addErr` transition.
   Every other `x.(T)` in `tree.go` is the comma-ok form or a type switch, every map read is
   nil-checked (`br := b[k]; if br == nil`), map writes go to a map obtained from the type switch
   in the same critical section.  A panic is absorbing (`next` of a panicked configuration is
   `none`: the process is gone).

2. **`sync.RWMutex` with writer preference.**  `Lock()` is two transitions: `announce`
   (`rw.w.Lock(); readerCount -= max`: from now on new `RLock()` calls on that mutex block) and
   the acquisition (the `CC` transition `termRoot`/`termWrite`/`upgAcquire`/`delete`/`hupd`, enabled
   when there is no other holder).  `RLock()` on a mutex is refused while another thread has
   announced a `Lock()` on it (`noPend`, `noPendH`).  (Go lets at most one writer be announced,
   further writers queue on `rw.w`; here every announced writer bars readers, which only blocks
   more.)  The per-node `RLock`s inside `internalDelete` are part of the atomic `delete`
   transition: its guard requires that no `Leaf.Update` is announced on a node it reads.

3. **Read-side operations.**
   * `Walk`, `WalkSorted`: base call `query []` tagged `Api.walk`/`Api.walkSorted` (the lock
     pattern of `walkInternal`/`walkInternalSorted` is that of `queryInternal(nil)`; the order in
     which children are visited is the list order of the model trie — the order is not part of
     the locking protocol).
   * `IsBranch`, `Value`, `Children` on the **root**: base call `get []` (`RLock`, look,
     `RUnlock`: `rlockRoot`, `getHit`, `unlock`, `ret`) tagged `Api.rootIsBranch` …, with the
     additional transition `rootCheck` = the call of `t.isBranch()`; `getHit` then stands for the
     rest of the body (for `Children`: `t.leafBranch.(branch)` and the copy of the map).
   * `Value`, `IsBranch`, `Children` on a non-root **leaf** node obtained from `Get` and
     `Leaf.Value` (`NKind`), as a node operation of several transitions: `nBegin` (the call; nil
     check), `nRLock` (`t.mu.RLock()`), `nRUnlock` (body + deferred `RUnlock`).  While a thread
     is between `nRLock` and `nRUnlock` it holds the node's read lock: writers of that node
     (`termWrite` onto it, `hupd`) wait.  `GetLeafValue(p)` is `Get(p)` (base call) followed by
     `nBegin … treeValue` on the handle obtained (on `nil`: no lock at all; on the root: tag
     `rootValue`).
   * variant `rv = true` (seeded change c10_seed7): `Tree.Value` calls the *locking* `IsBranch`:
     transition `nRLock2` = a second `RLock()` on the mutex the thread already read-holds.
   `Value/IsBranch/Children` on retained non-root **branch** nodes stay outside the model (node
   identity of detached branch nodes is not tracked); see `C10Safe.children_on_branch_races`
   for what goes wrong there in the code.
-/
namespace Gnmi
namespace CX
open Trie CC

structure Variant where
  /-- `slowAdd` re-examines the node after the lock upgrade (`true` = the code as it is) -/
  rc : Bool := true
  /-- `Tree.Value` calls the locking `IsBranch` (`false` = the code as it is) -/
  rv : Bool := false
deriving DecidableEq, Repr

/-- the code as it is -/
def real : Variant := {}

/-- which exported method the current base call of a thread stands for -/
inductive Api where
  | plain | walk | walkSorted | rootIsBranch | rootValue | rootChildren
deriving DecidableEq, Repr

def Api.isRoot : Api → Bool
  | .rootIsBranch | .rootValue | .rootChildren => true
  | _ => false

def Api.isWalk : Api → Bool
  | .walk | .walkSorted => true
  | _ => false

def apiOK : Api → Call → Bool
  | .plain, _ => true
  | .walk, c | .walkSorted, c => c == .query []
  | .rootIsBranch, c | .rootValue, c | .rootChildren, c => c == .get []

/-- node operations on a leaf node reached through a handle -/
inductive NKind where
  | treeValue | leafValue | isBranch | children
deriving DecidableEq, Repr

inductive NPc where
  | want | locked | locked2
deriving DecidableEq, Repr

structure NOp where
  h : Handle
  kind : NKind
  pc : NPc
deriving DecidableEq, Repr

/-- an announced `Lock()` -/
inductive Pend where
  | tree (x : Path)
  | handle (h : Handle) (v : Nat)
deriving DecidableEq, Repr

structure XThread where
  api : Api := .plain
  nop : Option NOp := none
  pend : Option Pend := none
  /-- result of `t.isBranch()` of a root node operation, once evaluated -/
  chk : Option Bool := none
  /-- what the last node operation saw -/
  nres : Shallow := .none
deriving DecidableEq, Repr

structure Cfg (n : Nat) where
  base : CC.Cfg n := {}
  xt : Fin n → XThread := fun _ => {}
  panic : Option (Fin n) := none

def init (n : Nat) : Cfg n := {}

inductive Label (n : Nat) where
  /-- a thread calls an exported method (`Api` tag + the base call it is modelled by) -/
  | call (τ : Fin n) (a : Api) (c : Call)
  /-- a transition of `CC` (any label but `invoke`) -/
  | b (l : CC.Label n)
  /-- first half of `t.mu.Lock()` at a tree lock site -/
  | announce (τ : Fin n)
  /-- first half of `l.mu.Lock()` of `Leaf.Update(v)` through handle `h` -/
  | announceH (τ : Fin n) (h : Handle) (v : Nat)
  /-- `t.isBranch()` inside a root `IsBranch`/`Value`/`Children` -/
  | rootCheck (τ : Fin n)
  | nBegin (τ : Fin n) (h : Handle) (k : NKind)
  | nRLock (τ : Fin n)
  | nRLock2 (τ : Fin n)
  | nRUnlock (τ : Fin n)
deriving Repr

def Label.tid {n : Nat} : Label n → Fin n
  | .call τ _ _ | .announce τ | .announceH τ _ _ | .rootCheck τ | .nBegin τ _ _ | .nRLock τ
  | .nRLock2 τ | .nRUnlock τ => τ
  | .b l => l.tid

variable {n : Nat}

def updX (s : Cfg n) (τ : Fin n) (x : XThread) : Cfg n :=
  { s with xt := fun σ => if σ = τ then x else s.xt σ }

/-! ### who has announced a `Lock()`, who read-holds a leaf node -/

/-- `σ` has announced a `Lock()` on the mutex of the attached node at path `x` -/
def pendOn (s : Cfg n) (σ : Fin n) (x : Path) : Bool :=
  match (s.xt σ).pend with
  | some (.tree y) => y == x
  | some (.handle h _) => h.path == x && attached s.base h
  | none => false

/-- `σ` has announced a `Lock()` on the mutex of the leaf node behind handle `h` -/
def pendOnH (s : Cfg n) (σ : Fin n) (h : Handle) : Bool :=
  match (s.xt σ).pend with
  | some (.tree y) => y == h.path && attached s.base h
  | some (.handle h' _) => h' == h
  | none => false

/-- `σ` is inside a node operation and read-holds the node behind `h` -/
def readsH (s : Cfg n) (σ : Fin n) (h : Handle) : Bool :=
  match (s.xt σ).nop with
  | some o => o.h == h && o.pc != .want
  | none => false

/-- … the attached node at path `x` -/
def readsOn (s : Cfg n) (σ : Fin n) (x : Path) : Bool :=
  match (s.xt σ).nop with
  | some o => o.h.path == x && attached s.base o.h && o.pc != .want
  | none => false

def noPend (s : Cfg n) (τ : Fin n) (x : Path) : Bool :=
  decide (∀ σ : Fin n, σ ≠ τ → pendOn s σ x = false)
def noPendH (s : Cfg n) (τ : Fin n) (h : Handle) : Bool :=
  decide (∀ σ : Fin n, σ ≠ τ → pendOnH s σ h = false)
def noReader (s : Cfg n) (τ : Fin n) (x : Path) : Bool :=
  decide (∀ σ : Fin n, σ ≠ τ → readsOn s σ x = false)
def noReaderH (s : Cfg n) (τ : Fin n) (h : Handle) : Bool :=
  decide (∀ σ : Fin n, σ ≠ τ → readsH s σ h = false)

/-- no `Leaf.Update` is announced on a node the delete `q` reads under that node's read lock -/
def pendTouches (s : Cfg n) (σ : Fin n) (q : Path) : Bool :=
  match (s.xt σ).pend with
  | some (.handle h _) => attached s.base h && decide (h.path ∈ touched s.base.trie q)
  | _ => false

def noPendTouched (s : Cfg n) (τ : Fin n) (q : Path) : Bool :=
  decide (∀ σ : Fin n, σ ≠ τ → pendTouches s σ q = false)

/-- neither inside a node operation nor with an announced `Lock()` -/
def xidle (s : Cfg n) (τ : Fin n) : Bool := (s.xt τ).nop.isNone && (s.xt τ).pend.isNone

/-! ### lock sites -/

/-- the tree node whose `Lock()` thread `τ` is about to call (`terminalAdd` on the root or on the
last node of the path, `DeleteConditional`/`WalkDeleted`, the `Lock()` of the upgrade) -/
def lockSite (rc : Bool) (s : CC.Cfg n) (τ : Fin n) : Option Path :=
  let th := s.thr τ
  match th.pc with
  | .start =>
      (match th.call with
       | .add [] _ => some []
       | .del _ _ => some []
       | _ => none)
  | .window => some th.cur
  | .run =>
      (match th.call, th.top with
       | .add _ _, some f =>
           if rc || f.mode == .R then
             (match restAt th.call f.node, get s.trie f.node with
              | [k], some nd => if hasChild nd k then some (f.node ++ [k]) else none
              | _, _ => none)
           else none
       | _, _ => none)
  | _ => none

/-- the lock a thread asks for next (mutex = node path, mode), whether or not it is free -/
def wants (rc : Bool) (s : CC.Cfg n) (τ : Fin n) : Option (Path × Mode) :=
  let th := s.thr τ
  match lockSite rc s τ with
  | some x => some (x, .W)
  | none =>
    match th.pc with
    | .start =>
        (match th.call with
         | .del _ _ => none
         | .add [] _ => none
         | _ => some ([], .R))
    | .run =>
        (match th.top with
         | some f =>
             if rc || f.mode == .R then
               (match nextChild th f, get s.trie f.node with
                | some k, some nd =>
                    if hasChild nd k then
                      (match th.call with
                       | .del _ _ => none
                       | _ => some (f.node ++ [k], .R))
                    else none
                | _, _ => none)
             else none
         | none => none)
    | _ => none

/-- the write-lock acquisitions of `CC` -/
def isWAcq : CC.Label n → Bool
  | .termRoot _ | .termWrite _ | .upgAcquire _ | .delete _ | .hupd _ _ _ => true
  | _ => false

/-- `τ` has announced the `Lock()` of its lock site and no node operation read-holds that node -/
def wAnnounced (v : Variant) (s : Cfg n) (τ : Fin n) : Bool :=
  match lockSite v.rc s.base τ, (s.xt τ).pend with
  | some x, some (.tree y) => x == y && noReader s τ x
  | _, _ => false

/-! ### guards -/

/-- what `CX` requires of a `CC` transition on top of `CC.guard` -/
def bguard (v : Variant) (s : Cfg n) : CC.Label n → Bool
  | .invoke _ _ => false
  | .rlockRoot τ => noPend s τ []
  | .rlockChild τ =>
      let th := s.base.thr τ
      (match th.top with
       | some f =>
           (match nextChild th f with
            | some k => noPend s τ (f.node ++ [k])
            | none => false)
       | none => false)
  | .termRoot τ | .termWrite τ | .upgAcquire τ => wAnnounced v s τ
  | .delete τ =>
      wAnnounced v s τ &&
      (match (s.base.thr τ).call with
       | .del q _ => noPendTouched s τ q
       | _ => false)
  | .hval τ h => xidle s τ && noPendH s τ h
  | .hupd τ h w => (s.xt τ).pend == some (.handle h w) && (s.xt τ).nop.isNone && noReaderH s τ h
  | .getHit τ => !(s.xt τ).api.isRoot || (s.xt τ).chk.isSome
  | .addErr τ =>
      v.rc || (match (s.base.thr τ).top with
               | some f => f.mode == .R
               | none => false)
  | _ => true

def guard (v : Variant) (s : Cfg n) : Label n → Bool
  | .call τ a c => CC.guard v.rc s.base (.invoke τ c) && xidle s τ && apiOK a c
  | .b l => CC.guard v.rc s.base l && bguard v s l
  | .announce τ =>
      (s.xt τ).pend.isNone && (s.xt τ).nop.isNone && (lockSite v.rc s.base τ).isSome
  | .announceH τ h _ => (s.base.thr τ).pc == .idle && xidle s τ && issued s.base h
  | .rootCheck τ =>
      (s.xt τ).api.isRoot && (s.base.thr τ).pc == .run && (s.xt τ).chk.isNone &&
      (s.base.thr τ).top.isSome
  | .nBegin τ h _ => (s.base.thr τ).pc == .idle && xidle s τ && issued s.base h
  | .nRLock τ =>
      (match (s.xt τ).nop with
       | some o => o.pc == .want && (!attached s.base o.h || rOK s.base τ o.h.path) && noPendH s τ o.h
       | none => false)
  | .nRLock2 τ =>
      v.rv &&
      (match (s.xt τ).nop with
       | some o => o.pc == .locked && o.kind == .treeValue && noPendH s τ o.h
       | none => false)
  | .nRUnlock τ =>
      (match (s.xt τ).nop with
       | some o => if v.rv && o.kind == .treeValue then o.pc == .locked2 else o.pc == .locked
       | none => false)

/-! ### panic outcomes -/

/-- `τ` is inside the critical section of the node on top of its lock stack, and that node is gone -/
def vanished (s : CC.Cfg n) (τ : Fin n) : Bool :=
  (s.thr τ).pc == .run &&
  (match (s.thr τ).top with
   | some f => (get s.trie f.node).isNone
   | none => false)

/-- the next child of a query/walk (from the snapshot of names) is not in the map any more -/
def childGone (s : CC.Cfg n) (τ : Fin n) : Bool :=
  let th := s.thr τ
  th.pc == .run &&
  (match th.call, th.top with
   | .query _, some f =>
       (match f.todo.head?, get s.trie f.node with
        | some k, some nd => !hasChild nd k
        | _, _ => false)
   | _, _ => false)

/-- `rc = false`: the node write-locked by the upgrade has become a leaf; `t.leafBranch.(branch)` -/
def staleKind (s : CC.Cfg n) (τ : Fin n) : Bool :=
  let th := s.thr τ
  th.pc == .run &&
  (match th.call, th.top with
   | .add _ _, some f =>
       f.mode == .W &&
       (match restAt th.call f.node, get s.trie f.node with
        | _ :: _, some nd => isLeaf nd
        | _, _ => false)
   | _, _ => false)

/-- root `Children()`: `isBranch()` said yes, the assertion `t.leafBranch.(branch)` fails -/
def badAssert (s : Cfg n) (τ : Fin n) : Bool :=
  (s.xt τ).api == .rootChildren && (s.base.thr τ).pc == .run &&
  (s.base.thr τ).top.isSome && (s.xt τ).chk == some true && !isBranch s.base.trie

def panics (v : Variant) (s : Cfg n) : Label n → Bool
  | .b (.rlockChild τ) => vanished s.base τ || childGone s.base τ
  | .b (.termWrite τ) | .b (.upgRelease τ) | .b (.clobber τ) | .b (.addErr τ) | .b (.getMiss τ) =>
      vanished s.base τ
  | .b (.insert τ) => vanished s.base τ || (!v.rc && staleKind s.base τ)
  | .b (.getHit τ) => badAssert s τ
  | _ => false

/-! ### effects -/

def eff (v : Variant) (s : Cfg n) : Label n → Cfg n
  | .call τ a c =>
      updX { s with base := CC.eff s.base (.invoke τ c) } τ { s.xt τ with api := a, chk := none }
  | .b l =>
      let s1 := { s with base := CC.eff s.base l }
      if isWAcq l then updX s1 l.tid { s.xt l.tid with pend := none } else s1
  | .announce τ => updX s τ { s.xt τ with pend := (lockSite v.rc s.base τ).map .tree }
  | .announceH τ h w => updX s τ { s.xt τ with pend := some (.handle h w) }
  | .rootCheck τ => updX s τ { s.xt τ with chk := some (isBranch s.base.trie) }
  | .nBegin τ h k => updX s τ { s.xt τ with nop := some ⟨h, k, .want⟩ }
  | .nRLock τ =>
      (match (s.xt τ).nop with
       | some o => updX s τ { s.xt τ with nop := some { o with pc := .locked } }
       | none => s)
  | .nRLock2 τ =>
      (match (s.xt τ).nop with
       | some o => updX s τ { s.xt τ with nop := some { o with pc := .locked2 } }
       | none => s)
  | .nRUnlock τ =>
      (match (s.xt τ).nop with
       | some o =>
           updX s τ { s.xt τ with nop := none,
                                  nres := if attached s.base o.h then shallow (get s.base.trie o.h.path)
                                          else .leaf (s.base.dead o.h) }
       | none => s)

/-- one transition: `none` = not enabled (or the process has panicked) -/
def next (v : Variant) (s : Cfg n) (l : Label n) : Option (Cfg n) :=
  if s.panic.isSome then none
  else if panics v s l then some { s with panic := some l.tid }
  else if guard v s l then some (eff v s l)
  else none

def Step (v : Variant) (s : Cfg n) (l : Label n) (s' : Cfg n) : Prop := next v s l = some s'

def exec (v : Variant) : Cfg n → List (Label n) → Option (Cfg n)
  | s, [] => some s
  | s, l :: ls => match next v s l with
      | some s' => exec v s' ls
      | none => none

inductive Reach (v : Variant) : Cfg n → Prop where
  | init : Reach v (init n)
  | step {s s' : Cfg n} {l : Label n} : Reach v s → Step v s l s' → Reach v s'

/-- a thread with an unfinished operation (of any kind) -/
def busy (s : Cfg n) (τ : Fin n) : Prop :=
  (s.base.thr τ).pc ≠ .idle ∨ (s.xt τ).nop ≠ none ∨ (s.xt τ).pend ≠ none

/-- labels that start a new operation (the environment's moves) -/
def isStart : Label n → Bool
  | .call _ _ _ | .announceH _ _ _ | .nBegin _ _ _ => true
  | .b (.hval _ _) => true
  | _ => false

end CX
end Gnmi
