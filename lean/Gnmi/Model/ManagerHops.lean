import Gnmi.Model.ManagerLTS
import Gnmi.Model.ManagerConn
/-!
# `createConn`, `uniqueNextHops`, `customizeRequest` (`manager/manager.go`)  (properties C13, C16)

`Model/ManagerLTS.lean` folds `createConn` into one program counter (`Pc.dial`, left through
`dialOk` / `dialFail`).  This file opens it up, *additively*: nothing of the existing LTS changes,
the hop-level relation `HStep` below wraps it and is proved to refine it (`Props/C13Hops.lean`).

    func (m *Manager) createConn(ctx, name, t) (conn *grpc.ClientConn, done func(), err error) {
        nhs := uniqueNextHops(t.GetAddresses())              -- a Go map: a set of strings
        if len(nhs) == 0 { return nil, func() {}, errors.New("target has no addresses …") }
        for nh := range nhs {                                 -- ANY order, each key once
            select {
            case <-ctx.Done(): return nil, func() {}, ctx.Err()
            default:
                connCtx := ctx
                if m.timeout > 0 { c, cancel := context.WithTimeout(ctx, m.timeout); connCtx = c; defer cancel() }
                conn, done, err = m.connectionManager.Connection(connCtx, nh, t.GetDialer())
                if err == nil { return }
            }
        }
        return                                                -- named results of the LAST call
    }

Modelling decisions (put `manager.go` next to this file):

* the map iteration is a list `order` of the key set — `IsIter addrs order`: no duplicates, the
  members are exactly `strings.Split(a, ";")[0]` for the addresses `a`; every statement quantifies
  over all such orders (each attempt may see another one);
* what a `Connection` call does is scripted per hop: `HopOut.ok` / `.fail` / `.slow` (the dial needs
  longer than `Config.Timeout`: with a timeout configured the call fails with the deadline of its
  `connCtx` — `HopRes.timedOut` —, without one it succeeds);  hypothesis on the
  `ConnectionManager`, built into the rules like the `Impl` hypothesis of C18: **every `Connection`
  call returns** (there is always a step for a call in flight);
* `select { case <-ctx.Done(): … default: … }` is one atomic look at the context (`HopSt.checked`):
  a context cancelled after the look does not stop the `Connection` call that follows, which may
  then fail early (`HopRes.cancelled`) or not, as the collaborators of `ManagerLTS` may;
* `defer cancel()` inside the loop: the deferred calls pile up (`HopSt.defers`, newest first) and run
  when `createConn` returns — **also on the successful return**: the `connCtx` the returned
  connection was dialled with is cancelled the moment the caller gets the connection.  The stream
  is opened on `ctx`, not on `connCtx` (`monitor`: `m.subscribe(sCtx, ta, conn)`), so the timeout
  never reaches the session; a `ConnectionManager` that keeps using the context after `Connection`
  returned would see it cancelled.  `connection.Manager` hands it to the `Dial` function only, and
  only until `Dial` returns (`grpc.DialContext` uses it for the duration of a blocking dial only):
  checked on the real code by the `mh sess` scenarios with `Config.Timeout` set;
* a successful `Connection` return is an acquisition (`HopSt.acq`, ghost), as in
  `Model/ManagerConn.lean`; a failing call acquires nothing (contract of `ConnectionManager`: "if an
  error is returned, done has no effect").

Core Lean only (linked into the driver executable through `Driver/MH.lean`).
-/
namespace Gnmi.Manager
namespace Hops

/-! ## `uniqueNextHops` -/

/-- `AddrSeparator` -/
def sepChar : Char := ';'

/-- `strings.Split(addrLine, AddrSeparator)[0]`: the part before the first separator (`Split` with a
non-empty separator returns at least one element: the index cannot panic). -/
def nextHopOf (addr : String) : String := String.ofList (addr.toList.takeWhile (· != sepChar))

/-- Keys of a map filled in list order: every string once. -/
def dedup : List String → List String
  | [] => []
  | a :: l => if a ∈ dedup l then dedup l else a :: dedup l

/-- `uniqueNextHops`: the key set (as some duplicate-free list). -/
def uniqueNextHops (addrs : List String) : List String := dedup (addrs.map nextHopOf)

/-- `order` is an iteration order of `uniqueNextHops addrs` (`for nh := range nhs`). -/
def IsIter (addrs order : List String) : Prop :=
  order.Nodup ∧ ∀ h, h ∈ order ↔ h ∈ addrs.map nextHopOf

/-! ## `createConn` as a function of its scripts -/

/-- What the environment scripts for a `Connection` call to a hop. -/
inductive HopOut
  | ok      -- returns a connection
  | fail    -- returns an error
  | slow    -- would return a connection, but only after more than `Config.Timeout`
  deriving DecidableEq, Repr, Inhabited

/-- What a `Connection` call returned. -/
inductive HopRes
  | connected   -- `err == nil`
  | failed
  | timedOut    -- the deadline of `connCtx` (`Config.Timeout`) expired
  | cancelled   -- failed early because `ctx` was cancelled meanwhile
  deriving DecidableEq, Repr, Inhabited

/-- The scripted result of a call, given whether `m.timeout > 0`. -/
def hopRes (tmo : Bool) : HopOut → HopRes
  | .ok => .connected
  | .fail => .failed
  | .slow => if tmo then .timedOut else .connected

/-- What `createConn` returns. -/
inductive Ret
  | conn (hop : String)      -- `conn, done, nil` of the `Connection` call for `hop`
  | noAddrs                  -- `nil, func() {}, errors.New("target has no addresses …")`
  | ctxErr                   -- `nil, func() {}, ctx.Err()`
  | lastErr (hop : String)   -- the named results of the last call: `conn, done, err` of `hop`
  deriving DecidableEq, Repr, Inhabited

structure Out where
  ret : Ret
  /-- the `Connection` calls made, oldest first -/
  calls : List (String × HopRes)
  /-- the calls whose `connCtx` was a timeout context: all of them are cancelled by the deferred
  `cancel()`s when `createConn` returns (newest first: deferred calls run last-in first-out) -/
  defers : List Nat
  deriving DecidableEq, Repr

/-- successful `Connection` returns = handles acquired -/
def acquiredIn (calls : List (String × HopRes)) : Nat := (calls.filter (·.2 = .connected)).length

def Out.acquired (o : Out) : Nat := acquiredIn o.calls

/-- the hops called, in call order -/
def Out.hops (o : Out) : List String := o.calls.map (·.1)

def Ret.isConn : Ret → Bool
  | .conn _ => true
  | _ => false

/-- The loop.  `ctxDone k` = the context is done at the `select` before the call number `k`. -/
def loop (tmo : Bool) (out : String → HopOut) (ctxDone : Nat → Bool) :
    List String → List (String × HopRes) → List Nat → Out
  | [], calls, defers =>
      -- fell out of the loop: the named results hold what the last call returned
      ⟨match calls.getLast? with
        | some (h, _) => .lastErr h
        | none => .noAddrs, calls, defers⟩
  | h :: r, calls, defers =>
      if ctxDone calls.length then ⟨.ctxErr, calls, defers⟩
      else
        let defers' := if tmo then calls.length :: defers else defers
        match hopRes tmo (out h) with
        | .connected => ⟨.conn h, calls ++ [(h, .connected)], defers'⟩
        | res => loop tmo out ctxDone r (calls ++ [(h, res)]) defers'

/-- `createConn` over the iteration order `hops`. -/
def createConn (tmo : Bool) (hops : List String) (out : String → HopOut) (ctxDone : Nat → Bool) : Out :=
  if hops = [] then ⟨.noAddrs, [], []⟩ else loop tmo out ctxDone hops [] []

/-! ## The hop-level LTS: `Pc.dial` opened up -/

/-- The script of one attempt's `createConn`. -/
structure HopScript where
  order : List String := []
  out : String → HopOut := fun _ => .fail

instance : Inhabited HopScript := ⟨{}⟩

/-- Every hop of the script fails (given the timeout setting). -/
def HopScript.AllFail (tmo : Bool) (s : HopScript) : Prop :=
  ∀ h ∈ s.order, hopRes tmo (s.out h) ≠ .connected

instance (tmo : Bool) (s : HopScript) : Decidable (s.AllFail tmo) := by
  unfold HopScript.AllFail; infer_instance

/-- The part of a monitor goroutine's state that `createConn` adds. -/
structure HopSt where
  script : HopScript := {}                  -- of the attempt in progress
  todo : List String := []                  -- keys the `range` has not yielded yet
  checked : Bool := false                   -- past the `select` (default arm), `Connection` not yet returned
  calls : List (String × HopRes) := []      -- this `createConn`'s calls so far (ghost)
  defers : List Nat := []                   -- deferred `cancel()`s of this `createConn`, newest first
  sawCancel : Bool := false                 -- ghost: some call of this `createConn` failed on a cancelled `ctx`
  acq : Nat := 0                            -- ghost: successful `Connection` returns of this goroutine, ever

instance : Inhabited HopSt := ⟨{}⟩

def HopSt.enter (H : HopSt) : HopSt :=
  { H with todo := H.script.order, checked := false, calls := [], defers := [], sawCancel := false }

/-- past the `select` (default arm): `connCtx`, and with `Config.Timeout` a `defer cancel()` -/
def HopSt.afterCheck (tmo : Bool) (H : HopSt) : HopSt :=
  { H with checked := true, defers := if tmo then H.calls.length :: H.defers else H.defers }

def HopSt.afterCall (H : HopSt) (h : String) (r : List String) (res : HopRes) : HopSt :=
  { H with todo := r, checked := false, calls := H.calls ++ [(h, res)],
           sawCancel := H.sawCancel || decide (res = .cancelled),
           acq := if res = .connected then H.acq + 1 else H.acq }

/-- `createConn returned an error`: what `monitor` does next (`if err != nil { return }`, then the
deferred `m.connectError`). -/
def dialErr (I : Inst) : Inst := { I with pc := .connErr 0 false false }

/-- A failing call: what the script says, or an early failure on a cancelled context. -/
def FailRes (tmo : Bool) (I : Inst) (H : HopSt) (h : String) (res : HopRes) : Prop :=
  (res = hopRes tmo (H.script.out h) ∧ res ≠ .connected) ∨ (res = .cancelled ∧ I.ctxDone = true)

/-- Steps of the `retryMonitor` goroutine of one instance at hop level.  `next` / `nextH`: the
script entries the next attempt would get. -/
inductive HMonStep (tmo : Bool) (next : Attempt) (nextH : HopScript) :
    Inst → HopSt → MLabel → Inst → HopSt → Prop
  /-- any step that neither starts an attempt nor touches `createConn` -/
  | lift {I I' : Inst} {H : HopSt} {l : MLabel} : MonStep next I l I' → I.pc ≠ .dial → I'.pc ≠ .dial →
      l ≠ .begin_ → HMonStep tmo next nextH I H l I' H
  /-- the timer arm: the next attempt starts, with its hop script -/
  | begin_ {I I' : Inst} {H : HopSt} : MonStep next I .begin_ I' →
      HMonStep tmo next nextH I H .begin_ I' { H with script := nextH }
  /-- `monitor` calls `createConn`: `nhs := uniqueNextHops(…)` -/
  | enter {I I' : Inst} {H : HopSt} {l : MLabel} : MonStep next I l I' → I'.pc = .dial →
      HMonStep tmo next nextH I H l I' H.enter
  /-- `if len(nhs) == 0 { return nil, func() {}, errors.New(…) }` -/
  | noHops {I : Inst} {H : HopSt} : I.pc = .dial → H.script.order = [] →
      HMonStep tmo next nextH I H .tau (dialErr I) H
  /-- `case <-ctx.Done(): return nil, func() {}, ctx.Err()` -/
  | ctxErr {I : Inst} {H : HopSt} {h : String} {r : List String} : I.pc = .dial → H.todo = h :: r →
      H.checked = false → I.ctxDone = true → HMonStep tmo next nextH I H .tau (dialErr I) H
  /-- `default:` the context is not done; `connCtx`, `defer cancel()` -/
  | check {I : Inst} {H : HopSt} {h : String} {r : List String} : I.pc = .dial → H.todo = h :: r →
      H.checked = false → I.ctxDone = false →
      HMonStep tmo next nextH I H .tau I (H.afterCheck tmo)
  /-- `Connection` returns `err == nil`: `return` (no guard on the context, as `MonStep.dialOk`) -/
  | hopOk {I : Inst} {H : HopSt} {h : String} {r : List String} : I.pc = .dial → H.todo = h :: r →
      H.checked = true → hopRes tmo (H.script.out h) = .connected →
      HMonStep tmo next nextH I H .tau { I with pc := .open_ } (H.afterCall h r .connected)
  /-- `Connection` returns an error and the `range` has more keys -/
  | hopFail {I : Inst} {H : HopSt} {h : String} {r : List String} {res : HopRes} : I.pc = .dial →
      H.todo = h :: r → H.checked = true → FailRes tmo I H h res → r ≠ [] →
      HMonStep tmo next nextH I H .tau I (H.afterCall h r res)
  /-- `Connection` returns an error for the last key: the loop ends, `return` (named results) -/
  | hopFailLast {I : Inst} {H : HopSt} {h : String} {res : HopRes} : I.pc = .dial →
      H.todo = [h] → H.checked = true → FailRes tmo I H h res →
      HMonStep tmo next nextH I H .tau (dialErr I) (H.afterCall h [] res)

/-- Hop-level configuration: the configuration of `ManagerLTS` plus the `createConn` state of every
goroutine. -/
structure HCfg where
  c : Cfg := {}
  hop : Nat → HopSt := fun _ => {}

def HCfg.init : HCfg := {}

/-- The hop-level transition relation.  `henv name k` = the hop script of the `k`-th attempt made
for `name`. -/
inductive HStep (tmo : Bool) (env : Name → Nat → Attempt) (henv : Name → Nat → HopScript) :
    HCfg → Label → HCfg → Prop
  /-- a step of the `retryMonitor` goroutine of instance `i` -/
  | mon {hc : HCfg} (i : Nat) {l : MLabel} {I' : Inst} {H' : HopSt} :
      HMonStep tmo (env (hc.c.insts i).name (hc.c.nextAtt (hc.c.insts i).name))
        (henv (hc.c.insts i).name (hc.c.nextAtt (hc.c.insts i).name)) (hc.c.insts i) (hc.hop i) l I' H' →
      HStep tmo env henv hc (l.toLabel (hc.c.insts i).name) ⟨hc.c.applyMon i l I', upd hc.hop i H'⟩
  /-- any step of `ManagerLTS.Step` in which no live goroutine moves: `Add`, `Remove`, `Reconnect`,
  the receive timer, the pending `Reconnect`s -/
  | other {hc : HCfg} {l : Label} {c' : Cfg} : Step env hc.c l c' →
      (∀ k, (hc.c.insts k).pc ≠ .done → (c'.insts k).pc = (hc.c.insts k).pc) →
      HStep tmo env henv hc l ⟨c', hc.hop⟩

/-- Reachable hop-level configurations, with the connection ledger of `Model/ManagerConn.lean`. -/
inductive HReach (tmo : Bool) (env : Name → Nat → Attempt) (henv : Name → Nat → HopScript) :
    HCfg → Ghost → Prop
  | init : HReach tmo env henv HCfg.init Ghost.init
  | step {hc hc' : HCfg} {g : Ghost} {l : Label} : HReach tmo env henv hc g → HStep tmo env henv hc l hc' →
      HReach tmo env henv hc' (ghostNext hc.c hc'.c g)

/-- Hop-level runs. -/
inductive HRun (tmo : Bool) (env : Name → Nat → Attempt) (henv : Name → Nat → HopScript) :
    HCfg → List Label → HCfg → Prop
  | nil (hc : HCfg) : HRun tmo env henv hc [] hc
  | cons {hc hc' hc'' : HCfg} {l : Label} {ls : List Label} : HStep tmo env henv hc l hc' →
      HRun tmo env henv hc' ls hc'' → HRun tmo env henv hc (l :: ls) hc''

/-- The two scripts fit: an attempt is scripted as `dialFail` exactly when every hop of its hop
script fails (attempts that never reach `createConn` — `metaErr` — carry any hop script). -/
def Agree (tmo : Bool) (a : Attempt) (s : HopScript) : Prop :=
  a ≠ .metaErr → (a = .dialFail ↔ s.AllFail tmo)

def EnvAgree (tmo : Bool) (env : Name → Nat → Attempt) (henv : Name → Nat → HopScript) : Prop :=
  ∀ n k, Agree tmo (env n k) (henv n k)

/-! ## The sequential schedule of `createConn` (what the driver executes) -/

/-- The goroutine's next step inside `createConn` when nobody interferes: collaborators follow
their script (`none`: not in `createConn`, or — unreachable — the `range` is exhausted). -/
def hopNext (tmo : Bool) (I : Inst) (H : HopSt) : Option (Inst × HopSt) :=
  if I.pc ≠ .dial then none
  else if H.script.order = [] then some ((dialErr I), H)
  else match H.todo with
    | [] => none
    | h :: r =>
      if H.checked = false then
        if I.ctxDone = true then some ((dialErr I), H)
        else some (I, H.afterCheck tmo)
      else
        let res := hopRes tmo (H.script.out h)
        if res = .connected then some ({ I with pc := .open_ }, H.afterCall h r .connected)
        else if r = [] then some ((dialErr I), H.afterCall h [] res)
        else some (I, H.afterCall h r res)

/-- Iterate `hopNext` until `createConn` has returned. -/
def hopRun (tmo : Bool) : Nat → Inst → HopSt → Inst × HopSt
  | 0, I, H => (I, H)
  | fuel + 1, I, H =>
    match hopNext tmo I H with
    | some (I', H') => hopRun tmo fuel I' H'
    | none => (I, H)

/-! ## `customizeRequest` on a small heap of `gpb.Path` objects

`proto.Clone` makes a deep copy; the only object `customizeRequest` then writes to is the prefix
`Path` of the copy.  To be able to say "the configured request is not mutated" the prefix path is
modelled as a heap object; everything else of the request is a value. -/

structure PathObj where
  target : String := ""
  origin : String := ""
  elems : List String := []
  deriving DecidableEq, Repr, Inhabited

/-- `SubscriptionList` as far as `customizeRequest` and the harness look at it. -/
structure SubList where
  pfx : Option Nat              -- pointer to the prefix `Path` (nil: none)
  paths : List (List String)    -- the subscription paths
  mode : Nat                    -- the remaining scalar fields, opaque
  deriving DecidableEq, Repr, Inhabited

/-- `SubscribeRequest.Request` -/
inductive Req
  | subscribe (s : SubList)
  | poll
  | unset                       -- no oneof member set (`GetSubscribe() == nil` as for `poll`)
  deriving DecidableEq, Repr, Inhabited

structure Heap where
  paths : Nat → Option PathObj := fun _ => none
  next : Nat := 0               -- allocation pointer: addresses `< next` are in use

/-- allocate a `Path` -/
def Heap.alloc (h : Heap) (p : PathObj) : Heap × Nat :=
  ({ paths := fun a => if a = h.next then some p else h.paths a, next := h.next + 1 }, h.next)

/-- write through a pointer -/
def Heap.set (h : Heap) (a : Nat) (p : PathObj) : Heap :=
  { h with paths := fun b => if b = a then some p else h.paths b }

/-- `proto.Clone(sr)`: a fresh copy of every object. -/
def cloneReq (h : Heap) : Req → Heap × Req
  | .subscribe s =>
    match s.pfx with
    | none => (h, .subscribe s)
    | some a =>
      match h.paths a with
      | none => (h, .subscribe s)                       -- dangling: not produced by the harness
      | some p => let (h', a') := h.alloc p; (h', .subscribe { s with pfx := some a' })
  | r => (h, r)

/-- `customizeRequest(target, sr)` -/
def customizeRequest (h : Heap) (target : String) (sr : Req) : Heap × Req :=
  let (h₁, cl) := cloneReq h sr
  match cl with
  | .subscribe s =>
    match s.pfx with
    | some a =>
      match h₁.paths a with
      | some p => (h₁.set a { p with target := target }, .subscribe s)      -- `p.Target = target`
      | none => (h₁, .subscribe s)
    | none =>
      let (h₂, a) := h₁.alloc { target := target }                           -- `s.Prefix = &gpb.Path{Target: target}`
      (h₂, .subscribe { s with pfx := some a })
  | r => (h₁, r)

/-- The request as a value: what goes on the wire. -/
structure WireSub where
  pfx : Option PathObj
  paths : List (List String)
  mode : Nat
  deriving DecidableEq, Repr

inductive WireReq
  | subscribe (s : WireSub)
  | poll
  | unset
  deriving DecidableEq, Repr

def Heap.wire (h : Heap) : Req → WireReq
  | .subscribe s => .subscribe { pfx := s.pfx.bind h.paths, paths := s.paths, mode := s.mode }
  | .poll => .poll
  | .unset => .unset

/-- What the specification says is sent: the configured request with `prefix.target := name`. -/
def WireReq.withTarget (target : String) : WireReq → WireReq
  | .subscribe s =>
    .subscribe { s with pfx := some (match s.pfx with
                                      | some p => { p with target := target }
                                      | none => { target := target }) }
  | r => r

end Hops
end Gnmi.Manager
