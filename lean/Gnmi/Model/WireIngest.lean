import Gnmi.Model.RecvSurfaces
import Gnmi.Model.Cache
/-!
# From the wire to the cache: the translation the Go code performs implicitly (property C12)

`Model/RecvSurfaces.lean` speaks about *decoded protobuf messages* (`RX.Notification`: optional
prefix, both path encodings, keys as a Go map, `TypedValue` oneof, nil entries);
`Model/Cache.lean` speaks about what the cache *reads* from such a message (`Cache.Noti`: index
paths, origin, value reduced to what `value.Equal` looks at, canonical raw renderings standing for
`proto.Equal`).  Between the two the Go code has no function: the reduction is spread over
`cache.go` (`joinPrefixAndPath` → `path.ToStrings(prefix, true)` / `(suffix, false)`,
`n.GetPrefix().GetTarget()`, `u.GetVal().GetValue().(type)`, `value.Equal`, `proto.Equal`).  Up to
now it was performed by the correspondence harness (`go/vcorr/gnmipb.go: gNoti.token`) — i.e. it was
part of the trusted base.  This file states it in Lean:

* `toNoti enc n : Bool × Cache.Noti` — `(n.Prefix == nil, what the cache reads from n)`, written
  against the model of `path.ToStrings` that C19 is about (`PV.toStrings`, so
  `C19.toStrings_perm_invariant` etc. apply: `Props/C12Wire.lean: toNoti_key_order`);
* `wireGnmiUpdate` — `Cache.GnmiUpdate` on a decoded message (the nil checks of `GnmiUpdate`, the
  only partial operation the index form hides — `n.Update[0].Path` on a nil entry — then
  `State.gnmiUpdate` of the translation);
* `mgrRecv` / `mgrSession` — the body of `manager.handleUpdates` for one response / a whole
  stream as `cmd/gnmi_collector` wires it (`Update` closure with or without the target stamping,
  `Sync = cache.Sync`, `Connect = cache.Connect`; an error returned by `handleGNMIUpdate` is
  logged and the loop goes on);
* `subscribeStream` — `subscribe.Server.Subscribe` for a whole request *stream*: the first
  request and every later one (read `subscribe.go`: ONCE and STREAM never call `stream.Recv`
  again; POLL reads on and *ignores the content* of what it reads — "Subsequent receives are only
  triggers to poll again. The contents of the request are completely ignored").

The raw renderings follow `go/vcorr/gnmipb.go` (`gPath.raw`, `gVal.raw`, `gUpd.raw`) — the format
`Cache.metaNoti` / `rawPrefixOfTarget` already use for the notifications the cache generates
itself, so that a message from a peer and an internally generated one compare as `proto.Equal`
compares them.  Two extensions for fields the `ca` generator never sets: the deprecated
`Update.value` (`#v<type>:<hex>` appended) and the content of an `any_val` (`x:any:<hex>`).

`FloatBits` gives the bit patterns of the abstract float types (`math.Float32bits/64bits`): the
cache model compares floats on bit patterns (`Cache.floatBitsEq`).  Theorems hold for every
instance; only the driver instantiates it.

Core Lean only (compiled into the driver).
-/
namespace Gnmi.Wire
open Gnmi.PV (GPath PathElem TV FloatOps Bytes toStrings getOrigin)
open Gnmi.RX (Notification Update Response Request OldValue Outcome ErrClass MgrEvent CacheView SubOut)
open Gnmi.Cache (Noti Upd Del Val State Res Event metaNoti metaRoot deleteNotiOf)

/-- `math.Float32bits` / `math.Float64bits` -/
class FloatBits (F D : Type) where
  bits32 : F → Nat
  bits64 : D → Nat

variable {F D : Type} [FloatBits F D]

/-! ## canonical renderings (stand for `proto.Equal`) -/

/-- lower-case hex digit (`encoding/hex`) -/
def hexDigit (n : Nat) : Char := if n < 10 then Char.ofNat (48 + n) else Char.ofNat (87 + n)

/-- `hex.EncodeToString` -/
def hexBytes (b : Bytes) : String :=
  String.ofList (b.flatMap (fun x => [hexDigit (x.toNat / 16), hexDigit (x.toNat % 16)]))

/-- `hex.EncodeToString([]byte(s))` -/
def hexString (s : String) : String := hexBytes s.toUTF8.toList

/-- an optional string field: empty = absent -/
def rawField (enc : String → String) (s : String) : String := if s = "" then "" else enc s

/-- a `PathElem`: name, then `[key=value]` in key order (a Go map has no order of its own) -/
def rawElem (enc : String → String) (e : PathElem) : String :=
  enc e.name ++ String.join ((e.key.mergeSort (fun a b => decide (a.1 ≤ b.1))).map
    (fun kv => "[" ++ enc kv.1 ++ "=" ++ enc kv.2 ++ "]"))

/-- a `*gnmi.Path`: every field (`origin`, `target`, `elem`, deprecated `element`) -/
def rawPath (enc : String → String) : Option GPath → String
  | none => "nil"
  | some p =>
    "o=" ++ rawField enc p.origin ++ ";t=" ++ rawField enc p.target ++
    ";e=" ++ ",".intercalate (p.elem.map (rawElem enc)) ++ ";l=" ++ ",".intercalate (p.element.map enc)

/-- a float field as `proto.Equal` sees it: `+0 = -0`, all NaNs equal -/
def rawFloatBits (expBits manBits : Nat) (tag : String) (b : Nat) : String :=
  if Cache.isNaNBits expBits manBits b then tag ++ ":nan"
  else if Cache.isZeroBits expBits manBits b then tag ++ ":0"
  else tag ++ ":" ++ toString b

mutual
/-- a `*gnmi.TypedValue` -/
def rawTV (enc : String → String) : TV F D → String
  | .nilMsg => "absent"
  | .unset => "unset"
  | .stringVal s => "s:" ++ enc s
  | .intVal i => "i:" ++ toString i
  | .uintVal n => "u:" ++ toString n
  | .boolVal b => "b:" ++ toString b
  | .bytesVal b => "y:" ++ hexBytes b
  | .floatVal f => rawFloatBits 8 23 "f" (FloatBits.bits32 (D := D) f)
  | .doubleVal d => rawFloatBits 11 52 "d" (FloatBits.bits64 (F := F) d)
  | .decimalVal d p => "m:" ++ toString d ++ ":" ++ toString p
  | .decimalNil => "m:0:0"
  | .leaflistVal l => "l:(" ++ ",".intercalate (rawTVs enc l) ++ ")"
  | .leaflistNil => "l:()"
  | .anyVal b => "x:any:" ++ hexBytes b
  | .jsonVal b => "x:json:" ++ hexBytes b
  | .jsonIetfVal b => "x:jsonietf:" ++ hexBytes b
  | .asciiVal s => "x:ascii:" ++ hexString s
  | .protoBytes b => "x:protobytes:" ++ hexBytes b
def rawTVs (enc : String → String) : List (TV F D) → List String
  | [] => []
  | a :: r => rawTV enc a :: rawTVs enc r
end

/-- deprecated `Update.value` -/
def rawOld (v : OldValue) : String := "#v" ++ toString v.type ++ ":" ++ hexBytes v.value

/-- a `*gnmi.Update`: path, value, duplicates, deprecated value -/
def rawUpd (enc : String → String) (u : Update F D) : String :=
  rawPath enc u.path ++ "#" ++ rawTV enc u.val ++ "#" ++ toString u.dup ++
    (match u.value with
     | none => ""
     | some v => rawOld v)

/-! ## what the cache reads from a value (`value.Equal`, the type assertions under `meta/`) -/

/-- one oneof arm as `value.Equal` sees it.  Arms it "does not consider" (JSON, ASCII, any,
proto_bytes) and a leaf-list *inside* a leaf-list become `Scalar.other` (never equal to
anything; for a nested leaf-list Go's `Equal` recurses instead: the only place where the cache
model's value fragment is coarser than the code — suppression of an unchanged nested list) -/
def toScalar (enc : String → String) : TV F D → Cache.Scalar
  | .nilMsg => .unset                                  -- a nil element (not WireValid)
  | .unset => .unset
  | .stringVal s => .str s
  | .intVal i => .int i
  | .uintVal n => .uint n
  | .boolVal b => .bool b
  | .bytesVal b => .bytes (hexBytes b)
  | .floatVal f => .float (FloatBits.bits32 (D := D) f)
  | .doubleVal d => .double (FloatBits.bits64 (F := F) d)
  | .decimalVal d p => .decimal d p
  | .decimalNil => .decimal 0 0                        -- nil payload (not WireValid)
  | .leaflistVal l => .other "list" (rawTV enc (.leaflistVal l))
  | .leaflistNil => .other "list" "l:()"
  | .anyVal b => .other "any" (hexBytes b)
  | .jsonVal b => .other "json" (hexBytes b)
  | .jsonIetfVal b => .other "jsonietf" (hexBytes b)
  | .asciiVal s => .other "ascii" (hexString s)
  | .protoBytes b => .other "protobytes" (hexBytes b)

/-- `Update.Val` -/
def toVal (enc : String → String) : TV F D → Val
  | .nilMsg => .absent
  | .leaflistVal l => .leaflist (l.map (toScalar enc))
  | .leaflistNil => .leaflist []
  | v => .scalar (toScalar enc v)

/-! ## `toNoti` -/

/-- `(*Path).GetTarget()` (nil-safe) -/
def getTarget : Option GPath → String
  | none => ""
  | some p => p.target

/-- an entry of `Notification.Update`; a nil entry (not WireValid) has nothing to read — the one
place where the cache dereferences it is modelled in `nilUpdateHit` -/
def toUpd (enc : String → String) : Option (Update F D) → Upd
  | none => { raw := "nil-entry" }
  | some u =>
    { origin := getOrigin u.path, path := toStrings u.path false, val := toVal enc u.val, raw := rawUpd enc u }

/-- an entry of `Notification.Delete` (`path.ToStrings` and `GetOrigin` are nil-safe) -/
def toDel (enc : String → String) (d : Option GPath) : Del :=
  { origin := getOrigin d, path := toStrings d false, raw := rawPath enc d }

/-- **The translation.**  First component: `n.GetPrefix() == nil`. -/
def toNoti (enc : String → String) (n : Notification F D) : Bool × Noti :=
  (n.pfx.isNone,
   { ts := n.ts, target := getTarget n.pfx, origin := getOrigin n.pfx, pfx := toStrings n.pfx false,
     praw := rawPath enc n.pfx, atomic := n.atomic,
     upd := n.update.map (toUpd enc), del := n.delete.map (toDel enc) })

/-- `joinPrefixAndPath(prefix, suffix)` as `cache.go` writes it:
`p := path.ToStrings(prefix, true); p = append(p, path.ToStrings(suffix, false)...); return p[1:]`;
`none` = the slice expression panics -/
def joinPrefixAndPath (pfx suffix : Option GPath) : Option Path :=
  match toStrings pfx true ++ toStrings suffix false with
  | [] => none
  | _ :: r => some r

/-! ## `Cache.GnmiUpdate` on a decoded message -/

/-- does `Target.GnmiUpdate(n)` evaluate `n.Update[0].Path` on a nil entry?  (atomic: only the
first entry is read, and only when there is no delete; otherwise every update is handed to
`gnmiUpdate` as `Update[0]` of its own notification) -/
def nilUpdateHit (n : Notification F D) : Bool :=
  if n.atomic then
    n.delete.isEmpty && (match n.update with
      | none :: _ => true
      | _ => false)
  else n.update.any (·.isNone)

/-- `Cache.GnmiUpdate(n)`: `n == nil` and `n.GetPrefix() == nil` are errors, an unknown target is
an error, then `Target.GnmiUpdate` -/
def wireGnmiUpdate (enc : String → String) (s : State) (now : Int) :
    Option (Notification F D) → Res × State × List (List Event)
  | none => (.err, s, [])
  | some n =>
    let c := toNoti enc n
    if !c.1 && (s.get c.2.target).isSome && nilUpdateHit n then (.panic, s, [])
    else s.gnmiUpdate now c.1 c.2

/-! ## the target manager's receive loop as the collector wires it -/

/-- how `manager.Config.Update` is set -/
inductive Wiring where
  | plain          -- `Update: func(_ string, n *gpb.Notification) { cache.GnmiUpdate(n) }`
  | collector      -- the closure of `cmd/gnmi_collector`: stamp target and default origin first
deriving DecidableEq, Repr, Inhabited

def defaultOrigin : String := "openconfig"

/-- the stamping half of the collector's `Update` closure:
```go
if prefix := v.GetPrefix(); prefix == nil {
    v.Prefix = &gnmipb.Path{Origin: "openconfig", Target: target}
} else {
    if prefix.Origin == "" { prefix.Origin = "openconfig" }
    prefix.Target = target
}
``` -/
def stampWire (target : String) (n : Notification F D) : Notification F D :=
  match n.pfx with
  | none => { n with pfx := some { origin := defaultOrigin, target := target } }
  | some p =>
    { n with pfx := some { p with origin := if p.origin = "" then defaultOrigin else p.origin, target := target } }

/-- what the loop did with one response -/
inductive Handled where
  | update (r : Res)          -- `m.update`; the result of `cache.GnmiUpdate` (dropped by the closure)
  | sync                      -- `m.sync`
  | logged (e : ErrClass)     -- `handleGNMIUpdate` returned an error: logged, the loop goes on
deriving DecidableEq, Repr

/-- does the `GnmiUpdate` inside `cache.Sync(name)` reach a panic (same expression as the `sync`
arm of `C12.panics`) -/
def syncPanics (enc : String → String) (s : State) (name : String) (now : Int) : Bool :=
  match s.get name with
  | none => false
  | some t => decide ((t.gnmiUpdate s.cfg now (metaNoti enc name "sync" (.bool true) now)).1 = .panic)

/-- the same for `cache.Connect(name)` (the `connect` arm of `C12.panics`) -/
def connectPanics (enc : String → String) (s : State) (name : String) (now : Int) : Bool :=
  match s.get name with
  | none => false
  | some t =>
    let r := t.gnmiUpdate s.cfg now (metaNoti enc name "connected" (.bool true) now)
    decide (r.1 = .panic) ||
    decide ((r.2.1.gnmiUpdate s.cfg now (deleteNotiOf enc name [metaRoot, "connectError"] now)).1 = .panic)

/-- `m.handleGNMIUpdate(name, resp)` with the collector's callbacks, as called from
`handleUpdates`: new cache state and feed events; `panic` = the process is gone -/
def mgrRecv (enc : String → String) (w : Wiring) (now : Int) (name : String) (s : State)
    (r : Response F D) : Outcome (Handled × State × List Event) :=
  match RX.handleGNMIUpdate r with
  | .panic => .panic
  | .err e => .ok (.logged e, s, [])
  | .ok .sync =>
    if syncPanics enc s name now then .panic
    else let x := s.sync enc name now; .ok (.sync, x.1, x.2)
  | .ok (.update none) =>
    (match w with
     | .plain => .ok (.update .err, s, [])            -- `Cache.GnmiUpdate(nil)`: an error
     | .collector => .panic)                           -- `v.Prefix = …` on the nil notification
  | .ok (.update (some n)) =>
    let x := wireGnmiUpdate enc s now (some (match w with
      | .plain => n
      | .collector => stampWire name n))
    if x.1 = .panic then .panic else .ok (.update x.1, x.2.1, Cache.flattenGroups x.2.2)

/-- what a session produced -/
structure SessionOut where
  handled : List Handled := []
  state : State
  events : List Event := []

/-- the loop of `handleUpdates` over a scripted stream (`nows`: the clock reading at each
response): `m.connect(name)` before the first response is handled, then `handleGNMIUpdate` -/
def mgrLoop (enc : String → String) (w : Wiring) (name : String) :
    Bool → List (Int × Response F D) → SessionOut → Outcome SessionOut
  | _, [], acc => .ok acc
  | connected, (now, r) :: rest, acc =>
    if !connected && connectPanics enc acc.state name now then .panic
    else
      let c := if connected then (acc.state, []) else acc.state.connect enc name now
      match mgrRecv enc w now name c.1 r with
      | .panic => .panic
      | .err e => .err e
      | .ok (h, s', evs) =>
        mgrLoop enc w name true rest
          { handled := acc.handled ++ [h], state := s', events := acc.events ++ c.2 ++ evs }

def mgrSession (enc : String → String) (w : Wiring) (name : String) (s : State)
    (rs : List (Int × Response F D)) : Outcome SessionOut :=
  mgrLoop enc w name false rs { state := s }

/-! ## the Subscribe handler over a whole request stream -/

section subscribeStream
variable {F D : Type}

/-- is the (first) request a POLL subscription? -/
def isPollReq : Request → Bool
  | .subscribe (some s) => s.mode == 2
  | _ => false

/-- what the RPC produced over its lifetime -/
structure StreamOut where
  /-- the walk started by the first request, then one per poll trigger -/
  rounds : List SubOut := []
  /-- how many of the later requests `stream.Recv` handed to the handler -/
  reads : Nat := 0
deriving DecidableEq, Repr, Inhabited

/-- `processPollingSubscription` after the first walk: `for { _, err := c.stream.Recv(); …;
s.processSubscription(c) }`.  The received message is discarded unread (`_`), whatever it is — a
poll, another `SubscriptionList`, an unset oneof, even a nil pointer; `processSubscription` walks
`c.sr`, the *first* request, again.  The script ends with `io.EOF`: the RPC returns nil.
`dup k` is the coalescing schedule of round `k`. -/
def pollRounds (c : CacheView F D) (noDup : Bool) (dup : Nat → Nat → Nat) (first : Request) :
    Nat → List Request → Outcome StreamOut
  | _, [] => .ok {}
  | k, _ :: rest =>
    match RX.subscribe c noDup (dup k) first with
    | .ok o =>
      if o.synced then
        match pollRounds c noDup dup first (k + 1) rest with
        | .ok so => .ok { rounds := o :: so.rounds, reads := so.reads + 1 }
        | .err e => .err e
        | .panic => .panic
      else .ok { rounds := [o], reads := 1 }           -- the sender ended the RPC (target deleted)
    | .err e => .err e
    | .panic => .panic

/-- `Server.Subscribe` over a scripted request stream: `first`, then `later`, then `io.EOF`
(quiescent schedule: a later request is delivered once the sync response of the running walk
went out).  Only a POLL subscription ever calls `stream.Recv` again. -/
def subscribeStream (c : CacheView F D) (noDup : Bool) (dup : Nat → Nat → Nat) (first : Request)
    (later : List Request) : Outcome StreamOut :=
  match RX.subscribe c noDup (dup 0) first with
  | .ok o =>
    if isPollReq first && o.synced then
      match pollRounds c noDup dup first 1 later with
      | .ok so => .ok { rounds := o :: so.rounds, reads := so.reads }
      | .err e => .err e
      | .panic => .panic
    else .ok { rounds := [o], reads := 0 }
  | .err e => .err e
  | .panic => .panic

end subscribeStream

end Gnmi.Wire
