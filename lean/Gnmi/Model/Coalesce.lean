import Gnmi.Basic
/-!
# Sequential model of `coalesce.Queue` (`/repo/coalesce/coalesce.go`)

Put `coalesce.go` next to this file; every definition names the Go code it mirrors.

```
type Queue struct {
    sync.Mutex
    inserted  chan struct{}            -- cap 1: the wake-up token      ~ `token : Bool`
    closed    chan struct{}            -- closed by Close()             ~ `closed : Bool`
    coalesced map[interface{}]uint32   -- per pending item: duplicates  ~ `coalesced : CMap`
    queue     []interface{}            -- pending items, in order       ~ `queue : List Item`
}
```

Conventions (DESIGN §4): a buffered channel of capacity 1 is a boolean, a closed channel is a
monotone boolean, a Go map is an association list read only through `lookup` (the three map
laws `lookup_set`, `lookup_erase`, `lookup_nil` are all the proofs use).

Stated input restrictions:
* items are *comparable with reflexive equality* (a Go map key of an unhashable dynamic type
  panics inside `q.coalesced[i]`; a NaN key is never found again) — `[DecidableEq Item]`;
* the duplicate counter is a `uint32` in Go and a `Nat` here: the model is the code for every
  history in which no single pending item receives 2^32 or more coalesced inserts
  (`Gnmi.C11.counter_bound` bounds every counter by the number of inserts of the history).

The blocking `select` of `Next` chooses *at random* among its ready cases.  In this sequential
model the choice is an explicit argument (`pref`, a preference order) of the operation, so the
theorems of `Props/C11.lean` quantify over every choice the Go runtime can make.
-/
namespace Gnmi
namespace Coalesce

variable {Item : Type} [DecidableEq Item]

/-! ## `map[interface{}]uint32` -/

/-- the Go map, as an association list -/
abbrev CMap (Item : Type) := List (Item × Nat)

/-- `c, ok := m[i]` -/
def CMap.lookup : CMap Item → Item → Option Nat
  | [], _ => none
  | (k, c) :: m, i => if k = i then some c else CMap.lookup m i

/-- overwrite every binding of `i` (helper of `set`) -/
def CMap.replace : CMap Item → Item → Nat → CMap Item
  | [], _, _ => []
  | (k, c) :: m, i, n => (if k = i then (k, n) else (k, c)) :: CMap.replace m i n

/-- `m[i] = n` -/
def CMap.set (m : CMap Item) (i : Item) (n : Nat) : CMap Item :=
  match CMap.lookup m i with
  | some _ => CMap.replace m i n
  | none => m ++ [(i, n)]

/-- `delete(m, i)` -/
def CMap.erase (m : CMap Item) (i : Item) : CMap Item := m.filter (fun kv => !decide (kv.1 = i))

/-! ## The queue -/

structure Q (Item : Type) where
  /-- `q.queue` -/
  queue : List Item := []
  /-- `q.coalesced` -/
  coalesced : CMap Item := []
  /-- `len(q.inserted) == 1` -/
  token : Bool := false
  /-- `q.closed` has been closed -/
  closed : Bool := false
deriving DecidableEq, Repr

/-- `NewQueue()` -/
def Q.new : Q Item := {}

/-- `q.coalesced[i]` read as a value: Go yields the zero value for an absent key -/
def cnt (q : Q Item) (i : Item) : Nat := (q.coalesced.lookup i).getD 0

/-- `func (q *Queue) insert(i interface{}) bool` — the locked section of `Insert`.
```
if _, ok := q.coalesced[i]; ok { q.coalesced[i]++; return false }
q.queue = append(q.queue, i); q.coalesced[i] = 0; return true
``` -/
def insertLocked (q : Q Item) (i : Item) : Q Item × Bool :=
  match q.coalesced.lookup i with
  | some c => ({ q with coalesced := q.coalesced.set i (c + 1) }, false)
  | none => ({ q with queue := q.queue ++ [i], coalesced := q.coalesced.set i 0 }, true)

/-- the non-blocking token post of `Insert`:
`select { case q.inserted <- struct{}{}: default: }` -/
def postToken (q : Q Item) : Q Item := { q with token := true }

/-- what `Insert` returns: `(false, errClosedQueue)` or `(ok, nil)` -/
inductive InsRes where
  | refused
  | ok (fresh : Bool)
deriving DecidableEq, Repr

/-- `func (q *Queue) Insert(i interface{}) (bool, error)` run without interruption:
closed check, locked insert, token post when the item is new. -/
def insert (q : Q Item) (i : Item) : Q Item × InsRes :=
  if q.closed then (q, .refused)                -- case <-q.closed: return false, errClosedQueue
  else
    let r := insertLocked q i                   -- ok := q.insert(i)
    if r.2 then (postToken r.1, .ok true)       -- if ok { select { case q.inserted <- …: default: } }
    else (r.1, .ok false)                       -- return ok, nil

/-- `func (q *Queue) next() (interface{}, uint32, bool)` — the locked section of `Next`.
```
if len(q.queue) == 0 { return nil, 0, false }
i := q.queue[0]; q.queue[0] = nil; q.queue = q.queue[1:]
coalesced := q.coalesced[i]          -- a Go map read: zero value when absent
delete(q.coalesced, i)
if len(q.queue) == 0 { q.queue = nil; q.coalesced = make(map[interface{}]uint32) }
return i, coalesced, true
```
(`q.queue[0]` is guarded by the length test, so the index cannot panic.) -/
def nextLocked (q : Q Item) : Q Item × Option (Item × Nat) :=
  match q.queue with
  | [] => (q, none)
  | i :: rest =>
    let c := cnt q i
    let m := q.coalesced.erase i
    if rest.isEmpty then ({ q with queue := [], coalesced := [] }, some (i, c))
    else ({ q with queue := rest, coalesced := m }, some (i, c))

/-- `func (q *Queue) Len() int` -/
def len (q : Q Item) : Nat := q.queue.length

/-- `func (q *Queue) Close()` (idempotent: the second close finds the channel closed) -/
def close (q : Q Item) : Q Item := { q with closed := true }

/-- `func (q *Queue) IsClosed() bool` -/
def isClosed (q : Q Item) : Bool := q.closed

/-! ## `Next`: the loop around `next()` and the blocking `select` -/

/-- the three cases of the `select` in `Next` -/
inductive Arm where
  | ctx      -- case <-ctx.Done():
  | token    -- case <-q.inserted:
  | closed   -- case <-q.closed:
deriving DecidableEq, Repr

/-- the cases that are ready in state `q` for a caller whose context is (not) cancelled -/
def ready (q : Q Item) (cancelled : Bool) : List Arm :=
  (if cancelled then [Arm.ctx] else []) ++ (if q.token then [Arm.token] else []) ++
  (if q.closed then [Arm.closed] else [])

/-- The Go runtime's choice among the ready cases, resolved by a preference order: the first
arm of `pref` that is ready, else the first ready arm; `none` = no case ready = the select
blocks.  Every choice the runtime can make is `choose pref` for some `pref`
(`Gnmi.C11.choose_any`). -/
def choose (pref : List Arm) (rdy : List Arm) : Option Arm :=
  match pref.find? (fun a => decide (a ∈ rdy)) with
  | some a => some a
  | none => rdy.head?

/-- what `Next` returns, or that it is blocked in its `select` -/
inductive NextRes (Item : Type) where
  | item (i : Item) (dups : Nat)   -- return i, coalesced, nil
  | errClosed                      -- return nil, 0, errClosedQueue
  | errCtx                         -- return nil, 0, ctx.Err()
  | blocks                         -- no select case ready (and none will be without another thread)
  | outOfFuel                      -- model artefact: never produced with fuel ≥ 3 (`next_fuel`)
deriving DecidableEq, Repr

/-- `for { … }` of `Next`, `fuel` iterations.
```
for {
    i, coalesced, valid := q.next()
    if valid { return i, coalesced, nil }
    select {
    case <-ctx.Done(): return nil, 0, ctx.Err()
    case <-q.inserted:                               // consume the token, loop
    case <-q.closed:   if q.Len() == 0 { return nil, 0, errClosedQueue }   // else loop
    }
}
``` -/
def nextLoop : Nat → Q Item → Bool → List Arm → Q Item × NextRes Item
  | 0, q, _, _ => (q, .outOfFuel)
  | fuel + 1, q, cancelled, pref =>
    match nextLocked q with
    | (q1, some (i, c)) => (q1, .item i c)
    | (q1, none) =>
      match choose pref (ready q1 cancelled) with
      | none => (q1, .blocks)
      | some .ctx => (q1, .errCtx)
      | some .token => nextLoop fuel { q1 with token := false } cancelled pref
      | some .closed =>
        if len q1 = 0 then (q1, .errClosed)
        else nextLoop fuel q1 cancelled pref

/-- `func (q *Queue) Next(ctx) (interface{}, uint32, error)` run without interruption by other
goroutines.  Three iterations suffice sequentially: the token can be consumed once, after
which the select either returns or blocks. -/
def next (q : Q Item) (cancelled : Bool) (pref : List Arm) : Q Item × NextRes Item :=
  nextLoop 3 q cancelled pref

/-! ## Operation sequences -/

/-- API calls of a single goroutine -/
inductive Op (Item : Type) where
  | insert (i : Item)
  | next (cancelled : Bool) (pref : List Arm)
  | len
  | close
  | isClosed
deriving Repr

/-- observations -/
inductive Obs (Item : Type) where
  | ins (r : InsRes)
  | nxt (r : NextRes Item)
  | num (n : Nat)
  | unit
  | bool (b : Bool)
deriving DecidableEq, Repr

def step (q : Q Item) : Op Item → Q Item × Obs Item
  | .insert i => let r := insert q i; (r.1, .ins r.2)
  | .next c pref => let r := next q c pref; (r.1, .nxt r.2)
  | .len => (q, .num (len q))
  | .close => (close q, .unit)
  | .isClosed => (q, .bool (isClosed q))

/-- state after a history -/
def run (q : Q Item) : List (Op Item) → Q Item
  | [] => q
  | op :: ops => run (step q op).1 ops

/-- observations of a history -/
def observe (q : Q Item) : List (Op Item) → List (Obs Item)
  | [] => []
  | op :: ops => (step q op).2 :: observe (step q op).1 ops

/-! ## What a history did (the vocabulary of the property statements) -/

/-- the item of an `Insert` that returned a `nil` error -/
def okOf : Op Item → Obs Item → List Item
  | .insert i, .ins (.ok _) => [i]
  | _, _ => []

/-- the item of an `Insert` that returned `true` (it was not pending: a *first* insertion) -/
def freshOf : Op Item → Obs Item → List Item
  | .insert i, .ins (.ok true) => [i]
  | _, _ => []

/-- the `(item, duplicates)` a `Next` returned -/
def delivOf : Obs Item → List (Item × Nat)
  | .nxt (.item i d) => [(i, d)]
  | _ => []

/-- items of all successful inserts of a history, in call order -/
def okInserts (q : Q Item) : List (Op Item) → List Item
  | [] => []
  | op :: ops => okOf op (step q op).2 ++ okInserts (step q op).1 ops

/-- items of the inserts that returned `true`, in call order -/
def freshInserts (q : Q Item) : List (Op Item) → List Item
  | [] => []
  | op :: ops => freshOf op (step q op).2 ++ freshInserts (step q op).1 ops

/-- everything `Next` delivered during a history, in order -/
def deliveries (q : Q Item) : List (Op Item) → List (Item × Nat)
  | [] => []
  | op :: ops => delivOf (step q op).2 ++ deliveries (step q op).1 ops

end Coalesce
end Gnmi
