/-!
# `Target.GnmiUpdate` and the caller's notification object (property C03, last clause)

`Model/Cache.lean` treats notifications as immutable values.  The Go function is handed a
**pointer** `n *pb.Notification` and, in one place, writes through it (cache/cache.go:424-432):

```go
case len(n.GetUpdate())+len(n.GetDelete()) > 1:
    updates := n.GetUpdate()
    deletes := n.GetDelete()
    n.Update, n.Delete = nil, nil
    // restore back the notification updates and deletes
    defer func() {
        n.Update = updates
        n.Delete = deletes
    }()
    errs := &errlist.List{}
    for _, u := range updates {
        noti := proto.Clone(n).(*pb.Notification)
        noti.Update = []*pb.Update{u}
        nd, err := t.gnmiUpdate(noti)
        if err != nil { errs.Add(err); continue }
        ...
        if nd != nil { ...; t.client(nd) }
    }
    for _, d := range deletes {
        noti := proto.Clone(n).(*pb.Notification)
        noti.Delete = []*pb.Path{d}
        ...
        for _, nd := range t.gnmiRemove(noti) { t.client(nd) }
    }
    return errs.Err()
```

This file models exactly that: a **heap** of message objects addressed by references, the
caller's notification as one heap cell, and a small-step machine for `Target.GnmiUpdate` whose
multi arm is: *clear* (`n.Update, n.Delete = nil, nil`), *loop* over the saved updates (clone `n`,
attach the caller's own `*pb.Update` pointer, hand the clone to `t.gnmiUpdate`), *loop* over the
saved deletes, then the *deferred restore* — which also runs when the loop body panics (Go runs
deferred calls while panicking).  The other arms (atomic, single update, single delete, empty)
never write to the heap; the atomic and single-update arms hand **the caller's own object** to
`t.gnmiUpdate`, which stores that pointer as the leaf value.

What `t.gnmiUpdate(noti)` / `t.gnmiRemove(noti)` do to the *tree* is the subject of
`Model/Cache.lean`; here they are an oracle (`Oracle`: accepted-and-fed / accepted-and-suppressed /
rejected / panics, per unit), because their only heap effects are: *read* `noti`, *store the
pointer* `noti` as leaf value (`oldval.Update(n)` / `t.t.Add(path, n)`) when the update is
accepted, and hand the leaf to `t.client`.  Neither writes to any message object (checked by
reading `gnmiUpdate`, `gnmiRemove`, `toDeleteNotification`: they build *new* notifications).
The client callback is foreign code: it is trusted not to write to the notification it is shown
(cache.go's own contract: "the client must not modify the leaf").

`proto.Clone` is a deep copy: a new `Notification` object, a new `Prefix` object, new objects
for every element of `Update` / `Delete` (none at the time of the call: the fields were just set
to nil).  Core Lean only.
-/
namespace Gnmi
namespace CacheMut

/-- an address -/
abbrev Ref := Nat

/-- a heap object.  `msg` is a `*pb.Path` (prefix or delete path) or a `*pb.Update`: the cache
never writes to one, so only its content (a canonical rendering) matters. -/
inductive Cell where
  | noti (ts : Int) (pfx : Option Ref) (atomic : Bool) (upd del : List Ref)   -- `*pb.Notification`
  | msg (content : String)
deriving DecidableEq, Repr, Inhabited

/-- the heap: cell `r` is `h[r]?`; allocation appends -/
abbrev Heap := List Cell

/-- `proto.Clone` of a list of message pointers: one fresh object per element, same content -/
def cloneRefs : Heap → List Ref → Heap × List Ref
  | h, [] => (h, [])
  | h, r :: rs =>
    let c := (h[r]?).getD (.msg "")
    ((cloneRefs (h ++ [c]) rs).1, h.length :: (cloneRefs (h ++ [c]) rs).2)

/-- `proto.Clone(n).(*pb.Notification)`: deep copy; `none` = `n` is not a notification object
(cannot happen for a typed Go pointer; the machine treats it as a nil dereference) -/
def cloneNoti (h : Heap) (n : Ref) : Option (Heap × Ref) :=
  match h[n]? with
  | some (.noti ts pfx atomic upd del) =>
    let hp : Heap × Option Ref := match pfx with
      | none => (h, none)
      | some p => (h ++ [(h[p]?).getD (.msg "")], some h.length)
    let hu := cloneRefs hp.1 upd
    let hd := cloneRefs hu.1 del
    some (hd.1 ++ [.noti ts hp.2 atomic hu.2 hd.2], hd.1.length)
  | _ => none

/-- what `t.gnmiUpdate(noti)` answers for one update unit -/
inductive UnitRes where
  | accepted (fed : Bool)   -- pointer stored as leaf value; `fed`: a leaf came back and went to `t.client`
  | rejected                -- error (stale, future, collision, bad path): nothing stored, `errs.Add`
  | panics                  -- a run-time panic inside the call
deriving DecidableEq, Repr

/-- the outcomes of the calls made by one `Target.GnmiUpdate`: update unit `i` ↦ its result,
delete unit `j` ↦ does `gnmiRemove` (or a callback) panic -/
structure Oracle where
  upd : Nat → UnitRes
  del : Nat → Bool

inductive Exit where
  | ret (err : Bool)    -- returned (`err`: a non-nil error)
  | panic               -- a panic propagates to the caller (after the deferred calls ran)
deriving DecidableEq, Repr

/-- program counter of `Target.GnmiUpdate(n)` -/
inductive PC where
  | entry
  /-- in `for _, u := range updates`; `su sd` are the locals `updates`, `deletes` -/
  | loopU (su sd : List Ref) (rest : List Ref) (i : Nat)
  | loopD (su sd : List Ref) (rest : List Ref) (j : Nat)
  /-- the function is returning or panicking with `e`: the deferred restore is about to run -/
  | unwinding (su sd : List Ref) (e : Exit)
  | done (e : Exit)
deriving DecidableEq, Repr

structure Conf where
  pc : PC := .entry
  heap : Heap
  /-- pointers written into the tree as leaf values by this call, in order -/
  stored : List Ref := []
  /-- leaf values handed to `t.client` by this call, in order -/
  fed : List Ref := []
  /-- `len(errs)` -/
  errs : Nat := 0
deriving DecidableEq, Repr

/-- attach one message to a fresh clone: `noti.Update = []*pb.Update{u}` / `noti.Delete = []*pb.Path{d}` -/
def setUpd (h : Heap) (r : Ref) (us : List Ref) : Heap :=
  match h[r]? with
  | some (.noti ts pfx atomic _ del) => h.set r (.noti ts pfx atomic us del)
  | _ => h
def setDel (h : Heap) (r : Ref) (ds : List Ref) : Heap :=
  match h[r]? with
  | some (.noti ts pfx atomic upd _) => h.set r (.noti ts pfx atomic upd ds)
  | _ => h

/-- one step of `Target.GnmiUpdate(n)` (the pointer `n` is the argument) -/
def step (o : Oracle) (n : Ref) (c : Conf) : Conf :=
  match c.pc with
  | .entry =>
    match c.heap[n]? with
    | some (.noti ts pfx atomic upd del) =>
      if atomic then
        -- `case n.Atomic`: the caller's own object goes to `t.gnmiUpdate`
        if !del.isEmpty then { c with pc := .done (.ret true) }
        else if upd.isEmpty then { c with pc := .done (.ret false) }
        else match o.upd 0 with
          | .accepted fed => { c with pc := .done (.ret false), stored := c.stored ++ [n],
                                      fed := if fed then c.fed ++ [n] else c.fed }
          | .rejected => { c with pc := .done (.ret true) }
          | .panics => { c with pc := .done .panic }
      else if upd.length + del.length > 1 then
        -- `updates := n.GetUpdate(); deletes := n.GetDelete(); n.Update, n.Delete = nil, nil; defer …`
        { c with pc := .loopU upd del upd 0, heap := c.heap.set n (.noti ts pfx atomic [] []) }
      else if upd.length = 1 then
        -- "handled separately to avoid the unnecessary proto.Clone call": the caller's own object
        match o.upd 0 with
        | .accepted fed => { c with pc := .done (.ret false), stored := c.stored ++ [n],
                                    fed := if fed then c.fed ++ [n] else c.fed }
        | .rejected => { c with pc := .done (.ret true) }
        | .panics => { c with pc := .done .panic }
      else if del.length = 1 then
        if o.del 0 then { c with pc := .done .panic } else { c with pc := .done (.ret false) }
      else { c with pc := .done (.ret false) }
    | _ => { c with pc := .done .panic }                       -- nil / wrong pointer
  | .loopU su sd [] _ => { c with pc := .loopD su sd sd 0 }
  | .loopU su sd (u :: rest) i =>
    match cloneNoti c.heap n with
    | none => { c with pc := .unwinding su sd .panic }
    | some (h, r) =>
      let h := setUpd h r [u]                                   -- the caller's own `*pb.Update`
      match o.upd i with
      | .accepted fed =>
        { c with pc := .loopU su sd rest (i + 1), heap := h, stored := c.stored ++ [r],
                 fed := if fed then c.fed ++ [r] else c.fed }
      | .rejected => { c with pc := .loopU su sd rest (i + 1), heap := h, errs := c.errs + 1 }
      | .panics => { c with pc := .unwinding su sd .panic, heap := h }
  | .loopD su sd [] _ => { c with pc := .unwinding su sd (.ret (decide (c.errs > 0))) }
  | .loopD su sd (d :: rest) j =>
    match cloneNoti c.heap n with
    | none => { c with pc := .unwinding su sd .panic }
    | some (h, r) =>
      let h := setDel h r [d]
      if o.del j then { c with pc := .unwinding su sd .panic, heap := h }
      else { c with pc := .loopD su sd rest (j + 1), heap := h }
  | .unwinding su sd e =>
    -- `defer func() { n.Update = updates; n.Delete = deletes }()`
    match c.heap[n]? with
    | some (.noti ts pfx atomic _ _) => { c with pc := .done e, heap := c.heap.set n (.noti ts pfx atomic su sd) }
    | _ => { c with pc := .done e }
  | .done _ => c

/-- `k` steps -/
def steps (o : Oracle) (n : Ref) : Nat → Conf → Conf
  | 0, c => c
  | k + 1, c => steps o n k (step o n c)

/-- the whole call: enough steps for any notification in the heap -/
def call (o : Oracle) (n : Ref) (h : Heap) : Conf :=
  match h[n]? with
  | some (.noti _ _ _ upd del) => steps o n (upd.length + del.length + 4) { heap := h }
  | _ => steps o n 1 { heap := h }

end CacheMut
end Gnmi
