import Gnmi.Model.ManagerLTS
import Gnmi.Model.ManagerConn
/-!
# Executable semantics of the manager LTS: the sequential schedule of a scripted scenario

`monNext` resolves the monitor goroutine's nondeterminism the way the correspondence harness
(`go/vcorr/mg.go`) arranges it: collaborators follow their script, fail as soon as their context
is cancelled, and the `select` in `retryMonitor` takes the `ctx.Done()` arm when it is ready.
`applyMove` is a functional version of `Step`.  Both are *sound* for the relation
(`monNext_sound`, `applyMove_sound`), and the scenario interpreter only moves through
`RCfg.move`, which carries the `Reach` proof along: every trace the driver predicts is a trace of
the LTS the theorems of `Props/C13.lean` speak about (`runScenario` returns an `RCfg`).  It also
carries the connection ledger of `Model/ManagerConn.lean` (`GReach`): the acquisition counts the
driver predicts are those the theorems of `Props/C16Mgr.lean` speak about.

Core Lean only (this file is linked into the driver executable).
-/
namespace Gnmi.Manager
open Gnmi.Session (Ev)

/-- The monitor goroutine's next step under the sequential schedule (`none`: blocked or gone). -/
def monNext (next : Attempt) (I : Inst) : Option (MLabel × Inst) :=
  match I.pc with
  | .start => some (.tau, { I.freshSub with pc := .timer })
  | .timer =>
      if I.cancelled = true then some (.tau, { I with pc := .closing })
      else some (.begin_, { (if I.ctxDone then I.freshSub else I) with cur := next, pc := .gmeta })
  | .gmeta =>
      if I.cur = .metaErr ∨ I.ctxDone = true then some (.tau, { I with pc := .connErr 0 false false })
      else some (.tau, { I with pc := .dial })
  | .dial =>
      if I.cur = .dialFail ∨ I.ctxDone = true then some (.tau, { I with pc := .connErr 0 false false })
      else some (.tau, { I with pc := .open_ })
  | .open_ =>
      if I.cur = .openFail ∨ I.ctxDone = true then some (.tau, { I with pc := .connErr 0 false false })
      else some (.tau, { I with pc := .send })
  | .send =>
      if I.cur = .sendFail ∨ I.ctxDone = true then some (.tau, { I with pc := .connErr 0 false false })
      else match I.cur with
        | .stream _ _ => some (.tau, { I with pc := .recv 0 false, tmoWaiting := I.rt })
        | _ => none
  | .recv j c =>
      if I.ctxDone = true then some (.tau, { I with pc := .reset j c })
      else if j < I.cur.msgs.length then some (.tau, { I with pc := .got j c })
      else if I.cur.ending ≠ .silence then some (.tau, { I with pc := .reset j c })
      else none
  | .got j false => some (.cb .connect, { I with pc := .got j true })
  | .got j true =>
      match I.cur.msgs[j]? with
      | none => none
      | some m =>
        match m.ev j with
        | some ev => some (.cb ev, { I with pc := .recv (j + 1) true })
        | none => some (.tau, { I with pc := .recv (j + 1) true })
  | .reset j c => some (.cb .reset, { I with pc := .connErr j c true })
  | .connErr j c r => some (.cb .connectError, { I with pc := .monErr j c r })
  | .monErr _ _ _ => some (.cb .monitorError, { I with pc := .timer })
  | .closing => some (.tau, { I with finished := true, pc := .deferred })
  | .deferred => some (.spawnRecon, { I with pc := .done })
  | .done => none

theorem monNext_sound {next : Attempt} {I I' : Inst} {l : MLabel}
    (h : monNext next I = some (l, I')) : MonStep next I l I' := by
  unfold monNext at h
  split at h
  · next hp => cases h; exact .init hp
  · next hp =>
    split at h
    · next hc => cases h; exact .exitCtx hp hc
    · cases h; exact .timerFire hp
  · next hp =>
    split at h
    · next hc => cases h; exact .metaFail hp hc
    · next hc => cases h; exact .metaOk hp (fun e => hc (Or.inl e))
  · next hp =>
    split at h
    · next hc => cases h; exact .dialFail hp hc
    · next hc => cases h; exact .dialOk hp (fun e => hc (Or.inl e))
  · next hp =>
    split at h
    · next hc => cases h; exact .openFail hp hc
    · next hc => cases h; exact .openOk hp (fun e => hc (Or.inl e))
  · next hp =>
    split at h
    · next hc => cases h; exact .sendFail hp hc
    · split at h
      · next ms e hcur => cases h; exact .sendOk hp hcur
      · cases h
  · next j c hp =>
    split at h
    · next hc => cases h; exact .recvCancel hp hc
    · split at h
      · next hj => cases h; exact .recvMsg hp hj
      · next hj =>
        split at h
        · next he => cases h; exact .recvEnd hp (Nat.le_of_not_lt hj) he
        · cases h
  · next j hp => cases h; exact .connectCb hp
  · next j hp =>
    split at h
    · cases h
    · next m hm =>
      split at h
      · next ev hev => cases h; exact .handleCb hp hm hev
      · next hev => cases h; exact .handleNone hp hm hev
  · next j c hp => cases h; exact .resetCb hp
  · next j c r hp => cases h; exact .connErrCb hp
  · next j c r hp => cases h; exact .monErrCb hp
  · next hp => cases h; exact .close hp
  · next hp => cases h; exact .deferredRecon hp
  · cases h

/-- Which transition to take (the schedule). -/
inductive Move
  | mon (i : Nat)
  | monDialOk (i : Nat)   -- `Connection` returns `err == nil` whatever the state of its context
  | add (n : Name) (rt : Bool)
  | addInvalid (n : Name)
  | remove (n : Name)
  | removeEnd
  | reconnect (n : Name)
  | byName            -- the oldest pending `m.Reconnect(name)` does its lookup
  | byPtr             -- the oldest `Reconnect` past its lookup finishes
  | tmo (i : Nat)
  deriving Repr

/-- Functional version of `Step`. -/
def applyMove (env : Name → Nat → Attempt) (c : Cfg) : Move → Option (Label × Cfg)
  | .mon i =>
      match monNext (env (c.insts i).name (c.nextAtt (c.insts i).name)) (c.insts i) with
      | some (l, I') => some (l.toLabel (c.insts i).name, c.applyMon i l I')
      | none => none
  | .monDialOk i =>
      if (c.insts i).pc = .dial ∧ (c.insts i).cur ≠ .dialFail then
        some (.tau, c.applyMon i .tau { c.insts i with pc := .open_ })
      else none
  | .add n rt =>
      match c.lock, c.targets n with
      | none, none =>
          some (.add n true,
            { c with insts := upd c.insts c.nInst { name := n, rt := rt }, nInst := c.nInst + 1,
                     targets := upd c.targets n (some c.nInst) })
      | none, some _ => some (.add n false, c)
      | some _, _ => none
  | .addInvalid n => some (.add n false, c)
  | .remove n =>
      match c.lock, c.targets n with
      | none, some i =>
          some (.removeCall n true,
            { c with insts := upd c.insts i { c.insts i with cancelled := true }, lock := some i })
      | none, none => some (.removeCall n false, c)
      | some _, _ => none
  | .removeEnd =>
      match c.lock with
      | some i =>
          if (c.insts i).finished = true then
            some (.removeRet (c.insts i).name,
              { c with targets := upd c.targets (c.insts i).name none, lock := none })
          else none
      | none => none
  | .reconnect n =>
      match c.lock, c.targets n with
      | none, some i => some (.reconnect n true, { c with byPtr := i :: c.byPtr })
      | none, none => some (.reconnect n false, c)
      | some _, _ => none
  | .byName =>
      match c.lock, c.byName with
      | none, n :: rest =>
          some (.tau, { c with byName := [] ++ rest,
                               byPtr := match c.targets n with
                                        | some i => i :: c.byPtr
                                        | none => c.byPtr })
      | _, _ => none
  | .byPtr =>
      match c.byPtr with
      | i :: rest => some (.tau, { c with byPtr := [] ++ rest, insts := upd c.insts i (c.insts i).applyRecon })
      | [] => none
  | .tmo i =>
      match (c.insts i).pc with
      | .recv _ _ =>
          if (c.insts i).tmoWaiting = true then
            some (.tau, { c with insts := upd c.insts i { c.insts i with tmoWaiting := false },
                                 byName := (c.insts i).name :: c.byName })
          else none
      | _ => none

theorem applyMove_sound {env : Name → Nat → Attempt} {c c' : Cfg} {m : Move} {l : Label}
    (h : applyMove env c m = some (l, c')) : Step env c l c' := by
  cases m with
  | mon i =>
    simp only [applyMove] at h
    split at h
    · next l' I' hm => cases h; exact .mon i (monNext_sound hm)
    · cases h
  | monDialOk i =>
    simp only [applyMove] at h
    split at h
    · next hc => cases h; exact .mon i (.dialOk hc.1 hc.2)
    · cases h
  | add n rt =>
    simp only [applyMove] at h
    split at h
    · next hl ht => cases h; exact .add n rt hl ht
    · next i hl ht => cases h; exact .addDup n i hl ht
    · cases h
  | addInvalid n => simp only [applyMove] at h; cases h; exact .addInvalid n
  | remove n =>
    simp only [applyMove] at h
    split at h
    · next i hl ht => cases h; exact .removeBegin n i hl ht
    · next hl ht => cases h; exact .removeUnknown n hl ht
    · cases h
  | removeEnd =>
    simp only [applyMove] at h
    split at h
    · next i hl =>
      split at h
      · next hf => cases h; exact .removeEnd i hl hf
      · cases h
    · cases h
  | reconnect n =>
    simp only [applyMove] at h
    split at h
    · next i hl ht => cases h; exact .reconnectLookup n i hl ht
    · next hl ht => cases h; exact .reconnectUnknown n hl ht
    · cases h
  | byName =>
    simp only [applyMove] at h
    split at h
    · next n rest hl hb => cases h; exact .byNameLookup [] rest n (by simpa using hb) hl
    · cases h
  | byPtr =>
    simp only [applyMove] at h
    split at h
    · next i rest hb => cases h; exact .reconApply [] rest i (by simpa using hb)
    · cases h
  | tmo i =>
    simp only [applyMove] at h
    split at h
    · next j cn hp =>
      split at h
      · next hw => cases h; exact .tmoFire i j cn hp hw
      · cases h
    · cases h

/-- A configuration together with the proof that the LTS reaches it. -/
structure RCfg (env : Name → Nat → Attempt) where
  c : Cfg
  reach : Reach env c
  g : Ghost := Ghost.init                 -- the connection ledger (`Model/ManagerConn.lean`)
  greach : GReach env c g

def RCfg.init (env : Name → Nat → Attempt) : RCfg env := ⟨Cfg.init, .init, Ghost.init, .init⟩

def RCfg.move {env : Name → Nat → Attempt} (r : RCfg env) (m : Move) : Option (Label × RCfg env) :=
  match h : applyMove env r.c m with
  | some (l, c') =>
      some (l, ⟨c', .step r.reach (applyMove_sound h), ghostNext r.c c' r.g, .step r.greach (applyMove_sound h)⟩)
  | none => none

/-! ## Scenarios (the op lines of the `mg` correspondence) -/

inductive InjAt
  | lookup          -- while the attempt is in the credentials lookup (`Pc.gmeta`)
  | dial            -- while it is in `Connection` (which then fails with the cancellation)
  | dialOk          -- while it is in `Connection`, and the dial succeeds all the same
  | backoff         -- right after the attempt
  | msg (j : Nat)   -- in `Recv`, after `j` messages were processed
  deriving DecidableEq, Repr

structure Inj where
  remove : Bool      -- `Remove` (else `Reconnect`)
  pos : InjAt
  readd : Bool       -- `Add` again once the `Remove` has returned
  deriving Repr

structure SAttempt where
  a : Attempt
  inj : Option Inj
  deriving Repr

structure TargetSpec where
  rt : Bool
  probes : List Char
  script : List SAttempt
  deriving Repr

def TargetSpec.racy (t : TargetSpec) : Bool :=
  t.script.any fun s => match s.inj with
    | some i => (i.pos == .backoff && !i.remove) || i.readd
    | none => false

/-- Interpreter state for one target. -/
structure RunSt (env : Name → Nat → Attempt) where
  r : RCfg env
  rets : List Bool := []           -- API return classes (`true` = nil error), oldest first
  injDone : Bool := false          -- the injection of the current attempt was made
  removeAt : Option Nat := none    -- length of the trace when `Remove` was called
  readd : Bool := false
  stuck : Bool := false
  forceDial : Bool := false        -- the pending `Connection` call returns `err == nil` (injection `dialOk`)

def Label.ok : Label → Bool
  | .add _ b => b
  | .removeCall _ b => b
  | .reconnect _ b => b
  | _ => true

/-- an API call whose return class is recorded -/
def RunSt.api {env : Name → Nat → Attempt} (st : RunSt env) (m : Move) : RunSt env :=
  match st.r.move m with
  | some (l, r') => { st with r := r', rets := st.rets ++ [l.ok] }
  | none => { st with stuck := true }

/-- a silent move -/
def RunSt.tau {env : Name → Nat → Attempt} (st : RunSt env) (m : Move) : RunSt env :=
  match st.r.move m with
  | some (_, r') => { st with r := r' }
  | none => { st with stuck := true }

/-- The injection due now, if any. -/
def dueInj (script : List SAttempt) (nextAtt : Nat) (pc : Pc) (injDone : Bool) : Option Inj :=
  if injDone then none else
  match nextAtt with
  | 0 => none
  | k + 1 =>
    match script[k]? with
    | none =>
        -- the script is over: Remove while the next attempt is in its credentials lookup
        if pc = .gmeta then some { remove := true, pos := .lookup, readd := false } else none
    | some s =>
      match s.inj with
      | none => none
      | some inj =>
        match inj.pos, pc with
        | .lookup, .gmeta => some inj
        | .dial, .dial => some inj
        | .dialOk, .dial => some inj
        | .backoff, .timer => some inj
        | .msg j, .recv j' _ => if j = j' then some inj else none
        | _, _ => none

/-- The monitor goroutine's next step: the sequential schedule, except that the `Connection` call
during which a `dialOk` injection was made succeeds. -/
def RunSt.monMove {env : Name → Nat → Attempt} (st : RunSt env) (i : Nat) : Option (Label × RCfg env) × Bool :=
  if st.forceDial && decide ((st.r.c.insts i).pc = .dial) then (st.r.move (.monDialOk i), false)
  else (st.r.move (.mon i), st.forceDial)

/-- Drive target `name` until it has been removed (or fuel runs out / nothing can move). -/
def drive {env : Name → Nat → Attempt} (name : Name) (script : List SAttempt) :
    Nat → RunSt env → RunSt env
  | 0, st => { st with stuck := true }
  | fuel + 1, st =>
    if st.stuck then st else
    let c := st.r.c
    match c.targets name with
    | none => st
    | some i =>
      let I := c.insts i
      if c.lock = some i then
        -- Remove is waiting for `finished`
        if I.finished then
          let st' := st.api .removeEnd
          st'
        else
          match st.monMove i with
          | (some (_, r'), fd) => drive name script fuel { st with r := r', forceDial := fd }
          | (none, _) => { st with stuck := true }
      else
        match dueInj script (c.nextAtt name) I.pc st.injDone with
        | some inj =>
          if inj.remove then
            let st1 := { st with injDone := true, removeAt := some (c.trace name).length, readd := inj.readd,
                                 forceDial := decide (inj.pos = InjAt.dialOk) }
            match st1.r.move (.remove name) with
            | some (_, r') => drive name script fuel { st1 with r := r' }
            | none => { st1 with stuck := true }
          else
            let st1 := ({ st with injDone := true, forceDial := decide (inj.pos = InjAt.dialOk) }.api (.reconnect name)).tau .byPtr
            drive name script fuel st1
        | none =>
          match st.monMove i with
          | (some (l, r'), fd) =>
            -- a new attempt: its injection is still to come
            let fresh := r'.c.nextAtt name != c.nextAtt name
            let _ := l
            drive name script fuel { st with r := r', injDone := if fresh then false else st.injDone, forceDial := fd }
          | (none, _) =>
            -- blocked in Recv on a silent stream: only the receive timeout helps
            if I.rt && I.tmoWaiting then
              drive name script fuel (((st.tau (.tmo i)).tau .byName).tau .byPtr)
            else { st with stuck := true }

/-- What the harness observes for one target. -/
structure TargetObs where
  pre : List Ev          -- callbacks before `Remove` was called
  drain : List Ev        -- callbacks from then on
  rets : List Bool
  racy : Bool
  stuck : Bool
  acq : Nat := 0         -- connections acquired for the target (all its incarnations)
  leak : Nat := 0        -- … of which not released when the scenario is over
  twice : Nat := 0       -- … of which released more than once
  deriving Repr

def isProbe (set : List Char) (f : Char) : Bool := set.contains f

/-- One target of a scenario: probes, `Add`, the script, `Remove`, probes. -/
def runTarget {env : Name → Nat → Attempt} (r : RCfg env) (name : Name) (t : TargetSpec) :
    RCfg env × TargetObs :=
  let st0 : RunSt env := { r := r }
  -- probes on the target while it is unknown, and invalid Adds
  let st1 := t.probes.foldl (fun st f =>
      if f = 'c' then st.api (.reconnect name)
      else if f = 'r' then st.api (.remove name)
      else if f = 'e' || f = 'n' || f = 'z' then st.api (.addInvalid name)
      else st) st0
  let fuel := 400 + 40 * (t.script.foldl (fun n s => n + 8 + s.a.msgs.length) 0)
  let rec loop : Nat → RunSt env → RunSt env
    | 0, st => st
    | k + 1, st =>
      let st := st.api (.add name t.rt)
      let st := if t.probes.contains 'a' then st.api (.add name t.rt) else st
      let st := drive name t.script fuel st
      if st.readd && !st.stuck then
        -- the old goroutine's deferred Reconnect finds no target
        loop k { st with readd := false }
      else st
  let st2 := loop (t.script.length + 1) st1
  let st3 := t.probes.foldl (fun st f =>
      if f = 'R' then st.api (.remove name)
      else if f = 'C' then st.api (.reconnect name)
      else st) st2
  let tr := st3.r.c.trace name
  let cut := match st3.removeAt with
    | some k => k
    | none => tr.length
  (st3.r, { pre := tr.take cut, drain := tr.drop cut, rets := st3.rets, racy := t.racy,
            stuck := st3.stuck || st3.removeAt.isNone,
            acq := st3.r.c.sumFor st3.r.g acquired name, leak := st3.r.c.sumFor st3.r.g held name,
            twice := st3.r.c.sumFor st3.r.g twice name })

/-- The environment script of a scenario: target `t<k>` gets the attempts of the `k`-th spec;
beyond the script every attempt fails to dial (never reached: the scenario removes the target). -/
def scenarioEnv (names : List Name) (ts : List TargetSpec) : Name → Nat → Attempt :=
  fun n k =>
    match (names.zip ts).find? (fun p => p.1 == n) with
    | some (_, t) => match t.script[k]? with
      | some s => s.a
      | none => .dialFail
    | none => .dialFail

/-- A whole scenario: the targets one after the other in one manager. -/
def runScenario (ts : List TargetSpec) : List TargetObs :=
  let names := (List.range ts.length).map (fun k => "t" ++ toString k)
  let env := scenarioEnv names ts
  let rec go : List (Name × TargetSpec) → RCfg env → List TargetObs
    | [], _ => []
    | (n, t) :: rest, r =>
      let (r', o) := runTarget r n t
      o :: go rest r'
  go (names.zip ts) (RCfg.init env)

/-- In the drain, drop trailing `ConnectError, MonitorError` pairs (see `go/vcorr/mg.go`). -/
def stripEM (l : List Ev) : List Ev :=
  let rec go : List Ev → List Ev
    | .monitorError :: .connectError :: rest => go rest
    | l => l
  (go l.reverse).reverse

end Gnmi.Manager
