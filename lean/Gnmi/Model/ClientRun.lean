import Gnmi.Model.ClientLTS
/-!
# Scenario semantics of the client LTS (what the `rc` driver component executes)

A scenario = wrapper mode, query type, transport script, and the point at which `Close` (or the
cancellation of the caller's context) is injected.  `runScenario` schedules the LTS of
`Model/ClientLTS.lean` deterministically: goroutine S runs until the injection point, then
goroutine K (or the environment) moves as far as it can, then S runs to completion, then K.
Every configuration it visits is reachable in the LTS (`Lemmas/ClientLTS.lean: exec_reach`), so
the predicted traces are traces of the transition system the C18 theorems are about.
-/
namespace Gnmi
namespace ClientLTS

/-- notification kinds of the gNMI transport (`client.Update`, `client.Delete`, `client.Sync`) -/
inductive NKind where
  | upd | del | sync
deriving DecidableEq, Repr

/-- scripted messages as the harness writes them -/
inductive MsgSpec where
  | update (k j : Nat)   -- SubscribeResponse_Update with k updates and j deletes
  | sync                 -- SyncResponse
  | errResp              -- SubscribeResponse_Error
deriving Repr

inductive AttemptSpec where
  | initFail                                      -- X
  | subFail                                       -- Y
  | stream (msgs : List MsgSpec) (term : Option Term)   -- term none = B (block)
deriving Repr

inductive InjKind where
  | pre | conn (a : Nat) | msg (a i : Nat) (buffered : Option Nat) | disc (a : Nat) | rst (a : Nat)
  | bo (a : Nat) | fin
  | jit (n : Nat)   -- ungated (timer based): not scheduled by the model, judged by the monitors
deriving Repr

structure Scenario where
  wrap : Bool
  poll : Bool
  script : List AttemptSpec
  cancel : Bool          -- inject cancellation of the caller's context instead of Close
  inj : InjKind
deriving Repr

def msgOf (poll : Bool) : MsgSpec → Msg NKind
  | .update k j => { notis := List.replicate k .upd ++ List.replicate j .del, ret := .ok }
  | .sync => { notis := [.sync], ret := if poll then .stop else .ok }
  | .errResp => { notis := [], ret := .err }

/-- attempts past the end of the script connect and block -/
def blockAttempt : Attempt NKind := { conn := .ok, items := [.wait], term := .err }

def attemptOf (poll : Bool) : AttemptSpec → Attempt NKind
  | .initFail => { conn := .fail, items := [], term := .err }
  | .subFail => { conn := .subFail, items := [], term := .err }
  | .stream ms t =>
      { conn := .ok,
        items := ms.map (fun m => Item.msg (msgOf poll m)) ++ (match t with | none => [.wait] | some _ => []),
        term := t.getD .err }

/-- the gate the harness puts at the injection point -/
def gate (inj : InjKind) (a : Nat) (at_ : Attempt NKind) : Attempt NKind :=
  match inj with
  | .conn a' => if a = a' then { at_ with conn := .hang } else at_
  | .msg a' i buf =>
      if a = a' then
        { at_ with items := at_.items.take i ++ [.wait] ++
                     List.replicate (buf.getD 0) (Item.msg { notis := [.upd], ret := .ok }),
                   term := .err }
      else at_
  | _ => at_

def scriptOf (sc : Scenario) : Script NKind := fun a =>
  gate sc.inj a (match sc.script[a]? with
    | some sp => attemptOf sc.poll sp
    | none => blockAttempt)

/-- run goroutine S until `stop` holds, S is parked / has returned, or the fuel is out -/
def runS (wrap : Bool) (s : Script NKind) (buffered : Bool) (stop : Cfg NKind → Bool) :
    Nat → Cfg NKind → Cfg NKind
  | 0, c => c
  | fuel + 1, c =>
      if stop c then c else
      match sNext wrap s buffered c with
      | none => c
      | some (_, c') => runS wrap s buffered stop fuel c'

/-- run goroutine K as far as it can go (at most three steps) -/
def runK (wrap : Bool) : Nat → Cfg NKind → Cfg NKind
  | 0, c => c
  | fuel + 1, c =>
      match kNext wrap c with
      | none => c
      | some (_, c') => runK wrap fuel c'

def cancelNow (c : Cfg NKind) : Cfg NKind :=
  match envCancel c with
  | none => c
  | some (_, c') => c'

def parked (wrap : Bool) (s : Script NKind) (c : Cfg NKind) : Bool :=
  (sNext wrap s false c).isNone && (match c.spc with | .returned _ => false | _ => true)

/-- has the injection point been reached? (S stops here) -/
def atInjection (sc : Scenario) (c : Cfg NKind) : Bool :=
  match sc.inj, c.spc with
  | .pre, .idle => true
  | .disc a, .ctxCheck _ => c.att == a
  | .rst a, .connect => c.att == a && a != 0
  | .bo a, .sleeping => c.att == a
  | _, _ => false

/-- the injection point is the one the scenario names -/
def injectionOk (sc : Scenario) (s : Script NKind) (c : Cfg NKind) : Bool :=
  match sc.inj with
  | .conn a => parked sc.wrap s c && c.att == a && (match c.spc with | .connect => true | _ => false)
  | .msg a i _ => parked sc.wrap s c && c.att == a && c.mi == i && (match c.spc with | .recv => true | _ => false)
  | .fin => (match c.spc with | .returned _ => true | _ => false)
  | _ => atInjection sc c

structure Outcome where
  valid : Bool
  mark : Nat              -- length of the trace when the injection happened
  final : Cfg NKind

def fuelOf (sc : Scenario) : Nat :=
  200 + 40 * (sc.script.length + 4) +
    (sc.script.map (fun a => match a with
      | .stream ms _ => (ms.map (fun m => match m with | .update k j => k + j + 8 | _ => 8)).sum
      | _ => 8)).sum * 2

def runScenario (sc : Scenario) : Outcome :=
  let s := scriptOf sc
  let fuel := fuelOf sc
  let c1 := runS sc.wrap s false (atInjection sc) fuel init
  let ok := injectionOk sc s c1 &&
    -- shapes the harness does not produce
    (match sc.inj with
     | .fin => !sc.wrap && !sc.cancel
     | .pre => sc.wrap || !sc.cancel
     | .conn _ => sc.wrap || sc.cancel
     | .msg _ _ b => !(sc.cancel && b.isSome)
     | _ => sc.wrap)
  let c2 := if sc.cancel then cancelNow c1 else runK sc.wrap 4 c1
  let buffered := match sc.inj with | .msg _ _ (some _) => true | _ => false
  let c3 := runS sc.wrap s buffered (fun _ => false) fuel c2
  let c4 := runK sc.wrap 4 c3
  { valid := ok, mark := c1.trace.length, final := c4 }

end ClientLTS
end Gnmi
