import Gnmi.Spec.CoQueue
/-!
# The gNMI `Subscribe` server protocol as a labelled transition system

Shared by C04, C05 (concurrent part), C07, C08.  Abstract and small on purpose (DESIGN §8,
"The Subscribe LTS"): the objects are

* keys `K` (a key = target + index path of one cache leaf), values `V`, targets `T`
  (`tgt : K → T`), *regions* `R` = the subtree deletes the cache announces with one detached
  notification: `Cache.Remove` (`[target, *]`, `isTD r = true`) and the per-root deletes of
  `Target.Reset` (`[target, root, *]`); `covers r k` says the key lies in the region;
* the cache: per key a presence bit, a **generation** counter and the value of every
  generation (`val k g` = the last value written to the leaf object of generation `g`; it stays
  readable after the leaf was detached — `(*ctree.Leaf).Value()`).  A *handle* is `(k, g)`;
* writers: a unit is `W1` (one tree write) followed by `W2` — except the *quiet* write `w1Quiet`
  (event-driven suppression: a write that leaves the value unchanged is stored but not announced) —
  (the feed callback,
  `cache.Target.GnmiUpdate`: `t.gnmiUpdate`/`t.gnmiRemove` then `t.client(nd)` →
  `subscribe.Server.Update` → `UpdateNotification` → `match.UpdateOnce` → `matchClient.Update` →
  `coalesce.Queue.Insert`).  The units between their `W1` and `W2` are the pool `pend`;
  a `W1` on key `k` is enabled only when no pending unit touches `k` (*per-key serialised
  writers*, the hypothesis of C04);
* subscribers: a natural number each, with a static request `Sys.req s`; any number of them.

The global transition relation has two constructors: a **shared** step (writer / cache
administration; its effect on *every* subscriber is a function `Sub.onShared` that never looks
at a sender, a gate or a timer) and a **local** step of one subscriber (handler, walker,
sender, environment of that RPC) which only *reads* the shared state.  The guards and effects
are the executable functions `shFire` / `subFire`, so `fire` is `Step` by construction.
-/
namespace Gnmi
namespace SubLTS

/-- `SubscriptionList.Mode`; `other` = a value that is none of the three (the `default:` arm of the
mode `switch` of `Subscribe`, reached after `HasTarget` and the ACL check) -/
inductive Mode where
  | stream | once | poll | other
deriving DecidableEq, Repr

/-- final status of the RPC -/
inductive Status where
  | ok | unauthenticated | invalid | notFound | denied | timeout | cancelled
deriving DecidableEq, Repr

/-- what a coalescing queue of a subscriber holds -/
inductive Item (K R : Type) where
  | handle (k : K) (g : Nat)   -- `*ctree.Leaf` of generation `g` of key `k`
  | delNote (k : K)            -- detached leaf with the delete notification of exactly leaf `k`
  | regionDel (r : R)          -- detached leaf with a subtree delete (`Remove`, `Reset` root)
  | syncMarker                 -- `syncMarker{}`
deriving DecidableEq, Repr

/-- what is passed to `stream.Send` -/
inductive Resp (K V R : Type) where
  | upd (k : K) (v : V) (dups : Nat)
  | del (k : K)
  | rdel (r : R)
  | sync
deriving DecidableEq, Repr

/-- a writer unit between its tree write `W1` and its notification `W2` -/
inductive WUnit (K R : Type) where
  | upd (k : K) (g : Nat)      -- leaf `(k, g)` was written (update of an existing leaf or add)
  | del (k : K)                -- leaf `k` was deleted (one of the leaves of a `gnmiRemove`)
  | reg (r : R)                -- every leaf of region `r` was deleted (`Remove`, `Reset` root)
deriving DecidableEq, Repr

/-- the static part of one Subscribe RPC -/
structure Req (K T R : Type) where
  mode : Mode := .stream
  updatesOnly : Bool := false
  /-- `some t`: prefix target `t`; `none`: target `*` -/
  single : Option T := none
  /-- the registered paths are `compatible` with the key (C06: exactly what is offered) -/
  wants : K → Bool
  /-- some completed subscription path `qmatches` the key (what the walk returns) -/
  walks : K → Bool
  /-- how many *further* completed subscription paths `qmatches` the key: `processSubscription` runs one
  `Query` per subscription path and inserts every leaf each returns, so within one walk a leaf may be
  visited once per path that matches it (each further visit only adds a duplicate to the pending entry) -/
  extra : K → Nat := fun _ => 0
  /-- the registered paths are `compatible` with the path of the region delete -/
  wantsR : R → Bool
  /-- the per-RPC ACL (`RPCACL.Check`) -/
  allow : T → Bool
  /-- `NewRPCACL` succeeds (or no ACL is installed) -/
  aclOk : Bool := true
  /-- the first request passes the validation `switch` of `Subscribe` (a subscription list, a
  prefix, a non-empty target; the mode is tested later, at `h4`) -/
  valid : Bool := true

/-- the static part of the system -/
structure Sys (K T R : Type) where
  tgt : K → T
  covers : R → K → Bool
  rtgt : R → T
  /-- `isTargetDelete`: the region is a whole target (`Remove`) -/
  isTD : R → Bool
  req : Nat → Req K T R
  /-- `false`: the code as it is (register, then walk).  `true`: the variant with the walk
  before the registration (only used by `C04.swap_breaks`) -/
  swap : Bool := false

/-- what the models of `match` (C06) and `ctree.Query` (C09/C10) guarantee about the predicates -/
structure Sys.WF {K T R : Type} (sys : Sys K T R) : Prop where
  /-- C06 `query_subset_stream`: `qmatches ⊆ compatible` -/
  walks_wants : ∀ s k, (sys.req s).walks k = true → (sys.req s).wants k = true
  /-- a query compatible with a key is compatible with every region path covering the key -/
  wants_region : ∀ s k r, (sys.req s).wants k = true → sys.covers r k = true →
    (sys.req s).wantsR r = true
  /-- a region lies inside one target -/
  covers_tgt : ∀ r k, sys.covers r k = true → sys.tgt k = sys.rtgt r

section
variable {K V T R : Type} [DecidableEq K] [DecidableEq R]

/-! ## The shared state: cache + writers -/

structure Shared (K V T R : Type) where
  /-- every key that was ever added (finite support of `present`) -/
  keys : List K := []
  present : K → Bool := fun _ => false
  /-- current (or last) generation of the leaf at `k`; 0 = never existed -/
  gen : K → Nat := fun _ => 0
  /-- value readable through the handle `(k, g)` -/
  val : K → Nat → V
  /-- `Cache.HasTarget` -/
  hasT : T → Bool := fun _ => false
  /-- writer units between `W1` and `W2` -/
  pend : List (WUnit K R) := []
  /-- ghost: every tree write `(k, g, v)` in order -/
  wlog : List (K × Nat × V) := []
  /-- ghost: every *quiet* write `(old, new)` in order: a `W1` that is not followed by a `W2`
  (event-driven suppression: the new value is stored, nobody is told) -/
  qlog : List (V × V) := []

/-- the cache as a partial map -/
def Shared.cache (sh : Shared K V T R) (k : K) : Option V :=
  if sh.present k then some (sh.val k (sh.gen k)) else none

/-- the pending unit concerns key `k` -/
def WUnit.touches (sys : Sys K T R) (k : K) : WUnit K R → Bool
  | .upd k' _ => k' = k
  | .del k' => k' = k
  | .reg r => sys.covers r k

/-- a pending *key* unit lies in region `r` -/
def WUnit.inRegion (sys : Sys K T R) (r : R) : WUnit K R → Bool
  | .upd k _ => sys.covers r k
  | .del k => sys.covers r k
  | .reg _ => false

/-- some unit between `W1` and `W2` concerns `k` (E.1: "`k` is in flight") -/
def Shared.inflight (sys : Sys K T R) (sh : Shared K V T R) (k : K) : Bool :=
  sh.pend.any (WUnit.touches sys k)

/-- labels of the shared steps -/
inductive ShLabel (K V T R : Type) where
  | tAdd (t : T)               -- `Cache.Add`
  | w1Upd (k : K) (v : V)      -- `gnmiUpdate`, existing leaf: `oldval.Update(n)`
  | w1Add (k : K) (v : V)      -- `gnmiUpdate`, new leaf: `t.t.Add(path, n)`
  /-- `gnmiUpdate`, existing leaf, event-driven suppression: `oldval.Update(n)` stores the notification
  (newer timestamp), then `value.Equal(old, new)` ⇒ `return nil`: no `t.client(nd)`, no `W2`.  The
  test `value.Equal` is **not** a guard of the step (the LTS knows nothing about values): the step
  logs `(old, new)` in the ghost `qlog`, and the theorems about values (`C04.converges`) speak about
  that log — a superset of the code's behaviours; the code's runs are those whose `qlog` only holds
  pairs of equal values. -/
  | w1Quiet (k : K) (v : V)
  | w1Del (ks : List K)        -- `gnmiRemove`: `WalkDeleted` removes these leaves (root write lock)
  | w1Reg (r : R)              -- `Remove`: `delete(c.targets, t)`; `Reset`: `t.t.Delete([root])`
  | w2 (u : WUnit K R)         -- `t.client(nd)` for one pending unit
deriving DecidableEq, Repr

def setFn {α β : Type} [DecidableEq α] (f : α → β) (a : α) (b : β) : α → β :=
  fun x => if x = a then b else f x

/-- guards and effects of the shared steps on the shared state -/
def shFire [DecidableEq T] (sys : Sys K T R) (sh : Shared K V T R) :
    ShLabel K V T R → Option (Shared K V T R)
  | .tAdd t => some { sh with hasT := setFn sh.hasT t true }
  | .w1Upd k v =>
    if sh.present k = true ∧ sh.inflight sys k = false then
      some { sh with val := setFn sh.val k (setFn (sh.val k) (sh.gen k) v),
                     pend := sh.pend ++ [.upd k (sh.gen k)],
                     wlog := sh.wlog ++ [(k, sh.gen k, v)] }
    else none
  | .w1Quiet k v =>
    if sh.present k = true ∧ sh.inflight sys k = false then
      some { sh with val := setFn sh.val k (setFn (sh.val k) (sh.gen k) v),
                     wlog := sh.wlog ++ [(k, sh.gen k, v)],
                     qlog := sh.qlog ++ [(sh.val k (sh.gen k), v)] }
    else none
  | .w1Add k v =>
    if sh.present k = false ∧ sh.inflight sys k = false ∧ sh.hasT (sys.tgt k) = true then
      some { sh with keys := if k ∈ sh.keys then sh.keys else sh.keys ++ [k],
                     present := setFn sh.present k true,
                     gen := setFn sh.gen k (sh.gen k + 1),
                     val := setFn sh.val k (setFn (sh.val k) (sh.gen k + 1) v),
                     pend := sh.pend ++ [.upd k (sh.gen k + 1)],
                     wlog := sh.wlog ++ [(k, sh.gen k + 1, v)] }
    else none
  | .w1Del ks =>
    if ks.all (fun k => sh.present k && !sh.inflight sys k) = true then
      some { sh with present := fun k => sh.present k && !decide (k ∈ ks),
                     pend := sh.pend ++ ks.map .del }
    else none
  | .w1Reg r =>
    if sh.pend.all (fun u => !u.inRegion sys r) = true then
      some { sh with present := fun k => sh.present k && !sys.covers r k,
                     hasT := if sys.isTD r then setFn sh.hasT (sys.rtgt r) false else sh.hasT,
                     pend := sh.pend ++ [.reg r] }
    else none
  | .w2 u => if u ∈ sh.pend then some { sh with pend := sh.pend.erase u } else none

/-! ## One subscriber -/

/-- program counter of the RPC handler goroutine (`Server.Subscribe`) -/
inductive HPc where
  | h0      -- `NewRPCACL`
  | h1      -- `stream.Recv` + validation switch
  | h2      -- `HasTarget`
  | h3      -- single-target ACL check
  | h4      -- mode switch (`updates_only`: insert the sync marker; unknown mode: InvalidArgument)
  | reg     -- `addSubscription`
  | spawn   -- `go processSubscription` / `go processPollingSubscription`, `go sendStreamingResults`
  | run     -- `<-errC`
  | fin     -- returned (deferred: remove registration, close queue)
deriving DecidableEq, Repr

inductive Walker (K : Type) where
  | idle
  /-- `todo`: keys present at walk start, not deleted since, not yet visited;
  `vis`: keys already visited in this walk -/
  | walking (todo vis : List K)
  | done
deriving DecidableEq, Repr

inductive Snd (K V R : Type) where
  | off                              -- goroutine not started
  | idle                             -- about to call / blocked in `queue.Next`
  | got (i : Item K R) (d : Nat)     -- `Next` returned `(i, d)`
  | sendSync                         -- in `stream.Send(subscribeSync)`: timer armed (since the repair of D24)
  | sending (r : Resp K V R)         -- in `sendSubscribeResponse`: timer armed, in `stream.Send`
  | stopped                          -- returned
deriving DecidableEq, Repr

structure Sub (K V R : Type) where
  pc : HPc := .h0
  registered : Bool := false
  /-- coalescing queue, `Spec/CoQueue` representation: (item, duplicates) in first-insertion order -/
  q : List (Item K R × Nat) := []
  closed : Bool := false
  walker : Walker K := .idle
  snd : Snd K V R := .off
  /-- the send timer `t` of `sendStreamingResults` is armed -/
  armed : Bool := false
  /-- the client's flow-control gate is closed: `stream.Send` does not return -/
  blocked : Bool := false
  /-- every response handed to a completed `stream.Send`, in order -/
  sent : List (Resp K V R) := []
  status : Option Status := none
  -- ghost state (never read by a guard)
  /-- ghost: every accepted `Queue.Insert`, in order -/
  insLog : List (Item K R) := []
  /-- ghost: every `(item, dups)` returned by `Queue.Next` -/
  deliv : List (Item K R × Nat) := []
  /-- ghost: `(k, v)` for every value key `k` held since the walker was spawned -/
  held : List (K × V) := []
  /-- ghost: keys present at the start of the current snapshot (registration for STREAM,
  walk start for ONCE/POLL) and not deleted before the end of the walk -/
  since : List K := []
  /-- ghost: number of walks started (1 + number of poll triggers received) -/
  rounds : Nat := 0

/-- delete and region-delete notifications are fresh detached leaves: never coalesced -/
def Item.coal : Item K R → Bool
  | .handle _ _ => true
  | .syncMarker => true
  | _ => false

/-- `Queue.Insert` on the `CoQueue` representation: a pending coalescable item gets one more
duplicate and keeps its position, anything else is appended -/
def qins (q : List (Item K R × Nat)) (i : Item K R) : List (Item K R × Nat) :=
  if i.coal = true ∧ i ∈ q.map (·.1) then Coalesce.bump i q else q ++ [(i, 0)]

/-- `Queue.Insert` (refused when closed) -/
def Sub.ins (b : Sub K V R) (i : Item K R) : Sub K V R :=
  if b.closed then b else { b with q := qins b.q i, insLog := b.insLog ++ [i] }

/-- the RPC returns: deferred `remove()` and `queue.Close()`; all goroutines of the RPC stop -/
def Sub.finish (b : Sub K V R) (st : Status) : Sub K V R :=
  { b with pc := .fin, status := some st, registered := false, closed := true,
           snd := .stopped, armed := false }

/-- keys the walk has to return if nothing changes: present and matched by a query -/
def snapshot (sh : Shared K V T R) (rq : Req K T R) : List K :=
  sh.keys.filter (fun k => sh.present k && rq.walks k)

/-- ghost: the current values -/
def heldNow (sh : Shared K V T R) : List (K × V) :=
  (sh.keys.filter sh.present).map (fun k => (k, sh.val k (sh.gen k)))

/-- a new walk (`processSubscription`) begins -/
def Sub.startWalk (sh : Shared K V T R) (rq : Req K T R) (b : Sub K V R) : Sub K V R :=
  { b with walker := .walking (if rq.updatesOnly then [] else snapshot sh rq) [],
           rounds := b.rounds + 1 }

def Walker.filter (f : K → Bool) : Walker K → Walker K
  | .walking todo vis => .walking (todo.filter f) vis
  | w => w

/-- effect of a shared step on a subscriber.  Only `w2` touches real state (one
`Queue.Insert`, iff registered and the registered paths are compatible — C06); the deletes
update the bookkeeping of "present throughout the walk" (C10 `query_stability`), the writes
the ghost `held`.  No sender, gate or timer state is read. -/
def Sub.onShared (sys : Sys K T R) (rq : Req K T R) (b : Sub K V R) :
    ShLabel K V T R → Sub K V R
  | .tAdd _ => b
  | .w1Upd k v => { b with held := b.held ++ [(k, v)] }
  | .w1Add k v => { b with held := b.held ++ [(k, v)] }
  | .w1Quiet k v => { b with held := b.held ++ [(k, v)] }
  | .w1Del ks =>
    { b with walker := b.walker.filter (fun k => !decide (k ∈ ks)),
             since := if b.walker = .done then b.since else b.since.filter (fun k => !decide (k ∈ ks)) }
  | .w1Reg r =>
    { b with walker := b.walker.filter (fun k => !sys.covers r k),
             since := if b.walker = .done then b.since else b.since.filter (fun k => !sys.covers r k) }
  | .w2 (.upd k g) => if b.registered && rq.wants k then b.ins (.handle k g) else b
  | .w2 (.del k) => if b.registered && rq.wants k then b.ins (.delNote k) else b
  | .w2 (.reg r) => if b.registered && rq.wantsR r then b.ins (.regionDel r) else b

/-- labels of the local steps of one subscriber -/
inductive SLabel (K : Type) where
  | hs               -- the handler executes its next statement
  | visit (k : K)    -- the walk visits leaf `k` (under the tree's read locks) and inserts its handle (once per matching path)
  | finish           -- the walk is over: insert the sync marker (ONCE: close the queue)
  | poll             -- POLL: a trigger is received, walk again
  | eof              -- POLL: the client half-closes
  | next             -- `queue.Next` returns the head
  | drained          -- `queue.Next` returns `errClosedQueue`
  | build            -- read the value, build the response, ACL check, arm the timer
  | sent             -- `stream.Send` returns
  | expire           -- the send timer fires
  | gateClose        -- the client stops reading
  | gateOpen         -- the client reads again
  | cancel           -- the client goes away (context cancelled)
deriving DecidableEq, Repr

/-- the response built from a dequeued item (`MakeSubscribeResponse` with the value read
**now** through the handle) and the target the ACL is asked about -/
def mkResp (sys : Sys K T R) (sh : Shared K V T R) (d : Nat) : Item K R → Option (Resp K V R × T)
  | .handle k g => some (.upd k (sh.val k g) d, sys.tgt k)
  | .delNote k => some (.del k, sys.tgt k)
  | .regionDel r => some (.rdel r, sys.rtgt r)
  | .syncMarker => none

/-- `isTargetDelete(n) && c.target != "*"` -/
def endsStream (sys : Sys K T R) (rq : Req K T R) : Item K R → Bool
  | .regionDel r => sys.isTD r && rq.single.isSome
  | _ => false

def endsStreamR (sys : Sys K T R) (rq : Req K T R) : Resp K V R → Bool
  | .rdel r => sys.isTD r && rq.single.isSome
  | _ => false

/-- the handler's next statement -/
def hFire (sys : Sys K T R) (rq : Req K T R) (sh : Shared K V T R) (b : Sub K V R) :
    Option (Sub K V R) :=
  match b.pc with
  | .h0 => some (if rq.aclOk then { b with pc := .h1 } else b.finish .unauthenticated)
  | .h1 => some (if rq.valid then { b with pc := .h2 } else b.finish .invalid)
  | .h2 => some (match rq.single with
      | some t => if sh.hasT t then { b with pc := .h3 } else b.finish .notFound
      | none => { b with pc := .h3 })
  | .h3 => some (match rq.single with
      | some t => if rq.allow t then { b with pc := .h4 } else b.finish .denied
      | none => { b with pc := .h4 })
  | .h4 => some (match rq.mode with
      | .stream =>
        let b1 := if rq.updatesOnly then b.ins .syncMarker else b
        { b1 with pc := if sys.swap then .spawn else .reg }
      | .other => b.finish .invalid
      | _ => { b with pc := .spawn })
  | .reg =>
    -- swapped variant: the (sequential) walk has to be over
    if sys.swap = true ∧ b.walker ≠ .done then none
    else some { b with registered := true, pc := if sys.swap then .run else .spawn,
                       since := if b.walker = .idle then sh.keys.filter sh.present else b.since }
  | .spawn =>
    let b1 : Sub K V R :=
      if rq.mode = .stream ∧ rq.updatesOnly = true then { b with walker := .done }
      else b.startWalk sh rq
    some { b1 with snd := .idle, held := heldNow sh,
                   since := if b.registered then b.since else sh.keys.filter sh.present,
                   pc := if sys.swap = true ∧ rq.mode = .stream then .reg else .run }
  | .run => none
  | .fin => none

/-- guards and effects of the local steps (read-only on the shared state) -/
def subFire (sys : Sys K T R) (rq : Req K T R) (sh : Shared K V T R) (b : Sub K V R) :
    SLabel K → Option (Sub K V R)
  | .hs => hFire sys rq sh b
  | .visit k =>
    match b.walker with
    | .walking todo vis =>
      if b.status = none ∧ rq.updatesOnly = false ∧ sh.present k = true ∧ rq.walks k = true ∧ vis.count k ≤ rq.extra k then
        some { b.ins (.handle k (sh.gen k)) with walker := .walking (todo.filter (· ≠ k)) (k :: vis) }
      else none
    | _ => none
  | .finish =>
    match b.walker with
    | .walking [] _ =>
      if b.status = none then
        let b1 := b.ins .syncMarker
        some { b1 with walker := .done, closed := b1.closed || decide (rq.mode = .once) }
      else none
    | _ => none
  | .poll =>
    if b.status = none ∧ rq.mode = .poll ∧ b.walker = .done then
      some { b.startWalk sh rq with since := sh.keys.filter sh.present }
    else none
  | .eof =>
    if b.status = none ∧ rq.mode = .poll ∧ b.walker = .done then some (b.finish .ok) else none
  | .next =>
    match b.snd, b.q with
    | .idle, (i, d) :: rest => some { b with q := rest, snd := .got i d, deliv := b.deliv ++ [(i, d)] }
    | _, _ => none
  | .drained =>
    match b.snd, b.q with
    | .idle, [] => if b.closed then some (b.finish .ok) else none
    | _, _ => none
  | .build =>
    match b.snd with
    | .got i d =>
      match mkResp sys sh d i with
      | none => some { b with snd := .sendSync, armed := true }
      | some (r, t) =>
        if rq.allow t then some { b with snd := .sending r, armed := true }
        else if endsStream sys rq i then some (b.finish .ok)
        else some { b with snd := .idle }
    | _ => none
  | .sent =>
    if b.blocked then none else
    match b.snd with
    | .sendSync => some { b with snd := .idle, armed := false, sent := b.sent ++ [.sync] }
    | .sending r =>
      let b1 := { b with snd := .idle, armed := false, sent := b.sent ++ [r] }
      some (if endsStreamR sys rq r then b1.finish .ok else b1)
    | _ => none
  | .expire => if b.armed then some (b.finish .timeout) else none
  | .gateClose => some { b with blocked := true }
  | .gateOpen => some { b with blocked := false }
  | .cancel => if b.pc = .run then some (b.finish .cancelled) else none

/-! ## The global system -/

structure Cfg (K V T R : Type) where
  sh : Shared K V T R
  subs : Nat → Sub K V R

inductive Label (K V T R : Type) where
  | sh (l : ShLabel K V T R)
  | sub (s : Nat) (l : SLabel K)
deriving DecidableEq, Repr

variable [DecidableEq T]

/-- the transition relation: any number of writers and subscribers, any schedule -/
inductive Step (sys : Sys K T R) : Cfg K V T R → Label K V T R → Cfg K V T R → Prop where
  | shared (c : Cfg K V T R) (l : ShLabel K V T R) (sh' : Shared K V T R) :
      shFire sys c.sh l = some sh' →
      Step sys c (.sh l) ⟨sh', fun s => (c.subs s).onShared sys (sys.req s) l⟩
  | sub (c : Cfg K V T R) (s : Nat) (l : SLabel K) (b' : Sub K V R) :
      subFire sys (sys.req s) c.sh (c.subs s) l = some b' →
      Step sys c (.sub s l) ⟨c.sh, setFn c.subs s b'⟩

/-- empty cache, nobody has called `Subscribe` yet -/
def Cfg.init [Inhabited V] : Cfg K V T R :=
  ⟨{ val := fun _ _ => default }, fun _ => {}⟩

inductive Reach [Inhabited V] (sys : Sys K T R) : Cfg K V T R → Prop where
  | init : Reach sys Cfg.init
  | step {c c' : Cfg K V T R} {l : Label K V T R} : Reach sys c → Step sys c l c' → Reach sys c'

/-- executable `Step` -/
def fire (sys : Sys K T R) (c : Cfg K V T R) : Label K V T R → Option (Cfg K V T R)
  | .sh l => (shFire sys c.sh l).map
      (fun sh' => ⟨sh', fun s => (c.subs s).onShared sys (sys.req s) l⟩)
  | .sub s l => (subFire sys (sys.req s) c.sh (c.subs s) l).map
      (fun b' => ⟨c.sh, setFn c.subs s b'⟩)

def fireAll (sys : Sys K T R) (c : Cfg K V T R) : List (Label K V T R) → Option (Cfg K V T R)
  | [] => some c
  | l :: ls => match fire sys c l with
    | some c' => fireAll sys c' ls
    | none => none

theorem fire_sound {sys : Sys K T R} {c c' : Cfg K V T R} {l : Label K V T R}
    (h : fire sys c l = some c') : Step sys c l c' := by
  cases l with
  | sh l =>
    simp only [fire, Option.map_eq_some_iff] at h
    obtain ⟨sh', h1, rfl⟩ := h
    exact Step.shared c l sh' h1
  | sub s l =>
    simp only [fire, Option.map_eq_some_iff] at h
    obtain ⟨b', h1, rfl⟩ := h
    exact Step.sub c s l b' h1

theorem fire_complete {sys : Sys K T R} {c c' : Cfg K V T R} {l : Label K V T R}
    (h : Step sys c l c') : fire sys c l = some c' := by
  cases h with
  | shared l sh' h1 => simp [fire, h1]
  | sub s l b' h1 => simp [fire, h1]

theorem fireAll_reach [Inhabited V] {sys : Sys K T R} {c c' : Cfg K V T R}
    (ls : List (Label K V T R)) (hr : Reach sys c) (h : fireAll sys c ls = some c') :
    Reach sys c' := by
  induction ls generalizing c with
  | nil => simp only [fireAll, Option.some.injEq] at h; exact h ▸ hr
  | cons l ls ih =>
    simp only [fireAll] at h
    cases hf : fire sys c l with
    | none => rw [hf] at h; cases h
    | some c1 =>
      rw [hf] at h
      exact ih (Reach.step hr (fire_sound hf)) h

end
end SubLTS
end Gnmi
