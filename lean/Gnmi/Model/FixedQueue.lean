import Gnmi.Basic
/-!
# Model of `testing/fake/queue/fixed_queue.go` (`FixedQueue`)

Put the Go file next to this one.  `FixedQueue` delivers a given list of
`*gpb.SubscribeResponse` strictly in order; with `checkDelay` it computes, after handing out a
response, how long the *next* call of `Next` is going to sleep (`q.delay`), from the timestamps
of update responses.

What a response is, as far as the queue reads it:
* `nilResp` — a nil `*gpb.SubscribeResponse` entry (possible in a Go slice; `resp.Response` on
  it is a nil dereference);
* `update (some ts)` — `Response` is `*SubscribeResponse_Update` with a notification carrying
  `Timestamp = ts`; `update none` — the oneof wrapper holds a nil `*Notification`
  (`n.Update.Timestamp` is a direct field access: nil dereference);
* `other` — any other `Response` (sync_response, error, unset): the type assertion fails.
The payload is kept as an opaque tag `α` so that "the very same response comes out" can be stated.

Partial Go operations are checked and yield `panic` (never totalised).  `time.Sleep` itself is
not executed: the model reports the duration `Next` sleeps for (`slept`), in nanoseconds
(`time.Duration` is an `int64` count of nanoseconds; the subtraction
`next.Update.Timestamp - q.lastTS` is `int64` arithmetic and wraps, `wrap64`).
The mutex is not modelled (single goroutine).  Core Lean only.
-/
namespace Gnmi
namespace FXQ

/-- what `FixedQueue.Next` reads of a response -/
inductive Shape where
  | nilResp
  | update (ts : Option Int)
  | other
deriving DecidableEq, Repr, Inhabited

/-- a queued response: an opaque identity/payload and the shape the queue looks at -/
structure Resp (α : Type) where
  tag : α
  shape : Shape
deriving DecidableEq, Repr

/-- `type FixedQueue struct { resp; delay; checkDelay; lastTS }` -/
structure FQ (α : Type) where
  resp : List (Resp α) := []
  delay : Int := 0
  checkDelay : Bool := false
  lastTS : Int := 0
deriving Repr

variable {α : Type}

/-- `NewFixed(resp, delay)` -/
def newFixed (resp : List (Resp α)) (delay : Bool) : FQ α :=
  { resp := resp, checkDelay := delay }

/-- `Add(resp)`: append to the tail -/
def add (q : FQ α) (r : Resp α) : FQ α := { q with resp := q.resp ++ [r] }

/-- `int64` wrap-around of a mathematical integer -/
def wrap64 (x : Int) : Int := (x + 9223372036854775808) % 18446744073709551616 - 9223372036854775808

/-- result of one `Next` -/
inductive Res (α : Type) where
  | nil                                    -- `(nil, nil)`: exhausted
  | emit (r : Resp α) (slept : Int)        -- `(resp, nil)` after sleeping `slept` ns (0 = no sleep)
  | panic                                  -- nil dereference inside `Next`
deriving DecidableEq, Repr

/-- the `if nOk && n.Update.Timestamp > q.lastTS { q.lastTS = … }` statement; `none` = panic -/
def bumpLast (lastTS : Int) : Shape → Option Int
  | .nilResp => none                              -- `resp.Response` on a nil response
  | .update none => none                          -- `n.Update.Timestamp` on a nil notification
  | .update (some ts) => some (if ts > lastTS then ts else lastTS)
  | .other => some lastTS

/-- the new `q.delay` from the next queued response; `none` = panic -/
def nextDelay (lastTS : Int) : Shape → Option Int
  | .nilResp => none                              -- `q.resp[0].Response` on a nil response
  | .update none => none                          -- `next.Update.Timestamp` on a nil notification
  | .update (some ts) =>
      let d := wrap64 (ts - lastTS)
      some (if d < 0 then 0 else d)
  | .other => some 0

/-- `func (q *FixedQueue) Next() (interface{}, error)`.  On a panic the mutation `q.resp =
q.resp[1:]` (and `lastTS`, if already assigned) has happened; the model keeps exactly that. -/
def next (q : FQ α) : Res α × FQ α :=
  match q.resp with
  | [] => (.nil, q)
  | r :: rest =>
    let slept := q.delay                           -- `if q.delay != 0 { time.Sleep(q.delay) }`
    let q1 := { q with resp := rest }
    match rest with
    | [] => (.emit r slept, q1)                    -- `len(q.resp) > 0` fails: delay left as it is
    | nx :: _ =>
      if q.checkDelay then
        match bumpLast q.lastTS r.shape with
        | none => (.panic, q1)
        | some l =>
          let q2 := { q1 with lastTS := l }
          match nextDelay l nx.shape with
          | none => (.panic, q2)
          | some d => (.emit r slept, { q2 with delay := d })
      else (.emit r slept, q1)

/-- the state after `n` calls of `Next` -/
def after : Nat → FQ α → FQ α
  | 0, q => q
  | n + 1, q => after n (next q).2

/-- what `n` successive calls of `Next` return -/
def results : Nat → FQ α → List (Res α)
  | 0, _ => []
  | n + 1, q => (next q).1 :: results n (next q).2

def Res.emitted? : Res α → Option (Resp α)
  | .emit r _ => some r
  | _ => none

/-- the responses handed out by `n` successive calls -/
def emits (n : Nat) (q : FQ α) : List (Resp α) := (results n q).filterMap Res.emitted?

/-- API calls of a history -/
inductive Op (α : Type) where
  | add (r : Resp α)
  | next

/-- run a history: the results of its `Next` calls, in order, and the final state -/
def run : FQ α → List (Op α) → List (Res α) × FQ α
  | q, [] => ([], q)
  | q, .add r :: ops => run (add q r) ops
  | q, .next :: ops =>
    let s := next q
    let t := run s.2 ops
    (s.1 :: t.1, t.2)

end FXQ
end Gnmi
