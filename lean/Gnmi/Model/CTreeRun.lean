import Gnmi.Model.CTree
import Gnmi.Spec.PMap
/-!
Operation-sequence semantics of the tree model (`stepTrie`) and of the abstract
prefix-free map (`stepSpec`): what `Props/C09.history_refinement` relates and what the
line-protocol driver executes.
-/
namespace Gnmi
namespace C09
open Trie

/-- API calls (values are naturals; the delete condition is `v < n`). -/
inductive Op where
  | add (p : Path) (v : Nat)
  | get (p : Path)
  | query (q : Path)
  | walk
  | walkSorted
  | del (q : Path)
  | delIf (q : Path) (n : Nat)
  | upd (p : Path) (v : Nat)     -- `GetLeaf(p)` then `Leaf.Update(v)` when it is a leaf

inductive NodeKind where
  | none | nil | leaf (v : Nat) | branch
deriving DecidableEq, Repr

inductive Obs where
  | status (ok : Bool)
  | node (k : NodeKind)
  | set (l : List (Path × Nat))    -- order not specified (map iteration)
  | seq (l : List (Path × Nat))    -- order specified

/-- equality of observations up to the unspecified order of map iteration -/
def ObsEq : Obs → Obs → Prop
  | .status a, .status b => a = b
  | .node a, .node b => a = b
  | .set a, .set b => a.Perm b
  | .seq a, .seq b => a = b
  | _, _ => False

def kindOfTrie : Option (Trie Nat) → NodeKind
  | none => .none
  | some .empty => .nil
  | some (.leaf v) => .leaf v
  | some (.branch _) => .branch

/-- one API call on the implementation model -/
def stepTrie (t : Trie Nat) : Op → Trie Nat × Obs
  | .add p v => match add t p v with
      | some t' => (t', .status true)
      | none => (t, .status false)
  | .get p => (t, .node (kindOfTrie (get t p)))
  | .query q => (t, .set (query t q))
  | .walk => (t, .set (Trie.walk t))
  | .walkSorted => (t, .seq (Trie.walkSorted t))
  | .del q => let r := del (fun _ => true) t q; (r.1, .set r.2)
  | .delIf q n => let r := del (fun v => decide (v < n)) t q; (r.1, .set r.2)
  | .upd p v => match upd t p v with
      | some t' => (t', .status true)
      | none => (t, .status false)

def keyLe (a b : Path × Nat) : Bool := decide (a.1 ≤ b.1)

def kindOfSub (p : Path) (sub : PMap Nat) : NodeKind :=
  match sub with
  | [] => if p.isEmpty then .nil else .none
  | [([], v)] => .leaf v
  | _ => .branch

def specGet (m : PMap Nat) (p : Path) : NodeKind := kindOfSub p (m.filterMap (strip p))

/-- one API call on the abstract prefix-free map -/
def stepSpec (m : PMap Nat) : Op → PMap Nat × Obs
  | .add p v => match PMap.add m p v with
      | some m' => (m', .status true)
      | none => (m, .status false)
  | .get p => (m, .node (specGet m p))
  | .query q => (m, .set (PMap.query m q))
  | .walk => (m, .set m)
  | .walkSorted => (m, .seq (m.mergeSort keyLe))
  | .del q => let r := PMap.delete (fun _ => true) m q; (r.1, .set r.2)
  | .delIf q n => let r := PMap.delete (fun v => decide (v < n)) m q; (r.1, .set r.2)
  | .upd p v => match m.find? (fun kv => kv.1 == p) with
      | some _ => (((p, v) :: m.filter (fun kv => kv.1 != p)), .status true)
      | none => (m, .status false)

def runTrie : Trie Nat → List Op → List Obs
  | _, [] => []
  | t, op :: ops => (stepTrie t op).2 :: runTrie (stepTrie t op).1 ops

def runSpec : PMap Nat → List Op → List Obs
  | _, [] => []
  | m, op :: ops => (stepSpec m op).2 :: runSpec (stepSpec m op).1 ops


end C09
end Gnmi
