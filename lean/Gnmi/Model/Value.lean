import Gnmi.Basic
/-!
# Model of `value/value.go` (property C19)

`FromScalar`, `ToScalar`, `Equal`, arm for arm.

* `TV` is a `*gnmi.TypedValue`: `nilMsg` is the nil pointer, `unset` a message whose oneof
  `Value` is nil, then one constructor per oneof arm.  The two arms whose payload is itself a
  message pointer (`DecimalVal *Decimal64`, `LeaflistVal *ScalarArray`) have an extra
  constructor for a **nil payload** (`&TypedValue{Value: &TypedValue_DecimalVal{}}`): such a
  value cannot come out of `proto.Unmarshal`, but it is a Go value the functions accept, and the
  code dereferences the payload without its nil-safe getter (`av.DecimalVal.Digits`,
  `av.LeaflistVal.Element`, `d.Digits`).  Those dereferences are *checked* operations here
  (`Outcome.panic`), never totalised.
* Every other access the code makes goes through nil-safe generated getters
  (`a.GetValue()`, `tv.GetLeaflistVal().GetElement()`), modelled as total matches.
  The `DoubleVal` arm of `Equal` read `b.Value` directly until the repository's fix for defect
  D7 (now `b.GetValue()`); the pre-fix arm is kept as `equalPreD7` for the regression witness.
* Floats (DESIGN §4): `float32`/`float64` are abstract types `F`/`D` with the operations the
  code uses collected in `FloatOps` (`==`, `float64(·)`, `decimalToFloat`).  Theorems hold for
  every instance (laws needed are hypotheses: `LawfulFloatEq`); only the driver instantiates
  them with Lean's `Float32`/`Float`.

Core Lean only (compiled into the driver).
-/
namespace Gnmi.PV

/-- result of a Go call that may return an error or panic -/
inductive Outcome (α : Type) where
  | ok (a : α)
  | err
  | panic
deriving DecidableEq, Repr

namespace Outcome
def isPanic {α : Type} : Outcome α → Bool
  | .panic => true
  | _ => false
end Outcome

abbrev Bytes := List UInt8

/-- the float operations `value.go` uses -/
class FloatOps (F D : Type) where
  /-- `==` on `float32` -/
  feq32 : F → F → Bool
  /-- `==` on `float64` -/
  feq64 : D → D → Bool
  /-- `float64(v)` for a `float32` -/
  widen : F → D
  /-- `decimalToFloat`: `float32(float64(digits) / math.Pow(10, float64(precision)))` -/
  decToF : Int → Nat → F

/-- laws of Go's `==` on non-NaN floats read as *numeric values* (so `+0` and `-0` are the
same value): symmetric, and true only on equal values.  Reflexivity is deliberately not assumed
(NaN).  Hypothesis of `equal_symm` / `equal_sound`. -/
class LawfulFloatEq (F D : Type) [FloatOps F D] : Prop where
  feq32_symm : ∀ x y : F, FloatOps.feq32 (D := D) x y = FloatOps.feq32 (D := D) y x
  feq64_symm : ∀ x y : D, FloatOps.feq64 (F := F) x y = FloatOps.feq64 (F := F) y x
  feq32_sound : ∀ x y : F, FloatOps.feq32 (D := D) x y = true → x = y
  feq64_sound : ∀ x y : D, FloatOps.feq64 (F := F) x y = true → x = y

/-- `*gnmi.TypedValue` -/
inductive TV (F D : Type) where
  | nilMsg                                   -- (*TypedValue)(nil)
  | unset                                    -- &TypedValue{} : oneof not set
  | stringVal (s : String)
  | intVal (i : Int)                         -- int64
  | uintVal (n : Nat)                        -- uint64
  | boolVal (b : Bool)
  | bytesVal (b : Bytes)
  | floatVal (f : F)                         -- deprecated float32 arm
  | doubleVal (d : D)
  | decimalVal (digits : Int) (precision : Nat)   -- deprecated Decimal64{digits int64, precision uint32}
  | decimalNil                               -- TypedValue_DecimalVal{DecimalVal: nil}
  | leaflistVal (l : List (TV F D))          -- ScalarArray{Element}
  | leaflistNil                              -- TypedValue_LeaflistVal{LeaflistVal: nil}
  | anyVal (b : Bytes)
  | jsonVal (b : Bytes)
  | jsonIetfVal (b : Bytes)
  | asciiVal (s : String)
  | protoBytes (b : Bytes)
deriving Repr

/-- Go integer kinds accepted by `FromScalar` -/
inductive IntKind | int | i8 | i16 | i32 | i64
deriving DecidableEq, Repr
inductive UIntKind | uint | u8 | u16 | u32 | u64
deriving DecidableEq, Repr

/-- a Go `interface{}` value as `FromScalar` receives / `ToScalar` returns it -/
inductive Scalar (F D : Type) where
  | str (s : String)                 -- valid UTF-8
  | badStr                           -- a string with non-UTF-8 bytes (only its invalidity is read)
  | int (k : IntKind) (v : Int)
  | uint (k : UIntKind) (v : Nat)
  | f32 (f : F)
  | f64 (d : D)
  | bool (b : Bool)
  | strs (l : List String)           -- []string
  | bytes (b : Bytes)                -- []byte
  | list (l : List (Scalar F D))     -- []interface{}
  | other                            -- any other dynamic type (struct, nil, map, …)
  | json (ietf : Bool) (b : Bytes)   -- ToScalar on the JSON arms: outcome decided by encoding/json (not modelled)
deriving Repr

variable {F D : Type} [FloatOps F D]

/-! ## FromScalar (value.go:33–89) -/

mutual
def fromScalar : Scalar F D → Outcome (TV F D)
  | .str s => .ok (.stringVal s)               -- utf8.ValidString(v)
  | .badStr => .err
  | .int _ v => .ok (.intVal v)                -- int64(v)
  | .uint _ v => .ok (.uintVal v)              -- uint64(v)
  | .f32 f => .ok (.doubleVal (FloatOps.widen f))
  | .f64 d => .ok (.doubleVal d)
  | .bool b => .ok (.boolVal b)
  | .strs l => .ok (.leaflistVal (l.map .stringVal))
  | .bytes b => .ok (.bytesVal b)
  | .list l =>
      match fromScalarList l with
      | .ok es => .ok (.leaflistVal es)
      | .err => .err
      | .panic => .panic
  | .other => .err
  | .json _ _ => .err                          -- not a Go input type; treated as `default`
def fromScalarList : List (Scalar F D) → Outcome (List (TV F D))
  | [] => .ok []
  | s :: r =>
      match fromScalar s with
      | .ok e =>
          match fromScalarList r with
          | .ok es => .ok (e :: es)
          | .err => .err
          | .panic => .panic
      | .err => .err
      | .panic => .panic
end

/-! ## ToScalar (value.go:100–155) -/

mutual
def toScalar : TV F D → Outcome (Scalar F D)
  | .decimalVal d p => .ok (.f32 (FloatOps.decToF (D := D) d p))
  | .decimalNil => .panic                      -- decimalToFloat(nil): `d.Digits`
  | .stringVal s => .ok (.str s)
  | .intVal i => .ok (.int .i64 i)
  | .uintVal n => .ok (.uint .u64 n)
  | .boolVal b => .ok (.bool b)
  | .floatVal f => .ok (.f32 f)
  | .doubleVal d => .ok (.f64 d)
  | .leaflistVal l =>
      match toScalarList l with
      | .ok ss => .ok (.list ss)
      | .err => .err
      | .panic => .panic
  | .leaflistNil => .ok (.list [])             -- GetLeaflistVal().GetElement() is nil-safe
  | .bytesVal b => .ok (.bytes b)
  | .jsonVal b => .ok (.json false b)
  | .jsonIetfVal b => .ok (.json true b)
  | .nilMsg => .panic                         -- default arm formats `tv.Value` of the nil message
  | .unset => .err
  | .anyVal _ => .err
  | .asciiVal _ => .err
  | .protoBytes _ => .err
def toScalarList : List (TV F D) → Outcome (List (Scalar F D))
  | [] => .ok []
  | e :: r =>
      match toScalar e with
      | .ok v =>
          match toScalarList r with
          | .ok vs => .ok (v :: vs)
          | .err => .err
          | .panic => .panic
      | .err => .err
      | .panic => .panic
end

/-! ## Equal (value.go:166–238) -/

mutual
/-- `value.Equal` on the current tree -/
def equal : TV F D → TV F D → Outcome Bool
  | .stringVal x, b => match b with
      | .stringVal y => .ok (x == y)
      | _ => .ok false
  | .intVal x, b => match b with
      | .intVal y => .ok (x == y)
      | _ => .ok false
  | .uintVal x, b => match b with
      | .uintVal y => .ok (x == y)
      | _ => .ok false
  | .boolVal x, b => match b with
      | .boolVal y => .ok (x == y)
      | _ => .ok false
  | .bytesVal x, b => match b with
      | .bytesVal y => .ok (x == y)
      | _ => .ok false
  | .doubleVal x, b => match b with         -- `b.GetValue()` since the D7 fix
      | .doubleVal y => .ok (FloatOps.feq64 (F := F) x y)
      | _ => .ok false
  | .floatVal x, b => match b with
      | .floatVal y => .ok (FloatOps.feq32 (D := D) x y)
      | _ => .ok false
  | .decimalVal d p, b => match b with
      | .decimalVal d' p' => .ok (d == d' && p == p')
      | .decimalNil => .panic               -- `bv.DecimalVal.Digits`
      | _ => .ok false
  | .decimalNil, b => match b with
      | .decimalVal _ _ => .panic           -- `av.DecimalVal.Digits`
      | .decimalNil => .panic
      | _ => .ok false
  | .leaflistVal ae, b => match b with
      | .leaflistVal be => if ae.length != be.length then .ok false else equalList ae be
      | .leaflistNil => .panic              -- `bv.LeaflistVal.Element`
      | _ => .ok false
  | .leaflistNil, b => match b with
      | .leaflistVal _ => .panic            -- `av.LeaflistVal.Element`
      | .leaflistNil => .panic
      | _ => .ok false
  | .nilMsg, _ => .ok false
  | .unset, _ => .ok false
  | .anyVal _, _ => .ok false
  | .jsonVal _, _ => .ok false
  | .jsonIetfVal _, _ => .ok false
  | .asciiVal _, _ => .ok false
  | .protoBytes _, _ => .ok false
/-- the `for i := range ae` loop (lengths already known equal) -/
def equalList : List (TV F D) → List (TV F D) → Outcome Bool
  | a :: as, b :: bs =>
      match equal a b with
      | .ok true => equalList as bs
      | .ok false => .ok false
      | .err => .err
      | .panic => .panic
  | _, _ => .ok true
end

/-- `value.Equal` as it was before the repository's D7 fix: the `DoubleVal` arm read the field
`b.Value` directly, a nil dereference when `b` is the nil message.  Only the top-level arm
differs (kept for the regression witness `equalPreD7_panics`). -/
def equalPreD7 : TV F D → TV F D → Outcome Bool
  | .doubleVal _, .nilMsg => .panic
  | a, b => equal a b

/-! ## The function `Equal` is meant to compute (spec) -/

mutual
/-- same primitive arm and same payload; lists element-wise; `false` for every other arm -/
def specEqual : TV F D → TV F D → Bool
  | .stringVal x, .stringVal y => x == y
  | .intVal x, .intVal y => x == y
  | .uintVal x, .uintVal y => x == y
  | .boolVal x, .boolVal y => x == y
  | .bytesVal x, .bytesVal y => x == y
  | .doubleVal x, .doubleVal y => FloatOps.feq64 (F := F) x y
  | .floatVal x, .floatVal y => FloatOps.feq32 (D := D) x y
  | .decimalVal d p, .decimalVal d' p' => d == d' && p == p'
  | .leaflistVal ae, .leaflistVal be => specEqualList ae be
  | _, _ => false
def specEqualList : List (TV F D) → List (TV F D) → Bool
  | [], [] => true
  | a :: as, b :: bs => specEqual a b && specEqualList as bs
  | _, _ => false
end

/-! ## Widening (what a round trip is allowed to change) -/

mutual
/-- `int*→int64`, `uint*→uint64`, `float32→float64`, `[]string→[]interface{}` -/
def widenScalar : Scalar F D → Scalar F D
  | .int _ v => .int .i64 v
  | .uint _ v => .uint .u64 v
  | .f32 f => .f64 (FloatOps.widen f)
  | .strs l => .list (l.map .str)
  | .list l => .list (widenList l)
  | s => s
def widenList : List (Scalar F D) → List (Scalar F D)
  | [] => []
  | s :: r => widenScalar s :: widenList r
end

mutual
/-- a Go value `FromScalar` supports: no invalid string / foreign type anywhere inside -/
def supported : Scalar F D → Bool
  | .badStr => false
  | .other => false
  | .json _ _ => false
  | .list l => supportedList l
  | _ => true
def supportedList : List (Scalar F D) → Bool
  | [] => true
  | s :: r => supported s && supportedList r
end

mutual
/-- no nil payload message anywhere inside (true of every decoded message) -/
def payloadOK : TV F D → Bool
  | .decimalNil => false
  | .leaflistNil => false
  | .leaflistVal l => payloadOKList l
  | _ => true
def payloadOKList : List (TV F D) → Bool
  | [] => true
  | a :: r => payloadOK a && payloadOKList r
end

end Gnmi.PV
