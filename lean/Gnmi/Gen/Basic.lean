/-
Vocabulary of the *generated* decision-logic definitions (`lean/Gnmi/Gen/<Name>.lean`, written by
`go/vtrans` from /repo's current source on every check run; see docs/GEN_TIE.md).

Hand-written.  Generated files import only this module.  Core Lean only.

A translated Go function (or a structurally identified region of one) becomes

    def gen_<name> (<atoms…>) : Gen.Outcome

where the *atoms* are the maximal sub-expressions the translator does not interpret (calls,
selectors, `x == nil` tests …), each one a parameter (`Int`, `Bool` or `String`, by the way it is
used), and the `Outcome` lists, in program order, the *effects* the region performs on that path
(the normalised source text of the statement, plus the integer values the translator could
interpret) and how it ends (`ret`).
-/
namespace Gnmi
namespace Gen

/-- one effect: the normalised source text of an effectful statement (call, assignment to
non-local state, `go`/`defer` statement, loop) and the integer values written / passed where the
translator interprets them (right-hand side of an arithmetic assignment, `x++`, configured
argument positions of a call) -/
structure Eff where
  label : String
  args : List Int := []
deriving DecidableEq, Repr

/-- how the region ends -/
inductive Val where
  | fall                 -- control falls off the end of the region (no `return` executed)
  | nil                  -- `return nil` / `return nil, nil` / a bare `return`
  | error                -- `return fmt.Errorf(…)` / `errors.New(…)` (also as last of several results)
  | label (s : String)   -- any other result list: its normalised source text
  | bool (b : Bool)      -- a boolean expression the translator interprets
  | int (i : Int)        -- an integer expression the translator interprets
deriving DecidableEq, Repr

structure Outcome where
  effects : List Eff
  ret : Val
deriving DecidableEq, Repr

/-- end of a path -/
@[reducible] def ret (v : Val) : Outcome := ⟨[], v⟩

/-- an effect followed by the rest of the path -/
@[reducible] def eff (label : String) (args : List Int) (k : Outcome) : Outcome :=
  ⟨⟨label, args⟩ :: k.effects, k.ret⟩

@[simp] theorem ret_effects (v : Val) : (ret v).effects = [] := rfl
@[simp] theorem ret_ret (v : Val) : (ret v).ret = v := rfl
@[simp] theorem eff_effects (l : String) (a : List Int) (k : Outcome) :
    (eff l a k).effects = ⟨l, a⟩ :: k.effects := rfl
@[simp] theorem eff_ret (l : String) (a : List Int) (k : Outcome) : (eff l a k).ret = k.ret := rfl

/-- the labels of the effects, in order -/
def Outcome.labels (o : Outcome) : List String := o.effects.map (·.label)

@[simp] theorem labels_ret (v : Val) : (ret v).labels = [] := rfl
@[simp] theorem labels_eff (l : String) (a : List Int) (k : Outcome) :
    (eff l a k).labels = l :: k.labels := rfl

/-! ## Go integer arithmetic -/

def minI64 : Int := -9223372036854775808
def maxI64 : Int := 9223372036854775807

/-- a value of a Go `int64` / `int` (64-bit platforms) / `time.Duration` variable -/
def inI64 (x : Int) : Prop := -9223372036854775808 ≤ x ∧ x ≤ 9223372036854775807

instance (x : Int) : Decidable (inI64 x) := by unfold inI64; exact inferInstance

/-- two's-complement wrap-around of `+ - *` on `int64` (Go spec, "Integer overflow") -/
def wrap64 (x : Int) : Int :=
  (x + 9223372036854775808) % 18446744073709551616 - 9223372036854775808

theorem wrap64_id {x : Int} (h : inI64 x) : wrap64 x = x := by
  unfold inI64 at h; unfold wrap64; omega

theorem wrap64_inI64 (x : Int) : inI64 (wrap64 x) := by
  unfold inI64 wrap64; omega

/-- `time.Time.Sub` on two instants given as Unix nanoseconds: the difference, saturated to the
range of `time.Duration` (`time.Time.Sub`: "If the result exceeds the maximum (or minimum) value
that can be stored in a Duration, the maximum (or minimum) duration will be returned") -/
def timeSub (a b : Int) : Int :=
  if a - b < -9223372036854775808 then -9223372036854775808
  else if a - b > 9223372036854775807 then 9223372036854775807
  else a - b

theorem timeSub_eq {a b : Int} (h : inI64 (a - b)) : timeSub a b = a - b := by
  unfold inI64 at h; unfold timeSub; omega

/-! Comparisons of a saturated difference with a bound that is not itself at the end of the range
have the truth value they have on `Int` (the saturation lemma of DESIGN §4). -/

theorem timeSub_gt {a b thr : Int} (h0 : -9223372036854775808 ≤ thr) (h : thr < 9223372036854775807) : thr < timeSub a b ↔ thr < a - b := by
  unfold timeSub; split <;> (try split) <;> omega

theorem timeSub_le {a b thr : Int} (h0 : -9223372036854775808 ≤ thr) (h : thr < 9223372036854775807) : timeSub a b ≤ thr ↔ a - b ≤ thr := by
  unfold timeSub; split <;> (try split) <;> omega

theorem timeSub_lt {a b thr : Int} (h : -9223372036854775808 < thr) (h1 : thr ≤ 9223372036854775807) : timeSub a b < thr ↔ a - b < thr := by
  unfold timeSub; split <;> (try split) <;> omega

theorem timeSub_ge {a b thr : Int} (h : -9223372036854775808 < thr) (h1 : thr ≤ 9223372036854775807) : thr ≤ timeSub a b ↔ thr ≤ a - b := by
  unfold timeSub; split <;> (try split) <;> omega

/-- Go's `/` on integers truncates towards zero; the divisor is non-zero on every path the
obligations look at (a zero divisor panics in Go: the obligation states the guard) -/
def quot (a b : Int) : Int := Int.tdiv a b

end Gen
end Gnmi
