import Gnmi.Model.Coalesce
/-!
# Abstract coalescing queue (the specification C11 is stated against)

A list of `(item, duplicates)` in order of first pending insertion, plus the closed flag.
No wake-up token, no map: this is what a user of the queue may rely on.
`Next` may answer with any element of `nextAllowed` (a singleton except when both the
caller's context is cancelled and the queue is closed and drained, where Go's `select` picks
either error).
-/
namespace Gnmi
namespace Coalesce

variable {Item : Type} [DecidableEq Item]

structure CoQ (Item : Type) where
  items : List (Item × Nat) := []
  closed : Bool := false
deriving DecidableEq, Repr

/-- add one duplicate to the pending entry of `i` -/
def bump (i : Item) : List (Item × Nat) → List (Item × Nat)
  | [] => []
  | (k, c) :: l => (if k = i then (k, c + 1) else (k, c)) :: bump i l

/-- refused when closed; one more duplicate when `i` is pending; else appended with 0 -/
def CoQ.insert (s : CoQ Item) (i : Item) : CoQ Item × InsRes :=
  if s.closed then (s, .refused)
  else if i ∈ s.items.map (·.1) then ({ s with items := bump i s.items }, .ok false)
  else ({ s with items := s.items ++ [(i, 0)] }, .ok true)

/-- the answers `Next` may give -/
def CoQ.nextAllowed (s : CoQ Item) (cancelled : Bool) : List (NextRes Item) :=
  match s.items with
  | (i, d) :: _ => [.item i d]
  | [] =>
    match cancelled, s.closed with
    | true, true => [.errCtx, .errClosed]
    | true, false => [.errCtx]
    | false, true => [.errClosed]
    | false, false => [.blocks]

/-- the state after `Next` answered `r`: a delivered item leaves, nothing else changes -/
def CoQ.afterNext (s : CoQ Item) : NextRes Item → CoQ Item
  | .item _ _ => { s with items := s.items.tail }
  | _ => s

def CoQ.close (s : CoQ Item) : CoQ Item := { s with closed := true }

/-- one API call on the specification: the allowed (state, observation) pairs -/
def specStep (s : CoQ Item) : Op Item → List (CoQ Item × Obs Item)
  | .insert i => let r := s.insert i; [(r.1, .ins r.2)]
  | .next c _ => (s.nextAllowed c).map (fun r => (s.afterNext r, .nxt r))
  | .len => [(s, .num s.items.length)]
  | .close => [(s.close, .unit)]
  | .isClosed => [(s, .bool s.closed)]

/-- the abstraction function: pending items with their counters -/
def abs (q : Q Item) : CoQ Item :=
  { items := q.queue.map (fun i => (i, cnt q i)), closed := q.closed }

/-- the specification accepts a history with these observations and ends in this state -/
inductive SpecRun : CoQ Item → List (Op Item) → List (Obs Item) → CoQ Item → Prop where
  | nil (s : CoQ Item) : SpecRun s [] [] s
  | cons {s s' s'' : CoQ Item} {op : Op Item} {o : Obs Item} {ops : List (Op Item)}
      {os : List (Obs Item)} :
      (s', o) ∈ specStep s op → SpecRun s' ops os s'' → SpecRun s (op :: ops) (o :: os) s''

end Coalesce
end Gnmi
