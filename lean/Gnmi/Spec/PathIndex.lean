import Gnmi.Model.PathConv
import Gnmi.Model.QueryString
/-!
# What property C19 demands (abstract spec; short enough to read in a minute)

* `specIndex`: the index form of a path — `[target]? ++ [origin]? ++` for every element its name
  followed by its key values *ordered by key name* (or the deprecated `element` list when there is
  no `elem`).  Written with a sort of the (key, value) pairs, independently of the code's
  "sort the names, then look each one up".
* `specComplete`: reject iff both origins are set, or the path has an origin while the prefix has
  elements; otherwise `[the origin]? ++ index prefix ++ index path`.
* `Plain`: the query elements the property speaks about, and `specQueryPath`, the path such a
  query must arrive as.
-/
namespace Gnmi.PV

/-- values of a key map ordered by key name -/
def valuesByKey (m : List (String × String)) : List String :=
  (m.mergeSort (fun a b => decide (a.1 ≤ b.1))).map (·.2)

def specIndexP (p : GPath) (pfx : Bool) : List String :=
  (if pfx = true ∧ p.target ≠ "" then [p.target] else []) ++
  (if pfx = true ∧ p.origin ≠ "" then [p.origin] else []) ++
  (if p.elem = [] then p.element else p.elem.flatMap (fun e => e.name :: valuesByKey e.key))

def specIndex : Option GPath → Bool → List String
  | none, _ => []
  | some p, pfx => specIndexP p pfx

/-- `none` = rejected -/
def specComplete (pfx path : Option GPath) : Option (List String) :=
  let oPre := getOrigin pfx
  let oPath := getOrigin path
  if (oPre ≠ "" ∧ oPath ≠ "") ∨ (oPath ≠ "" ∧ specIndex pfx false ≠ []) then none
  else
    some ((if oPre ≠ "" then [oPre] else if oPath ≠ "" then [oPath] else []) ++
          specIndex pfx false ++ specIndex path false)

/-- characters a *plain* query element may not contain (`/` is allowed) -/
def plainChar (c : Char) : Bool := c != '[' && c != ']' && c != '\\' && c != ' '

/-- a plain query element: non-empty, no `[`, `]`, `\`, space -/
def plainStr (e : Str) : Bool := e != [] && e.all plainChar

def plain (e : String) : Bool := plainStr e.toList

/-- the path a query of plain elements must arrive as (both encodings) -/
def specQueryPath (q : List String) : GPath :=
  { elem := q.map (fun e => { name := e, key := [] }), element := q }

end Gnmi.PV
