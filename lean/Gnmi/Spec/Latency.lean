import Gnmi.Model.Latency
/-!
# What "the latencies observed in a window" means (C15, latency clause)

A specification that does not look at the code's bookkeeping (`total`, `count`, `max`, `min`,
`covered`, slot dropping): it is a function of the *history of calls* only.

* a **sample** is the latency handed to one `Compute` call;
* an update call (`UpdateReset`/`UpdateLast`) at clock reading `u` **closes** the batch of samples
  computed since the previous update (if there is at least one) with closing time `u`;
* at an update with clock reading `ts`, the window of size `W` **covers** the closed batches whose
  closing time `u` satisfies `ts − W < u` (the code works at batch granularity: a statistic
  exported at `ts` is about the batches closed in `(ts − W, ts]`).

`Bounded sf S st v` is the property's "bounded by the smallest and largest latency observed in that
window, up to the averaging precision `sf`" for a written value `v` of statistic `st`, `S` being
the covered samples.
-/
namespace Gnmi.Latency

/-- a closed batch: its samples (in arrival order) and the clock reading of the closing update -/
structure HSlot where
  samples : List Int
  stop : Int
deriving DecidableEq, Repr

/-- the history, digested: samples since the last update, and the closed batches (oldest first) -/
structure Hist where
  cur : List Int := []
  closed : List HSlot := []
deriving DecidableEq, Repr

def Hist.step (h : Hist) : Op → Hist
  | .compute _ lat => { h with cur := h.cur ++ [lat] }
  | .update now _ => if h.cur = [] then h else { cur := [], closed := h.closed ++ [⟨h.cur, now⟩] }

def hist (ops : List Op) : Hist := ops.foldl Hist.step {}

/-- the samples a window of size `size` covers at an update with clock reading `ts` -/
def Hist.window (h : Hist) (size ts : Int) : List Int :=
  (h.closed.filter (fun s => decide (ts - size < s.stop))).flatMap (·.samples)

/-- smallest / largest element (`0` for the empty list; only used for non-empty lists) -/
def lmin : List Int → Int
  | [] => 0
  | x :: r => r.foldl (fun m y => if y < m then y else m) x

def lmax : List Int → Int
  | [] => 0
  | x :: r => r.foldl (fun m y => if y > m then y else m) x

/-- `x` rounded towards zero to a multiple of `sf` (what survives `x / sf * sf` in Go) -/
def trunc (sf x : Int) : Int := Int.tdiv x sf * sf

/-- The property for one written value.  `S` = the samples the window covers, `sf` = the
averaging precision.
* nothing is written for a window without samples, and `0` is never written;
* `max`: the value is the largest covered sample (exactly);
* `min`: the value is one of the covered samples (hence between the smallest and the largest);
  it is the smallest one when no covered sample is exactly `0` (a `0` sample resets the code's
  running minimum, so in general it is only *a* sample);
* `avg`: the value lies between the smallest and the largest covered sample, each rounded towards
  zero to the precision. -/
def Bounded (sf : Int) (S : List Int) : Stat → Int → Prop
  | .max, v => S ≠ [] ∧ v ≠ 0 ∧ v = lmax S
  | .min, v => S ≠ [] ∧ v ≠ 0 ∧ v ∈ S ∧ ((∀ x ∈ S, x ≠ 0) → v = lmin S)
  | .avg, v => S ≠ [] ∧ v ≠ 0 ∧ trunc sf (lmin S) ≤ v ∧ v ≤ trunc sf (lmax S)

instance (sf : Int) (S : List Int) (st : Stat) (v : Int) : Decidable (Bounded sf S st v) := by
  cases st <;> (unfold Bounded; infer_instance)

/-- clock readings of the update calls, in order -/
def updTimes : List Op → List Int
  | [] => []
  | .compute _ _ :: r => updTimes r
  | .update now _ :: r => now :: updTimes r

/-- Monotonic clock, as far as the windows depend on it: the readings taken by the *update* calls
never decrease. -/
def UpdMono (ops : List Op) : Prop := (updTimes ops).Pairwise (· ≤ ·)

/-- Monotonic clock: the readings of all calls never decrease. -/
def ClockMono (ops : List Op) : Prop := (ops.map Op.now).Pairwise (· ≤ ·)

instance (ops : List Op) : Decidable (UpdMono ops) := by unfold UpdMono; infer_instance
instance (ops : List Op) : Decidable (ClockMono ops) := by unfold ClockMono; infer_instance

/-- the call is `UpdateLast` -/
def Op.isUpdateLast : Op → Bool
  | .update _ true => true
  | _ => false

end Gnmi.Latency
