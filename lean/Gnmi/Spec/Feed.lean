import Gnmi.Model.Cache
/-!
# The subscriber-side view of one target's change feed (spec for C03)

A view is what a consumer of the change feed keeps: a map from index path (target dropped:
every event of a target's feed carries that target) to the last notification received for it.
`applyEvent` is the replay rule of the property: an update sets a leaf, an atomic update
replaces its subtree as one unit, a delete removes what it matches.
-/
namespace Gnmi
namespace Feed
open Cache

abbrev View := PMap Noti

/-- the index an update event is keyed by -/
def evKey (n : Noti) : Path :=
  match n.upd with
  | u :: _ => updKey n u
  | [] => joinKey n []

def applyEvent (v : View) : Event → View
  | .upd n =>
    if n.atomic then (evKey n, n) :: v.filter (fun kv => !(evKey n).isPrefixOf kv.1)
    else (evKey n, n) :: v.filter (fun kv => kv.1 != evKey n)
  | .del _ o p _ => v.filter (fun kv => !qmatches ((if o = "" then [] else [o]) ++ p) kv.1)

def applyEvents (v : View) (evs : List Event) : View := evs.foldl applyEvent v

/-- the value of a stored (non-atomic) notification -/
def headVal (n : Noti) : Val :=
  match n.upd with
  | u :: _ => u.val
  | [] => .absent

/-- with event-driven emulation on, the view may lag behind the cache by updates that left the
value of a plain leaf unchanged -/
def Supp (cfg : Cfg) (v n : Noti) : Prop :=
  cfg.eventDriven = true ∧ v.atomic = false ∧ n.atomic = false ∧ valueEqual (headVal v) (headVal n) = true

/-- what the view holds for a leaf vs what the cache holds -/
def Sim (cfg : Cfg) : Option Noti → Option Noti → Prop
  | none, none => True
  | some v, some n => v = n ∨ Supp cfg v n
  | _, _ => False

/-- **Replay equivalence**: the view has unique keys and agrees with the cache leaf by leaf (same
leaves; same notification, or — event-driven — a notification with an equal value). -/
structure R (cfg : Cfg) (view : View) (tree : PMap Noti) : Prop where
  unique : UniqueKeys view
  agree : ∀ k, Sim cfg (lookup view k) (lookup tree k)

/-! ## The whole cache: one view per target, events routed by the target they name -/

def evTarget : Event → String
  | .upd n => n.target
  | .del tg _ _ _ => tg

abbrev Views := String → View

def applyS (vs : Views) (e : Event) : Views :=
  fun name => if name = evTarget e then applyEvent (vs name) e else vs name

def applySs (vs : Views) (evs : List Event) : Views := evs.foldl applyS vs

end Feed
end Gnmi
