import Gnmi.Model.FakeQueue
/-!
# Vocabulary of the C20 statements

The predicates the theorems of `Gnmi/Props/C20.lean` are stated with: the queue invariant and the
specification of `addValue` (sorted insertion), the configurations accepted by the code's own
validity checks (`ValidPV`), what "within its configured range or option list" means
(`InRange`), what stays fixed of a value's configuration while it is updated (`Kind.Same`), and
the per-value successor relation (`Succ`).
-/
namespace Gnmi
namespace FQ

variable {D : Type}

/-! ## Buckets, well-formed queues, sorted insertion -/

/-- the timestamp of a bucket (total version of `bucketKey`) -/
def keyOf (b : List (Val D)) : Int :=
  match b with
  | [] => 0
  | v :: _ => v.t

/-- a bucket is non-empty and every value in it carries the bucket's timestamp -/
def WFB (b : List (Val D)) : Prop :=
  b ≠ [] ∧ ∀ v ∈ b, v.pv.ts.isSome = true ∧ v.t = keyOf b

/-- the queue invariant of `UpdateQueue.q`: non-empty uniform buckets, strictly ascending -/
def WFQ (q : List (List (Val D))) : Prop :=
  (∀ b ∈ q, WFB b) ∧ q.Pairwise (fun a b => keyOf a < keyOf b)

/-- insertion into the sorted bucket list (the specification of `addValue`) -/
def ins (v : Val D) (t : Int) : List (List (Val D)) → List (List (Val D))
  | [] => [[v]]
  | b :: bs =>
      if t = keyOf b then (b ++ [v]) :: bs
      else if t < keyOf b then [v] :: b :: bs
      else b :: ins v t bs


/-- all queued values, in the order `Next` would pop them if nothing were re-inserted -/
def UQ.vals (u : UQ D) : List (Val D) := u.q.flatten

/-- the `*value` identities queued -/
def UQ.ids (u : UQ D) : List Nat := u.vals.map (·.id)

/-! ## Configurations accepted by the code's own validity checks -/

/-- `updateTimestamp` accepts the timestamp: non-negative, `0 ≤ delta_min ≤ delta_max` -/
def ValidTS (t : TS) : Prop := 0 ≤ t.ts ∧ 0 ≤ t.dmin ∧ t.dmin ≤ t.dmax

/-- the per-kind updater accepts the value: initial value inside `[minimum, maximum]`, ordered
deltas when deltas are set, non-empty option lists, a value kind is set -/
def ValidKind [DOps D] : Kind D → Prop
  | .int v (.range r) => r.min ≤ v ∧ v ≤ r.max ∧ ((r.dmin ≠ 0 ∨ r.dmax ≠ 0) → r.dmin ≤ r.dmax)
  | .int _ (.list opts _) => opts ≠ []
  | .int _ .const => True
  | .uint v (.range r) => r.min ≤ v ∧ v ≤ r.max ∧ ((r.dmin ≠ 0 ∨ r.dmax ≠ 0) → r.dmin ≤ r.dmax)
  | .uint _ (.list opts _) => opts ≠ []
  | .uint _ .const => True
  | .double v (.range r) =>
      DOps.lt r.max r.min = false ∧ DOps.lt v r.min = false ∧ DOps.lt r.max v = false ∧
      ((DOps.ne0 r.dmin || DOps.ne0 r.dmax) = true → DOps.lt r.dmax r.dmin = false)
  | .double _ (.list opts _) => opts ≠ []
  | .double _ .const => True
  | .str _ (.list opts _) => opts ≠ []
  | .str _ .const => True
  | .strList _ (.list opts _) => opts ≠ []
  | .strList _ .const => True
  | .bool _ (.list opts _) => opts ≠ []
  | .bool _ .const => True
  | .sync _ => True
  | .delete => True
  | .unset => False

/-- A value `nextValue` never rejects: one that is not advanced at all (`repeat = 1`), or one
with an acceptable timestamp (a nil `Timestamp` is replaced by the zero one in `addValue`) and
an acceptable kind. -/
def ValidPV [DOps D] (pv : PVal D) : Prop :=
  pv.repeat_ = 1 ∨ ((∀ t, pv.ts = some t → ValidTS t) ∧ ValidKind pv.kind)

/-- The invariant of a generator built from an accepted configuration: the queue is well formed,
every `*value` is queued at most once (identities below the allocation counter), and every
queued value is one `nextValue` accepts. -/
structure Inv [DOps D] (u : UQ D) : Prop where
  wf : WFQ u.q
  nodup : u.ids.Nodup
  fresh : ∀ v ∈ u.vals, v.id < u.nid
  valid : ∀ v ∈ u.vals, ValidPV v.pv

/-- the `*value`s `New` allocates for a configuration, numbered from `i` (nil `Timestamp`s already
replaced by the zero `Timestamp`, as `addValue` does) -/
def cfgVals : Nat → List (PVal D × Option Draws) → List (Val D)
  | _, [] => []
  | i, x :: xs => ({ pv := x.1, own := x.2, id := i } : Val D).withTs :: cfgVals (i + 1) xs

/-! ## "Within its configured range or option list" -/

/-- the value lies in `[minimum, maximum]` / is one of the options / (string lists) is the
rotated option list or a proper prefix of the shuffled option list -/
def InRange [DOps D] : Kind D → Prop
  | .int v (.range r) => r.min ≤ v ∧ v ≤ r.max
  | .int v (.list opts _) => v ∈ opts
  | .uint v (.range r) => r.min ≤ v ∧ v ≤ r.max
  | .uint v (.list opts _) => v ∈ opts
  | .double v (.range r) => DOps.lt v r.min = false ∧ DOps.lt r.max v = false
  | .double v (.list opts _) => v ∈ opts
  | .str v (.list opts _) => v ∈ opts
  | .strList v (.list opts random) =>
      if random then v <+: opts ∧ v.length < opts.length else v = opts
  | .bool v (.list opts _) => v ∈ opts
  | _ => True

/-! ## What an update leaves unchanged -/

/-- `b` is a rotation of `a` -/
def Rot {α : Type} (a b : List α) : Prop := ∃ x y, a = x ++ y ∧ b = y ++ x

/-- how an option list may change under updates: rotated when cycled in order, permuted
(`Shuffle`, string lists) or left alone when `random` -/
def OptsRel {α : Type} (random : Bool) (o o' : List α) : Prop :=
  if random then o'.Perm o else Rot o o'

def IntDist.Same : IntDist → IntDist → Prop
  | .const, .const => True
  | .range r, .range r' => r' = r
  | .list o b, .list o' b' => OptsRel b o o' ∧ b' = b
  | _, _ => False

def UintDist.Same : UintDist → UintDist → Prop
  | .const, .const => True
  | .range r, .range r' => r' = r
  | .list o b, .list o' b' => OptsRel b o o' ∧ b' = b
  | _, _ => False

def DblDist.Same : DblDist D → DblDist D → Prop
  | .const, .const => True
  | .range r, .range r' => r'.min = r.min ∧ r'.max = r.max ∧ r'.dmin = r.dmin ∧ r'.dmax = r.dmax
  | .list o b, .list o' b' => OptsRel b o o' ∧ b' = b
  | _, _ => False

def ListDist.Same {α : Type} : ListDist α → ListDist α → Prop
  | .const, .const => True
  | .list o b, .list o' b' => OptsRel b o o' ∧ b' = b
  | _, _ => False

/-- same kind, same range, same options up to rotation (cycled lists) or permutation (`random` lists), same `random`
flag; a constant value (no distribution) keeps its value -/
def Kind.Same : Kind D → Kind D → Prop
  | .int v d, .int v' d' => d.Same d' ∧ (d = .const → v' = v)
  | .double v d, .double v' d' => d.Same d' ∧ (d = .const → v' = v)
  | .str v d, .str v' d' => d.Same d' ∧ (d = .const → v' = v)
  | .strList v d, .strList v' d' => d.Same d' ∧ (d = .const → v' = v)
  | .bool v d, .bool v' d' => d.Same d' ∧ (d = .const → v' = v)
  | .uint v d, .uint v' d' => d.Same d' ∧ (d = .const → v' = v)
  | .sync n, .sync n' => n' = n
  | .delete, .delete => True
  | .unset, .unset => True
  | _, _ => False

/-! ## The law of one update -/

/-- What one successful `nextValue` does to a value's proto: the repeat count goes down by one
(unless unbounded), the timestamp advances by a step within `[delta_min, delta_max]`, the new
value is within range, the configuration is otherwise unchanged and stays acceptable. -/
structure StepFacts [DOps D] (a b : PVal D) : Prop where
  rep_ne : a.repeat_ ≠ 1
  rep : b.repeat_ = if a.repeat_ > 1 then a.repeat_ - 1 else a.repeat_
  path : b.path = a.path
  ts : ∃ t x, a.ts = some t ∧ ValidTS t ∧ t.dmin ≤ x ∧ x ≤ t.dmax ∧ b.ts = some { t with ts := t.ts + x }
  inRange : InRange b.kind
  same : Kind.Same a.kind b.kind
  valid : ValidKind a.kind → ValidKind b.kind

/-! ## The per-value successor relation -/

/-- `b` is what `nextValue` makes of `a` (same `*value`, for some state of its PRNG) -/
def Succ [DOps D] (a b : Val D) : Prop :=
  b.id = a.id ∧ ∃ ds ds', nextValue a.pv ds = .ok b.pv ds'

/-- `l` continues `a` as a chain of `R`-steps -/
def ChainFrom {α : Type} (R : α → α → Prop) : α → List α → Prop
  | _, [] => True
  | a, b :: l => R a b ∧ ChainFrom R b l

end FQ
end Gnmi
