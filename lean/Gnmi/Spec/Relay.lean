import Gnmi.Model.Pipeline
/-!
# What property C01 demands (abstract spec; short enough to read in a minute)

A target's **view** is the finite map *key ↦ (timestamp, value)* its stream describes: an update
sets its key, a delete removes every key its (wildcard) path selects.  The key of a leaf is
`origin-or-"openconfig" :: prefix elements ++ path elements` — what it is known under behind the
collector.  `expected T v qs` is what a client of target `T` asking for `qs` must hold at
quiescence: one leaf `T :: key ↦ ToScalar value` per entry of the final view the queries select.

`wellFormed` is the (decidable) hypothesis of `C01.pipeline_faithful` on one target's stream.
-/
namespace Gnmi
namespace Relay
open Cache Pipeline

abbrev View := List (Path × (Int × Val))

/-- origin the collector files a notification under -/
def originOf (prefixNil : Bool) (n : Noti) : String :=
  if prefixNil then defaultOrigin else if n.origin = "" then defaultOrigin else n.origin

/-- the key of path `p` of notification `n` -/
def keyOf (prefixNil : Bool) (n : Noti) (p : Path) : Path :=
  originOf prefixNil n :: ((if prefixNil then [] else n.pfx) ++ p)

def View.set (v : View) (k : Path) (ts : Int) (val : Val) : View :=
  (k, (ts, val)) :: v.filter (fun kv => kv.1 != k)

def View.remove (v : View) (q : Path) : View := v.filter (fun kv => !qmatches q kv.1)

def View.get (v : View) (k : Path) : Option (Int × Val) := (v.find? (fun kv => kv.1 == k)).map (·.2)

def applyUpdates (prefixNil : Bool) (n : Noti) : List Upd → View → View
  | [], v => v
  | u :: us, v => applyUpdates prefixNil n us (v.set (keyOf prefixNil n u.path) n.ts u.val)

def applyDeletes (prefixNil : Bool) (n : Noti) : List Del → View → View
  | [], v => v
  | d :: ds, v => applyDeletes prefixNil n ds (v.remove (keyOf prefixNil n d.path))

/-- one response of the target -/
def applyItem (v : View) : TItem → View
  | .update pn n => applyDeletes pn n n.del (applyUpdates pn n n.upd v)
  | _ => v

def finalView (items : List TItem) : View := items.foldl applyItem []

/-- the client's leaf for a view entry -/
def leafOf (target : String) (kv : Path × (Int × Val)) : Option (Path × CVal) :=
  match decodeVal kv.2.2 with
  | .val c => some (target :: kv.1, c)
  | _ => none

/-- the leaf (timestamp, decoded value) a client holds for a view entry; `none` when the value is
outside the scalar fragment -/
def clientLeaf (x : Int × Val) : Option CLeaf :=
  match decodeVal x.2 with
  | .val c => some { ts := x.1, val := c }
  | _ => none

def selected (queries : List Path) (k : Path) : Bool := queries.any (fun q => qmatches q k)

/-- **the expected client view**: path and value of every selected leaf of the final view -/
def expected (target : String) (v : View) (queries : List Path) : List (Path × CVal) :=
  (v.filter (fun kv => selected queries kv.1)).filterMap (leafOf target)

/-! ## Well-formed streams -/

/-- conflicts of a new key with the keys present (a leaf above or below it) -/
def keyConflicts (v : View) (k : Path) : Bool :=
  v.any (fun kv => (kv.1.isPrefixOf k || k.isPrefixOf kv.1) && kv.1 != k)

def valueOK (val : Val) : Bool :=
  match decodeVal val with
  | .val _ => true
  | _ => false

/-- one update is admissible in view `v`: a real element below the origin, no wildcard element,
origin not `meta`, scalar value, no prefix conflict, timestamp not older than the stored one
(`strict`: strictly newer, or the same timestamp *and* the same value — the form
`C01.pipeline_faithful_partial` is proved for; an update carrying the same timestamp and another
value replaces the stored one unless the two notifications are `proto.Equal`, which the model
decides on raw renderings) -/
def updOK (strict : Bool) (pn : Bool) (n : Noti) (v : View) (u : Upd) : Bool :=
  let k := keyOf pn n u.path
  u.origin == "" && k.length ≥ 2 && !k.contains glob && originOf pn n != metaRoot &&
  valueOK u.val && !keyConflicts v k &&
  (match v.get k with
   | some (ts, old) => if strict then decide (ts < n.ts) || (decide (ts = n.ts) && old == u.val) else decide (ts ≤ n.ts)
   | none => true)

/-- a delete is admissible in view `v`: origin not `meta`, strictly newer than everything it selects -/
def delOK (pn : Bool) (n : Noti) (v : View) (d : Del) : Bool :=
  originOf pn n != metaRoot &&
  v.all (fun kv => !qmatches (keyOf pn n d.path) kv.1 || decide (kv.2.1 < n.ts))

def updatesOK (strict : Bool) (pn : Bool) (n : Noti) : List Upd → View → Bool
  | [], _ => true
  | u :: us, v => updOK strict pn n v u && updatesOK strict pn n us (v.set (keyOf pn n u.path) n.ts u.val)

def deletesOK (pn : Bool) (n : Noti) : List Del → View → Bool
  | [], _ => true
  | d :: ds, v => delOK pn n v d && deletesOK pn n ds (v.remove (keyOf pn n d.path))

def itemOK (strict : Bool) (v : View) : TItem → Bool
  | .update pn n => !n.atomic && updatesOK strict pn n n.upd v && deletesOK pn n n.del (applyUpdates pn n n.upd v)
  | _ => true

/-- the whole stream is admissible, checked along the views it produces -/
def wellFormedFrom (strict : Bool) : View → List TItem → Bool
  | _, [] => true
  | v, it :: r => itemOK strict v it && wellFormedFrom strict (applyItem v it) r

/-- `strict = false`: per leaf non-decreasing timestamps (the property as stated);
`strict = true`: per leaf increasing timestamps, re-sends of the stored (timestamp, value) allowed -/
def wellFormed (strict : Bool) (items : List TItem) : Bool := wellFormedFrom strict [] items

/-- queries the statement covers: no longer than origin + one element (every key is at least
that long, so the ONCE selection `qmatches` and the STREAM filter `compatible` agree) and
without an empty-string element -/
def queryOK (q : Path) : Bool := q.length ≤ 2

/-! ## Runs with session restarts

When a target's session ends the collector forgets the target's state (`cache.Reset`): **the view
is reset to empty at a restart**, and the target's final state is what its *last* session carried.
`expected` of a run with restarts is `expected T (finalView (lastSession T steps)) qs`. -/

/-- the view target `name` presents after `steps`, starting from `v` -/
def viewR (name : String) : View → List StepR → View
  | v, [] => v
  | v, .step (.recv n _ _ it) :: r => viewR name (if n = name then applyItem v it else v) r
  | v, .step (.subscribe _ _ _) :: r => viewR name v r
  | v, .reset n _ :: r => viewR name (if n = name then [] else v) r
  | v, .connectError _ _ _ :: r => viewR name v r

/-- the sessions of target `name` during a run (`cur`: the responses of the session under way), the
last one — possibly empty, possibly still up — included -/
def sessionsFrom (name : String) : List TItem → List StepR → List (List TItem)
  | cur, [] => [cur]
  | cur, .step (.recv n _ _ it) :: r => sessionsFrom name (if n = name then cur ++ [it] else cur) r
  | cur, .step (.subscribe _ _ _) :: r => sessionsFrom name cur r
  | cur, .reset n _ :: r => if n = name then cur :: sessionsFrom name [] r else sessionsFrom name cur r
  | cur, .connectError _ _ _ :: r => sessionsFrom name cur r

def sessionsOf (name : String) (steps : List StepR) : List (List TItem) := sessionsFrom name [] steps

/-- what target `name` streamed in its last session -/
def lastSessionFrom (name : String) : List TItem → List StepR → List TItem
  | cur, [] => cur
  | cur, .step (.recv n _ _ it) :: r => lastSessionFrom name (if n = name then cur ++ [it] else cur) r
  | cur, .step (.subscribe _ _ _) :: r => lastSessionFrom name cur r
  | cur, .reset n _ :: r => lastSessionFrom name (if n = name then [] else cur) r
  | cur, .connectError _ _ _ :: r => lastSessionFrom name cur r

def lastSession (name : String) (steps : List StepR) : List TItem := lastSessionFrom name [] steps

/-- every response target `name` streamed, all sessions in order -/
def allItemsR (name : String) : List StepR → List TItem
  | [] => []
  | .step (.recv n _ _ it) :: r => if n = name then it :: allItemsR name r else allItemsR name r
  | _ :: r => allItemsR name r

/-- the targets a run mentions (receives from, resets, records an error for) -/
def sendersR : List StepR → List String
  | [] => []
  | .step (.recv n _ _ _) :: r => n :: sendersR r
  | .step (.subscribe _ _ _) :: r => sendersR r
  | .reset n _ :: r => n :: sendersR r
  | .connectError n _ _ :: r => n :: sendersR r

/-- every session of `name` is admissible, checked along the views (`v`: the view at the start) -/
def wellFormedR (strict : Bool) (name : String) : View → List StepR → Bool
  | _, [] => true
  | v, .step (.recv n _ _ it) :: r =>
    if n = name then itemOK strict v it && wellFormedR strict name (applyItem v it) r else wellFormedR strict name v r
  | v, .step (.subscribe _ _ _) :: r => wellFormedR strict name v r
  | v, .reset n _ :: r => wellFormedR strict name (if n = name then [] else v) r
  | v, .connectError _ _ _ :: r => wellFormedR strict name v r


end Relay
end Gnmi
