import Gnmi.Model.TargetCfg
/-!
# Abstract specification for C17 (what the property talks about)

* `effective cfg` — the *effective view* of a configuration: target name ↦ (target
  settings, resolved subscription request).  This is what a consumer of the handler calls
  (the collector: one connection per target, dialled with the target's settings, sending the
  resolved request) is supposed to mirror.
* `replay` — what such a consumer does with `Add` / `Update` / `Delete`.
* `specDiff` — the declarative exact difference of two views (no `requestChanged` set, no
  mutable `newTargets` copy): per name, delete / update-if-different / add.
* `Valid`, `specLoad` — the gate of the property written as a predicate.

Short enough to read in a minute; `Props/C17.lean` proves the model of `target.go` equal to it.
-/
namespace Gnmi
namespace TargetCfg

/-- (target settings, resolved request) -/
abbrev Eff := TgtP × Req

/-- name ↦ effective settings; association list with pairwise distinct keys -/
abbrev View := List (String × Eff)

/-- a target together with the request its `request` field names -/
def resolve (reqs : List (String × Req)) (t : TgtP) : Eff := (t, reqAt reqs t.getRequest)

/-- the effective view of a configuration -/
def effective (c : Cfg) : View :=
  c.target.map (fun kt => (kt.1, resolve c.request kt.2))

/-- no configuration loaded: no target -/
def effectiveO : Option Cfg → View
  | none => []
  | some c => effective c

def Call.name : Call → String
  | .add u => u.name
  | .update u => u.name
  | .delete n => n

/-- what a call leaves under its name -/
def Call.effect : Call → Option Eff
  | .add u => some (u.target, u.request)
  | .update u => some (u.target, u.request)
  | .delete _ => none

/-- a consumer applying one handler call to its set of targets -/
def applyCall (m : View) : Call → View
  | .add u => (u.name, (u.target, u.request)) :: erase u.name m
  | .update u => (u.name, (u.target, u.request)) :: erase u.name m
  | .delete n => erase n m

/-- replaying calls in the given order -/
def replay (m : View) (cs : List Call) : View := cs.foldl applyCall m

/-- equality of maps represented as association lists -/
def MapEq {α : Type} (a b : List (String × α)) : Prop := ∀ k, find k a = find k b

/-- per old name: gone → delete; different → update; same → nothing -/
def diffOldSpec (new : View) (ke : String × Eff) : Option Call :=
  match find ke.1 new with
  | none => some (.delete ke.1)
  | some e' => if ke.2 = e' then none else some (.update ⟨ke.1, e'.2, e'.1⟩)

/-- per new name: not there before → add -/
def diffNewSpec (old : View) (ke : String × Eff) : Option Call :=
  match find ke.1 old with
  | none => some (.add ⟨ke.1, ke.2.2, ke.2.1⟩)
  | some _ => none

/-- the exact difference between two views, as handler calls -/
def specDiff (old new : View) : List Call :=
  old.filterMap (diffOldSpec new) ++ new.filterMap (diffNewSpec old)

/-- a handler call reaches a callback that is not nil -/
def Handlers.allows (h : Handlers) : Call → Bool
  | .add _ => h.add
  | .update _ => h.update
  | .delete _ => h.delete

/-- what `Validate` demands of one map entry -/
def TargetOK (reqs : List (String × Req)) (name : String) (t : TgtP) : Prop :=
  name ≠ "" ∧ ∃ tv, t = some tv ∧ tv.addresses ≠ [] ∧ tv.request ≠ "" ∧ tv.request ∈ keys reqs

/-- a valid configuration: every target is named, present, has an address and names a
request that exists -/
def Valid (c : Cfg) : Prop := ∀ kt ∈ c.target, TargetOK c.request kt.1 kt.2

/-- executable form of `Valid` (used by the driver's spec column) -/
def validB (c : Cfg) : Bool :=
  c.target.all (fun kt =>
    kt.1 != "" &&
    match kt.2 with
    | none => false
    | some tv => !tv.addresses.isEmpty && tv.request != "" && (keys c.request).contains tv.request)

/-- the revision gate: nothing loaded yet, or strictly newer -/
def Newer (cur : Option Cfg) (c : Cfg) : Prop :=
  cur = none ∨ ∃ o, cur = some o ∧ o.revision < c.revision

def newerB (cur : Option Cfg) (c : Cfg) : Bool :=
  match cur with
  | none => true
  | some o => decide (o.revision < c.revision)

/-- result classes of the specification (`invalid` carries no arm: which failing target
`Validate` meets first depends on map iteration order) -/
inductive SpecRes where
  | ok | nilConfig | invalid | revision
deriving DecidableEq, Repr

/-- the property's reading of one `Load` -/
def specLoad (s : St) (config : Option Cfg) : St × SpecRes × List Call :=
  match config with
  | none => (s, .nilConfig, [])
  | some c =>
    if !validB c then (s, .invalid, [])
    else if !newerB s.cur c then (s, .revision, [])
    else ({ s with cur := some c }, .ok,
          (specDiff (effectiveO s.cur) (effective c)).filter s.h.allows)

def LoadRes.toSpec : LoadRes → SpecRes
  | .ok => .ok
  | .nilConfig => .nilConfig
  | .invalid _ => .invalid
  | .revision => .revision

end TargetCfg
end Gnmi
