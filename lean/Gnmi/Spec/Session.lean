/-!
# The session discipline of the target manager's callbacks (property C13)

`manager.Config` has six callbacks: `Connect`, `Update`, `Sync`, `Reset`, `ConnectError`,
`MonitorError`.  Per target, the sequence of their invocations must be a word of the following
two-state automaton (`cache.Cache` relies on it: data of a session never outlives its `Reset`):

```
idle --ConnectError|MonitorError--> idle      (an attempt failed)
idle --Reset--> idle                          (a stream ended before its first message)
idle --Connect--> live                        (first message of a new stream)
live --Update|Sync--> live
live --Reset--> idle
```
nothing else.  Core Lean only.
-/
namespace Gnmi.Session

/-- One callback invocation.  `update j`: the notification was message number `j` of its stream
(the payload, as far as this property is concerned). -/
inductive Ev
  | connect
  | update (j : Nat)
  | sync
  | reset
  | connectError
  | monitorError
  deriving DecidableEq, Repr, Inhabited

inductive St
  | idle
  | live
  deriving DecidableEq, Repr, Inhabited

/-- The automaton's transition function (`none` = the discipline is broken). -/
def step : St → Ev → Option St
  | .idle, .connectError => some .idle
  | .idle, .monitorError => some .idle
  | .idle, .reset => some .idle
  | .idle, .connect => some .live
  | .live, .update _ => some .live
  | .live, .sync => some .live
  | .live, .reset => some .idle
  | _, _ => none

def run : St → List Ev → Option St
  | s, [] => some s
  | s, e :: es => match step s e with
    | some s' => run s' es
    | none => none

/-- A per-target callback trace obeys the discipline. -/
def Accepts (tr : List Ev) : Prop := (run .idle tr).isSome = true

instance (tr : List Ev) : Decidable (Accepts tr) := by unfold Accepts; infer_instance

theorem run_append (s : St) (a b : List Ev) :
    run s (a ++ b) = (run s a).bind (fun s' => run s' b) := by
  induction a generalizing s with
  | nil => simp [run]
  | cons e es ih =>
    simp only [List.cons_append, run]
    cases step s e with
    | none => simp
    | some s' => simpa using ih s'

theorem run_snoc (s : St) (a : List Ev) (e : Ev) :
    run s (a ++ [e]) = (run s a).bind (fun s' => step s' e) := by
  rw [run_append]
  congr 1
  funext s'
  simp only [run]
  cases step s' e <;> rfl

/-- Every prefix of an accepted trace is accepted. -/
theorem accepts_prefix {a b : List Ev} (h : Accepts (a ++ b)) : Accepts a := by
  unfold Accepts at *
  rw [run_append] at h
  cases hr : run .idle a with
  | none => simp [hr] at h
  | some s => simp

example : Accepts [.connect, .update 0, .update 1, .reset, .connectError, .monitorError,
    .reset, .connectError, .monitorError, .connect, .sync, .reset, .connectError, .monitorError] := by
  decide

example : ¬ Accepts [.connect, .update 0, .connectError] := by decide
example : ¬ Accepts [.connect, .reset, .sync] := by decide
example : ¬ Accepts [.connect, .update 0, .connect] := by decide

end Gnmi.Session
