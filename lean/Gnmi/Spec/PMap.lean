import Gnmi.Basic
/-!
# Abstract specification of the path tree: a prefix-free finite map

Short enough to read in a minute.  A `PMap` is a list of `(path, value)` pairs;
the interesting predicates are `qmatches` (which stored keys a wildcard query or
delete selects) and `PrefixFree`.
-/
namespace Gnmi

abbrev PMap (V : Type) := List (Path × V)

/-- Query `q` selects stored key `k`: literal or `*` per element; the query may be
shorter than the key (it then selects the whole subtree); it may be longer than the
key by exactly one trailing `*`. -/
def qmatches : Path → Path → Bool
  | [], _ => true
  | [g], [] => g == glob
  | _ :: _ :: _, [] => false
  | g :: q, k :: ks => (g == glob || g == k) && qmatches q ks

/-- The streaming filter of `match` (C06): agreement on every position both have. -/
def compatible : Path → Path → Bool
  | g :: q, k :: p => (g == glob || k == glob || g == k) && compatible q p
  | _, _ => true

def PrefixFree {V : Type} (m : PMap V) : Prop :=
  ∀ a ∈ m, ∀ b ∈ m, a.1 <+: b.1 → a.1 = b.1

def UniqueKeys {V : Type} (m : PMap V) : Prop := (m.map (·.1)).Nodup

/-- key relative to `p`, if `p` is a prefix of it -/
def strip {V : Type} (p : Path) (kv : Path × V) : Option (Path × V) :=
  if p.isPrefixOf kv.1 then some (kv.1.drop p.length, kv.2) else none

namespace PMap
variable {V : Type}

/-- an add at `p` conflicts with a stored key that is a proper prefix of `p` (the add
would run through a leaf) or of which `p` is a proper prefix (it would land on a branch) -/
def conflicts (m : PMap V) (p : Path) : Bool :=
  m.any (fun kv => (kv.1.isPrefixOf p || p.isPrefixOf kv.1) && kv.1 != p)

def add (m : PMap V) (p : Path) (v : V) : Option (PMap V) :=
  if conflicts m p then none else some ((p, v) :: m.filter (fun kv => kv.1 != p))

def query (m : PMap V) (q : Path) : PMap V := m.filter (fun kv => qmatches q kv.1)

/-- `(kept, removed)` -/
def delete (c : V → Bool) (m : PMap V) (q : Path) : PMap V × PMap V :=
  (m.filter (fun kv => !(qmatches q kv.1 && c kv.2)), m.filter (fun kv => qmatches q kv.1 && c kv.2))

inductive Node (V : Type) where
  | none                 -- no node at that path
  | nil                  -- the root of an empty tree
  | leaf (v : V)
  | branch (keys : List String)
deriving Repr

/-- names of the children below `p`: next element of every stored key that extends `p` -/
def childrenAt (m : PMap V) (p : Path) : List String :=
  (m.filterMap (fun kv => if p.isPrefixOf kv.1 then (kv.1.drop p.length).head? else none)).eraseDups

def get (m : PMap V) (p : Path) : Node V :=
  match m.find? (fun kv => kv.1 == p) with
  | some kv => .leaf kv.2
  | none =>
    if m.any (fun kv => p.isPrefixOf kv.1) then .branch (childrenAt m p)
    else if p.isEmpty then .nil else .none

end PMap
end Gnmi
