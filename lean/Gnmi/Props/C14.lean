import Gnmi.Lemmas.CacheState
import Gnmi.Lemmas.CacheFlags
/-!
# C14 — Reset/Remove clear exactly one target and announce it; targets are isolated

Statements about the cache model (`Gnmi/Model/Cache.lean`, multi-target `State`), for every
cache state reachable through the API (`SInv`, established by `Cache.run_sinv`), every
target name and every clock reading.
-/
namespace Gnmi
namespace C14
open Cache

variable (enc : String → String)

/-! ## Isolation -/

theorem updateMetadata_cfg (s : State) (now : Int) : (s.updateMetadata enc now).1.cfg = s.cfg := by
  unfold State.updateMetadata
  suffices ∀ (l : List (String × Target)) (acc : State × List Event),
      (l.foldl (fun acc kv =>
        match acc.1.get kv.1 with
        | none => acc
        | some t =>
          let r := t.updateMeta s.cfg enc now true
          (acc.1.set kv.1 r.1, acc.2 ++ r.2)) acc).1.cfg = acc.1.cfg from this s.targets (s, [])
  intro l
  induction l with
  | nil => intro acc; rfl
  | cons kv l ih =>
    intro acc
    simp only [List.foldl_cons]
    rw [ih]
    split <;> simp [set_cfg]

theorem onTarget_cfg (s : State) (name : String) (f : Target → Target × List Event) :
    (s.onTarget name f).1.cfg = s.cfg := by
  unfold State.onTarget
  split
  · rfl
  · exact set_cfg _ _ _

/-- no API call changes the cache options -/
theorem step_cfg (s : State) (op : Op) : (s.step enc op).1.cfg = s.cfg := by
  cases op with
  | add name => exact set_cfg _ _ _
  | remove name now => rfl
  | reset name now => exact onTarget_cfg _ _ _
  | sync name now => exact onTarget_cfg _ _ _
  | connect name now => exact onTarget_cfg _ _ _
  | connectError name msg now => exact onTarget_cfg _ _ _
  | update now pn n =>
    simp only [State.step, State.gnmiUpdate]
    split
    · rfl
    · split
      · rfl
      · exact set_cfg _ _ _
  | updateMetadata now => exact updateMetadata_cfg enc s now

/-- **Frame.** No API call addressed to target `T` — update, delete, atomic or multi-update
notification, `Reset`, `Remove`, `Add`, `Sync`, `Connect`, `ConnectError` — changes anything
stored for another target `U`: its tree, metadata, latest timestamp and sync flag. -/
theorem frame (s : State) (op : Op) (T U : String) (hop : op.target = some T) (hne : U ≠ T) :
    (s.step enc op).1.get U = s.get U := by
  cases op with
  | add name =>
    cases hop
    exact get_set_other _ _ _ _ hne
  | remove name now =>
    cases hop
    simp only [State.step, State.remove, State.get]
    rw [get_filter_other _ _ _ hne]
  | reset name now =>
    cases hop
    simp only [State.step, State.reset, State.onTarget]
    split
    · rfl
    · exact get_set_other _ _ _ _ hne
  | sync name now =>
    cases hop
    simp only [State.step, State.sync, State.onTarget]
    split
    · rfl
    · exact get_set_other _ _ _ _ hne
  | connect name now =>
    cases hop
    simp only [State.step, State.connect, State.onTarget]
    split
    · rfl
    · exact get_set_other _ _ _ _ hne
  | connectError name msg now =>
    cases hop
    simp only [State.step, State.connectError, State.onTarget]
    split
    · rfl
    · exact get_set_other _ _ _ _ hne
  | update now pn n =>
    simp only [Op.target, Option.some.injEq] at hop
    simp only [State.step, State.gnmiUpdate]
    split
    · rfl
    · split
      · rfl
      · rw [hop]; exact get_set_other _ _ _ _ hne
  | updateMetadata now => cases hop

/-- … hence every query on `U` returns what it returned before. -/
theorem query_frame (s : State) (op : Op) (T U : String) (q : Path) (hop : op.target = some T)
    (hne : U ≠ T) (hU : U ≠ "*") :
    (s.step enc op).1.query U q = s.query U q := by
  unfold State.query
  by_cases h1 : U = ""
  · simp [h1]
  · simp only [h1, hU, if_false]
    rw [frame enc s op T U hop hne]

/-! ## Remove -/

/-- After `Remove(T)` the target is unknown: `HasTarget` is false, queries and updates addressed
to it are errors that change nothing, and exactly one whole-target delete `T/*` was announced. -/
theorem remove_forgets (s : State) (T : String) (now : Int) (hT : T ≠ "*") :
    let r := s.remove T now
    r.1.get T = none ∧ r.1.hasTarget T = false ∧ r.1.query T [] = none ∧
    r.2 = [Event.del T "" [glob] now] ∧
    (∀ now' n, n.target = T → r.1.gnmiUpdate now' false n = (.err, r.1, [])) := by
  intro r
  have hg : r.1.get T = none := by
    show State.get (s.remove T now).1 T = none
    simp only [State.remove, State.get]
    rw [get_filter_same]; rfl
  refine ⟨hg, ?_, ?_, rfl, ?_⟩
  · unfold State.hasTarget
    by_cases h : T = ""
    · simp [h]
    · simp [h, hT, hg]
  · unfold State.query
    by_cases h : T = ""
    · simp [h]
    · simp [h, hT, hg]
  · intro now' n hn
    unfold State.gnmiUpdate
    simp [hn, hg]

/-- the whole-target delete matches every leaf index of that target (C06: it is offered to
every subscription on `T` or `*`; a single-target stream recognises it and ends) -/
theorem remove_event_covers (T : String) (k : Path) : qmatches (subIndex T "" [glob]) (T :: k) = true := by
  cases k with
  | nil => simp [subIndex, qmatches, glob]
  | cons a k => simp [subIndex, qmatches, glob, qmatches_nil]
where
  qmatches_nil (k : Path) : qmatches [] k = true := by cases k <;> rfl

/-! ## Reset -/

theorem dropRoots_events (name : String) (now : Int) : ∀ (roots : List String) (acc : Target × List Event),
    (dropRoots name now roots acc).2 =
      acc.2 ++ roots.map (fun root => Event.del acc.1.name root [glob] now)
  | [], acc => by simp [dropRoots]
  | root :: roots, acc => by
    have ih := dropRoots_events name now roots
      ({ acc.1 with tree := (PMap.delete (fun _ => true) acc.1.tree [root]).1 },
       acc.2 ++ [Event.del acc.1.name root [glob] now])
    simp only [dropRoots, List.foldl_cons] at ih ⊢
    rw [ih]; simp

/-- **Reset.** After `Reset` of a registered target: only metadata leaves remain, the leaf
counters are zero (and truthful), the latest timestamp is cleared, and for every non-metadata
leaf that was stored a delete `T/<root>/*` covering it was announced. -/
theorem reset_clears (cfg : Cfg) (now : Int) (t : Target) (hi : TInv t) (hn : t.name ≠ "") :
    let r := t.reset cfg enc now
    (∀ kv ∈ r.1.tree, isMetaKey kv.1 = true) ∧
    r.1.md.leaves = 0 ∧ r.1.md.added = 0 ∧ r.1.md.deleted = 0 ∧ r.1.latest = none ∧ TInv r.1 ∧
    (∀ kv ∈ t.tree, isMetaKey kv.1 = false →
      ∃ root rest, kv.1 = root :: rest ∧ Event.del t.name root [glob] now ∈ r.2) := by
  intro r
  obtain ⟨a, b, c, d, e, f, g⟩ := reset_ok cfg enc now t hi hn
  refine ⟨d, e, f, g, c, a, ?_⟩
  intro kv hkv hmeta
  have hr : r = t.reset cfg enc now := rfl
  rw [reset_eq] at hr
  simp only at hr
  have h0 : TInvD (0 - (nm t.tree : Nat)) 0 { t with latest := none, md := Meta.clear } :=
    ⟨hi.unique, hi.hasUpd, hi.nonEmpty, by simp [Meta.clear], by simp [Meta.clear]⟩
  have hm := updateMeta_ok cfg enc now true { t with latest := none, md := Meta.clear } h0 hn
  generalize Target.updateMeta cfg enc now true { t with latest := none, md := Meta.clear } = u at hr hm
  have hev := dropRoots_events t.name now ((rootChildren u.1.tree).filter (· != metaRoot)) u
  rw [← hr] at hev
  match hk : kv.1 with
  | [] => exact absurd hk (hi.nonEmpty kv hkv)
  | root :: rest =>
    refine ⟨root, rest, rfl, ?_⟩
    have hl : lookup t.tree kv.1 = some kv.2 := lookup_some_of_mem hi.unique hkv
    obtain ⟨new, hnew, _⟩ := hm.grow kv.1 kv.2 hl
    have hmem := mem_of_lookup_some hnew
    have hroot : root ∈ (rootChildren u.1.tree).filter (· != metaRoot) := by
      refine List.mem_filter.2 ⟨mem_rootChildren hmem hk, ?_⟩
      have : isMetaKey (root :: rest) = false := by rw [← hk]; exact hmeta
      simpa [isMetaKey] using this
    rw [hev, hm.name]
    exact List.mem_append_right _ (List.mem_map.2 ⟨root, hroot, rfl⟩)

/-- the reset announcement for top-level subtree `root` matches every leaf index below it -/
theorem reset_event_covers (T root : String) (rest : Path) (h : root ≠ "") :
    qmatches (subIndex T root [glob]) (T :: root :: rest) = true := by
  cases rest with
  | nil => simp [subIndex, h, qmatches, glob]
  | cons a k => simp [subIndex, h, qmatches, glob, remove_event_covers.qmatches_nil]

/-- **Reset returns the metadata to its initial values**: after `Cache.Reset(T)` in any reachable
state the target is not synced, not connected, has no address and no connection error, and its
leaf counters are zero. -/
theorem reset_initial_metadata (s : State) (hs : SInv s) (T : String) (now : Int) (t : Target)
    (hg : s.get T = some t) :
    ∃ t', (s.step enc (.reset T now)).1.get T = some t' ∧
      t'.md.sync = false ∧ t'.md.connected = false ∧ t'.md.connectedAddr = "" ∧ t'.md.connectError = none ∧
      t'.md.leaves = 0 ∧ t'.md.added = 0 ∧ t'.md.deleted = 0 ∧ t'.latest = none := by
  obtain ⟨h1, h2, h3⟩ := hs T t hg
  have hn : t.name ≠ "" := by rw [h2]; exact h3
  obtain ⟨f1, f2, f3, f4⟩ := reset_flags s.cfg enc now t h1 hn
  obtain ⟨_, _, c, _, e, f, g⟩ := reset_ok s.cfg enc now t h1 hn
  refine ⟨(t.reset s.cfg enc now).1, ?_, f1, f2, f3, f4, e, f, g, c⟩
  show (s.onTarget T (fun t => t.reset s.cfg enc now)).1.get T = _
  unfold State.onTarget
  rw [hg]
  exact get_set_same _ _ _

/-! ## Non-vacuity -/

def s0 : State := (({} : State).add "t1").add "t2"
def nA : Noti := { ts := 5, target := "t1", pfx := ["a"], praw := "p", upd := [{ path := ["b"], val := .scalar (.int 1), raw := "u" }] }
def s1 : State := (s0.gnmiUpdate 10 false nA).2.1

example : (s1.get "t1").map (fun t => t.tree.length) = some 1 := by decide
example : (s1.get "t2").map (fun t => t.tree.length) = some 0 := by decide
example : ((s1.reset id "t1" 20).1.get "t1").map (fun t => t.md.leaves) = some 0 := by decide

end C14
end Gnmi
