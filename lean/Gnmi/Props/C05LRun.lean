import Gnmi.Props.C05L
/-!
# C05 (concurrent part) — run forms: the premises of `poll_rounds` derived, ONCE ends OK

`C05L.poll_rounds` assumes `PollQuiet` (status open, walk over, queue empty, sender in `Next`) of the
configuration before the trigger and of the one in which the round is read off; `C05L.once_ends_ok`
is the enabledness of one step.  Here both become statements about **maximal runs**:

* `Stuck sys c s` — no goroutine of the server side of RPC `s` (handler, walker, sender) has an enabled
  step in `c`: the RPC's threads have run until they block.  The environment's moves (flow-control gate,
  cancel, timer expiry, poll trigger, half-close) are not counted;
* `ProgInv` — the progress invariant of every reachable configuration (a started RPC has a started
  walker; every key the walker still has to visit can be visited; a ONCE walk that is over has closed
  the queue; how an RPC can have ended);
* `quiet_of_stuck`, `pollQuiet_of_stuck` — an RPC that is still open, whose client reads, and whose
  server threads are stuck is quiet: `PollQuiet`, and the queue is not closed;
* `poll_rounds_env` — `poll_rounds` with environment hypotheses only (client reading, threads run to
  completion before the trigger and at the end of the round; no hypothesis on writers);
* `poll_first_round_env` — the same for the first round;
* `once_ends_ok_run` — every run of the system from the initial configuration in which RPC `s` (ONCE) is
  neither cancelled nor timed out, ending in a configuration where the server threads of `s` are stuck
  while its client reads, has ended RPC `s`: with OK, exactly one sync, sent last, after an update for
  every matched allowed key present throughout the walk — or with one of the four rejections of the
  handler (the reason is stated), nothing having been sent;
* `server_run_terminates` — maximal runs exist: from any reachable configuration, with the client reading,
  the server threads of an RPC reach a stuck configuration by a finite run of their own steps (writers
  silent meanwhile), of length bounded by the measure `progMeasure`; `once_ends_ok_progress` combines it with
  `once_ends_ok_run`;
* `poll_rounds_counted` — `poll_rounds` for an arbitrary schedule containing exactly one poll trigger of the
  subscription (what the simulation of the sequential model produces: `C05Refine.seq_poll_round`).
-/
namespace Gnmi
namespace C05L
open SubLTS
set_option linter.unusedSectionVars false
set_option linter.unusedSimpArgs false
set_option linter.unusedVariables false

variable {K V T R : Type} [DecidableEq K] [DecidableEq R] [DecidableEq T] [Inhabited V]

/-- the labels of the server's own goroutines of one RPC: handler, walker, sender -/
def serverLabel : SLabel K → Bool
  | .hs | .visit _ | .finish | .next | .drained | .build | .sent => true
  | _ => false

/-- no goroutine of the server side of RPC `s` can move -/
def Stuck (sys : Sys K T R) (c : Cfg K V T R) (s : Nat) : Prop :=
  ∀ l : SLabel K, serverLabel l = true → subFire sys (sys.req s) c.sh (c.subs s) l = none

/-- the four ways the handler rejects a request, with the reason -/
def Rejected (rq : Req K T R) (st : Status) : Prop :=
  (st = .unauthenticated ∧ rq.aclOk = false) ∨
  (st = .invalid ∧ (rq.valid = false ∨ rq.mode = .other)) ∨
  (st = .notFound ∧ ∃ t, rq.single = some t) ∨
  (st = .denied ∧ ∃ t, rq.single = some t ∧ rq.allow t = false)

/-- the progress invariant -/
structure ProgInv (rq : Req K T R) (sh : Shared K V T R) (b : Sub K V R) : Prop where
  run_walker : b.pc = .run → b.walker ≠ .idle
  stopped_fin : b.snd = .stopped → b.pc = .fin
  todo_ok : ∀ todo vis, b.walker = .walking todo vis → ∀ k ∈ todo,
    sh.present k = true ∧ rq.walks k = true ∧ k ∉ vis
  todo_uo : ∀ todo vis, b.walker = .walking todo vis → rq.updatesOnly = true → todo = []
  once_closed : rq.mode = .once → b.walker = .done → b.closed = true
  why : ∀ st, b.status = some st →
    st = .ok ∨ (Rejected rq st ∧ b.sent = []) ∨ st = .timeout ∨ st = .cancelled

theorem progInv_init (rq : Req K T R) (sh : Shared K V T R) : ProgInv rq sh ({} : Sub K V R) := by
  constructor <;> simp

theorem mem_snapshot {sh : Shared K V T R} {rq : Req K T R} {k : K} (h : k ∈ snapshot sh rq) :
    sh.present k = true ∧ rq.walks k = true := by
  simp only [snapshot, List.mem_filter, Bool.and_eq_true] at h
  exact h.2

theorem progInv_local {sys : Sys K T R} (hsw : sys.swap = false) {rq : Req K T R} {sh : Shared K V T R}
    {b b' : Sub K V R} {l : SLabel K} (hph : Phase rq b) (h : SubStep sys rq sh b l b')
    (hi : ProgInv rq sh b) : ProgInv rq sh b' := by
  obtain ⟨h1, h2, h3, h4, h5, h6⟩ := hi
  refine ⟨?_, ?_, ?_, ?_, ?_, ?_⟩
  · -- run_walker
    cases h <;> simp_all [Sub.finish, Sub.startWalk]
  · -- stopped_fin
    cases h <;> simp_all [Sub.finish, Sub.startWalk]
  · -- todo_ok
    intro todo vis hw k hk
    cases h
    case visit k0 todo0 vis0 hw0 hst huo hp hwk hnv =>
      simp only [ins_walker] at hw
      injection hw with e1 e2
      subst e1 e2
      obtain ⟨hk1, hk2⟩ := List.mem_filter.1 hk
      have hne : k ≠ k0 := by simpa using hk2
      obtain ⟨a1, a2, a3⟩ := h3 _ _ hw0 k hk1
      refine ⟨a1, a2, ?_⟩
      intro hm
      rcases List.mem_cons.1 hm with e | e
      · exact hne e
      · exact a3 e
    case spawn hpc hnuo =>
      simp only [Sub.startWalk] at hw
      injection hw with e1 e2
      subst e1 e2
      split at hk
      · cases hk
      · exact ⟨(mem_snapshot hk).1, (mem_snapshot hk).2, by simp⟩
    case poll hst hm hwd =>
      simp only [Sub.startWalk] at hw
      injection hw with e1 e2
      subst e1 e2
      split at hk
      · cases hk
      · exact ⟨(mem_snapshot hk).1, (mem_snapshot hk).2, by simp⟩
    all_goals (first | exact h3 todo vis (by simpa [Sub.finish] using hw) k hk | (simp_all [Sub.finish]; done))
  · -- todo_uo
    intro todo vis hw huo
    cases h
    case visit k0 todo0 vis0 hw0 hst huo0 hp hwk hnv => rw [huo] at huo0; cases huo0
    case spawn hpc hnuo =>
      simp only [Sub.startWalk, huo, if_true] at hw
      injection hw with e1 e2
      exact e1.symm
    case poll hst hm hwd =>
      simp only [Sub.startWalk, huo, if_true] at hw
      injection hw with e1 e2
      exact e1.symm
    all_goals (first | exact h4 todo vis (by simpa [Sub.finish] using hw) huo | (simp_all [Sub.finish]; done))
  · -- once_closed
    intro hm hwd
    cases h <;> simp_all [Sub.finish, Sub.startWalk]
  · -- why
    intro st hst
    have hsent0 : b.pc.pre = true → b.sent = [] := hph.pre_sent
    cases h
    case fin l st' why =>
      have e : st' = st := by simpa [Sub.finish] using hst
      subst e
      cases why
      case unauth hp ha =>
        exact Or.inr (Or.inl ⟨Or.inl ⟨rfl, ha⟩, hsent0 (by rw [hp]; rfl)⟩)
      case invalid hp hv =>
        exact Or.inr (Or.inl ⟨Or.inr (Or.inl ⟨rfl, Or.inl hv⟩), hsent0 (by rw [hp]; rfl)⟩)
      case notFound t hp hs hT =>
        exact Or.inr (Or.inl ⟨Or.inr (Or.inr (Or.inl ⟨rfl, t, hs⟩)), hsent0 (by rw [hp]; rfl)⟩)
      case denied t hp hs ha =>
        exact Or.inr (Or.inl ⟨Or.inr (Or.inr (Or.inr ⟨rfl, t, hs, ha⟩)), hsent0 (by rw [hp]; rfl)⟩)
      case badMode hp hm =>
        exact Or.inr (Or.inl ⟨Or.inr (Or.inl ⟨rfl, Or.inr hm⟩), hsent0 (by rw [hp]; rfl)⟩)
      case eof => exact Or.inl rfl
      case drained => exact Or.inl rfl
      case dropEnd => exact Or.inl rfl
      case expire => exact Or.inr (Or.inr (Or.inl rfl))
      case cancel => exact Or.inr (Or.inr (Or.inr rfl))
    case sentEnd r hb hs he =>
      have e : st = .ok := by simpa [Sub.finish] using hst.symm
      exact Or.inl e
    case sentSync hb hs =>
      have hst' : b.status = some st := hst
      have := (pc_run_of_snd hph (by rw [hs]; intro e; cases e) (by rw [hs]; intro e; cases e)).2
      rw [this] at hst'; cases hst'
    case sentResp r hb hs he =>
      have hst' : b.status = some st := hst
      have := (pc_run_of_snd hph (by rw [hs]; intro e; cases e) (by rw [hs]; intro e; cases e)).2
      rw [this] at hst'; cases hst'
    all_goals (have h6' := h6 st (by simpa [Sub.startWalk] using hst); simpa [Sub.startWalk] using h6')

/-- what a shared step removes from a walker's `todo` list -/
def delFilter (sys : Sys K T R) : ShLabel K V T R → K → Bool
  | .w1Del ks => fun k => !decide (k ∈ ks)
  | .w1Reg r => fun k => !sys.covers r k
  | _ => fun _ => true

theorem walker_filter_true (w : Walker K) : w.filter (fun _ => true) = w := by
  cases w <;> simp [Walker.filter]

theorem onShared_walker_eq (sys : Sys K T R) (rq : Req K T R) (b : Sub K V R) (l : ShLabel K V T R) :
    (b.onShared sys rq l).walker = b.walker.filter (delFilter (V := V) sys l) := by
  cases l with
  | w2 u =>
    rw [show delFilter (V := V) sys (ShLabel.w2 u) = fun _ => true from rfl, walker_filter_true]
    cases u <;> simp only [Sub.onShared] <;> split <;> simp
  | w1Del ks => rfl
  | w1Reg r => rfl
  | tAdd t => exact (walker_filter_true _).symm
  | w1Upd k v => exact (walker_filter_true _).symm
  | w1Add k v => exact (walker_filter_true _).symm
  | w1Quiet k v => exact (walker_filter_true _).symm

theorem present_kept {sys : Sys K T R} {sh sh' : Shared K V T R} {l : ShLabel K V T R}
    (hf : shFire sys sh l = some sh') {k : K} (hp : sh.present k = true)
    (hk : delFilter (V := V) sys l k = true) : sh'.present k = true := by
  cases l with
  | tAdd t => simp only [shFire, Option.some.injEq] at hf; rw [← hf]; exact hp
  | w1Upd k0 v =>
    simp only [shFire, Option.ite_none_right_eq_some, Option.some.injEq] at hf
    rw [← hf.2]; exact hp
  | w1Quiet k0 v =>
    simp only [shFire, Option.ite_none_right_eq_some, Option.some.injEq] at hf
    rw [← hf.2]; exact hp
  | w1Add k0 v =>
    simp only [shFire, Option.ite_none_right_eq_some, Option.some.injEq] at hf
    rw [← hf.2]
    show setFn sh.present k0 true k = true
    unfold setFn; split
    · rfl
    · exact hp
  | w2 u =>
    simp only [shFire, Option.ite_none_right_eq_some, Option.some.injEq] at hf
    rw [← hf.2]; exact hp
  | w1Del ks =>
    simp only [shFire, Option.ite_none_right_eq_some, Option.some.injEq] at hf
    rw [← hf.2]
    have : (!decide (k ∈ ks)) = true := hk
    simp [hp, this]
  | w1Reg r =>
    simp only [shFire, Option.ite_none_right_eq_some, Option.some.injEq] at hf
    rw [← hf.2]
    have : (!sys.covers r k) = true := hk
    simp [hp, this]

theorem walker_filter_walking {f : K → Bool} {w : Walker K} {todo' vis : List K}
    (h : w.filter f = .walking todo' vis) : ∃ todo, w = .walking todo vis ∧ todo' = todo.filter f := by
  cases w with
  | walking todo v =>
    simp only [Walker.filter] at h
    injection h with e1 e2
    subst e2
    exact ⟨todo, rfl, e1.symm⟩
  | idle => cases h
  | done => cases h

theorem walker_filter_done {f : K → Bool} {w : Walker K} (h : w.filter f = .done) : w = .done := by
  cases w <;> first | rfl | cases h

theorem walker_filter_idle {f : K → Bool} {w : Walker K} (h : w.filter f = .idle) : w = .idle := by
  cases w <;> first | rfl | cases h

theorem progInv_shared {sys : Sys K T R} {rq : Req K T R} {sh sh' : Shared K V T R} {b : Sub K V R}
    {l : ShLabel K V T R} (hf : shFire sys sh l = some sh') (hi : ProgInv rq sh b) :
    ProgInv rq sh' (b.onShared sys rq l) := by
  obtain ⟨h1, h2, h3, h4, h5, h6⟩ := hi
  have hw := onShared_walker_eq sys rq b l
  refine ⟨?_, ?_, ?_, ?_, ?_, ?_⟩
  · intro hpc hidle
    rw [hw] at hidle
    exact h1 (by simpa using hpc) (walker_filter_idle hidle)
  · intro hs
    simpa using h2 (by simpa using hs)
  · intro todo' vis hwk k hk
    rw [hw] at hwk
    obtain ⟨todo, e1, e2⟩ := walker_filter_walking hwk
    subst e2
    obtain ⟨hk1, hk2⟩ := List.mem_filter.1 hk
    obtain ⟨a1, a2, a3⟩ := h3 todo vis e1 k hk1
    exact ⟨present_kept hf a1 hk2, a2, a3⟩
  · intro todo' vis hwk huo
    rw [hw] at hwk
    obtain ⟨todo, e1, e2⟩ := walker_filter_walking hwk
    rw [e2, h4 todo vis e1 huo]; rfl
  · intro hm hwd
    rw [hw] at hwd
    simpa using h5 hm (walker_filter_done hwd)
  · intro st hst
    simpa using h6 st (by simpa using hst)

theorem progInv_reach {sys : Sys K T R} (hsw : sys.swap = false) {c : Cfg K V T R} (h : Reach sys c) (s : Nat) :
    Phase (sys.req s) (c.subs s) ∧ ProgInv (sys.req s) c.sh (c.subs s) := by
  refine (reach_inv sys (fun _ => True)
    (fun s sh b => Phase (sys.req s) b ∧ ProgInv (sys.req s) sh b) trivial ?_ ?_ ?_ ?_ h).2 s
  · intro s; exact ⟨phase_init _, progInv_init _ _⟩
  · intros; trivial
  · intro s sh l sh' b _ hb hf
    exact ⟨phase_shared l hb.1, progInv_shared hf hb.2⟩
  · intro s sh b l b' _ hb hst
    exact ⟨phase_local hsw hst hb.1, progInv_local hsw hb.1 hst hb.2⟩

/-! ## stuck server threads, a reading client, an open RPC: everything was delivered -/

theorem hs_enabled {sys : Sys K T R} (hsw : sys.swap = false) (rq : Req K T R) (sh : Shared K V T R)
    (b : Sub K V R) (h1 : b.pc ≠ .run) (h2 : b.pc ≠ .fin) : subFire sys rq sh b .hs ≠ none := by
  cases hpc : b.pc <;> simp_all [subFire, hFire]

/-- **Stuck ⇒ quiet.**  In a reachable configuration, an RPC that has not ended, whose client reads
(the flow-control gate is open) and none of whose server goroutines (handler, walker, sender) can move,
has its handler in `<-errC`, its walk over, its queue empty and open, and its sender in `Next`. -/
theorem quiet_of_stuck {sys : Sys K T R} (hsw : sys.swap = false) {c : Cfg K V T R} (hr : Reach sys c)
    (s : Nat) (hstuck : Stuck sys c s) (hst : (c.subs s).status = none)
    (hread : (c.subs s).blocked = false) :
    PollQuiet (c.subs s) ∧ (c.subs s).closed = false ∧ (c.subs s).pc = .run := by
  obtain ⟨hph, hp⟩ := progInv_reach hsw hr s
  have hnf : (c.subs s).pc ≠ .fin := hph.status_fin.1 hst
  have hpc : (c.subs s).pc = .run := by
    apply Classical.byContradiction
    intro hne
    exact hs_enabled hsw _ _ _ hne hnf (hstuck .hs rfl)
  -- the walker
  have hwd : (c.subs s).walker = .done := by
    cases hw : (c.subs s).walker with
    | done => rfl
    | idle => exact absurd hw (hp.run_walker hpc)
    | walking todo vis =>
      exfalso
      cases todo with
      | nil =>
        have := hstuck .finish rfl
        simp [subFire, hw, hst] at this
      | cons k rest =>
        obtain ⟨a1, a2, a3⟩ := hp.todo_ok _ _ hw k (List.mem_cons_self ..)
        have huo : (sys.req s).updatesOnly = false := by
          cases h : (sys.req s).updatesOnly with
          | false => rfl
          | true => have := hp.todo_uo _ _ hw h; cases this
        have := hstuck (.visit k) rfl
        have hcnt := count_le_extra_of_not_mem a3 ((sys.req s).extra k)
        simp only [subFire, hw] at this
        rw [if_pos ⟨hst, huo, a1, a2, hcnt⟩] at this
        cases this
  -- the sender
  have hsnd : (c.subs s).snd = .idle := by
    cases hs : (c.subs s).snd with
    | idle => rfl
    | off =>
      have := hph.snd_off hs
      rw [hpc] at this; cases this
    | stopped => exact absurd (hp.stopped_fin hs) hnf
    | got i d =>
      exfalso
      have := hstuck .build rfl
      simp only [subFire, hs] at this
      cases hm : mkResp sys c.sh d i with
      | none => simp [hm] at this
      | some rt =>
        obtain ⟨r, t⟩ := rt
        simp only [hm] at this
        split at this
        · cases this
        · split at this <;> cases this
    | sendSync =>
      exfalso
      have := hstuck .sent rfl
      simp [subFire, hs, hread] at this
    | sending r =>
      exfalso
      have := hstuck .sent rfl
      simp [subFire, hs, hread] at this
  -- the queue
  have hq : (c.subs s).q = [] ∧ (c.subs s).closed = false := by
    cases hqq : (c.subs s).q with
    | cons x rest =>
      exfalso
      obtain ⟨i, d⟩ := x
      have := hstuck .next rfl
      simp [subFire, hsnd, hqq] at this
    | nil =>
      refine ⟨rfl, ?_⟩
      cases hc : (c.subs s).closed with
      | false => rfl
      | true =>
        exfalso
        have := hstuck .drained rfl
        simp [subFire, hsnd, hqq, hc] at this
  exact ⟨⟨hst, hwd, hq.1, hsnd⟩, hq.2, hpc⟩

/-- **`PollQuiet` derived**: the premise of `poll_rounds`, from reachability, the client reading, the
RPC still open and the server threads having run until they block. -/
theorem pollQuiet_of_stuck {sys : Sys K T R} (hsw : sys.swap = false) {c : Cfg K V T R} (hr : Reach sys c)
    (s : Nat) (hstuck : Stuck sys c s) (hst : (c.subs s).status = none)
    (hread : (c.subs s).blocked = false) : PollQuiet (c.subs s) :=
  (quiet_of_stuck hsw hr s hstuck hst hread).1

/-- conversely a quiet RPC with an open queue is stuck: the hypothesis is exactly "the threads have run
until they block" -/
theorem stuck_of_quiet (sys : Sys K T R) (c : Cfg K V T R) (s : Nat) (hq : PollQuiet (c.subs s))
    (hpc : (c.subs s).pc = .run) (hc : (c.subs s).closed = false) : Stuck sys c s := by
  obtain ⟨h1, h2, h3, h4⟩ := hq
  intro l hl
  cases l <;> simp_all [serverLabel, subFire, hFire]

/-- **poll_rounds with environment hypotheses only.**  The client of a POLL subscription reads; the
server threads of the RPC have run until they block when the trigger arrives (`c0`) and when the round
is read off (`c2`); the RPC has not been ended meanwhile (no cancel, no half-close, no timeout); no
further trigger arrived.  Writers run freely.  Then the responses sent since the trigger contain
exactly one sync, last, after an update for every matched, allowed key present throughout this walk;
every value sent was held by its key during the call; nothing never-matching was sent. -/
theorem poll_rounds_env {sys : Sys K T R} (hsw : sys.swap = false) (wf : sys.WF) {s : Nat}
    (hm : (sys.req s).mode = .poll) {c0 c1 c2 : Cfg K V T R} (hr : Reach sys c0)
    (hstuck0 : Stuck sys c0 s) (hread0 : (c0.subs s).blocked = false)
    (htrig : Step sys c0 (.sub s .poll) c1) (hrun : RunNoPoll sys s c1 c2)
    (hstuck2 : Stuck sys c2 s) (hread2 : (c2.subs s).blocked = false)
    (hopen2 : (c2.subs s).status = none) :
    ∃ new, (c2.subs s).sent = (c0.subs s).sent ++ new ∧ RoundOk sys (sys.req s) (c2.subs s) new := by
  have hst0 : (c0.subs s).status = none := by
    cases htrig with
    | sub _ _ b' h1 =>
      simp only [subFire, Option.ite_none_right_eq_some] at h1
      exact h1.1.1
  have hq0 := pollQuiet_of_stuck hsw hr s hstuck0 hst0 hread0
  have hr2 : Reach sys c2 := reach_of_run (Reach.step hr htrig) hrun
  have hq2 := pollQuiet_of_stuck hsw hr2 s hstuck2 hopen2 hread2
  exact poll_rounds hsw wf hm hr hq0 htrig hrun hq2

/-- the first round, with environment hypotheses only -/
theorem poll_first_round_env {sys : Sys K T R} (hsw : sys.swap = false) (wf : sys.WF) {s : Nat}
    (hm : (sys.req s).mode = .poll) {c : Cfg K V T R} (hrun : RunNoPoll sys s Cfg.init c)
    (hstuck : Stuck sys c s) (hread : (c.subs s).blocked = false) (hopen : (c.subs s).status = none) :
    RoundOk sys (sys.req s) (c.subs s) (c.subs s).sent :=
  poll_first_round hsw wf hm hrun
    (pollQuiet_of_stuck hsw (reach_of_run Reach.init hrun) s hstuck hopen hread)

/-! ## ONCE: every maximal run ends the RPC -/

/-- a run in which RPC `s` is neither cancelled by its client nor timed out -/
inductive RunNoAbort (sys : Sys K T R) (s : Nat) (c : Cfg K V T R) : Cfg K V T R → Prop where
  | refl : RunNoAbort sys s c c
  | step {c1 c2 : Cfg K V T R} {l : Label K V T R} : RunNoAbort sys s c c1 → Step sys c1 l c2 →
      l ≠ .sub s .cancel → l ≠ .sub s .expire → RunNoAbort sys s c c2

theorem reach_of_runNoAbort {sys : Sys K T R} {s : Nat} {c c' : Cfg K V T R} (hr : Reach sys c)
    (h : RunNoAbort sys s c c') : Reach sys c' := by
  induction h with
  | refl => exact hr
  | step _ hs _ _ ih => exact Reach.step ih hs

/-- without a cancel or a timer expiry the RPC never ends `cancelled` or `timeout` -/
theorem noAbort_status {sys : Sys K T R} (hsw : sys.swap = false) {s : Nat} {c : Cfg K V T R}
    (h : RunNoAbort sys s Cfg.init c) :
    (c.subs s).status ≠ some .timeout ∧ (c.subs s).status ≠ some .cancelled := by
  induction h with
  | refl => simp [Cfg.init]
  | @step c1 c2 l hrun hs hl1 hl2 ih =>
    have hr1 := reach_of_runNoAbort Reach.init hrun
    obtain ⟨hph, _⟩ := progInv_reach hsw hr1 s
    cases hs with
    | shared l1 sh' h1 =>
      show ((c1.subs s).onShared sys _ l1).status ≠ _ ∧ ((c1.subs s).onShared sys _ l1).status ≠ _
      rw [onShared_status]; exact ih
    | sub s1 l1 b' h1 =>
      by_cases e : s = s1
      · subst e
        show (setFn c1.subs s b' s).status ≠ _ ∧ (setFn c1.subs s b' s).status ≠ _
        rw [setFn_same]
        have hstep := subFire_step h1
        by_cases hfin : (c1.subs s).pc = .fin
        · obtain ⟨_, _, e3, _, _⟩ := substep_fin hph hfin hstep
          rw [e3]; exact ih
        · cases hstep
          case fin l st why =>
            cases why <;> first
              | (exfalso; exact hl1 rfl)
              | (exfalso; exact hl2 rfl)
              | (simp [Sub.finish])
          case sentEnd r _ _ _ => simp [Sub.finish]
          all_goals (simpa [Sub.startWalk] using ih)
      · show (setFn c1.subs s1 b' s).status ≠ _ ∧ (setFn c1.subs s1 b' s).status ≠ _
        rw [setFn_other _ _ e]; exact ih

/-- **once_ends_ok_run.**  Take any run of the whole system (any number of writers and other RPCs, any
schedule) from the initial configuration in which RPC `s`, a ONCE subscription, is neither cancelled
nor timed out, and which is maximal for `s`: in its last configuration the client of `s` reads and no
server goroutine of `s` can move.  Then RPC `s` has ended, and either

* with status **OK**: exactly one sync was sent, it is the last response, and (unless `updates_only`)
  every matched, allowed key present throughout the walk was sent at least once; or
* with one of the handler's four rejections — `Unauthenticated` (no ACL), `InvalidArgument` (request not
  valid / unknown mode), `NotFound` (a named target), `PermissionDenied` (a named target the ACL
  denies) — and then nothing was sent. -/
theorem once_ends_ok_run {sys : Sys K T R} (hsw : sys.swap = false) (wf : sys.WF) {s : Nat}
    (hm : (sys.req s).mode = .once) {c : Cfg K V T R} (hrun : RunNoAbort sys s Cfg.init c)
    (hstuck : Stuck sys c s) (hread : (c.subs s).blocked = false) :
    ∃ st, (c.subs s).status = some st ∧
      ((st = .ok ∧ nSync (c.subs s).sent = 1 ∧ (c.subs s).sent.getLast? = some .sync ∧
          ((sys.req s).updatesOnly = false → ∀ k ∈ (c.subs s).since, (sys.req s).walks k = true →
            (sys.req s).allow (sys.tgt k) = true → ∃ v d, Resp.upd k v d ∈ (c.subs s).sent)) ∨
       (Rejected (sys.req s) st ∧ (c.subs s).sent = [])) := by
  have hr := reach_of_runNoAbort Reach.init hrun
  obtain ⟨hph, hp⟩ := progInv_reach hsw hr s
  cases hst : (c.subs s).status with
  | none =>
    exfalso
    obtain ⟨⟨_, hwd, _, _⟩, hcl, _⟩ := quiet_of_stuck hsw hr s hstuck hst hread
    have := hp.once_closed hm hwd
    rw [hcl] at this; cases this
  | some st =>
    refine ⟨st, rfl, ?_⟩
    obtain ⟨hna1, hna2⟩ := noAbort_status hsw hrun
    rcases hp.why st hst with e | ⟨hrej, hs0⟩ | e | e
    · subst e
      left
      obtain ⟨_, _, h3⟩ := once_concurrent hsw wf hr s hm
      obtain ⟨a1, a2, a3⟩ := h3 hst
      exact ⟨rfl, a1, a2, a3⟩
    · exact Or.inr ⟨hrej, hs0⟩
    · subst e; exact absurd hst hna1
    · subst e; exact absurd hst hna2

/-- an accepted ONCE request on every target (`*`: no `HasTarget`, no single-target ACL check) whose ACL
could be built and whose request is valid: every maximal run ends **OK** -/
theorem once_ends_ok_run_accepted {sys : Sys K T R} (hsw : sys.swap = false) (wf : sys.WF) {s : Nat}
    (hm : (sys.req s).mode = .once) (hacl : (sys.req s).aclOk = true) (hval : (sys.req s).valid = true)
    (hstar : (sys.req s).single = none)
    {c : Cfg K V T R} (hrun : RunNoAbort sys s Cfg.init c)
    (hstuck : Stuck sys c s) (hread : (c.subs s).blocked = false) :
    (c.subs s).status = some .ok ∧ nSync (c.subs s).sent = 1 ∧ (c.subs s).sent.getLast? = some .sync := by
  obtain ⟨st, hst, h | ⟨hrej, _⟩⟩ := once_ends_ok_run hsw wf hm hrun hstuck hread
  · obtain ⟨rfl, a1, a2, _⟩ := h
    exact ⟨hst, a1, a2⟩
  · exfalso
    rcases hrej with ⟨_, h⟩ | ⟨_, h | h⟩ | ⟨_, t, h⟩ | ⟨_, t, h, _⟩
    · rw [hacl] at h; cases h
    · rw [hval] at h; cases h
    · rw [hm] at h; cases h
    · rw [hstar] at h; cases h
    · rw [hstar] at h; cases h

/-! ## POLL rounds counted on schedules -/

/-- the label is a poll trigger of subscriber `s` -/
def isPollOf (s : Nat) : Label K V T R → Bool
  | .sub i .poll => i == s
  | _ => false

theorem isPollOf_iff (s : Nat) (l : Label K V T R) : isPollOf s l = true ↔ l = .sub s .poll := by
  cases l with
  | sh l => simp [isPollOf]
  | sub i l => cases l <;> simp [isPollOf]

/-- a quiet unregistered RPC stays quiet, with the same responses sent, under every step that is not its
own poll trigger — or it ends -/
theorem quiet_step {sys : Sys K T R} (hsw : sys.swap = false) {s : Nat} (hnm : (sys.req s).mode ≠ .stream)
    {c c' : Cfg K V T R} {l : Label K V T R} (hr : Reach sys c) (hq : PollQuiet (c.subs s))
    (hl : l ≠ .sub s .poll) (hs : Step sys c l c') :
    (PollQuiet (c'.subs s) ∧ (c'.subs s).sent = (c.subs s).sent) ∨ (c'.subs s).status ≠ none := by
  obtain ⟨_, hph, hns⟩ := nsInv_reach hsw hr s hnm
  obtain ⟨h1, h2, h3, h4⟩ := hq
  cases hs with
  | shared l1 sh' hf =>
    left
    refine ⟨⟨?_, ?_, ?_, ?_⟩, ?_⟩
    · show ((c.subs s).onShared sys _ l1).status = none
      rw [onShared_status]; exact h1
    · show ((c.subs s).onShared sys _ l1).walker = .done
      rw [onShared_walker_eq, h2]; rfl
    · show ((c.subs s).onShared sys _ l1).q = []
      rw [(onShared_unreg sys _ _ l1 hns.unreg).1]; exact h3
    · show ((c.subs s).onShared sys _ l1).snd = .idle
      rw [onShared_snd]; exact h4
    · show ((c.subs s).onShared sys _ l1).sent = _
      rw [onShared_sent]
  | sub s1 l1 b' hf =>
    by_cases e : s = s1
    · subst e
      show (PollQuiet (setFn c.subs s b' s) ∧ (setFn c.subs s b' s).sent = _) ∨ (setFn c.subs s b' s).status ≠ none
      rw [setFn_same]
      have hpc := (pc_run_of_snd hph (by rw [h4]; intro e; cases e) (by rw [h4]; intro e; cases e)).1
      have hstep := subFire_step hf
      cases hstep
      case fin l st why => right; simp [Sub.finish]
      case gateClose => left; exact ⟨⟨h1, h2, h3, h4⟩, rfl⟩
      case gateOpen => left; exact ⟨⟨h1, h2, h3, h4⟩, rfl⟩
      case poll => exact absurd rfl hl
      all_goals simp_all
    · left
      show PollQuiet (setFn c.subs s1 b' s) ∧ (setFn c.subs s1 b' s).sent = _
      rw [setFn_other _ _ e]
      exact ⟨⟨h1, h2, h3, h4⟩, rfl⟩

/-- an RPC that has ended stays ended -/
theorem ended_step {sys : Sys K T R} (hsw : sys.swap = false) {s : Nat} {c c' : Cfg K V T R}
    {l : Label K V T R} (hr : Reach sys c) (hst : (c.subs s).status ≠ none) (hs : Step sys c l c') :
    (c'.subs s).status ≠ none := by
  obtain ⟨hph, _⟩ := progInv_reach hsw hr s
  cases hs with
  | shared l1 sh' hf =>
    show ((c.subs s).onShared sys _ l1).status ≠ none
    rw [onShared_status]; exact hst
  | sub s1 l1 b' hf =>
    by_cases e : s = s1
    · subst e
      show (setFn c.subs s b' s).status ≠ none
      rw [setFn_same]
      have hfin : (c.subs s).pc = .fin := by
        apply Classical.byContradiction
        intro hne
        exact hst (hph.status_fin.2 hne)
      rw [(substep_fin hph hfin (subFire_step hf)).2.2.1]; exact hst
    · show (setFn c.subs s1 b' s).status ≠ none
      rw [setFn_other _ _ e]; exact hst

theorem ended_run {sys : Sys K T R} (hsw : sys.swap = false) {s : Nat} :
    ∀ (ls : List (Label K V T R)) {c c' : Cfg K V T R}, Reach sys c → (c.subs s).status ≠ none →
      fireAll sys c ls = some c' → (c'.subs s).status ≠ none
  | [], c, c', _, hst, hf => by
    simp only [fireAll, Option.some.injEq] at hf
    subst hf; exact hst
  | l :: ls, c, c', hr, hst, hf => by
    simp only [fireAll] at hf
    cases h1 : fire sys c l with
    | none => rw [h1] at hf; cases hf
    | some c1 =>
      rw [h1] at hf
      exact ended_run hsw ls (Reach.step hr (fire_sound h1)) (ended_step hsw hr hst (fire_sound h1)) hf

/-- **poll_rounds, counted on a schedule.**  Any schedule (labels of writers, of other RPCs, of this RPC)
that contains exactly one poll trigger of the POLL subscription `s`, from a configuration in which
everything of the previous rounds was delivered to one in which everything is delivered again: the
responses sent in between form one round (`RoundOk`).  No assumption on where in the schedule the
trigger sits. -/
theorem poll_rounds_counted {sys : Sys K T R} (hsw : sys.swap = false) (wf : sys.WF) {s : Nat}
    (hm : (sys.req s).mode = .poll) :
    ∀ (ls : List (Label K V T R)) {c0 c2 : Cfg K V T R}, Reach sys c0 → PollQuiet (c0.subs s) →
      fireAll sys c0 ls = some c2 → ls.countP (isPollOf s) = 1 → PollQuiet (c2.subs s) →
      ∃ new, (c2.subs s).sent = (c0.subs s).sent ++ new ∧ RoundOk sys (sys.req s) (c2.subs s) new
  | [], c0, c2, _, _, _, hcnt, _ => by simp at hcnt
  | l :: ls, c0, c2, hr, hq0, hf, hcnt, hq2 => by
    have hnm : (sys.req s).mode ≠ .stream := by rw [hm]; intro e; cases e
    simp only [fireAll] at hf
    cases h1 : fire sys c0 l with
    | none => rw [h1] at hf; cases hf
    | some c1 =>
      rw [h1] at hf
      have hstep := fire_sound h1
      by_cases hp : isPollOf s l = true
      · have hl : l = .sub s .poll := (isPollOf_iff s l).1 hp
        subst hl
        have hrest : ls.countP (isPollOf s) = 0 := by
          rw [List.countP_cons_of_pos hp] at hcnt
          omega
        have hne : ∀ l' ∈ ls, l' ≠ .sub s .poll := by
          intro l' hl' e
          have : isPollOf (K := K) (V := V) (T := T) (R := R) s l' = true := (isPollOf_iff s l').2 e
          have := List.countP_pos_iff.2 ⟨l', hl', this⟩
          omega
        exact poll_rounds hsw wf hm hr hq0 hstep (runNoPoll_of_fireAll ls hne hf) hq2
      · have hl : l ≠ .sub s .poll := fun e => hp ((isPollOf_iff s l).2 e)
        have hrest : ls.countP (isPollOf s) = 1 := by
          rw [List.countP_cons_of_neg hp] at hcnt
          exact hcnt
        have hr1 : Reach sys c1 := Reach.step hr hstep
        rcases quiet_step hsw hnm hr hq0 hl hstep with ⟨hq1, hsent⟩ | hend
        · obtain ⟨new, h1', h2'⟩ := poll_rounds_counted hsw wf hm ls hr1 hq1 hf hrest hq2
          exact ⟨new, by rw [h1', hsent], h2'⟩
        · exact absurd hq2.1 (ended_run hsw ls hr1 hend hf)

/-- an ended RPC is stuck: every goroutine of it has returned -/
theorem stuck_of_fin (sys : Sys K T R) (c : Cfg K V T R) (s : Nat) (hpc : (c.subs s).pc = .fin)
    (hsnd : (c.subs s).snd = .stopped) (hst : (c.subs s).status ≠ none) : Stuck sys c s := by
  intro l hl
  cases l <;> simp_all [serverLabel, subFire, hFire]
  all_goals (split <;> simp_all)

theorem runNoAbort_of_fireAll {sys : Sys K T R} {s : Nat} {c c' : Cfg K V T R}
    (tr : List (Label K V T R)) (hne : ∀ l ∈ tr, l ≠ .sub s .cancel ∧ l ≠ .sub s .expire)
    (h : fireAll sys c tr = some c') : RunNoAbort sys s c c' := by
  induction tr generalizing c with
  | nil => simp only [fireAll, Option.some.injEq] at h; exact h ▸ RunNoAbort.refl
  | cons l ls ih =>
    simp only [fireAll] at h
    cases hf : fire sys c l with
    | none => rw [hf] at h; cases h
    | some c1 =>
      rw [hf] at h
      have hl := hne l (List.mem_cons_self ..)
      have h1 : RunNoAbort sys s c c1 := RunNoAbort.step RunNoAbort.refl (fire_sound hf) hl.1 hl.2
      have h2 := ih (fun l hl => hne l (List.mem_cons_of_mem _ hl)) h
      clear ih h hf
      induction h2 with
      | refl => exact h1
      | step _ hs ha hb ih => exact RunNoAbort.step ih hs ha hb

theorem nsInv_reach_sh {sys : Sys K T R} (hsw : sys.swap = false) {c : Cfg K V T R} (h : Reach sys c) :
    (∀ k, c.sh.present k = true → k ∈ c.sh.keys) ∧ True ∧ True := by
  have := reach_inv sys (fun sh => ShInv sys sh) (fun _ _ _ => True) (shInv_init sys) (fun _ => trivial)
    (fun sh l sh' hq hf => shInv_step hq hf) (fun _ _ _ _ _ _ _ _ => trivial) (fun _ _ _ _ _ _ _ _ => trivial) h
  exact ⟨this.1.keys, trivial, trivial⟩

/-! ## maximal runs exist: the server threads of an RPC terminate -/

def pcRank : HPc → Nat
  | .h0 => 8 | .h1 => 7 | .h2 => 6 | .h3 => 5 | .h4 => 4 | .reg => 3 | .spawn => 2 | .run => 1 | .fin => 0

def sndRank : Snd K V R → Nat
  | .got _ _ => 2
  | .sendSync => 1
  | .sending _ => 1
  | _ => 0

/-- visits the walker may still make: for every present, matched key one per matching path not used yet -/
def cntTodo (rq : Req K T R) (sh : Shared K V T R) (vis : List K) : Nat :=
  ((sh.keys.filter (fun k => sh.present k && rq.walks k)).map (fun k => rq.extra k + 1 - vis.count k)).sum

def walkRank (rq : Req K T R) (sh : Shared K V T R) : Walker K → Nat
  | .done => 0
  | .idle => 4 * (cntTodo rq sh [] + 1)
  | .walking _ vis => 4 * (cntTodo rq sh vis + 1)

/-- a bound on the number of steps the server threads of an RPC can still take while writers are silent -/
def progMeasure (rq : Req K T R) (sh : Shared K V T R) (b : Sub K V R) : Nat :=
  if b.pc = .fin then 0
  else 10 * pcRank b.pc + walkRank rq sh b.walker + 3 * b.q.length + sndRank b.snd

theorem ins_q_length (b : Sub K V R) (i : Item K R) : (b.ins i).q.length ≤ b.q.length + 1 := by
  rw [ins_q]
  split
  · omega
  · unfold qins
    split
    · rw [bump_length]; omega
    · simp

theorem sum_visit_lt (f : K → Nat) (vis : List K) (k : K) (hk : vis.count k ≤ f k) :
    ∀ (l : List K), k ∈ l →
      (l.map (fun x => f x + 1 - (k :: vis).count x)).sum < (l.map (fun x => f x + 1 - vis.count x)).sum
  | [], h => by cases h
  | x :: l, h => by
    simp only [List.map_cons, List.sum_cons]
    have hle : ∀ (l' : List K), (l'.map (fun x => f x + 1 - (k :: vis).count x)).sum ≤
        (l'.map (fun x => f x + 1 - vis.count x)).sum := by
      intro l'
      induction l' with
      | nil => exact Nat.le_refl _
      | cons y l' ih =>
        simp only [List.map_cons, List.sum_cons]
        have : vis.count y ≤ (k :: vis).count y := by
          rw [List.count_cons]; omega
        omega
    by_cases hxk : x = k
    · subst hxk
      have h1 : (x :: vis).count x = vis.count x + 1 := by simp
      have := hle l
      omega
    · have hkl : k ∈ l := by
        rcases List.mem_cons.1 h with e | e
        · exact absurd e.symm hxk
        · exact e
      have ih := sum_visit_lt f vis k hk l hkl
      have : vis.count x ≤ (k :: vis).count x := by
        rw [List.count_cons]; omega
      omega

theorem cntTodo_visit (rq : Req K T R) (sh : Shared K V T R) (vis : List K) (k : K)
    (hk : k ∈ sh.keys) (hp : sh.present k = true) (hw : rq.walks k = true) (hv : vis.count k ≤ rq.extra k) :
    cntTodo rq sh (k :: vis) < cntTodo rq sh vis := by
  unfold cntTodo
  apply sum_visit_lt rq.extra vis k hv
  simp [List.mem_filter, hk, hp, hw]

/-- every step of a server goroutine of the RPC decreases the measure -/
theorem progMeasure_step {sys : Sys K T R} (hsw : sys.swap = false) {rq : Req K T R} {sh : Shared K V T R}
    {b b' : Sub K V R} {l : SLabel K} (hkeys : ∀ k, sh.present k = true → k ∈ sh.keys) (hph : Phase rq b)
    (hl : serverLabel l = true) (h : SubStep sys rq sh b l b') :
    progMeasure rq sh b' < progMeasure rq sh b := by
  have hpos : b.pc ≠ .fin → 10 ≤ progMeasure rq sh b := by
    intro hne
    unfold progMeasure
    rw [if_neg hne]
    have : 1 ≤ pcRank b.pc := by
      revert hne; cases b.pc <;> simp [pcRank]
    omega
  have hfin_snd := hph.fin_snd
  cases h
  case fin l st why =>
    have h0 : progMeasure rq sh (b.finish st) = 0 := by simp [progMeasure, Sub.finish]
    rw [h0]
    have hne : b.pc ≠ .fin := by
      intro hf
      have hs := hfin_snd hf
      cases why <;> simp_all [serverLabel]
    have := hpos hne
    omega
  case sentEnd r hb hs he =>
    have h0 : progMeasure rq sh (Sub.finish { b with snd := .idle, armed := false, sent := b.sent ++ [r] } .ok) = 0 := by
      simp [progMeasure, Sub.finish]
    rw [h0]
    have hne : b.pc ≠ .fin := by
      intro hf; have := hfin_snd hf; rw [hs] at this; cases this
    have := hpos hne
    omega
  case h0 hp _ => simp [progMeasure, hp, pcRank]
  case h1 hp _ => simp [progMeasure, hp, pcRank]
  case h2 hp _ => simp [progMeasure, hp, pcRank]
  case h3 hp _ => simp [progMeasure, hp, pcRank]
  case h4poll hp _ _ => simp [progMeasure, hp, pcRank]
  case h4stream hp _ _ => simp [progMeasure, hp, pcRank, hsw]
  case h4sync hp _ _ =>
    have := ins_q_length b .syncMarker
    simp only [progMeasure, hp, pcRank, hsw, ins_walker, ins_snd]
    simp
    omega
  case register hp _ => simp [progMeasure, hp, pcRank, hsw]
  case spawnUO hp hm hu =>
    have hw : b.walker = .idle := hph.pre_walker (by rw [hp]; rfl)
    have hs : b.snd = .off := hph.pre_snd (by rw [hp]; rfl)
    simp [progMeasure, hp, pcRank, hsw, hm, walkRank, sndRank, hw, hs]
    omega
  case spawn hp hn =>
    have hw : b.walker = .idle := hph.pre_walker (by rw [hp]; rfl)
    have hs : b.snd = .off := hph.pre_snd (by rw [hp]; rfl)
    have hpc : (if sys.swap = true ∧ rq.mode = .stream then HPc.reg else HPc.run) = HPc.run := by simp [hsw]
    simp only [progMeasure, hp, hpc, Sub.startWalk, hw, hs, walkRank, sndRank, pcRank]
    simp
  case visit k todo vis hw hst huo hp hwk hnv =>
    have hne : b.pc ≠ .fin := hph.status_fin.1 hst
    have hq := ins_q_length b (.handle k (sh.gen k))
    have hc := cntTodo_visit rq sh vis k (hkeys k hp) hp hwk hnv
    simp only [progMeasure, ins_pc, hne, if_false, walkRank, hw, ins_snd]
    omega
  case finish vis hw hst =>
    have hne : b.pc ≠ .fin := hph.status_fin.1 hst
    have hq := ins_q_length b .syncMarker
    simp only [progMeasure, ins_pc, hne, if_false, walkRank, hw, ins_snd]
    omega
  case next i d rest hs hq =>
    have hne : b.pc ≠ .fin := by
      intro hf; have := hfin_snd hf; rw [hs] at this; cases this
    simp only [progMeasure, hne, if_false, hs, hq, sndRank, List.length_cons]
    omega
  case buildSync i d hs hm =>
    have hne : b.pc ≠ .fin := by
      intro hf; have := hfin_snd hf; rw [hs] at this; cases this
    simp only [progMeasure, hne, if_false, hs, sndRank]
    omega
  case buildArm i d r t hs hm ha =>
    have hne : b.pc ≠ .fin := by
      intro hf; have := hfin_snd hf; rw [hs] at this; cases this
    simp only [progMeasure, hne, if_false, hs, sndRank]
    omega
  case buildDrop i d r t hs hm ha he =>
    have hne : b.pc ≠ .fin := by
      intro hf; have := hfin_snd hf; rw [hs] at this; cases this
    simp only [progMeasure, hne, if_false, hs, sndRank]
    omega
  case sentSync hb hs =>
    have hne : b.pc ≠ .fin := by
      intro hf; have := hfin_snd hf; rw [hs] at this; cases this
    simp only [progMeasure, hne, if_false, hs, sndRank]
    omega
  case sentResp r hb hs he =>
    have hne : b.pc ≠ .fin := by
      intro hf; have := hfin_snd hf; rw [hs] at this; cases this
    simp only [progMeasure, hne, if_false, hs, sndRank]
    omega
  case poll => simp [serverLabel] at hl
  case gateClose => simp [serverLabel] at hl
  case gateOpen => simp [serverLabel] at hl

theorem server_step_blocked {sys : Sys K T R} {rq : Req K T R} {sh : Shared K V T R} {b b' : Sub K V R}
    {l : SLabel K} (hl : serverLabel l = true) (h : SubStep sys rq sh b l b') : b'.blocked = b.blocked := by
  cases h <;> simp_all [serverLabel, Sub.finish, Sub.startWalk]

/-- **Maximal runs exist.**  From any reachable configuration, if the client of RPC `s` reads, the server
goroutines of `s` (handler, walker, sender), scheduled alone — writers silent meanwhile —, reach a
configuration in which none of them can move, after at most `progMeasure` steps.  (With writers running
the walk can be prolonged for as long as new matching leaves keep being added: `once_ends_ok_run` and
`poll_rounds_env` therefore speak about runs that *are* maximal for `s`.) -/
theorem server_run_terminates {sys : Sys K T R} (hsw : sys.swap = false) :
    ∀ (n : Nat) {c : Cfg K V T R} (s : Nat), Reach sys c → (c.subs s).blocked = false →
      progMeasure (sys.req s) c.sh (c.subs s) ≤ n →
      ∃ (ls : List (SLabel K)) (c' : Cfg K V T R), (∀ l ∈ ls, serverLabel l = true) ∧ ls.length ≤ n ∧
        fireAll sys c (ls.map (fun l => Label.sub s l)) = some c' ∧ c'.sh = c.sh ∧ Stuck sys c' s ∧
        (c'.subs s).blocked = false := by
  intro n
  induction n with
  | zero =>
    intro c s hr hb hm
    refine ⟨[], c, (fun _ h => by cases h), Nat.le_refl _, rfl, rfl, ?_, hb⟩
    intro l hl
    cases hf : subFire sys (sys.req s) c.sh (c.subs s) l with
    | none => rfl
    | some b' =>
      exfalso
      obtain ⟨hph, _⟩ := progInv_reach hsw hr s
      obtain ⟨hshinv, _, _⟩ := nsInv_reach_sh hsw hr
      have := progMeasure_step hsw hshinv hph hl (subFire_step hf)
      omega
  | succ n ih =>
    intro c s hr hb hm
    by_cases hstuck : Stuck sys c s
    · exact ⟨[], c, (fun _ h => by cases h), Nat.zero_le _, rfl, rfl, hstuck, hb⟩
    · unfold Stuck at hstuck
      obtain ⟨l, hl⟩ := Classical.not_forall.1 hstuck
      obtain ⟨hls, hne⟩ := Classical.not_imp.1 hl
      cases hf : subFire sys (sys.req s) c.sh (c.subs s) l with
      | none => exact absurd hf hne
      | some b' =>
        obtain ⟨hph, _⟩ := progInv_reach hsw hr s
        obtain ⟨hshinv, _, _⟩ := nsInv_reach_sh hsw hr
        have hstep := subFire_step hf
        have hdec := progMeasure_step hsw hshinv hph hls hstep
        have hr1 : Reach sys ⟨c.sh, setFn c.subs s b'⟩ := Reach.step hr (Step.sub c s l b' hf)
        have hb1 : ((⟨c.sh, setFn c.subs s b'⟩ : Cfg K V T R).subs s).blocked = false := by
          show (setFn c.subs s b' s).blocked = false
          rw [setFn_same, server_step_blocked hls hstep]; exact hb
        have hm1 : progMeasure (sys.req s) (⟨c.sh, setFn c.subs s b'⟩ : Cfg K V T R).sh
            ((⟨c.sh, setFn c.subs s b'⟩ : Cfg K V T R).subs s) ≤ n := by
          show progMeasure (sys.req s) c.sh (setFn c.subs s b' s) ≤ n
          rw [setFn_same]; omega
        obtain ⟨ls, c', h1, h2, h3, h4, h5, h6⟩ := ih s hr1 hb1 hm1
        refine ⟨l :: ls, c', ?_, by simp; omega, ?_, h4, h5, h6⟩
        · intro x hx
          rcases List.mem_cons.1 hx with rfl | hx
          · exact hls
          · exact h1 x hx
        · simp only [List.map_cons, fireAll, fire, hf, Option.map_some]
          exact h3

theorem RunNoAbort.trans {sys : Sys K T R} {s : Nat} {a b c : Cfg K V T R} (h1 : RunNoAbort sys s a b)
    (h2 : RunNoAbort sys s b c) : RunNoAbort sys s a c := by
  induction h2 with
  | refl => exact h1
  | step _ hs ha hb ih => exact RunNoAbort.step ih hs ha hb

/-- **ONCE ends OK, as progress.**  At any point of any run without cancel or timeout of the ONCE RPC `s`
at which its client reads, letting the server goroutines of `s` run (finitely many steps, writers silent
meanwhile) ends the RPC: OK with exactly one sync, sent last — or one of the handler's rejections with
nothing sent. -/
theorem once_ends_ok_progress {sys : Sys K T R} (hsw : sys.swap = false) (wf : sys.WF) {s : Nat}
    (hm : (sys.req s).mode = .once) {c : Cfg K V T R} (hrun : RunNoAbort sys s Cfg.init c)
    (hread : (c.subs s).blocked = false) :
    ∃ c', RunNoAbort sys s c c' ∧ c'.sh = c.sh ∧ ∃ st, (c'.subs s).status = some st ∧
      ((st = .ok ∧ nSync (c'.subs s).sent = 1 ∧ (c'.subs s).sent.getLast? = some .sync) ∨
       (Rejected (sys.req s) st ∧ (c'.subs s).sent = [])) := by
  have hr := reach_of_runNoAbort Reach.init hrun
  obtain ⟨ls, c', hls, _, hf, hsh, hstuck, hb'⟩ := server_run_terminates hsw _ s hr hread (Nat.le_refl _)
  have hrun' : RunNoAbort sys s c c' := by
    apply runNoAbort_of_fireAll _ _ hf
    intro l hl
    obtain ⟨l0, hl0, rfl⟩ := List.mem_map.1 hl
    have := hls l0 hl0
    constructor <;> (intro e; injection e with _ e2; subst e2; simp [serverLabel] at this)
  obtain ⟨st, hst, h⟩ := once_ends_ok_run hsw wf hm (hrun.trans hrun') hstuck hb'
  refine ⟨c', hrun', hsh, st, hst, ?_⟩
  rcases h with ⟨h1, h2, h3, _⟩ | h
  · exact Or.inl ⟨h1, h2, h3⟩
  · exact Or.inr h

/-! ## Non-vacuity -/

section NonVacuity
open Demo

/-- `once_ends_ok_run`: the run of the example of `once_concurrent` (an update races the walk of the ONCE
subscriber 2) has no cancel and no timeout, ends with the client reading and the threads of RPC 2
stuck — and the RPC has ended OK after `[upd 1 8, sync]` -/
example : ∃ c : Demo.C, RunNoAbort Demo.sys 2 Cfg.init c ∧ (Demo.sys.req 2).mode = .once ∧
    Stuck Demo.sys c 2 ∧ (c.subs 2).blocked = false ∧ (c.subs 2).status = some .ok ∧
    (c.subs 2).sent = [.upd 1 8 0, .sync] := by
  have htr : ∀ l ∈ (setup ++ hsN 2 6 ++
      [.sub 2 (.visit 1), .sh (.w1Upd 1 8), .sh (.w2 (.upd 1 1)), .sub 2 .finish] ++
      deliver 2 ++ deliver 2 ++ [.sub 2 .drained] : List Demo.L),
      l ≠ .sub 2 .cancel ∧ l ≠ .sub 2 .expire := by decide
  cases hc : fireAll Demo.sys Cfg.init (setup ++ hsN 2 6 ++
      [.sub 2 (.visit 1), .sh (.w1Upd 1 8), .sh (.w2 (.upd 1 1)), .sub 2 .finish] ++
      deliver 2 ++ deliver 2 ++ [.sub 2 .drained]) with
  | none =>
    have : (fireAll Demo.sys Cfg.init (setup ++ hsN 2 6 ++
      [.sub 2 (.visit 1), .sh (.w1Upd 1 8), .sh (.w2 (.upd 1 1)), .sub 2 .finish] ++
      deliver 2 ++ deliver 2 ++ [.sub 2 .drained])).isSome = true := by decide
    rw [hc] at this; cases this
  | some c =>
    have hobs : (fireAll Demo.sys Cfg.init (setup ++ hsN 2 6 ++
      [.sub 2 (.visit 1), .sh (.w1Upd 1 8), .sh (.w2 (.upd 1 1)), .sub 2 .finish] ++
      deliver 2 ++ deliver 2 ++ [.sub 2 .drained])).map (fun c =>
        decide ((c.subs 2).pc = .fin) && decide ((c.subs 2).snd = .stopped) &&
        decide ((c.subs 2).blocked = false) && decide ((c.subs 2).status = some .ok) &&
        decide ((c.subs 2).sent = [.upd 1 8 0, .sync])) = some true := by decide
    rw [hc] at hobs
    simp only [Option.map_some, Option.some.injEq, Bool.and_eq_true, decide_eq_true_eq] at hobs
    obtain ⟨⟨⟨⟨h1, h2⟩, h3⟩, h4⟩, h5⟩ := hobs
    exact ⟨c, runNoAbort_of_fireAll _ htr hc, rfl,
      stuck_of_fin _ _ _ h1 h2 (by rw [h4]; intro e; cases e), h3, h4, h5⟩

/-- `poll_rounds_env`: the two rounds of the example of `poll_rounds` (subscriber 5; an update races the
second walk) satisfy the environment hypotheses: threads stuck and client reading before the trigger and
at the end of the round, RPC open -/
example : ∃ c0 c1 c2 : Demo.C, Reach Demo.sys c0 ∧ (Demo.sys.req 5).mode = .poll ∧
    Stuck Demo.sys c0 5 ∧ (c0.subs 5).blocked = false ∧ Step Demo.sys c0 (.sub 5 .poll) c1 ∧
    RunNoPoll Demo.sys 5 c1 c2 ∧ Stuck Demo.sys c2 5 ∧ (c2.subs 5).blocked = false ∧
    (c2.subs 5).status = none ∧
    (c2.subs 5).sent = (c0.subs 5).sent ++ [.upd 11 70 0, .upd 1 9 0, .sync] := by
  obtain ⟨c0, c2, hr, hf, hp⟩ := reach_of_trace2 pollRound1 (.sub 5 .poll :: pollRound2) (fun c0 c2 =>
    decide ((c0.subs 5).status = none) && decide ((c0.subs 5).walker = .done) &&
    decide ((c0.subs 5).q = []) && decide ((c0.subs 5).snd = .idle) &&
    decide ((c2.subs 5).status = none) && decide ((c2.subs 5).walker = .done) &&
    decide ((c2.subs 5).q = []) && decide ((c2.subs 5).snd = .idle) &&
    decide ((c2.subs 5).sent = (c0.subs 5).sent ++ [.upd 11 70 0, .upd 1 9 0, .sync]) &&
    decide ((c0.subs 5).pc = .run) && decide ((c0.subs 5).closed = false) &&
    decide ((c0.subs 5).blocked = false) && decide ((c2.subs 5).pc = .run) &&
    decide ((c2.subs 5).closed = false) && decide ((c2.subs 5).blocked = false)) (by decide)
  simp only [Bool.and_eq_true, decide_eq_true_eq] at hp
  obtain ⟨⟨⟨⟨⟨⟨⟨⟨⟨⟨⟨⟨⟨⟨a1, a2⟩, a3⟩, a4⟩, b1⟩, b2⟩, b3⟩, b4⟩, e⟩, p0⟩, q0⟩, g0⟩, p2⟩, q2⟩, g2⟩ := hp
  simp only [fireAll] at hf
  cases h1 : fire Demo.sys c0 (.sub 5 .poll) with
  | none => rw [h1] at hf; cases hf
  | some c1 =>
    rw [h1] at hf
    exact ⟨c0, c1, c2, hr, rfl, stuck_of_quiet _ _ _ ⟨a1, a2, a3, a4⟩ p0 q0, g0, fire_sound h1,
      runNoPoll_of_fireAll pollRound2 (by decide) hf, stuck_of_quiet _ _ _ ⟨b1, b2, b3, b4⟩ p2 q2, g2, b1, e⟩

end NonVacuity

end C05L
end Gnmi
