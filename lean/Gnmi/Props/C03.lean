import Gnmi.Lemmas.CacheState
/-!
# C03 — the cache change feed reproduces the cache exactly

Part 1 (this file, first sections): what is handed to the feed by one ingest step — when an
update is withheld, that an atomic notification is fed as one unit, which delete events a
delete produces, and that a multi-update notification is processed as its units in sequence.
Part 2 (`feed_simulation`, `Props/C03Sim.lean`): replaying the feed reproduces the cache.

Hypotheses: `TInv t` (invariant of reachable targets), `n.target ≠ ""` (routing by target).
The caller's notification is a value in the model (the Go code restores `n.Update`/`n.Delete`
and never writes through shared prefix objects — that part is checked by the correspondence
harness, which shares prefix objects between notifications and compares the caller's
notification before and after with `proto.Equal`).
-/
namespace Gnmi
namespace C03
open Cache

/-- the value of a stored (non-atomic) notification -/
def headVal (n : Noti) : Val :=
  match n.upd with
  | u :: _ => u.val
  | [] => .absent

/-- **An update is withheld from the feed only if it was rejected, or — with event-driven
emulation on — it left the value of a plain leaf unchanged.**  Conversely an accepted update
that is not suppressed is fed, and what is fed is the notification itself. -/
theorem withheld_only_if (cfg : Cfg) (now : Int) (t : Target) (n : Noti) (u : Upd) (us : List Upd)
    (hi : TInv t) (hu : n.upd = u :: us) (ht : n.target ≠ "") :
    ((Target.gnmiUpdate1 cfg now t n).2.2 = none →
      (Target.gnmiUpdate1 cfg now t n).1 ≠ .ok ∨
      (cfg.eventDriven = true ∧ n.atomic = false ∧
        ∃ old, lookup t.tree (updKey n u) = some old ∧ old.atomic = false ∧
          valueEqual (headVal old) u.val = true)) ∧
    (∀ ev, (Target.gnmiUpdate1 cfg now t n).2.2 = some ev →
      (Target.gnmiUpdate1 cfg now t n).1 = .ok ∧ ev = n) := by
  have he := gnmiUpdate1_effect cfg now t n u us hu ht
  generalize Target.gnmiUpdate1 cfg now t n = g at he
  cases he with
  | rejected r t' h =>
    refine ⟨fun _ => Or.inl ?_, fun ev h => by simp at h⟩
    rcases h with rfl | rfl | rfl <;> simp
  | replaced t' old =>
    exact ⟨fun h => by simp at h, fun ev h => ⟨rfl, by simpa using h.symm⟩⟩
  | suppressed t' old ou ous hk hl _ _ _ _ _ hna hoa hou hve hed =>
    refine ⟨fun _ => Or.inr ⟨hed, hna, old, hl, hoa, ?_⟩, fun ev h => by simp at h⟩
    simp [headVal, hou, hve]
  | added t' =>
    exact ⟨fun h => by simp at h, fun ev h => ⟨rfl, by simpa using h.symm⟩⟩
  | panicOld t' old hl ho =>
    exact absurd ho (hi.hasUpd _ (mem_of_lookup_some hl))

/-- **Atomic notifications are never split or partially visible**: an accepted atomic
notification is stored as one leaf under its prefix and fed as exactly one event carrying the
whole notification; a rejected one changes nothing and feeds nothing. -/
theorem atomic_unit (cfg : Cfg) (now : Int) (t : Target) (n : Noti) (hi : TInv t) (ht : n.target ≠ "")
    (ha : n.atomic = true) (hd : n.del = []) (u : Upd) (us : List Upd) (hu : n.upd = u :: us) :
    ((t.dispatch cfg now n).1 = .ok ∧ (t.dispatch cfg now n).2.2.1 = [[Event.upd n]] ∧
      lookup (t.dispatch cfg now n).2.1.tree (joinKey n []) = some n) ∨
    ((t.dispatch cfg now n).1 ≠ .ok ∧ (t.dispatch cfg now n).2.2.1 = [] ∧
      (t.dispatch cfg now n).2.1.tree = t.tree) := by
  have hr : t.dispatch cfg now n =
      singleArm (Target.gnmiUpdate1 cfg now t n) ((n.upd.length : Nat) : Int) := by
    unfold Target.dispatch
    simp [ha, hd, hu]
  have he := gnmiUpdate1_effect cfg now t n u us hu ht
  have hk : updKey n u = joinKey n [] := by simp [updKey, ha]
  rw [hk] at he
  rw [hr]
  generalize Target.gnmiUpdate1 cfg now t n = g at he
  cases he with
  | rejected r t' h h1 =>
    refine Or.inr ?_
    rcases h with rfl | rfl | rfl <;> simp [singleArm, Res.isErr, h1]
  | replaced t' old _ hl _ h1 =>
    refine Or.inl ⟨by simp [singleArm, Res.isErr], by simp [singleArm, Res.isErr], ?_⟩
    simp only [singleArm, Res.isErr]
    show lookup t'.tree _ = _
    rw [h1]; exact lookup_setLeaf_same hi.unique hl
  | suppressed t' old ou ous _ _ _ _ _ _ _ hna => rw [ha] at hna; cases hna
  | added t' _ _ hadd =>
    refine Or.inl ⟨by simp [singleArm, Res.isErr], by simp [singleArm, Res.isErr], ?_⟩
    simp only [singleArm, Res.isErr]
    exact lookup_add_same hadd
  | panicOld t' old hl ho => exact absurd ho (hi.hasUpd _ (mem_of_lookup_some hl))

theorem allSome_map_some {α β : Type} (f : α → Option β) : ∀ (l : List α) (r : List β),
    allSome (l.map f) = some r → r.length = l.length ∧ ∀ i (h : i < l.length) (h' : i < r.length),
      f l[i] = some r[i]
  | [], r, h => by simp [allSome] at h; subst h; simp
  | x :: l, r, h => by
    simp only [List.map_cons] at h
    cases hx : f x with
    | none => rw [hx] at h; simp [allSome] at h
    | some y =>
      rw [hx] at h
      simp only [allSome, Option.map_eq_some_iff] at h
      obtain ⟨r', hr', rfl⟩ := h
      obtain ⟨h1, h2⟩ := allSome_map_some f l r' hr'
      refine ⟨by simp [h1], ?_⟩
      intro i hi hi'
      cases i with
      | zero => simpa using hx
      | succ j => simpa using h2 j (by simpa using hi) (by simpa using hi')

/-- **Each removed leaf produces exactly one delete event, in the same order, built from that
leaf's own notification** (`toDeleteNotification`): same number of events as removed leaves,
the i-th event is the delete notification of the i-th removed leaf, stamped with the delete's
timestamp. -/
theorem delete_events (t : Target) (n : Noti) (d : Del) (ds : List Del) (hi : TInv t)
    (hd : n.del = d :: ds) (ht : n.target ≠ "") :
    let r := Target.gnmiRemove1 t n
    let removed := (PMap.delete (olderThan n.ts) t.tree (joinKey n d.path)).2
    r.2.1.length = removed.length ∧
    ∀ i (h : i < removed.length) (h' : i < r.2.1.length),
      toDeleteEvent? removed[i].2 n.ts = some r.2.1[i] := by
  intro r removed
  obtain ⟨_, _, _, h4, _⟩ := gnmiRemove1_spec t n d ds hd ht
  obtain ⟨hp, _⟩ := gnmiRemove1_consequences t n hi (by rw [hd]; simp) ht
  obtain ⟨h5, _⟩ := h4 hp
  exact allSome_map_some (fun (kv : Path × Noti) => toDeleteEvent? kv.2 n.ts) _ _ h5

/-- the index path a delete event announces equals the key the leaf was stored under, provided
the leaf's notification is stored at its own index (`updKey`) and carries its origin in the
prefix (the cache's stated contract for origins) -/
theorem delete_event_path (d : Noti) (u : Upd) (us : List Upd) (ts : Int) (k : Path)
    (hu : d.upd = u :: us) (hk : updKey d u = k) (ho : d.origin ≠ "" ∨ u.origin = "") :
    toDeleteEvent? d ts =
      some (Event.del d.target d.origin (d.pfx ++ (if d.atomic then [] else u.path)) ts) ∧
    (if d.origin = "" then [] else [d.origin]) ++ (d.pfx ++ (if d.atomic then [] else u.path)) = k := by
  constructor
  · unfold toDeleteEvent?
    rw [hu]
    simp only
    rcases ho with h | h
    · simp [h]
    · simp [h]
  · rw [← hk]; simp [updKey, joinKey, List.append_assoc]

/-! ## A multi-update notification = its units in sequence

In the model, as in the code, the multi arm of `Target.GnmiUpdate` *is* a loop that hands each
update, then each delete, to the same `gnmiUpdate` / `gnmiRemove` a single notification goes
through (`Cache.multiUpdates`, `Cache.multiDeletes`), with the header cloned and exactly one
update or delete attached.  The two facts below identify one round of each loop with the
single-notification arm of `dispatch`. -/

theorem dispatch_single_upd (cfg : Cfg) (now : Int) (t : Target) (n1 : Noti) (u : Upd)
    (h1 : n1.atomic = false) (h2 : n1.upd = [u]) (h3 : n1.del = []) :
    t.dispatch cfg now n1 = singleArm (Target.gnmiUpdate1 cfg now t n1) 1 := by
  unfold Target.dispatch; simp [h1, h2, h3]

theorem dispatch_single_del (cfg : Cfg) (now : Int) (t : Target) (n1 : Noti) (d : Del)
    (h1 : n1.atomic = false) (h2 : n1.upd = []) (h3 : n1.del = [d]) :
    t.dispatch cfg now n1 =
      (if (Target.gnmiRemove1 { t with md := { t.md with updated := t.md.updated + 1 } } n1).2.2 then
        (.panic, (Target.gnmiRemove1 { t with md := { t.md with updated := t.md.updated + 1 } } n1).1, [], false)
       else (.ok, (Target.gnmiRemove1 { t with md := { t.md with updated := t.md.updated + 1 } } n1).1,
        (if (Target.gnmiRemove1 { t with md := { t.md with updated := t.md.updated + 1 } } n1).2.1.isEmpty then []
         else [(Target.gnmiRemove1 { t with md := { t.md with updated := t.md.updated + 1 } } n1).2.1]), false)) := by
  unfold Target.dispatch; simp [h1, h2, h3]

/-- one round of the update loop = the single-update arm on the cloned header (`singleArm`
bumps `targetLeavesUpdated` and emits the leaf exactly as the loop body does) -/
theorem multiUpdates_round (cfg : Cfg) (now : Int) (hdr : Noti) (u : Upd) (us : List Upd) (acc : MultiAcc)
    (hp : acc.panicked = false) (n1 : Noti) (hn1 : n1 = { hdr with upd := [u], del := [] })
    (hnp : (Target.gnmiUpdate1 cfg now acc.t n1).1 ≠ .panic) :
    multiUpdates cfg now hdr (u :: us) acc =
      multiUpdates cfg now hdr us
        { acc with
          anyErr := acc.anyErr || (singleArm (Target.gnmiUpdate1 cfg now acc.t n1) 1).1.isErr,
          anyOk := acc.anyOk || !(singleArm (Target.gnmiUpdate1 cfg now acc.t n1) 1).1.isErr,
          t := (singleArm (Target.gnmiUpdate1 cfg now acc.t n1) 1).2.1,
          evs := acc.evs ++ (singleArm (Target.gnmiUpdate1 cfg now acc.t n1) 1).2.2.1 } := by
  subst hn1
  conv => lhs; unfold multiUpdates
  simp only [hp, Bool.false_eq_true, if_false, hnp]
  unfold singleArm
  split
  · rename_i he; simp [he]
  · rename_i he
    simp only [he, Bool.false_eq_true, if_false]
    split <;> simp [Res.isErr]

end C03
end Gnmi
