import Gnmi.Lemmas.PathConv
import Gnmi.Lemmas.QueryString
import Gnmi.Lemmas.Value
/-!
# Property C19 — path indexing and value conversion are deterministic, faithful and total

Models: `Model/PathConv.lean` (`path/path.go`), `Model/QueryString.lean`
(`client/gnmi/client.go: subscribe, pathToString` + vendored `ygot.StringToPath`),
`Model/Value.lean` (`value/value.go`).  Spec: `Spec/PathIndex.lean`, `specEqual`.

All statements are universally quantified (paths, key maps, queries, scalars and typed values of
any size / nesting depth).  Go's randomised map iteration is the quantification over
permutations of key lists in `toStrings_perm_invariant`.
-/
namespace Gnmi.C19
open Gnmi.PV List

/-! ## 1. Path indexing (`path.ToStrings`) -/

/-- every key map of the path has distinct key names (true of every Go map) -/
def KeysOK (p : GPath) : Prop := ∀ e ∈ p.elem, KeysNodup e.key

/-- two elements that differ only in the iteration order of their key map -/
def ElemPerm (e e' : PathElem) : Prop := e.name = e'.name ∧ e.key.Perm e'.key

/-- two paths that differ only in the iteration order of key maps -/
inductive ElemsPerm : List PathElem → List PathElem → Prop
  | nil : ElemsPerm [] []
  | cons {e e' : PathElem} {r r' : List PathElem} : ElemPerm e e' → ElemsPerm r r' → ElemsPerm (e :: r) (e' :: r')

theorem ElemsPerm.length_eq {l l' : List PathElem} (h : ElemsPerm l l') : l.length = l'.length := by
  induction h with
  | nil => rfl
  | cons _ _ ih => simp [ih]

def PathPerm (p p' : GPath) : Prop :=
  p.origin = p'.origin ∧ p.target = p'.target ∧ p.element = p'.element ∧ ElemsPerm p.elem p'.elem

theorem flatMap_congr' {α β : Type} {l : List α} {f g : α → List β} (h : ∀ x ∈ l, f x = g x) :
    l.flatMap f = l.flatMap g := by
  induction l with
  | nil => rfl
  | cons a r ih =>
    simp only [flatMap_cons]
    rw [h a mem_cons_self, ih (fun x hx => h x (mem_cons_of_mem _ hx))]

/-- **toStrings_shape**: the index of a path is `[target]? ++ [origin]? ++` for each element its
name followed by its key values ordered by key name; target / origin are present iff requested
and non-empty; the deprecated `element` list is used iff there is no `elem`. -/
theorem toStrings_shape (p : GPath) (pfx : Bool) (h : KeysOK p) :
    toStrings (some p) pfx = specIndex (some p) pfx := by
  simp only [toStrings, specIndex, specIndexP, header_eq, append_assoc]
  cases he : p.elem with
  | nil => simp
  | cons e r =>
    simp only [length_cons, Nat.add_one_ne_zero, beq_iff_eq, if_false, reduceCtorEq]
    congr 2
    rw [← he]
    exact flatMap_congr' (fun x hx => elemStrings_eq x (h x hx))

theorem toStrings_nil (pfx : Bool) : toStrings none pfx = [] := rfl

theorem flatMap_elemStrings_perm {l l' : List PathElem} (hp : ElemsPerm l l')
    (hk : ∀ e ∈ l, KeysNodup e.key) : l.flatMap elemStrings = l'.flatMap elemStrings := by
  induction hp with
  | nil => rfl
  | @cons e e' r r' hee _ ih =>
    have hke : KeysNodup e.key := hk e mem_cons_self
    simp only [flatMap_cons]
    rw [ih (fun x hx => hk x (mem_cons_of_mem _ hx)), elemStrings_eq e hke,
      elemStrings_eq e' (hke.perm hee.2), hee.1, valuesByKey_perm hke hee.2]

/-- **toStrings_perm_invariant**: permuting the key list of any element(s) — i.e. any iteration
order the Go runtime may choose for the key maps — does not change the index. -/
theorem toStrings_perm_invariant (p p' : GPath) (pfx : Bool) (hk : KeysOK p) (hp : PathPerm p p') :
    toStrings (some p) pfx = toStrings (some p') pfx := by
  obtain ⟨ho, ht, hel, hes⟩ := hp
  have hlen : p.elem.length = p'.elem.length := hes.length_eq
  simp only [toStrings, header, ho, ht, hel, hlen]
  rw [flatMap_elemStrings_perm hes hk]

/-- determinism = functionality of the model; equal paths index identically -/
theorem toStrings_deterministic (p p' : Option GPath) (pfx : Bool) (h : p = p') :
    toStrings p pfx = toStrings p' pfx := by rw [h]

/-- list keys appear as their values right after their element, ordered by key name
(two-key instance of the shape, any iteration order) -/
theorem toStrings_two_keys (n k₁ v₁ k₂ v₂ : String) (h : k₁ < k₂) :
    toStrings (some { elem := [{ name := n, key := [(k₂, v₂), (k₁, v₁)] }] }) false = [n, v₁, v₂] ∧
    toStrings (some { elem := [{ name := n, key := [(k₁, v₁), (k₂, v₂)] }] }) false = [n, v₁, v₂] := by
  have hne : k₁ ≠ k₂ := fun e => String.lt_irrefl _ (e ▸ h)
  have hle : k₁ ≤ k₂ := Std.le_of_lt h
  have hnle : ¬ k₂ ≤ k₁ := Std.not_le.mpr h
  have hk : KeysOK { elem := [{ name := n, key := [(k₁, v₁), (k₂, v₂)] }] } := by
    intro e he; simp at he; subst he; simp [KeysNodup, hne]
  have h2 : toStrings (some { elem := [{ name := n, key := [(k₁, v₁), (k₂, v₂)] }] }) false = [n, v₁, v₂] := by
    rw [toStrings_shape _ _ hk]
    simp [specIndex, specIndexP, valuesByKey, mergeSort, hle]
  refine ⟨?_, h2⟩
  rw [← h2]
  symm
  apply toStrings_perm_invariant _ _ _ hk
  refine ⟨rfl, rfl, rfl, ?_⟩
  exact ElemsPerm.cons ⟨rfl, Perm.swap _ _ _⟩ ElemsPerm.nil

/-! ## 2. `path.CompletePath` -/

/-- the origin that leads a completed path -/
def leadOrigin (pfx path : Option GPath) : List String :=
  if getOrigin pfx ≠ "" then [getOrigin pfx] else if getOrigin path ≠ "" then [getOrigin path] else []

/-- **completePath_spec**: rejects iff both origins are set, or the path has an origin while the
prefix has elements; otherwise returns `[the origin]? ++ index prefix ++ index path` (target never
included). -/
theorem completePath_spec (pfx path : Option GPath) :
    ((∃ e, completePath pfx path = .error e) ↔
        (getOrigin pfx ≠ "" ∧ getOrigin path ≠ "") ∨
        (getOrigin path ≠ "" ∧ toStrings pfx false ≠ [])) ∧
    (∀ r, completePath pfx path = .ok r →
        r = leadOrigin pfx path ++ toStrings pfx false ++ toStrings path false) := by
  unfold completePath leadOrigin
  by_cases h1 : getOrigin pfx = "" <;> by_cases h2 : getOrigin path = "" <;>
    by_cases h3 : toStrings pfx false = [] <;>
    simp [h1, h2, h3, length_pos_iff]

/-- the same against the abstract spec (`Spec/PathIndex.lean`), which is what the monitor
column of the driver evaluates -/
theorem completePath_eq_spec (pfx path : Option GPath)
    (h1 : ∀ p, pfx = some p → KeysOK p) (h2 : ∀ p, path = some p → KeysOK p) :
    (completePath pfx path).toOption = specComplete pfx path := by
  have e1 : toStrings pfx false = specIndex pfx false := by
    cases pfx with
    | none => rfl
    | some p => exact toStrings_shape p false (h1 p rfl)
  have e2 : toStrings path false = specIndex path false := by
    cases path with
    | none => rfl
    | some p => exact toStrings_shape p false (h2 p rfl)
  unfold completePath specComplete
  rw [e1, e2]
  by_cases h1 : getOrigin pfx = "" <;> by_cases h2 : getOrigin path = "" <;>
    by_cases h3 : specIndex pfx false = [] <;>
    simp [h1, h2, h3, length_pos_iff, Except.toOption]

/-! ## 3. Client query → SubscribeRequest path → server index -/

/-- what "arrives indexed as the same elements, in both encodings" means for a query `q` -/
def ArrivesAs (q : List String) : Prop :=
  ∃ p, queryToPath q = .ok p ∧
    p = specQueryPath q ∧
    toStrings (some { p with element := [] }) false = q ∧        -- structured encoding alone
    toStrings (some { p with elem := [] }) false = q ∧           -- deprecated encoding alone
    toStrings (some p) false = q ∧
    ∀ t, completePath (some { target := t }) (some p) = .ok q    -- as the server joins it

/-- **query_roundtrip** — the full statement of the property: *every* query of plain elements
(non-empty, no `[`, `]`, `\`, space; `/` allowed) arrives as itself.  **False on the current
tree** (`query_roundtrip_false`, defect D18 in third-party `ygot`): kept as the statement,
`query_roundtrip_partial` is what holds. -/
def query_roundtrip : Prop := ∀ q : List String, (∀ e ∈ q, plain e = true) → ArrivesAs q

/-- the D18 hypothesis: the last element does not end in `/` -/
def LastNotSlash (q : List String) : Prop := ∀ e, q.getLast? = some e → e.toList.getLast? ≠ some '/'

theorem toStrings_specQueryPath (q : List String) :
    toStrings (some (specQueryPath q)) false = q ∧
    toStrings (some { specQueryPath q with element := [] }) false = q ∧
    toStrings (some { specQueryPath q with elem := [] }) false = q := by
  have hf : ∀ l : List String,
      (l.map (fun e => ({ name := e, key := [] } : PathElem))).flatMap elemStrings = l := by
    intro l
    induction l with
    | nil => rfl
    | cons a r ih => simp only [map_cons, flatMap_cons, elemStrings, ih]; rfl
  cases q with
  | nil => simp [specQueryPath, toStrings, header]
  | cons a r =>
    simp only [specQueryPath, toStrings, header, length_map, length_cons, Nat.add_one_ne_zero, beq_iff_eq,
      if_false, hf, Bool.false_eq_true, nil_append, length_nil, beq_self_eq_true, if_true, and_self]

/-- **query_roundtrip_partial**: every query of plain elements whose last element does not end
in `/` is converted without error and reaches the server indexed as the same elements, in both
encodings. -/
theorem query_roundtrip_partial (q : List String) (hp : ∀ e ∈ q, plain e = true)
    (hl : LastNotSlash q) : ArrivesAs q := by
  have hp' : ∀ e ∈ q.map String.toList, plainStr e = true := by
    intro e he
    obtain ⟨s, hs, rfl⟩ := mem_map.mp he
    exact hp s hs
  have hl' : LastOK (q.map String.toList) := by
    intro e he
    rw [getLast?_map] at he
    cases hq : q.getLast? with
    | none => rw [hq] at he; cases he
    | some s =>
      rw [hq] at he
      simp only [Option.map_some, Option.some.injEq] at he
      subst he
      exact hl s hq
  have hq : queryToPath q = .ok (specQueryPath q) := by
    unfold queryToPath
    rw [queryToCPath_plain _ hp' hl']
    simp [CPath.toGPath, specQueryPath, Function.comp_def, String.ofList_toList]
  obtain ⟨h1, h2, h3⟩ := toStrings_specQueryPath q
  refine ⟨_, hq, rfl, h2, h3, h1, ?_⟩
  intro t
  have hpre : toStrings (some ({ target := t } : GPath)) false = [] := by simp [toStrings, header]
  unfold completePath
  rw [hpre, h1]
  simp [getOrigin, specQueryPath]

/-- D18 witness: the plain query `["a","b/"]` reaches the server as `["a"]`; `["/"]` as `[]`. -/
theorem query_trailing_slash_lost :
    queryToPath ["a", "b/"] = .ok (specQueryPath ["a"]) ∧ queryToPath ["/"] = .ok (specQueryPath []) := by
  decide

theorem query_roundtrip_false : ¬ query_roundtrip := by
  intro h
  obtain ⟨p, hp, hspec, _⟩ := h ["a", "b/"] (by decide)
  rw [query_trailing_slash_lost.1] at hp
  cases hp
  revert hspec
  decide

/-- conversion never panics (the checked index in `PathStringToElements` never fires), for every
query whatsoever -/
theorem query_total (q : List String) : queryToPath q ≠ .panic := by
  unfold queryToPath queryToCPath
  have := stringToPath_ne_panic (pathToString (q.map String.toList))
  split <;> simp_all

/-! ## 4. Scalar round trip (`FromScalar` / `ToScalar`) -/

section
variable {F D : Type} [FloatOps F D]

/-- **scalar_roundtrip**: every supported Go scalar (valid UTF-8 strings, all integer widths, both
float widths, bool, bytes, string lists, nested lists of those) converts to a `TypedValue` and
back to itself up to widening (`int*→int64`, `uint*→uint64`, `float32→float64`,
`[]string→[]interface{}`); everything else is rejected by `FromScalar` with an error. -/
theorem scalar_roundtrip (s : Scalar F D) :
    (supported s = true → ∃ tv, fromScalar s = .ok tv ∧ toScalar tv = .ok (widenScalar s)) ∧
    (supported s = false → fromScalar s = .err) :=
  ⟨scalar_roundtrip' s, fromScalar_unsupported s⟩

/-! ## 5. Value equality (`value.Equal`) -/

/-- **equal_total**: `Equal` returns a Boolean (no panic, no error) for every pair of typed
values — every oneof arm, the nil message and the unset oneof included.  Input restriction
`payloadOK`: no *nil payload pointer* (`TypedValue_DecimalVal{nil}`, `TypedValue_LeaflistVal{nil}`)
inside; such values cannot be decoded from the wire.  See `equal_nil_payload_panics`. -/
theorem equal_total (a b : TV F D) (ha : payloadOK a = true) (hb : payloadOK b = true) :
    ∃ r : Bool, equal a b = .ok r :=
  ⟨_, equal_eq_spec' a b ha hb⟩

/-- under the same restriction `Equal` *is* the intended function `specEqual` -/
theorem equal_eq_spec (a b : TV F D) (ha : payloadOK a = true) (hb : payloadOK b = true) :
    equal a b = .ok (specEqual a b) := equal_eq_spec' a b ha hb

/-- the unrestricted statement, kept for the record: false, because the code reads
`av.DecimalVal.Digits` / `av.LeaflistVal.Element` without the nil-safe getters. -/
def equal_total_unrestricted (F D : Type) [FloatOps F D] : Prop :=
  ∀ a b : TV F D, ∃ r : Bool, equal a b = .ok r

theorem equal_nil_payload_panics :
    equal (F := F) (D := D) .decimalNil .decimalNil = .panic ∧
    equal (F := F) (D := D) (.decimalVal 1 0) .decimalNil = .panic ∧
    equal (F := F) (D := D) .leaflistNil (.leaflistVal []) = .panic ∧
    toScalar (F := F) (D := D) .decimalNil = .panic ∧
    toScalar (F := F) (D := D) .nilMsg = .panic := ⟨rfl, rfl, rfl, rfl, rfl⟩

theorem equal_total_unrestricted_false : ¬ equal_total_unrestricted F D := by
  intro h
  obtain ⟨r, hr⟩ := h .decimalNil .decimalNil
  simp [equal] at hr

/-- regression witness for defect D7 (fixed in the repository): before the fix
`Equal(DoubleVal, nil)` panicked; on the current tree it is `false` in both directions. -/
theorem equal_double_nil (d : D) :
    equalPreD7 (F := F) (.doubleVal d) .nilMsg = .panic ∧
    equal (F := F) (.doubleVal d) .nilMsg = .ok false ∧
    equal (F := F) .nilMsg (.doubleVal d) = .ok false := ⟨rfl, rfl, rfl⟩

/-- **equal_symm**: for every pair (no restriction), `Equal(a,b)` and `Equal(b,a)` have the same
outcome.  Needs only that Go's `==` on floats is symmetric. -/
theorem equal_symm [LawfulFloatEq F D] (a b : TV F D) : equal a b = equal b a := equal_comm a b

/-- **equal_sound**: `Equal` never reports two different values as equal (no restriction).
Floats are read as numeric values: `==` true only on the same value (`LawfulFloatEq`: NaN equal
to nothing, `+0`/`-0` one value). -/
theorem equal_sound [LawfulFloatEq F D] (a b : TV F D) (h : equal a b = .ok true) : a = b :=
  equal_sound' a b h

end

/-! ## Non-vacuity: the hypotheses are satisfiable by non-trivial states -/

/-- a lawful float instance exists (integers standing for float values) -/
instance : FloatOps Int Int where
  feq32 x y := x == y
  feq64 x y := x == y
  widen x := x
  decToF d _ := d

instance : LawfulFloatEq Int Int where
  feq32_symm x y := by
    show (x == y) = (y == x)
    by_cases h : x = y
    · subst h; rfl
    · rw [beq_eq_false_iff_ne.mpr h, beq_eq_false_iff_ne.mpr (Ne.symm h)]
  feq64_symm x y := by
    show (x == y) = (y == x)
    by_cases h : x = y
    · subst h; rfl
    · rw [beq_eq_false_iff_ne.mpr h, beq_eq_false_iff_ne.mpr (Ne.symm h)]
  feq32_sound x y h := by simpa [FloatOps.feq32] using h
  feq64_sound x y h := by simpa [FloatOps.feq64] using h

/-- a two-key element and its permutation satisfy `KeysOK` / `PathPerm` -/
example : KeysOK { elem := [{ name := "b", key := [("b", "d"), ("a", "c")] }] } ∧
    PathPerm { elem := [{ name := "b", key := [("b", "d"), ("a", "c")] }] }
             { elem := [{ name := "b", key := [("a", "c"), ("b", "d")] }] } := by
  refine ⟨?_, rfl, rfl, rfl, ElemsPerm.cons ⟨rfl, Perm.swap _ _ _⟩ ElemsPerm.nil⟩
  intro e he
  simp at he
  subst he
  decide

/-- the documented example of `ToStrings`: `a/b[b:d, a:c]/e` → `a/b/c/d/e` -/
def docExample : GPath :=
  { target := "t", origin := "o", elem := [{ name := "a" }, { name := "b", key := [("b", "d"), ("a", "c")] }, { name := "e" }] }

example : toStrings (some docExample) true = ["t", "o", "a", "b", "c", "d", "e"] ∧
    toStrings (some docExample) false = ["a", "b", "c", "d", "e"] := by
  have hk : KeysOK docExample := by
    intro e he
    simp [docExample] at he
    rcases he with rfl | rfl | rfl <;> simp [KeysNodup]
  rw [toStrings_shape _ _ hk, toStrings_shape _ _ hk]
  simp [docExample, specIndex, specIndexP, valuesByKey, mergeSort]

/-- a plain query containing `/` that satisfies both hypotheses of `query_roundtrip_partial` -/
example : (∀ e ∈ ["interfaces", "eth0/1", "/x"], plain e = true) ∧ LastNotSlash ["interfaces", "eth0/1", "/x"] := by
  constructor
  · decide
  · intro e he
    simp at he
    subst he
    decide

/-- a nested supported scalar, and equal/unequal typed values without nil payloads -/
example : supported (F := Int) (D := Int) (.list [.int .i8 (-3), .strs ["a"], .list [.f32 2]]) = true := by decide
example : payloadOK (F := Int) (D := Int) (.leaflistVal [.doubleVal 1, .nilMsg, .decimalVal 5 1]) = true := by decide
example : equal (F := Int) (D := Int) (.leaflistVal [.doubleVal 1, .stringVal "x"])
    (.leaflistVal [.doubleVal 1, .stringVal "x"]) = .ok true := by decide

end Gnmi.C19
