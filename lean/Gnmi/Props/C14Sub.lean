import Gnmi.Lemmas.SubscribeEnd
import Gnmi.Props.C14
/-!
# C14 — removing a target ends the single-target subscriptions to it cleanly

Statements about the sequential, code-shaped Subscribe model (`Model/Subscribe.lean`: the model the
`su` line-protocol driver executes), for **every** state reachable by a history of `SubEnd.Op`
operations — subscriptions of any mode with any ACL and any request, cache API calls, arbitrary
cache contents and feed events, polls, EOF, flow control (gate shut / step / open, pre-gated
streams), the send timeout, drains — with **no** side condition on the history (`SubEnd.Reachable`;
the histories of `C04Seq`, `C04Gate`/`C08Seq` and `C07` are instances: `SubEnd.reachable_hrun`,
`reachable_grun`, `reachable_c07`).  A subscriber is named by its position `i` in `State.subs`
(positions never change: `SubEnd.step_at`).

`Cache.Remove T` is the history operation `.ca (.remove T now)`: the cache forgets `T`
(`C14.remove_forgets`) and announces the whole-target delete `Event.del T "" ["*"] now`
(`C14.remove_event_covers`: it matches every leaf index of `T`), which `Sub.feed` offers to the
subscribers.

* `remove_ends_single_target_stream`: a running STREAM subscription on `T` (flow control open, at
  least one subscription path) is sent exactly one more response — that delete — and its RPC returns
  OK; nothing else of it changes.
* `remove_keeps_star_subscribers`: an all-targets (`*`) STREAM subscriber stays, and is sent the
  delete (unless its ACL hides `T`, in which case it is sent nothing).
* `remove_other_target_unaffected`: subscribers on `U ≠ T` — any mode, any gate state — keep
  `alive`, `status`, `out`, the held response; with an empty queue (always, when flow control is
  open) they are not changed at all.
* `remove_gated_pending`, `remove_gated_ends_on_open`, `remove_gated_ends_eventually`: with flow
  control shut nothing is sent and the subscriber stays; the delete is the last response waiting
  (`held`); when flow control opens — immediately, or after any operations that are not the
  subscriber's own (no timeout, nothing from its client or its flow control) — the subscriber is sent
  what is waiting up to and including the first whole-target delete and its RPC returns OK.
* What the clause does **not** cover, in the model and in the code: subscriptions that registered
  no query never see the delete — POLL (and gated ONCE) subscriptions, and STREAM subscriptions
  with an empty subscription list (`remove_unregistered_unaffected`,
  `remove_ends_every_single_target_subscription` is false: `not_every_single_target_subscription`);
  a `Remove` of a target literally named `*` ends every single-target stream (`remove_star_ends_others`).
-/
namespace Gnmi
namespace C14Sub
open Cache Gnmi.Sub SubStream SubGate SubEnd

theorem subStep_remove (enc : String → String) (c : Cache.State) (T : String) (now : Int) (s : Subscriber) :
    subStep enc c (.ca (.remove T now)) s = feedSub (c.remove T now).1 [tdEvent T now] s := rfl

/-- **Removing a target ends the single-target STREAM subscriptions to it cleanly.**  In every
reachable state, for every running STREAM subscriber on `T` (≠ `*`) with at least one subscription
path whose flow control is open: after `Cache.Remove T` it is not running any more, the RPC status
is OK, and what it was sent is what it had been sent before followed by exactly the whole-target
delete of `T`; nothing else of the subscriber changes (its queue is empty, nothing is held).  The
cache has forgotten `T`. -/
theorem remove_ends_single_target_stream (enc : String → String) {st : Sub.State} (hr : Reachable enc st)
    (T : String) (now : Int) (hT : T ≠ "*") {i : Nat} {s : Subscriber} (hs : st.subs[i]? = some s)
    (ha : s.alive = true) (hm : s.req.mode = .stream) (ht : s.req.target = T) (hsub : s.req.subs ≠ [])
    (hg : s.gateShut = false) :
    (step enc st (.ca (.remove T now))).subs[i]? =
      some { s with alive := false, status := some .ok,
                    out := s.out ++ [(Resp.del T "" [glob] now 0, s.gatedSinceDrain)] } ∧
    s.queue = [] ∧ s.blocked = none ∧
    (step enc st (.ca (.remove T now))).cache.hasTarget T = false := by
  have inv := reachable_at hr hs
  obtain ⟨hq0, _⟩ := inv.quiet ha (inv.base.open hg)
  refine ⟨?_, hq0, inv.base.open hg, ?_⟩
  · rw [step_at enc st _ i s hs, subStep_remove,
      feedSub_td_ends _ T now inv.base inv.quiet ha hm ht hT hsub hg]
    rfl
  · rw [step_cache]
    exact (C14.remove_forgets st.cache T now hT).2.1

/-- the same, read off the fields -/
theorem remove_ends_single_target_stream_fields (enc : String → String) {st : Sub.State} (hr : Reachable enc st)
    (T : String) (now : Int) (hT : T ≠ "*") {i : Nat} {s : Subscriber} (hs : st.subs[i]? = some s)
    (ha : s.alive = true) (hm : s.req.mode = .stream) (ht : s.req.target = T) (hsub : s.req.subs ≠ [])
    (hg : s.gateShut = false) :
    ∃ s', (step enc st (.ca (.remove T now))).subs[i]? = some s' ∧ s'.alive = false ∧ s'.status = some .ok ∧
      s'.out.map (·.1) = s.out.map (·.1) ++ [Resp.del T "" [glob] now 0] ∧ s'.queue = [] ∧ s'.blocked = none ∧
      isTargetDelete (Resp.del T "" [glob] now 0) = true ∧
      (∀ k, qmatches (subIndex T "" [glob]) (T :: k) = true) := by
  obtain ⟨h1, h2, h3, _⟩ := remove_ends_single_target_stream enc hr T now hT hs ha hm ht hsub hg
  exact ⟨_, h1, rfl, rfl, by simp, h2, h3, isTargetDelete_tdResp T now, C14.remove_event_covers T⟩

/-- the same over the histories of `C04Gate` / `C08Seq` (subscriptions, cache API calls, gate
operations; those of `C04Seq` are the ones without gate operations) -/
theorem remove_ends_single_target_stream_grun (enc : String → String) (cfg : Cfg) (h : List C04Gate.GOp)
    (T : String) (now : Int) (hT : T ≠ "*") {i : Nat} {s : Subscriber}
    (hs : (C04Gate.grun enc { cache := { cfg := cfg } } h).subs[i]? = some s)
    (ha : s.alive = true) (hm : s.req.mode = .stream) (ht : s.req.target = T) (hsub : s.req.subs ≠ [])
    (hg : s.gateShut = false) :
    (C04Gate.grun enc { cache := { cfg := cfg } } (h ++ [.ca (.remove T now)])).subs[i]? =
      some { s with alive := false, status := some .ok,
                    out := s.out ++ [(Resp.del T "" [glob] now 0, s.gatedSinceDrain)] } := by
  have := (remove_ends_single_target_stream enc (reachable_grun enc cfg h) T now hT hs ha hm ht hsub hg).1
  unfold C04Gate.grun at this ⊢
  rw [List.foldl_append]
  exact this

/-- **An all-targets subscriber stays and receives the delete.**  A running STREAM subscriber for
target `*` (flow control open, at least one subscription path) is still running after
`Cache.Remove T`, with the same status; it has been sent exactly the whole-target delete of `T` in
addition — or nothing, if its ACL does not let it see `T`. -/
theorem remove_keeps_star_subscribers (enc : String → String) {st : Sub.State} (hr : Reachable enc st)
    (T : String) (now : Int) {i : Nat} {s : Subscriber} (hs : st.subs[i]? = some s)
    (ha : s.alive = true) (hm : s.req.mode = .stream) (ht : s.req.target = "*") (hsub : s.req.subs ≠ [])
    (hg : s.gateShut = false) :
    (step enc st (.ca (.remove T now))).subs[i]? =
      some (if s.acl.check T then { s with out := s.out ++ [(Resp.del T "" [glob] now 0, s.gatedSinceDrain)] }
            else s) := by
  have inv := reachable_at hr hs
  rw [step_at enc st _ i s hs, subStep_remove, feedSub_td_star _ T now inv.base inv.quiet ha hm ht hsub hg]
  rfl

theorem remove_keeps_star_subscribers_fields (enc : String → String) {st : Sub.State} (hr : Reachable enc st)
    (T : String) (now : Int) {i : Nat} {s : Subscriber} (hs : st.subs[i]? = some s)
    (ha : s.alive = true) (hm : s.req.mode = .stream) (ht : s.req.target = "*") (hsub : s.req.subs ≠ [])
    (hg : s.gateShut = false) :
    ∃ s', (step enc st (.ca (.remove T now))).subs[i]? = some s' ∧ s'.alive = true ∧ s'.status = s.status ∧
      (s.acl.check T = true → s'.out = s.out ++ [(Resp.del T "" [glob] now 0, s.gatedSinceDrain)]) ∧
      (s.acl.check T = false → s'.out = s.out) := by
  refine ⟨_, remove_keeps_star_subscribers enc hr T now hs ha hm ht hsub hg, ?_, ?_, ?_, ?_⟩
  · split <;> exact ha
  · split <;> rfl
  · intro h; rw [if_pos h]
  · intro h; rw [if_neg (by rw [h]; exact Bool.false_ne_true)]

/-- **Subscribers naming another target are unaffected.**  For a subscriber on `U ≠ T` (neither
being `*`) — any mode, running or not, flow control open or shut — `Cache.Remove T` changes nothing
but the notifications its queued handles show (`freezeCovered`, `refreshQueue`: the queue keeps its
entries); if its queue is empty it is not changed at all, which is always the case when it is
running with flow control open. -/
theorem remove_other_target_unaffected (enc : String → String) {st : Sub.State} (hr : Reachable enc st)
    (T : String) (now : Int) (hT : T ≠ "*") {i : Nat} {s : Subscriber} (hs : st.subs[i]? = some s)
    (hU : s.req.target ≠ T) (hU' : s.req.target ≠ "*") :
    (step enc st (.ca (.remove T now))).subs[i]? =
      some { s with queue := refreshQueue (st.cache.remove T now).1 (freezeCovered (tdEvent T now) s.queue) } ∧
    (s.queue = [] → (step enc st (.ca (.remove T now))).subs[i]? = some s) ∧
    (s.alive = true → s.gateShut = false → s.queue = []) := by
  have inv := reachable_at hr hs
  have hoff : offeredR s.regs (tdEvent T now) = false := offeredR_td_false inv.base.regsOK hU hU' hT now
  refine ⟨?_, ?_, ?_⟩
  · rw [step_at enc st _ i s hs, subStep_remove, feedSub_not_offered _ _ inv.quiet hoff]
  · intro he
    rw [step_at enc st _ i s hs, subStep_remove, feedSub_not_offered_empty _ _ inv.quiet hoff he]
  · intro ha hg
    exact (inv.quiet ha (inv.base.open hg)).1

/-! ## flow control shut -/

/-- **With flow control shut the delete is pending.**  A running STREAM subscriber on `T` whose
flow control is shut is sent nothing by `Cache.Remove T` and stays; the whole-target delete is the
last response waiting to be sent (held inside `Send` if nothing was held, else at the end of the
queue). -/
theorem remove_gated_pending (enc : String → String) {st : Sub.State} (hr : Reachable enc st)
    (T : String) (now : Int) (hT : T ≠ "*") {i : Nat} {s : Subscriber} (hs : st.subs[i]? = some s)
    (ha : s.alive = true) (hm : s.req.mode = .stream) (ht : s.req.target = T) (hsub : s.req.subs ≠ [])
    (hg : s.gateShut = true) :
    ∃ s1, (step enc st (.ca (.remove T now))).subs[i]? = some s1 ∧ s1.alive = true ∧ s1.out = s.out ∧
      s1.status = s.status ∧ s1.gateShut = true ∧ s1.id = s.id ∧ s1.req = s.req ∧ s1.closed = false ∧
      s1.gatedSinceDrain = s.gatedSinceDrain ∧
      (∃ r, s1.blocked = some r) ∧ (∃ l, held s1 = l ++ [Resp.del T "" [glob] now 0]) ∧ s1.acl = s.acl ∧
      (s1.blocked = some (Resp.del T "" [glob] now 0) ∨
        (Item.note (Event.del T "" [glob] now), 0) ∈ s1.queue) := by
  have inv := reachable_at hr hs
  have hacl : s.acl.check T = true := by
    have := inv.base.acl ha (by rw [ht]; exact hT)
    rwa [ht] at this
  have hcl : s.closed = false := inv.base.closed_stream (by rw [hm]; decide)
  obtain ⟨g1, g2⟩ := feedSub_td_gated (st.cache.remove T now).1 T now inv.base inv.quiet ha hm (Or.inl ht) hacl
    hsub hg
  rw [step_at enc st _ i s hs, subStep_remove]
  rcases Option.eq_none_or_eq_some s.blocked with hb | ⟨r, hb⟩
  · rw [g1 hb]
    obtain ⟨hq0, _⟩ := inv.quiet ha hb
    refine ⟨_, rfl, ha, rfl, rfl, hg, rfl, rfl, hcl, rfl, ⟨_, rfl⟩, ⟨[], ?_⟩, rfl, Or.inl rfl⟩
    show (some (tdResp T now)).toList ++ sendable s.acl s.queue = _
    rw [hq0]
    rfl
  · obtain ⟨q', hq'⟩ := g2 r hb
    rw [hq']
    refine ⟨_, rfl, ha, rfl, rfl, hg, rfl, rfl, hcl, rfl, ⟨r, hb⟩, ⟨[r] ++ sendable s.acl q', ?_⟩, rfl,
      Or.inr (List.mem_append.2 (Or.inr (List.mem_singleton.2 rfl)))⟩
    show s.blocked.toList ++ sendable s.acl (q' ++ [(Item.note (tdEvent T now), 0)]) = _
    rw [hb, sendable_append, sendable_td _ _ _ hacl, List.append_assoc]
    rfl

/-- **... and when flow control opens the stream ends.**  `Remove T` under a shut gate, then
`gateOpen`: the subscriber is sent what was waiting, in order, up to and including the first
whole-target delete (`cutTD (held s1)`; there is one — at the latest the delete of this `Remove`) and
its RPC returns OK.  (The `gateOpen` follows the `Remove` immediately; `remove_gated_ends_eventually`
allows operations in between.) -/
theorem remove_gated_ends_on_open (enc : String → String) {st : Sub.State} (hr : Reachable enc st)
    (T : String) (now : Int) (hT : T ≠ "*") {i : Nat} {s : Subscriber} (hs : st.subs[i]? = some s)
    (ha : s.alive = true) (hm : s.req.mode = .stream) (ht : s.req.target = T) (hsub : s.req.subs ≠ [])
    (hg : s.gateShut = true) :
    ∃ s1 s2, (step enc st (.ca (.remove T now))).subs[i]? = some s1 ∧
      (run enc st [.ca (.remove T now), .c07 (.gate s.id false)]).subs[i]? = some s2 ∧
      s2.alive = false ∧ s2.status = some .ok ∧
      s2.out = s.out ++ (cutTD (held s1)).map (fun r => (r, s.gatedSinceDrain)) ∧
      ∃ l r, cutTD (held s1) = l ++ [r] ∧ isTargetDelete r = true ∧ ∀ x ∈ l, isTargetDelete x = false := by
  obtain ⟨s1, h1, a1, o1, _, _, i1, r1, c1, d1, ⟨r, b1⟩, ⟨l, hl⟩, _, _⟩ :=
    remove_gated_pending enc hr T now hT hs ha hm ht hsub hg
  have htd : hasTD (held s1) = true := by
    rw [hl]; exact hasTD_snoc_td l (isTargetDelete_tdResp T now)
  obtain ⟨g1, g2, g3⟩ := gateF_open_cut s1 a1 b1 c1 (by rw [r1, ht]; exact hT)
  refine ⟨s1, gateF false s1, h1, ?_, ?_, ?_, ?_, cutTD_last _ htd⟩
  · have h2 := step_at enc _ (.c07 (.gate s.id false)) i s1 h1
    have : subStep enc (step enc st (.ca (.remove T now))).cache (.c07 (.gate s.id false)) s1 = gateF false s1 := by
      show on s.id (gateF false) s1 = _
      unfold on
      rw [if_pos i1]
    rw [this] at h2
    exact h2
  · rw [g2, htd]; rfl
  · rw [g3, htd]; rfl
  · rw [g1, o1, d1]

/-- **The gated clause in general**: `Remove T` under a shut gate, then any operations that are not
the subscriber's own (no timeout, no operation of its client or of its flow control: cache API
calls, feed events, other subscribers' operations, ...), then `gateOpen`.  Until the `gateOpen` the
subscriber is running, inside `Send`, and has been sent nothing more; at the `gateOpen` it is sent
what is waiting, in order, up to and including the first whole-target delete — there is one, the
delete of this `Remove` at the latest: a queued delete item survives every `feed` — and its RPC
returns OK. -/
theorem remove_gated_ends_eventually (enc : String → String) {st : Sub.State} (hr : Reachable enc st)
    (T : String) (now : Int) (hT : T ≠ "*") {i : Nat} {s : Subscriber} (hs : st.subs[i]? = some s)
    (ha : s.alive = true) (hm : s.req.mode = .stream) (ht : s.req.target = T) (hsub : s.req.subs ≠ [])
    (hg : s.gateShut = true) (ops : List SubEnd.Op) (hn : ∀ op ∈ ops, ¬ actsOn s.id op) :
    ∃ s2 s3, (run enc st (.ca (.remove T now) :: ops)).subs[i]? = some s2 ∧ s2.alive = true ∧
      s2.out = s.out ∧ s2.status = s.status ∧ (∃ r, s2.blocked = some r) ∧
      (run enc st ((.ca (.remove T now) :: ops) ++ [.c07 (.gate s.id false)])).subs[i]? = some s3 ∧
      s3.alive = false ∧ s3.status = some .ok ∧
      s3.out = s.out ++ (cutTD (held s2)).map (fun r => (r, s.gatedSinceDrain)) ∧
      ∃ l r, cutTD (held s2) = l ++ [r] ∧ isTargetDelete r = true ∧ ∀ x ∈ l, isTargetDelete x = false := by
  obtain ⟨s1, h1, a1, o1, st1, _, i1, r1, c1, d1, ⟨r, b1⟩, _, acl1, hp⟩ :=
    remove_gated_pending enc hr T now hT hs ha hm ht hsub hg
  have inv := reachable_at hr hs
  have hacl : s.acl.check T = true := by
    have := inv.base.acl ha (by rw [ht]; exact hT)
    rwa [ht] at this
  obtain ⟨q, hq, hq2⟩ := subRun_blocked_notes enc ops (step enc st (.ca (.remove T now))).cache s1 r a1 c1 b1
    (by rw [i1]; exact hn)
  have h2 : (run enc st (.ca (.remove T now) :: ops)).subs[i]? = some { s1 with queue := q } := by
    show (run enc (step enc st (.ca (.remove T now))) ops).subs[i]? = _
    rw [run_at enc ops _ i s1 h1, hq]
  have htd : hasTD (held { s1 with queue := q }) = true := by
    apply hasTD_held (T := T) (now := now) (by show s1.acl.check T = true; rw [acl1]; exact hacl)
    rcases hp with hp | hp
    · exact Or.inl hp
    · exact Or.inr (hq2 _ hp ⟨_, rfl⟩)
  obtain ⟨g1, g2, g3⟩ := gateF_open_cut { s1 with queue := q } a1 b1 c1 (by show s1.req.target ≠ "*"; rw [r1, ht]; exact hT)
  refine ⟨{ s1 with queue := q }, gateF false { s1 with queue := q }, h2, a1, o1, st1, ⟨r, b1⟩, ?_, ?_, ?_, ?_,
    cutTD_last _ htd⟩
  · rw [run_append]
    have h3 := step_at enc _ (.c07 (.gate s.id false)) i _ h2
    have : subStep enc (run enc st (.ca (.remove T now) :: ops)).cache (.c07 (.gate s.id false))
        { s1 with queue := q } = gateF false { s1 with queue := q } := by
      show on s.id (gateF false) { s1 with queue := q } = _
      unfold on
      rw [if_pos (show ({ s1 with queue := q } : Subscriber).id = s.id from i1)]
    rw [this] at h3
    exact h3
  · rw [g2, htd]; rfl
  · rw [g3, htd]; rfl
  · rw [g1]
    show s1.out ++ (cutTD (held { s1 with queue := q })).map (fun x => (x, s1.gatedSinceDrain)) = _
    rw [o1, d1]

/-! ## what never sees the delete -/

/-- **Subscriptions that registered no query are not ended**: POLL and ONCE subscriptions (the
code registers STREAM subscriptions only) and STREAM subscriptions with an empty subscription list
are not offered the delete; `Cache.Remove` of their own target leaves them as they are (up to the
notifications shown by queued handles). -/
theorem remove_unregistered_unaffected (enc : String → String) {st : Sub.State} (hr : Reachable enc st)
    (T : String) (now : Int) {i : Nat} {s : Subscriber} (hs : st.subs[i]? = some s)
    (hn : s.req.mode ≠ .stream ∨ s.req.subs = []) :
    (step enc st (.ca (.remove T now))).subs[i]? =
      some { s with queue := refreshQueue (st.cache.remove T now).1 (freezeCovered (tdEvent T now) s.queue) } ∧
    (s.queue = [] → (step enc st (.ca (.remove T now))).subs[i]? = some s) := by
  have inv := reachable_at hr hs
  have hoff : offeredR s.regs (tdEvent T now) = false := by rw [inv.base.regs_nil hn]; rfl
  refine ⟨?_, ?_⟩
  · rw [step_at enc st _ i s hs, subStep_remove, feedSub_not_offered _ _ inv.quiet hoff]
  · intro he
    rw [step_at enc st _ i s hs, subStep_remove, feedSub_not_offered_empty _ _ inv.quiet hoff he]

/-- the clause read for *every* single-target subscription (any mode, any subscription list) -/
def remove_ends_every_single_target_subscription : Prop :=
  ∀ (enc : String → String) (st : Sub.State), Reachable enc st → ∀ (T : String) (now : Int), T ≠ "*" →
    ∀ (i : Nat) (s : Subscriber), st.subs[i]? = some s → s.alive = true → s.req.target = T →
    s.gateShut = false →
    ∃ s', (step enc st (.ca (.remove T now))).subs[i]? = some s' ∧ s'.alive = false

/-! ## Non-vacuity and witnesses -/

def u1 : Upd := { path := ["a", "b"], val := .scalar (.int 1), raw := "u1" }
def u2 : Upd := { path := ["a", "b"], val := .scalar (.int 2), raw := "u2" }
def reqT : Req := { target := "t", mode := .stream, subs := [{ path := ["a"] }] }
def reqU : Req := { target := "u", mode := .stream, subs := [{ path := [] }] }
def reqAll : Req := { target := "*", mode := .stream, subs := [{ path := [] }] }
def reqPollT : Req := { target := "t", mode := .poll, subs := [{ path := [] }] }
def reqEmptyT : Req := { target := "t", mode := .stream, subs := [] }

/-- two targets; on `t`: a STREAM subscriber with an ACL, a gated STREAM subscriber, a POLL
subscriber, a STREAM subscriber with an empty subscription list; an all-targets subscriber; one on `u` -/
def hist0 : List SubEnd.Op :=
  [ .ca (.add "t"), .ca (.add "u"),
    .ca (.update 10 false { ts := 1, target := "t", praw := "p", upd := [u1] }),
    .c07 (.sub "s0" (.allow ["t"]) (some reqT)),
    .c07 (.sub "s1" .absent (some reqT)),
    .c07 (.sub "s2" .absent (some reqPollT)),
    .c07 (.sub "s3" .absent (some reqEmptyT)),
    .c07 (.sub "s4" .absent (some reqAll)),
    .c07 (.sub "s5" .absent (some reqU)),
    .c07 (.gate "s1" true),
    .ca (.update 11 false { ts := 2, target := "t", praw := "p", upd := [u2] }) ]

def st0 : Sub.State := run id {} hist0

theorem st0_reachable : Reachable id st0 := ⟨{}, hist0, rfl⟩

/-- all six are running; `s1` is stalled, holding the update of `t/a/b` -/
theorem st0_subs : st0.subs.map (fun s => (s.id, s.alive, s.gateShut, s.blocked.isSome, s.out.length)) =
    [("s0", true, false, false, 3), ("s1", true, true, true, 2), ("s2", true, false, false, 2),
     ("s3", true, false, false, 1), ("s4", true, false, false, 3), ("s5", true, false, false, 1)] := by decide

/-- after `Remove t`: `s0` ended OK with one more response, the stalled `s1` is still there, the POLL
`s2` and the empty-list STREAM `s3` were not ended, the all-targets `s4` got the delete and stays,
`s5` (on `u`) is untouched -/
theorem st0_after_remove : (step id st0 (.ca (.remove "t" 20))).subs.map
      (fun s => (s.id, s.alive, s.status, s.out.length)) =
    [("s0", false, some Code.ok, 4), ("s1", true, none, 2), ("s2", true, none, 2),
     ("s3", true, none, 1), ("s4", true, none, 4), ("s5", true, none, 1)] := by decide

/-- ... and once its flow control opens, `s1` is sent the held update and the delete, and ends OK -/
theorem st0_after_open : (run id st0 [.ca (.remove "t" 20), .c07 (.gate "s1" false)]).subs.map
      (fun s => (s.id, s.alive, s.status, s.out.length)) =
    [("s0", false, some Code.ok, 4), ("s1", false, some Code.ok, 4), ("s2", true, none, 2),
     ("s3", true, none, 1), ("s4", true, none, 4), ("s5", true, none, 1)] := by decide

/-- the hypotheses of `remove_ends_single_target_stream` hold of `s0` in `st0` -/
example : ∃ s, st0.subs[0]? = some s ∧ s.alive = true ∧ s.req.mode = .stream ∧ s.req.target = "t" ∧
    s.req.subs ≠ [] ∧ s.gateShut = false := by decide

/-- those of the gated clause hold of `s1` -/
example : ∃ s, st0.subs[1]? = some s ∧ s.alive = true ∧ s.req.mode = .stream ∧ s.req.target = "t" ∧
    s.req.subs ≠ [] ∧ s.gateShut = true := by decide

/-- **the clause does not extend to every single-target subscription**: the POLL subscriber `s2` on
`t` is still running after `Remove t` (so is the STREAM subscriber `s3`, whose request has no
subscription path) -/
theorem not_every_single_target_subscription : ¬ remove_ends_every_single_target_subscription := by
  intro h
  have hs : st0.subs[2]? = some (st0.subs[2]'(by decide)) := List.getElem?_eq_getElem _
  obtain ⟨s', h1, h2⟩ := h id st0 st0_reachable "t" 20 (by decide) 2 _ hs (by decide) (by decide) (by decide)
  have h3 : ((step id st0 (.ca (.remove "t" 20))).subs[2]?).map (·.alive) = some true := by decide
  rw [h1] at h3
  simp only [Option.map_some, Option.some.injEq] at h3
  rw [h2] at h3
  cases h3

/-- **a target literally named `*`**: its `Remove` announces a delete that every registration is
compatible with, and the sender of a single-target stream on another target takes it for the delete
of its own target (`isTargetDelete` does not look at the target): the hypothesis `T ≠ "*"` of
`remove_other_target_unaffected` is needed -/
theorem remove_star_ends_others : ((step id st0 (.ca (.remove "*" 20))).subs.map
      (fun s => (s.id, s.alive, s.status))) =
    [("s0", true, none), ("s1", true, none), ("s2", true, none), ("s3", true, none), ("s4", true, none),
     ("s5", false, some Code.ok)] := by decide

end C14Sub
end Gnmi
