import Gnmi.Props.C13
/-!
# C13 — progress of the target manager in run form

`Props/C13.lean` states the progress clauses of C13 as *enabledness* (`retry_forever`,
`timer_pending`, `timeout_pending`, `reconnect_effective`).  Here they become statements about
*runs* of the LTS of `Model/ManagerLTS.lean` (the existing `Step` / `Reach` / `Run`):

* `MonRun env i` — runs made of steps of the `retryMonitor` goroutine of instance `i` only
  (each one is a `Step.mon i`; `MonRun.toRun`);  `OwnStep env i` / `OwnRun env i` — steps that
  belong to target instance `i`: its monitor goroutine, its receive-timeout goroutine
  (`tmoFire`), the `m.Reconnect(name)` call issued by that goroutine at its lookup
  (`byNameLookup`) and past it (`reconApply`) (`OwnStep.step`, `OwnRun.toRun`);
* `next_attempt_reached`, `attempt_progress` — an attempt is a finite path;
* `timeout_forces_reset`, `reconnect_forces_reset`, `reset_exactly_once` — a fired receive
  timeout (a forced `Reconnect`) ends the stream with exactly one `Reset` and starts a new attempt;
* `managed_not_terminal`, `retry_forever_run` — no deadlock per target, `n` further attempts.

Standing caveat as in `Props/C13.lean`: a proof about the protocol LTS.
-/
namespace Gnmi.C13Prog
open Gnmi.Manager Gnmi.Session Gnmi.C13

variable {env : Name → Nat → Attempt}

/-! ## Runs of one goroutine -/

/-- A run consisting of steps of the `retryMonitor` goroutine of instance `i` only, with the
monitor labels of the steps. -/
inductive MonRun (env : Name → Nat → Attempt) (i : Nat) : Cfg → List MLabel → Cfg → Prop
  | nil (c : Cfg) : MonRun env i c [] c
  | cons {c c'' : Cfg} {ml : MLabel} {I' : Inst} {mls : List MLabel} :
      MonStep (env (c.insts i).name (c.nextAtt (c.insts i).name)) (c.insts i) ml I' →
      MonRun env i (c.applyMon i ml I') mls c'' → MonRun env i c (ml :: mls) c''

/-- The callbacks among monitor labels. -/
def mlEv : MLabel → Option Ev
  | .cb e => some e
  | _ => none

/-- The callbacks made along a monitor run. -/
def evs (mls : List MLabel) : List Ev := mls.filterMap mlEv

@[simp] theorem evs_nil : evs [] = [] := rfl
@[simp] theorem evs_cons (ml : MLabel) (mls : List MLabel) :
    evs (ml :: mls) = (match ml with | .cb e => [e] | _ => []) ++ evs mls := by
  cases ml <;> rfl
theorem evs_append (a b : List MLabel) : evs (a ++ b) = evs a ++ evs b := by
  simp [evs, List.filterMap_append]

theorem run_append {c c₁ c₂ : Cfg} {a b : List Label} (h₁ : Run env c a c₁) (h₂ : Run env c₁ b c₂) :
    Run env c (a ++ b) c₂ := by
  induction h₁ with
  | nil => exact h₂
  | cons hs _ ih => exact .cons hs (ih h₂)

theorem MonRun.append {i : Nat} {c c₁ c₂ : Cfg} {a b : List MLabel} (h₁ : MonRun env i c a c₁)
    (h₂ : MonRun env i c₁ b c₂) : MonRun env i c (a ++ b) c₂ := by
  induction h₁ with
  | nil => exact h₂
  | cons hm _ ih => exact .cons hm (ih h₂)

@[simp] theorem applyMon_byPtr (c : Cfg) (i : Nat) (l : MLabel) (I' : Inst) :
    (c.applyMon i l I').byPtr = c.byPtr := by cases l <;> rfl

theorem applyMon_byName_mem (c : Cfg) (i : Nat) (l : MLabel) (I' : Inst) {m : Name}
    (h : m ∈ c.byName) : m ∈ (c.applyMon i l I').byName := by
  cases l <;> first | exact h | exact List.mem_cons_of_mem _ h

theorem applyMon_byName_of_ne (c : Cfg) (i : Nat) {l : MLabel} (I' : Inst) (hl : l ≠ .spawnRecon) :
    (c.applyMon i l I').byName = c.byName := by
  cases l <;> first | rfl | exact absurd rfl hl

/-- What a monitor run of instance `i` changes: nothing but instance `i` (whose name, receive
timeout flag and `cancelled` flag stay), the trace of its name (by the callbacks made), its script
position (by the attempts begun), and `byName` (grows by the deferred `Reconnect`). -/
theorem MonRun.facts {i : Nat} {c c' : Cfg} {mls : List MLabel} (h : MonRun env i c mls c') :
    c'.targets = c.targets ∧ c'.lock = c.lock ∧ c'.nInst = c.nInst ∧ c'.byPtr = c.byPtr ∧
    (∀ m, m ∈ c.byName → m ∈ c'.byName) ∧
    (c'.insts i).name = (c.insts i).name ∧ (c'.insts i).rt = (c.insts i).rt ∧
    (c'.insts i).cancelled = (c.insts i).cancelled ∧
    (∀ k, k ≠ i → c'.insts k = c.insts k) ∧
    c'.trace (c.insts i).name = c.trace (c.insts i).name ++ evs mls ∧
    c'.nextAtt (c.insts i).name = c.nextAtt (c.insts i).name + mls.count .begin_ ∧
    (∀ m, m ≠ (c.insts i).name → c'.trace m = c.trace m ∧ c'.nextAtt m = c.nextAtt m) := by
  induction h with
  | nil c => simp
  | @cons c c'' ml I' mls hm _ ih =>
    obtain ⟨h1, h2, h3, h4, h5, h6, h7, h8, h9, h10, h11, h12⟩ := ih
    have hI : (c.applyMon i ml I').insts i = I' := by simp
    rw [hI] at h6 h7 h8 h10 h11 h12
    rw [hm.name_eq] at h6 h10 h11 h12
    refine ⟨by simpa using h1, by simpa using h2, by simpa using h3, by simpa using h4,
      fun m hmem => h5 m (applyMon_byName_mem c i ml I' hmem), h6, h7.trans hm.rt_eq,
      h8.trans hm.cancelled_eq, ?_, ?_, ?_, ?_⟩
    · intro k hk
      rw [h9 k hk]; simp [upd_apply, hk]
    · rw [h10, applyMon_trace]
      cases ml <;> simp
    · rw [h11, applyMon_nextAtt]
      cases ml <;> simp <;> omega
    · intro m hne
      rw [(h12 m hne).1, (h12 m hne).2, applyMon_trace, applyMon_nextAtt]
      cases ml <;> simp [upd_apply, hne]

/-- A monitor run is a run of the LTS; its labels are the callbacks (`tau` otherwise). -/
theorem MonRun.toRun {i : Nat} {c c' : Cfg} {mls : List MLabel} (h : MonRun env i c mls c') :
    Run env c (mls.map (MLabel.toLabel (c.insts i).name)) c' := by
  induction h with
  | nil c => exact .nil c
  | @cons c c'' ml I' mls hm _ ih =>
    have hI : ((c.applyMon i ml I').insts i).name = (c.insts i).name := by
      simp [hm.name_eq]
    rw [hI] at ih
    exact .cons (.mon i hm) ih

/-! ## 1. An attempt is a finite path: `attempt_progress`, `next_attempt_reached` -/

/-- The session is over: the goroutine is in the retry loop past the end of a stream / a failed
attempt (`m.reset`, `m.connectError`, `m.monitorError` pending), or between two attempts (before
the loop; in the `select` on the retry timer). -/
def pcOver : Pc → Bool
  | .start | .timer | .reset _ _ | .connErr _ _ _ | .monErr _ _ _ => true
  | _ => false

/-- The attempt in progress (if any) cannot block in `Recv`: the session is over already, or its
context is cancelled (`Recv` fails: `MonStep.recvCancel`), or the scripted stream does not end in
silence. -/
def CanEnd (I : Inst) : Prop := pcOver I.pc = true ∨ I.ctxDone = true ∨ I.cur.ending ≠ .silence

theorem monStep_begin_timer {next : Attempt} {I I' : Inst} (h : MonStep next I .begin_ I') :
    I.pc = .timer := by
  cases h; assumption

theorem monStep_canEnd {next : Attempt} {I I' : Inst} {l : MLabel} (h : MonStep next I l I')
    (hl : l ≠ .begin_) (hc : I.cancelled = false) (he : CanEnd I) : CanEnd I' := by
  cases h <;> simp_all [CanEnd, pcOver, Inst.ctxDone, Inst.freshSub]

theorem CanEnd.not_waiting {I : Inst} (he : CanEnd I) : ¬ I.waiting := by
  rintro ⟨j, c, hp, _, hs, hd⟩
  rcases he with h | h | h
  · simp [hp, pcOver] at h
  · rw [hd] at h; cases h
  · exact h hs

/-- A goroutine blocked in `Recv` on a silent stream has no step. -/
theorem waiting_no_step {next : Attempt} {I : Inst} (hw : I.waiting) :
    ¬ ∃ l I', MonStep next I l I' := by
  obtain ⟨j, c, hp, hj, hs, hd⟩ := hw
  rintro ⟨l, I', h⟩
  cases h <;> simp_all
  omega

theorem MonRun.canEnd {i : Nat} {c c' : Cfg} {mls : List MLabel} (h : MonRun env i c mls c')
    (hb : MLabel.begin_ ∉ mls) (hc : (c.insts i).cancelled = false) (he : CanEnd (c.insts i)) :
    CanEnd (c'.insts i) := by
  induction h with
  | nil c => exact he
  | @cons c c'' ml I' mls hm _ ih =>
    have hne : ml ≠ .begin_ := fun e => hb (by rw [e]; exact List.mem_cons_self)
    apply ih (fun hmem => hb (List.mem_cons_of_mem _ hmem))
    · simp [hm.cancelled_eq, hc]
    · simpa using monStep_canEnd hm hne hc he

/-- While the target is managed and not being removed: its goroutine is at the retry timer, or
blocked in `Recv` on a silent stream, or it has a step which is not the start of a new attempt and
decreases the rank. -/
theorem progress_cases {c : Cfg} (h : Reach env c) {n : Name} {i : Nat} (ht : c.targets n = some i)
    (hl : c.lock ≠ some i) :
    (c.insts i).pc = .timer ∨ (c.insts i).waiting ∨
    ∃ ml I', MonStep (env (c.insts i).name (c.nextAtt (c.insts i).name)) (c.insts i) ml I' ∧
      ml ≠ .begin_ ∧ rank I' < rank (c.insts i) := by
  by_cases hp : (c.insts i).pc = .timer
  · exact .inl hp
  · right
    have ha := monitor_alive h ht hl
    have hnd : (c.insts i).pc ≠ .done := by
      intro hd; rw [hd] at ha; simp [Pc.exited] at ha
    rcases mon_enabled (env (c.insts i).name (c.nextAtt (c.insts i).name)) (pcCur_reach h i) hnd with
      ⟨ml, I', hm⟩ | hw
    · have hne : ml ≠ .begin_ := by
        intro e; subst e; exact hp (monStep_begin_timer hm)
      exact .inr ⟨ml, I', hm, hne, hm.rank_lt hne⟩
    · exact .inl hw

theorem attempt_progress_aux (r : Nat) : ∀ {c : Cfg}, Reach env c → ∀ {n : Name} {i : Nat},
    c.targets n = some i → c.lock ≠ some i → rank (c.insts i) ≤ r →
    ∃ mls c', MonRun env i c mls c' ∧ MLabel.begin_ ∉ mls ∧
      mls.length + rank (c'.insts i) ≤ rank (c.insts i) ∧
      ((c'.insts i).pc = .timer ∨ (c'.insts i).waiting) := by
  induction r with
  | zero =>
    intro c h n i ht hl hr
    rcases progress_cases h ht hl with hp | hw | ⟨ml, I', _, _, hlt⟩
    · exact ⟨[], c, .nil c, by simp, by simp, .inl hp⟩
    · exact ⟨[], c, .nil c, by simp, by simp, .inr hw⟩
    · omega
  | succ r ih =>
    intro c h n i ht hl hr
    rcases progress_cases h ht hl with hp | hw | ⟨ml, I', hm, hne, hlt⟩
    · exact ⟨[], c, .nil c, by simp, by simp, .inl hp⟩
    · exact ⟨[], c, .nil c, by simp, by simp, .inr hw⟩
    · have hs : Step env c _ _ := .mon i hm
      have hI : (c.applyMon i ml I').insts i = I' := by simp
      obtain ⟨mls, c', hrun, hb, hlen, hend⟩ :=
        ih (.step h hs) (n := n) (i := i) (by simpa using ht) (by simpa using hl) (by rw [hI]; omega)
      rw [hI] at hlen
      refine ⟨ml :: mls, c', .cons hm hrun, ?_, by simp; omega, hend⟩
      intro hmem
      cases hmem with
      | head => exact hne rfl
      | tail _ hmem => exact hb hmem

/-- **An attempt is a finite path.**  From every reachable configuration in which `n` is managed
and not being removed, at most `rank` steps of its own goroutine — none of them the start of a new
attempt, none needing `m.mu` — bring it to the retry timer (the attempt, if one was in progress,
is over: all its callbacks made) or into `Recv` on a silent stream with a live context. -/
theorem attempt_progress {c : Cfg} (h : Reach env c) {n : Name} {i : Nat} (ht : c.targets n = some i)
    (hl : c.lock ≠ some i) :
    ∃ mls c', MonRun env i c mls c' ∧ MLabel.begin_ ∉ mls ∧
      mls.length + rank (c'.insts i) ≤ rank (c.insts i) ∧
      ((c'.insts i).pc = .timer ∨ (c'.insts i).waiting) :=
  attempt_progress_aux _ h ht hl (Nat.le_refl _)

/-- The timer arm of the `select` as a one-step monitor run: the next scripted attempt starts, on a
live context (`timer_pending` in run form). -/
theorem timer_run {c : Cfg} (h : Reach env c) {n : Name} {i : Nat} (ht : c.targets n = some i)
    (hl : c.lock ≠ some i) (hp : (c.insts i).pc = .timer) :
    ∃ c', MonRun env i c [.begin_] c' ∧ (c'.insts i).pc = .gmeta ∧
      (c'.insts i).cur = env n (c.nextAtt n) ∧ (c'.insts i).ctxDone = false := by
  have ha := monitor_alive h ht hl
  have hn := ((inv_reach h).tgt n i ht).1
  have hm : MonStep (env (c.insts i).name (c.nextAtt (c.insts i).name)) (c.insts i) .begin_ _ :=
    .timerFire hp
  refine ⟨_, .cons hm (.nil _), ?_⟩
  simp only [Cfg.applyMon, upd_same, hn, true_and]
  split
  · simp [Inst.ctxDone, Inst.freshSub, ha.1]
  · next hd => simpa [Inst.ctxDone] using hd

/-- Everything a run "`pre` (no new attempt) then the timer arm" of the goroutine of the managed
instance `i` of `n` establishes, collected once. -/
structure NextAttempt (env : Name → Nat → Attempt) (c : Cfg) (n : Name) (i : Nat)
    (pre : List MLabel) (c' : Cfg) : Prop where
  /-- steps of that goroutine only, the last one the timer arm of the `select` -/
  run : MonRun env i c (pre ++ [MLabel.begin_]) c'
  noBegin : MLabel.begin_ ∉ pre
  /-- as a run of the LTS: labels are the callbacks of `n` and `tau` -/
  lts : Run env c ((pre ++ [MLabel.begin_]).map (MLabel.toLabel n)) c'
  reach : Reach env c'
  /-- the next attempt is at its first instruction (`monitor`: `gRPCMeta`, then `createConn`) -/
  pc : (c'.insts i).pc = .gmeta
  /-- it is the next entry of the script -/
  cur : (c'.insts i).cur = env n (c.nextAtt n)
  nextAtt : c'.nextAtt n = c.nextAtt n + 1
  /-- on a live context -/
  live : (c'.insts i).ctxDone = false
  managed : c'.targets n = some i
  lock : c'.lock = c.lock
  /-- the callbacks made on the way, and nothing else, were appended to the trace of `n` -/
  trace : c'.trace n = c.trace n ++ evs pre
  others : ∀ m, m ≠ n → c'.trace m = c.trace m ∧ c'.nextAtt m = c.nextAtt m
  frame : ∀ k, k ≠ i → c'.insts k = c.insts k
  rt : (c'.insts i).rt = (c.insts i).rt

theorem NextAttempt.mk' {c c₁ c' : Cfg} (h : Reach env c) {n : Name} {i : Nat} (ht : c.targets n = some i)
    {pre : List MLabel} (h₁ : MonRun env i c pre c₁) (hb : MLabel.begin_ ∉ pre)
    (h₂ : MonRun env i c₁ [.begin_] c') (hpc : (c'.insts i).pc = .gmeta)
    (hcur : (c'.insts i).cur = env n (c₁.nextAtt n)) (hlive : (c'.insts i).ctxDone = false) :
    NextAttempt env c n i pre c' := by
  have hn := ((inv_reach h).tgt n i ht).1
  have hrun := h₁.append h₂
  have f := hrun.facts
  have f₁ := h₁.facts
  rw [hn] at f f₁
  have hlts := hrun.toRun
  rw [hn] at hlts
  have hcnt : List.count MLabel.begin_ pre = 0 := List.count_eq_zero.mpr hb
  refine ⟨hrun, hb, hlts, reach_run h hlts, hpc, ?_, ?_, hlive, by rw [f.1]; exact ht, f.2.1, ?_,
    f.2.2.2.2.2.2.2.2.2.2.2, f.2.2.2.2.2.2.2.2.1, f.2.2.2.2.2.2.1⟩
  · rw [hcur, f₁.2.2.2.2.2.2.2.2.2.2.1, hcnt]; rfl
  · rw [f.2.2.2.2.2.2.2.2.2.2.1]; simp [List.count_append, hcnt]
  · rw [f.2.2.2.2.2.2.2.2.2.1, evs_append]; simp

/-- **`next_attempt_reached`.**  From every reachable configuration in which `n` is managed (and no
`Remove n` is under way) and whose attempt in progress cannot block (`CanEnd`: the session is over,
or the context is cancelled, or the scripted stream does not end in silence), a run of at most
`rank - 2 < rank + 1` steps **of the goroutine of that target alone** reaches the first
instruction of the next attempt: the script position advanced by one, the attempt is the next
script entry, its context is live; the trace of `n` grew by the callbacks made on the way, nothing
else changed but `byName`. -/
theorem next_attempt_reached {c : Cfg} (h : Reach env c) {n : Name} {i : Nat} (ht : c.targets n = some i)
    (hl : c.lock ≠ some i) (he : CanEnd (c.insts i)) :
    ∃ pre c', NextAttempt env c n i pre c' ∧ pre.length + 3 ≤ rank (c.insts i) := by
  obtain ⟨pre, c₁, hrun, hb, hlen, hend⟩ := attempt_progress h ht hl
  have ha := monitor_alive h ht hl
  have hn := ((inv_reach h).tgt n i ht).1
  have f := hrun.facts
  have hlts := hrun.toRun
  have hr₁ : Reach env c₁ := reach_run h hlts
  have ht₁ : c₁.targets n = some i := by rw [f.1]; exact ht
  have hl₁ : c₁.lock ≠ some i := by rw [f.2.1]; exact hl
  have hp₁ : (c₁.insts i).pc = .timer := by
    rcases hend with hp | hw
    · exact hp
    · exact absurd hw (hrun.canEnd hb ha.1 he).not_waiting
  obtain ⟨c', h₂, hpc, hcur, hlive⟩ := timer_run hr₁ ht₁ hl₁ hp₁
  refine ⟨pre, c', NextAttempt.mk' h ht hrun hb h₂ hpc hcur hlive, ?_⟩
  have : rank (c₁.insts i) = 3 := by simp [rank, hp₁]
  omega

/-- The literal reading: the session has ended (`pcOver`). -/
theorem next_attempt_reached_over {c : Cfg} (h : Reach env c) {n : Name} {i : Nat}
    (ht : c.targets n = some i) (hl : c.lock ≠ some i) (ho : pcOver (c.insts i).pc = true) :
    ∃ pre c', NextAttempt env c n i pre c' ∧ pre.length + 1 ≤ 4 :=
  have ⟨pre, c', hna, hlen⟩ := next_attempt_reached h ht hl (.inl ho)
  ⟨pre, c', hna, by
    have : rank (c.insts i) ≤ 6 := by
      cases hp : (c.insts i).pc <;> simp_all [rank, pcOver]
    omega⟩


/-! ## 2. Steps that belong to one target; a fired receive timeout forces exactly one `Reset` -/

/-- The steps of the LTS that belong to target instance `i`: a step of its `retryMonitor`
goroutine; its receive timer firing; a pending `m.Reconnect(name)` (issued by the timeout
goroutine, or by a `retryMonitor`'s `defer`) that resolves to this target at its lookup; a
`Reconnect` past its lookup, holding this `*target`, taking effect. -/
inductive OwnStep (env : Name → Nat → Attempt) (i : Nat) : Cfg → Label → Cfg → Prop
  | mon {c : Cfg} {ml : MLabel} {I' : Inst} :
      MonStep (env (c.insts i).name (c.nextAtt (c.insts i).name)) (c.insts i) ml I' →
      OwnStep env i c (ml.toLabel (c.insts i).name) (c.applyMon i ml I')
  | tmo {c : Cfg} (j : Nat) (cn : Bool) : (c.insts i).pc = .recv j cn → (c.insts i).tmoWaiting = true →
      OwnStep env i c .tau
        { c with insts := upd c.insts i { c.insts i with tmoWaiting := false },
                 byName := (c.insts i).name :: c.byName }
  | lookup {c : Cfg} (l₁ l₂ : List Name) : c.byName = l₁ ++ (c.insts i).name :: l₂ → c.lock = none →
      c.targets (c.insts i).name = some i →
      OwnStep env i c .tau { c with byName := l₁ ++ l₂, byPtr := i :: c.byPtr }
  | apply {c : Cfg} (l₁ l₂ : List Nat) : c.byPtr = l₁ ++ i :: l₂ →
      OwnStep env i c .tau { c with byPtr := l₁ ++ l₂, insts := upd c.insts i (c.insts i).applyRecon }

/-- Every such step is a step of the LTS. -/
theorem OwnStep.step {i : Nat} {c c' : Cfg} {l : Label} (h : OwnStep env i c l c') : Step env c l c' := by
  cases h with
  | mon hm => exact .mon i hm
  | tmo j cn hp hw => exact .tmoFire i j cn hp hw
  | lookup l₁ l₂ hb hl ht =>
    have := Step.byNameLookup (env := env) l₁ l₂ _ hb hl
    rw [ht] at this
    exact this
  | apply l₁ l₂ hb => exact .reconApply l₁ l₂ i hb

/-- Runs made of steps that belong to target instance `i`. -/
inductive OwnRun (env : Name → Nat → Attempt) (i : Nat) : Cfg → List Label → Cfg → Prop
  | nil (c : Cfg) : OwnRun env i c [] c
  | cons {c c' c'' : Cfg} {l : Label} {ls : List Label} :
      OwnStep env i c l c' → OwnRun env i c' ls c'' → OwnRun env i c (l :: ls) c''

theorem OwnRun.toRun {i : Nat} {c c' : Cfg} {ls : List Label} (h : OwnRun env i c ls c') :
    Run env c ls c' := by
  induction h with
  | nil c => exact .nil c
  | cons hs _ ih => exact .cons hs.step ih

theorem OwnRun.append {i : Nat} {c c₁ c₂ : Cfg} {a b : List Label} (h₁ : OwnRun env i c a c₁)
    (h₂ : OwnRun env i c₁ b c₂) : OwnRun env i c (a ++ b) c₂ := by
  induction h₁ with
  | nil => exact h₂
  | cons hs _ ih => exact .cons hs (ih h₂)

theorem MonRun.toOwn {i : Nat} {c c' : Cfg} {mls : List MLabel} (h : MonRun env i c mls c') :
    OwnRun env i c (mls.map (MLabel.toLabel (c.insts i).name)) c' := by
  induction h with
  | nil c => exact .nil c
  | @cons c c'' ml I' mls hm _ ih =>
    have hI : ((c.applyMon i ml I').insts i).name = (c.insts i).name := by
      simp [hm.name_eq]
    rw [hI] at ih
    exact .cons (.mon hm) ih

/-- `c'` agrees with `c` on everything the callbacks and the attempt counter of `n` and the
control state of its instance `i` depend on (what may differ: the pools of pending `Reconnect`s,
the flags `subCancelled` / `reconSet` / `tmoWaiting` of `i`, other targets, the lock). -/
structure SameBut (n : Name) (i : Nat) (c c' : Cfg) : Prop where
  targets : c'.targets n = c.targets n
  trace : c'.trace n = c.trace n
  nextAtt : c'.nextAtt n = c.nextAtt n
  pc : (c'.insts i).pc = (c.insts i).pc
  cur : (c'.insts i).cur = (c.insts i).cur
  rt : (c'.insts i).rt = (c.insts i).rt
  /-- a cancelled context stays cancelled -/
  done : (c.insts i).ctxDone = true → (c'.insts i).ctxDone = true

theorem SameBut.refl (n : Name) (i : Nat) (c : Cfg) : SameBut n i c c :=
  ⟨rfl, rfl, rfl, rfl, rfl, rfl, id⟩

theorem SameBut.trans {n : Name} {i : Nat} {c c₁ c₂ : Cfg} (h₁ : SameBut n i c c₁)
    (h₂ : SameBut n i c₁ c₂) : SameBut n i c c₂ :=
  ⟨h₂.targets.trans h₁.targets, h₂.trace.trans h₁.trace, h₂.nextAtt.trans h₁.nextAtt,
   h₂.pc.trans h₁.pc, h₂.cur.trans h₁.cur, h₂.rt.trans h₁.rt, fun h => h₂.done (h₁.done h)⟩

/-- Stage 1: the receive timer, armed, fires; the timeout goroutine heads for `m.Reconnect(name)`. -/
theorem tmo_stage {c : Cfg} {i j : Nat} {cn : Bool} (hp : (c.insts i).pc = .recv j cn)
    (hw : (c.insts i).tmoWaiting = true) (n : Name) :
    ∃ c', OwnStep env i c .tau c' ∧ SameBut n i c c' ∧ (c.insts i).name ∈ c'.byName ∧ c'.lock = c.lock := by
  refine ⟨_, .tmo j cn hp hw, ⟨rfl, rfl, rfl, by simp, by simp, by simp, ?_⟩, List.mem_cons_self, rfl⟩
  simp [Inst.ctxDone]

/-- Stage 2: with `m.mu` free, a pending `m.Reconnect(n)` finds the target. -/
theorem lookup_stage {c : Cfg} (h : Reach env c) {n : Name} {i : Nat} (ht : c.targets n = some i)
    (hb : n ∈ c.byName) (hl : c.lock = none) :
    ∃ c', OwnStep env i c .tau c' ∧ SameBut n i c c' ∧ i ∈ c'.byPtr ∧ c'.lock = c.lock := by
  have hn := ((inv_reach h).tgt n i ht).1
  obtain ⟨l₁, l₂, hd⟩ := List.append_of_mem hb
  refine ⟨_, .lookup l₁ l₂ (by rw [hn]; exact hd) hl (by rw [hn]; exact ht),
    ⟨rfl, rfl, rfl, rfl, rfl, rfl, id⟩, List.mem_cons_self, rfl⟩

/-- Stage 3: a `Reconnect` holding the `*target` takes effect: the context of the attempt in
progress is cancelled (`reconnect_effective`). -/
theorem apply_stage {c : Cfg} (h : Reach env c) {i : Nat} (hb : i ∈ c.byPtr)
    (hp : (c.insts i).pc ≠ .start) (n : Name) :
    ∃ c', OwnStep env i c .tau c' ∧ SameBut n i c c' ∧ (c'.insts i).ctxDone = true ∧ c'.lock = c.lock := by
  obtain ⟨l₁, l₂, hd⟩ := List.append_of_mem hb
  have he := reconnect_effective h i hp
  refine ⟨_, .apply l₁ l₂ hd, ⟨rfl, rfl, rfl, ?_, ?_, ?_, ?_⟩, by simpa using he, rfl⟩
  · simp [Inst.applyRecon_pc]
  · simp [Inst.applyRecon_cur]
  · simp only [upd_same]; unfold Inst.applyRecon; split <;> rfl
  · intro _; simpa using he

/-- `Recv` fails once its context is cancelled; then `m.reset`, `m.connectError`,
`m.monitorError`: four steps of the goroutine to the retry timer. -/
theorem cancel_run {c : Cfg} {i j : Nat} {cn : Bool} (hp : (c.insts i).pc = .recv j cn)
    (hd : (c.insts i).ctxDone = true) :
    ∃ c', MonRun env i c [.tau, .cb .reset, .cb .connectError, .cb .monitorError] c' ∧
      (c'.insts i).pc = .timer := by
  have one : ∀ {c : Cfg} {ml : MLabel} {I' : Inst},
      MonStep (env (c.insts i).name (c.nextAtt (c.insts i).name)) (c.insts i) ml I' →
      MonRun env i c [ml] (c.applyMon i ml I') ∧ (c.applyMon i ml I').insts i = I' :=
    fun hm => ⟨.cons hm (.nil _), by simp⟩
  obtain ⟨r1, e1⟩ := one (MonStep.recvCancel hp hd)
  obtain ⟨r2, e2⟩ := one (MonStep.resetCb (j := j) (c := cn) (by rw [e1]))
  obtain ⟨r3, e3⟩ := one (MonStep.connErrCb (j := j) (c := cn) (r := true) (by rw [e2]))
  obtain ⟨r4, e4⟩ := one (MonStep.monErrCb (j := j) (c := cn) (r := true) (by rw [e3]))
  exact ⟨_, r1.append (r2.append (r3.append r4)), by rw [e4]⟩

/-- The callbacks between a cancelled `Recv` and the next attempt. -/
def cancelPre : List MLabel := [.tau, .cb .reset, .cb .connectError, .cb .monitorError]

theorem evs_cancelPre : evs cancelPre = [.reset, .connectError, .monitorError] := rfl

/-- A `Recv` whose context is cancelled (forced `Reconnect`, receive timeout): five steps of the
goroutine alone end the stream with exactly one `Reset` callback, then `ConnectError`,
`MonitorError`, and start the next scripted attempt on a fresh context. -/
theorem recv_cancelled_reset {c : Cfg} (h : Reach env c) {n : Name} {i : Nat} (ht : c.targets n = some i)
    (hl : c.lock ≠ some i) {j : Nat} {cn : Bool} (hp : (c.insts i).pc = .recv j cn)
    (hd : (c.insts i).ctxDone = true) :
    ∃ c', NextAttempt env c n i cancelPre c' ∧
      c'.trace n = c.trace n ++ [.reset, .connectError, .monitorError] := by
  obtain ⟨c₁, hrun, hp₁⟩ := cancel_run (env := env) hp hd
  have f := hrun.facts
  have hr₁ : Reach env c₁ := reach_run h hrun.toRun
  have ht₁ : c₁.targets n = some i := by rw [f.1]; exact ht
  have hl₁ : c₁.lock ≠ some i := by rw [f.2.1]; exact hl
  obtain ⟨c', h₂, hpc, hcur, hlive⟩ := timer_run hr₁ ht₁ hl₁ hp₁
  have hna := NextAttempt.mk' h ht hrun (by decide) h₂ hpc hcur hlive
  exact ⟨c', hna, by rw [hna.trace]; rfl⟩


/-! ### `m.mu` held by a `Remove` of another target is released without touching this one -/

theorem remove_wait_run (r : Nat) : ∀ {c : Cfg}, Reach env c → ∀ {k : Nat}, c.lock = some k →
    rank (c.insts k) ≤ r → ∃ mls c', MonRun env k c mls c' ∧ (c'.insts k).finished = true := by
  induction r with
  | zero =>
    intro c h k hl hr
    cases hf : (c.insts k).finished with
    | true => exact ⟨[], c, .nil c, hf⟩
    | false =>
      obtain ⟨ml, I', _, _, hlt⟩ := remove_wait_enabled h hl hf
      omega
  | succ r ih =>
    intro c h k hl hr
    cases hf : (c.insts k).finished with
    | true => exact ⟨[], c, .nil c, hf⟩
    | false =>
      obtain ⟨ml, I', hm, _, hlt⟩ := remove_wait_enabled h hl hf
      have hs : Step env c _ _ := .mon k hm
      have hI : (c.applyMon k ml I').insts k = I' := by simp
      obtain ⟨mls, c', hrun, hfin⟩ := ih (.step h hs) (k := k) (by simpa using hl) (by rw [hI]; omega)
      exact ⟨ml :: mls, c', .cons hm hrun, hfin⟩

/-- Whoever holds `m.mu` (a `Remove` of another target waiting for its goroutine) releases it:
a run of steps of *that other* goroutine and the return of that `Remove`, which leaves instance
`i`, the trace and the script position of `n` and the pending `Reconnect`s alone.  (Nothing to do
when the lock is free.) -/
theorem release_lock {c : Cfg} (h : Reach env c) {n : Name} {i : Nat} (ht : c.targets n = some i)
    (hl : c.lock ≠ some i) :
    ∃ ls c', Run env c ls c' ∧ c'.lock = none ∧ SameBut n i c c' ∧ c'.insts i = c.insts i ∧
      (∀ m, m ∈ c.byName → m ∈ c'.byName) ∧ c'.byPtr = c.byPtr ∧ (c.lock = none → ls = [] ∧ c' = c) := by
  cases hlk : c.lock with
  | none => exact ⟨[], c, .nil c, hlk, SameBut.refl n i c, rfl, fun _ hm => hm, rfl, fun _ => ⟨rfl, rfl⟩⟩
  | some k =>
    have hki : i ≠ k := by intro e; subst e; exact hl hlk
    have hi := inv_reach h
    have hnk : n ≠ (c.insts k).name := by
      intro e
      have := (hi.lck k hlk).1
      rw [← e, ht] at this
      cases this; exact hki rfl
    obtain ⟨mls, c₁, hrun, hfin⟩ := remove_wait_run _ h hlk (Nat.le_refl _)
    obtain ⟨f1, f2, _, f4, f5, f6, _, _, f9, _, _, f12⟩ := hrun.facts
    have hlk₁ : c₁.lock = some k := by rw [f2]; exact hlk
    have hend : Step env c₁ _ _ := .removeEnd k hlk₁ hfin
    have hI : c₁.insts i = c.insts i := f9 i hki
    refine ⟨_, _, run_append hrun.toRun (.cons hend (.nil _)), rfl, ⟨?_, ?_, ?_, ?_, ?_, ?_, ?_⟩, hI,
      f5, f4, fun e => by cases e⟩
    · simp only [upd_apply, f6, if_neg hnk, f1]
    · exact (f12 n hnk).1
    · exact (f12 n hnk).2
    · simp only [hI]
    · simp only [hI]
    · simp only [hI]
    · simp only [hI]; exact id

/-! ### The composed theorems -/

/-- What "the stream is ended by exactly one `Reset` and a new attempt starts" means for a run
`ls` from `c` to `c'`. -/
structure ResetNext (env : Name → Nat → Attempt) (c : Cfg) (n : Name) (i : Nat)
    (ls : List Label) (c' : Cfg) : Prop where
  lts : Run env c ls c'
  /-- with `m.mu` free at the start, every step of the run belongs to this target -/
  own : c.lock = none → OwnRun env i c ls c'
  reach : Reach env c'
  /-- between `c` and `c'` the callbacks of `n` are exactly: one `Reset`, `ConnectError`,
  `MonitorError` -/
  trace : c'.trace n = c.trace n ++ [.reset, .connectError, .monitorError]
  /-- the next attempt is at its first instruction … -/
  pc : (c'.insts i).pc = .gmeta
  /-- … it is the next entry of the script … -/
  cur : (c'.insts i).cur = env n (c.nextAtt n)
  nextAtt : c'.nextAtt n = c.nextAtt n + 1
  /-- … on a live context; the target is still managed -/
  live : (c'.insts i).ctxDone = false
  managed : c'.targets n = some i
  unlocked : c'.lock ≠ some i
  rt : (c'.insts i).rt = (c.insts i).rt

/-- Prefix a run that leaves the target alone. -/
theorem ResetNext.prepend {c c₁ c' : Cfg} {n : Name} {i : Nat} {a b : List Label}
    (hrun : Run env c a c₁) (hown : c.lock = none → OwnRun env i c a c₁ ∧ c₁.lock = none)
    (hs : SameBut n i c c₁) (h : ResetNext env c₁ n i b c') : ResetNext env c n i (a ++ b) c' :=
  ⟨run_append hrun h.lts, fun hl => (hown hl).1.append (h.own (hown hl).2), h.reach,
   by rw [h.trace, hs.trace], h.pc, by rw [h.cur, hs.nextAtt], by rw [h.nextAtt, hs.nextAtt],
   h.live, h.managed, h.unlocked, h.rt.trans hs.rt⟩

theorem ResetNext.ofOwnStep {c c₁ c' : Cfg} {n : Name} {i : Nat} {b : List Label}
    (hstep : OwnStep env i c .tau c₁) (hlk : c₁.lock = c.lock)
    (hs : SameBut n i c c₁) (h : ResetNext env c₁ n i b c') : ResetNext env c n i (.tau :: b) c' :=
  ResetNext.prepend (a := [.tau]) (.cons hstep.step (.nil _))
    (fun hl => ⟨.cons hstep (.nil _), by rw [hlk]; exact hl⟩) hs h

/-- Stage 4 on: the context of a `Recv` in progress is cancelled. -/
theorem cancelled_forces_reset {c : Cfg} (h : Reach env c) {n : Name} {i : Nat} (ht : c.targets n = some i)
    (hl : c.lock ≠ some i) {j : Nat} {cn : Bool} (hp : (c.insts i).pc = .recv j cn)
    (hd : (c.insts i).ctxDone = true) :
    ∃ ls c', ResetNext env c n i ls c' ∧ ls.length = 5 := by
  obtain ⟨c', hna, htr⟩ := recv_cancelled_reset h ht hl hp hd
  have hn := ((inv_reach h).tgt n i ht).1
  refine ⟨_, c', ⟨hna.lts, fun _ => ?_, hna.reach, htr, hna.pc, hna.cur, hna.nextAtt, hna.live,
    hna.managed, by rw [hna.lock]; exact hl, hna.rt⟩, by simp [cancelPre]⟩
  have := hna.run.toOwn
  rw [hn] at this
  exact this

/-- Stage 3 on: a `Reconnect` past its lookup holds the `*target` while `Recv` is in progress. -/
theorem reconnect_held_forces_reset {c : Cfg} (h : Reach env c) {n : Name} {i : Nat}
    (ht : c.targets n = some i) (hl : c.lock ≠ some i) {j : Nat} {cn : Bool}
    (hp : (c.insts i).pc = .recv j cn) (hb : i ∈ c.byPtr) :
    ∃ ls c', ResetNext env c n i ls c' ∧ ls.length = 6 := by
  obtain ⟨c₁, hstep, hs, hd, hlk⟩ := apply_stage h hb (by rw [hp]; simp) n
  obtain ⟨ls, c', hrn, hlen⟩ := cancelled_forces_reset (.step h hstep.step) (n := n) (i := i)
    (by rw [hs.targets]; exact ht) (by rw [hlk]; exact hl) (j := j) (cn := cn) (by rw [hs.pc]; exact hp) hd
  exact ⟨_, c', .ofOwnStep hstep hlk hs hrn, by simp [hlen]⟩

/-- **A forced `Reconnect` takes effect.**  Stage 2 on: an `m.Reconnect(n)` is pending (issued by
the timeout goroutine, or by anybody) while `Recv` is in progress.  Some run ends the stream with
exactly one `Reset` and starts the next attempt; if `m.mu` is free the run consists of 7 steps that
all belong to this target; otherwise (a `Remove` of *another* target holds `m.mu`) that `Remove` is
first let return (`release_lock`). -/
theorem reconnect_forces_reset {c : Cfg} (h : Reach env c) {n : Name} {i : Nat}
    (ht : c.targets n = some i) (hl : c.lock ≠ some i) {j : Nat} {cn : Bool}
    (hp : (c.insts i).pc = .recv j cn) (hb : n ∈ c.byName) :
    ∃ ls c', ResetNext env c n i ls c' ∧ (c.lock = none → ls.length = 7) := by
  obtain ⟨l₀, c₀, hrun₀, hlk₀, hs₀, hI₀, hbn₀, _, hnone⟩ := release_lock h ht hl
  have hr₀ := reach_run h hrun₀
  have ht₀ : c₀.targets n = some i := by rw [hs₀.targets]; exact ht
  obtain ⟨c₁, hstep, hs, hbp, hlk⟩ := lookup_stage hr₀ ht₀ (hbn₀ n hb) hlk₀
  obtain ⟨ls, c', hrn, hlen⟩ := reconnect_held_forces_reset (.step hr₀ hstep.step) (n := n) (i := i)
    (by rw [hs.targets]; exact ht₀) (by rw [hlk, hlk₀]; simp) (j := j) (cn := cn)
    (by rw [hs.pc, hs₀.pc]; exact hp) hbp
  refine ⟨_, c', .prepend hrun₀ (fun e => ?_) hs₀ (.ofOwnStep hstep hlk hs hrn), ?_⟩
  · obtain ⟨e1, e2⟩ := hnone e
    subst e2; subst e1
    exact ⟨.nil _, e⟩
  · intro e
    obtain ⟨e1, _⟩ := hnone e
    subst e1
    simp [hlen]

/-- **`timeout_forces_reset`.**  The target is managed (no `Remove n` under way), its goroutine
is in `Recv` and the receive timer is armed (`ta.receiveTimeout > 0`, the timeout goroutine waits).
Then the timer can fire, and from there on some run leads to **exactly one `Reset` callback**
(followed by `ConnectError`, `MonitorError`: the trace of `n` grows by exactly these three) and to
the first instruction of **the next scripted attempt**, on a fresh live context, the target still
managed.  If `m.mu` is free the run consists of 8 steps that all belong to this target
(`tmoFire`, the lookup and the effect of the timeout goroutine's `m.Reconnect`, `recvCancel`,
`resetCb`, `connErrCb`, `monErrCb`, `timerFire`); if a `Remove` of another target holds `m.mu`,
the run lets it return in between (the timeout goroutine needs `m.mu` for its lookup).
No other thread can prevent this: see `recon_pending_stable`. -/
theorem timeout_forces_reset {c : Cfg} (h : Reach env c) {n : Name} {i : Nat}
    (ht : c.targets n = some i) (hl : c.lock ≠ some i) {j : Nat} {cn : Bool}
    (hp : (c.insts i).pc = .recv j cn) (hw : (c.insts i).tmoWaiting = true) :
    ∃ ls c', ResetNext env c n i ls c' ∧ (c.lock = none → ls.length = 8) := by
  have hn := ((inv_reach h).tgt n i ht).1
  obtain ⟨c₁, hstep, hs, hb, hlk⟩ := tmo_stage (env := env) hp hw n
  rw [hn] at hb
  obtain ⟨ls, c', hrn, hlen⟩ := reconnect_forces_reset (.step h hstep.step) (n := n) (i := i)
    (by rw [hs.targets]; exact ht) (by rw [hlk]; exact hl) (j := j) (cn := cn) (by rw [hs.pc]; exact hp) hb
  exact ⟨_, c', .ofOwnStep hstep hlk hs hrn, fun e => by simp [hlen (hlk.trans e)]⟩


/-! ### No other thread can prevent it -/

/-- A cancellation of the current sub-context of instance `i` of `n` is under way or done: an
`m.Reconnect(n)` before its lookup, a `Reconnect` holding the `*target`, or the context cancelled. -/
def ReconPending (c : Cfg) (n : Name) (i : Nat) : Prop :=
  n ∈ c.byName ∨ i ∈ c.byPtr ∨ (c.insts i).ctxDone = true

theorem monStep_ctxDone {next : Attempt} {I I' : Inst} {l : MLabel} (h : MonStep next I l I')
    (hl : l ≠ .begin_) (hp : I.pc ≠ .start) : I'.ctxDone = I.ctxDone := by
  cases h <;> simp_all [Inst.ctxDone]

theorem mem_of_mem_append_cons {α : Type} {a b : α} {l₁ l₂ : List α} (h : a ∈ l₁ ++ b :: l₂) (hne : a ≠ b) :
    a ∈ l₁ ++ l₂ := by
  simp only [List.mem_append, List.mem_cons] at h ⊢
  rcases h with h | h | h
  · exact .inl h
  · exact absurd h hne
  · exact .inr h

/-- **Stability.**  Once the receive timeout has fired (or a `Reconnect` was issued in any other
way) for a managed target whose goroutine is past its first instruction, *no step of any thread*
— other targets' goroutines, `Add` / `Remove` / `Reconnect` callers, other timeouts, and the
target's own goroutine short of starting its next attempt — undoes it: the cancellation stays
under way (`byName` → `byPtr` → context cancelled) until the goroutine itself starts the next
attempt at the retry timer.  Each stage's own step is enabled (`lookup_stage` once `m.mu` is free,
which `release_lock` brings about; `apply_stage`; `recv_cancelled_reset`). -/
theorem recon_pending_stable {c c' : Cfg} {l : Label} (h : Reach env c) (hs : Step env c l c')
    {n : Name} {i : Nat} (ht : c.targets n = some i) (hp : (c.insts i).pc ≠ .start)
    (hpend : ReconPending c n i) :
    ReconPending c' n i ∨
    ((c.insts i).pc = .timer ∧ (c'.insts i).pc = .gmeta ∧ c'.nextAtt n = c.nextAtt n + 1) := by
  have hi := inv_reach h
  have hn := (hi.tgt n i ht).1
  have hlt := (hi.tgt n i ht).2
  cases hs with
  | @mon k ml I' hm =>
    by_cases hk : k = i
    · subst hk
      by_cases hb : ml = .begin_
      · subst hb
        right
        refine ⟨monStep_begin_timer hm, ?_, ?_⟩
        · cases hm; simp
        · simp [Cfg.applyMon, hn]
      · left
        rcases hpend with h1 | h1 | h1
        · exact .inl (applyMon_byName_mem _ _ _ _ h1)
        · exact .inr (.inl (by simpa using h1))
        · exact .inr (.inr (by simp [monStep_ctxDone hm hb hp, h1]))
    · left
      have hk' : i ≠ k := fun e => hk e.symm
      rcases hpend with h1 | h1 | h1
      · exact .inl (applyMon_byName_mem _ _ _ _ h1)
      · exact .inr (.inl (by simpa using h1))
      · exact .inr (.inr (by simpa [upd_apply, hk'] using h1))
  | add n' rt hl' ht' =>
    left
    have hne : i ≠ c.nInst := Nat.ne_of_lt hlt
    rcases hpend with h1 | h1 | h1
    · exact .inl h1
    · exact .inr (.inl h1)
    · exact .inr (.inr (by simpa [upd_apply, hne] using h1))
  | addDup n' i' hl' ht' => exact .inl hpend
  | addInvalid n' => exact .inl hpend
  | removeBegin n' i' hl' ht' =>
    left
    rcases hpend with h1 | h1 | h1
    · exact .inl h1
    · exact .inr (.inl h1)
    · refine .inr (.inr ?_)
      simp only [upd_apply]
      split
      · simp [Inst.ctxDone]
      · exact h1
  | removeUnknown n' hl' ht' => exact .inl hpend
  | removeEnd i' hl' hf =>
    left
    rcases hpend with h1 | h1 | h1
    · exact .inl h1
    · exact .inr (.inl h1)
    · exact .inr (.inr h1)
  | reconnectLookup n' i' hl' ht' =>
    left
    rcases hpend with h1 | h1 | h1
    · exact .inl h1
    · exact .inr (.inl (List.mem_cons_of_mem _ h1))
    · exact .inr (.inr h1)
  | reconnectUnknown n' hl' ht' => exact .inl hpend
  | byNameLookup l₁ l₂ n' hb hl' =>
    left
    rcases hpend with h1 | h1 | h1
    · by_cases hnn : n = n'
      · subst hnn
        refine .inr (.inl ?_)
        simp only [ht]; exact List.mem_cons_self
      · rw [hb] at h1
        exact .inl (mem_of_mem_append_cons h1 hnn)
    · refine .inr (.inl ?_)
      simp only
      split
      · exact List.mem_cons_of_mem _ h1
      · exact h1
    · exact .inr (.inr h1)
  | reconApply l₁ l₂ i' hb =>
    left
    by_cases hii : i = i'
    · subst hii
      exact .inr (.inr (by simpa using reconnect_effective h i hp))
    · rcases hpend with h1 | h1 | h1
      · exact .inl h1
      · rw [hb] at h1
        exact .inr (.inl (mem_of_mem_append_cons h1 hii))
      · exact .inr (.inr (by simpa [upd_apply, hii] using h1))
  | tmoFire i' j cn hp' hw =>
    left
    rcases hpend with h1 | h1 | h1
    · exact .inl (List.mem_cons_of_mem _ h1)
    · exact .inr (.inl h1)
    · refine .inr (.inr ?_)
      simp only [upd_apply]
      split
      · next e => subst e; simpa [Inst.ctxDone] using h1
      · exact h1

/-- The starting condition of `timeout_forces_reset` is stable too: while the goroutine is in
`Recv` with the receive timer armed, a step of any thread leaves it so, unless it is the timer
firing (then the timeout goroutine's `m.Reconnect` is pending: `recon_pending_stable` takes over)
or a step of the goroutine itself (`Recv` returned). -/
theorem timeout_armed_stable {c c' : Cfg} {l : Label} (h : Reach env c) (hs : Step env c l c')
    {i j : Nat} {cn : Bool} (hp : (c.insts i).pc = .recv j cn) (hw : (c.insts i).tmoWaiting = true) :
    ((c'.insts i).pc = .recv j cn ∧ (c'.insts i).tmoWaiting = true) ∨
    ((c'.insts i).pc = .recv j cn ∧ (c.insts i).name ∈ c'.byName) ∨
    (∃ ml, MonStep (env (c.insts i).name (c.nextAtt (c.insts i).name)) (c.insts i) ml (c'.insts i)) := by
  cases hs with
  | @mon k ml I' hm =>
    by_cases hk : i = k
    · subst hk; exact .inr (.inr ⟨ml, by simpa using hm⟩)
    · exact .inl (by simp [upd_apply, hk, hp, hw])
  | add n' rt hl' ht' =>
    have hne : i ≠ c.nInst := by
      intro e
      have := (inv_reach h).fresh i (by omega)
      rw [this] at hp; cases hp
    exact .inl (by simp [upd_apply, hne, hp, hw])
  | removeBegin n' i' hl' ht' =>
    left
    simp only [upd_apply]
    split
    · next e => subst e; exact ⟨hp, hw⟩
    · exact ⟨hp, hw⟩
  | reconApply l₁ l₂ i' hb =>
    left
    simp only [upd_apply]
    split
    · next e =>
      subst e
      refine ⟨by rw [Inst.applyRecon_pc]; exact hp, ?_⟩
      unfold Inst.applyRecon; split <;> exact hw
    · exact ⟨hp, hw⟩
  | tmoFire i' j' cn' hp' hw' =>
    by_cases hii : i = i'
    · subst hii
      exact .inr (.inl ⟨by simpa using hp, List.mem_cons_self⟩)
    · exact .inl (by simp [upd_apply, hii, hp, hw])
  | _ => exact .inl ⟨hp, hw⟩

/-! ### The receive timeout is armed whenever it is needed -/

def pcRecv : Pc → Bool
  | .recv _ _ | .got _ _ => true
  | _ => false

/-- For a target with a receive timeout, while `handleUpdates` runs: the timeout goroutine still
waits (so the timer is armed whenever the goroutine is in `Recv`), or it has fired and its
`m.Reconnect` is on its way, or the context is cancelled already. -/
def TmoOK (c : Cfg) (i : Nat) : Prop :=
  (c.insts i).rt = true → pcRecv (c.insts i).pc = true →
    (c.insts i).tmoWaiting = true ∨ ((c.insts i).name ∈ c.byName ∨ i ∈ c.byPtr) ∨
      (c.insts i).ctxDone = true

theorem monStep_tmoOK {next : Attempt} {I I' : Inst} {l : MLabel} {P : Prop} (h : MonStep next I l I')
    (ih : I.rt = true → pcRecv I.pc = true → I.tmoWaiting = true ∨ P ∨ I.ctxDone = true) :
    I'.rt = true → pcRecv I'.pc = true → I'.tmoWaiting = true ∨ P ∨ I'.ctxDone = true := by
  cases h <;> simp_all [pcRecv, Inst.ctxDone]

theorem pcRecv_not_gone {pc : Pc} (h : pcRecv pc = true) : pc.gone = false ∧ pc ≠ .start := by
  cases pc <;> simp_all [pcRecv, Pc.gone]

theorem tmoOK_step {c c' : Cfg} {l : Label} (h : Reach env c) (hs : Step env c l c') {i : Nat}
    (ih : TmoOK c i) : TmoOK c' i := by
  have hi := inv_reach h
  cases hs with
  | @mon k ml I' hm =>
    by_cases hk : k = i
    · subst hk
      intro hrt hpc
      simp only [applyMon_insts, upd_same] at hrt hpc ⊢
      rcases monStep_tmoOK hm ih hrt hpc with h1 | (h1 | h1) | h1
      · exact .inl h1
      · exact .inr (.inl (.inl (by rw [hm.name_eq]; exact applyMon_byName_mem _ _ _ _ h1)))
      · exact .inr (.inl (.inr (by simpa using h1)))
      · exact .inr (.inr h1)
    · have hk' : i ≠ k := fun e => hk e.symm
      intro hrt hpc
      simp only [applyMon_insts, upd_apply, if_neg hk'] at hrt hpc ⊢
      rcases ih hrt hpc with h1 | (h1 | h1) | h1
      · exact .inl h1
      · exact .inr (.inl (.inl (applyMon_byName_mem _ _ _ _ h1)))
      · exact .inr (.inl (.inr (by simpa using h1)))
      · exact .inr (.inr h1)
  | add n' rt hl' ht' =>
    intro hrt hpc
    simp only [upd_apply] at hrt hpc ⊢
    split at hpc
    · simp [pcRecv] at hpc
    · next hne => simp only [if_neg hne] at hrt ⊢; exact ih hrt hpc
  | addDup n' i' hl' ht' => exact ih
  | addInvalid n' => exact ih
  | removeBegin n' i' hl' ht' =>
    intro hrt hpc
    simp only [upd_apply] at hrt hpc ⊢
    split
    · exact .inr (.inr (by simp [Inst.ctxDone]))
    · next hne => simp only [if_neg hne] at hrt hpc; exact ih hrt hpc
  | removeUnknown n' hl' ht' => exact ih
  | removeEnd i' hl' hf => exact ih
  | reconnectLookup n' i' hl' ht' =>
    intro hrt hpc
    rcases ih hrt hpc with h1 | (h1 | h1) | h1
    · exact .inl h1
    · exact .inr (.inl (.inl h1))
    · exact .inr (.inl (.inr (List.mem_cons_of_mem _ h1)))
    · exact .inr (.inr h1)
  | reconnectUnknown n' hl' ht' => exact ih
  | byNameLookup l₁ l₂ n' hb hl' =>
    intro hrt hpc
    simp only at hrt hpc ⊢
    have hreg := hi.reg i (pcRecv_not_gone hpc).1
    rcases ih hrt hpc with h1 | (h1 | h1) | h1
    · exact .inl h1
    · by_cases hnn : (c.insts i).name = n'
      · subst hnn
        refine .inr (.inl (.inr ?_))
        simp only [hreg]; exact List.mem_cons_self
      · rw [hb] at h1
        exact .inr (.inl (.inl (mem_of_mem_append_cons h1 hnn)))
    · refine .inr (.inl (.inr ?_))
      split
      · exact List.mem_cons_of_mem _ h1
      · exact h1
    · exact .inr (.inr h1)
  | reconApply l₁ l₂ i' hb =>
    intro hrt hpc
    simp only [upd_apply] at hrt hpc ⊢
    by_cases hii : i = i'
    · subst hii
      simp only [if_true, Inst.applyRecon_pc] at hpc ⊢
      exact .inr (.inr (reconnect_effective h i (pcRecv_not_gone hpc).2))
    · simp only [if_neg hii] at hrt hpc ⊢
      rcases ih hrt hpc with h1 | (h1 | h1) | h1
      · exact .inl h1
      · exact .inr (.inl (.inl h1))
      · rw [hb] at h1
        exact .inr (.inl (.inr (mem_of_mem_append_cons h1 hii)))
      · exact .inr (.inr h1)
  | tmoFire i' j cn hp' hw =>
    intro hrt hpc
    simp only [upd_apply] at hrt hpc ⊢
    by_cases hii : i = i'
    · subst hii
      simp only [if_true]
      exact .inr (.inl (.inl List.mem_cons_self))
    · simp only [if_neg hii] at hrt hpc ⊢
      rcases ih hrt hpc with h1 | (h1 | h1) | h1
      · exact .inl h1
      · exact .inr (.inl (.inl (List.mem_cons_of_mem _ h1)))
      · exact .inr (.inl (.inr h1))
      · exact .inr (.inr h1)

theorem tmoOK_reach {c : Cfg} (h : Reach env c) (i : Nat) : TmoOK c i := by
  induction h with
  | init => intro _ hpc; simp [Cfg.init, Inst.dead, pcRecv] at hpc
  | step hr hs ih => exact tmoOK_step hr hs ih


/-! ## 3. No deadlock per target; `n` further attempts -/

/-- The full statement one would like: whenever `n` is managed and not being removed, some step
belonging to it is enabled.  **False of the model — and rightly so**
(`managed_not_terminal_needs_hyp`): a target *without* receive timeout whose stream is up and
silent waits in `Recv`; nothing is to be done until a message, an error, a `Reconnect` or a
`Remove` arrives. -/
def ManagedNotTerminal (env : Name → Nat → Attempt) : Prop :=
  ∀ c, Reach env c → ∀ n i, c.targets n = some i → c.lock ≠ some i → ∃ l c', OwnStep env i c l c'

/-- **`managed_not_terminal`** (deadlock freedom per target).  In every reachable configuration
in which `n` is managed and no `Remove n` is under way, one of the following holds.
1. A step that belongs to the target is enabled: a step of its goroutine, its receive timer
   firing, or its pending `Reconnect` at / past the lookup.
2. The goroutine waits in `Recv` on a silent stream, the receive timeout has fired and its
   `m.Reconnect(n)` waits for `m.mu`, which a `Remove` of *another* target `k` holds; that
   `Remove` is not stuck (a step of `k`'s goroutine, or the `Remove`'s return, is enabled — and
   `release_lock` shows it returns).
3. The target has **no receive timeout** and its goroutine waits in `Recv` on a stream that is up
   and silent, its context live: the one legitimate quiescent state (weakest exclusion:
   `ta.receiveTimeout > 0`, or the scripted stream does not end in silence). -/
theorem managed_not_terminal {c : Cfg} (h : Reach env c) {n : Name} {i : Nat} (ht : c.targets n = some i)
    (hl : c.lock ≠ some i) :
    (∃ l c', OwnStep env i c l c') ∨
    ((c.insts i).waiting ∧ (c.insts i).rt = true ∧ n ∈ c.byName ∧
      ∃ k, k ≠ i ∧ c.lock = some k ∧ ∃ l c', Step env c l c') ∨
    ((c.insts i).waiting ∧ (c.insts i).rt = false) := by
  have ha := monitor_alive h ht hl
  have hn := ((inv_reach h).tgt n i ht).1
  have hnd : (c.insts i).pc ≠ .done := by
    intro hd; rw [hd] at ha; simp [Pc.exited] at ha
  rcases mon_enabled (env (c.insts i).name (c.nextAtt (c.insts i).name)) (pcCur_reach h i) hnd with
    ⟨ml, I', hm⟩ | hw
  · exact .inl ⟨_, _, .mon hm⟩
  · obtain ⟨j, cn, hp, hj, hs, hd⟩ := hw
    have hw : (c.insts i).waiting := ⟨j, cn, hp, hj, hs, hd⟩
    cases hrt : (c.insts i).rt with
    | false => exact .inr (.inr ⟨hw, rfl⟩)
    | true =>
      rcases tmoOK_reach h i hrt (by rw [hp]; rfl) with h1 | (h1 | h1) | h1
      · exact .inl ⟨_, _, .tmo j cn hp h1⟩
      · rw [hn] at h1
        cases hlk : c.lock with
        | none =>
          obtain ⟨c', hstep, _⟩ := lookup_stage h ht h1 hlk
          exact .inl ⟨_, c', hstep⟩
        | some k =>
          refine .inr (.inl ⟨hw, rfl, h1, k, fun e => hl (by rw [hlk, e]), rfl, ?_⟩)
          cases hf : (c.insts k).finished with
          | true => exact ⟨_, _, .removeEnd k hlk hf⟩
          | false =>
            obtain ⟨ml, I', hm, _⟩ := remove_wait_enabled h hlk hf
            exact ⟨_, _, .mon k hm⟩
      · obtain ⟨c', hstep, _⟩ := apply_stage h h1 (by rw [hp]; simp) n
        exact .inl ⟨_, c', hstep⟩
      · rw [hd] at h1; cases h1

/-- With a receive timeout, or an attempt that does not end in silence, and `m.mu` free: a step
belonging to the target is enabled. -/
theorem managed_not_terminal_of {c : Cfg} (h : Reach env c) {n : Name} {i : Nat}
    (ht : c.targets n = some i) (hl : c.lock = none)
    (hyp : (c.insts i).rt = true ∨ (c.insts i).cur.ending ≠ .silence) :
    ∃ l c', OwnStep env i c l c' := by
  rcases managed_not_terminal h ht (by rw [hl]; simp) with h1 | ⟨_, _, _, k, _, hk, _⟩ | ⟨hw, hrt⟩
  · exact h1
  · rw [hl] at hk; cases hk
  · obtain ⟨j, cn, _, _, hs, _⟩ := hw
    rcases hyp with h2 | h2
    · rw [hrt] at h2; cases h2
    · exact absurd hs h2

/-- A stream that is up and stays silent, for every attempt of every target. -/
def quietEnv : Name → Nat → Attempt := fun _ _ => .stream [] .silence

/-- `Add "t0"` without receive timeout, six steps of its goroutine: it waits in `Recv`. -/
def exQuiet : Option (RCfg quietEnv) := do
  let (_, r) ← (RCfg.init quietEnv).move (.add "t0" false)
  let (_, r) ← r.move (.mon 0)
  let (_, r) ← r.move (.mon 0)
  let (_, r) ← r.move (.mon 0)
  let (_, r) ← r.move (.mon 0)
  let (_, r) ← r.move (.mon 0)
  let (_, r) ← r.move (.mon 0)
  pure r

/-- The unconditional statement fails: in `exQuiet` the managed target `"t0"` has no step of its
own (its goroutine is in `Recv` on a silent stream, there is no receive timeout, no `Reconnect`
is pending). -/
theorem managed_not_terminal_needs_hyp : ¬ ManagedNotTerminal quietEnv := by
  intro hall
  obtain ⟨l, c', hstep⟩ := hall _ (exQuiet.get (by decide)).reach "t0" 0 (by decide) (by decide)
  have hw : ((exQuiet.get (by decide)).c.insts 0).waiting :=
    ⟨0, false, by decide, by decide, by decide, by decide⟩
  generalize hc : (exQuiet.get (by decide)).c = c at hstep hw
  have h1 : c.byName = [] := by rw [← hc]; decide
  have h2 : c.byPtr = [] := by rw [← hc]; decide
  have h3 : (c.insts 0).tmoWaiting = false := by rw [← hc]; decide
  cases hstep with
  | mon hm => exact waiting_no_step hw ⟨_, _, hm⟩
  | tmo j cn hp hw' => rw [h3] at hw'; cases hw'
  | lookup l₁ l₂ hb _ _ => rw [h1] at hb; simp at hb
  | apply l₁ l₂ hb => rw [h2] at hb; simp at hb

/-! ### Managed throughout a run -/

theorem unmanaged_stable {c c' : Cfg} {l : Label} (h : Reach env c) (hs : Step env c l c') {n : Name}
    {i : Nat} (hlt : i < c.nInst) (hbad : c.targets n ≠ some i ∨ c.lock = some i) :
    i < c'.nInst ∧ (c'.targets n ≠ some i ∨ c'.lock = some i) := by
  have hi := inv_reach h
  cases hs with
  | mon k hm => exact ⟨by simpa using hlt, by simpa using hbad⟩
  | add n' rt hl' ht' =>
    refine ⟨Nat.lt_succ_of_lt hlt, ?_⟩
    rcases hbad with hb | hb
    · left
      simp only [upd_apply]
      split
      · intro e; cases e; exact Nat.lt_irrefl _ hlt
      · exact hb
    · rw [hl'] at hb; cases hb
  | addDup n' i' hl' ht' => exact ⟨hlt, hbad⟩
  | addInvalid n' => exact ⟨hlt, hbad⟩
  | removeBegin n' i' hl' ht' =>
    refine ⟨hlt, ?_⟩
    rcases hbad with hb | hb
    · exact .inl hb
    · rw [hl'] at hb; cases hb
  | removeUnknown n' hl' ht' => exact ⟨hlt, hbad⟩
  | removeEnd i' hl' hf =>
    refine ⟨hlt, .inl ?_⟩
    simp only [upd_apply]
    split
    · simp
    · next hne =>
      intro htn
      have h1 := (hi.tgt n i htn).1
      rcases hbad with hb | hb
      · exact hb htn
      · rw [hl'] at hb; cases hb
        exact hne h1.symm
  | reconnectLookup n' i' hl' ht' => exact ⟨hlt, hbad⟩
  | reconnectUnknown n' hl' ht' => exact ⟨hlt, hbad⟩
  | byNameLookup l₁ l₂ n' hb hl' => exact ⟨hlt, hbad⟩
  | reconApply l₁ l₂ i' hb => exact ⟨hlt, hbad⟩
  | tmoFire i' j cn hp hw => exact ⟨hlt, hbad⟩

/-- **Managed throughout.**  An instance that is unregistered, or whose `Remove` is under way,
never becomes the managed instance of its name again.  Hence: if `n` is managed by instance `i` and
not being removed at the end of a run that starts in a reachable configuration where `i` exists,
it was so at every configuration the run passes through.  (All the runs constructed in this file
end this way: they are runs *while managed*.) -/
theorem managed_between {c c₁ c' : Cfg} {a b : List Label} (h : Reach env c) (h₁ : Run env c a c₁)
    (h₂ : Run env c₁ b c') {n : Name} {i : Nat} (hlt : i < c.nInst)
    (ht' : c'.targets n = some i) (hl' : c'.lock ≠ some i) :
    c₁.targets n = some i ∧ c₁.lock ≠ some i := by
  have hlt₁ : i < c₁.nInst := by
    clear h₂
    induction h₁ with
    | nil => exact hlt
    | cons hs _ ih =>
      apply ih (.step h hs)
      cases hs <;> first | exact hlt | (simp; omega)
  have hr₁ := reach_run h h₁
  have key : ∀ {c₁ c' : Cfg} {b : List Label}, Run env c₁ b c' → Reach env c₁ → i < c₁.nInst →
      (c₁.targets n ≠ some i ∨ c₁.lock = some i) → (c'.targets n ≠ some i ∨ c'.lock = some i) := by
    intro c₁ c' b hrun
    induction hrun with
    | nil => intro _ _ hb; exact hb
    | cons hs _ ih =>
      intro hr hlt hb
      have := unmanaged_stable hr hs hlt hb
      exact ih (.step hr hs) this.1 this.2
  refine ⟨?_, ?_⟩
  · apply Classical.byContradiction
    intro hne
    rcases key h₂ hr₁ hlt₁ (.inl hne) with hb | hb
    · exact hb ht'
    · exact hl' hb
  · intro hlk
    rcases key h₂ hr₁ hlt₁ (.inr hlk) with hb | hb
    · exact hb ht'
    · exact hl' hb


/-! ### `retry_forever_run` -/

/-- The weakest assumption on the environment under which the target's own steps keep making
attempts: the target has a receive timeout (`ta.receiveTimeout > 0`), or no scripted attempt from
the one in progress on is a stream that stays up and silent.  (Without it the goroutine
legitimately waits in `Recv` for ever: `managed_not_terminal_needs_hyp`.) -/
def EndsOrTimeout (env : Name → Nat → Attempt) (c : Cfg) (n : Name) (i : Nat) : Prop :=
  (c.insts i).rt = true ∨ ∀ k, c.nextAtt n ≤ k + 1 → (env n k).ending ≠ .silence

/-- `k` further attempts of `n`, made while it stays managed by instance `i`. -/
structure Further (env : Name → Nat → Attempt) (c : Cfg) (n : Name) (i : Nat) (k : Nat)
    (ls : List Label) (c' : Cfg) : Prop where
  lts : Run env c ls c'
  /-- with `m.mu` free at the start, every step of the run belongs to this target -/
  own : c.lock = none → OwnRun env i c ls c' ∧ c'.lock = none
  reach : Reach env c'
  /-- `k` more attempts were started … -/
  nextAtt : c'.nextAtt n = c.nextAtt n + k
  /-- … the target still managed, no `Remove n` under way (hence at every configuration of the run:
  `managed_between`) -/
  managed : c'.targets n = some i
  unlocked : c'.lock ≠ some i
  rt : (c'.insts i).rt = (c.insts i).rt
  /-- callbacks were only appended -/
  trace : ∃ d, c'.trace n = c.trace n ++ d

theorem Further.zero {c : Cfg} (h : Reach env c) {n : Name} {i : Nat} (ht : c.targets n = some i)
    (hl : c.lock ≠ some i) : Further env c n i 0 [] c :=
  ⟨.nil c, fun e => ⟨.nil c, e⟩, h, rfl, ht, hl, rfl, [], by simp⟩

theorem Further.trans {c c₁ c₂ : Cfg} {n : Name} {i a b : Nat} {la lb : List Label}
    (h₁ : Further env c n i a la c₁) (h₂ : Further env c₁ n i b lb c₂) :
    Further env c n i (a + b) (la ++ lb) c₂ := by
  obtain ⟨d₁, e₁⟩ := h₁.trace
  obtain ⟨d₂, e₂⟩ := h₂.trace
  exact ⟨run_append h₁.lts h₂.lts,
    fun e => ⟨(h₁.own e).1.append (h₂.own (h₁.own e).2).1, (h₂.own (h₁.own e).2).2⟩, h₂.reach,
    by rw [h₂.nextAtt, h₁.nextAtt, Nat.add_assoc], h₂.managed, h₂.unlocked, h₂.rt.trans h₁.rt,
    d₁ ++ d₂, by rw [e₂, e₁, List.append_assoc]⟩

theorem Further.ofResetNext {c c' : Cfg} {n : Name} {i : Nat} {ls : List Label}
    (h : ResetNext env c n i ls c') (hlk : c.lock = none → c'.lock = none) :
    Further env c n i 1 ls c' :=
  ⟨h.lts, fun e => ⟨h.own e, hlk e⟩, h.reach, h.nextAtt, h.managed, h.unlocked, h.rt, _, h.trace⟩

theorem OwnStep.lock_eq {i : Nat} {c c' : Cfg} {l : Label} (h : OwnStep env i c l c') :
    c'.lock = c.lock := by
  cases h <;> simp

theorem OwnRun.lock_eq {i : Nat} {c c' : Cfg} {ls : List Label} (h : OwnRun env i c ls c') :
    c'.lock = c.lock := by
  induction h with
  | nil => rfl
  | cons hs _ ih => rw [ih, hs.lock_eq]

/-- A step that belongs to a target does not touch the registry: the target stays managed. -/
theorem OwnStep.targets_eq {i : Nat} {c c' : Cfg} {l : Label} (h : OwnStep env i c l c') :
    c'.targets = c.targets := by
  cases h <;> simp

/-- One more attempt. -/
theorem one_more_attempt {c : Cfg} (h : Reach env c) {n : Name} {i : Nat} (ht : c.targets n = some i)
    (hl : c.lock ≠ some i) (hyp : EndsOrTimeout env c n i) :
    ∃ ls c', Further env c n i 1 ls c' := by
  -- let a `Remove` of another target return, if one holds `m.mu`
  obtain ⟨l₀, c₀, hrun₀, hlk₀, hs₀, hI₀, _, _, hnone⟩ := release_lock h ht hl
  have hr₀ := reach_run h hrun₀
  have ht₀ : c₀.targets n = some i := by rw [hs₀.targets]; exact ht
  have hl₀ : c₀.lock ≠ some i := by rw [hlk₀]; simp
  have hF₀ : Further env c n i 0 l₀ c₀ :=
    ⟨hrun₀, fun e => by obtain ⟨e1, e2⟩ := hnone e; subst e1; subst e2; exact ⟨.nil _, e⟩, hr₀,
     hs₀.nextAtt, ht₀, hl₀, hs₀.rt, [], by rw [hs₀.trace]; simp⟩
  suffices hsuff : ∃ ls c', Further env c₀ n i 1 ls c' by
    obtain ⟨ls, c', hF⟩ := hsuff
    exact ⟨_, c', by simpa using hF₀.trans hF⟩
  -- the goroutine runs to the retry timer or into `Recv` on a silent stream
  obtain ⟨pre, c₁, hrun, hb, _, hend⟩ := attempt_progress hr₀ ht₀ hl₀
  have hn₀ := ((inv_reach hr₀).tgt n i ht₀).1
  have f := hrun.facts
  rw [hn₀] at f
  have hlts := hrun.toRun
  have hr₁ : Reach env c₁ := reach_run hr₀ hlts
  have ht₁ : c₁.targets n = some i := by rw [f.1]; exact ht₀
  have hlk₁ : c₁.lock = none := by rw [f.2.1]; exact hlk₀
  have hl₁ : c₁.lock ≠ some i := by rw [hlk₁]; simp
  have hcnt : List.count MLabel.begin_ pre = 0 := List.count_eq_zero.mpr hb
  have hna₁ : c₁.nextAtt n = c₀.nextAtt n := by rw [f.2.2.2.2.2.2.2.2.2.2.1, hcnt]; rfl
  rcases hend with hp₁ | hw
  · obtain ⟨c', h₂, hpc, hcur, hlive⟩ := timer_run hr₁ ht₁ hl₁ hp₁
    have hna := NextAttempt.mk' hr₀ ht₀ hrun hb h₂ hpc hcur hlive
    refine ⟨_, c', hna.lts, fun _ => ⟨?_, by rw [hna.lock]; exact hlk₀⟩, hna.reach, hna.nextAtt,
      hna.managed, by rw [hna.lock]; exact hl₀, hna.rt, _, hna.trace⟩
    have := hna.run.toOwn
    rw [hn₀] at this
    exact this
  · -- blocked: the stream is silent, so the target has a receive timeout, which is armed or fired
    obtain ⟨j, cn, hp, hj, hsil, hd⟩ := hw
    have hF₁ : Further env c₀ n i 0 (pre.map (MLabel.toLabel n)) c₁ := by
      have hown := hrun.toOwn
      rw [hn₀] at hown hlts
      exact ⟨hlts, fun _ => ⟨hown, hlk₁⟩, hr₁, hna₁, ht₁, hl₁, f.2.2.2.2.2.2.1, _, f.2.2.2.2.2.2.2.2.2.1⟩
    suffices hsuff : ∃ ls c', ResetNext env c₁ n i ls c' ∧ c'.lock = none by
      obtain ⟨ls, c', hrn, hlk'⟩ := hsuff
      exact ⟨_, c', by simpa using hF₁.trans (Further.ofResetNext hrn (fun _ => hlk'))⟩
    have hcur := ((shape_reach hr₁).cur n i ht₁ (by rw [hp]; rfl))
    have hrt : (c₁.insts i).rt = true := by
      rcases hyp with h1 | h1
      · rw [f.2.2.2.2.2.2.1, hI₀]; exact h1
      · exfalso
        apply h1 (c₁.nextAtt n - 1) (by rw [hna₁, hs₀.nextAtt]; omega)
        rw [← hcur.2]; exact hsil
    have lockOf : ∀ {ls : List Label} {c' : Cfg}, ResetNext env c₁ n i ls c' → c'.lock = none := by
      intro ls c' hrn
      rw [(hrn.own hlk₁).lock_eq]; exact hlk₁
    rcases tmoOK_reach hr₁ i hrt (by rw [hp]; rfl) with h1 | (h1 | h1) | h1
    · obtain ⟨ls, c', hrn, _⟩ := timeout_forces_reset hr₁ ht₁ hl₁ hp h1
      exact ⟨ls, c', hrn, lockOf hrn⟩
    · rw [f.2.2.2.2.2.1] at h1
      obtain ⟨ls, c', hrn, _⟩ := reconnect_forces_reset hr₁ ht₁ hl₁ hp h1
      exact ⟨ls, c', hrn, lockOf hrn⟩
    · obtain ⟨ls, c', hrn, _⟩ := reconnect_held_forces_reset hr₁ ht₁ hl₁ hp h1
      exact ⟨ls, c', hrn, lockOf hrn⟩
    · rw [hd] at h1; cases h1

/-- **`retry_forever_run`.**  While managed, the target is retried for ever: from every reachable
configuration in which `n` is managed and no `Remove n` is under way, under `EndsOrTimeout`, for
every `k` there is a run in which `k` further attempts are started, `n` staying managed by the
same instance throughout (`managed_between`).  If `m.mu` is free at the start, the run consists
only of steps that belong to this target (its goroutine, its receive timeout and the `Reconnect`
the timeout issues); otherwise a `Remove` of another target is first let return. -/
theorem retry_forever_run {c : Cfg} (h : Reach env c) {n : Name} {i : Nat} (ht : c.targets n = some i)
    (hl : c.lock ≠ some i) (hyp : EndsOrTimeout env c n i) (k : Nat) :
    ∃ ls c', Further env c n i k ls c' := by
  induction k with
  | zero => exact ⟨[], c, .zero h ht hl⟩
  | succ k ih =>
    obtain ⟨ls, c₁, hF⟩ := ih
    have hyp₁ : EndsOrTimeout env c₁ n i := by
      rcases hyp with h1 | h1
      · exact .inl (by rw [hF.rt]; exact h1)
      · exact .inr (fun k' hk' => h1 k' (by rw [hF.nextAtt] at hk'; omega))
    obtain ⟨ls', c', hF'⟩ := one_more_attempt hF.reach hF.managed hF.unlocked hyp₁
    exact ⟨_, c', hF.trans hF'⟩


/-! ## Exactly one `Reset` between a `Recv` and the next attempt — for *every* run

The runs above are chosen (`∃`).  The count of `Reset` callbacks does not depend on the choice:
whatever all threads do — messages still delivered, `Reconnect`s, timeouts, even a `Remove`
followed by a new `Add` — between a configuration in which `Recv` was attempted on the current
stream and the first instruction of the next attempt of `n`, exactly one `Reset` is appended to
the trace of `n`. -/

/-- How one step of the LTS looks from the point of view of name `n`. -/
inductive NameStep (env : Name → Nat → Attempt) (n : Name) (c c' : Cfg) : Prop
  | silent : c'.trace n = c.trace n → c'.nextAtt n = c.nextAtt n → c'.targets n = c.targets n →
      (∀ i, c.targets n = some i → (c'.insts i).pc = (c.insts i).pc) → NameStep env n c c'
  | added (i : Nat) : c'.trace n = c.trace n → c'.nextAtt n = c.nextAtt n → c.targets n = none →
      c'.targets n = some i → (c'.insts i).pc = .start → NameStep env n c c'
  | removed (i : Nat) : c'.trace n = c.trace n → c'.nextAtt n = c.nextAtt n → c.targets n = some i →
      (c.insts i).pc.gone = true → c'.targets n = none → NameStep env n c c'
  | mon (i : Nat) (ml : MLabel) (I' : Inst) : c.targets n = some i → c'.targets n = some i →
      MonStep (env n (c.nextAtt n)) (c.insts i) ml I' → c'.insts i = I' →
      c'.trace n = c.trace n ++ evs [ml] → c'.nextAtt n = c.nextAtt n + [ml].count .begin_ →
      NameStep env n c c'

theorem step_nameStep {c c' : Cfg} {l : Label} (h : Reach env c) (hs : Step env c l c') (n : Name) :
    NameStep env n c c' := by
  have hi := inv_reach h
  cases hs with
  | @mon k ml I' hm =>
    by_cases hreg : c.targets n = some k
    · have hn := (hi.tgt n k hreg).1
      rw [hn] at hm
      refine .mon k ml I' hreg (by simpa using hreg) hm (by simp) ?_ ?_
      · rw [applyMon_trace]; cases ml <;> simp [hn]
      · rw [applyMon_nextAtt]; cases ml <;> simp [hn]
    · have hpc : ∀ i, c.targets n = some i → ((c.applyMon k ml I').insts i).pc = (c.insts i).pc := by
        intro i hti
        have : i ≠ k := by intro e; subst e; exact hreg hti
        simp [upd_apply, this]
      by_cases hn : (c.insts k).name = n
      · have hg : (c.insts k).pc.gone = true := by
          cases hg : (c.insts k).pc.gone
          · exact absurd (hn ▸ hi.reg k hg) hreg
          · rfl
        have hml : ml = .spawnRecon := by
          cases hm <;> simp_all [Pc.gone]
        subst hml
        exact .silent rfl rfl (by simp) hpc
      · have hn' : n ≠ (c.insts k).name := fun e => hn e.symm
        refine .silent ?_ ?_ (by simp) hpc
        · rw [applyMon_trace]; cases ml <;> simp [upd_apply, hn']
        · rw [applyMon_nextAtt]; cases ml <;> simp [upd_apply, hn']
  | add n' rt hl' ht' =>
    by_cases hn : n = n'
    · subst hn
      exact .added c.nInst rfl rfl ht' (by simp) (by simp)
    · refine .silent rfl rfl (by simp [upd_apply, hn]) ?_
      intro i hti
      have : i ≠ c.nInst := Nat.ne_of_lt (hi.tgt n i hti).2
      simp [upd_apply, this]
  | addDup n' i' hl' ht' => exact .silent rfl rfl rfl (fun _ _ => rfl)
  | addInvalid n' => exact .silent rfl rfl rfl (fun _ _ => rfl)
  | removeBegin n' i' hl' ht' =>
    refine .silent rfl rfl rfl ?_
    intro i _
    simp only [upd_apply]
    split
    · next e => subst e; rfl
    · rfl
  | removeUnknown n' hl' ht' => exact .silent rfl rfl rfl (fun _ _ => rfl)
  | removeEnd i' hl' hf =>
    have hlk := hi.lck i' hl'
    by_cases hn : n = (c.insts i').name
    · subst hn
      exact .removed i' rfl rfl hlk.1 (by rw [← hi.fin i']; exact hf) (by simp)
    · exact .silent rfl rfl (by simp [upd_apply, hn]) (fun _ _ => rfl)
  | reconnectLookup n' i' hl' ht' => exact .silent rfl rfl rfl (fun _ _ => rfl)
  | reconnectUnknown n' hl' ht' => exact .silent rfl rfl rfl (fun _ _ => rfl)
  | byNameLookup l₁ l₂ n' hb hl' => exact .silent rfl rfl rfl (fun _ _ => rfl)
  | reconApply l₁ l₂ i' hb =>
    refine .silent rfl rfl rfl ?_
    intro i _
    simp only [upd_apply]
    split
    · next e => subst e; exact Inst.applyRecon_pc _
    · rfl
  | tmoFire i' j cn hp hw =>
    refine .silent rfl rfl rfl ?_
    intro i _
    simp only [upd_apply]
    split
    · next e => subst e; rfl
    · rfl

/-- `Recv` was attempted on the current stream and its `Reset` is still to come. -/
def resetDue : Pc → Nat
  | .recv _ _ | .got _ _ | .reset _ _ => 1
  | _ => 0

/-- In an attempt, before the first `Recv`. -/
def preRecv : Pc → Bool
  | .gmeta | .dial | .open_ | .send => true
  | _ => false

def dueOf (c : Cfg) (n : Name) : Nat :=
  match c.targets n with
  | some i => resetDue (c.insts i).pc
  | none => 0

/-- `Reset`s made for `n` plus the one still due. -/
def resetsQ (c : Cfg) (n : Name) : Nat := (c.trace n).count .reset + dueOf c n

theorem dueOf_some {c : Cfg} {n : Name} {i : Nat} (h : c.targets n = some i) :
    dueOf c n = resetDue (c.insts i).pc := by simp [dueOf, h]

theorem dueOf_none {c : Cfg} {n : Name} (h : c.targets n = none) : dueOf c n = 0 := by simp [dueOf, h]

/-- A step other than the timer arm never lands on the first instruction of an attempt. -/
theorem monStep_to_gmeta {next : Attempt} {I I' : Inst} {ml : MLabel} (h : MonStep next I ml I')
    (hp : I'.pc = .gmeta) : ml = .begin_ := by
  cases h <;> simp_all

theorem monStep_due {next : Attempt} {I I' : Inst} {ml : MLabel} (h : MonStep next I ml I')
    (hp : preRecv I.pc = false) :
    (evs [ml]).count .reset + resetDue I'.pc = resetDue I.pc ∧
    (ml ≠ .begin_ → preRecv I'.pc = false ∧ I'.pc ≠ .gmeta) := by
  cases h <;> simp_all [resetDue, preRecv]
  · rename_i m ev _ _ hev
    cases m <;> simp [Msg.ev] at hev <;> subst hev <;> simp

/-- The invariant carried along an arbitrary run: while the script position of `n` is still `N`,
`resetsQ` keeps its value and no attempt of `n` is before its first `Recv`; right after the next
attempt has started, `resetsQ` still has that value. -/
structure ResetInv (N Q : Nat) (c : Cfg) (n : Name) : Prop where
  ge : N ≤ c.nextAtt n
  cur : c.nextAtt n = N → resetsQ c n = Q ∧ ∀ i, c.targets n = some i → preRecv (c.insts i).pc = false
  nxt : c.nextAtt n = N + 1 → ∀ i, c.targets n = some i → (c.insts i).pc = .gmeta → resetsQ c n = Q

theorem resetInv_step {c c' : Cfg} {l : Label} {N Q : Nat} {n : Name} (h : Reach env c)
    (hs : Step env c l c') (hJ : ResetInv N Q c n) : ResetInv N Q c' n := by
  rcases step_nameStep h hs n with ⟨h1, h2, h3, h4⟩ | ⟨i, h1, h2, h3, h4, h5⟩ | ⟨i, h1, h2, h3, h4, h5⟩ |
    ⟨i, ml, I', h1, h2, h3, h4, h5, h6⟩
  · -- silent
    have hq : resetsQ c' n = resetsQ c n := by
      unfold resetsQ dueOf
      rw [h1, h3]
      cases ht : c.targets n with
      | none => rfl
      | some i => simp only [h4 i ht]
    refine ⟨by rw [h2]; exact hJ.ge, ?_, ?_⟩
    · intro e
      rw [h2] at e
      refine ⟨by rw [hq]; exact (hJ.cur e).1, ?_⟩
      intro i hti
      rw [h3] at hti
      rw [h4 i hti]; exact (hJ.cur e).2 i hti
    · intro e i hti hpc
      rw [h2] at e; rw [h3] at hti
      rw [h4 i hti] at hpc
      rw [hq]; exact hJ.nxt e i hti hpc
  · -- `Add n`
    have hq : resetsQ c' n = resetsQ c n := by
      unfold resetsQ
      rw [h1, dueOf_none h3, dueOf_some h4, h5]; rfl
    refine ⟨by rw [h2]; exact hJ.ge, ?_, ?_⟩
    · intro e
      rw [h2] at e
      refine ⟨by rw [hq]; exact (hJ.cur e).1, ?_⟩
      intro i' hti
      rw [h4] at hti; cases hti
      rw [h5]; rfl
    · intro e i' hti hpc
      rw [h4] at hti; cases hti
      rw [h5] at hpc; cases hpc
  · -- `Remove n` returns
    have hq : resetsQ c' n = resetsQ c n := by
      unfold resetsQ
      rw [h1, dueOf_some h3, dueOf_none h5]
      cases hp : (c.insts i).pc <;> simp_all [Pc.gone, resetDue]
    refine ⟨by rw [h2]; exact hJ.ge, ?_, ?_⟩
    · intro e
      rw [h2] at e
      refine ⟨by rw [hq]; exact (hJ.cur e).1, ?_⟩
      intro i' hti
      rw [h5] at hti; cases hti
    · intro e i' hti
      rw [h5] at hti; cases hti
  · -- a step of the registered goroutine
    have hge := hJ.ge
    by_cases hb : ml = .begin_
    · subst hb
      have hpt := monStep_begin_timer h3
      have hd := (monStep_due h3 (by rw [hpt]; rfl)).1
      have hq : resetsQ c' n = resetsQ c n := by
        unfold resetsQ
        rw [h5, dueOf_some h1, dueOf_some h2, h4, List.count_append]
        omega
      simp only [List.count_cons_self, List.count_nil] at h6
      refine ⟨by omega, fun e => by omega, ?_⟩
      intro e _ _ _
      rw [hq]; exact (hJ.cur (by omega)).1
    · have h6' : c'.nextAtt n = c.nextAtt n := by
        rw [h6]; simp [hb]
      refine ⟨by omega, ?_, ?_⟩
      · intro e
        rw [h6'] at e
        have hpre := (hJ.cur e).2 i h1
        have hd := monStep_due h3 hpre
        refine ⟨?_, ?_⟩
        · rw [← (hJ.cur e).1]
          unfold resetsQ
          rw [h5, dueOf_some h1, dueOf_some h2, h4, List.count_append]
          omega
        · intro i' hti
          rw [h2] at hti; cases hti
          rw [h4]; exact (hd.2 hb).1
      · intro e i' hti hpc
        rw [h2] at hti; cases hti
        rw [h4] at hpc
        exact absurd (monStep_to_gmeta h3 hpc) hb

theorem resetInv_run {c c' : Cfg} {ls : List Label} {N Q : Nat} {n : Name} (h : Reach env c)
    (hrun : Run env c ls c') (hJ : ResetInv N Q c n) : ResetInv N Q c' n := by
  induction hrun with
  | nil => exact hJ
  | cons hs _ ih => exact ih (.step h hs) (resetInv_step h hs hJ)

/-- Callbacks are only ever appended. -/
theorem run_trace_prefix {c c' : Cfg} {ls : List Label} (hrun : Run env c ls c') (n : Name) :
    ∃ d, c'.trace n = c.trace n ++ d := by
  induction hrun with
  | nil => exact ⟨[], by simp⟩
  | cons hs _ ih =>
    obtain ⟨d, hd⟩ := ih
    rcases step_trace hs n with h1 | ⟨_, e, _, _, _, h1⟩
    · exact ⟨d, by rw [hd, h1]⟩
    · exact ⟨e :: d, by rw [hd, h1]; simp⟩

/-- **Exactly one `Reset`, under every schedule.**  `c` reachable, `n` managed, its goroutine has
attempted `Recv` on the current stream and not yet made the `Reset` callback (it is in `Recv`,
handling a message, or about to call `m.reset`).  For **every** run from `c` — any steps of any
threads — to a configuration `c'` in which the next attempt of `n` is at its first instruction
(the script position advanced by one, the goroutine managing `n` at `gmeta`): the trace of `n`
grew by a list of callbacks containing `Reset` exactly once. -/
theorem reset_exactly_once {c c' : Cfg} {ls : List Label} (h : Reach env c) {n : Name} {i i' : Nat}
    (ht : c.targets n = some i) (hd : resetDue (c.insts i).pc = 1) (hrun : Run env c ls c')
    (hna : c'.nextAtt n = c.nextAtt n + 1) (ht' : c'.targets n = some i')
    (hpc : (c'.insts i').pc = .gmeta) :
    ∃ d, c'.trace n = c.trace n ++ d ∧ d.count .reset = 1 := by
  have hJ : ResetInv (c.nextAtt n) (resetsQ c n) c n := by
    refine ⟨Nat.le_refl _, fun _ => ⟨rfl, ?_⟩, fun e => by omega⟩
    intro k hk
    rw [ht] at hk; cases hk
    cases hp : (c.insts i).pc <;> simp_all [resetDue, preRecv]
  have hJ' := resetInv_run h hrun hJ
  have hq := hJ'.nxt hna i' ht' hpc
  obtain ⟨d, hd'⟩ := run_trace_prefix hrun n
  refine ⟨d, hd', ?_⟩
  unfold resetsQ at hq
  rw [dueOf_some ht, dueOf_some ht', hpc, hd, hd', List.count_append] at hq
  simp only [resetDue] at hq
  omega


/-! ## Non-vacuity: concrete reachable configurations meeting the hypotheses above -/

section examples

/-- `Add "t0"`, nine steps of its goroutine in the scenario of `Props/C13.lean`: the first message
of a stream `[update, update]` ending in an error has been handled, the goroutine is in `Recv`
again (hypotheses of `attempt_progress`, `next_attempt_reached`: the stream does not end in
silence). -/
def exMid : Option (RCfg exEnv) := do
  let (_, r) ← (RCfg.init exEnv).move (.add "t0" false)
  let (_, r) ← r.move (.mon 0)
  let (_, r) ← r.move (.mon 0)
  let (_, r) ← r.move (.mon 0)
  let (_, r) ← r.move (.mon 0)
  let (_, r) ← r.move (.mon 0)
  let (_, r) ← r.move (.mon 0)
  let (_, r) ← r.move (.mon 0)
  let (_, r) ← r.move (.mon 0)
  let (_, r) ← r.move (.mon 0)
  pure r

example : ∃ c, Reach exEnv c ∧ c.targets "t0" = some 0 ∧ c.lock ≠ some 0 ∧ CanEnd (c.insts 0) ∧
    (c.insts 0).pc = .recv 1 true ∧ c.trace "t0" = [.connect, .update 0] :=
  ⟨_, (exMid.get (by decide)).reach, by decide, by decide, .inr (.inr (by decide)), by decide, by decide⟩

/-- four more steps: the stream has ended, `m.connectError` is pending: the session is over
(hypothesis of `next_attempt_reached_over`) -/
def exOver : Option (RCfg exEnv) := do
  let r ← exMid
  let (_, r) ← r.move (.mon 0)
  let (_, r) ← r.move (.mon 0)
  let (_, r) ← r.move (.mon 0)
  let (_, r) ← r.move (.mon 0)
  pure r

example : ∃ c, Reach exEnv c ∧ c.targets "t0" = some 0 ∧ c.lock ≠ some 0 ∧ pcOver (c.insts 0).pc = true ∧
    (c.insts 0).pc = .connErr 2 true true ∧
    c.trace "t0" = [.connect, .update 0, .update 1, .reset] :=
  ⟨_, (exOver.get (by decide)).reach, by decide, by decide, by decide, by decide, by decide⟩

/-- `Add "t0"` *with* a receive timeout in the all-silent environment, six steps: the goroutine
waits in `Recv`, the receive timer is armed (hypotheses of `timeout_forces_reset`; of
`retry_forever_run` although no stream ever ends; first case of `managed_not_terminal`). -/
def exArmed : Option (RCfg quietEnv) := do
  let (_, r) ← (RCfg.init quietEnv).move (.add "t0" true)
  let (_, r) ← r.move (.mon 0)
  let (_, r) ← r.move (.mon 0)
  let (_, r) ← r.move (.mon 0)
  let (_, r) ← r.move (.mon 0)
  let (_, r) ← r.move (.mon 0)
  let (_, r) ← r.move (.mon 0)
  pure r

example : ∃ c, Reach quietEnv c ∧ c.targets "t0" = some 0 ∧ c.lock ≠ some 0 ∧ c.lock = none ∧
    (c.insts 0).pc = .recv 0 false ∧ (c.insts 0).tmoWaiting = true ∧ EndsOrTimeout quietEnv c "t0" 0 :=
  ⟨_, (exArmed.get (by decide)).reach, by decide, by decide, by decide, by decide, by decide,
   .inl (by decide)⟩

/-- the conclusions are really about a changed configuration: from `exArmed` the trace of `"t0"`
(empty so far) becomes `[Reset, ConnectError, MonitorError]` and the second attempt starts -/
example : ∃ ls c', Run quietEnv (exArmed.get (by decide)).c ls c' ∧
    c'.trace "t0" = [.reset, .connectError, .monitorError] ∧ c'.nextAtt "t0" = 2 ∧
    (c'.insts 0).pc = .gmeta ∧ ls.length = 8 := by
  obtain ⟨ls, c', hrn, hlen⟩ := timeout_forces_reset (exArmed.get (by decide)).reach
    (n := "t0") (i := 0) (j := 0) (cn := false) (by decide) (by decide) (by decide) (by decide)
  refine ⟨ls, c', hrn.lts, ?_, ?_, hrn.pc, hlen (by decide)⟩
  · rw [hrn.trace]; decide
  · rw [hrn.nextAtt]; decide

/-- … and this run meets the hypotheses of `reset_exactly_once` -/
example : ∃ c ls c', Reach quietEnv c ∧ c.targets "t0" = some 0 ∧ resetDue (c.insts 0).pc = 1 ∧
    Run quietEnv c ls c' ∧ c'.nextAtt "t0" = c.nextAtt "t0" + 1 ∧ c'.targets "t0" = some 0 ∧
    (c'.insts 0).pc = .gmeta := by
  obtain ⟨ls, c', hrn, _⟩ := timeout_forces_reset (exArmed.get (by decide)).reach
    (n := "t0") (i := 0) (j := 0) (cn := false) (by decide) (by decide) (by decide) (by decide)
  exact ⟨_, ls, c', (exArmed.get (by decide)).reach, by decide, by decide, hrn.lts, hrn.nextAtt,
    hrn.managed, hrn.pc⟩

/-- the receive timeout of `"t0"` has fired while a `Remove "t1"` holds `m.mu`: the timeout
goroutine's `m.Reconnect("t0")` waits for the lock (hypotheses of `reconnect_forces_reset` with
the lock held — `release_lock` is exercised —, of `recon_pending_stable`; second case of
`managed_not_terminal`) -/
def exLocked : Option (RCfg quietEnv) := do
  let r ← exArmed
  let (_, r) ← r.move (.add "t1" false)
  let (_, r) ← r.move (.tmo 0)
  let (_, r) ← r.move (.remove "t1")
  pure r

example : ∃ c, Reach quietEnv c ∧ c.targets "t0" = some 0 ∧ c.lock = some 1 ∧ c.lock ≠ some 0 ∧
    (c.insts 0).pc = .recv 0 false ∧ "t0" ∈ c.byName ∧ (c.insts 0).rt = true ∧
    (c.insts 0).waiting ∧ ReconPending c "t0" 0 ∧ (c.insts 0).pc ≠ .start :=
  ⟨_, (exLocked.get (by decide)).reach, by decide, by decide, by decide, by decide, by decide, by decide,
   ⟨0, false, by decide, by decide, by decide, by decide⟩, .inl (by decide), by decide⟩

/-- the third case of `managed_not_terminal` is `exQuiet` (`managed_not_terminal_needs_hyp`) -/
example : ∃ c, Reach quietEnv c ∧ c.targets "t0" = some 0 ∧ c.lock ≠ some 0 ∧ (c.insts 0).waiting ∧
    (c.insts 0).rt = false :=
  ⟨_, (exQuiet.get (by decide)).reach, by decide, by decide,
   ⟨0, false, by decide, by decide, by decide, by decide⟩, by decide⟩

end examples

end Gnmi.C13Prog
