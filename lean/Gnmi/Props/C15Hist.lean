import Gnmi.Lemmas.CacheAccounting
import Gnmi.Props.C15
/-!
# C15 — counters and latest timestamp over whole histories

Everything is about the existing cache model (`Model/Cache.lean`: `Target.dispatch`,
`Target.gnmiUpdate`, `Target.updateMeta`, `State.step`, `State.run`).

* `unit_accounting`: for a notification of *any* shape, the counters move by the sum of the
  deltas of the outcomes of its units (`Acc.notiOuts`: one outcome per update, per delete, one
  for a whole atomic notification, one for an empty one), and `unit_one_bucket` /
  `delete_unit_counted` / `empty_unit_counted` spell out the delta per outcome.
* `history_accounting`: in every state reachable from the empty cache by any history of API
  calls on any number of targets, the eight counters of a target are the sum of the deltas of
  all unit outcomes since its last `Add` / `Reset` (`unitsSince`) — the units of client
  notifications, of `Sync` / `Connect` / `ConnectError`, and the cache's own metadata writes in
  `UpdateMetadata` and `Reset`.  `history_buckets` reads the sum bucket by bucket.
* `latest_is_max`: `Target.ts` is the maximum of the timestamps of the accepted non-metadata
  notifications since the last `Add` / `Reset` (`none` if there is none); `maxTs_spec` says what
  "maximum" means.
* `updateMeta_exports_latest`: after `updateMeta` the metadata object's `latestTimestamp` is
  `Target.ts`, and so is the stored `meta/latestTimestamp` leaf unless the write is excluded,
  blocked by a longer stored path or stale (`exports_latest_leaf_needs_fresh`: the last side
  condition is necessary).  `history_exported_latest` combines it with `latest_is_max`.
-/
namespace Gnmi
namespace C15Hist
open Cache Gnmi.Acc Feed

/-! ## 1. One notification of any shape -/

/-- **Unit accounting.** For every target state and every notification — atomic, a single
update, a single delete, several updates and deletes, empty, or atomic with deletes (an error) —
the counters `updated / suppressed / stale / future / empty / added / deleted / leaves` after
`Target.dispatch` (the `switch` of `Target.GnmiUpdate`) are the counters before plus the sum of
the deltas of the outcomes of the notification's units, the exported latest-timestamp value is
untouched, and (unless the call panics) `updateTS` is raised exactly when one unit is an accepted
update. -/
theorem unit_accounting (cfg : Cfg) (now : Int) (t : Target) (n : Noti) :
    let r := t.dispatch cfg now n
    ctrOf r.2.1.md = ctrOf t.md + sumDelta (notiOuts cfg now t n) ∧
    r.2.1.md.latest = t.md.latest ∧
    (r.1 ≠ .panic → r.2.2.2 = (notiOuts cfg now t n).any UnitOut.isAccept) :=
  dispatch_ctr cfg now t n

/-- the units of a notification: itself when it is atomic or has at most one update or delete,
otherwise one notification per update followed by one per delete -/
theorem units_of_shape (n : Noti) :
    (isUnit n = true → unitNotis n = [n]) ∧
    (isUnit n = false → unitNotis n = n.upd.map (updUnit n) ++ n.del.map (delUnit n)) := by
  constructor <;> intro h <;> simp [unitNotis, h]

/-- … and a multi-update notification *is* processed as these units one after the other
(`Acc.dispatch_multi`, from `multiUpdates_round` and `multiDeletes_round`). -/
theorem multi_is_fold (cfg : Cfg) (now : Int) (t : Target) (n : Noti) (hu : isUnit n = false) :
    (t.dispatch cfg now n).2.1 = ((unitNotis n).foldl (unitStep cfg now) { t := t }).t := by
  rw [dispatch_multi cfg now t n hu]
  simp only
  split <;> rfl

/-- **Every update unit is counted in exactly one bucket.**  For a unit notification carrying
updates (a single update, or an atomic notification, whose updates are stored together as one
leaf), by what `dispatch` returns:
* `ok` with an event: `updated` grows by 1 (by the number of updates for an atomic notification)
  and, when the leaf is new real data, `added` and `leaves` grow by 1;
* `ok` without an event (same value, event-driven mode): only `suppressed` grows — a suppressed
  update is *not* counted in `updated`;
* `stale`: only `stale` grows by 1 (also for an atomic notification with many updates);
* `future`: only `future` grows by 1;
* an error or a panic: nothing moves. -/
theorem unit_one_bucket (cfg : Cfg) (now : Int) (t : Target) (m : Noti) (hu : isUnit m = true)
    (hup : m.upd ≠ []) :
    let r := t.dispatch cfg now m
    let c := ctrOf t.md
    let k : Nat := if m.atomic then m.upd.length else 1
    let f : Int := if isFresh t m then 1 else 0
    (r.1 = .ok ∧ r.2.2.1.isEmpty = false ∧
      ctrOf r.2.1.md = c + { updated := k, added := f, leaves := f }) ∨
    (r.1 = .ok ∧ r.2.2.1.isEmpty = true ∧ ctrOf r.2.1.md = c + { suppressed := 1 }) ∨
    (r.1 = .stale ∧ ctrOf r.2.1.md = c + { stale := 1 }) ∨
    (r.1 = .future ∧ ctrOf r.2.1.md = c + { future := 1 }) ∨
    ((r.1 = .err ∨ r.1 = .panic) ∧ ctrOf r.2.1.md = c) := by
  intro r c k f
  obtain ⟨d, _, _⟩ := unit_delta cfg now t m hu
  have he : m.upd.isEmpty = false := by cases h : m.upd with
    | nil => exact absurd h hup
    | cons _ _ => rfl
  unfold unitOut at d
  simp only [he, Bool.false_eq_true, if_false] at d
  change ctrOf r.2.1.md = c + delta (outOfArm r.1 r.2.2.1 k (isFresh t m)) at d
  cases h1 : r.1 with
  | ok =>
    rw [h1] at d
    cases h2 : r.2.2.1.isEmpty with
    | true =>
      simp only [outOfArm, h2, if_true, delta] at d
      exact Or.inr (Or.inl ⟨rfl, rfl, d⟩)
    | false =>
      simp only [outOfArm, h2, Bool.false_eq_true, if_false, delta] at d
      refine Or.inl ⟨rfl, rfl, ?_⟩
      rw [d]
  | stale =>
    rw [h1] at d; simp only [outOfArm, delta] at d
    exact Or.inr (Or.inr (Or.inl ⟨rfl, d⟩))
  | future =>
    rw [h1] at d; simp only [outOfArm, delta] at d
    exact Or.inr (Or.inr (Or.inr (Or.inl ⟨rfl, d⟩)))
  | err =>
    rw [h1] at d; simp only [outOfArm, delta] at d
    exact Or.inr (Or.inr (Or.inr (Or.inr ⟨Or.inl rfl, by rw [d, Ctr.add_zero]⟩)))
  | panic =>
    rw [h1] at d; simp only [outOfArm, delta] at d
    exact Or.inr (Or.inr (Or.inr (Or.inr ⟨Or.inr rfl, by rw [d, Ctr.add_zero]⟩)))

/-- **A delete unit** is counted in `updated` before it is looked at; `deleted` grows and
`leaves` shrinks by the number of non-metadata leaves that left the tree. -/
theorem delete_unit_counted (cfg : Cfg) (now : Int) (t : Target) (m : Noti)
    (ha : m.atomic = false) (hup : m.upd = []) (d : Del) (hd : m.del = [d]) :
    let r := t.dispatch cfg now m
    let c : Nat := nm t.tree - nm r.2.1.tree
    (r.1 = .ok ∧ ctrOf r.2.1.md = ctrOf t.md + { updated := 1, deleted := c, leaves := -(c : Int) }) ∨
    (r.1 = .panic ∧ ctrOf r.2.1.md = ctrOf t.md + { updated := 1 }) := by
  intro r c
  have hu : isUnit m = true := by simp [isUnit, hup, hd]
  obtain ⟨dd, _, _⟩ := unit_delta cfg now t m hu
  unfold unitOut at dd
  simp only [hup, hd, ha, List.isEmpty_nil, List.isEmpty_cons, if_true, Bool.false_eq_true, if_false] at dd
  change ctrOf r.2.1.md = ctrOf t.md + delta (if r.1 = .panic then .deletePanic else .deleted c) at dd
  by_cases hp : r.1 = .panic
  · rw [if_pos hp] at dd
    exact Or.inr ⟨hp, dd⟩
  · rw [if_neg hp] at dd
    refine Or.inl ⟨?_, dd⟩
    -- a delete unit returns ok or panics
    have hr : r = t.dispatch cfg now m := rfl
    have hm : m = delUnit m d := by
      cases m; simp only [delUnit] at *; simp [hup, hd]
    rw [hm, dispatch_delUnit cfg now t m d ha] at hr
    simp only at hr
    split at hr
    · rw [hr] at hp; exact absurd rfl hp
    · rw [hr]

/-- **An empty notification** (atomic or not) is counted in `empty` and nowhere else. -/
theorem empty_unit_counted (cfg : Cfg) (now : Int) (t : Target) (m : Noti) (hup : m.upd = [])
    (hd : m.del = []) :
    ctrOf (t.dispatch cfg now m).2.1.md = ctrOf t.md + { empty := 1 } := by
  have hu : isUnit m = true := by simp [isUnit, hup, hd]
  obtain ⟨dd, _, _⟩ := unit_delta cfg now t m hu
  unfold unitOut at dd
  simpa only [hup, hd, List.isEmpty_nil, if_true, delta] using dd

/-! ## 2. Histories -/

/-- **The unit outcomes API call `op` produces on target `name`** from state `s` (before the
call): the units of the client's notification, of the notifications `Sync` / `Connect` /
`ConnectError` build, and the metadata writes of `UpdateMetadata`. -/
def opOuts (enc : String → String) (s : State) (name : String) : Op → List UnitOut
  | .update now pn n =>
    if pn = false ∧ n.target = name then
      match s.get name with
      | some t => notiOuts s.cfg now t n
      | none => []
    else []
  | .sync nm now =>
    if nm = name then
      match s.get name with
      | some t => notiOuts s.cfg now t (metaNoti enc name "sync" (.bool true) now)
      | none => []
    else []
  | .connect nm now =>
    if nm = name then
      match s.get name with
      | some t =>
        notiOuts s.cfg now t (metaNoti enc name "connected" (.bool true) now) ++
          notiOuts s.cfg now (t.gnmiUpdate s.cfg now (metaNoti enc name "connected" (.bool true) now)).2.1
            (deleteNotiOf enc name [metaRoot, "connectError"] now)
      | none => []
    else []
  | .connectError nm msg now =>
    if nm = name then
      match s.get name with
      | some t => notiOuts s.cfg now t (metaNoti enc name "connectError" (.str msg) now)
      | none => []
    else []
  | .updateMetadata now =>
    match s.get name with
    | some t => refreshOuts s.cfg enc now true t
    | none => []
  | _ => []

/-- the ledger of target `name` after `op`: `Add` and `Remove` of the target empty it, `Reset`
restarts it with the metadata writes `Reset` itself makes, every other call appends its units -/
def ledgerStep (enc : String → String) (s : State) (name : String) (acc : List UnitOut) (op : Op) :
    List UnitOut :=
  match op with
  | .add nm => if nm = name then [] else acc
  | .remove nm _ => if nm = name then [] else acc
  | .reset nm now =>
    if nm = name then
      match s.get name with
      | some t => refreshOuts s.cfg enc now true { t with latest := none, md := Meta.clear }
      | none => acc
    else acc
  | op => acc ++ opOuts enc s name op

/-- **All unit outcomes on target `name` since its last `Add` / `Reset`** along the history
`ops` run from `s` (with `acc` the ledger so far). -/
def unitsSince (enc : String → String) (name : String) : State → List Op → List UnitOut → List UnitOut
  | _, [], acc => acc
  | s, op :: ops, acc => unitsSince enc name (s.step enc op).1 ops (ledgerStep enc s name acc op)

/-- the counters of target `name` (if registered) are the sum of the deltas of the ledger -/
def Agree (s : State) (name : String) (acc : List UnitOut) : Prop :=
  ∀ t, s.get name = some t → ctrOf t.md = sumDelta acc

theorem onTarget_get_same (s : State) (nm : String) (f : Target → Target × List Event) :
    (s.onTarget nm f).1.get nm = (s.get nm).map (fun t => (f t).1) := by
  unfold State.onTarget
  split
  · rename_i h; rw [h]; rfl
  · rename_i t h; rw [h]; simp only [get_set_same, Option.map_some]

theorem onTarget_get_other (s : State) (nm name : String) (f : Target → Target × List Event)
    (h : name ≠ nm) : (s.onTarget nm f).1.get name = s.get name := by
  unfold State.onTarget
  split
  · rfl
  · exact get_set_other _ _ _ _ h

theorem reset_md (cfg : Cfg) (enc : String → String) (now : Int) (t : Target) :
    (t.reset cfg enc now).1.md =
      (Target.updateMeta cfg enc now true { t with latest := none, md := Meta.clear }).1.md := by
  rw [reset_eq]
  exact (dropRoots_spec t.name now _ _).1

theorem ctr_clear : ctrOf Meta.clear = 0 := rfl

theorem step_agree (enc : String → String) (s : State) (op : Op) (name : String) (acc : List UnitOut)
    (hs : SInv s) (hn : NamesUnique s) (ha : Agree s name acc) :
    Agree (s.step enc op).1 name (ledgerStep enc s name acc op) := by
  intro t' hg
  cases op with
  | add nm =>
    simp only [State.step, State.add, ledgerStep] at hg ⊢
    by_cases h : nm = name
    · subst h
      rw [get_set_same] at hg; cases hg
      simp only [if_true]; rfl
    · rw [get_set_other _ _ _ _ (fun e => h e.symm)] at hg
      simp only [h, if_false]; exact ha t' hg
  | remove nm now =>
    simp only [State.step, State.remove, State.get, ledgerStep] at hg ⊢
    by_cases h : nm = name
    · subst h; rw [get_filter_same] at hg; simp at hg
    · rw [get_filter_other _ _ _ (fun e => h e.symm)] at hg
      simp only [h, if_false]; exact ha t' hg
  | reset nm now =>
    simp only [State.step, State.reset, ledgerStep] at hg ⊢
    by_cases h : nm = name
    · subst h
      rw [onTarget_get_same] at hg
      simp only [if_true]
      cases hget : s.get nm with
      | none => rw [hget] at hg; simp at hg
      | some t0 =>
        rw [hget] at hg
        simp only [Option.map_some, Option.some.injEq] at hg
        subst hg
        simp only
        rw [reset_md]
        obtain ⟨a, _⟩ := updateMeta_ctr s.cfg enc now true { t0 with latest := none, md := Meta.clear }
        rw [a]
        show ctrOf Meta.clear + _ = _
        rw [ctr_clear, Ctr.zero_add]
    · rw [onTarget_get_other _ _ _ _ (fun e => h e.symm)] at hg
      simp only [h, if_false]; exact ha t' hg
  | sync nm now =>
    simp only [State.step, State.sync, ledgerStep, opOuts] at hg ⊢
    by_cases h : nm = name
    · subst h
      rw [onTarget_get_same] at hg
      simp only [if_true]
      cases hget : s.get nm with
      | none => rw [hget] at hg; simp at hg
      | some t0 =>
        rw [hget] at hg
        simp only [Option.map_some, Option.some.injEq] at hg
        subst hg
        obtain ⟨_, _, hne⟩ := hs nm t0 hget
        obtain ⟨a, _⟩ := gnmiUpdate_ctr s.cfg now t0 (metaNoti enc nm "sync" (.bool true) now) hne
        simp only
        rw [a, sumDelta_append, ha t0 hget]
    · rw [onTarget_get_other _ _ _ _ (fun e => h e.symm)] at hg
      simp only [h, if_false, List.append_nil]; exact ha t' hg
  | connect nm now =>
    simp only [State.step, State.connect, ledgerStep, opOuts] at hg ⊢
    by_cases h : nm = name
    · subst h
      rw [onTarget_get_same] at hg
      simp only [if_true]
      cases hget : s.get nm with
      | none => rw [hget] at hg; simp at hg
      | some t0 =>
        rw [hget] at hg
        simp only [Option.map_some, Option.some.injEq] at hg
        subst hg
        obtain ⟨_, _, hne⟩ := hs nm t0 hget
        obtain ⟨a, _⟩ := gnmiUpdate_ctr s.cfg now t0 (metaNoti enc nm "connected" (.bool true) now) hne
        obtain ⟨b, _⟩ := gnmiUpdate_ctr s.cfg now
          (t0.gnmiUpdate s.cfg now (metaNoti enc nm "connected" (.bool true) now)).2.1
          (deleteNotiOf enc nm [metaRoot, "connectError"] now) hne
        simp only
        rw [b, a, sumDelta_append, sumDelta_append, ha t0 hget, Ctr.add_assoc]
    · rw [onTarget_get_other _ _ _ _ (fun e => h e.symm)] at hg
      simp only [h, if_false, List.append_nil]; exact ha t' hg
  | connectError nm msg now =>
    simp only [State.step, State.connectError, ledgerStep, opOuts] at hg ⊢
    by_cases h : nm = name
    · subst h
      rw [onTarget_get_same] at hg
      simp only [if_true]
      cases hget : s.get nm with
      | none => rw [hget] at hg; simp at hg
      | some t0 =>
        rw [hget] at hg
        simp only [Option.map_some, Option.some.injEq] at hg
        subst hg
        obtain ⟨_, _, hne⟩ := hs nm t0 hget
        obtain ⟨a, _⟩ := gnmiUpdate_ctr s.cfg now t0 (metaNoti enc nm "connectError" (.str msg) now) hne
        simp only
        rw [a, sumDelta_append, ha t0 hget]
    · rw [onTarget_get_other _ _ _ _ (fun e => h e.symm)] at hg
      simp only [h, if_false, List.append_nil]; exact ha t' hg
  | update now pn n =>
    simp only [State.step, State.gnmiUpdate, ledgerStep, opOuts] at hg ⊢
    cases pn with
    | true =>
      simp only [if_true] at hg
      simp only [Bool.true_eq_false, false_and, if_false, List.append_nil]
      exact ha t' hg
    | false =>
      simp only [Bool.false_eq_true, if_false, true_and] at hg ⊢
      by_cases h : n.target = name
      · simp only [h, if_true] at hg ⊢
        cases hget : s.get name with
        | none =>
          rw [hget] at hg
          simp only at hg
          rw [hget] at hg; cases hg
        | some t0 =>
          rw [hget] at hg
          simp only [get_set_same, Option.some.injEq] at hg
          subst hg
          obtain ⟨_, _, hne⟩ := hs name t0 hget
          obtain ⟨a, _⟩ := gnmiUpdate_ctr s.cfg now t0 n (by rw [h]; exact hne)
          simp only
          rw [a, sumDelta_append, ha t0 hget]
      · simp only [h, if_false, List.append_nil]
        have : s.get name = some t' := by
          split at hg
          · exact hg
          · rw [get_set_other _ _ _ _ (fun e => h e.symm)] at hg; exact hg
        exact ha t' this
  | updateMetadata now =>
    simp only [State.step, ledgerStep, opOuts] at hg ⊢
    rw [updateMetadata_get enc now s hn name] at hg
    cases hget : s.get name with
    | none => rw [hget] at hg; simp at hg
    | some t0 =>
      rw [hget] at hg
      simp only [Option.map_some, Option.some.injEq] at hg
      subst hg
      obtain ⟨a, _⟩ := updateMeta_ctr s.cfg enc now true t0
      simp only
      rw [a, sumDelta_append, ha t0 hget]

theorem run_agree (enc : String → String) (name : String) : ∀ (ops : List Op) (s : State) (acc : List UnitOut),
    SInv s → NamesUnique s → (∀ op ∈ ops, op.valid) → Agree s name acc →
    Agree (s.run enc ops) name (unitsSince enc name s ops acc)
  | [], _, _, _, _, _, ha => ha
  | op :: ops, s, acc, hs, hn, hv, ha =>
    run_agree enc name ops _ _ (step_sinv enc s op hs (hv op (List.mem_cons_self ..))).1
      (step_names enc s op hn) (fun o ho => hv o (List.mem_cons_of_mem _ ho))
      (step_agree enc s op name acc hs hn ha)

/-- **History accounting.** For every history of API calls from the empty cache — updates,
deletes, atomic, multi-update and empty notifications, `Add`, `Remove`, `Reset`, `Sync`,
`Connect`, `ConnectError`, `UpdateMetadata`, on any number of targets — the counters
`updated / suppressed / stale / future / empty / added / deleted / leaves` of every registered
target `T` are exactly the sum of the deltas of all unit outcomes on `T` since its last `Add` or
`Reset` (both restart from zero; the metadata writes `Reset` makes are the first entries). -/
theorem history_accounting (enc : String → String) (cfg : Cfg) (ops : List Op)
    (hv : ∀ op ∈ ops, op.valid) (name : String) (t : Target)
    (hg : (State.run enc { cfg := cfg } ops).get name = some t) :
    ctrOf t.md = sumDelta (unitsSince enc name { cfg := cfg } ops []) :=
  run_agree enc name ops { cfg := cfg } [] (SInv.empty cfg) (NamesUnique.empty cfg) hv
    (fun _ h => by simp [State.get] at h) t hg

/-! ### reading the sum bucket by bucket -/

def sumBy (f : UnitOut → Int) : List UnitOut → Int
  | [] => 0
  | o :: l => f o + sumBy f l

/-- what an outcome contributes to `targetLeavesUpdated` -/
def updatedOf : UnitOut → Int
  | .accepted k _ => k
  | .deleted _ => 1
  | .deletePanic => 1
  | _ => 0

def deletedOf : UnitOut → Int
  | .deleted c => c
  | _ => 0

def addedOf : UnitOut → Int
  | .accepted _ true => 1
  | _ => 0

/-- the number of update and delete units an outcome stands for in the four outcome counters:
`k` for an accepted update (`k` updates of an atomic notification; 0 for a metadata write of the
cache itself), 1 for suppressed / stale / future and for a delete, 0 for an error or an empty
notification -/
def weight : UnitOut → Int
  | .accepted k _ => k
  | .suppressed => 1
  | .stale => 1
  | .future => 1
  | .deleted _ => 1
  | .deletePanic => 1
  | _ => 0

theorem sumDelta_buckets (l : List UnitOut) :
    (sumDelta l).updated = sumBy updatedOf l ∧
    (sumDelta l).suppressed = (l.count .suppressed : Nat) ∧
    (sumDelta l).stale = (l.count .stale : Nat) ∧
    (sumDelta l).future = (l.count .future : Nat) ∧
    (sumDelta l).empty = (l.count .empty : Nat) ∧
    (sumDelta l).added = sumBy addedOf l ∧
    (sumDelta l).deleted = sumBy deletedOf l ∧
    (sumDelta l).leaves = sumBy addedOf l - sumBy deletedOf l ∧
    (sumDelta l).updated + (sumDelta l).suppressed + (sumDelta l).stale + (sumDelta l).future =
      sumBy weight l := by
  induction l with
  | nil => simp [sumDelta_nil, Ctr.zero_def, sumBy]
  | cons o l ih =>
    obtain ⟨i1, i2, i3, i4, i5, i6, i7, i8, i9⟩ := ih
    rw [sumDelta_cons]
    simp only [Ctr.add_def, sumBy, List.count_cons]
    cases o with
    | accepted k fresh =>
      cases fresh <;>
        simp [delta, updatedOf, addedOf, deletedOf, weight] <;> omega
    | deleted c => simp [delta, updatedOf, addedOf, deletedOf, weight]; omega
    | _ => simp [delta, updatedOf, addedOf, deletedOf, weight, Ctr.zero_def] <;> omega

/-- **The counters, bucket by bucket.**  In every reachable state, with `L` the unit outcomes on
the target since its last `Add` / `Reset`: `suppressed`, `stale`, `future` and `empty` are the
numbers of such outcomes in `L`; `updated` is the number of accepted-and-announced updates
(an atomic notification counting for all its updates) plus the number of delete units;
`added` is the number of new real leaves, `deleted` the number of real leaves removed,
`leaves` their difference; and the update and delete units that were not errors are
`updated + suppressed + stale + future` — each in exactly one of the four. -/
theorem history_buckets (enc : String → String) (cfg : Cfg) (ops : List Op)
    (hv : ∀ op ∈ ops, op.valid) (name : String) (t : Target)
    (hg : (State.run enc { cfg := cfg } ops).get name = some t) :
    let L := unitsSince enc name { cfg := cfg } ops []
    t.md.updated = sumBy updatedOf L ∧
    t.md.suppressed = (L.count .suppressed : Nat) ∧
    t.md.stale = (L.count .stale : Nat) ∧
    t.md.future = (L.count .future : Nat) ∧
    t.md.empty = (L.count .empty : Nat) ∧
    t.md.added = sumBy addedOf L ∧
    t.md.deleted = sumBy deletedOf L ∧
    t.md.leaves = sumBy addedOf L - sumBy deletedOf L ∧
    t.md.updated + t.md.suppressed + t.md.stale + t.md.future = sumBy weight L := by
  intro L
  have h := history_accounting enc cfg ops hv name t hg
  have hb := sumDelta_buckets L
  rw [← h] at hb
  exact hb

/-! ## 3. The latest timestamp -/

/-- a notification takes part in latest-timestamp tracking when its first update's joined path is
not under `meta` (what the deferred `checkTimestamp` of `Target.GnmiUpdate` tests; a notification
without updates never does) -/
def tracked (n : Noti) : Bool :=
  match n.upd with
  | u :: _ =>
    match updKey n u with
    | h :: _ => h != metaRoot
    | [] => false
  | [] => false

theorem tracks_eq (n : Noti) (ht : n.target ≠ "") : tracksTimestamp? n = some (tracked n) := by
  unfold tracksTimestamp? tracked
  cases hu : n.upd with
  | nil => rfl
  | cons u us =>
    have : updKey? n u = some (updKey n u) := by
      unfold updKey? updKey; exact joinKey?_eq _ _ ht
    simp only [this]
    cases updKey n u <;> rfl

def omax : Option Int → Int → Option Int
  | none, x => some x
  | some a, x => some (max a x)

/-- the maximum of a list of timestamps (`none` for the empty list) -/
def maxTs (l : List Int) : Option Int := l.foldl omax none

theorem foldl_omax_spec : ∀ (l : List Int) (o : Option Int),
    (l.foldl omax o = none ↔ o = none ∧ l = []) ∧
    (∀ m, l.foldl omax o = some m →
      (o = some m ∨ m ∈ l) ∧ (∀ a, o = some a → a ≤ m) ∧ ∀ x ∈ l, x ≤ m)
  | [], o => by
    simp only [List.foldl_nil, and_true, List.not_mem_nil, or_false, false_imp_iff, implies_true, and_true]
    refine ⟨trivial, ?_⟩
    intro m h; exact ⟨h, fun a ha => by rw [h] at ha; cases ha; exact Int.le_refl _⟩
  | x :: l, o => by
    obtain ⟨i1, i2⟩ := foldl_omax_spec l (omax o x)
    simp only [List.foldl_cons]
    constructor
    · rw [i1]
      cases o <;> simp [omax]
    · intro m hm
      obtain ⟨j1, j2, j3⟩ := i2 m hm
      cases o with
      | none =>
        simp only [omax] at j1 j2
        refine ⟨Or.inr ?_, fun a ha => (by cases ha), ?_⟩
        · rcases j1 with h | h
          · cases h; exact List.mem_cons_self ..
          · exact List.mem_cons_of_mem _ h
        · intro y hy
          rcases List.mem_cons.1 hy with rfl | h
          · exact j2 _ rfl
          · exact j3 y h
      | some a =>
        simp only [omax] at j1 j2
        have hmax := j2 _ rfl
        have ha : a ≤ max a x := Int.le_max_left _ _
        have hx : x ≤ max a x := Int.le_max_right _ _
        refine ⟨?_, fun b hb => (by cases hb; omega), ?_⟩
        · rcases j1 with h | h
          · cases h
            rw [Int.max_def]
            split
            · exact Or.inr (List.mem_cons_self ..)
            · exact Or.inl rfl
          · exact Or.inr (List.mem_cons_of_mem _ h)
        · intro y hy
          rcases List.mem_cons.1 hy with rfl | h
          · omega
          · exact j3 y h

/-- `maxTs` is the maximum: `none` exactly for the empty list, otherwise an element of the list
that bounds every element -/
theorem maxTs_spec (l : List Int) :
    (maxTs l = none ↔ l = []) ∧ (∀ m, maxTs l = some m → m ∈ l ∧ ∀ x ∈ l, x ≤ m) := by
  obtain ⟨a, b⟩ := foldl_omax_spec l none
  refine ⟨by simpa [maxTs] using a, ?_⟩
  intro m hm
  obtain ⟨b1, _, b3⟩ := b m hm
  refine ⟨?_, b3⟩
  rcases b1 with h | h
  · cases h
  · exact h

theorem maxTs_append (l k : List Int) : maxTs (l ++ k) = k.foldl omax (maxTs l) := by
  simp [maxTs, List.foldl_append]

/-- the timestamp notification `n` contributes to target `t`'s latest timestamp: `n.ts` when `n`
is tracked (its first update is not under `meta`) and accepted (one of its update units was
stored — announced or suppressed), nothing otherwise -/
def acceptedTs (cfg : Cfg) (now : Int) (t : Target) (n : Noti) : List Int :=
  if tracked n && (notiOuts cfg now t n).any UnitOut.isAccept then [n.ts] else []

/-- **One notification.** On a well-formed target `Target.GnmiUpdate` moves `Target.ts` to the
maximum of its old value and the timestamp the notification contributes (if any). -/
theorem gnmiUpdate_latest (cfg : Cfg) (now : Int) (t : Target) (n : Noti) (hi : TInv t)
    (ht : n.target ≠ "") :
    (t.gnmiUpdate cfg now n).2.1.latest = (acceptedTs cfg now t n).foldl omax t.latest := by
  have h1 := C15.latest_step cfg now t n hi ht (tracked n) (tracks_eq n ht)
  obtain ⟨hnp, _⟩ := dispatch_ok cfg now t n hi ht
  obtain ⟨_, _, hf⟩ := dispatch_ctr cfg now t n
  rw [h1, hf hnp, Bool.and_comm]
  unfold acceptedTs
  split
  · simp only [List.foldl_cons, List.foldl_nil]
    cases t.latest <;> rfl
  · rfl

theorem metaNoti_untracked (enc : String → String) (tg name : String) (v : Scalar) (now : Int) :
    tracked (metaNoti enc tg name v now) = false := by
  simp [tracked, metaNoti, updKey, joinKey]

theorem deleteNotiOf_untracked (enc : String → String) (tg : String) (p : Path) (now : Int) :
    tracked (deleteNotiOf enc tg p now) = false := rfl

theorem gnmiUpdate_latest_untracked (cfg : Cfg) (now : Int) (t : Target) (n : Noti) (hi : TInv t)
    (ht : n.target ≠ "") (hu : tracked n = false) : (t.gnmiUpdate cfg now n).2.1.latest = t.latest := by
  rw [gnmiUpdate_latest cfg now t n hi ht]
  simp [acceptedTs, hu]

/-- the tracked accepted timestamps on target `name` after `op`: only client notifications
(`Cache.GnmiUpdate`) contribute; `Add`, `Remove` and `Reset` of the target forget them -/
def tsStep (s : State) (name : String) (acc : List Int) : Op → List Int
  | .add nm => if nm = name then [] else acc
  | .remove nm _ => if nm = name then [] else acc
  | .reset nm _ => if nm = name then [] else acc
  | .update now pn n =>
    if pn = false ∧ n.target = name then
      match s.get name with
      | some t => acc ++ acceptedTs s.cfg now t n
      | none => acc
    else acc
  | _ => acc

/-- **The timestamps of the accepted non-metadata notifications for target `name` since its last
`Add` / `Reset`**, along the history `ops` run from `s`. -/
def tsSince (enc : String → String) (name : String) : State → List Op → List Int → List Int
  | _, [], acc => acc
  | s, op :: ops, acc => tsSince enc name (s.step enc op).1 ops (tsStep s name acc op)

def AgreeTs (s : State) (name : String) (acc : List Int) : Prop :=
  ∀ t, s.get name = some t → t.latest = maxTs acc

theorem step_agreeTs (enc : String → String) (s : State) (op : Op) (name : String) (acc : List Int)
    (hs : SInv s) (hn : NamesUnique s) (ha : AgreeTs s name acc) :
    AgreeTs (s.step enc op).1 name (tsStep s name acc op) := by
  intro t' hg
  cases op with
  | add nm =>
    simp only [State.step, State.add, tsStep] at hg ⊢
    by_cases h : nm = name
    · subst h
      rw [get_set_same] at hg; cases hg
      simp only [if_true]; rfl
    · rw [get_set_other _ _ _ _ (fun e => h e.symm)] at hg
      simp only [h, if_false]; exact ha t' hg
  | remove nm now =>
    simp only [State.step, State.remove, State.get, tsStep] at hg ⊢
    by_cases h : nm = name
    · subst h; rw [get_filter_same] at hg; simp at hg
    · rw [get_filter_other _ _ _ (fun e => h e.symm)] at hg
      simp only [h, if_false]; exact ha t' hg
  | reset nm now =>
    simp only [State.step, State.reset, tsStep] at hg ⊢
    by_cases h : nm = name
    · subst h
      rw [onTarget_get_same] at hg
      simp only [if_true]
      cases hget : s.get nm with
      | none => rw [hget] at hg; simp at hg
      | some t0 =>
        rw [hget] at hg
        simp only [Option.map_some, Option.some.injEq] at hg
        subst hg
        obtain ⟨h1, h2, hne⟩ := hs nm t0 hget
        obtain ⟨_, _, hl, _⟩ := reset_ok s.cfg enc now t0 h1 (by rw [h2]; exact hne)
        exact hl
    · rw [onTarget_get_other _ _ _ _ (fun e => h e.symm)] at hg
      simp only [h, if_false]; exact ha t' hg
  | sync nm now =>
    simp only [State.step, State.sync, tsStep] at hg ⊢
    by_cases h : nm = name
    · subst h
      rw [onTarget_get_same] at hg
      cases hget : s.get nm with
      | none => rw [hget] at hg; simp at hg
      | some t0 =>
        rw [hget] at hg
        simp only [Option.map_some, Option.some.injEq] at hg
        subst hg
        obtain ⟨h1, _, hne⟩ := hs nm t0 hget
        rw [gnmiUpdate_latest_untracked s.cfg now t0 _ h1 hne (metaNoti_untracked ..)]
        exact ha t0 hget
    · rw [onTarget_get_other _ _ _ _ (fun e => h e.symm)] at hg
      exact ha t' hg
  | connect nm now =>
    simp only [State.step, State.connect, tsStep] at hg ⊢
    by_cases h : nm = name
    · subst h
      rw [onTarget_get_same] at hg
      cases hget : s.get nm with
      | none => rw [hget] at hg; simp at hg
      | some t0 =>
        rw [hget] at hg
        simp only [Option.map_some, Option.some.injEq] at hg
        subst hg
        obtain ⟨h1, _, hne⟩ := hs nm t0 hget
        obtain ⟨_, h1', _, _⟩ := gnmiUpdate_ok s.cfg now t0 (metaNoti enc nm "connected" (.bool true) now) h1 hne
        rw [gnmiUpdate_latest_untracked s.cfg now _ _ h1' hne (deleteNotiOf_untracked ..),
          gnmiUpdate_latest_untracked s.cfg now t0 _ h1 hne (metaNoti_untracked ..)]
        exact ha t0 hget
    · rw [onTarget_get_other _ _ _ _ (fun e => h e.symm)] at hg
      exact ha t' hg
  | connectError nm msg now =>
    simp only [State.step, State.connectError, tsStep] at hg ⊢
    by_cases h : nm = name
    · subst h
      rw [onTarget_get_same] at hg
      cases hget : s.get nm with
      | none => rw [hget] at hg; simp at hg
      | some t0 =>
        rw [hget] at hg
        simp only [Option.map_some, Option.some.injEq] at hg
        subst hg
        obtain ⟨h1, _, hne⟩ := hs nm t0 hget
        rw [gnmiUpdate_latest_untracked s.cfg now t0 _ h1 hne (metaNoti_untracked ..)]
        exact ha t0 hget
    · rw [onTarget_get_other _ _ _ _ (fun e => h e.symm)] at hg
      exact ha t' hg
  | update now pn n =>
    simp only [State.step, State.gnmiUpdate, tsStep] at hg ⊢
    cases pn with
    | true =>
      simp only [if_true] at hg
      simp only [Bool.true_eq_false, false_and, if_false]
      exact ha t' hg
    | false =>
      simp only [Bool.false_eq_true, if_false, true_and] at hg ⊢
      by_cases h : n.target = name
      · simp only [h, if_true] at hg ⊢
        cases hget : s.get name with
        | none =>
          rw [hget] at hg
          simp only at hg
          rw [hget] at hg; cases hg
        | some t0 =>
          rw [hget] at hg
          simp only [get_set_same, Option.some.injEq] at hg
          subst hg
          obtain ⟨h1, _, hne⟩ := hs name t0 hget
          simp only
          rw [gnmiUpdate_latest s.cfg now t0 n h1 (by rw [h]; exact hne), maxTs_append, ha t0 hget]
      · simp only [h, if_false]
        have : s.get name = some t' := by
          split at hg
          · exact hg
          · rw [get_set_other _ _ _ _ (fun e => h e.symm)] at hg; exact hg
        exact ha t' this
  | updateMetadata now =>
    simp only [State.step, tsStep] at hg ⊢
    rw [updateMetadata_get enc now s hn name] at hg
    cases hget : s.get name with
    | none => rw [hget] at hg; simp at hg
    | some t0 =>
      rw [hget] at hg
      simp only [Option.map_some, Option.some.injEq] at hg
      subst hg
      obtain ⟨h1, h2, hne⟩ := hs name t0 hget
      rw [(updateMeta_ok s.cfg enc now true t0 h1 (by rw [h2]; exact hne)).latest]
      exact ha t0 hget

theorem run_agreeTs (enc : String → String) (name : String) : ∀ (ops : List Op) (s : State) (acc : List Int),
    SInv s → NamesUnique s → (∀ op ∈ ops, op.valid) → AgreeTs s name acc →
    AgreeTs (s.run enc ops) name (tsSince enc name s ops acc)
  | [], _, _, _, _, _, ha => ha
  | op :: ops, s, acc, hs, hn, hv, ha =>
    run_agreeTs enc name ops _ _ (step_sinv enc s op hs (hv op (List.mem_cons_self ..))).1
      (step_names enc s op hn) (fun o ho => hv o (List.mem_cons_of_mem _ ho))
      (step_agreeTs enc s op name acc hs hn ha)

/-- **The latest timestamp is the greatest accepted target timestamp.**  In every state
reachable from the empty cache by any history of API calls, `Target.ts` of a registered target is
the maximum (`maxTs_spec`) of the timestamps of the client notifications addressed to it since
its last `Add` / `Reset` that were tracked (first update not under `meta`) and accepted (some
update unit stored); it is unset (`none`, exported as the zero `time.Time`) when there is none.
Stale, future-rejected, failed, delete-only, empty and metadata notifications, `Sync`, `Connect`,
`ConnectError` and `UpdateMetadata` never move it. -/
theorem latest_is_max (enc : String → String) (cfg : Cfg) (ops : List Op)
    (hv : ∀ op ∈ ops, op.valid) (name : String) (t : Target)
    (hg : (State.run enc { cfg := cfg } ops).get name = some t) :
    t.latest = maxTs (tsSince enc name { cfg := cfg } ops []) :=
  run_agreeTs enc name ops { cfg := cfg } [] (SInv.empty cfg) (NamesUnique.empty cfg) hv
    (fun _ h => by simp [State.get] at h) t hg

/-! ## 4. What `updateMeta` exports -/

/-- **`updateMeta` exports `Target.ts`.**  After the metadata refresh of a well-formed target:
* the metadata object's `latestTimestamp` *is* `Target.ts` (as Unix nanoseconds; the zero
  `time.Time` while nothing was accepted), and `Target.ts` itself is untouched;
* the stored `meta/latestTimestamp` leaf shows the same value, unless the value is excluded from
  the refresh (`cfg.excluded`), some longer path `meta/latestTimestamp/…` is stored (the write
  fails), or the stored leaf is not older than `now` (the write is stale) — see
  `exports_latest_leaf_needs_fresh`. -/
theorem updateMeta_exports_latest (cfg : Cfg) (enc : String → String) (now : Int) (emit : Bool)
    (t : Target) (hi : TInv t) (hn : t.name ≠ "") :
    let r := (t.updateMeta cfg enc now emit).1
    r.md.latest = exportedLatest t ∧ r.latest = t.latest ∧
    (cfg.excluded.contains "latestTimestamp" = false →
      PMap.conflicts t.tree latestKey = false →
      (∀ old, lookup t.tree latestKey = some old → old.ts < now) →
      leafVal r latestKey = some (.scalar (.int (exportedLatest t)))) := by
  intro r
  refine ⟨(updateMeta_ctr cfg enc now emit t).2, (updateMeta_ok cfg enc now emit t hi hn).latest, ?_⟩
  intro hx hfree hfresh
  have hp : PreL 0 0 now (exportedLatest t) { t with md := { t.md with latest := exportedLatest t } } :=
    ⟨hi.with_md _ ⟨rfl, rfl, rfl⟩, hn, rfl, hfree, hfresh⟩
  exact generateMetaUpdates_leaf cfg enc now emit _ _ hx hp

/-- **The exported value over histories**: after any history followed by `UpdateMetadata`, the
`latestTimestamp` of every registered target's metadata object is the maximum of the timestamps
of its accepted non-metadata notifications since its last `Add` / `Reset` (the zero `time.Time`
in Unix nanoseconds when there is none). -/
theorem history_exported_latest (enc : String → String) (cfg : Cfg) (ops : List Op) (now : Int)
    (hv : ∀ op ∈ ops, op.valid) (name : String) (t : Target)
    (hg : (State.run enc { cfg := cfg } (ops ++ [.updateMetadata now])).get name = some t) :
    t.md.latest = (match maxTs (tsSince enc name { cfg := cfg } ops []) with
      | some m => m
      | none => zeroUnixNano) := by
  have hrun : ∀ (l : List Op) (s : State) (op : Op), State.run enc s (l ++ [op]) = ((State.run enc s l).step enc op).1 := by
    intro l
    induction l with
    | nil => intro s op; rfl
    | cons o l ih => intro s op; exact ih _ op
  rw [hrun] at hg
  have hnames : ∀ (l : List Op) (s : State), NamesUnique s → NamesUnique (State.run enc s l) := by
    intro l
    induction l with
    | nil => intro s h; exact h
    | cons o l ih => intro s h; exact ih _ (step_names enc s o h)
  have hn := hnames ops { cfg := cfg } (NamesUnique.empty cfg)
  simp only [State.step] at hg
  rw [updateMetadata_get enc now _ hn name] at hg
  cases hget : (State.run enc { cfg := cfg } ops).get name with
  | none => rw [hget] at hg; simp at hg
  | some t0 =>
    rw [hget] at hg
    simp only [Option.map_some, Option.some.injEq] at hg
    subst hg
    rw [(updateMeta_ctr _ enc now true t0).2, ← latest_is_max enc cfg ops hv name t0 hget]
    rfl

/-! ## Non-vacuity and witnesses -/

def nA : Noti :=
  { ts := 5, target := "t1", pfx := ["a"], praw := "p",
    upd := [{ path := ["b"], val := .scalar (.int 1), raw := "u" }] }
/-- two updates (the first repeats the stored value, the second is new) and a delete -/
def nM : Noti :=
  { ts := 7, target := "t1", pfx := ["a"], praw := "p",
    upd := [{ path := ["b"], val := .scalar (.int 1), raw := "u" },
            { path := ["c"], val := .scalar (.int 2), raw := "v" }],
    del := [{ path := ["zz"], raw := "d" }] }
/-- an atomic notification with two updates -/
def nAt : Noti :=
  { ts := 8, target := "t1", pfx := ["x"], praw := "q", atomic := true,
    upd := [{ path := ["1"], val := .scalar (.int 1), raw := "u1" },
            { path := ["2"], val := .scalar (.int 2), raw := "u2" }] }
def nStale : Noti := { nA with ts := 1 }
def nEmpty : Noti := { ts := 9, target := "t1", praw := "p" }
def nDel : Noti := { ts := 20, target := "t1", pfx := ["a"], praw := "p", del := [{ path := ["b"], raw := "d" }] }
def nMeta : Noti :=
  { ts := 100, target := "t1", praw := "p",
    upd := [{ path := ["meta", "latestTimestamp"], val := .scalar (.int 7), raw := "m" }] }

def hist : List Op :=
  [.add "t1", .add "t2", .update 10 false nA, .update 10 false { nA with target := "t2" },
   .update 10 false nM, .update 10 false nAt, .update 10 false nStale, .update 10 false nEmpty,
   .sync "t1" 11, .updateMetadata 12, .update 30 false nDel]

/-- a multi-update notification has one unit per update and per delete -/
example : notiOuts {} 10 (Target.gnmiUpdate {} 10 { name := "t1" } nA).2.1 nM =
    [.suppressed, .accepted 1 true, .deleted 0] := by decide

set_option maxRecDepth 16384 in
/-- a non-trivial reachable state: the hypotheses of the history theorems are satisfiable and the
counters are what the ledger says -/
example : ∃ t, (State.run id {} hist).get "t1" = some t ∧
    ctrOf t.md = { updated := 7, suppressed := 1, stale := 1, empty := 1, added := 3, deleted := 1, leaves := 2 } ∧
    t.latest = some 8 ∧ t.md.latest = 8 := ⟨_, rfl, by decide, by decide, by decide⟩

set_option maxRecDepth 16384 in
example : sumDelta (unitsSince id "t1" {} hist []) =
    { updated := 7, suppressed := 1, stale := 1, empty := 1, added := 3, deleted := 1, leaves := 2 } := by decide

example : tsSince id "t1" {} hist [] = [5, 7, 8] := by decide

set_option maxRecDepth 16384 in
/-- `Reset` restarts the ledger and the timestamps -/
example : sumDelta (unitsSince id "t1" {} (hist ++ [.reset "t1" 40]) []) = 0 ∧
    tsSince id "t1" {} (hist ++ [.reset "t1" 40]) [] = [] := by decide

/-- **The freshness side condition of `updateMeta_exports_latest` is necessary**: a client that
wrote `meta/latestTimestamp` itself with a timestamp ahead of the cache's clock keeps the stored
leaf at its own value — the refresh's write is stale (and is counted as such) — while the
metadata object is refreshed.  (Same scenario as `corpus/C15/hist_client_written_latest_leaf.ops`,
which the code reproduces; `targetLeavesStale` is excluded from the refresh there because Go ranges
over maps in `generateMetaUpdates`, so whether the `meta/targetLeavesStale` leaf written by the same
refresh already shows the bump depends on the iteration order.) -/
theorem exports_latest_leaf_needs_fresh :
    let cfg : Cfg := { excluded := ["targetLeavesStale"] }
    let t := (Target.gnmiUpdate cfg 10 (Target.gnmiUpdate cfg 10 { name := "t1" } nA).2.1 nMeta).2.1
    let r := (t.updateMeta cfg id 50 true).1
    t.latest = some 5 ∧ r.md.latest = 5 ∧ leafVal r latestKey = some (.scalar (.int 7)) ∧
    r.md.stale = t.md.stale + 1 := by decide

end C15Hist
end Gnmi
