import Gnmi.Lemmas.LatencyNames
/-!
# C15, latency naming: window names, metadata names, `-latency_windows` parsing

Model: `Model/LatencyNames.lean` (`latency/latency.go`: `CompactDurationString`,
`StatType.String`, `MetadataName`, `Path`, `ParseWindows`; Go standard library:
`time.Duration.String`, `time.ParseDuration`).  Helper lemmas: `Lemmas/LatencyNames.lean`.

What is proved, all of it for **every** `int64` duration / every byte string / every list:

* `durationString_roundtrip`, `compact_roundtrip` — `ParseDuration` accepts what
  `Duration.String` and `CompactDurationString` print and gives the duration back (including
  `0`, sub-second forms with `ns`/`µs`/`ms` and a fraction, negative durations, `minInt64`); the
  float arithmetic `ParseDuration` does on a fraction is exact on these strings.
* `compact_preserves_parse` — for **any** string, not only printed ones, `CompactDurationString`'s
  suffix surgery does not change what `ParseDuration` returns (value or error).
* `compactDurationString_injective`, `metadataName_injective`, `path_injective` — no two
  (window, statistic) pairs share a metadata name / path; `metadataName_unknown_collide` shows
  the restriction to `Avg`/`Max`/`Min` is needed.
* `parseWindows_accepts_iff` and its companions — what `ParseWindows` accepts, which error wins,
  the divide-by-zero panic for a zero update period.
* `parseWindows_names_distinct` — the windows accepted by `ParseWindows`, if pairwise different,
  give pairwise different metadata names.
* `durationString_fits_buffer` — the `[32]byte` buffer of `Duration.format` is never overrun
  (the index expressions `buf[w]` cannot panic); `parseDuration_fuel` — the structural fuel of the
  model's parse loop never runs out.

Observation about the standard library, pinned as `parseDuration_sum_wraps` (checked against
`time.ParseDuration` of go1.23.5): the accumulation `d += v` is a `uint64` addition checked only
*after* the fact against `1<<63`, so two components of `2^63` ns wrap to `0` and
`ParseDuration("9223372036854775808ns9223372036854775808ns")` returns `0, nil`; `ParseWindows`
inherits this.  It does not affect any theorem here (the model wraps where the code wraps).

Left open (stated as a `Prop`, not proved): `implDefined_unreachable` — the float-to-`uint64`
conversion inside `ParseDuration` never sees a value outside `uint64` (true because a fraction
`f/scale` is below 1, so the product stays below the unit, at most 3.6e12; a proof needs an error
analysis of the two roundings for arbitrary digit strings).  On the strings this file is about
(printed durations, their compact forms) the outcome is excluded by the round trips; the
correspondence runs never produced it.

Remarks on the callers (read off `/repo`, not modelled): `cache.WithLatencyWindows` returns
before calling `ParseWindows` when the period is `0`, so the panic of
`parseWindows_zero_period_panics` is reachable only by direct callers of the exported
`latency.ParseWindows`.  `ParseWindows` does not reject two spellings of one window
(`"2m"`, `"120s"`): the `Nodup` hypothesis of `parseWindows_names_nodup` is not established by it
(last example of section 5).  `Path` is `append(prefix, …)`: its result shares `prefix`'s backing
array when that has spare capacity; the model is about the value returned (the only caller,
`metadata.LatencyPath`, passes a fresh one-element slice).
-/
namespace Gnmi.C15LatNames
open Gnmi.LatNames

/-! ## 1. printing and parsing back -/

theorem wrapI64_range (x : Int) : InInt64 (wrapI64 x) := by
  unfold InInt64 wrapI64 two63 two64; omega

/-- the magnitude `Duration.format` prints: `u := uint64(d); if d < 0 { u = -u }` is `|d|` -/
theorem magnitude (d : Int) (h : InInt64 d) :
    (if d < 0 then wrapU64 (-(wrapU64 d : Int)) else wrapU64 d) = d.natAbs := by
  unfold InInt64 two63 at h
  unfold wrapU64 two64
  split <;> omega

theorem wrapI64_neg_natAbs (d : Int) (h : InInt64 d) (hneg : d < 0) :
    wrapI64 (-(wrapI64 (d.natAbs : Int))) = d := by
  simp only [InInt64, two63] at h
  simp only [wrapI64, two63, two64]
  omega

/-- `ParseDuration` on a sign (or none) followed by a printed magnitude -/
theorem parseDuration_formatU (s : GoString) (neg : Bool) (u : Nat) (hu : u ≤ two63)
    (hs : stripSign s = (neg, formatU u)) :
    parseDuration s = if neg then .ok (wrapI64 (-(wrapI64 u)))
      else if u > two63 - 1 then .err .invalid else .ok u := by
  have hrt := formatU_roundtrip 0 u hu
  have hhd := formatU_headDigit u
  have h1 : formatU u ≠ [48] := by
    intro h; rw [h] at hrt
    have : parseLoop (0 + 3) [48] 0 = .error .missingUnit := by rfl
    rw [this] at hrt; cases hrt
  have h2 : formatU u ≠ [] := by
    intro h; obtain ⟨c, r, e, _⟩ := hhd; rw [h] at e; cases e
  have h3 : parseLoop (formatU u).length (formatU u) 0 = .ok u := by
    rw [parseLoop_fuel_irrel _ ((formatU u).length + 3) _ _ (Nat.le_refl _) (by omega)]
    exact formatU_roundtrip _ u hu
  unfold parseDuration
  simp only [hs, h1, h2, if_false, h3]

/-- **durationString_roundtrip.**  For every `int64` duration `d`,
`time.ParseDuration(d.String())` returns `d` and no error. -/
theorem durationString_roundtrip (d : Int) (h : InInt64 d) : parseDuration (durationString d) = .ok d := by
  have hm := magnitude d h
  have hu : d.natAbs ≤ two63 := by unfold InInt64 at h; omega
  unfold durationString
  simp only [hm]
  by_cases hneg : d < 0
  · simp only [hneg, if_true]
    rw [parseDuration_formatU _ true d.natAbs hu rfl]
    simp only [if_true]
    rw [wrapI64_neg_natAbs d h hneg]
  · simp only [hneg, if_false]
    rw [parseDuration_formatU _ false d.natAbs hu (stripSign_headDigit _ (formatU_headDigit _))]
    have : ¬ (d.natAbs > two63 - 1) := by unfold InInt64 at h; omega
    simp only [Bool.false_eq_true, if_false, this]
    congr 1; omega

/-- **compact_preserves_parse.**  Whatever the string `s` is, the string `CompactDurationString`
makes of it (drop `0m0s` after an `h`, drop `0s` after an `m`) is parsed by `ParseDuration` to the
same result, value or error. -/
theorem compact_preserves_parse (s : GoString) : parseDuration (compactString s) = parseDuration s := by
  unfold compactString
  simp only
  split
  · rename_i h
    obtain ⟨h6, hs⟩ := h
    have e : s = s.take (s.length - 5) ++ sufH0M0S := by rw [← hs, List.take_append_drop]
    generalize s.take (s.length - 5) = p at e
    subst e
    have : (p ++ sufH0M0S).take ((p ++ sufH0M0S).length - 4) = p ++ [104] := by
      have hl : (p ++ sufH0M0S).length - 4 = p.length + 1 := by simp [sufH0M0S]
      rw [hl, List.take_append]; simp [sufH0M0S, List.take_of_length_le]
    rw [this]
    have s1 := parseDuration_strip p 104 [109] 60000000000 (by decide) (by decide) (by decide) ub_m (by decide) (by decide)
    have s2 := parseDuration_strip (p ++ [104, 48]) 109 [115] 1000000000 (by decide) (by decide) (by decide) ub_s
      (by decide) (by decide)
    simp only [List.append_assoc, List.cons_append, List.nil_append] at s1 s2
    simp only [sufH0M0S]
    rw [s2, s1]
  · split
    · rename_i _ h
      obtain ⟨h4, hs⟩ := h
      have e : s = s.take (s.length - 3) ++ sufM0S := by rw [← hs, List.take_append_drop]
      generalize s.take (s.length - 3) = p at e
      subst e
      have : (p ++ sufM0S).take ((p ++ sufM0S).length - 2) = p ++ [109] := by
        have hl : (p ++ sufM0S).length - 2 = p.length + 1 := by simp [sufM0S]
        rw [hl, List.take_append]; simp [sufM0S, List.take_of_length_le]
      rw [this]
      have s2 := parseDuration_strip p 109 [115] 1000000000 (by decide) (by decide) (by decide) ub_s
        (by decide) (by decide)
      simp only [List.append_assoc, List.cons_append, List.nil_append] at s2
      simp only [sufM0S]
      rw [s2]
    · rfl

/-- **compact_roundtrip.**  For every `int64` duration `d`,
`time.ParseDuration(CompactDurationString(d))` returns `d` and no error. -/
theorem compact_roundtrip (d : Int) (h : InInt64 d) : parseDuration (compactDurationString d) = .ok d := by
  unfold compactDurationString
  rw [compact_preserves_parse, durationString_roundtrip d h]

/-- `Duration.String` is injective on `int64` -/
theorem durationString_injective (d d' : Int) (h : InInt64 d) (h' : InInt64 d')
    (e : durationString d = durationString d') : d = d' := by
  have := durationString_roundtrip d h
  rw [e, durationString_roundtrip d' h'] at this
  injection this with this; exact this.symm

/-- **compactDurationString_injective.**  Two different `int64` window sizes never get the same
compact string. -/
theorem compactDurationString_injective (d d' : Int) (h : InInt64 d) (h' : InInt64 d')
    (e : compactDurationString d = compactDurationString d') : d = d' := by
  have := compact_roundtrip d h
  rw [e, compact_roundtrip d' h'] at this
  injection this with this; exact this.symm

/-- **durationString_fits_buffer.**  `Duration.format` writes at most 25 of the 32 bytes of its
buffer: no `buf[w]` is out of range. -/
theorem durationString_fits_buffer (d : Int) (h : InInt64 d) : (durationString d).length ≤ 32 := by
  have hm := magnitude d h
  have hu : d.natAbs ≤ two63 := by unfold InInt64 at h; omega
  have := formatU_length_le d.natAbs hu
  unfold durationString
  simp only [hm]
  split
  · simp; omega
  · omega

/-- **parseDuration_fuel.**  The fuel of the model's parse loop (`len(s)`) never runs out: every
iteration of `for s != ""` consumes at least one byte. -/
theorem parseDuration_fuel (s : GoString) : parseDuration s ≠ .err .outOfFuel := by
  unfold parseDuration
  simp only
  split
  · simp
  · split
    · simp
    · have := parseLoop_ne_outOfFuel (stripSign s).2.length (stripSign s).2 0 (Nat.le_refl _)
      split
      · rename_i e heq
        rw [heq] at this
        intro h; injection h with h; exact this (by rw [h])
      · split
        · simp
        · split <;> simp

/-- what `ParseDuration` returns is an `int64` -/
theorem parseDuration_int64 (s : GoString) (d : Int) (h : parseDuration s = .ok d) : InInt64 d := by
  unfold parseDuration at h
  simp only at h
  split at h
  · injection h with h; subst h; decide
  · split at h
    · simp at h
    · split at h
      · simp at h
      · split at h
        · injection h with h; subst h; exact wrapI64_range _
        · split at h
          · simp at h
          · rename_i dd _ _ hle
            injection h with h; subst h
            unfold InInt64; unfold two63 at *; omega

/-- not proved (see the header): the implementation-defined float conversion is never reached -/
def implDefined_unreachable : Prop := ∀ s : GoString, parseDuration s ≠ .err .implDefined

/-- what is proved of it: not on anything `Duration.String` / `CompactDurationString` print -/
theorem implDefined_unreachable_partial (d : Int) (h : InInt64 d) :
    parseDuration (durationString d) ≠ .err .implDefined
    ∧ parseDuration (compactDurationString d) ≠ .err .implDefined := by
  rw [durationString_roundtrip d h, compact_roundtrip d h]
  exact ⟨by simp, by simp⟩

/-- standard-library behaviour the model reproduces (see the header): the sum of the components
is a `uint64` that may wrap before it is compared with `1<<63` -/
theorem parseDuration_sum_wraps :
    parseDuration [57,50,50,51,51,55,50,48,51,54,56,53,52,55,55,53,56,48,56,110,115,
                   57,50,50,51,51,55,50,48,51,54,56,53,52,55,55,53,56,48,56,110,115] = .ok 0 := by decide

/-! ## 2. metadata names and paths -/

theorem statTypeString_cases (t : Int) :
    statTypeString t = elemAvg ∨ statTypeString t = elemMax ∨ statTypeString t = elemMin
      ∨ statTypeString t = strUnknown := by
  unfold statTypeString
  split
  · exact Or.inl rfl
  · split
    · exact Or.inr (Or.inl rfl)
    · split
      · exact Or.inr (Or.inr (Or.inl rfl))
      · exact Or.inr (Or.inr (Or.inr rfl))

/-- `typ` is one of `Avg`, `Max`, `Min` -/
def KnownStat (t : Int) : Prop := t = statAvg ∨ t = statMax ∨ t = statMin

/-- `StatType.String` tells `Avg`, `Max`, `Min` apart -/
theorem statTypeString_injective (t t' : Int) (h : KnownStat t) (h' : KnownStat t')
    (e : statTypeString t = statTypeString t') : t = t' := by
  rcases h with rfl | rfl | rfl <;> rcases h' with rfl | rfl | rfl <;> first | rfl | (revert e; decide)

/-- the name splits uniquely: the statistic's string and the window's string can be read off -/
theorem metaName_split (w w' t t' : Int) (e : metaName w t = metaName w' t') :
    statTypeString t = statTypeString t' ∧ compactDurationString w = compactDurationString w' := by
  unfold metaName at e
  rcases statTypeString_cases t with h | h | h | h <;> rcases statTypeString_cases t' with h' | h' | h' | h' <;>
    rw [h, h'] at e ⊢ <;>
    simp [elemAvg, elemMax, elemMin, strUnknown, metaNameConst] at e ⊢ <;> exact e

/-- **metadataName_injective.**  `MetadataName(w, typ) = MetadataName(w', typ')` only if
`w = w'` and `typ = typ'`, for `int64` windows and `typ, typ' ∈ {Avg, Max, Min}`: no two
statistics collide on one metadata leaf. -/
theorem metadataName_injective (w w' t t' : Int) (hw : InInt64 w) (hw' : InInt64 w')
    (ht : KnownStat t) (ht' : KnownStat t') (e : metaName w t = metaName w' t') : w = w' ∧ t = t' := by
  obtain ⟨e1, e2⟩ := metaName_split w w' t t' e
  exact ⟨compactDurationString_injective w w' hw hw' e2, statTypeString_injective t t' ht ht' e1⟩

/-- for arbitrary `StatType` values the window is still determined, the type only up to its string -/
theorem metadataName_injective_general (w w' t t' : Int) (hw : InInt64 w) (hw' : InInt64 w')
    (e : metaName w t = metaName w' t') : w = w' ∧ statTypeString t = statTypeString t' := by
  obtain ⟨e1, e2⟩ := metaName_split w w' t t' e
  exact ⟨compactDurationString_injective w w' hw hw' e2, e1⟩

/-- the restriction to `Avg`/`Max`/`Min` is necessary: all other `StatType` values are "unknown" -/
theorem metadataName_unknown_collide (w : Int) : metaName w 3 = metaName w (-1) := rfl

/-- **path_injective.**  `Path(w, typ, prefix) = Path(w', typ', prefix')` only if the prefixes,
the windows and the types are the same. -/
theorem path_injective (w w' t t' : Int) (p p' : List GoString) (hw : InInt64 w) (hw' : InInt64 w')
    (ht : KnownStat t) (ht' : KnownStat t') (e : metaPath w t p = metaPath w' t' p') :
    p = p' ∧ w = w' ∧ t = t' := by
  unfold metaPath at e
  obtain ⟨e1, e2⟩ := List.append_inj' e (by simp)
  simp only [List.cons.injEq, and_true, true_and] at e2
  exact ⟨e1, compactDurationString_injective w w' hw hw' e2.1, statTypeString_injective t t' ht ht' e2.2⟩

/-! ## 3. `ParseWindows` -/

theorem parseWindowsLoop_ok_iff (p : Int) (hp : p ≠ 0) (tds : List GoString) (acc ds : List Int) :
    parseWindowsLoop p tds acc = .ok ds ↔
      ∃ durs, ds = acc ++ durs ∧ tds.map parseDuration = durs.map PRes.ok ∧ ∀ dur ∈ durs, Int.tmod dur p = 0 := by
  induction tds generalizing acc with
  | nil =>
    simp only [parseWindowsLoop, List.map_nil]
    constructor
    · intro h; injection h with h; exact ⟨[], by simp [h], by simp, by simp⟩
    · rintro ⟨durs, rfl, h2, _⟩
      have : durs = [] := by cases durs <;> simp_all
      simp [this]
  | cons td r ih =>
    rw [parseWindowsLoop]
    cases hpd : parseDuration td with
    | err e =>
      simp only
      constructor
      · intro h; cases h
      · rintro ⟨durs, _, h2, _⟩
        cases durs with
        | nil => simp at h2
        | cons a durs => simp [hpd] at h2
    | ok dur =>
      simp only [hp, if_false]
      by_cases hm : Int.tmod dur p ≠ 0
      · rw [if_pos hm]
        constructor
        · intro h; cases h
        · rintro ⟨durs, _, h2, h3⟩
          cases durs with
          | nil => simp at h2
          | cons a durs =>
            simp [hpd] at h2
            exact absurd (h3 a (by simp)) (by rw [← h2.1]; exact hm)
      · rw [if_neg hm, ih]
        have hm' : Int.tmod dur p = 0 := by simpa using hm
        constructor
        · rintro ⟨durs, rfl, h2, h3⟩
          refine ⟨dur :: durs, by simp, by simp [hpd, h2], ?_⟩
          intro x hx
          rcases List.mem_cons.1 hx with rfl | hx
          · exact hm'
          · exact h3 x hx
        · rintro ⟨durs, rfl, h2, h3⟩
          cases durs with
          | nil => simp at h2
          | cons a durs =>
            simp [hpd] at h2
            obtain ⟨rfl, h2⟩ := h2
            exact ⟨durs, by simp, h2, fun x hx => h3 x (by simp [hx])⟩

/-- **parseWindows_accepts_iff.**  With a non-zero update period `p`, `ParseWindows(tds, p)`
returns the durations `ds` (and no error) iff every `td` is accepted by `ParseDuration`, `ds` is
the list of the parsed durations in order, and every one of them satisfies `dur % p == 0`. -/
theorem parseWindows_accepts_iff (tds : List GoString) (p : Int) (ds : List Int) (hp : p ≠ 0) :
    parseWindows tds p = .ok ds ↔
      tds.map parseDuration = ds.map PRes.ok ∧ ∀ dur ∈ ds, Int.tmod dur p = 0 := by
  unfold parseWindows
  rw [parseWindowsLoop_ok_iff p hp]
  constructor
  · rintro ⟨durs, rfl, h2, h3⟩; exact ⟨by simpa using h2, by simpa using h3⟩
  · rintro ⟨h2, h3⟩; exact ⟨ds, by simp, h2, h3⟩

/-- **parseWindows_rejects_non_multiple.**  A window that parses to a duration that is not a
multiple of the (non-zero) update period makes `ParseWindows` fail, wherever it is in the list. -/
theorem parseWindows_rejects_non_multiple (tds : List GoString) (p : Int) (hp : p ≠ 0) (td : GoString) (dur : Int)
    (hmem : td ∈ tds) (hpd : parseDuration td = .ok dur) (hm : Int.tmod dur p ≠ 0) (ds : List Int) :
    parseWindows tds p ≠ .ok ds := by
  intro h
  obtain ⟨h2, h3⟩ := (parseWindows_accepts_iff tds p ds hp).1 h
  have : parseDuration td ∈ tds.map parseDuration := List.mem_map.2 ⟨td, hmem, rfl⟩
  rw [h2, hpd] at this
  obtain ⟨x, hx, e⟩ := List.mem_map.1 this
  injection e with e; subst e
  exact hm (h3 x hx)

/-- every window of `l` parses to a multiple of `p` -/
def AllGood (p : Int) (l : List GoString) : Prop :=
  ∀ td ∈ l, ∃ dur, parseDuration td = .ok dur ∧ Int.tmod dur p = 0

theorem parseWindowsLoop_skip (p : Int) (hp : p ≠ 0) (pre rest : List GoString) (acc : List Int) (h : AllGood p pre) :
    ∃ acc', parseWindowsLoop p (pre ++ rest) acc = parseWindowsLoop p rest acc' := by
  induction pre generalizing acc with
  | nil => exact ⟨acc, rfl⟩
  | cons td pre ih =>
    obtain ⟨dur, h1, h2⟩ := h td (by simp)
    simp only [List.cons_append]
    rw [parseWindowsLoop, h1]
    simp only [hp, if_false, h2, ne_eq, not_true]
    exact ih _ (fun x hx => h x (by simp [hx]))

/-- **first error wins (parse error).**  If everything before `td` is fine and `td` is rejected
by `ParseDuration`, `ParseWindows` returns the error about `td`, whatever follows. -/
theorem parseWindows_first_parse_error (pre post : List GoString) (td : GoString) (p : Int) (hp : p ≠ 0) (e : PErr)
    (hpre : AllGood p pre) (htd : parseDuration td = .err e) :
    parseWindows (pre ++ td :: post) p = .parseErr td e := by
  unfold parseWindows
  obtain ⟨acc', h⟩ := parseWindowsLoop_skip p hp pre (td :: post) [] hpre
  rw [h, parseWindowsLoop, htd]

/-- **first error wins (not a multiple).** -/
theorem parseWindows_first_non_multiple (pre post : List GoString) (td : GoString) (p : Int) (hp : p ≠ 0) (dur : Int)
    (hpre : AllGood p pre) (htd : parseDuration td = .ok dur) (hm : Int.tmod dur p ≠ 0) :
    parseWindows (pre ++ td :: post) p = .notMultiple td := by
  unfold parseWindows
  obtain ⟨acc', h⟩ := parseWindowsLoop_skip p hp pre (td :: post) [] hpre
  rw [h, parseWindowsLoop, htd]
  simp only [hp, if_false]
  rw [if_pos hm]

/-- **parseWindows_zero_period_panics.**  With `metaUpdatePeriod == 0` the first window that
parses makes `dur.Nanoseconds() % 0` panic (integer divide by zero). -/
theorem parseWindows_zero_period_panics (td : GoString) (r : List GoString) (dur : Int)
    (h : parseDuration td = .ok dur) : parseWindows (td :: r) 0 = .panic := by
  unfold parseWindows
  rw [parseWindowsLoop, h]; rfl

/-- with a zero period `ParseWindows` never returns durations, except for the empty list -/
theorem parseWindows_zero_period (tds : List GoString) :
    parseWindows tds 0 = match tds with
      | [] => .ok []
      | td :: _ => match parseDuration td with
        | .ok _ => .panic
        | .err e => .parseErr td e := by
  cases tds with
  | nil => rfl
  | cons td r =>
    show parseWindowsLoop 0 (td :: r) [] = match parseDuration td with
      | .ok _ => .panic
      | .err e => .parseErr td e
    rw [parseWindowsLoop]
    cases parseDuration td <;> rfl

/-- one window: `ParseWindows` is `ParseDuration` followed by the arithmetic test modelled in
`Model/Latency.lean` (`parseWindow`) -/
theorem parseWindows_single (td : GoString) (p dur : Int) (h : parseDuration td = .ok dur) :
    parseWindows [td] p = match Latency.parseWindow dur p with
      | .ok => .ok [dur]
      | .notMultiple => .notMultiple td
      | .panic => .panic := by
  unfold parseWindows Latency.parseWindow
  rw [parseWindowsLoop, h]
  simp only
  split
  · rfl
  · split
    · rfl
    · rfl

theorem parseWindowsLoop_mem (p : Int) (tds : List GoString) (acc ds : List Int)
    (h : parseWindowsLoop p tds acc = .ok ds) :
    ∀ dur ∈ ds, dur ∈ acc ∨ ∃ td ∈ tds, parseDuration td = .ok dur := by
  induction tds generalizing acc with
  | nil =>
    simp only [parseWindowsLoop] at h
    injection h with h; subst h
    intro dur hd; exact Or.inl hd
  | cons td r ih =>
    rw [parseWindowsLoop] at h
    cases hpd : parseDuration td with
    | err e => rw [hpd] at h; cases h
    | ok d0 =>
      simp only [hpd] at h
      by_cases hp0 : p = 0
      · rw [if_pos hp0] at h; cases h
      · rw [if_neg hp0] at h
        by_cases hm0 : Int.tmod d0 p ≠ 0
        · rw [if_pos hm0] at h; cases h
        · rw [if_neg hm0] at h
          intro dur hd
          rcases ih _ h dur hd with hacc | ⟨td', hm, hp'⟩
          · rcases List.mem_append.1 hacc with ha | ha
            · exact Or.inl ha
            · have : dur = d0 := by simpa using ha
              subst this; exact Or.inr ⟨td, by simp, hpd⟩
          · exact Or.inr ⟨td', by simp [hm], hp'⟩

/-- every duration `ParseWindows` returns is the parse of one of its arguments, hence an `int64` -/
theorem parseWindows_int64 (tds : List GoString) (p : Int) (ds : List Int) (h : parseWindows tds p = .ok ds) :
    ∀ dur ∈ ds, InInt64 dur := by
  intro dur hd
  rcases parseWindowsLoop_mem p tds [] ds h dur hd with h0 | ⟨td, _, hp⟩
  · simp at h0
  · exact parseDuration_int64 td dur hp

/-! ## 4. the names of the accepted windows -/

/-- **parseWindows_names_distinct.**  Among the windows accepted by `ParseWindows`, two
(window, statistic) pairs with the same `MetadataName` are the same pair. -/
theorem parseWindows_names_distinct (tds : List GoString) (p : Int) (ds : List Int)
    (h : parseWindows tds p = .ok ds) (w w' t t' : Int) (hw : w ∈ ds) (hw' : w' ∈ ds)
    (ht : KnownStat t) (ht' : KnownStat t') (e : metaName w t = metaName w' t') : w = w' ∧ t = t' :=
  metadataName_injective w w' t t' (parseWindows_int64 tds p ds h w hw) (parseWindows_int64 tds p ds h w' hw') ht ht' e

/-- the three metadata names of a window, `newWindow`'s `stats` map keys -/
def windowNames (w : Int) : List GoString := [metaName w statAvg, metaName w statMax, metaName w statMin]

/-- the same as a list statement: if the accepted durations are pairwise different, the
`3 * len(ds)` metadata names `newWindow` registers are pairwise different (no `stats` entry of one
window and no metadata leaf is shared or overwritten). -/
theorem parseWindows_names_nodup (tds : List GoString) (p : Int) (ds : List Int)
    (h : parseWindows tds p = .ok ds) (hnd : ds.Nodup) : (ds.flatMap windowNames).Nodup := by
  have hi := parseWindows_int64 tds p ds h
  have kA : KnownStat statAvg := Or.inl rfl
  have kM : KnownStat statMax := Or.inr (Or.inl rfl)
  have kN : KnownStat statMin := Or.inr (Or.inr rfl)
  unfold List.Nodup
  rw [List.pairwise_flatMap]
  constructor
  · intro w hw
    have i := hi w hw
    have n1 : metaName w statAvg ≠ metaName w statMax := fun e =>
      absurd (metadataName_injective w w _ _ i i kA kM e).2 (by decide)
    have n2 : metaName w statAvg ≠ metaName w statMin := fun e =>
      absurd (metadataName_injective w w _ _ i i kA kN e).2 (by decide)
    have n3 : metaName w statMax ≠ metaName w statMin := fun e =>
      absurd (metadataName_injective w w _ _ i i kM kN e).2 (by decide)
    simp [windowNames, n1, n2, n3]
  · refine List.Pairwise.imp_of_mem ?_ hnd
    intro w w' hw hw' hne x hx y hy e
    subst e
    simp only [windowNames, List.mem_cons, List.not_mem_nil, or_false] at hx hy
    have i := hi w hw
    have i' := hi w' hw'
    rcases hx with rfl | rfl | rfl <;> rcases hy with e | e | e <;>
      exact hne (metadataName_injective w w' _ _ i i' (by first | exact kA | exact kM | exact kN)
        (by first | exact kA | exact kM | exact kN) e).1

/-! ## 5. non-vacuity: concrete values (byte strings with their text) -/

-- `CompactDurationString` strips exactly `0m0s` after `h` and `0s` after `m`
example : durationString 120000000000 = [50, 109, 48, 115] := by decide                     -- "2m0s"
example : compactDurationString 120000000000 = [50, 109] := by decide                       -- "2m"
example : compactDurationString 3600000000000 = [49, 104] := by decide                      -- "1h"
example : compactDurationString 90000000000 = [49, 109, 51, 48, 115] := by decide           -- "1m30s"
example : durationString 5400000000000 = [49, 104, 51, 48, 109, 48, 115] := by decide       -- "1h30m0s"
example : compactDurationString 5400000000000 = [49, 104, 51, 48, 109] := by decide         -- "1h30m"
example : compactDurationString 3605000000000 = [49, 104, 48, 109, 53, 115] := by decide    -- "1h0m5s" (kept)
example : compactDurationString 0 = [48, 115] := by decide                                  -- "0s"
example : compactDurationString 1500000000 = [49, 46, 53, 115] := by decide                 -- "1.5s"
example : compactDurationString 1500 = [49, 46, 53, 194, 181, 115] := by decide             -- "1.5µs"
example : compactDurationString (-1) = [45, 49, 110, 115] := by decide                      -- "-1ns"
example : compactDurationString (-120000000000) = [45, 50, 109] := by decide                -- "-2m"
-- "-2562047h47m16.854775808s"
example : durationString (-9223372036854775808) =
    [45, 50,53,54,50,48,52,55, 104, 52,55, 109, 49,54, 46, 56,53,52,55,55,53,56,48,56, 115] := by decide
-- the hypotheses of the round trips / injectivity are satisfiable at the ends of the range
example : InInt64 (-9223372036854775808) ∧ InInt64 9223372036854775807 ∧ ¬ InInt64 9223372036854775808 := by decide
example : parseDuration (compactDurationString (-9223372036854775808)) = .ok (-9223372036854775808) := by decide
example : parseDuration (compactDurationString 9223372036854775807) = .ok 9223372036854775807 := by decide

-- `ParseDuration`
example : parseDuration [50, 109] = .ok 120000000000 := by decide                           -- "2m"
example : parseDuration [49, 46, 53, 104] = .ok 5400000000000 := by decide                  -- "1.5h" (float path)
example : parseDuration [48] = .ok 0 := by decide                                           -- "0"
example : parseDuration [] = .err .invalid := by decide                                     -- ""
example : parseDuration [49] = .err .missingUnit := by decide                               -- "1"
example : parseDuration [49, 120] = .err .unknownUnit := by decide                          -- "1x"
example : parseDuration [46, 115] = .err .invalid := by decide                              -- ".s"
example : parseDuration [49, 206, 188, 115] = .ok 1000 := by decide                         -- "1μs" (U+03BC)
-- "9223372036854775808ns" overflows, "-9223372036854775808ns" is minInt64
example : parseDuration [57,50,50,51,51,55,50,48,51,54,56,53,52,55,55,53,56,48,56,110,115] = .err .invalid := by decide
example : parseDuration [45,57,50,50,51,51,55,50,48,51,54,56,53,52,55,55,53,56,48,56,110,115]
    = .ok (-9223372036854775808) := by decide

-- names
example : metaName 120000000000 statAvg =
    [97,118,103, 76,97,116,101,110,99,121,87,105,110,100,111,119, 50,109] := by decide      -- "avgLatencyWindow2m"
example : metaPath 3600000000000 statMin [[120]] =
    [[120], elemLatency, elemWindow, [49, 104], elemMin] := by decide                         -- x/latency/window/1h/min
example : statTypeString 7 = strUnknown := by decide

-- `ParseWindows`: "2m","1h" with a 2s period; "90s" with a 1m period; a parse error first; period 0
example : parseWindows [[50, 109], [49, 104]] 2000000000 = .ok [120000000000, 3600000000000] := by decide
example : parseWindows [[50, 109], [57, 48, 115]] 60000000000 = .notMultiple [57, 48, 115] := by decide
example : parseWindows [[120], [57, 48, 115]] 60000000000 = .parseErr [120] .invalid := by decide
example : parseWindows [[57, 48, 115], [120]] 60000000000 = .notMultiple [57, 48, 115] := by decide
example : parseWindows [[50, 109]] 0 = .panic := by decide
example : parseWindows [[120], [50, 109]] 0 = .parseErr [120] .invalid := by decide
example : parseWindows [] 0 = .ok [] := by decide
-- Go's `%` is the truncated remainder: -3s is not a multiple of 2s, -4s is; minInt64 % -1 = 0
example : parseWindows [[45, 51, 115]] 2000000000 = .notMultiple [45, 51, 115] := by decide
example : parseWindows [[45, 52, 115]] 2000000000 = .ok [-4000000000] := by decide
example : parseWindows [[45,57,50,50,51,51,55,50,48,51,54,56,53,52,55,55,53,56,48,56,110,115]] (-1)
    = .ok [-9223372036854775808] := by decide
-- the hypotheses of `parseWindows_names_nodup` hold of a concrete accepted list
example : parseWindows [[50, 109], [49, 104]] 2000000000 = .ok [120000000000, 3600000000000]
    ∧ [120000000000, 3600000000000].Nodup := by decide
-- and `Nodup` is needed: "2m" and "120s" are one window
example : parseWindows [[50, 109], [49, 50, 48, 115]] 2000000000 = .ok [120000000000, 120000000000] := by decide

end Gnmi.C15LatNames
