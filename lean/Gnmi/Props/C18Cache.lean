import Gnmi.Model.ClientCache
/-!
# C18 — `CacheClient` is the identity on the callback trace (client/cache.go)

`Model/ClientLTS.lean` treats `CacheClient` as `BaseClient` on the callback trace.  This file
turns that into lemmas about the handler wrapping of `Model/ClientCache.lean`: every notification
the transport hands to `defaultHandler` reaches the caller's handler exactly once, in order, with
the caller's result handed back — for every notification type the gNMI transport produces
(`Connected`, `Update`, `Delete`, `Sync`).  `Error` values and foreign types are NOT forwarded
(`defaultHandler` returns an error instead): stated as is.
-/
namespace Gnmi
namespace C18Cache
open ClientCache

variable {P V T : Type}

theorem handler_fwd (ops : TreeOps P V T) (h : Noti P V → Bool) (st : St P V T) (n : Noti P V) :
    (defaultHandler ops (some h) st n).1.fwd = st.fwd ++ (if n.forwarded then [n] else []) ∧
    (n.forwarded = true → (defaultHandler ops (some h) st n).2 = h n) ∧
    (n.forwarded = false → (defaultHandler ops (some h) st n).2 = false) := by
  cases n <;> simp [defaultHandler, Noti.forwarded, St.closeSynced] <;> split <;> simp

/-- **forwards_in_order.**  Whatever sequence of notifications the transport hands to
`CacheClient`'s handler, the caller's handler is called with exactly the forwardable ones, in the
same order, each exactly once (`fwd` grows by `ns.filter forwarded`). -/
theorem forwards_in_order (ops : TreeOps P V T) (h : Noti P V → Bool) (st : St P V T)
    (ns : List (Noti P V)) :
    (feed ops (some h) st ns).fwd = st.fwd ++ ns.filter Noti.forwarded := by
  induction ns generalizing st with
  | nil => simp [feed]
  | cons n ns ih =>
      rw [feed, ih, (handler_fwd ops h st n).1]
      cases hf : n.forwarded <;> simp [hf]

/-- **cache_is_identity_on_callbacks.**  On the notifications the gNMI transport produces
(`Connected`, `Update`, `Delete`, `Sync`) the wrapping is the identity: the caller's handler sees
exactly the transport's sequence, and every call returns what the caller's handler returned. -/
theorem cache_is_identity_on_callbacks (ops : TreeOps P V T) (h : Noti P V → Bool) (st : St P V T)
    (ns : List (Noti P V)) (ht : ∀ n ∈ ns, n.fromTransport = true) :
    (feed ops (some h) st ns).fwd = st.fwd ++ ns ∧
    ∀ (st' : St P V T) (n : Noti P V), n ∈ ns → (defaultHandler ops (some h) st' n).2 = h n := by
  have hfw : ∀ n ∈ ns, n.forwarded = true := by
    intro n hn; have := ht n hn; cases n <;> simp_all [Noti.fromTransport, Noti.forwarded]
  refine ⟨?_, fun st' n hn => (handler_fwd ops h st' n).2.1 (hfw n hn)⟩
  rw [forwards_in_order, List.filter_eq_self.mpr hfw]

/-- without a caller's handler nothing is forwarded and every forwardable call returns nil -/
theorem no_handler (ops : TreeOps P V T) (st : St P V T) (n : Noti P V) :
    (defaultHandler ops none st n).1.fwd = st.fwd ∧
    (defaultHandler ops none st n).2 = n.forwarded := by
  cases n <;> simp [defaultHandler, Noti.forwarded, St.closeSynced] <;> split <;> simp

/-- **synced_once.**  `c.synced` is closed by the first `Sync` (or `Poll`) and never closed a
second time (no double-close panic on the handler's goroutine): `closes = 1` exactly when closed
(`Bool.toNat`: true ↦ 1, false ↦ 0). -/
theorem synced_once (ops : TreeOps P V T) (uh : Option (Noti P V → Bool)) (st : St P V T)
    (hi : st.closes = st.syncedClosed.toNat) (ns : List (Noti P V)) :
    (feed ops uh st ns).closes = (feed ops uh st ns).syncedClosed.toNat ∧
    ((feed ops uh st ns).syncedClosed = (st.syncedClosed || ns.any Noti.isSync)) := by
  induction ns generalizing st with
  | nil => simp [feed, hi]
  | cons n ns ih =>
      have key : (defaultHandler ops uh st n).1.closes =
            (defaultHandler ops uh st n).1.syncedClosed.toNat ∧
          (defaultHandler ops uh st n).1.syncedClosed = (st.syncedClosed || n.isSync) := by
        cases n <;> cases uh <;> cases hs : st.syncedClosed <;>
          simp_all [defaultHandler, St.closeSynced, Noti.isSync]
      obtain ⟨k1, k2⟩ := ih (defaultHandler ops uh st n).1 key.1
      refine ⟨by simpa [feed] using k1, ?_⟩
      simp only [feed]
      rw [k2, key.2]
      simp [List.any_cons, Bool.or_assoc]

theorem poll_closes (st : St P V T) (hi : st.closes = st.syncedClosed.toNat) :
    (poll st).syncedClosed = true ∧ (poll st).closes = 1 ∧ (poll st).fwd = st.fwd := by
  cases hs : st.syncedClosed <;> simp_all [poll, St.closeSynced]

/-! ## Non-vacuity -/

def demoOps : TreeOps Nat Nat (List (Nat × Int × Nat)) :=
  { add := fun t p v => (p, v) :: t.filter (·.1 != p), del := fun t p => t.filter (·.1 != p) }

def demoNs : List (Noti Nat Nat) := [.connected, .update 1 10 5, .update 2 11 6, .delete 1, .sync, .update 2 12 7]

example : (feed demoOps (some fun _ => true) { tree := [] } demoNs).fwd = demoNs := by decide
example : (feed demoOps (some fun _ => true) { tree := [] } demoNs).tree = [(2, 12, 7)] := by decide
example : (feed demoOps (some fun _ => true) { tree := [] } demoNs).closes = 1 := by decide
example : ∀ n ∈ demoNs, n.fromTransport = true := by decide
/-- `Error` is not forwarded -/
example : (feed demoOps (some fun _ => true) { tree := [] } [.error "x", .sync]).fwd = [.sync] := by decide

end C18Cache
end Gnmi
