import Gnmi.Props.C01Same
import Gnmi.Props.C01Glue
import Gnmi.Lemmas.PipelineCli
/-!
# C01 — the CLI-output clause: what `gnmi_cli` displays is the target's final state

The property says the quiescent view equals the target's final state "for the client library *and
for CLI output*".  `Props/C01Same.lean` proves the client-library half (`pipeline_faithful_once_…`);
`Model/Pipeline.lean` stops at the `cli.QueryDisplay` call.  This file goes through the display:

```
client.CacheClient tree ──WalkSorted──► displayWalk: b := make(pathmap); b.add(path, v.Val) … ──► b.display
```

(`cli/cli.go`; models `RX.displayWalk` / `RX.pmAddAll` / `RX.pmAdd` of `Model/RecvSurfaces.lean`, so far
used for C12's totality only).  The *displayed tree* is the pathmap handed to `pathmap.display`;
its observation is `RX.pmLeaves` — its leaves with full paths, which is what `pathmap.str` prints
and what the process-level harness `go/ve2e` (`parseGroup`) reads back from the built `gnmi_cli`'s
standard output and compares with the model's expected leaves.  The text rendering itself (`%q`,
`%v`, indentation, key sorting of `pathmap.str`) is not modelled.

* `display_walk_faithful` — `RX.displayWalk` on *every* well-formed client tree, every timestamp
  setting: returns (no panic; the model has no error outcome for `displayWalk`) and the displayed
  pathmap's leaves are a permutation of the tree's leaves (path ↦ value, or path/value +
  path/timestamp): nothing missing, extra, overwritten;
* `client_group_display` — the pipeline's client after *any* run of responses, walked in any order;
* `cli_group_display_faithful` — the **CLI clause**: under exactly the hypotheses of the ONCE clause
  (`pipeline_faithful_once_nondecreasing`) the group display of the ONCE client returns a pathmap
  whose leaves are the client's leaves, each path once, all under `T`, and outside `meta/` exactly
  `Relay.expected T (final view) qs`;
* `cli_display_walk_faithful` — the same through `RX.displayWalk` itself (any timestamp setting) on
  any `ctree` that holds the client's leaves (`Represents`; one exists: `represents_exists`);
* `cli_three_routes_same_view` — flags / `-proto` / `-proto_file` display the *same* pathmap, and it
  is the expected one (`cli_invocations_equivalent` ∘ ONCE clause); glue `toReq_clientReq`;
* `proto_display_as_received`, `single_display_as_received` — what the model gives for the other
  display modes: one display call per response (proto), one line per update / delete the client
  library delivers, in order (single).

Not covered (stated, not hidden): the step from the `gnmi.SubscribeResponse` bytes to the model's
`Sub.Resp` (the Pipeline model receives decoded index-form notifications; C12's `RX.run` receives
protobuf-shaped ones — no theorem composes the two, see docs/GAP_ANALYSIS.md "value types");
POLL and STREAM group display (the STREAM display prints one pathmap per later update: modelled in
`RX.streamHandler`, total by C12, no faithfulness statement here).
-/
namespace Gnmi
namespace C01
open Cache Pipeline Relay

/-! ## 1. `displayWalk` shows exactly the leaves of the client tree -/

/-- **display_walk_faithful** — for every well-formed client tree `t` (every tree a `CacheClient`
can hold: C09 `reachable_wf`, C12 `client_recv_total`) and every timestamp setting, `displayWalk`
returns `ok (group m)` — it does not panic, and it has no error outcome — and the leaves of the
displayed pathmap `m` are a permutation of `shownLeaves` of the tree's leaves: with
`-timestamp ""` one leaf `path ↦ value` per tree leaf; otherwise `path/value ↦ value` and
`path/timestamp ↦ formatted time`.  (A value stored at the root is shown under the empty name: D9.) -/
theorem display_walk_faithful {F D : Type} (tm : RX.TsMode) (t : RX.CTree F D) (h : Trie.WFRoot t) :
    ∃ m, RX.displayWalk tm t = .ok (.group m) ∧
      (RX.pmLeaves m).Perm ((Trie.walk t).flatMap (RX.shownLeaves tm)) :=
  RX.displayWalk_leaves tm t h

/-- with `-timestamp ""` and a tree that is not a single root leaf: path ↦ value, literally -/
theorem display_walk_faithful_off {F D : Type} (t : RX.CTree F D) (h : Trie.WFRoot t)
    (hne : ∀ kv ∈ Trie.walk t, kv.1 ≠ []) :
    ∃ m, RX.displayWalk .off t = .ok (.group m) ∧
      (RX.pmLeaves m).Perm ((Trie.walk t).map (fun kv => (kv.1, RX.DV.cval kv.2.val))) := by
  obtain ⟨m, h1, h2⟩ := display_walk_faithful .off t h
  refine ⟨m, h1, h2.trans (List.Perm.of_eq ?_)⟩
  generalize Trie.walk t = l at hne
  induction l with
  | nil => rfl
  | cons a r ih =>
    rw [List.flatMap_cons, List.map_cons, ih (fun kv hkv => hne kv (List.mem_cons_of_mem _ hkv))]
    simp [RX.shownLeaves, RX.formatTime, RX.normKey_of_ne_nil (hne a List.mem_cons_self)]

/-- the adds `displayWalk` makes are those of `cliGroupOf` (same function `RX.pmAddAll []`, same
entry shape `(path, value)` when no timestamp is shown) -/
theorem displayWalk_eq {F D : Type} (tm : RX.TsMode) (t : RX.CTree F D) :
    RX.displayWalk tm t =
      (match RX.pmAddAll [] ((Trie.walkSorted t).map (RX.walkEntry tm)) with
       | .ok m => .ok (.group m)
       | .err e => .err e
       | .panic => .panic) ∧
    (∀ kv : Path × RX.TreeVal F D, RX.walkEntry .off kv = (kv.1, .val (.cval kv.2.val))) ∧
    (∀ walk : List (Path × CLeaf),
      cliGroupOf walk = RX.pmAddAll [] (walk.map (fun kv => (kv.1, RX.PM.val kv.2.val)))) :=
  ⟨rfl, fun _ => rfl, fun _ => rfl⟩

/-! ## 2. The pipeline's client -/

/-- **client_group_display** — for the client behind *any* sequence of responses (ONCE or STREAM,
any status), its leaves walked in *any* order (`WalkSorted`'s is one): the group display returns a
pathmap whose leaves are exactly the client's `(path, value)` leaves.  No hypothesis on the run:
the client tree is prefix-free with unique keys by construction (`run_treeInv`), which is what
discharges `pathmap.add`'s unchecked assertion and excludes overwriting. -/
theorem client_group_display (once : Bool) (rs : List Sub.Resp) (st : Option Sub.Code)
    (walk : List (Path × CLeaf))
    (hw : walk.Perm ((Client.run once {} rs).finish st).leaves) :
    ∃ m, cliGroupOf walk = .ok m ∧
      (RX.pmLeaves m).Perm
        (((Client.run once {} rs).finish st).leaves.map (fun kv => (RX.normKey kv.1, kv.2.val))) := by
  have hinv : TreeInv ((Client.run once {} rs).finish st).tree := by
    rw [finish_tree]
    exact run_treeInv once rs {} treeInv_nil
  exact cliGroupOf_leaves _ walk hinv hw

/-- keys under a target are non-empty: `normKey` does nothing -/
theorem map_normKey_of_under {T : String} {l : List (Path × CLeaf)} (h : ∀ kv ∈ l, ∃ k, kv.1 = T :: k) :
    l.map (fun kv => (RX.normKey kv.1, kv.2.val)) = l.map (fun kv => (kv.1, kv.2.val)) := by
  apply List.map_congr_left
  intro kv hkv
  obtain ⟨k, hk⟩ := h kv hkv
  rw [RX.normKey_of_ne_nil (by rw [hk]; simp)]

/-- what the CLI clause says of a displayed pathmap `m`, for client `c` of target `T` -/
structure ShowsExpected (m : RX.PMap' CVal) (c : Client) (T : String) (v : View) (qs : List Path) : Prop where
  /-- the displayed leaves are the client's leaves: same paths, same values, same multiplicity -/
  leaves : (RX.pmLeaves m).Perm (c.leaves.map (fun kv => (kv.1, kv.2.val)))
  /-- no path is displayed twice -/
  nodup : ((RX.pmLeaves m).map (·.1)).Nodup
  /-- everything displayed is filed under the target -/
  under : ∀ kv ∈ RX.pmLeaves m, ∃ k, kv.1 = T :: k
  /-- outside `meta/`: displayed ⇔ expected (nothing missing, extra or stale) -/
  exact : ∀ k cv, isMetaKey k = false → ((T :: k, cv) ∈ RX.pmLeaves m ↔ (T :: k, cv) ∈ expected T v qs)

/-- from the client-library statement to the display statement -/
theorem showsExpected_of_holds (c : Client) (T : String) (v : View) (qs : List Path)
    (hinv : TreeInv c.tree) (hh : HoldsExpected c T v qs) (walk : List (Path × CLeaf)) (hw : walk.Perm c.leaves) :
    ∃ m, cliGroupOf walk = .ok m ∧ ShowsExpected m c T v qs := by
  obtain ⟨_, _, hunder, hex⟩ := hh
  obtain ⟨m, h1, h2⟩ := cliGroupOf_leaves c.tree walk hinv hw
  have h2' : (RX.pmLeaves m).Perm (c.leaves.map (fun kv => (kv.1, kv.2.val))) := by
    have := map_normKey_of_under hunder
    unfold Client.leaves at this
    rw [this] at h2
    exact h2
  refine ⟨m, h1, h2', ?_, ?_, ?_⟩
  · have hk : ((c.leaves.map (fun kv => (kv.1, kv.2.val))).map (·.1)) = c.tree.map (·.1) := by
      simp [Client.leaves, Function.comp_def]
    exact ((h2'.map (·.1)).nodup_iff).2 (hk ▸ hinv.1)
  · intro kv hkv
    obtain ⟨kv0, hkv0, rfl⟩ := List.mem_map.1 (h2'.mem_iff.1 hkv)
    exact hunder kv0 hkv0
  · intro k cv hk
    rw [h2'.mem_iff]
    exact (mem_leafValues hinv.1 (T :: k) cv).trans (hex k cv hk)

/-- **cli_group_display_faithful** — the CLI-output clause of C01, ONCE.  Under exactly the
hypotheses of the client-library ONCE clause (`pipeline_faithful_once_nondecreasing`: valid
configuration, any interleaving of `wellFormed false ∧ RawFaithful` sessions of the configured
targets, configured target `T ≠ "*"`, any query paths): for the client `c` that `cli.QueryDisplay`
→ `displayOnceResults` creates (a `CacheClient` subscribing ONCE: `Sys.once`) and whatever order
`c.WalkSorted` visits its leaves in, `displayWalk`'s adds (`cliGroupOf`: `b.add(path, v.Val)` per
leaf, `-timestamp ""`) return a pathmap `m` — no panic of the unchecked `mm.(pathmap)`, no
collision — such that the leaves of `m` are a permutation of `c`'s leaves with the same values,
no path twice, all under `T`, and for every key `k` outside `meta/`: `T :: k ↦ cv` is displayed iff
it is in `Relay.expected T (final view of T's stream) qs`.  Nothing missing, extra or stale. -/
theorem cli_group_display_faithful (enc : String → String) (cfg : TargetCfg.Cfg)
    (hv : TargetCfg.validate cfg = .ok ()) (steps : List Step)
    (hs : ∀ x ∈ senders steps, x ∈ TargetCfg.keys cfg.target)
    (hwf : ∀ name ∈ TargetCfg.keys cfg.target,
      wellFormed false (itemsOf name steps) = true ∧ RawFaithful (itemsOf name steps))
    (T : String) (hT : T ∈ TargetCfg.keys cfg.target) (hstar : T ≠ "*") (qs : List Path)
    (walk : List (Path × CLeaf))
    (hw : walk.Perm (((Sys.start cfg).run enc steps).once T qs).leaves) :
    ∃ m, cliGroupOf walk = .ok m ∧
      ShowsExpected m (((Sys.start cfg).run enc steps).once T qs) T (finalView (itemsOf T steps)) qs :=
  showsExpected_of_holds _ T _ qs (once_treeInv _ T qs)
    (pipeline_faithful_once_nondecreasing enc cfg hv steps hs hwf T hT hstar qs) walk hw

/-- the CLI clause in the shape of `pipeline_faithful_once_clause` (every hypothesis of the
property's ONCE clause, none added), for the order `WalkSorted` visits the client's `ctree` in
(`Client.cliGroupSorted`: what the line-protocol driver prints for `e2e cli`) -/
def cli_faithful_once_clause : Prop :=
  ∀ (enc : String → String) (cfg : TargetCfg.Cfg), TargetCfg.validate cfg = .ok () →
  ∀ (steps : List Step), (∀ x ∈ senders steps, x ∈ TargetCfg.keys cfg.target) →
    (∀ name ∈ TargetCfg.keys cfg.target,
      wellFormed false (itemsOf name steps) = true ∧ RawFaithful (itemsOf name steps)) →
  ∀ (T : String), T ∈ TargetCfg.keys cfg.target → T ≠ "*" →
  ∀ (qs : List Path), qs ≠ [] → (∀ q ∈ qs, queryOK q = true) →
    ∃ m, (((Sys.start cfg).run enc steps).once T qs).cliGroupSorted = .ok m ∧
      ShowsExpected m (((Sys.start cfg).run enc steps).once T qs) T (finalView (itemsOf T steps)) qs

/-- **The CLI clause holds as stated** (ONCE). -/
theorem cli_faithful_once_clause_holds : cli_faithful_once_clause :=
  fun enc cfg hv steps hs hwf T hT hstar qs _ _ =>
    cli_group_display_faithful enc cfg hv steps hs hwf T hT hstar qs _
      (sortedWalk_perm _ (once_treeInv _ T qs))

/-- for *every* client (any responses, any status): the display over `WalkSorted` shows the same
leaves as the display over `Leaves()`, namely the client's — the two columns the correspondence
compares (`e2e new` / `e2e cli`) agree on every scenario, well formed or not -/
theorem cli_sorted_shows_leaves (once : Bool) (rs : List Sub.Resp) (st : Option Sub.Code) :
    let c := (Client.run once {} rs).finish st
    ∃ m, c.cliGroupSorted = .ok m ∧
      (RX.pmLeaves m).Perm (c.leaves.map (fun kv => (RX.normKey kv.1, kv.2.val))) := by
  intro c
  have hinv : TreeInv c.tree := by
    show TreeInv ((Client.run once {} rs).finish st).tree
    rw [finish_tree]
    exact run_treeInv once rs {} treeInv_nil
  exact cliGroupOf_leaves _ _ hinv (sortedWalk_perm c hinv)

/-! ### … through `RX.displayWalk` itself -/

/-- a `ctree` of the C12 receive-surface model holds the leaves of pipeline client `c`; `emb` =
how a decoded value of the Pipeline model is written in the receive-surface model's value type -/
def Represents {F D : Type} (emb : CVal → RX.CVal F D) (c : Client) (t : RX.CTree F D) : Prop :=
  Trie.WFRoot t ∧
  (Trie.walk t).Perm (c.leaves.map (fun kv => (kv.1, ({ ts := kv.2.ts, val := emb kv.2.val } : RX.TreeVal F D))))

/-- every client after any run of responses has such a tree -/
theorem represents_exists {F D : Type} (emb : CVal → RX.CVal F D) (once : Bool) (rs : List Sub.Resp)
    (st : Option Sub.Code) : ∃ t : RX.CTree F D, Represents emb ((Client.run once {} rs).finish st) t := by
  have hinv : TreeInv ((Client.run once {} rs).finish st).tree := by
    rw [finish_tree]
    exact run_treeInv once rs {} treeInv_nil
  exact exists_trie (fun kv => ({ ts := kv.2.ts, val := emb kv.2.val } : RX.TreeVal F D)) _ hinv

/-- **cli_display_walk_faithful** — the CLI clause through `RX.displayWalk`, every timestamp
setting: for the ONCE client `c` of the clause and any client tree `t` holding `c`'s leaves,
`displayWalk tm t` returns a pathmap whose leaves are `shownLeaves tm` of `c`'s leaves (so, by
`pipeline_faithful_once_nondecreasing`, of the expected ones) — and `c` has such a tree. -/
theorem cli_display_walk_faithful {F D : Type} (emb : CVal → RX.CVal F D) (tm : RX.TsMode)
    (enc : String → String) (cfg : TargetCfg.Cfg)
    (hv : TargetCfg.validate cfg = .ok ()) (steps : List Step)
    (hs : ∀ x ∈ senders steps, x ∈ TargetCfg.keys cfg.target)
    (hwf : ∀ name ∈ TargetCfg.keys cfg.target,
      wellFormed false (itemsOf name steps) = true ∧ RawFaithful (itemsOf name steps))
    (T : String) (hT : T ∈ TargetCfg.keys cfg.target) (hstar : T ≠ "*") (qs : List Path) :
    let c := ((Sys.start cfg).run enc steps).once T qs
    HoldsExpected c T (finalView (itemsOf T steps)) qs ∧
    (∃ t : RX.CTree F D, Represents emb c t) ∧
    ∀ t : RX.CTree F D, Represents emb c t →
      ∃ m, RX.displayWalk tm t = .ok (.group m) ∧
        (RX.pmLeaves m).Perm (c.leaves.flatMap (fun kv =>
          RX.shownLeaves tm (kv.1, ({ ts := kv.2.ts, val := emb kv.2.val } : RX.TreeVal F D)))) ∧
        (tm = .off → (RX.pmLeaves m).Perm (c.leaves.map (fun kv => (kv.1, RX.DV.cval (emb kv.2.val))))) := by
  intro c
  have hh := pipeline_faithful_once_nondecreasing enc cfg hv steps hs hwf T hT hstar qs
  refine ⟨hh, exists_trie _ _ (once_treeInv _ T qs), ?_⟩
  rintro t ⟨hwf', hperm⟩
  obtain ⟨m, h1, h2⟩ := display_walk_faithful tm t hwf'
  have h3 := h2.trans (hperm.flatMap_right (RX.shownLeaves tm))
  rw [List.flatMap_map] at h3
  refine ⟨m, h1, h3, ?_⟩
  rintro rfl
  refine h3.trans (List.Perm.of_eq ?_)
  have hunder := hh.2.2.1
  generalize c.leaves = l at hunder
  induction l with
  | nil => rfl
  | cons a r ih =>
    obtain ⟨k, hk⟩ := hunder a List.mem_cons_self
    rw [List.flatMap_cons, List.map_cons, ih (fun kv hkv => hunder kv (List.mem_cons_of_mem _ hkv))]
    simp [RX.shownLeaves, RX.formatTime, RX.normKey_of_ne_nil (show a.1 ≠ [] by rw [hk]; simp)]

/-! ## 3. The three invocations display the same, expected tree -/

/-- glue: the request a flag-made / proto-made ONCE-or-STREAM subscription of `T` for `ps` puts on
the wire is read by the server as `clientReq T mode ps` -/
theorem toReq_clientReq (T : String) (mode : Sub.Mode) (ps : List Path) :
    PbReq.toReq { target := T, mode := mode, subs := ps } = clientReq T mode ps := rfl

/-- the client behind a query that sends a ONCE request for `T`, `ps` is `Sys.once` -/
theorem queryClient_once (s : Sys) (q : Query) (R : PbReq) (T : String) (ps : List Path)
    (hq : requestSent q = some R) (hR : R = { target := T, mode := .once, subs := ps }) :
    s.queryClient q = some (s.once T ps) := by
  subst hR
  unfold Sys.queryClient Sys.once
  rw [hq]
  rfl

/-- **cli_three_routes_same_view** — `cli_invocations_equivalent` composed with the ONCE clause and
the display.  Under the hypotheses of both (the run as in the ONCE clause; flags `-t T -q … -qt
once`, a text proto — given with `-proto` or in the file named by `-proto_file` — that parses to the
request `R` describing the same subscription, paths in the C19 fragment): the three invocations all
reach `displayWalk` and display **one and the same pathmap** `m`, and `m` shows exactly the expected
tree: its leaves are the ONCE client's, outside `meta/` exactly `Relay.expected T (final view) paths`. -/
theorem cli_three_routes_same_view (enc : String → String) (cfg : TargetCfg.Cfg)
    (hv : TargetCfg.validate cfg = .ok ()) (steps : List Step)
    (hs : ∀ x ∈ senders steps, x ∈ TargetCfg.keys cfg.target)
    (hwf : ∀ name ∈ TargetCfg.keys cfg.target,
      wellFormed false (itemsOf name steps) = true ∧ RawFaithful (itemsOf name steps))
    (T : String) (hT : T ∈ TargetCfg.keys cfg.target) (hstar : T ≠ "*")
    (parse : String → Option PbReq) (fs : String → Option String)
    (qs : List String) (qt : String) (text file : String) (R : PbReq) (paths : List Path)
    (htext : text ≠ "") (hfile : file ≠ "") (hfs : fs file = some text) (hparse : parse text = some R)
    (hsub : R.hasSubscribe = true) (hpn : R.prefixNil = false) (htgt : R.target = T)
    (hmode : R.mode = .once) (huo : R.updatesOnly = false) (hsubs : R.subs = paths)
    (hqt : queryType qt = some .once) (hqs : qs ≠ []) (hpq : parseQueries '/' qs = some paths)
    (hplain : ∀ p ∈ paths, (∀ e ∈ p, PV.plain e = true) ∧ C19.LastNotSlash p) :
    let s := (Sys.start cfg).run enc steps
    R.toReq = clientReq T .once paths ∧
    ∃ m,
      s.cliShow (executeSubscribe parse fs { target := T, queries := qs, queryType := qt }) = some (.ok m) ∧
      s.cliShow (executeSubscribe parse fs { proto := text }) = some (.ok m) ∧
      s.cliShow (executeSubscribe parse fs { protoFile := file }) = some (.ok m) ∧
      ShowsExpected m (s.once T paths) T (finalView (itemsOf T steps)) paths := by
  intro s
  obtain ⟨qf, qp, hflag, hproto, hfileR, _, _, _, _, hsf, hsp, _⟩ :=
    cli_invocations_equivalent parse fs T qs qt false text file R paths .once htext hfile hfs hparse hsub hpn
      htgt hmode huo hsubs hqt hqs hpq hplain
  have hR : R = { target := T, mode := .once, subs := paths } := by
    cases R
    simp only at hsub hpn htgt hmode huo hsubs
    subst hsub hpn htgt hmode huo hsubs
    rfl
  have hh := pipeline_faithful_once_nondecreasing enc cfg hv steps hs hwf T hT hstar paths
  obtain ⟨m, hm, hshow⟩ := showsExpected_of_holds _ T _ paths (once_treeInv s T paths) hh _
    (sortedWalk_perm _ (once_treeInv s T paths))
  have hcf := queryClient_once s qf R T paths hsf hR
  have hcp := queryClient_once s qp R T paths hsp hR
  have hnf : (s.once T paths).failed = false := hh.1
  have hshowq : ∀ q, s.queryClient q = some (s.once T paths) → s.cliShow (.display q) = some (.ok m) := by
    intro q hq
    simp only [Sys.cliShow, hq, hnf, Bool.false_eq_true, if_false, Client.cliGroupSorted]
    exact congrArg some hm
  refine ⟨by rw [hR]; rfl, m, ?_, ?_, ?_, hshow⟩
  · have : ({ target := T, queries := qs, queryType := qt } : CliArgs) =
        { target := T, queries := qs, queryType := qt, updatesOnly := false } := rfl
    rw [this, hflag]
    exact hshowq qf hcf
  · rw [hproto]
    exact hshowq qp hcp
  · rw [hfileR]
    exact hshowq qp hcp

/-! ## 4. The other display modes: what the model gives -/

section modes
variable {F D : Type} [PV.FloatOps F D]

/-- **proto_display_as_received** — `-display_type proto` / `shortproto`: one display call per
response received, in order, each showing that response (the formatted proto is opaque in the
model: `prototext` / `txtpbfmt` are not modelled); nothing is merged, dropped or reordered. -/
theorem proto_display_as_received (jv : PV.Bytes → Bool) (qt : RX.QType) (tm : RX.TsMode)
    (rs : List (RX.Response F D)) (hq : qt ≠ .unknown) :
    RX.queryDisplay jv .proto qt tm rs = .ok (rs.map .proto) ∧
    RX.queryDisplay jv .shortproto qt tm rs = .ok (rs.map .proto) := by
  simp [RX.queryDisplay, hq, RX.protoRun]

/-- the line the single display prints for one notification of the client library -/
def lineOf (tm : RX.TsMode) : RX.CNoti F D → List (RX.Shown F D)
  | .update p ts v _ => [.line p v (RX.formatTime tm ts)]
  | .delete p ts => [.line p .nil (RX.formatTime tm ts)]
  | _ => []

/-- the recording handler: keeps every notification `Recv` hands over -/
def traceHandler (s : List (RX.CNoti F D)) (n : RX.CNoti F D) : Option (List (RX.CNoti F D)) := some (s ++ [n])

/-- the single handler's state after the recorded notifications `tr` -/
def SingleRel (tm : RX.TsMode) (s : RX.CliSt F D) (tr : List (RX.CNoti F D)) : Prop :=
  s.out = tr.flatMap (lineOf tm)

omit [PV.FloatOps F D] in
theorem singleRel_step (tm : RX.TsMode) (s : RX.CliSt F D) (tr : List (RX.CNoti F D)) (n : RX.CNoti F D)
    (h : SingleRel tm s tr) :
    ∃ s', RX.singleHandler tm s n = some s' ∧ SingleRel tm s' (tr ++ [n]) := by
  unfold SingleRel at h ⊢
  cases n <;> simp [RX.singleHandler, lineOf, h, List.flatMap_append]

theorem recvUpdates_sim (jv : PV.Bytes → Bool) (tm : RX.TsMode) (pfx : Path) (ts : Int) :
    ∀ (us : List (Option (RX.Update F D))) (s : RX.CliSt F D) (tr : List (RX.CNoti F D)), SingleRel tm s tr →
      (RX.recvUpdates jv (RX.singleHandler tm) pfx ts us s).1 = (RX.recvUpdates jv traceHandler pfx ts us tr).1 ∧
      SingleRel tm (RX.recvUpdates jv (RX.singleHandler tm) pfx ts us s).2
        (RX.recvUpdates jv traceHandler pfx ts us tr).2
  | [], s, tr, h => ⟨rfl, h⟩
  | none :: _, s, tr, h => ⟨rfl, h⟩
  | some u :: rest, s, tr, h => by
    unfold RX.recvUpdates
    cases u.path with
    | none => exact ⟨rfl, h⟩
    | some pp =>
      simp only
      cases RX.noti jv pfx (some pp) ts (some u) with
      | ok n =>
        obtain ⟨s', hs', hrel⟩ := singleRel_step tm s tr n h
        simp only [hs', traceHandler]
        exact recvUpdates_sim jv tm pfx ts rest s' (tr ++ [n]) hrel
      | err e => exact ⟨rfl, h⟩
      | panic => exact ⟨rfl, h⟩

omit [PV.FloatOps F D] in
theorem recvDeletes_sim (tm : RX.TsMode) (pfx : Path) (ts : Int) :
    ∀ (ds : List (Option PV.GPath)) (s : RX.CliSt F D) (tr : List (RX.CNoti F D)), SingleRel tm s tr →
      (RX.recvDeletes (RX.singleHandler tm) pfx ts ds s).1 = (RX.recvDeletes traceHandler pfx ts ds tr).1 ∧
      SingleRel tm (RX.recvDeletes (RX.singleHandler tm) pfx ts ds s).2
        (RX.recvDeletes traceHandler pfx ts ds tr).2
  | [], s, tr, h => ⟨rfl, h⟩
  | d :: rest, s, tr, h => by
    unfold RX.recvDeletes
    obtain ⟨s', hs', hrel⟩ := singleRel_step tm s tr (.delete (pfx ++ PV.toStrings d false) ts) h
    simp only [hs', traceHandler]
    exact recvDeletes_sim tm pfx ts rest s' _ hrel

theorem recvBody_sim (jv : PV.Bytes → Bool) (qt : RX.QType) (tm : RX.TsMode) (s : RX.CliSt F D)
    (tr : List (RX.CNoti F D)) (h : SingleRel tm s tr) (r : RX.Response F D) :
    (RX.recvBody jv qt (RX.singleHandler tm) s r).1 = (RX.recvBody jv qt traceHandler tr r).1 ∧
    SingleRel tm (RX.recvBody jv qt (RX.singleHandler tm) s r).2 (RX.recvBody jv qt traceHandler tr r).2 := by
  cases r with
  | nilMsg => exact ⟨rfl, h⟩
  | unset => exact ⟨rfl, h⟩
  | error p => exact ⟨rfl, h⟩
  | sync b =>
    obtain ⟨s', hs', hrel⟩ := singleRel_step tm s tr .sync h
    simp only [RX.recvBody, hs', traceHandler]
    exact ⟨by first | rfl | trivial, hrel⟩
  | update n =>
    cases n with
    | none => exact ⟨rfl, h⟩
    | some n =>
      simp only [RX.recvBody]
      obtain ⟨e1, r1⟩ := recvUpdates_sim jv tm (PV.toStrings n.pfx true) n.ts n.update s tr h
      generalize RX.recvUpdates jv (RX.singleHandler tm) (PV.toStrings n.pfx true) n.ts n.update s = a at e1 r1
      generalize RX.recvUpdates jv traceHandler (PV.toStrings n.pfx true) n.ts n.update tr = b at e1 r1
      obtain ⟨ao, as⟩ := a
      obtain ⟨bo, bs⟩ := b
      simp only at e1 r1
      subst e1
      cases ao with
      | err e => exact ⟨rfl, r1⟩
      | panic => exact ⟨rfl, r1⟩
      | ok x =>
        cases x
        simp only
        obtain ⟨e2, r2⟩ := recvDeletes_sim tm (PV.toStrings n.pfx true) n.ts n.delete as bs r1
        generalize RX.recvDeletes (RX.singleHandler tm) (PV.toStrings n.pfx true) n.ts n.delete as = a2 at e2 r2
        generalize RX.recvDeletes traceHandler (PV.toStrings n.pfx true) n.ts n.delete bs = b2 at e2 r2
        obtain ⟨ao2, as2⟩ := a2
        obtain ⟨bo2, bs2⟩ := b2
        simp only at e2 r2
        subst e2
        cases ao2 with
        | err e => exact ⟨rfl, r2⟩
        | panic => exact ⟨rfl, r2⟩
        | ok y => cases y; exact ⟨rfl, r2⟩

theorem run_sim (jv : PV.Bytes → Bool) (qt : RX.QType) (tm : RX.TsMode) :
    ∀ (rs : List (RX.Response F D)) (s : RX.RecvSt (RX.CliSt F D)) (t : RX.RecvSt (List (RX.CNoti F D))),
      s.connected = t.connected → SingleRel tm s.h t.h →
      (RX.run jv qt (RX.singleHandler tm) rs s).1 = (RX.run jv qt traceHandler rs t).1 ∧
      SingleRel tm (RX.run jv qt (RX.singleHandler tm) rs s).2.1.h (RX.run jv qt traceHandler rs t).2.1.h
  | [], s, t, _, h => ⟨rfl, h⟩
  | r :: rest, s, t, hc, h => by
    -- the `Connected` preamble
    have hpre : ∃ s0 t0, (if s.connected then some s.h else RX.singleHandler tm s.h .connected) = some s0 ∧
        (if t.connected then some t.h else traceHandler t.h .connected) = some t0 ∧ SingleRel tm s0 t0 := by
      rw [← hc]
      cases s.connected with
      | true => exact ⟨s.h, t.h, rfl, rfl, h⟩
      | false =>
        obtain ⟨s', hs', hrel⟩ := singleRel_step tm s.h t.h .connected h
        exact ⟨s', _, by simpa using hs', rfl, hrel⟩
    obtain ⟨s0, t0, hs0, ht0, hrel0⟩ := hpre
    obtain ⟨e1, r1⟩ := recvBody_sim jv qt tm s0 t0 hrel0 r
    unfold RX.run RX.defaultRecv
    simp only [hs0, ht0]
    generalize RX.recvBody jv qt (RX.singleHandler tm) s0 r = a at e1 r1
    generalize RX.recvBody jv qt traceHandler t0 r = b at e1 r1
    obtain ⟨ao, as⟩ := a
    obtain ⟨bo, bs⟩ := b
    simp only at e1 r1
    subst e1
    cases ao with
    | err e => exact ⟨rfl, r1⟩
    | panic => exact ⟨rfl, r1⟩
    | ok c =>
      cases c with
      | stop => exact ⟨rfl, r1⟩
      | cont => exact run_sim jv qt tm rest _ _ rfl r1

/-- **single_display_as_received** — `-display_type single`: the invocation ends as the
client library's read loop ends (same error class / OK; the recording handler `traceHandler` stands
for "whatever `Recv` delivered"), and what it displayed is exactly one line `path, value[,
timestamp]` per `client.Update` and one `path, <nil>` per `client.Delete` delivered, in delivery
order — `Connected` / `Sync` print nothing; each notification is rendered as received, no state is
kept between them. -/
theorem single_display_as_received (jv : PV.Bytes → Bool) (qt : RX.QType) (tm : RX.TsMode)
    (rs : List (RX.Response F D)) (hq : qt ≠ .unknown) :
    RX.queryDisplay jv .single qt tm rs =
      (match (RX.run jv qt traceHandler rs { h := ([] : List (RX.CNoti F D)) }).1 with
       | .ok () => .ok ((RX.run jv qt traceHandler rs { h := ([] : List (RX.CNoti F D)) }).2.1.h.flatMap (lineOf tm))
       | .err e => .err e
       | .panic => .panic) := by
  obtain ⟨e1, r1⟩ := run_sim jv qt tm rs { h := ({} : RX.CliSt F D) } { h := ([] : List (RX.CNoti F D)) } rfl
    (by simp [SingleRel])
  simp only [RX.queryDisplay, hq, if_false]
  rw [e1]
  unfold SingleRel at r1
  rw [r1]
  rfl

end modes

/-! ## 5. Non-vacuity: the run of `Props/C01Same.lean` (a leaf rewritten at one timestamp), displayed -/

/-- the ONCE client of dev1 after `stepsSame`, queried for the whole target -/
def cSame : Client := ((Sys.start cfg2).run id stepsSame).once "dev1" [[]]

/-- the hypotheses of `cli_group_display_faithful` are met by this run (see `stepsSame_hyps`), so: -/
example : ∃ m, cSame.cliGroupSorted = .ok m ∧
    ShowsExpected m cSame "dev1" (finalView (itemsOf "dev1" stepsSame)) [[]] :=
  cli_faithful_once_clause_holds id cfg2 cfg2_valid stepsSame stepsSame_senders stepsSame_hyps "dev1"
    (by decide) (by decide) [[]] (by decide) (by decide)

/-- … and the displayed pathmap, computed: the nested maps `dev1 / openconfig / a / {b, d}` hold the
last values sent (5 for the leaf rewritten at timestamp 10), beside the collector's own `meta` leaves -/
theorem cSame_displayed :
    (match cSame.cliGroup with
     | .ok m => RX.pmLeaves m
     | _ => []) =
    [(["dev1", "meta", "connected"], .scalar (.bool true)), (["dev1", "meta", "sync"], .scalar (.bool true)),
     (["dev1", "openconfig", "a", "b"], .scalar (.int 5)), (["dev1", "openconfig", "a", "d"], .scalar (.int 9))] := by
  decide

/-- the expected tree of that run -/
example : expected "dev1" (finalView (itemsOf "dev1" stepsSame)) [[]] =
    [(["dev1", "openconfig", "a", "d"], .scalar (.int 9)), (["dev1", "openconfig", "a", "b"], .scalar (.int 5))] := by
  decide

/-- why the prefix-free hypothesis matters: on a walk with a leaf below a leaf (which no client
tree contains) `pathmap.add` panics … -/
example : (cliGroupOf [(["dev1", "a"], { ts := 1, val := .scalar (.int 1) }),
                       (["dev1", "a", "b"], { ts := 1, val := .scalar (.int 2) })]).isPanic = true := by decide
/-- … and on a walk with a repeated path the second add silently overwrites the first -/
example : (match cliGroupOf [(["dev1", "a"], { ts := 1, val := .scalar (.int 1) }),
                             (["dev1", "a"], { ts := 2, val := .scalar (.int 2) })] with
           | .ok m => RX.pmLeaves m
           | _ => []) = [(["dev1", "a"], .scalar (.int 2))] := by decide

/-- witness objects for `cli_three_routes_same_view`: a ONCE request for `openconfig/a` of dev1 -/
def Rc : PbReq := { target := "dev1", mode := .once, subs := [["openconfig", "a"]] }
/-- witness parser: knows exactly one text -/
def parseC (s : String) : Option PbReq := if s = "subscribe:<once>" then some Rc else none
/-- witness file system: holds exactly the file `once.txt` -/
def fsC (f : String) : Option String := if f = "once.txt" then some "subscribe:<once>" else none

theorem parseQueries_c : parseQueries '/' ["openconfig/a"] = some [["openconfig", "a"]] := by decide

theorem plain_c : ∀ p ∈ [["openconfig", "a"]], (∀ e ∈ p, PV.plain e = true) ∧ C19.LastNotSlash p := by
  intro p hp
  simp only [List.mem_cons, List.not_mem_nil, or_false] at hp
  subst hp
  refine ⟨by decide, ?_⟩
  intro e he
  simp at he
  subst he
  decide

/-- the theorem applies: flags `-t dev1 -q openconfig/a -qt once`, `-proto`, `-proto_file` after `stepsSame` -/
example := cli_three_routes_same_view id cfg2 cfg2_valid stepsSame stepsSame_senders stepsSame_hyps "dev1"
  (by decide) (by decide) parseC fsC ["openconfig/a"] "once" "subscribe:<once>" "once.txt" Rc [["openconfig", "a"]]
  (by decide) (by decide) (by decide) (by decide) rfl rfl rfl rfl rfl rfl (by decide) (by decide) parseQueries_c plain_c

/-! single display, computed: an update and a delete of one notification, then sync (ONCE: stop) -/
section
local instance : PV.FloatOps Unit Unit := ⟨fun _ _ => true, fun _ _ => true, fun _ => (), fun _ _ => ()⟩

def gA : PV.GPath := { elem := [{ name := "a" }] }
def gB : PV.GPath := { elem := [{ name := "b" }] }
def uA : RX.Update Unit Unit := { path := some gA, val := .intVal 1 }
def nAB : RX.Notification Unit Unit :=
  { ts := 5, pfx := some { target := "dev1" }, update := [some uA], delete := [some gB] }

example : RX.queryDisplay (F := Unit) (D := Unit) (fun _ => true) .single .once .off
    [.update (some nAB), .sync true, .sync true] =
    .ok [.line ["dev1", "a"] (.scalar (.int .i64 1)) none, .line ["dev1", "b"] .nil none] := by
  rw [single_display_as_received _ _ _ _ (by decide)]
  rfl
end

end C01
end Gnmi
