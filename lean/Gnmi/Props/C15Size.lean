import Gnmi.Lemmas.CacheXState
import Gnmi.Props.C15Hist
/-!
# C15: `Cache.UpdateSize`, and the counter accounting over histories of the wired cache

Model: `Model/CacheX.lean` (`Target.updateSize`, `StateX.updateSize`, `OpX.updateSize`), executed by
the `ca` driver (op `updsize`) against `cache.UpdateSize` (profile `c15`).

* `updateSize_sum` — after `updateSize`, `targetSize` is the sum of the sizes of **all** leaves of
  the target's tree, the metadata leaves (`meta/...`, the latency leaves too) **included**
  (`updateSize_sum_split`: data leaves + metadata leaves); `sizeOf` is a parameter (the driver
  instantiates it with the length of the `encoding/json` rendering);
* `updateSize_frame` — nothing else changes: tree, sync flag, latest timestamp, every other
  metadata value, the latency object, the other targets; no feed event;
  `updateSize_not_exported_until_refresh`: the stored `meta/targetSize` leaf only moves at the next refresh;
* `history_accountingX` / `history_leafcountX` — `C15Hist.history_accounting` and
  `C15.leafcount_truthful` restated over the histories of the wired cache (`OpX`: the calls of
  `Model/Cache.lean` plus `UpdateSize`), for caches with any latency windows: the latency leaves a
  refresh writes are ledger entries like the other metadata writes (`refreshOutsX`);
* `history_accounting_nowin` — without latency windows the ledger is the one of
  `C15Hist.history_accounting` (and the `State` is `State.run`: `Cache.runX_lift`).
-/
namespace Gnmi.C15Size
open Gnmi.Cache Gnmi.Acc Gnmi.Feed Gnmi.C15Hist

/-! ## 1. `updateSize` on one target -/

/-- **updateSize_sum.**  `targetSize` after `updateSize` = Σ `sizeOf` over every stored leaf —
`Query(["*"])` selects all of them, whatever their first element. -/
theorem updateSize_sum (sizeOf : Noti → Int) (t : Target) :
    (t.updateSize sizeOf).md.size = sumSizes sizeOf t.tree := by
  unfold Target.updateSize sumSizes
  simp only [query_glob_all]

theorem foldl_add (l : List Int) (a : Int) : l.foldl (· + ·) a = a + l.foldl (· + ·) 0 := by
  induction l generalizing a with
  | nil => simp
  | cons x l ih => simp only [List.foldl_cons]; rw [ih (a + x), ih (0 + x)]; omega

theorem sumSizes_cons (sizeOf : Noti → Int) (kv : Path × Noti) (m : PMap Noti) :
    sumSizes sizeOf (kv :: m) = sizeOf kv.2 + sumSizes sizeOf m := by
  unfold sumSizes
  simp only [List.map_cons, List.foldl_cons]
  rw [foldl_add]; omega

/-- metadata leaves are counted: the sum splits into the data leaves and the leaves under `meta` -/
theorem updateSize_sum_split (sizeOf : Noti → Int) (t : Target) :
    (t.updateSize sizeOf).md.size =
      sumSizes sizeOf (t.tree.filter (fun kv => !isMetaKey kv.1)) +
      sumSizes sizeOf (t.tree.filter (fun kv => isMetaKey kv.1)) := by
  rw [updateSize_sum]
  induction t.tree with
  | nil => rfl
  | cons kv m ih =>
    rw [sumSizes_cons, ih]
    simp only [List.filter_cons]
    cases isMetaKey kv.1 <;> simp [sumSizes_cons] <;> omega

/-- **updateSize_frame.**  `updateSize` writes `targetSize` and nothing else. -/
theorem updateSize_frame (sizeOf : Noti → Int) (t : Target) :
    t.updateSize sizeOf = { t with md := { t.md with size := sumSizes sizeOf t.tree } } := by
  unfold Target.updateSize sumSizes
  simp only [query_glob_all]

theorem updateSize_ctr (sizeOf : Noti → Int) (t : Target) : ctrOf (t.updateSize sizeOf).md = ctrOf t.md := rfl

/-- the metadata object's values other than `targetSize` -/
theorem updateSize_other_values (sizeOf : Noti → Int) (t : Target) (name : String) (h : name ≠ "targetSize") :
    (t.updateSize sizeOf).md.getInt name = t.md.getInt name ∧
    (t.updateSize sizeOf).md.getBool name = t.md.getBool name ∧
    (t.updateSize sizeOf).md.getStr name = t.md.getStr name := by
  refine ⟨?_, rfl, rfl⟩
  unfold Meta.getInt
  simp only [h, if_false]
  rfl

theorem updateSize_getInt (sizeOf : Noti → Int) (t : Target) :
    (t.updateSize sizeOf).md.getInt "targetSize" = some (sumSizes sizeOf t.tree) := by
  rw [updateSize_frame]; rfl

/-! ## 2. `Cache.UpdateSize` -/

/-- **`Cache.UpdateSize`**: every registered target gets its own sum; latency objects, options and
the set of targets are untouched; the call has no result and announces nothing. -/
theorem updateSize_all (env : Env) (sx : StateX) (name : String) :
    (sx.step env .updateSize).1.s.get name = (sx.s.get name).map (fun t => t.updateSize env.sizeOf) ∧
    (sx.step env .updateSize).1.latOf name = sx.latOf name ∧
    (sx.step env .updateSize).1.x = sx.x ∧ (sx.step env .updateSize).1.s.cfg = sx.s.cfg ∧
    (sx.step env .updateSize).2 = (.ok, []) :=
  ⟨(updateSizeX_get sx env.sizeOf name).1, rfl, rfl, rfl, rfl⟩

/-- what a client sees: the stored trees are the same, so every query answers the same; the
`meta/targetSize` leaf keeps its old value until the next `UpdateMetadata` -/
theorem updateSize_not_exported_until_refresh (env : Env) (sx : StateX) (name : String) (t : Target)
    (hg : sx.s.get name = some t) :
    ∃ t', (sx.step env .updateSize).1.s.get name = some t' ∧ t'.tree = t.tree ∧
      t'.md.size = sumSizes env.sizeOf t.tree := by
  refine ⟨t.updateSize env.sizeOf, ?_, rfl, updateSize_sum env.sizeOf t⟩
  rw [(updateSize_all env sx name).1, hg]; rfl

/-! ## 3. Accounting over histories of the wired cache -/

/-- the unit outcomes API call `op` produces on target `name` (`C15Hist.opOuts`; a refresh of a
cache with latency windows also writes the latency leaves) -/
def opOutsX (env : Env) (sx : StateX) (name : String) : OpX → List UnitOut
  | .base (.updateMetadata now) =>
    match sx.s.get name with
    | some t => refreshOutsX sx.s.cfg sx.x env.enc now true t (sx.latOf name)
    | none => []
  | .base op => opOuts env.enc sx.s name op
  | .updateSize => []

/-- the ledger of target `name` after `op` (`C15Hist.ledgerStep`): `UpdateSize` adds nothing -/
def ledgerStepX (env : Env) (sx : StateX) (name : String) (acc : List UnitOut) : OpX → List UnitOut
  | .base (.reset nm now) =>
    if nm = name then
      match sx.s.get name with
      | some t => refreshOutsX sx.s.cfg sx.x env.enc now true { t with latest := none, md := Meta.clear }
                    { sx.latOf name with vals := [] }
      | none => acc
    else acc
  | .base (.updateMetadata now) => acc ++ opOutsX env sx name (.base (.updateMetadata now))
  | .base op => ledgerStep env.enc sx.s name acc op
  | .updateSize => acc

def unitsSinceX (env : Env) (name : String) : StateX → List OpX → List UnitOut → List UnitOut
  | _, [], acc => acc
  | sx, op :: ops, acc => unitsSinceX env name (sx.step env op).1 ops (ledgerStepX env sx name acc op)

theorem ledgerStepX_plain (env : Env) (sx : StateX) (name : String) (acc : List UnitOut) (op : Op)
    (h : isRefresh op = false) : ledgerStepX env sx name acc (.base op) = ledgerStep env.enc sx.s name acc op := by
  cases op <;> first | rfl | simp [isRefresh] at h

theorem step_agreeX (env : Env) (sx : StateX) (op : OpX) (name : String) (acc : List UnitOut)
    (hs : SInv sx.s) (hn : NamesUnique sx.s) (ha : Agree sx.s name acc) :
    Agree (sx.step env op).1.s name (ledgerStepX env sx name acc op) := by
  cases op with
  | updateSize =>
    intro t' hg
    rw [(updateSize_all env sx name).1] at hg
    cases hget : sx.s.get name with
    | none => rw [hget] at hg; simp at hg
    | some t0 =>
      rw [hget] at hg
      simp only [Option.map_some, Option.some.injEq] at hg
      subst hg
      exact ha t0 hget
  | base op =>
    by_cases hr : isRefresh op = false
    · rw [(stepX_s env sx op (Or.inl hr)).1, ledgerStepX_plain env sx name acc op hr]
      exact step_agree env.enc sx.s op name acc hs hn ha
    · intro t' hg
      cases op with
      | reset nm now =>
        simp only [StateX.step, StateX.reset, ledgerStepX] at hg ⊢
        by_cases h : nm = name
        · subst h
          rw [(onTargetX_get_same sx nm _).1] at hg
          simp only [if_true]
          cases hget : sx.s.get nm with
          | none => rw [hget] at hg; simp at hg
          | some t0 =>
            rw [hget] at hg
            simp only [Option.map_some, Option.some.injEq] at hg
            subst hg
            obtain ⟨h1, h2, h3⟩ := hs nm t0 hget
            obtain ⟨_, _, _, _, _, _, _, hmd⟩ := resetX_ok sx.s.cfg sx.x env.enc now t0 (sx.latOf nm) h1
              (by rw [h2]; exact h3)
            simp only at hmd ⊢
            rw [hmd]
            obtain ⟨a, _⟩ := updateMetaX_ctr sx.s.cfg sx.x env.enc now true
              { t0 with latest := none, md := Meta.clear } { sx.latOf nm with vals := [] }
            rw [a]
            show ctrOf Meta.clear + _ = _
            rw [ctr_clear, Ctr.zero_add]
        · rw [(onTargetX_get_other sx nm name _ (fun e => h e.symm)).1] at hg
          simp only [h, if_false]; exact ha t' hg
      | updateMetadata now =>
        simp only [StateX.step, ledgerStepX, opOutsX] at hg ⊢
        rw [(updateMetadataX_get sx env.enc now hn name).1] at hg
        cases hget : sx.s.get name with
        | none => rw [hget] at hg; simp at hg
        | some t0 =>
          rw [hget] at hg
          simp only [Option.map_some, Option.some.injEq] at hg
          subst hg
          obtain ⟨a, _⟩ := updateMetaX_ctr sx.s.cfg sx.x env.enc now true t0 (sx.latOf name)
          simp only
          rw [a, sumDelta_append, ha t0 hget]
      | add _ => simp [isRefresh] at hr
      | remove _ _ => simp [isRefresh] at hr
      | sync _ _ => simp [isRefresh] at hr
      | connect _ _ => simp [isRefresh] at hr
      | connectError _ _ _ => simp [isRefresh] at hr
      | update _ _ _ => simp [isRefresh] at hr

theorem run_agreeX (env : Env) (name : String) : ∀ (ops : List OpX) (sx : StateX) (acc : List UnitOut),
    SInv sx.s → NamesUnique sx.s → (∀ op ∈ ops, op.valid) → Agree sx.s name acc →
    Agree (sx.run env ops).s name (unitsSinceX env name sx ops acc)
  | [], _, _, _, _, _, ha => ha
  | op :: ops, sx, acc, hs, hn, hv, ha => by
    obtain ⟨a, b⟩ := stepX_inv env sx op hs hn (hv op (List.mem_cons_self ..))
    exact run_agreeX env name ops _ _ a b (fun o ho => hv o (List.mem_cons_of_mem _ ho))
      (step_agreeX env sx op name acc hs hn ha)

/-- **History accounting, wired cache.**  `C15Hist.history_accounting` keeps holding when the
histories also contain `UpdateSize` and the cache has latency windows (any number, any sizes, any
precision): in every state reachable from the empty cache the counters `updated / suppressed /
stale / future / empty / added / deleted / leaves` of every registered target are the sum of the
deltas of all unit outcomes on it since its last `Add` / `Reset`.  `UpdateSize` contributes
nothing; a refresh contributes the metadata writes of `Model/Cache.lean` and then the writes of the
latency leaves. -/
theorem history_accountingX (env : Env) (cfg : Cfg) (x : CfgX) (ops : List OpX)
    (hv : ∀ op ∈ ops, op.valid) (name : String) (t : Target)
    (hg : (StateX.run env { s := { cfg := cfg }, x := x } ops).s.get name = some t) :
    ctrOf t.md = sumDelta (unitsSinceX env name { s := { cfg := cfg }, x := x } ops []) :=
  run_agreeX env name ops { s := { cfg := cfg }, x := x } [] (SInv.empty cfg) (NamesUnique.empty cfg) hv
    (fun _ h => by simp [State.get] at h) t hg

/-- **Leaf count, wired cache** (`C15.leafcount_truthful` over `OpX` histories): `targetLeaves` is
the number of non-metadata leaves stored and equals added − deleted; the latency leaves, being
under `meta`, are not counted. -/
theorem history_leafcountX (env : Env) (cfg : Cfg) (x : CfgX) (ops : List OpX)
    (hv : ∀ op ∈ ops, op.valid) (name : String) (t : Target)
    (hg : (StateX.run env { s := { cfg := cfg }, x := x } ops).s.get name = some t) :
    t.md.leaves = (nm t.tree : Nat) ∧ t.md.leaves = t.md.added - t.md.deleted := by
  obtain ⟨hs, _⟩ := runX_inv env ops { s := { cfg := cfg }, x := x } (SInv.empty cfg) (NamesUnique.empty cfg) hv
  obtain ⟨hi, _, _⟩ := hs name t hg
  have h1 := hi.lc
  have h2 := hi.bal
  omega

/-! ### without latency windows the ledger is the one of `C15Hist` -/

theorem refreshOutsX_nowin (cfg : Cfg) (x : CfgX) (enc : String → String) (now : Int) (emit : Bool)
    (t : Target) (l : LatSt) (hw : x.windows = []) :
    refreshOutsX cfg x enc now emit t l = refreshOuts cfg enc now emit t := by
  unfold refreshOutsX
  have : latKeys x = [] := by simp [latKeys, hw]
  rw [this]; simp [latOuts]

theorem ledgerStepX_nowin (env : Env) (sx : StateX) (name : String) (acc : List UnitOut) (op : Op)
    (hw : sx.x.windows = []) : ledgerStepX env sx name acc (.base op) = ledgerStep env.enc sx.s name acc op := by
  cases op with
  | reset nm now =>
    simp only [ledgerStepX, ledgerStep]
    split
    · cases sx.s.get name with
      | none => rfl
      | some t => simp only [refreshOutsX_nowin _ _ _ _ _ _ _ hw]
    · rfl
  | updateMetadata now =>
    simp only [ledgerStepX, ledgerStep, opOutsX, opOuts]
    cases sx.s.get name with
    | none => rfl
    | some t => simp only [refreshOutsX_nowin _ _ _ _ _ _ _ hw]
  | add _ => rfl
  | remove _ _ => rfl
  | sync _ _ => rfl
  | connect _ _ => rfl
  | connectError _ _ _ => rfl
  | update _ _ _ => rfl

/-- for a cache without latency windows and a history without `UpdateSize`, the ledger (and, by
`Cache.runX_lift`, the state) is exactly that of `C15Hist.history_accounting` -/
theorem unitsSinceX_nowin (env : Env) (name : String) : ∀ (ops : List Op) (sx : StateX) (acc : List UnitOut),
    sx.x.windows = [] →
    unitsSinceX env name sx (ops.map OpX.base) acc = unitsSince env.enc name sx.s ops acc
  | [], _, _, _ => rfl
  | op :: ops, sx, acc, hw => by
    simp only [List.map_cons, unitsSinceX, unitsSince]
    rw [ledgerStepX_nowin env sx name acc op hw, ← (stepX_s env sx op (Or.inr hw)).1]
    exact unitsSinceX_nowin env name ops _ _ (by rw [stepX_x]; exact hw)

/-! ## 4. Non-vacuity -/

def nA : Noti := { ts := 5, target := "t1", pfx := ["a"], praw := "p",
                   upd := [{ path := ["b"], val := .scalar (.int 1), raw := "u" }] }
def envLen : Env := { enc := id, sizeOf := fun n => n.praw.length + 10 }

def histS : List OpX :=
  [.base (.add "t1"), .base (.update 10 false nA), .base (.sync "t1" 11), .updateSize,
   .base (.updateMetadata 12), .updateSize]

/-- one data leaf (11) and the `meta/sync` leaf (23) after the first `UpdateSize`; after the refresh
the thirteen metadata leaves it wrote or refreshed are summed as well (11 + 13 · 23) -/
theorem histS_sizes :
    (((StateX.run envLen { x := { windows := [20] } } (histS.take 4)).s.get "t1").map (·.md.size) = some 34) ∧
    (((StateX.run envLen { x := { windows := [20] } } histS).s.get "t1").map (·.md.size) = some 310) ∧
    (((StateX.run envLen { x := { windows := [20] } } histS).s.get "t1").map (·.tree.length) = some 14) := by
  decide

end Gnmi.C15Size
