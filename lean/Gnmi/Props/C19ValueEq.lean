import Gnmi.Model.Cache
import Gnmi.Model.WireIngest
import Gnmi.Lemmas.CacheFeed
import Gnmi.Props.C19
/-!
# C19 / C02 / C03 / C01 — the two models of `value.Equal` agree

`value.Equal` (value/value.go:166) is modelled twice:

* `PV.equal` (`Model/Value.lean`) on `PV.TV F D`, a `*gnmi.TypedValue` with abstract floats, nil
  payload pointers and arbitrarily nested leaf-lists — the one `C19.equal_total / equal_symm /
  equal_sound` are about, validated by the `pv` correspondence;
* `Cache.valueEqual` (`Model/Cache.lean`) on `Cache.Val`, floats as IEEE bit patterns — the one the
  suppression rule of `Cache.updateCore` (C02/C03, `C01.ExactStream`) uses, validated by the `ca`
  and `wi` correspondences.

This file relates them, in both directions.

1. `toPV : Cache.Val → PV.TV (FV 8 23) (FV 11 52)` embeds every value the cache model can hold;
   floats become *numeric values* (`FV`: a bit pattern with the two zeros identified), for which
   `PV.LawfulFloatEq` holds.  `valueEqual_eq_equal`: for **all** `a b : Cache.Val`,
   `PV.equal (toPV a) (toPV b) = .ok (Cache.valueEqual a b)`.  Corollaries transferred from C19:
   `valueEqual_symm`, `valueEqual_sound`.
2. `Wire.toVal : PV.TV F D → Cache.Val` is the translation the wire-ingest model (and the `wi`
   harness) applies to a decoded message.  `equal_eq_valueEqual_toVal`: for every pair of
   `TypedValue`s without nil payload (`payloadOK`: every decoded message) and **flat** (no
   leaf-list inside a leaf-list), `PV.equal a b = .ok (valueEqual (toVal a) (toVal b))`, for every
   float instance whose `==` is IEEE equality of the bit patterns (`BitsEq`).

What is outside (stated exactly, with witnesses):

* **nested leaf-lists** — `Cache.Val.leaflist` holds `Cache.Scalar`s, a leaf-list *inside* a
  leaf-list is carried as the opaque `Scalar.other "list" <raw>` and `scalarEqual` is `false` on
  it, while Go's `Equal` recurses: `nested_leaflist_limit` (`Equal([[1]], [[1]]) = true`, model
  `false`).  So the cache model never suppresses an unchanged nested leaf-list where the code
  does.  The `ca` token format (`l=(e+e+…)`, flat split) cannot carry such a value and the `ca` /
  `wi` generators never build one; extending `Cache.Scalar` to a nested inductive would change
  `scalarEqual` into a mutual recursion and break `scalarEqual_trans`, `scalarEqual_eq`,
  `exactV_of_noFloat` and every `cases … <;> simp [scalarEqual]` proof in three existing files, so
  the limit is documented here instead (`toPV_image`: the image of `toPV` lies within the flat,
  nil-free values whose unconsidered arms are `proto_bytes`).
* **nil payload pointers** (`decimalNil`, `leaflistNil`): Go panics, the cache model has no such
  value (`Wire.toVal` maps them to `decimal 0 0` / `leaflist []`, flagged "not WireValid" there):
  `nil_payload_limit`.
* a **nil element** of a leaf-list (`nilMsg` inside): `Equal` and the model agree (`false`), it is
  covered by (2) but is not in the image of `toPV` (it arrives as `Scalar.unset`).
-/
namespace Gnmi
namespace C19
open Cache PV

/-! ## floats as numeric values -/

/-- the canonical bit pattern of the numeric value: NaNs keep their payload (they are equal to
nothing anyway), `-0` becomes `+0` -/
def canonBits (eb mb x : Nat) : Nat :=
  if isNaNBits eb mb x then x else if isZeroBits eb mb x then 0 else x

theorem isNaNBits_zero (eb mb : Nat) : isNaNBits eb mb 0 = false := by
  simp [isNaNBits]

theorem isZeroBits_zero (eb mb : Nat) : isZeroBits eb mb 0 = true := by
  simp [isZeroBits]

theorem isNaN_canonBits (eb mb x : Nat) : isNaNBits eb mb (canonBits eb mb x) = isNaNBits eb mb x := by
  unfold canonBits
  cases h : isNaNBits eb mb x
  · cases hz : isZeroBits eb mb x <;> simp [h, isNaNBits_zero]
  · simp [h]

theorem isZero_canonBits (eb mb x : Nat) (h : isNaNBits eb mb x = false) :
    isZeroBits eb mb (canonBits eb mb x) = isZeroBits eb mb x := by
  unfold canonBits
  cases hz : isZeroBits eb mb x <;> simp [h, hz, isZeroBits_zero]

theorem canonBits_idem (eb mb x : Nat) : canonBits eb mb (canonBits eb mb x) = canonBits eb mb x := by
  cases h : isNaNBits eb mb x
  · cases hz : isZeroBits eb mb x
    · simp [canonBits, h, hz]
    · simp [canonBits, h, hz, isNaNBits_zero, isZeroBits_zero]
  · simp [canonBits, h]

/-- IEEE `==` does not see the canonicalisation -/
theorem floatBitsEq_canon (eb mb a b : Nat) :
    floatBitsEq eb mb (canonBits eb mb a) (canonBits eb mb b) = floatBitsEq eb mb a b := by
  unfold floatBitsEq
  rw [isNaN_canonBits, isNaN_canonBits]
  cases ha : isNaNBits eb mb a
  · cases hb : isNaNBits eb mb b
    · rw [isZero_canonBits _ _ _ ha, isZero_canonBits _ _ _ hb]
      cases za : isZeroBits eb mb a <;> cases zb : isZeroBits eb mb b <;>
        simp [canonBits, ha, hb, za, zb]
      · have h0 : a ≠ 0 := fun h => by rw [h, isZeroBits_zero] at za; cases za
        have h1 : a ≠ b := fun h => by rw [h, zb] at za; cases za
        rw [beq_false_of_ne h0, beq_false_of_ne h1]
      · have h0 : b ≠ 0 := fun h => by rw [h, isZeroBits_zero] at zb; cases zb
        have h1 : a ≠ b := fun h => by rw [h, zb] at za; cases za
        rw [beq_false_of_ne (Ne.symm h0), beq_false_of_ne h1]
    · simp
  · simp

/-- a `float32` (`eb = 8, mb = 23`) / `float64` (`eb = 11, mb = 52`) read as a numeric value:
a canonical bit pattern -/
structure FV (eb mb : Nat) where
  bits : Nat
  canonical : canonBits eb mb bits = bits
deriving DecidableEq

theorem FV.ext' {eb mb : Nat} : ∀ {x y : FV eb mb}, x.bits = y.bits → x = y
  | ⟨_, _⟩, ⟨_, _⟩, rfl => rfl

/-- the numeric value of a bit pattern -/
def fv (eb mb x : Nat) : FV eb mb := ⟨canonBits eb mb x, canonBits_idem eb mb x⟩

abbrev F32 := FV 8 23
abbrev F64 := FV 11 52

/-- Go's `==` on the numeric values; `widen`/`decToF` are not used by `Equal` (any function will
do: they only occur in `FromScalar`/`ToScalar`) -/
instance : FloatOps F32 F64 where
  feq32 x y := floatBitsEq 8 23 x.bits y.bits
  feq64 x y := floatBitsEq 11 52 x.bits y.bits
  widen _ := fv 11 52 0
  decToF _ _ := fv 8 23 0

theorem floatBitsEq_comm (eb mb a b : Nat) : floatBitsEq eb mb a b = floatBitsEq eb mb b a := by
  rw [Bool.eq_iff_iff, Feed.floatBitsEq_iff, Feed.floatBitsEq_iff]
  constructor
  · rintro ⟨h1, h2, h3⟩
    exact ⟨h2, h1, h3.elim (fun h => Or.inl ⟨h.2, h.1⟩) (fun h => Or.inr h.symm)⟩
  · rintro ⟨h1, h2, h3⟩
    exact ⟨h2, h1, h3.elim (fun h => Or.inl ⟨h.2, h.1⟩) (fun h => Or.inr h.symm)⟩

theorem FV.eq_of_floatBitsEq {eb mb : Nat} (x y : FV eb mb) (h : floatBitsEq eb mb x.bits y.bits = true) :
    x = y := by
  obtain ⟨hx, hy, hz⟩ := (Feed.floatBitsEq_iff _ _ _ _).1 h
  apply FV.ext'
  rcases hz with ⟨zx, zy⟩ | h
  · have e1 := x.canonical
    have e2 := y.canonical
    simp only [canonBits, hx, hy, zx, zy, Bool.false_eq_true, if_false, if_true] at e1 e2
    rw [← e1, ← e2]
  · exact h

/-- the laws `C19.equal_symm` / `C19.equal_sound` need hold of IEEE equality on numeric values -/
instance : LawfulFloatEq F32 F64 where
  feq32_symm x y := floatBitsEq_comm 8 23 x.bits y.bits
  feq64_symm x y := floatBitsEq_comm 11 52 x.bits y.bits
  feq32_sound x y h := FV.eq_of_floatBitsEq x y h
  feq64_sound x y h := FV.eq_of_floatBitsEq x y h

/-! ## the embedding `Cache.Val → PV.TV` -/

/-- bytes of a string (`Cache.Scalar.bytes` carries the hex rendering of a `bytes_val`; equal
bytes ⟺ equal renderings, so the rendering itself stands for the payload) -/
def bytesOf (s : String) : Bytes := s.toUTF8.data.toList

theorem bytesOf_inj {s t : String} (h : bytesOf s = bytesOf t) : s = t := by
  apply String.toByteArray_inj.1
  have h1 : s.toByteArray.data = t.toByteArray.data := Array.toList_inj.1 h
  cases hs : s.toByteArray
  cases ht : t.toByteArray
  simp only [hs, ht] at h1
  rw [h1]

theorem bytesOf_beq (s t : String) : (bytesOf s == bytesOf t) = (s == t) := by
  by_cases h : s = t
  · subst h; simp
  · have : bytesOf s ≠ bytesOf t := fun e => h (bytesOf_inj e)
    rw [beq_false_of_ne h, beq_false_of_ne this]

/-- one oneof arm.  The arms `Equal` "does not consider" (`Scalar.other`: json, json_ietf, ascii,
any, proto_bytes and the opaque rendering of a nested leaf-list) are sent to `proto_bytes`, an
arm `Equal` answers `false` on whatever the payload. -/
def scalarToPV : Scalar → TV F32 F64
  | .unset => .unset
  | .str s => .stringVal s
  | .int i => .intVal i
  | .uint n => .uintVal n
  | .bool b => .boolVal b
  | .bytes h => .bytesVal (bytesOf h)
  | .double b => .doubleVal (fv 11 52 b)
  | .float b => .floatVal (fv 8 23 b)
  | .decimal d p => .decimalVal d p
  | .other tag dg => .protoBytes (bytesOf (tag ++ ":" ++ dg))

/-- `Update.Val` as the cache model holds it ↦ the `*TypedValue` -/
def toPV : Val → TV F32 F64
  | .absent => .nilMsg
  | .scalar s => scalarToPV s
  | .leaflist l => .leaflistVal (l.map scalarToPV)

theorem equal_scalarToPV (x y : Scalar) :
    equal (scalarToPV x) (scalarToPV y) = .ok (scalarEqual x y) := by
  cases x <;> cases y <;>
    simp [scalarToPV, equal, scalarEqual, bytesOf_beq, FloatOps.feq32, FloatOps.feq64, fv, floatBitsEq_canon]

theorem equalList_scalarToPV : ∀ (a b : List Scalar), a.length = b.length →
    equalList (a.map scalarToPV) (b.map scalarToPV) = .ok (scalarsEqual a b)
  | [], [], _ => by simp [equalList, scalarsEqual]
  | [], _ :: _, h => by simp at h
  | _ :: _, [], h => by simp at h
  | x :: a, y :: b, h => by
    have ih := equalList_scalarToPV a b (by simpa using h)
    simp only [List.map_cons, equalList, equal_scalarToPV, scalarsEqual]
    cases scalarEqual x y <;> simp [ih]

theorem scalarsEqual_length : ∀ (a b : List Scalar), scalarsEqual a b = true → a.length = b.length
  | [], [], _ => rfl
  | [], _ :: _, h => by simp [scalarsEqual] at h
  | _ :: _, [], h => by simp [scalarsEqual] at h
  | _ :: a, _ :: b, h => by
    simp only [scalarsEqual, Bool.and_eq_true] at h
    simp [scalarsEqual_length a b h.2]

/-- **The two models of `value.Equal` agree** on every pair of values the cache model can hold:
`PV.equal` on the embedded values never errs or panics and answers what `Cache.valueEqual`
answers. -/
theorem valueEqual_eq_equal (a b : Val) : equal (toPV a) (toPV b) = .ok (valueEqual a b) := by
  cases a with
  | absent => simp [toPV, equal, valueEqual]
  | scalar x =>
    cases b with
    | absent => cases x <;> simp [toPV, scalarToPV, equal, valueEqual]
    | scalar y => simpa [toPV, valueEqual] using equal_scalarToPV x y
    | leaflist l => cases x <;> simp [toPV, scalarToPV, equal, valueEqual]
  | leaflist l =>
    cases b with
    | absent => simp [toPV, equal, valueEqual]
    | scalar y => cases y <;> simp [toPV, scalarToPV, equal, valueEqual]
    | leaflist l' =>
      simp only [toPV, equal, valueEqual, List.length_map]
      by_cases h : l.length = l'.length
      · simp [h, equalList_scalarToPV l l' h]
      · have : scalarsEqual l l' = false := by
          cases hs : scalarsEqual l l'
          · rfl
          · exact absurd (scalarsEqual_length l l' hs) h
        simp [h, this]

/-- the Boolean reading -/
theorem valueEqual_iff_equal (a b : Val) : valueEqual a b = true ↔ equal (toPV a) (toPV b) = .ok true := by
  rw [valueEqual_eq_equal]
  constructor
  · intro h; rw [h]
  · intro h; injection h

/-! ## corollaries transferred from C19 -/

/-- **`equal_symm` transferred**: the suppression test of the cache is symmetric -/
theorem valueEqual_symm (a b : Val) : valueEqual a b = valueEqual b a := by
  have h := equal_symm (toPV a) (toPV b)
  rw [valueEqual_eq_equal, valueEqual_eq_equal] at h
  injection h

/-- a scalar with its float read as a numeric value -/
def canonScalar : Scalar → Scalar
  | .double b => .double (canonBits 11 52 b)
  | .float b => .float (canonBits 8 23 b)
  | s => s

/-- a cache value with its floats read as numeric values (`-0 ↦ +0`) -/
def canonVal : Val → Val
  | .absent => .absent
  | .scalar s => .scalar (canonScalar s)
  | .leaflist l => .leaflist (l.map canonScalar)

theorem canonScalar_of_toPV {x y : Scalar} (h : scalarToPV x = scalarToPV y) (he : scalarEqual x y = true) :
    canonScalar x = canonScalar y := by
  cases x <;> cases y <;> simp [scalarEqual] at he <;> simp [scalarToPV, fv] at h <;>
    simp_all [canonScalar]

theorem canonScalars_of_toPV : ∀ {a b : List Scalar}, a.map scalarToPV = b.map scalarToPV →
    scalarsEqual a b = true → a.map canonScalar = b.map canonScalar
  | [], [], _, _ => rfl
  | [], _ :: _, _, h => by simp [scalarsEqual] at h
  | _ :: _, [], _, h => by simp [scalarsEqual] at h
  | x :: a, y :: b, hm, h => by
    simp only [scalarsEqual, Bool.and_eq_true] at h
    simp only [List.map_cons, List.cons.injEq] at hm ⊢
    exact ⟨canonScalar_of_toPV hm.1 h.1, canonScalars_of_toPV hm.2 h.2⟩

/-- **`equal_sound` transferred**: the cache suppresses an update as "unchanged" only when the
stored and the new value are the same value — same arm, same payload, floats as numeric values
(`+0`/`-0` one value, NaN equal to nothing), lists element by element. -/
theorem valueEqual_sound (a b : Val) (h : valueEqual a b = true) : canonVal a = canonVal b := by
  have hs : toPV a = toPV b := equal_sound (toPV a) (toPV b) ((valueEqual_iff_equal a b).1 h)
  cases a <;> cases b <;> simp [valueEqual] at h
  · simp only [toPV] at hs
    simp only [canonVal, canonScalar_of_toPV hs h]
  · simp only [toPV, TV.leaflistVal.injEq] at hs
    simp only [canonVal, canonScalars_of_toPV hs h]

/-- values without a floating-point scalar: equal means identical (the `C01.noFloat` class) -/
theorem valueEqual_sound_exact (a b : Val) (h : valueEqual a b = true) (hc : canonVal a = a)
    (hc' : canonVal b = b) : a = b := by
  rw [← hc, ← hc', valueEqual_sound a b h]

/-! ## the other direction: the wire translation `Wire.toVal` -/

section Wire
open Wire (FloatBits toVal hexBytes hexDigit)
variable {F D : Type} [FloatOps F D] [FloatBits F D]

/-- Go's `==` on `float32`/`float64` is IEEE equality of the bit patterns
(`math.Float32bits/64bits`): the link between the two float abstractions -/
class BitsEq (F D : Type) [FloatOps F D] [FloatBits F D] : Prop where
  feq32_bits : ∀ x y : F, FloatOps.feq32 (D := D) x y =
    floatBitsEq 8 23 (FloatBits.bits32 (D := D) x) (FloatBits.bits32 (D := D) y)
  feq64_bits : ∀ x y : D, FloatOps.feq64 (F := F) x y =
    floatBitsEq 11 52 (FloatBits.bits64 (F := F) x) (FloatBits.bits64 (F := F) y)

theorem hexDigit_inj : ∀ n m : Fin 16, hexDigit n.1 = hexDigit m.1 → n = m := by decide

theorem hexPair_inj (x y : UInt8)
    (h : [hexDigit (x.toNat / 16), hexDigit (x.toNat % 16)] = [hexDigit (y.toNat / 16), hexDigit (y.toNat % 16)]) :
    x = y := by
  simp only [List.cons.injEq, and_true] at h
  have hx : x.toNat < 256 := x.toNat_lt
  have hy : y.toNat < 256 := y.toNat_lt
  have h1 := hexDigit_inj ⟨x.toNat / 16, by omega⟩ ⟨y.toNat / 16, by omega⟩ h.1
  have h2 := hexDigit_inj ⟨x.toNat % 16, Nat.mod_lt _ (by decide)⟩ ⟨y.toNat % 16, Nat.mod_lt _ (by decide)⟩ h.2
  simp only [Fin.mk.injEq] at h1 h2
  apply UInt8.toNat_inj.1
  omega

theorem hexList_inj : ∀ (a b : Bytes),
    a.flatMap (fun x => [hexDigit (x.toNat / 16), hexDigit (x.toNat % 16)]) =
      b.flatMap (fun x => [hexDigit (x.toNat / 16), hexDigit (x.toNat % 16)]) → a = b
  | [], [], _ => rfl
  | [], _ :: _, h => by simp at h
  | _ :: _, [], h => by simp at h
  | x :: a, y :: b, h => by
    simp only [List.flatMap_cons, List.cons_append, List.nil_append, List.cons.injEq] at h
    have hxy := hexPair_inj x y (by simp [h.1, h.2.1])
    rw [hxy, hexList_inj a b h.2.2]

/-- `hex.EncodeToString` is injective -/
theorem hexBytes_inj {a b : Bytes} (h : hexBytes a = hexBytes b) : a = b := by
  unfold hexBytes at h
  exact hexList_inj a b (String.ofList_injective h)

theorem hexBytes_beq (a b : Bytes) : (hexBytes a == hexBytes b) = (a == b) := by
  by_cases h : a = b
  · subst h; simp
  · have : hexBytes a ≠ hexBytes b := fun e => h (hexBytes_inj e)
    rw [beq_false_of_ne h, beq_false_of_ne this]

/-- no leaf-list (with or without payload) as an *element* -/
def isList : TV F D → Bool
  | .leaflistVal _ => true
  | .leaflistNil => true
  | _ => false

/-- **flat**: no leaf-list inside a leaf-list -/
def flat : TV F D → Bool
  | .leaflistVal l => l.all (fun e => !isList e)
  | _ => true

variable [BitsEq F D]

/-- one element of a flat list (or a top-level non-list value) -/
theorem equal_toScalar (enc : String → String) (x y : TV F D) (hx : isList x = false) (hy : isList y = false)
    (px : payloadOK x = true) (py : payloadOK y = true) :
    equal x y = .ok (scalarEqual (Wire.toScalar enc x) (Wire.toScalar enc y)) := by
  cases x <;> simp [isList, payloadOK] at hx px <;> cases y <;> simp [isList, payloadOK] at hy py <;>
    simp [equal, Wire.toScalar, scalarEqual, hexBytes_beq, BitsEq.feq32_bits, BitsEq.feq64_bits]

theorem equalList_toScalar (enc : String → String) : ∀ (a b : List (TV F D)), a.length = b.length →
    a.all (fun e => !isList e) = true → b.all (fun e => !isList e) = true →
    payloadOKList a = true → payloadOKList b = true →
    equalList a b = .ok (scalarsEqual (a.map (Wire.toScalar enc)) (b.map (Wire.toScalar enc)))
  | [], [], _, _, _, _, _ => by simp [equalList, scalarsEqual]
  | [], _ :: _, h, _, _, _, _ => by simp at h
  | _ :: _, [], h, _, _, _, _ => by simp at h
  | x :: a, y :: b, h, fa, fb, pa, pb => by
    simp only [List.all_cons, Bool.and_eq_true, Bool.not_eq_true'] at fa fb
    simp only [payloadOKList, Bool.and_eq_true] at pa pb
    have ih := equalList_toScalar enc a b (by simpa using h) fa.2 fb.2 pa.2 pb.2
    simp only [List.map_cons, equalList, equal_toScalar enc x y fa.1 fb.1 pa.1 pb.1, scalarsEqual]
    cases scalarEqual (Wire.toScalar enc x) (Wire.toScalar enc y) <;> simp [ih]

/-- **The translation of the wire-ingest model preserves `Equal`**: for every pair of
`TypedValue`s without nil payload pointers and without a leaf-list inside a leaf-list, Go's
`Equal` (as `PV.equal`) answers what the cache model's `valueEqual` answers on the translated
values; in particular it neither errs nor panics. -/
theorem equal_eq_valueEqual_toVal (enc : String → String) (a b : TV F D)
    (pa : payloadOK a = true) (pb : payloadOK b = true) (fa : flat a = true) (fb : flat b = true) :
    equal a b = .ok (valueEqual (toVal enc a) (toVal enc b)) := by
  by_cases la : isList a = true
  · cases a <;> simp [isList, payloadOK] at la pa
    rename_i l
    by_cases lb : isList b = true
    · cases b <;> simp [isList, payloadOK] at lb pb
      rename_i l'
      simp only [flat] at fa fb
      simp only [equal, toVal, valueEqual]
      by_cases h : l.length = l'.length
      · simp [h, equalList_toScalar enc l l' h fa fb pa pb]
      · have : scalarsEqual (l.map (Wire.toScalar enc)) (l'.map (Wire.toScalar enc)) = false := by
          cases hs : scalarsEqual (l.map (Wire.toScalar enc)) (l'.map (Wire.toScalar enc))
          · rfl
          · exact absurd (by simpa using scalarsEqual_length _ _ hs) h
        simp [h, this]
    · cases b <;> simp [isList] at lb <;> simp [equal, toVal, valueEqual]
  · have la' : isList a = false := by simpa using la
    by_cases lb : isList b = true
    · cases b <;> simp [isList, payloadOK] at lb pb
      cases a <;> simp [isList] at la' <;> simp [equal, toVal, valueEqual]
    · have lb' : isList b = false := by simpa using lb
      have h := equal_toScalar enc a b la' lb' pa pb
      cases a <;> simp [isList] at la' <;> cases b <;> simp [isList] at lb' <;>
        simp_all [toVal, valueEqual, Wire.toScalar, scalarEqual, equal]

end Wire

/-! ## what is outside: witnesses -/

/-- bit patterns as floats: IEEE equality on the raw patterns (what the driver's `Float` does) -/
local instance bitsOps : FloatOps Nat Nat where
  feq32 x y := floatBitsEq 8 23 x y
  feq64 x y := floatBitsEq 11 52 x y
  widen x := x
  decToF _ _ := 0
local instance bitsBits : Wire.FloatBits Nat Nat := ⟨id, id⟩
local instance : BitsEq Nat Nat := ⟨fun _ _ => rfl, fun _ _ => rfl⟩

/-- **Fragment limit of `Cache.Val`, exactly.**  A leaf-list inside a leaf-list: Go's `Equal`
recurses and answers `true` on two equal nested lists, the translated cache values carry the
inner list as the opaque `Scalar.other "list" …` and `valueEqual` answers `false`: the cache model
does not suppress an unchanged nested leaf-list (the code, event-driven, does). -/
theorem nested_leaflist_limit :
    let v : TV Nat Nat := .leaflistVal [.leaflistVal [.intVal 1]]
    payloadOK v = true ∧ flat v = false ∧
    equal v v = .ok true ∧
    valueEqual (Wire.toVal id v) (Wire.toVal id v) = false ∧
    Wire.toVal id v = .leaflist [.other "list" "l:(i:1)"] := by
  decide

/-- nil payload pointers: Go panics, the translated values compare (`not WireValid`; no decoded
message has one) -/
theorem nil_payload_limit :
    equal (F := Nat) (D := Nat) .decimalNil .decimalNil = .panic ∧
    valueEqual (Wire.toVal id (.decimalNil : TV Nat Nat)) (Wire.toVal id (.decimalNil : TV Nat Nat)) = true ∧
    equal (F := Nat) (D := Nat) .leaflistNil (.leaflistVal []) = .panic ∧
    valueEqual (Wire.toVal id (.leaflistNil : TV Nat Nat)) (Wire.toVal id (.leaflistVal [] : TV Nat Nat)) = true := by
  decide

/-- the image of `toPV` lies in: `nilMsg`, or one flat arm, or a list of flat arms — where a flat
arm is `unset`, a primitive with canonical floats, a decimal with payload, or `proto_bytes`.  No
nil payload, no `nilMsg`/leaf-list element, no json/ascii/any arm (those are all `Equal`-equivalent
to `proto_bytes`: answered `false`). -/
def inImageScalar : TV F32 F64 → Bool
  | .unset | .stringVal _ | .intVal _ | .uintVal _ | .boolVal _ | .doubleVal _ | .floatVal _
  | .decimalVal _ _ | .bytesVal _ | .protoBytes _ => true
  | _ => false

theorem toPV_image (a : Val) :
    toPV a = .nilMsg ∨ inImageScalar (toPV a) = true ∨
      ∃ l, toPV a = .leaflistVal l ∧ ∀ e ∈ l, inImageScalar e = true := by
  cases a with
  | absent => exact Or.inl rfl
  | scalar s => refine Or.inr (Or.inl ?_); cases s <;> simp [toPV, scalarToPV, inImageScalar]
  | leaflist l =>
    refine Or.inr (Or.inr ⟨_, rfl, ?_⟩)
    intro e he
    obtain ⟨s, _, rfl⟩ := List.mem_map.1 he
    cases s <;> simp [scalarToPV, inImageScalar]

/-! ## non-vacuity -/

/-- `+0` and `-0` doubles in a list, an equal string: suppressed; the embedded values are equal
`TypedValue`s; NaN is equal to nothing, itself included -/
example :
    valueEqual (.leaflist [.double 0, .str "x"]) (.leaflist [.double (2 ^ 63), .str "x"]) = true ∧
    toPV (.leaflist [.double 0, .str "x"]) = toPV (.leaflist [.double (2 ^ 63), .str "x"]) ∧
    valueEqual (.scalar (.double 0x7ff8000000000001)) (.scalar (.double 0x7ff8000000000001)) = false ∧
    valueEqual (.scalar (.other "json" "7b7d")) (.scalar (.other "json" "7b7d")) = false :=
  ⟨by decide, equal_sound _ _ ((valueEqual_iff_equal _ _).1 (by decide)), by decide, by decide⟩

/-- the wire direction on a concrete flat pair (a decoded leaf-list of an int and a double) -/
example :
    equal (F := Nat) (D := Nat) (.leaflistVal [.intVal 1, .doubleVal 0]) (.leaflistVal [.intVal 1, .doubleVal (2 ^ 63)]) =
      .ok (valueEqual (Wire.toVal id (.leaflistVal [.intVal 1, .doubleVal 0] : TV Nat Nat))
        (Wire.toVal id (.leaflistVal [.intVal 1, .doubleVal (2 ^ 63)] : TV Nat Nat))) :=
  equal_eq_valueEqual_toVal id _ _ (by decide) (by decide) (by decide) (by decide)

end C19
end Gnmi
