import Gnmi.Props.C04Sync
import Gnmi.Lemmas.SubscribeOffered
/-!
# C04 (sequential Subscribe model) — the event form: every change offered since registration is accounted for

Over the code-shaped model `Model/Subscribe.lean`, for the `GOp` histories of `C04Gate`/`C04Sync`
(`Subscribe` calls of any mode/ACL/request, cache API calls, flow control shut / step / open) and a
STREAM subscriber with **either** value of `updates_only`, followed from the call that created it
(`C04Sync.tracked`):

* `every_offered_event_accounted` — the trace form of `no_missed_change`: if, since the call, some
  cache operation emitted an event that decides a key the subscription matches on a target the ACL
  allows (`Emitted`: an update of that leaf, an atomic update above it, a delete covering it), then
  — unless the RPC has ended — what the subscriber was sent, the response held in a gated `Send` and
  what its queue stands for (`SubGate.pend`), replayed, shows at that key **what the cache holds
  now** (the newest value: individually or coalesced); and a response deciding the key is among
  them, or the cache holds nothing there.  `update_event_accounted`: for an update of the leaf
  itself a response for that leaf *is* among them (coalescing, freezing, re-reading and flow
  control keep the leaf).  `queued_is_newest`: a queued handle shows the cache's current value — it
  is what would be sent now.
* `updates_only_converges_full : C04Sync.updates_only_converges enc cfg` — the full statement
  `C04Sync` left as a `Prop`: no hypothesis on `CompletePath` (a request with an origin in prefix and
  path is accepted under `updates_only`, stays registered and is covered: `tracked_inv`,
  `SubOff.uinv_init_any`), and a key rewritten to a value equal to its registration-time value
  (A → B → A) is reflected.  `updates_only_converges_pending` / `updates_only_converges_open`: the
  three `…_partial` theorems of `C04Sync` without `hcp`; `updates_only_event_form_pending`: the
  event form at every point of the history (gate shut or not).
* `stream_event_form` — the same for a subscriber that asked for the snapshot: once its gate is open
  the replay of what it was sent is the cache on every allowed matched key, holds nothing else, and
  every update event of such a leaf since the call has a response for that leaf in `out`.

Hypotheses as in `C04Gate`: `C03.OkRun` of the cache calls, no target literally named `*`.
Not covered: histories with poll / half-close / send-timeout operations (`C04Sync.XOp`): a timeout
ends the RPC, the other two do nothing to a STREAM subscriber.
-/
namespace Gnmi
namespace C04UO
open Cache Gnmi.Sub Feed SubStream SubGate SubSync SubOff C04Gate C04Sync

/-! ## events emitted along a history -/

/-- some cache operation of `h` (run from `st`) emits an event that decides `κ` (`w = False`: that is
an update of the leaf at `κ`) -/
def EmitsIn (enc : String → String) (w : Prop) (κ : Path) : Sub.State → List GOp → Prop
  | _, [] => False
  | st, op :: h =>
    (∃ o e, op = .ca o ∧ e ∈ (st.cache.step enc o).2.2 ∧ decidesEv κ e = true ∧ (w ∨ updAt κ e = true)) ∨
    EmitsIn enc w κ (gstep enc st op) h

theorem grun_append (enc : String → String) (st : Sub.State) (a b : List GOp) :
    grun enc st (a ++ b) = grun enc (grun enc st a) b := by
  unfold grun
  rw [List.foldl_append]

theorem emitsIn_of_split (enc : String → String) (w : Prop) (κ : Path) (o : Cache.Op) (e : Event) (b : List GOp) :
    ∀ (a : List GOp) (st : Sub.State), e ∈ ((grun enc st a).cache.step enc o).2.2 → decidesEv κ e = true →
      (w ∨ updAt κ e = true) → EmitsIn enc w κ st (a ++ .ca o :: b)
  | [], _, he, hd, hw => Or.inl ⟨o, e, rfl, he, hd, hw⟩
  | op :: a, st, he, hd, hw => Or.inr (emitsIn_of_split enc w κ o e b a (gstep enc st op) he hd hw)

/-! ## following one subscriber: the shadow invariant and the ghost invariant together -/

theorem uinv_regs {cfg : Cfg} {C0 : String → Path → Option Noti} {V : Views} {a : Acl} {r : Req} {su : Subscriber}
    (h : UInv cfg C0 V a r su) : su.regs = regQueries r := by
  obtain ⟨hr, _, _, snap, ginv, _⟩ := h
  have h2 : su.regs = regQueries { su.req with updatesOnly := false } := ginv.regsEq
  rw [regQueries_uo, hr] at h2
  exact h2

/-- the subscriber at a position keeps `UInv` along any history while it is alive (as
`C04Sync.track`), and with it the ghost invariant `JS` for an allowed matched key: kept once it
holds, established by the first event that decides the key -/
theorem trackJ (enc : String → String) (C0 : String → Path → Option Noti) (a : Acl) (r : Req)
    (w : Prop) (t : String) (k : Path) :
    ∀ (h : List GOp) (cfg : Cfg) (st : Sub.State) (i : Nat) (su : Subscriber),
    GHInv st → st.cache.cfg = cfg → C03.OkRun enc st.cache (cacheOps h) → NoStarTargets h →
    st.subs[i]? = some su → (su.alive = true → UInv cfg C0 (treesOf st.cache) a r su) →
    ∃ su', (grun enc st h).subs[i]? = some su' ∧
      (su'.alive = true → su.alive = true ∧ UInv cfg C0 (treesOf (grun enc st h).cache) a r su' ∧
        (a.check t = true → (regQueries r).any (fun q => qmatches q (t :: k)) = true →
          (JS w t k (treesOf st.cache) su ∨ EmitsIn enc w (t :: k) st h) →
          JS w t k (treesOf (grun enc st h).cache) su'))
  | [], _, _, _, su, _, _, _, _, hsu, hu =>
    ⟨su, hsu, fun ha => ⟨ha, hu ha, fun _ _ hj => hj.elim (fun h => h) (fun h => h.elim)⟩⟩
  | op :: h, cfg, st, i, su, hi, hcfg, hok, hns, hsu, hu => by
    subst hcfg
    have hsu' := gstep_getElem enc st op i su hsu
    have halive : (subF enc st op su).alive = true → su.alive = true := by
      intro ha
      cases hs : su.alive with
      | true => rfl
      | false => rw [subF_dead enc st op su hs] at ha; cases ha
    cases hc : caOf op with
    | none =>
      have hi' := gstep_inv enc st op hi (fun o ho => by rw [hc] at ho; cases ho)
      have hca := gstep_cache' enc st op hc
      rw [cacheOps_cons_other h hc] at hok
      have hns' : NoStarTargets h := by
        intro x hx
        apply hns x
        rw [cacheOps_cons_other h hc]
        exact hx
      -- the invariants of the subscriber after the operation
      have step : (subF enc st op su).alive = true →
          UInv st.cache.cfg C0 (treesOf (gstep enc st op).cache) a r (subF enc st op su) ∧
          (JS w t k (treesOf st.cache) su → JS w t k (treesOf (gstep enc st op).cache) (subF enc st op su)) := by
        intro ha
        have hu0 := hu (halive ha)
        obtain ⟨_, _, _, snap, ginv, _⟩ := id hu0
        rw [hca]
        cases op with
        | sub id acl req => exact ⟨hu0, fun hj => hj⟩
        | ca o => cases hc
        | gateShut id =>
          simp only [subF] at ha ⊢
          split
          · rename_i hid
            rw [if_pos hid] at ha
            exact ⟨setGate_sub_uinv hi.cok.vok true hu0 ha, gateF_JS true ginv ha⟩
          · exact ⟨hu0, fun hj => hj⟩
        | gateOpen id =>
          simp only [subF] at ha ⊢
          split
          · rename_i hid
            rw [if_pos hid] at ha
            exact ⟨setGate_sub_uinv hi.cok.vok false hu0 ha, gateF_JS false ginv ha⟩
          · exact ⟨hu0, fun hj => hj⟩
        | gateStep id =>
          simp only [subF] at ha ⊢
          split
          · rename_i hid
            rw [if_pos hid] at ha
            exact ⟨stepGate_sub_uinv hi.cok.vok hu0 ha, stepF_JS ginv ha⟩
          · exact ⟨hu0, fun hj => hj⟩
      obtain ⟨su', hget, hrest⟩ := trackJ enc C0 a r w t k h st.cache.cfg (gstep enc st op) i _ hi'
        (by rw [hca]) (by rw [hca]; exact hok) hns' hsu' (fun ha => (step ha).1)
      refine ⟨su', hget, fun ha' => ?_⟩
      obtain ⟨ha1, hu', hj'⟩ := hrest ha'
      refine ⟨halive ha1, hu', fun hacl hmt hj => hj' hacl hmt ?_⟩
      rcases hj with hj | (⟨o, _, ho, _⟩ | hj)
      · exact Or.inl ((step ha1).2 hj)
      · rw [ho] at hc; cases hc
      · exact Or.inr hj
    | some o =>
      have := caOf_some hc
      subst this
      rw [cacheOps_cons_ca] at hok
      have hno : NoStarOp o := hns o (by rw [cacheOps_cons_ca]; exact List.mem_cons_self ..)
      have hi' := gstep_inv enc st (.ca o) hi (fun o' ho => by
        simp only [caOf, Option.some.injEq] at ho; subst ho; exact ⟨hok.1, hno⟩)
      have hns' : NoStarTargets h := by
        intro x hx
        apply hns x
        rw [cacheOps_cons_ca]
        exact List.mem_cons_of_mem _ hx
      obtain ⟨hc', hsim⟩ := step_cacheOK enc st.cache o hi.sinv hi.cok hok.1 hno
      have hgood := (step_goodTr enc st.cache o hi.sinv hi.cok hok.1 hno).1
      obtain ⟨su', hget, hrest⟩ := trackJ enc C0 a r w t k h st.cache.cfg (gstep enc st (.ca o)) i _ hi'
        (C14.step_cfg enc st.cache o) hok.2 hns' hsu'
        (fun ha => feed_sub_uinv hi.cok.vok hc'.vok hgood hsim hc'.hkey (hu (halive ha)) ha)
      refine ⟨su', hget, fun ha' => ?_⟩
      obtain ⟨ha1, hu', hj'⟩ := hrest ha'
      refine ⟨halive ha1, hu', fun hacl hmt hj => hj' hacl hmt ?_⟩
      have hu0 := hu (halive ha1)
      have hregs := uinv_regs hu0
      obtain ⟨_, hacl0, _, snap, ginv, _⟩ := hu0
      have step : (JS w t k (treesOf st.cache) su ∨
            ∃ e ∈ (st.cache.step enc o).2.2, decidesEv (t :: k) e = true ∧ (w ∨ updAt (t :: k) e = true)) →
          JS w t k (treesOf (st.cache.step enc o).1) (feedSub (st.cache.step enc o).1 (st.cache.step enc o).2.2 su) :=
        feedSub_JS hi.cok.vok hgood hsim hc'.hkey ginv ha1 (by rw [hacl0]; exact hacl) (by rw [hregs]; exact hmt)
      rcases hj with hj | (⟨o', e, ho, he, hd, hw⟩ | hj)
      · exact Or.inl (step (Or.inl hj))
      · cases ho
        exact Or.inl (step (Or.inr ⟨e, he, hd, hw⟩))
      · exact Or.inr hj

/-! ## the subscriber of an accepted STREAM call, either value of `updates_only` -/

/-- what the shadow's extra prefix shows: with `updates_only` the content of the cache when the
call was made (the snapshot the subscriber did not ask for), else nothing -/
def C0of (enc : String → String) (cfg : Cfg) (h1 : List GOp) (r : Req) : String → Path → Option Noti :=
  fun t k => if r.updatesOnly = true then lookup (treesOf (grun enc (init cfg) h1).cache t) k else none

/-- the state in which `h2` starts: after `h1` and the call -/
abbrev after (enc : String → String) (cfg : Cfg) (h1 : List GOp) (op : GOp) : Sub.State :=
  gstep enc (grun enc (init cfg) h1) op

/-- **The subscriber of an accepted STREAM call at the end of the history** — `updates_only` or not,
whatever `CompletePath` says of its paths: the invariant of its shadow (`SubSync.UInv`; of itself if
it asked for the snapshot) and, for every allowed matched key, the ghost invariant once an event
deciding the key was emitted -/
theorem tracked_inv (enc : String → String) (cfg : Cfg) (h1 h2 : List GOp) (id : String) (acl : Acl) (r : Req)
    (hok : C03.OkRun enc { cfg := cfg } (cacheOps (h1 ++ .sub id acl (some r) :: h2)))
    (hns : NoStarTargets (h1 ++ .sub id acl (some r) :: h2)) (hm : r.mode = .stream) :
    VOK (treesOf (grun enc (init cfg) (h1 ++ .sub id acl (some r) :: h2)).cache) ∧
    ∀ su, tracked enc cfg h1 (.sub id acl (some r)) h2 = some su → su.alive = true →
      UInv cfg (C0of enc cfg h1 r) (treesOf (grun enc (init cfg) (h1 ++ .sub id acl (some r) :: h2)).cache) acl r su ∧
      ∀ (w : Prop) t k, acl.check t = true → matched r t k = true →
        EmitsIn enc w (t :: k) (after enc cfg h1 (.sub id acl (some r))) h2 →
        JS w t k (treesOf (grun enc (init cfg) (h1 ++ .sub id acl (some r) :: h2)).cache) su := by
  have hco : cacheOps (h1 ++ .sub id acl (some r) :: h2) = cacheOps h1 ++ cacheOps h2 := by
    rw [cacheOps_append, cacheOps_cons_other _ rfl]
  rw [hco] at hok
  obtain ⟨hok1, hok2⟩ := okRun_split enc h1 (init cfg) (cacheOps h2) hok
  have hns1 : NoStarTargets h1 := fun op hop => hns op (by rw [hco]; exact List.mem_append_left _ hop)
  have hns2 : NoStarTargets h2 := fun op hop => hns op (by rw [hco]; exact List.mem_append_right _ hop)
  obtain ⟨inv1, hcfg1⟩ := grun_inv enc h1 (init cfg) (ghinv_init cfg) hok1 hns1
  have hcfg1' : (grun enc (init cfg) h1).cache.cfg = cfg := hcfg1
  have hC0 : C0of enc cfg h1 r = fun t k =>
      if r.updatesOnly = true then lookup (treesOf (grun enc (init cfg) h1).cache t) k else none := rfl
  unfold after
  generalize hst1 : grun enc (init cfg) h1 = st1 at inv1 hcfg1' hok2 hC0
  have hrun : grun enc (init cfg) (h1 ++ .sub id acl (some r) :: h2) =
      grun enc (gstep enc st1 (.sub id acl (some r))) h2 := by
    unfold grun
    rw [List.foldl_append]
    show List.foldl (gstep enc) (gstep enc (grun enc (init cfg) h1) _) h2 = _
    rw [hst1]
  have inv1' : GHInv (gstep enc st1 (.sub id acl (some r))) :=
    gstep_inv enc st1 _ inv1 (fun o ho => by cases ho)
  have hca : (gstep enc st1 (.sub id acl (some r))).cache = st1.cache := gstep_cache' enc st1 _ rfl
  obtain ⟨s, hs, hc⟩ := subscribe_shape st1 id acl (some r)
  have hget : (gstep enc st1 (.sub id acl (some r))).subs[st1.subs.length]? = some s := by
    show (subscribe st1 id acl (some r)).subs[st1.subs.length]? = some s
    rw [hs]
    simp
  have hg : st1.pregated.contains id = false := by rw [inv1.pre]; rfl
  have hU : s.alive = true → UInv cfg (C0of enc cfg h1 r)
      (treesOf (gstep enc st1 (.sub id acl (some r))).cache) acl r s := by
    intro ha
    rw [hca]
    rcases hc with ⟨c, rfl⟩ | ⟨r', hr, _, hne⟩ | ⟨r', hr, _, huo, hT, hex, rfl⟩ | ⟨r', hr, _, huo, hT, hex, rfl⟩
    · cases ha
    · cases hr; exact absurd hm hne
    · cases hr
      have : C0of enc cfg h1 r = fun t k => lookup (treesOf st1.cache t) k := by
        rw [hC0]; funext t k; rw [if_pos huo]
      rw [hg, uoSub_eq, this, ← hcfg1']
      exact uinv_init_any inv1.cok id r acl hm hT (C04Seq.hasTarget_exists hex)
    · cases hr
      have : C0of enc cfg h1 r = fun _ _ => none := by
        rw [hC0]; funext t k; rw [if_neg (by rw [huo]; exact Bool.false_ne_true)]
      rw [hg] at ha ⊢
      rw [this]
      have hl : Live (streamSub st1.cache id r acl) := ⟨ha, by rw [streamSub_req]; exact hm, by rw [streamSub_req]; exact huo⟩
      have sinv := streamSub_inv inv1.cok id r acl hT (C04Seq.hasTarget_exists hex) hl
      rw [hcfg1'] at sinv
      exact uinv_plain (ginv_of_subInv sinv) (streamSub_req ..) (streamSub_acl ..) hm huo
  obtain ⟨inv2, _⟩ := grun_inv enc h2 _ inv1' (by rw [hca]; exact hok2) hns2
  rw [hrun]
  refine ⟨inv2.cok.vok, ?_⟩
  intro su hsu ha
  unfold tracked at hsu
  rw [hrun, hst1] at hsu
  have base : ∀ (w : Prop) t k, ∃ su', (grun enc (gstep enc st1 (.sub id acl (some r))) h2).subs[st1.subs.length]? = some su' ∧ _ :=
    fun w t k => trackJ enc (C0of enc cfg h1 r) acl r w t k h2 cfg
      (gstep enc st1 (.sub id acl (some r))) st1.subs.length s
      inv1' (by rw [hca]; exact hcfg1') (by rw [hca]; exact hok2) hns2 hget hU
  constructor
  · obtain ⟨su', hget', hrest⟩ := base True "" []
    rw [hsu] at hget'
    cases hget'
    exact (hrest ha).2.1
  · intro w t k hacl hmt hem
    obtain ⟨su', hget', hrest⟩ := base w t k
    rw [hsu] at hget'
    cases hget'
    exact (hrest ha).2.2 hacl hmt (Or.inr hem)

/-- some cache operation of `h2` — the history after the call `op0` made after `h1` — emitted an
event that decides `κ`: an update of that leaf, an atomic update above it, a delete covering it
(the event hypothesis of `C04Sync.updates_only_converges`) -/
def Emitted (enc : String → String) (cfg : Cfg) (h1 : List GOp) (op0 : GOp) (h2 : List GOp) (κ : Path) : Prop :=
  ∃ (a b : List GOp) (op : Cache.Op) (e : Event), h2 = a ++ .ca op :: b ∧
    e ∈ ((grun enc (init cfg) (h1 ++ op0 :: a)).cache.step enc op).2.2 ∧
    decides κ (toResp (Item.note e, 0)) = true

/-- some cache operation of `h2` emitted an update of the leaf at `κ` -/
def EmittedUpd (enc : String → String) (cfg : Cfg) (h1 : List GOp) (op0 : GOp) (h2 : List GOp) (κ : Path) : Prop :=
  ∃ (a b : List GOp) (op : Cache.Op) (n : Noti), h2 = a ++ .ca op :: b ∧
    Event.upd n ∈ ((grun enc (init cfg) (h1 ++ op0 :: a)).cache.step enc op).2.2 ∧ respKey n = κ

theorem grun_after (enc : String → String) (cfg : Cfg) (h1 : List GOp) (op0 : GOp) (a : List GOp) :
    grun enc (init cfg) (h1 ++ op0 :: a) = grun enc (after enc cfg h1 op0) a := by
  unfold grun after
  rw [List.foldl_append]
  rfl

theorem emitsIn_of_emitted {enc : String → String} {cfg : Cfg} {h1 : List GOp} {op0 : GOp} {h2 : List GOp} {κ : Path}
    (h : Emitted enc cfg h1 op0 h2 κ) : EmitsIn enc True κ (after enc cfg h1 op0) h2 := by
  obtain ⟨a, b, op, e, rfl, he, hd⟩ := h
  rw [grun_after] at he
  exact emitsIn_of_split enc True κ op e b a _ he hd (Or.inl trivial)

theorem emitsIn_of_emittedUpd {enc : String → String} {cfg : Cfg} {h1 : List GOp} {op0 : GOp} {h2 : List GOp} {κ : Path}
    (h : EmittedUpd enc cfg h1 op0 h2 κ) : EmitsIn enc False κ (after enc cfg h1 op0) h2 := by
  obtain ⟨a, b, op, n, rfl, he, hk⟩ := h
  rw [grun_after] at he
  refine emitsIn_of_split enc False κ op (.upd n) b a _ he ?_ (Or.inr ?_)
  · show decides κ (Resp.upd n 0) = true
    simp [decides, hk]
  · simp [updAt, hk]

theorem EmittedUpd.emitted {enc : String → String} {cfg : Cfg} {h1 : List GOp} {op0 : GOp} {h2 : List GOp} {κ : Path}
    (h : EmittedUpd enc cfg h1 op0 h2 κ) : Emitted enc cfg h1 op0 h2 κ := by
  obtain ⟨a, b, op, n, hs, he, hk⟩ := h
  refine ⟨a, b, op, .upd n, hs, he, ?_⟩
  show decides κ (Resp.upd n 0) = true
  simp [decides, hk]

/-! ## the conclusion, from the two invariants -/

/-- the shadow invariant and the (weak) ghost invariant of an allowed matched key give: the pending
view agrees with the views at the key, and a response deciding the key is pending or nothing is held -/
theorem accounted_of_inv {cfg : Cfg} {C0 : String → Path → Option Noti} {V : Views} {a : Acl} {r : Req}
    {su : Subscriber} {t : String} {k : Path} (hV : VOK V) (ui : UInv cfg C0 V a r su) (hj : JS True t k V su)
    (hc : a.check t = true) (hmt : (regQueries r).any (fun q => qmatches q (t :: k)) = true) :
    Sim cfg (lookup (replayR (pend su)) (t :: k)) (lookup (V t) k) ∧
    ((∃ x ∈ pend su, decides (t :: k) x = true) ∨
      (lookup (V t) k = none ∧ lookup (replayR (pend su)) (t :: k) = none)) := by
  obtain ⟨v1, _⟩ := ui.view hV
  rcases v1 t k hc hmt with h | ⟨hnone, hnd, _⟩
  · refine ⟨h, ?_⟩
    by_cases hd : ∃ x ∈ pend su, decides (t :: k) x = true
    · exact Or.inl hd
    · right
      rcases hj with ⟨x, hx, hat⟩ | ⟨_, hn⟩
      · exact absurd ⟨x, hx, atKey_decides hat⟩ hd
      · rw [hn] at h ⊢
        exact ⟨rfl, sim_none_left h⟩
  · rcases hj with ⟨x, hx, hat⟩ | ⟨_, hn⟩
    · have := hnd x hx
      rw [atKey_decides hat] at this
      cases this
    · rw [hnone, hn]
      exact ⟨trivial, Or.inr ⟨rfl, rfl⟩⟩

/-! ## (1) every offered event is accounted for -/

/-- **C04 (d), trace form, over the code-shaped model.**  The call `Subscribe id acl r` (STREAM;
`updates_only` or not; any paths) is made after `h1`; `h2` follows.  If the subscriber it created is
alive at the end (the RPC has not ended), then for every key `t :: k` of a target the ACL allows that
a registered query matches and that **some event emitted since the call decides** — an update of
that leaf, an atomic update above it, a delete covering it:
* the view replayed from everything the subscriber was sent, the response held for it and what its
  queue stands for (`SubGate.pend`) holds at that key what the cache holds **now** (`Feed.Sim`): the
  change arrived, individually or coalesced into a response carrying the leaf's newest value;
* a response deciding the key is among them — or the cache holds nothing at the key (and neither
  does the view). -/
theorem every_offered_event_accounted (enc : String → String) (cfg : Cfg) (h1 h2 : List GOp)
    (id : String) (acl : Acl) (r : Req)
    (hok : C03.OkRun enc { cfg := cfg } (cacheOps (h1 ++ .sub id acl (some r) :: h2)))
    (hns : NoStarTargets (h1 ++ .sub id acl (some r) :: h2)) (hm : r.mode = .stream) :
    ∀ su, tracked enc cfg h1 (.sub id acl (some r)) h2 = some su → su.alive = true →
      ∀ t k, acl.check t = true → matched r t k = true →
        Emitted enc cfg h1 (.sub id acl (some r)) h2 (t :: k) →
        Sim cfg (lookup (replayR (pend su)) (t :: k))
          (held (grun enc (init cfg) (h1 ++ .sub id acl (some r) :: h2)).cache t k) ∧
        ((∃ x ∈ pend su, decides (t :: k) x = true) ∨
          (held (grun enc (init cfg) (h1 ++ .sub id acl (some r) :: h2)).cache t k = none ∧
            lookup (replayR (pend su)) (t :: k) = none)) := by
  intro su hsu ha t k hc hmt hem
  obtain ⟨hV, hall⟩ := tracked_inv enc cfg h1 h2 id acl r hok hns hm
  obtain ⟨ui, hJ⟩ := hall su hsu ha
  simp only [held_eq]
  exact accounted_of_inv hV ui (hJ True t k hc hmt (emitsIn_of_emitted hem)) hc hmt

/-- **an update of a leaf is never dropped**: if since the call some cache operation emitted an
update of the allowed matched leaf `t :: k`, a response for that leaf — that update, or a later value
of the leaf it was coalesced with or re-read into — is among what the subscriber was sent, the held
response and what its queue stands for; and the last word on that leaf among them is what the cache
holds now -/
theorem update_event_accounted (enc : String → String) (cfg : Cfg) (h1 h2 : List GOp)
    (id : String) (acl : Acl) (r : Req)
    (hok : C03.OkRun enc { cfg := cfg } (cacheOps (h1 ++ .sub id acl (some r) :: h2)))
    (hns : NoStarTargets (h1 ++ .sub id acl (some r) :: h2)) (hm : r.mode = .stream) :
    ∀ su, tracked enc cfg h1 (.sub id acl (some r)) h2 = some su → su.alive = true →
      ∀ t k, acl.check t = true → matched r t k = true →
        EmittedUpd enc cfg h1 (.sub id acl (some r)) h2 (t :: k) →
        (∃ m d, Resp.upd m d ∈ pend su ∧ respKey m = t :: k) ∧
        Sim cfg (lookup (replayR (pend su)) (t :: k))
          (held (grun enc (init cfg) (h1 ++ .sub id acl (some r) :: h2)).cache t k) := by
  intro su hsu ha t k hc hmt hem
  obtain ⟨_, hall⟩ := tracked_inv enc cfg h1 h2 id acl r hok hns hm
  obtain ⟨_, hJ⟩ := hall su hsu ha
  refine ⟨?_, (every_offered_event_accounted enc cfg h1 h2 id acl r hok hns hm su hsu ha t k hc hmt hem.emitted).1⟩
  rcases hJ False t k hc hmt (emitsIn_of_emittedUpd hem) with ⟨x, hx, hat⟩ | ⟨hf, _⟩
  · obtain ⟨m, d, rfl, hk⟩ := atKey_elim hat
    exact ⟨m, d, hx, hk⟩
  · exact hf.elim

/-- "newest" at the time of sending: every handle still queued shows what the cache holds now at
its leaf — it is the value that goes out when the sender dequeues it -/
theorem queued_is_newest (enc : String → String) (cfg : Cfg) (h1 h2 : List GOp)
    (id : String) (acl : Acl) (r : Req)
    (hok : C03.OkRun enc { cfg := cfg } (cacheOps (h1 ++ .sub id acl (some r) :: h2)))
    (hns : NoStarTargets (h1 ++ .sub id acl (some r) :: h2)) (hm : r.mode = .stream) :
    ∀ su, tracked enc cfg h1 (.sub id acl (some r)) h2 = some su → su.alive = true →
      ∀ t k m d, (Item.handle t k m, d) ∈ su.queue →
        held (grun enc (init cfg) (h1 ++ .sub id acl (some r) :: h2)).cache t k = some m := by
  intro su hsu ha t k m d hmem
  obtain ⟨_, hall⟩ := tracked_inv enc cfg h1 h2 id acl r hok hns hm
  obtain ⟨⟨_, _, _, snap, ginv, _⟩, _⟩ := hall su hsu ha
  rw [held_eq]
  exact ginv.fresh t k m d hmem

/-! ## (2) `updates_only`: the full statement -/

theorem C0of_uo (enc : String → String) (cfg : Cfg) (h1 : List GOp) {r : Req} (hu : r.updatesOnly = true) :
    C0of enc cfg h1 r = fun t k => lookup (treesOf (grun enc (init cfg) h1).cache t) k := by
  funext t k
  unfold C0of
  rw [if_pos hu]

/-- `C04Sync.updates_only_converges_pending_partial` **without** the hypothesis that `CompletePath`
accepts the paths of the request -/
theorem updates_only_converges_pending (enc : String → String) (cfg : Cfg) (h1 h2 : List GOp)
    (id : String) (acl : Acl) (r : Req)
    (hok : C03.OkRun enc { cfg := cfg } (cacheOps (h1 ++ .sub id acl (some r) :: h2)))
    (hns : NoStarTargets (h1 ++ .sub id acl (some r) :: h2))
    (hm : r.mode = .stream) (hu : r.updatesOnly = true) :
    ∀ su, tracked enc cfg h1 (.sub id acl (some r)) h2 = some su → su.alive = true →
      su.req = r ∧ su.acl = acl ∧
      (∀ t k, acl.check t = true → matched r t k = true →
        Sim cfg (lookup (replayR (pend su)) (t :: k))
          (held (grun enc (init cfg) (h1 ++ .sub id acl (some r) :: h2)).cache t k) ∨
        (lookup (replayR (pend su)) (t :: k) = none ∧ (∀ x ∈ pend su, decides (t :: k) x = false) ∧
          ∃ w, Sim cfg w (held (grun enc (init cfg) h1).cache t k) ∧
            Sim cfg w (held (grun enc (init cfg) (h1 ++ .sub id acl (some r) :: h2)).cache t k))) ∧
      (∀ κ, (lookup (replayR (pend su)) κ).isSome = true →
        ∃ t k, κ = t :: k ∧ (held (grun enc (init cfg) (h1 ++ .sub id acl (some r) :: h2)).cache t k).isSome = true) := by
  obtain ⟨hV, hall⟩ := tracked_inv enc cfg h1 h2 id acl r hok hns hm
  intro su hsu ha
  have ui := (hall su hsu ha).1
  rw [C0of_uo enc cfg h1 hu] at ui
  obtain ⟨v1, v2⟩ := ui.view hV
  refine ⟨ui.1, ui.2.1, ?_, ?_⟩
  · intro t k hc hq
    simp only [held_eq]
    exact v1 t k hc hq
  · intro κ hκ
    obtain ⟨t, k, e, hv⟩ := v2 κ hκ
    exact ⟨t, k, e, by rw [held_eq]; exact hv⟩

/-- **`updates_only`, the event form at every point of the history** (gate shut or not): on every
allowed matched key that some event emitted since the call decides, the view replayed from
everything sent, held and queued agrees with the cache — also when the content is again what it was
at registration (A → B → A), and whatever `CompletePath` says of the request's paths -/
theorem updates_only_event_form_pending (enc : String → String) (cfg : Cfg) (h1 h2 : List GOp)
    (id : String) (acl : Acl) (r : Req)
    (hok : C03.OkRun enc { cfg := cfg } (cacheOps (h1 ++ .sub id acl (some r) :: h2)))
    (hns : NoStarTargets (h1 ++ .sub id acl (some r) :: h2))
    (hm : r.mode = .stream) (_hu : r.updatesOnly = true) :
    ∀ su, tracked enc cfg h1 (.sub id acl (some r)) h2 = some su → su.alive = true →
      ∀ t k, acl.check t = true → matched r t k = true →
        Emitted enc cfg h1 (.sub id acl (some r)) h2 (t :: k) →
        Sim cfg (lookup (replayR (pend su)) (t :: k))
          (held (grun enc (init cfg) (h1 ++ .sub id acl (some r) :: h2)).cache t k) :=
  fun su hsu ha t k hc hmt hem =>
    (every_offered_event_accounted enc cfg h1 h2 id acl r hok hns hm su hsu ha t k hc hmt hem).1

/-- with the gate open nothing is queued or held -/
theorem tracked_drained (enc : String → String) (cfg : Cfg) (h1 h2 : List GOp)
    (id : String) (acl : Acl) (r : Req)
    (hok : C03.OkRun enc { cfg := cfg } (cacheOps (h1 ++ .sub id acl (some r) :: h2)))
    (hns : NoStarTargets (h1 ++ .sub id acl (some r) :: h2)) (hm : r.mode = .stream) :
    ∀ su, tracked enc cfg h1 (.sub id acl (some r)) h2 = some su → su.alive = true → su.gateShut = false →
      su.queue = [] ∧ su.blocked = none := by
  intro su hsu ha hg
  obtain ⟨_, hall⟩ := tracked_inv enc cfg h1 h2 id acl r hok hns hm
  exact (hall su hsu ha).1.drained hg

theorem pend_eq_out {s : Subscriber} (hq : s.queue = []) (hb : s.blocked = none) : pend s = s.out.map (·.1) := by
  unfold pend
  rw [hq, hb]
  simp

/-- **C04 (c)/(e) with `updates_only`: the full statement of `C04Sync`** (`updates_only_converges`,
there a `def … : Prop`): for every accepted `updates_only` STREAM call — including requests whose
paths `CompletePath` would reject — at quiescence the view replayed from what the subscriber was sent
agrees with the cache on every allowed matched key that some event emitted since the call decides,
whether or not the content differs from the content at registration. -/
theorem updates_only_converges_full (enc : String → String) (cfg : Cfg) : updates_only_converges enc cfg := by
  intro h1 h2 id acl r hok hns hm hu su hsu ha hg t k hc hmt hem
  obtain ⟨hq, hb⟩ := tracked_drained enc cfg h1 h2 id acl r hok hns hm su hsu ha hg
  have := updates_only_event_form_pending enc cfg h1 h2 id acl r hok hns hm hu su hsu ha t k hc hmt hem
  rw [pend_open hq hb] at this
  exact this

/-- **`updates_only` at quiescence, all clauses, no hypothesis on `CompletePath`**: nothing queued or
held; on every allowed matched key the view agrees with the cache, or holds nothing while no event
since the call decided the key and the cache holds what it held at the call; the view holds nothing
the cache does not hold -/
theorem updates_only_converges_open (enc : String → String) (cfg : Cfg) (h1 h2 : List GOp)
    (id : String) (acl : Acl) (r : Req)
    (hok : C03.OkRun enc { cfg := cfg } (cacheOps (h1 ++ .sub id acl (some r) :: h2)))
    (hns : NoStarTargets (h1 ++ .sub id acl (some r) :: h2))
    (hm : r.mode = .stream) (hu : r.updatesOnly = true) :
    ∀ su, tracked enc cfg h1 (.sub id acl (some r)) h2 = some su → su.alive = true → su.gateShut = false →
      su.queue = [] ∧ su.blocked = none ∧
      (∀ t k, acl.check t = true → matched r t k = true →
        Sim cfg (lookup (replay su.out) (t :: k))
          (held (grun enc (init cfg) (h1 ++ .sub id acl (some r) :: h2)).cache t k) ∨
        (lookup (replay su.out) (t :: k) = none ∧
          ¬ Emitted enc cfg h1 (.sub id acl (some r)) h2 (t :: k) ∧
          ∃ w, Sim cfg w (held (grun enc (init cfg) h1).cache t k) ∧
            Sim cfg w (held (grun enc (init cfg) (h1 ++ .sub id acl (some r) :: h2)).cache t k))) ∧
      (∀ κ, (lookup (replay su.out) κ).isSome = true →
        ∃ t k, κ = t :: k ∧ (held (grun enc (init cfg) (h1 ++ .sub id acl (some r) :: h2)).cache t k).isSome = true) := by
  intro su hsu ha hg
  obtain ⟨hq, hb⟩ := tracked_drained enc cfg h1 h2 id acl r hok hns hm su hsu ha hg
  obtain ⟨_, _, v1, v2⟩ := updates_only_converges_pending enc cfg h1 h2 id acl r hok hns hm hu su hsu ha
  rw [pend_open hq hb] at v1 v2
  refine ⟨hq, hb, ?_, v2⟩
  intro t k hc hmt
  by_cases hem : Emitted enc cfg h1 (.sub id acl (some r)) h2 (t :: k)
  · exact Or.inl (updates_only_converges_full enc cfg h1 h2 id acl r hok hns hm hu su hsu ha hg t k hc hmt hem)
  · rcases v1 t k hc hmt with h | ⟨h1', _, h3'⟩
    · exact Or.inl h
    · exact Or.inr ⟨h1', hem, h3'⟩

/-! ## (3) the event form for a subscriber that asked for the snapshot -/

/-- **C04 (d)/(e) for `updates_only = false`, event form.**  The call `Subscribe id acl r` (STREAM,
snapshot wanted) is made after `h1`; `h2` follows.  If at the end the subscriber is alive and its
gate is open, then nothing is queued or held, and for the view replayed from what it was sent:
* on every allowed matched key it holds what the cache holds;
* it holds nothing the cache does not hold;
* every update of an allowed matched leaf emitted since the call has a response for that leaf in
  what was sent — the update itself or a later value it was coalesced into. -/
theorem stream_event_form (enc : String → String) (cfg : Cfg) (h1 h2 : List GOp)
    (id : String) (acl : Acl) (r : Req)
    (hok : C03.OkRun enc { cfg := cfg } (cacheOps (h1 ++ .sub id acl (some r) :: h2)))
    (hns : NoStarTargets (h1 ++ .sub id acl (some r) :: h2))
    (hm : r.mode = .stream) (hu : r.updatesOnly = false) :
    ∀ su, tracked enc cfg h1 (.sub id acl (some r)) h2 = some su → su.alive = true → su.gateShut = false →
      su.queue = [] ∧ su.blocked = none ∧
      (∀ t k, acl.check t = true → matched r t k = true →
        Sim cfg (lookup (replay su.out) (t :: k))
          (held (grun enc (init cfg) (h1 ++ .sub id acl (some r) :: h2)).cache t k)) ∧
      (∀ κ, (lookup (replay su.out) κ).isSome = true →
        ∃ t k, κ = t :: k ∧ (held (grun enc (init cfg) (h1 ++ .sub id acl (some r) :: h2)).cache t k).isSome = true) ∧
      (∀ t k, acl.check t = true → matched r t k = true →
        EmittedUpd enc cfg h1 (.sub id acl (some r)) h2 (t :: k) →
        ∃ m d f, (Resp.upd m d, f) ∈ su.out ∧ respKey m = t :: k) := by
  intro su hsu ha hg
  obtain ⟨hq, hb⟩ := tracked_drained enc cfg h1 h2 id acl r hok hns hm su hsu ha hg
  obtain ⟨hV, hall⟩ := tracked_inv enc cfg h1 h2 id acl r hok hns hm
  have ui := (hall su hsu ha).1
  obtain ⟨v1, v2⟩ := ui.view hV
  rw [pend_open hq hb] at v1 v2
  refine ⟨hq, hb, ?_, ?_, ?_⟩
  · intro t k hc hmt
    rw [held_eq]
    rcases v1 t k hc hmt with h | ⟨hnone, _, w, hw1, hw2⟩
    · exact h
    · have hw : w = none := by
        have : C0of enc cfg h1 r t k = none := by
          unfold C0of
          rw [if_neg (by rw [hu]; exact Bool.false_ne_true)]
        rw [this] at hw1
        exact sim_none_left hw1
      rw [hw] at hw2
      rw [hnone]
      exact hw2
  · intro κ hκ
    obtain ⟨t, k, e, hv⟩ := v2 κ hκ
    exact ⟨t, k, e, by rw [held_eq]; exact hv⟩
  · intro t k hc hmt hem
    obtain ⟨⟨m, d, hmem, hk⟩, _⟩ := update_event_accounted enc cfg h1 h2 id acl r hok hns hm su hsu ha t k hc hmt hem
    rw [pend_eq_out hq hb] at hmem
    obtain ⟨x, hx, he⟩ := List.mem_map.1 hmem
    obtain ⟨x1, f⟩ := x
    simp only at he
    subst he
    exact ⟨m, d, f, hx, hk⟩

/-! ## histories that also contain poll triggers, half-closes and send timeouts (`C04Sync.XOp`)

A poll trigger or a half-close does nothing to a STREAM subscriber; a send timeout ends every RPC
with a held response ("or the subscriber was ended").  None of them touches the cache. -/

/-- the cache API call of an operation -/
def xcaOf : XOp → Option Cache.Op
  | .g op => caOf op
  | _ => none

/-- the cache API calls of a history, in order -/
def xcacheOps (h : List XOp) : List Cache.Op := h.filterMap xcaOf

def XNoStar (h : List XOp) : Prop := ∀ op ∈ xcacheOps h, NoStarOp op

theorem xcacheOps_cons_some {op : XOp} {o : Cache.Op} (h : List XOp) (ho : xcaOf op = some o) :
    xcacheOps (op :: h) = o :: xcacheOps h := by
  unfold xcacheOps
  rw [List.filterMap_cons, ho]

theorem xcacheOps_cons_none {op : XOp} (h : List XOp) (ho : xcaOf op = none) : xcacheOps (op :: h) = xcacheOps h := by
  unfold xcacheOps
  rw [List.filterMap_cons, ho]

theorem xcacheOps_append (a b : List XOp) : xcacheOps (a ++ b) = xcacheOps a ++ xcacheOps b := by
  unfold xcacheOps
  exact List.filterMap_append

theorem xcaOf_some {op : XOp} {o : Cache.Op} (h : xcaOf op = some o) : op = .g (.ca o) := by
  cases op with
  | g op =>
    have : caOf op = some o := h
    rw [caOf_some this]
  | poll => cases h
  | eof => cases h
  | expire => cases h

theorem xstep_cache' (enc : String → String) (st : Sub.State) (op : XOp) (ho : xcaOf op = none) :
    (xstep enc st op).cache = st.cache := by
  cases op with
  | g op => exact gstep_cache' enc st op ho
  | poll id => rfl
  | eof id => rfl
  | expire => rfl

theorem xrun_append (enc : String → String) (st : Sub.State) (a b : List XOp) :
    xrun enc st (a ++ b) = xrun enc (xrun enc st a) b := by
  unfold xrun
  rw [List.foldl_append]

theorem pollSub_stream (c : Cache.State) {s : Subscriber} (hm : s.req.mode = .stream) : SubPoll.pollSub c s = s := by
  unfold SubPoll.pollSub
  rw [if_neg]
  rintro ⟨_, h2⟩
  rw [hm] at h2; cases h2

theorem eofSub_stream {s : Subscriber} (hm : s.req.mode = .stream) : SubPoll.eofSub s = s := by
  unfold SubPoll.eofSub
  rw [if_neg]
  rintro ⟨_, h2⟩
  rw [hm] at h2; cases h2

/-- one operation keeps the invariant of a run -/
theorem xstep_inv (enc : String → String) (st : Sub.State) (op : XOp) (hi : GHInv st)
    (hok : ∀ o, xcaOf op = some o → Feed.Op.ok st.cache o ∧ NoStarOp o) : GHInv (xstep enc st op) := by
  cases op with
  | g op => exact gstep_inv enc st op hi hok
  | poll id =>
    show GHInv (poll st id)
    rw [SubPoll.poll_eq]
    refine updateSub_inv st id _ hi (fun s hs hl => ?_)
    have hm := hl.2.1
    rw [SubPoll.pollSub_req] at hm
    rw [pollSub_stream st.cache hm] at hl ⊢
    exact hi.subs s hs hl
  | eof id =>
    show GHInv (eof st id)
    rw [SubPoll.eof_eq]
    refine updateSub_inv st id _ hi (fun s hs hl => ?_)
    have hm := hl.2.1
    rw [SubPoll.eofSub_req] at hm
    rw [eofSub_stream hm] at hl ⊢
    exact hi.subs s hs hl
  | expire =>
    show GHInv (expire st)
    refine ⟨hi.pre, hi.sinv, hi.cok, ?_⟩
    intro x hx hl
    have hx' : x ∈ st.subs.map (fun s =>
        if s.alive ∧ s.blocked.isSome then { s with alive := false, status := some .unknown, blocked := none }
        else s) := hx
    obtain ⟨s, hs, rfl⟩ := List.mem_map.1 hx'
    by_cases hcnd : s.alive = true ∧ s.blocked.isSome = true
    · rw [if_pos hcnd] at hl
      exact absurd hl.1 (by simp)
    · rw [if_neg hcnd] at hl ⊢
      exact hi.subs s hs hl

theorem xrun_inv (enc : String → String) : ∀ (h : List XOp) (st : Sub.State), GHInv st →
    C03.OkRun enc st.cache (xcacheOps h) → XNoStar h →
    GHInv (xrun enc st h) ∧ (xrun enc st h).cache.cfg = st.cache.cfg
  | [], _, hi, _, _ => ⟨hi, rfl⟩
  | op :: h, st, hi, hok, hns => by
    cases hc : xcaOf op with
    | none =>
      have h1 := xstep_inv enc st op hi (fun o ho => by rw [hc] at ho; cases ho)
      have hca := xstep_cache' enc st op hc
      rw [xcacheOps_cons_none h hc] at hok
      have hns' : XNoStar h := by
        intro x hx
        apply hns x
        rw [xcacheOps_cons_none h hc]
        exact hx
      have ih := xrun_inv enc h _ h1 (by rw [hca]; exact hok) hns'
      show GHInv (xrun enc (xstep enc st op) h) ∧ (xrun enc (xstep enc st op) h).cache.cfg = _
      rw [ih.2, hca]
      exact ⟨ih.1, rfl⟩
    | some o =>
      have hop := xcaOf_some hc
      subst hop
      rw [xcacheOps_cons_some h hc] at hok
      have hno : NoStarOp o := hns o (by rw [xcacheOps_cons_some h hc]; exact List.mem_cons_self ..)
      have h1 := xstep_inv enc st (.g (.ca o)) hi (fun o' ho => by
        rw [hc] at ho; cases ho; exact ⟨hok.1, hno⟩)
      have hns' : XNoStar h := by
        intro x hx
        apply hns x
        rw [xcacheOps_cons_some h hc]
        exact List.mem_cons_of_mem _ hx
      have ih := xrun_inv enc h _ h1 hok.2 hns'
      show GHInv (xrun enc (xstep enc st (.g (.ca o))) h) ∧ (xrun enc (xstep enc st (.g (.ca o))) h).cache.cfg = _
      rw [ih.2]
      exact ⟨ih.1, C14.step_cfg enc st.cache o⟩

/-- the side conditions of a history split at any point -/
theorem xokRun_split (enc : String → String) : ∀ (h1 : List XOp) (st : Sub.State) (ops2 : List Cache.Op),
    C03.OkRun enc st.cache (xcacheOps h1 ++ ops2) →
    C03.OkRun enc st.cache (xcacheOps h1) ∧ C03.OkRun enc (xrun enc st h1).cache ops2
  | [], _, _, h => ⟨trivial, h⟩
  | op :: h1, st, ops2, h => by
    cases hc : xcaOf op with
    | none =>
      rw [xcacheOps_cons_none h1 hc] at h ⊢
      have := xokRun_split enc h1 (xstep enc st op) ops2 (by rw [xstep_cache' enc st op hc]; exact h)
      rw [xstep_cache' enc st op hc] at this
      exact this
    | some o =>
      have hop := xcaOf_some hc
      subst hop
      rw [xcacheOps_cons_some h1 hc] at h ⊢
      have := xokRun_split enc h1 (xstep enc st (.g (.ca o))) ops2 h.2
      exact ⟨⟨h.1, this.1⟩, this.2⟩

/-- the per-subscriber function of an operation -/
def xsubF (enc : String → String) (st : Sub.State) : XOp → Subscriber → Subscriber
  | .g op, s => subF enc st op s
  | .poll id, s => if s.id = id then SubPoll.pollSub st.cache s else s
  | .eof id, s => if s.id = id then SubPoll.eofSub s else s
  | .expire, s =>
    if s.alive ∧ s.blocked.isSome then { s with alive := false, status := some .unknown, blocked := none } else s

theorem xstep_getElem (enc : String → String) (st : Sub.State) (op : XOp) (i : Nat) (su : Subscriber)
    (h : st.subs[i]? = some su) : (xstep enc st op).subs[i]? = some (xsubF enc st op su) := by
  cases op with
  | g op => exact gstep_getElem enc st op i su h
  | poll id =>
    show (st.subs.map (fun s => if s.id = id then SubPoll.pollSub st.cache s else s))[i]? = _
    rw [List.getElem?_map, h]
    rfl
  | eof id =>
    show (st.subs.map (fun s => if s.id = id then SubPoll.eofSub s else s))[i]? = _
    rw [List.getElem?_map, h]
    rfl
  | expire =>
    show (st.subs.map (fun s =>
      if s.alive ∧ s.blocked.isSome then { s with alive := false, status := some .unknown, blocked := none } else s))[i]? = _
    rw [List.getElem?_map, h]
    rfl

/-- an operation other than a `GOp` leaves a STREAM subscriber as it is, or ends it -/
theorem xsubF_same (enc : String → String) (st : Sub.State) (op : XOp) (su : Subscriber)
    (hng : xcaOf op = none ∧ ∀ o, op ≠ .g o) (hm : su.req.mode = .stream)
    (ha : (xsubF enc st op su).alive = true) : xsubF enc st op su = su := by
  cases op with
  | g op => exact absurd rfl (hng.2 op)
  | poll id =>
    simp only [xsubF]
    split
    · exact pollSub_stream st.cache hm
    · rfl
  | eof id =>
    simp only [xsubF]
    split
    · exact eofSub_stream hm
    · rfl
  | expire =>
    simp only [xsubF] at ha ⊢
    by_cases hcnd : su.alive = true ∧ su.blocked.isSome = true
    · rw [if_pos hcnd] at ha
      cases ha
    · rw [if_neg hcnd]

theorem xsubF_dead (enc : String → String) (st : Sub.State) (op : XOp) (su : Subscriber) (h : su.alive = false) :
    (xsubF enc st op su).alive = false := by
  cases op with
  | g op => exact subF_dead enc st op su h
  | poll id =>
    simp only [xsubF]
    split
    · unfold SubPoll.pollSub
      rw [if_neg (by rintro ⟨h1, _⟩; rw [h] at h1; cases h1)]
      exact h
    · exact h
  | eof id =>
    simp only [xsubF]
    split
    · unfold SubPoll.eofSub
      rw [if_neg (by rintro ⟨h1, _⟩; rw [h] at h1; cases h1)]
      exact h
    · exact h
  | expire =>
    simp only [xsubF]
    rw [if_neg (by rintro ⟨h1, _⟩; rw [h] at h1; cases h1)]
    exact h

/-- some cache operation of `h` (run from `st`) emits an event that decides `κ` -/
def XEmitsIn (enc : String → String) (w : Prop) (κ : Path) : Sub.State → List XOp → Prop
  | _, [] => False
  | st, op :: h =>
    (∃ o e, op = .g (.ca o) ∧ e ∈ (st.cache.step enc o).2.2 ∧ decidesEv κ e = true ∧ (w ∨ updAt κ e = true)) ∨
    XEmitsIn enc w κ (xstep enc st op) h

theorem xemitsIn_of_split (enc : String → String) (w : Prop) (κ : Path) (o : Cache.Op) (e : Event) (b : List XOp) :
    ∀ (a : List XOp) (st : Sub.State), e ∈ ((xrun enc st a).cache.step enc o).2.2 → decidesEv κ e = true →
      (w ∨ updAt κ e = true) → XEmitsIn enc w κ st (a ++ .g (.ca o) :: b)
  | [], _, he, hd, hw => Or.inl ⟨o, e, rfl, he, hd, hw⟩
  | op :: a, st, he, hd, hw => Or.inr (xemitsIn_of_split enc w κ o e b a (xstep enc st op) he hd hw)

/-- the step of `xtrackJ` for an operation that is not a `GOp`, given the statement for the rest -/
theorem xtrackJ_other (enc : String → String) (C0 : String → Path → Option Noti) (a : Acl) (r : Req)
    (w : Prop) (t : String) (k : Path)
    (op : XOp) (hng : xcaOf op = none ∧ ∀ o, op ≠ .g o)
    (h : List XOp) (cfg : Cfg) (st : Sub.State) (i : Nat) (su : Subscriber)
    (hi : GHInv st) (hcfg : st.cache.cfg = cfg) (hok : C03.OkRun enc st.cache (xcacheOps (op :: h)))
    (hns : XNoStar (op :: h)) (hsu : st.subs[i]? = some su)
    (hu : su.alive = true → UInv cfg C0 (treesOf st.cache) a r su)
    (ih : ∀ (cfg : Cfg) (st : Sub.State) (i : Nat) (su : Subscriber),
      GHInv st → st.cache.cfg = cfg → C03.OkRun enc st.cache (xcacheOps h) → XNoStar h →
      st.subs[i]? = some su → (su.alive = true → UInv cfg C0 (treesOf st.cache) a r su) →
      ∃ su', (xrun enc st h).subs[i]? = some su' ∧
        (su'.alive = true → su.alive = true ∧ UInv cfg C0 (treesOf (xrun enc st h).cache) a r su' ∧
          (a.check t = true → (regQueries r).any (fun q => qmatches q (t :: k)) = true →
            (JS w t k (treesOf st.cache) su ∨ XEmitsIn enc w (t :: k) st h) →
            JS w t k (treesOf (xrun enc st h).cache) su'))) :
    ∃ su', (xrun enc st (op :: h)).subs[i]? = some su' ∧
      (su'.alive = true → su.alive = true ∧ UInv cfg C0 (treesOf (xrun enc st (op :: h)).cache) a r su' ∧
        (a.check t = true → (regQueries r).any (fun q => qmatches q (t :: k)) = true →
          (JS w t k (treesOf st.cache) su ∨ XEmitsIn enc w (t :: k) st (op :: h)) →
          JS w t k (treesOf (xrun enc st (op :: h)).cache) su')) := by
  have hca := xstep_cache' enc st op hng.1
  have hi1 := xstep_inv enc st op hi (fun o ho => by rw [hng.1] at ho; cases ho)
  rw [xcacheOps_cons_none h hng.1] at hok
  have hns' : XNoStar h := by
    intro x hx
    apply hns x
    rw [xcacheOps_cons_none h hng.1]
    exact hx
  have hget1 := xstep_getElem enc st op i su hsu
  have halive : (xsubF enc st op su).alive = true → su.alive = true := by
    intro ha
    cases hs : su.alive with
    | true => rfl
    | false => rw [xsubF_dead enc st op su hs] at ha; cases ha
  have hsame : (xsubF enc st op su).alive = true → xsubF enc st op su = su := by
    intro ha
    have hu0 := hu (halive ha)
    exact xsubF_same enc st op su hng (by rw [hu0.1]; exact hu0.2.2.1) ha
  obtain ⟨su', hget, hrest⟩ := ih cfg (xstep enc st op) i _ hi1 (by rw [hca]; exact hcfg) (by rw [hca]; exact hok)
    hns' hget1 (fun ha => by rw [hca, hsame ha]; exact hu (halive ha))
  refine ⟨su', hget, fun ha' => ?_⟩
  obtain ⟨ha1, hu', hj'⟩ := hrest ha'
  refine ⟨halive ha1, hu', fun hacl hmt hj => hj' hacl hmt ?_⟩
  rw [hca, hsame ha1]
  rcases hj with hj | (⟨o, _, ho, _⟩ | hj)
  · exact Or.inl hj
  · exact absurd ho (hng.2 _)
  · exact Or.inr hj

/-- `trackJ` over histories with poll triggers, half-closes and send timeouts -/
theorem xtrackJ (enc : String → String) (C0 : String → Path → Option Noti) (a : Acl) (r : Req)
    (w : Prop) (t : String) (k : Path) :
    ∀ (h : List XOp) (cfg : Cfg) (st : Sub.State) (i : Nat) (su : Subscriber),
    GHInv st → st.cache.cfg = cfg → C03.OkRun enc st.cache (xcacheOps h) → XNoStar h →
    st.subs[i]? = some su → (su.alive = true → UInv cfg C0 (treesOf st.cache) a r su) →
    ∃ su', (xrun enc st h).subs[i]? = some su' ∧
      (su'.alive = true → su.alive = true ∧ UInv cfg C0 (treesOf (xrun enc st h).cache) a r su' ∧
        (a.check t = true → (regQueries r).any (fun q => qmatches q (t :: k)) = true →
          (JS w t k (treesOf st.cache) su ∨ XEmitsIn enc w (t :: k) st h) →
          JS w t k (treesOf (xrun enc st h).cache) su'))
  | [], _, _, _, su, _, _, _, _, hsu, hu =>
    ⟨su, hsu, fun ha => ⟨ha, hu ha, fun _ _ hj => hj.elim (fun h => h) (fun h => h.elim)⟩⟩
  | .g op :: h, cfg, st, i, su, hi, hcfg, hok, hns, hsu, hu => by
    -- one `GOp`: `trackJ` on the one-operation history, then the rest
    have hok1 : C03.OkRun enc st.cache (cacheOps [op]) ∧ C03.OkRun enc (gstep enc st op).cache (xcacheOps h) ∧
        NoStarTargets [op] ∧ XNoStar h := by
      cases hc : caOf op with
      | none =>
        have hx : xcaOf (.g op) = none := hc
        rw [xcacheOps_cons_none h hx] at hok
        refine ⟨by rw [cacheOps_cons_other [] hc]; trivial, by rw [gstep_cache' enc st op hc]; exact hok, ?_, ?_⟩
        · intro x hx'
          rw [cacheOps_cons_other [] hc] at hx'
          cases hx'
        · intro x hx'
          apply hns x
          rw [xcacheOps_cons_none h hx]
          exact hx'
      | some o =>
        have hx : xcaOf (.g op) = some o := hc
        have hop := caOf_some hc
        subst hop
        rw [xcacheOps_cons_some h hx] at hok
        refine ⟨⟨hok.1, trivial⟩, hok.2, ?_, ?_⟩
        · intro x hx'
          rw [cacheOps_cons_ca] at hx'
          simp only [cacheOps, List.filterMap_nil, List.mem_cons, List.not_mem_nil, or_false] at hx'
          subst hx'
          exact hns x (by rw [xcacheOps_cons_some h hx]; exact List.mem_cons_self ..)
        · intro x hx'
          apply hns x
          rw [xcacheOps_cons_some h hx]
          exact List.mem_cons_of_mem _ hx'
    obtain ⟨hokA, hokB, hnsA, hnsB⟩ := hok1
    obtain ⟨su1, hget1, hrest1⟩ := trackJ enc C0 a r w t k [op] cfg st i su hi hcfg hokA hnsA hsu hu
    obtain ⟨hi1, hcfg1⟩ := grun_inv enc [op] st hi hokA hnsA
    have hst1 : grun enc st [op] = gstep enc st op := rfl
    rw [hst1] at hget1 hrest1 hi1 hcfg1
    obtain ⟨su', hget, hrest⟩ := xtrackJ enc C0 a r w t k h cfg (gstep enc st op) i su1 hi1
      (by rw [hcfg1]; exact hcfg) hokB hnsB hget1 (fun ha => (hrest1 ha).2.1)
    refine ⟨su', hget, fun ha' => ?_⟩
    obtain ⟨ha1, hu', hj'⟩ := hrest ha'
    obtain ⟨ha0, _, hj1⟩ := hrest1 ha1
    refine ⟨ha0, hu', fun hacl hmt hj => hj' hacl hmt ?_⟩
    rcases hj with hj | (⟨o, e, ho, he, hd, hw⟩ | hj)
    · exact Or.inl (hj1 hacl hmt (Or.inl hj))
    · cases ho
      exact Or.inl (hj1 hacl hmt (Or.inr (Or.inl ⟨o, e, rfl, he, hd, hw⟩)))
    · exact Or.inr hj
  | .poll id :: h, cfg, st, i, su, hi, hcfg, hok, hns, hsu, hu =>
    xtrackJ_other enc C0 a r w t k (.poll id) ⟨rfl, fun _ h => by cases h⟩ h cfg st i su hi hcfg hok hns hsu hu
      (xtrackJ enc C0 a r w t k h)
  | .eof id :: h, cfg, st, i, su, hi, hcfg, hok, hns, hsu, hu =>
    xtrackJ_other enc C0 a r w t k (.eof id) ⟨rfl, fun _ h => by cases h⟩ h cfg st i su hi hcfg hok hns hsu hu
      (xtrackJ enc C0 a r w t k h)
  | .expire :: h, cfg, st, i, su, hi, hcfg, hok, hns, hsu, hu =>
    xtrackJ_other enc C0 a r w t k .expire ⟨rfl, fun _ h => by cases h⟩ h cfg st i su hi hcfg hok hns hsu hu
      (xtrackJ enc C0 a r w t k h)

/-- the subscriber a history `h1 ++ [Subscribe] ++ h2` tracks -/
def xtracked (enc : String → String) (cfg : Cfg) (h1 : List XOp) (op : XOp) (h2 : List XOp) : Option Subscriber :=
  (xrun enc (init cfg) (h1 ++ op :: h2)).subs[(xrun enc (init cfg) h1).subs.length]?

/-- some cache operation of `h2` emitted an event that decides `κ` -/
def XEmitted (enc : String → String) (cfg : Cfg) (h1 : List XOp) (op0 : XOp) (h2 : List XOp) (κ : Path) : Prop :=
  ∃ (a b : List XOp) (op : Cache.Op) (e : Event), h2 = a ++ .g (.ca op) :: b ∧
    e ∈ ((xrun enc (init cfg) (h1 ++ op0 :: a)).cache.step enc op).2.2 ∧
    decides κ (toResp (Item.note e, 0)) = true

/-- `tracked_inv` over histories with poll triggers, half-closes and send timeouts (weak ghost invariant) -/
theorem xtracked_inv (enc : String → String) (cfg : Cfg) (h1 h2 : List XOp) (id : String) (acl : Acl) (r : Req)
    (hok : C03.OkRun enc { cfg := cfg } (xcacheOps (h1 ++ .g (.sub id acl (some r)) :: h2)))
    (hns : XNoStar (h1 ++ .g (.sub id acl (some r)) :: h2)) (hm : r.mode = .stream) :
    VOK (treesOf (xrun enc (init cfg) (h1 ++ .g (.sub id acl (some r)) :: h2)).cache) ∧
    ∀ su, xtracked enc cfg h1 (.g (.sub id acl (some r))) h2 = some su → su.alive = true →
      (∃ C0, UInv cfg C0 (treesOf (xrun enc (init cfg) (h1 ++ .g (.sub id acl (some r)) :: h2)).cache) acl r su) ∧
      ∀ t k, acl.check t = true → matched r t k = true →
        XEmitted enc cfg h1 (.g (.sub id acl (some r))) h2 (t :: k) →
        JS True t k (treesOf (xrun enc (init cfg) (h1 ++ .g (.sub id acl (some r)) :: h2)).cache) su := by
  have hco : xcacheOps (h1 ++ .g (.sub id acl (some r)) :: h2) = xcacheOps h1 ++ xcacheOps h2 := by
    rw [xcacheOps_append, xcacheOps_cons_none _ rfl]
  rw [hco] at hok
  obtain ⟨hok1, hok2⟩ := xokRun_split enc h1 (init cfg) (xcacheOps h2) hok
  have hns1 : XNoStar h1 := fun op hop => hns op (by rw [hco]; exact List.mem_append_left _ hop)
  have hns2 : XNoStar h2 := fun op hop => hns op (by rw [hco]; exact List.mem_append_right _ hop)
  obtain ⟨inv1, hcfg1⟩ := xrun_inv enc h1 (init cfg) (ghinv_init cfg) hok1 hns1
  have hcfg1' : (xrun enc (init cfg) h1).cache.cfg = cfg := hcfg1
  have hrunA : ∀ a : List XOp, xrun enc (init cfg) (h1 ++ .g (.sub id acl (some r)) :: a) =
      xrun enc (gstep enc (xrun enc (init cfg) h1) (.sub id acl (some r))) a := by
    intro a
    rw [xrun_append]
    rfl
  unfold xtracked XEmitted
  simp only [hrunA]
  generalize xrun enc (init cfg) h1 = st1 at inv1 hcfg1' hok2
  have inv1' : GHInv (gstep enc st1 (.sub id acl (some r))) :=
    gstep_inv enc st1 _ inv1 (fun o ho => by cases ho)
  have hca : (gstep enc st1 (.sub id acl (some r))).cache = st1.cache := gstep_cache' enc st1 _ rfl
  obtain ⟨s, hs, hc⟩ := subscribe_shape st1 id acl (some r)
  have hget : (gstep enc st1 (.sub id acl (some r))).subs[st1.subs.length]? = some s := by
    show (subscribe st1 id acl (some r)).subs[st1.subs.length]? = some s
    rw [hs]
    simp
  have hg : st1.pregated.contains id = false := by rw [inv1.pre]; rfl
  have hU : ∃ C0, s.alive = true → UInv cfg C0 (treesOf (gstep enc st1 (.sub id acl (some r))).cache) acl r s := by
    rw [hca]
    rcases hc with ⟨c, rfl⟩ | ⟨r', hr, _, hne⟩ | ⟨r', hr, _, huo, hT, hex, rfl⟩ | ⟨r', hr, _, huo, hT, hex, rfl⟩
    · exact ⟨fun _ _ => none, fun ha => by cases ha⟩
    · cases hr; exact absurd hm hne
    · cases hr
      refine ⟨fun t k => lookup (treesOf st1.cache t) k, fun _ => ?_⟩
      rw [hg, uoSub_eq, ← hcfg1']
      exact uinv_init_any inv1.cok id r acl hm hT (C04Seq.hasTarget_exists hex)
    · cases hr
      refine ⟨fun _ _ => none, fun ha => ?_⟩
      rw [hg] at ha ⊢
      have hl : Live (streamSub st1.cache id r acl) := ⟨ha, by rw [streamSub_req]; exact hm, by rw [streamSub_req]; exact huo⟩
      have sinv := streamSub_inv inv1.cok id r acl hT (C04Seq.hasTarget_exists hex) hl
      rw [hcfg1'] at sinv
      exact uinv_plain (ginv_of_subInv sinv) (streamSub_req ..) (streamSub_acl ..) hm huo
  obtain ⟨C0, hU⟩ := hU
  obtain ⟨inv2, _⟩ := xrun_inv enc h2 _ inv1' (by rw [hca]; exact hok2) hns2
  refine ⟨inv2.cok.vok, ?_⟩
  intro su hsu ha
  have base : ∀ t k, ∃ su', (xrun enc (gstep enc st1 (.sub id acl (some r))) h2).subs[st1.subs.length]? = some su' ∧ _ :=
    fun t k => xtrackJ enc C0 acl r True t k h2 cfg (gstep enc st1 (.sub id acl (some r))) st1.subs.length s
      inv1' (by rw [hca]; exact hcfg1') (by rw [hca]; exact hok2) hns2 hget hU
  constructor
  · obtain ⟨su', hget', hrest⟩ := base "" []
    rw [hsu] at hget'
    cases hget'
    exact ⟨C0, (hrest ha).2.1⟩
  · intro t k hacl hmt ⟨a, b, op, e, hsplit, he, hd⟩
    subst hsplit
    obtain ⟨su', hget', hrest⟩ := base t k
    rw [hsu] at hget'
    cases hget'
    exact (hrest ha).2.2 hacl hmt
      (Or.inr (xemitsIn_of_split enc True (t :: k) op e b a _ he hd (Or.inl trivial)))

/-- **`every_offered_event_accounted` over histories that also contain poll triggers, half-closes and
send timeouts**: if the subscriber of the STREAM call (either value of `updates_only`, any paths) is
alive at the end — no send timeout or whole-target delete ended it — the conclusion holds as stated
there -/
theorem every_offered_event_accounted_all_ops (enc : String → String) (cfg : Cfg) (h1 h2 : List XOp)
    (id : String) (acl : Acl) (r : Req)
    (hok : C03.OkRun enc { cfg := cfg } (xcacheOps (h1 ++ .g (.sub id acl (some r)) :: h2)))
    (hns : XNoStar (h1 ++ .g (.sub id acl (some r)) :: h2)) (hm : r.mode = .stream) :
    ∀ su, xtracked enc cfg h1 (.g (.sub id acl (some r))) h2 = some su → su.alive = true →
      ∀ t k, acl.check t = true → matched r t k = true →
        XEmitted enc cfg h1 (.g (.sub id acl (some r))) h2 (t :: k) →
        Sim cfg (lookup (replayR (pend su)) (t :: k))
          (held (xrun enc (init cfg) (h1 ++ .g (.sub id acl (some r)) :: h2)).cache t k) ∧
        ((∃ x ∈ pend su, decides (t :: k) x = true) ∨
          (held (xrun enc (init cfg) (h1 ++ .g (.sub id acl (some r)) :: h2)).cache t k = none ∧
            lookup (replayR (pend su)) (t :: k) = none)) := by
  intro su hsu ha t k hc hmt hem
  obtain ⟨hV, hall⟩ := xtracked_inv enc cfg h1 h2 id acl r hok hns hm
  obtain ⟨⟨C0, ui⟩, hJ⟩ := hall su hsu ha
  simp only [held_eq]
  exact accounted_of_inv hV ui (hJ t k hc hmt hem) hc hmt

/-- **`updates_only_converges` over histories that also contain poll triggers, half-closes and send
timeouts** (quiescence: alive, gate open) -/
theorem updates_only_converges_all_ops (enc : String → String) (cfg : Cfg) (h1 h2 : List XOp)
    (id : String) (acl : Acl) (r : Req)
    (hok : C03.OkRun enc { cfg := cfg } (xcacheOps (h1 ++ .g (.sub id acl (some r)) :: h2)))
    (hns : XNoStar (h1 ++ .g (.sub id acl (some r)) :: h2)) (hm : r.mode = .stream) :
    ∀ su, xtracked enc cfg h1 (.g (.sub id acl (some r))) h2 = some su → su.alive = true → su.gateShut = false →
      su.queue = [] ∧ su.blocked = none ∧
      ∀ t k, acl.check t = true → matched r t k = true →
        XEmitted enc cfg h1 (.g (.sub id acl (some r))) h2 (t :: k) →
        Sim cfg (lookup (replay su.out) (t :: k))
          (held (xrun enc (init cfg) (h1 ++ .g (.sub id acl (some r)) :: h2)).cache t k) := by
  intro su hsu ha hg
  obtain ⟨_, hall⟩ := xtracked_inv enc cfg h1 h2 id acl r hok hns hm
  obtain ⟨⟨C0, ui⟩, _⟩ := hall su hsu ha
  obtain ⟨hq, hb⟩ := ui.drained hg
  refine ⟨hq, hb, ?_⟩
  intro t k hc hmt hem
  have := (every_offered_event_accounted_all_ops enc cfg h1 h2 id acl r hok hns hm su hsu ha t k hc hmt hem).1
  rw [pend_open hq hb] at this
  exact this

/-! ## Non-vacuity

`histA`: **A → B → A**.  A target with the leaf `a/b` holding the value 1; an `updates_only` STREAM
subscription to `a`; the leaf is written to 2 and then back to 1 (with event-driven emulation on — the
default configuration — the final content is `Sim`-equal to the content at registration, so the state
form of `C04Sync` says only "agrees, or absent and unchanged").  The event form applies: the view holds
the leaf with the cache's current notification.

`histX`: a request with an origin in both prefix and path, which `CompletePath` rejects; under
`updates_only` it is accepted, stays registered, receives the update and is covered. -/

def histA1 : List GOp := [ .ca (.add "t"), upT 10 1 [wr 1 "w1"] ]
def histA2 : List GOp := [ upT 11 2 [wr 2 "w2"], upT 12 3 [wr 1 "w1"] ]
def histA : List GOp := histA1 ++ .sub "u1" .absent (some reqU) :: histA2

theorem clean_one (ts : Int) (o : String) (u : Upd) (h : CleanU { ts := ts, target := "t", origin := o, praw := "p", upd := [u] } u) :
    Clean { ts := ts, target := "t", origin := o, praw := "p", upd := [u] } := by
  intro u' hu
  simp only [List.mem_cons, List.not_mem_nil, or_false] at hu
  subst hu
  exact h

theorem histA_ok : C03.OkRun id {} (cacheOps histA) :=
  ⟨⟨by decide, rfl⟩, clean_one 1 "" _ ⟨by decide, Or.inr rfl, by decide⟩,
    clean_one 2 "" _ ⟨by decide, Or.inr rfl, by decide⟩, clean_one 3 "" _ ⟨by decide, Or.inr rfl, by decide⟩, trivial⟩

theorem histA_noStar : NoStarTargets histA := by
  intro op hop
  simp only [histA, histA1, histA2, upT, cacheOps, caOf, List.cons_append, List.nil_append, List.filterMap_cons,
    List.filterMap_nil, List.mem_cons, List.not_mem_nil, or_false] at hop
  rcases hop with rfl | rfl | rfl | rfl <;> first | trivial | (show _ ≠ _; decide)

/-- both writes since the call are update events of the leaf `t/a/b` -/
theorem histA_emitted : EmittedUpd id {} histA1 (.sub "u1" .absent (some reqU)) histA2 ["t", "a", "b"] := by
  have : ∃ e ∈ ((grun id (init {}) (histA1 ++ .sub "u1" .absent (some reqU) :: [upT 11 2 [wr 2 "w2"]])).cache.step id
      (.update 12 false { ts := 3, target := "t", praw := "p", upd := [wr 1 "w1"] })).2.2,
      updAt ["t", "a", "b"] e = true := by decide
  obtain ⟨e, he, hu⟩ := this
  cases e with
  | upd n => exact ⟨[upT 11 2 [wr 2 "w2"]], [], _, n, rfl, he, by simpa [updAt] using hu⟩
  | del t o p ts => cases hu

/-- the subscriber at the end: alive, gate open, its view holds `a/b` with the notification of the
**last** write (timestamp 3), which is what the cache holds; the cache held the same *value* (another
notification: timestamp 1) when the call was made -/
theorem histA_views :
    (tracked id {} histA1 (.sub "u1" .absent (some reqU)) histA2).map (fun s =>
      (s.alive, s.gateShut, s.req.updatesOnly, s.out.length)) = some (true, false, true, 3) ∧
    (tracked id {} histA1 (.sub "u1" .absent (some reqU)) histA2).map (fun s => kts (replay s.out)) =
      some [(["t", "a", "b"], 3)] ∧
    (held (grun id {} histA1).cache "t" ["a", "b"]).map (fun n => (n.ts, n.upd.map (·.val))) =
      some (1, [.scalar (.int 1)]) ∧
    (held (grun id {} histA).cache "t" ["a", "b"]).map (fun n => (n.ts, n.upd.map (·.val))) =
      some (3, [.scalar (.int 1)]) := by
  refine ⟨by decide, by decide, by decide, by decide⟩

/-- the theorems instantiated at A → B → A -/
example := updates_only_converges_full id {} histA1 histA2 "u1" .absent reqU histA_ok histA_noStar rfl rfl
example := update_event_accounted id {} histA1 histA2 "u1" .absent reqU histA_ok histA_noStar rfl
example := every_offered_event_accounted id {} histA1 histA2 "u1" .absent reqU histA_ok histA_noStar rfl

/-- the conclusion at the example, through the theorem: the view agrees with the cache at `t/a/b` -/
theorem histA_converged : ∀ su, tracked id {} histA1 (.sub "u1" .absent (some reqU)) histA2 = some su →
    su.alive = true → su.gateShut = false →
    Sim {} (lookup (replay su.out) ["t", "a", "b"]) (held (grun id (init {}) histA).cache "t" ["a", "b"]) :=
  fun su hsu ha hg => updates_only_converges_full id {} histA1 histA2 "u1" .absent reqU histA_ok histA_noStar rfl rfl
    su hsu ha hg "t" ["a", "b"] rfl (by decide) histA_emitted.emitted

/-- `C04Sync.reqC` with `updates_only`: an origin in the prefix and in the path -/
def reqX : Req := { reqC with updatesOnly := true }

def upO (now ts : Int) (us : List Upd) : GOp :=
  .ca (.update now false { ts := ts, target := "t", origin := "o", praw := "p", upd := us })

def histX1 : List GOp := [ .ca (.add "t") ]
def histX2 : List GOp := [ upO 10 1 [wr 1 "w1"] ]
def histX : List GOp := histX1 ++ .sub "x1" .absent (some reqX) :: histX2

theorem histX_ok : C03.OkRun id {} (cacheOps histX) :=
  ⟨⟨by decide, rfl⟩, clean_one 1 "o" _ ⟨by decide, Or.inl (by decide), by decide⟩, trivial⟩

theorem histX_noStar : NoStarTargets histX := by
  intro op hop
  simp only [histX, histX1, histX2, upO, cacheOps, caOf, List.cons_append, List.nil_append, List.filterMap_cons,
    List.filterMap_nil, List.mem_cons, List.not_mem_nil, or_false] at hop
  rcases hop with rfl | rfl <;> first | trivial | (show _ ≠ _; decide)

/-- `CompletePath` rejects the request's path, yet the subscriber is alive, registered, was sent the
marker and then the update of `o:a/b`, and its view is the cache -/
theorem histX_views :
    reqX.subs.all (fun sp => (completePath reqX sp).isSome) = false ∧
    (tracked id {} histX1 (.sub "x1" .absent (some reqX)) histX2).map (fun s =>
      (s.alive, s.status, s.regs, s.out.length)) = some (true, none, [["t", "o", "a"]], 2) ∧
    (tracked id {} histX1 (.sub "x1" .absent (some reqX)) histX2).map (fun s => kts (replay s.out)) =
      some [(["t", "o", "a", "b"], 1)] ∧
    matched reqX "t" ["o", "a", "b"] = true ∧
    (held (grun id {} histX).cache "t" ["o", "a", "b"]).map (·.ts) = some 1 := by
  refine ⟨by decide, by decide, by decide, by decide, by decide⟩

example := updates_only_converges_open id {} histX1 histX2 "x1" .absent reqX histX_ok histX_noStar rfl rfl
example := updates_only_converges_full id {} histX1 histX2 "x1" .absent reqX histX_ok histX_noStar rfl rfl

/-- the event form for a subscriber that asked for the snapshot, at the gated history of `C04Gate`
(`histG = [add, update] ++ Subscribe s1 :: …`) -/
example := stream_event_form id {} [.ca (.add "t"), upT 10 1 [wr 1 "w1", cr 1 "c1"]] (histG.drop 3) "s1" .absent reqS
  histG_ok histG_noStar rfl rfl

/-- A → B → A with a poll trigger, a send timeout (nothing is held: nobody ends) and a half-close in
between: the subscriber is alive at the end and its view is the cache -/
def histXA2 : List XOp :=
  [ .poll "u1", .g (upT 11 2 [wr 2 "w2"]), .expire, .g (upT 12 3 [wr 1 "w1"]), .eof "u1" ]

theorem histXA_views :
    (xtracked id {} (histA1.map XOp.g) (.g (.sub "u1" .absent (some reqU))) histXA2).map (fun s =>
      (s.alive, s.gateShut, s.out.length)) = some (true, false, 3) ∧
    (xtracked id {} (histA1.map XOp.g) (.g (.sub "u1" .absent (some reqU))) histXA2).map (fun s => kts (replay s.out)) =
      some [(["t", "a", "b"], 3)] := by
  refine ⟨by decide, by decide⟩

example := every_offered_event_accounted_all_ops id {} (histA1.map XOp.g) histXA2 "u1" .absent reqU
  histA_ok histA_noStar rfl
example := updates_only_converges_all_ops id {} (histA1.map XOp.g) histXA2 "u1" .absent reqU
  histA_ok histA_noStar rfl

end C04UO
end Gnmi
