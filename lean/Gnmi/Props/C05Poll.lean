import Gnmi.Lemmas.SubscribePoll
/-!
# C05, POLL clause, over the sequential model of `subscribe.Server`

"A POLL subscription does the same [as ONCE: every matching leaf with its current value, nothing
else, then exactly one sync_response] for the initial request and again for every poll trigger
issued after the previous sync_response was received."

* `poll_initial_exact` — the initial request: the same statement as `C05.once_static_exact`
  (`SnapshotBody` is its pair of clauses, see `once_static_exact_snapshot`) except that the RPC
  stays open (alive, no status, nothing queued).
* `poll_trigger_exact` — a poll trigger on an idle live POLL subscriber, in a state with **any**
  cache: `out` grows by the snapshot of the *current* cache and one sync; nothing else changes.
* `poll_rounds_exact` — histories of `Subscribe` calls, cache API calls (each followed by `Sub.feed`
  of its events, as `C04Seq.hstep`), poll triggers and half-closes, from the empty cache, the cache
  calls satisfying `C03.OkRun`: the output of every POLL subscriber alive at the end is the
  concatenation of one round per trigger (its own `Subscribe` call, then each `poll` addressed to
  it), the k-th round being the snapshot of the cache as it was at that trigger followed by one
  sync.  No hypothesis on cache contents (`C05Reach`).  `poll_rounds_exact_of_good` is the same from
  any cache, assuming the two `once_static_exact` hypotheses of every cache passed through.
* `feed_leaves_poll` — a cache operation adds nothing to (changes nothing of) a POLL subscriber.
* `eof_ends_ok`, `poll_after_eof`, `poll_ended`, `poll_unknown`.
-/
namespace Gnmi
namespace C05Poll
open Cache _root_.Gnmi.Sub C05 Feed C03 SubPoll

/-! ## (0) the ONCE theorem, restated with `SnapshotBody` -/

/-- `C05.once_static_exact`, word for word, with its two clauses about `body` folded into
`SnapshotBody` -/
theorem once_static_exact_snapshot (c : Cache.State) (id : String) (a : Acl) (r : Req) (items : List WalkItem)
    (hacc : Accepted c a r) (hmode : r.mode = .once)
    (hw : walkItems c r = some items) (hfun : Functional items)
    (hT : ∀ it ∈ items, it.2.2.target = it.1) :
    ∃ s, (subscribe { cache := c } id a (some r)).subs = [s] ∧
      s.status = some .ok ∧ s.alive = false ∧
      ∃ body, s.out.map (·.1) = body ++ [Resp.sync] ∧ SnapshotBody a items body :=
  once_static_exact c id a r items hacc hmode hw hfun hT

/-- ONCE, with the stronger reading of "one update per distinct matching leaf": `once_static_exact`
plus `SnapshotOnce` (no leaf twice) — the form the POLL theorems below have, round by round -/
theorem once_static_exact_once (c : Cache.State) (id : String) (a : Acl) (r : Req) (items : List WalkItem)
    (hacc : Accepted c a r) (hmode : r.mode = .once)
    (hw : walkItems c r = some items) (hfun : Functional items)
    (hT : ∀ it ∈ items, it.2.2.target = it.1) :
    ∃ s, (subscribe { cache := c } id a (some r)).subs = [s] ∧
      s.status = some .ok ∧ s.alive = false ∧
      ∃ body, s.out.map (·.1) = body ++ [Resp.sync] ∧ SnapshotBody a items body ∧ SnapshotOnce a items body := by
  obtain ⟨h1, h2, h3, h4, h5, _, h7⟩ := hacc
  have hden : ¬ (r.target ≠ "*" ∧ (!a.check r.target) = true) := by
    rintro ⟨x, y⟩
    rcases h5 with h5 | h5
    · exact x h5
    · simp [h5] at y
  have hwq := walk_queue items hfun
  have hkn := walk_queue_keys items hfun
  generalize hQ : items.foldl (fun q it => insertHandle q it.1 it.2.1 it.2.2) [] = Q at hwq hkn
  have hsync := insertSync_walk hwq
  let s0 : Subscriber := { id := id, req := r, acl := a, queue := Q ++ [(Item.sync, 0)], closed := true }
  have hsub : (subscribe { cache := c } id a (some r)).subs = [pumpAll s0] := by
    unfold subscribe
    cases a with
    | fails => exact absurd h7 (by simp)
    | absent =>
      simp only [h1, h2, h3, h4, hden, hmode, doWalk, hw, hQ, hsync, newSubscriber]
      simp [s0]
    | allow ts =>
      simp only [h1, h2, h3, h4, hden, hmode, doWalk, hw, hQ, hsync, newSubscriber]
      simp [s0]
  obtain ⟨p1, p2, p3⟩ := pump_drains (Q ++ [(Item.sync, 0)]) ((Q ++ [(Item.sync, 0)]).length + 2)
    id r a [] none false [] (by omega) (walk_noTD hwq)
  refine ⟨pumpAll s0, hsub, p2, p1, (Q.filter (fun x => !denied a (toResp x))).map toResp, ?_,
    walk_body hwq hT, walk_once hwq hkn hT⟩
  show (pump _ s0).out.map (·.1) = _
  rw [p3]
  have hsyncnd : denied a (toResp (Item.sync, 0)) = false := rfl
  have hs1 : [((Item.sync, 0) : Item × Nat)].filter (fun x => !denied a (toResp x)) = [(Item.sync, 0)] := by
    simp [hsyncnd]
  simp only [List.nil_append, List.filter_append, hs1, List.map_append, List.map_map]
  rfl

/-! ## (1) the initial request -/

/-- an accepted POLL request: the handler appends the initial walk, run to quiescence, of a fresh subscriber -/
theorem subscribe_poll_eq (st : Sub.State) (id : String) (a : Acl) (r : Req)
    (hacc : Accepted st.cache a r) (hmode : r.mode = .poll) :
    subscribe st id a (some r) =
      { st with subs := st.subs ++ [pumpAll (doWalk st.cache (newSubscriber (st.pregated.contains id) id r a))] } := by
  obtain ⟨h1, h2, h3, h4, h5, _, h7⟩ := hacc
  have hden : ¬ (r.target ≠ "*" ∧ (!a.check r.target) = true) := by
    rintro ⟨x, y⟩
    rcases h5 with h5 | h5
    · exact x h5
    · simp [h5] at y
  unfold subscribe
  cases a with
  | fails => exact absurd h7 (by simp)
  | absent => simp only [h1, h2, h3, h4, hden, hmode]; simp
  | allow ts => simp only [h1, h2, h3, h4, hden, hmode]; simp

/-- **C05, POLL, initial request — in any server state.**  (`hpg`: the stream does not start with
flow control shut.)  The new subscriber is the fresh one with `out` = snapshot ++ [sync]. -/
theorem poll_initial_exact_in (st : Sub.State) (id : String) (a : Acl) (r : Req) (items : List WalkItem)
    (hpg : st.pregated.contains id = false)
    (hacc : Accepted st.cache a r) (hmode : r.mode = .poll)
    (hw : walkItems st.cache r = some items) (hfun : Functional items)
    (hT : ∀ it ∈ items, it.2.2.target = it.1) :
    ∃ body, (SnapshotBody a items body ∧ SnapshotOnce a items body) ∧
      subscribe st id a (some r) = { st with subs := st.subs ++
        [{ newSubscriber false id r a with out := (body ++ [Resp.sync]).map (fun x => (x, false)) }] } := by
  rw [subscribe_poll_eq st id a r hacc hmode, hpg]
  obtain ⟨body, hb, hs⟩ := round_exact st.cache (newSubscriber false id r a) items rfl
    (newSubscriber_pinv id r a).idle hw hfun hT
  refine ⟨body, hs, ?_⟩
  rw [hb]
  rfl

/-- **C05, POLL, initial request.**  For every cache, ACL and accepted POLL request (the hypotheses
of `once_static_exact`, with `r.mode = .poll`): the stream carries the same snapshot as for ONCE —
one update per distinct matching leaf on a visible target, each with its current notification,
nothing else (`SnapshotBody`) — then exactly one sync; and the RPC stays open: alive, no status,
nothing queued or held, flow control open. -/
theorem poll_initial_exact (c : Cache.State) (id : String) (a : Acl) (r : Req) (items : List WalkItem)
    (hacc : Accepted c a r) (hmode : r.mode = .poll)
    (hw : walkItems c r = some items) (hfun : Functional items)
    (hT : ∀ it ∈ items, it.2.2.target = it.1) :
    ∃ s, (subscribe { cache := c } id a (some r)).subs = [s] ∧
      s.status = none ∧ s.alive = true ∧ Idle s ∧ s.id = id ∧ s.req = r ∧ s.acl = a ∧
      ∃ body, s.out.map (·.1) = body ++ [Resp.sync] ∧ SnapshotBody a items body ∧ SnapshotOnce a items body := by
  obtain ⟨body, hs, he⟩ := poll_initial_exact_in { cache := c } id a r items rfl hacc hmode hw hfun hT
  refine ⟨_, by rw [he]; rfl, rfl, rfl, ⟨rfl, rfl, rfl, rfl⟩, rfl, rfl, rfl, body, ?_, hs⟩
  simp [List.map_map, Function.comp_def]

/-- a POLL request with an origin conflict ends with an error and no sync (as ONCE) -/
theorem poll_origin_conflict (c : Cache.State) (id : String) (a : Acl) (r : Req)
    (hacc : Accepted c a r) (hmode : r.mode = .poll) (hw : walkItems c r = none) :
    (subscribe { cache := c } id a (some r)).subs =
      [{ id := id, req := r, acl := a, alive := false, status := some .unknown }] := by
  rw [subscribe_poll_eq { cache := c } id a r hacc hmode]
  show [pumpAll (doWalk c (newSubscriber false id r a))] = _
  rw [walk_fail c _ hw]
  rfl

/-! ## (2) a poll trigger -/

/-- `poll` leaves the cache alone and acts on the subscribers named `id`, one by one -/
theorem poll_subs (st : Sub.State) (id : String) :
    poll st id = { st with subs := st.subs.map (fun x => if x.id = id then pollSub st.cache x else x) } := rfl

/-- a trigger on one idle live POLL subscriber: the snapshot of `c`, one sync, nothing else -/
theorem pollSub_exact (c : Cache.State) (s : Subscriber) (items : List WalkItem)
    (ha : s.alive = true) (hm : s.req.mode = .poll) (hi : Idle s)
    (hw : walkItems c s.req = some items) (hfun : Functional items)
    (hT : ∀ it ∈ items, it.2.2.target = it.1) :
    ∃ body, (SnapshotBody s.acl items body ∧ SnapshotOnce s.acl items body) ∧
      pollSub c s = { s with out := s.out ++ (body ++ [Resp.sync]).map (fun r => (r, s.gatedSinceDrain)) } := by
  obtain ⟨body, hb, hs⟩ := round_exact c s items ha hi hw hfun hT
  refine ⟨body, hs, ?_⟩
  unfold pollSub
  rw [if_pos ⟨ha, hm⟩, hb]

/-- **C05, POLL, a poll trigger.**  `s`: a live POLL subscriber, idle (open gate, nothing queued or
held — the state after the initial request or after an earlier round), the `i`-th subscriber of a
state `st` with **any** cache (`items`: what the walk collects from the *current* cache,
`walkItems_mem`).  After `poll st s.id` the `i`-th subscriber is `s` with `out` extended by exactly
the snapshot of the current cache — one update per distinct matching leaf on a visible target, each
with its current notification, nothing else — and then exactly one sync.  Every other field is
unchanged: alive, no status, empty queue. -/
theorem poll_trigger_exact (st : Sub.State) (i : Nat) (s : Subscriber) (items : List WalkItem)
    (hs : st.subs[i]? = some s) (ha : s.alive = true) (hm : s.req.mode = .poll) (hi : Idle s)
    (hw : walkItems st.cache s.req = some items) (hfun : Functional items)
    (hT : ∀ it ∈ items, it.2.2.target = it.1) :
    ∃ body s', (SnapshotBody s.acl items body ∧ SnapshotOnce s.acl items body) ∧
      (poll st s.id).subs[i]? = some s' ∧
      s' = { s with out := s.out ++ (body ++ [Resp.sync]).map (fun r => (r, s.gatedSinceDrain)) } ∧
      s'.out.map (·.1) = s.out.map (·.1) ++ (body ++ [Resp.sync]) ∧
      s'.alive = true ∧ s'.status = s.status ∧ Idle s' := by
  obtain ⟨body, hb, he⟩ := pollSub_exact st.cache s items ha hm hi hw hfun hT
  refine ⟨body, _, hb, ?_, rfl, ?_, ha, rfl, ⟨hi.queue, hi.blocked, hi.gate, hi.closed⟩⟩
  · rw [poll_subs]
    simp only [List.getElem?_map, hs, Option.map_some, if_true, he]
  · simp [List.map_map, Function.comp_def]

/-! ## (4) half-close, and triggers for ended or unknown subscribers -/

theorem updateSub_noop (st : Sub.State) (id : String) (f : Subscriber → Subscriber)
    (h : ∀ s ∈ st.subs, s.id = id → f s = s) : updateSub st id f = st := by
  unfold updateSub
  have : st.subs.map (fun s => if s.id = id then f s else s) = st.subs := by
    rw [List.map_congr_left (g := fun s => s)]
    · simp
    · intro s hs
      by_cases hid : s.id = id
      · simp only [hid, if_true]; exact h s hs hid
      · simp only [hid, if_false]
  rw [this]

/-- **`eof` ends a POLL subscriber with status OK** (a response held inside a gated `Send` is dropped: the
stream is gone; nothing else of the subscriber changes) -/
theorem eof_ends_ok (st : Sub.State) (i : Nat) (s : Subscriber) (hs : st.subs[i]? = some s)
    (ha : s.alive = true) (hm : s.req.mode = .poll) :
    (eof st s.id).subs[i]? = some { s with alive := false, status := some .ok, blocked := none } := by
  rw [eof_eq]
  unfold updateSub eofSub
  simp only [List.getElem?_map, hs, Option.map_some, if_true, ha, hm, and_self]

/-- a poll trigger for subscribers that have ended changes nothing -/
theorem poll_ended (st : Sub.State) (id : String) (h : ∀ s ∈ st.subs, s.id = id → s.alive = false) :
    poll st id = st := by
  rw [poll_eq]
  exact updateSub_noop st id _ (fun s hs hid => pollSub_dead _ s (h s hs hid))

/-- a poll trigger for an id no subscriber carries changes nothing -/
theorem poll_unknown (st : Sub.State) (id : String) (h : ∀ s ∈ st.subs, s.id ≠ id) : poll st id = st :=
  poll_ended st id (fun s hs hid => absurd hid (h s hs))

/-- **after the half-close a poll trigger changes nothing** (whatever else carries that id) -/
theorem poll_after_eof (st : Sub.State) (id : String) : poll (eof st id) id = eof st id := by
  rw [poll_eq]
  apply updateSub_noop
  intro s hs _
  rw [eof_eq] at hs
  unfold updateSub at hs
  obtain ⟨x, _, rfl⟩ := List.mem_map.1 hs
  by_cases hx : x.alive = true ∧ x.req.mode = .poll
  · apply pollSub_dead
    split
    · unfold eofSub; rw [if_pos hx]
    · exact absurd hx (by unfold eofSub at *; simp_all)
  · have he : eofSub x = x := by unfold eofSub; rw [if_neg hx]
    have : (if x.id = id then eofSub x else x) = x := by split <;> simp [he]
    rw [this]
    unfold pollSub
    rw [if_neg hx]

/-! ## (3) histories: one round per trigger, each the snapshot of the cache as it was then -/

/-- an operation of a history -/
inductive POp where
  | sub (id : String) (acl : Acl) (req : Option Req)   -- a `Subscribe` call (any mode; `none`: EOF before a request)
  | ca (op : Cache.Op)                                   -- a cache API call
  | poll (id : String)                                   -- a poll trigger received on stream `id`
  | eof (id : String)                                    -- the client of stream `id` half-closes

/-- `sub` by `Sub.subscribe`, `ca op` as `C04Seq.hstep` (the cache model's step, then `Sub.feed` of
the emitted events on the new cache), `poll` by `Sub.poll`, `eof` by `Sub.eof` — what
`Driver/SU.lean` does for the corresponding trace lines -/
def pstep (enc : String → String) (st : Sub.State) : POp → Sub.State
  | .sub id acl req => subscribe st id acl req
  | .ca op =>
    let r := st.cache.step enc op
    feed { st with cache := r.1 } r.2.2
  | .poll id => poll st id
  | .eof id => eof st id

def prun (enc : String → String) (st : Sub.State) (h : List POp) : Sub.State := h.foldl (pstep enc) st

/-- the cache API calls of a history, in order -/
def cacheOps : List POp → List Cache.Op
  | [] => []
  | .ca op :: h => op :: cacheOps h
  | _ :: h => cacheOps h

/-- the cache after one operation -/
def cstep (enc : String → String) (c : Cache.State) : POp → Cache.State
  | .ca op => (c.step enc op).1
  | _ => c

/-- the cache after a history -/
def crun (enc : String → String) (c : Cache.State) (h : List POp) : Cache.State := h.foldl (cstep enc) c

/-- number of `Subscribe` calls: the `i`-th call creates the `i`-th subscriber -/
def subCount : List POp → Nat
  | [] => 0
  | .sub .. :: h => subCount h + 1
  | _ :: h => subCount h

/-- the caches at the poll triggers addressed to `id` in `h`, starting from cache `c` -/
def pollCaches (enc : String → String) (id : String) : Cache.State → List POp → List Cache.State
  | _, [] => []
  | c, .poll id' :: h => if id' = id then c :: pollCaches enc id c h else pollCaches enc id c h
  | c, op :: h => pollCaches enc id (cstep enc c op) h

/-- one round: the snapshot of cache `c` for request `r` as seen through ACL `a` — what
`once_static_exact` describes — followed by one sync -/
def Round (a : Acl) (r : Req) (c : Cache.State) (out : List Resp) : Prop :=
  ∃ items body, walkItems c r = some items ∧ out = body ++ [Resp.sync] ∧
    SnapshotBody a items body ∧ SnapshotOnce a items body

/-- `out` is the concatenation of one round per cache of the list, in order -/
inductive Rounds (a : Acl) (r : Req) : List Cache.State → List Resp → Prop
  | nil : Rounds a r [] []
  | cons {c : Cache.State} {cs : List Cache.State} {o os : List Resp} :
      Round a r c o → Rounds a r cs os → Rounds a r (c :: cs) (o ++ os)

/-- a snapshot holds no sync: the split of the output into rounds is the split at the syncs -/
theorem snapshot_no_sync {a : Acl} {items : List WalkItem} {body : List Resp} (h : SnapshotBody a items body) :
    Resp.sync ∉ body := by
  intro hm
  obtain ⟨_, _, _, he, _⟩ := h.1 _ hm
  cases he

theorem rounds_sync_count {a : Acl} {r : Req} {cs : List Cache.State} {out : List Resp}
    (h : Rounds a r cs out) : out.count Resp.sync = cs.length := by
  induction h with
  | nil => rfl
  | cons hr _ ih =>
    obtain ⟨items, body, _, rfl, hb, _⟩ := hr
    rw [List.count_append, List.count_append, ih, List.count_eq_zero.2 (snapshot_no_sync hb)]
    simp
    omega

/-- one operation on one existing subscriber -/
def subStep (enc : String → String) (c : Cache.State) (op : POp) (s : Subscriber) : Subscriber :=
  match op with
  | .sub .. => s
  | .ca o => SubStream.feedSub (c.step enc o).1 (c.step enc o).2.2 s
  | .poll id => if s.id = id then pollSub c s else s
  | .eof id => if s.id = id then eofSub s else s

theorem subStep_poll (enc : String → String) (c : Cache.State) (id : String) (s : Subscriber) :
    subStep enc c (.poll id) s = if s.id = id then pollSub c s else s := rfl

theorem subStep_eof (enc : String → String) (c : Cache.State) (id : String) (s : Subscriber) :
    subStep enc c (.eof id) s = if s.id = id then eofSub s else s := rfl

/-- a history on one existing subscriber -/
def subRun (enc : String → String) : Cache.State → List POp → Subscriber → Subscriber
  | _, [], s => s
  | c, op :: h, s => subRun enc (cstep enc c op) h (subStep enc c op s)

/-- the `once_static_exact` hypotheses hold of the cache before every operation of the history -/
def GoodRun (enc : String → String) : Cache.State → List POp → Prop
  | _, [] => True
  | c, op :: h => Good c ∧ GoodRun enc (cstep enc c op) h

/-! ### one subscriber along a history -/

theorem subStep_req (enc : String → String) (c : Cache.State) (op : POp) (s : Subscriber) :
    (subStep enc c op s).req = s.req := by
  cases op with
  | sub => rfl
  | ca o => exact SubStream.feedSub_req _ _ _
  | poll id => rw [subStep_poll]; split; exact pollSub_req _ _; rfl
  | eof id => rw [subStep_eof]; split; exact eofSub_req _; rfl

theorem subStep_id (enc : String → String) (c : Cache.State) (op : POp) (s : Subscriber) :
    (subStep enc c op s).id = s.id := by
  cases op with
  | sub => rfl
  | ca o => exact SubStream.feedSub_id _ _ _
  | poll id => rw [subStep_poll]; split; exact pollSub_id _ _; rfl
  | eof id => rw [subStep_eof]; split; exact eofSub_id _; rfl

theorem subStep_acl (enc : String → String) (c : Cache.State) (op : POp) (s : Subscriber) :
    (subStep enc c op s).acl = s.acl := by
  cases op with
  | sub => rfl
  | ca o => exact SubStream.feedSub_acl _ _ _
  | poll id => rw [subStep_poll]; split; exact pollSub_acl _ _; rfl
  | eof id => rw [subStep_eof]; split; exact eofSub_acl _; rfl

theorem subRun_req (enc : String → String) : ∀ (h : List POp) (c : Cache.State) (s : Subscriber),
    (subRun enc c h s).req = s.req
  | [], _, _ => rfl
  | op :: h, c, s => (subRun_req enc h _ _).trans (subStep_req enc c op s)

theorem subRun_id (enc : String → String) : ∀ (h : List POp) (c : Cache.State) (s : Subscriber),
    (subRun enc c h s).id = s.id
  | [], _, _ => rfl
  | op :: h, c, s => (subRun_id enc h _ _).trans (subStep_id enc c op s)

theorem subRun_acl (enc : String → String) : ∀ (h : List POp) (c : Cache.State) (s : Subscriber),
    (subRun enc c h s).acl = s.acl
  | [], _, _ => rfl
  | op :: h, c, s => (subRun_acl enc h _ _).trans (subStep_acl enc c op s)

/-- every operation keeps the invariant of a POLL subscriber -/
theorem subStep_pinv (enc : String → String) (c : Cache.State) (hg : Good c) (op : POp) (s : Subscriber)
    (hp : PInv s) : PInv (subStep enc c op s) := by
  cases op with
  | sub => exact hp
  | ca o => show PInv (SubStream.feedSub _ _ s); rw [feedSub_pinv _ _ s hp]; exact hp
  | poll id => rw [subStep_poll]; split; exact pollSub_pinv c hg s hp; exact hp
  | eof id => rw [subStep_eof]; split; exact eofSub_pinv s hp; exact hp

/-- an ended POLL subscriber is not touched any more -/
theorem subStep_dead (enc : String → String) (c : Cache.State) (op : POp) (s : Subscriber)
    (hp : PInv s) (hd : s.alive = false) : subStep enc c op s = s := by
  cases op with
  | sub => rfl
  | ca o => exact feedSub_pinv _ _ s hp
  | poll id => rw [subStep_poll]; split; exact pollSub_dead c s hd; rfl
  | eof id => rw [subStep_eof]; split; exact eofSub_dead s hd; rfl

theorem subRun_dead (enc : String → String) : ∀ (h : List POp) (c : Cache.State) (s : Subscriber),
    PInv s → s.alive = false → subRun enc c h s = s
  | [], _, _, _, _ => rfl
  | op :: h, c, s, hp, hd => by
    show subRun enc (cstep enc c op) h (subStep enc c op s) = s
    rw [subStep_dead enc c op s hp hd]
    exact subRun_dead enc h _ s hp hd

/-- **a cache operation changes nothing of a POLL subscriber** -/
theorem subStep_ca (enc : String → String) (c : Cache.State) (o : Cache.Op) (s : Subscriber) (hp : PInv s) :
    subStep enc c (.ca o) s = s := feedSub_pinv _ _ s hp

theorem out_nil (s : Subscriber) : { s with out := s.out ++ ([] : List Resp).map (fun r => (r, s.gatedSinceDrain)) } = s := by
  cases s; simp

/-- **One POLL subscriber along a history.**  If it is alive at the end, its `out` grew by one
round per poll trigger addressed to it — the snapshot of the cache as it was at that trigger, then
one sync — and by nothing else; no other field changed. -/
theorem subRun_rounds (enc : String → String) : ∀ (h : List POp) (c : Cache.State) (s : Subscriber),
    GoodRun enc c h → s.req.mode = .poll → PInv s → (subRun enc c h s).alive = true →
    ∃ outs, Rounds s.acl s.req (pollCaches enc s.id c h) outs ∧
      subRun enc c h s = { s with out := s.out ++ outs.map (fun r => (r, s.gatedSinceDrain)) }
  | [], _, s, _, _, _, _ => ⟨[], Rounds.nil, (out_nil s).symm⟩
  | op :: h, c, s, hg, hm, hp, hal => by
    have hal' : (subRun enc (cstep enc c op) h (subStep enc c op s)).alive = true := hal
    -- the operation leaves this subscriber as it is
    have same : subStep enc c op s = s → pollCaches enc s.id c (op :: h) = pollCaches enc s.id (cstep enc c op) h →
        ∃ outs, Rounds s.acl s.req (pollCaches enc s.id c (op :: h)) outs ∧
          subRun enc c (op :: h) s = { s with out := s.out ++ outs.map (fun r => (r, s.gatedSinceDrain)) } := by
      intro h1 h2
      rw [h1] at hal'
      obtain ⟨outs, ho, he⟩ := subRun_rounds enc h (cstep enc c op) s hg.2 hm hp hal'
      refine ⟨outs, by rw [h2]; exact ho, ?_⟩
      show subRun enc (cstep enc c op) h (subStep enc c op s) = _
      rw [h1]; exact he
    -- the operation would end it: it is not alive at the end
    have ends : (subStep enc c op s).alive = false → False := by
      intro hd
      have := subRun_dead enc h (cstep enc c op) _ (subStep_pinv enc c hg.1 op s hp) hd
      rw [this, hd] at hal'
      cases hal'
    cases op with
    | sub id acl req => exact same rfl rfl
    | ca o => exact same (subStep_ca enc c o s hp) rfl
    | eof id =>
      by_cases hid : s.id = id
      · by_cases ha : s.alive = true
        · exact (ends (by rw [subStep_eof]; unfold eofSub; simp [hid, ha, hm])).elim
        · exact same (by rw [subStep_eof, if_pos hid]; exact eofSub_dead s (by simpa using ha)) rfl
      · exact same (by rw [subStep_eof, if_neg hid]) rfl
    | poll id =>
      by_cases hid : s.id = id
      · by_cases ha : s.alive = true
        · -- a round
          have hstep : subStep enc c (.poll id) s = pumpAll (doWalk c s) := by
            rw [subStep_poll, if_pos hid]; unfold pollSub; rw [if_pos ⟨ha, hm⟩]
          cases hw : walkItems c s.req with
          | none =>
            exact (ends (by rw [hstep, walk_fail c s hw])).elim
          | some items =>
            obtain ⟨hf, hT⟩ := hg.1 s.req items hw
            obtain ⟨body, hb, hsb⟩ := round_exact c s items ha hp.idle hw hf hT
            rw [hstep, hb] at hal'
            have hp1 : PInv { s with out := s.out ++ (body ++ [Resp.sync]).map (fun r => (r, s.gatedSinceDrain)) } :=
              ⟨hp.regs, ⟨hp.idle.queue, hp.idle.blocked, hp.idle.gate, hp.idle.closed⟩⟩
            obtain ⟨outs, ho, he⟩ := subRun_rounds enc h c
              { s with out := s.out ++ (body ++ [Resp.sync]).map (fun r => (r, s.gatedSinceDrain)) } hg.2 hm hp1 hal'
            refine ⟨(body ++ [Resp.sync]) ++ outs, ?_, ?_⟩
            · have hpc : pollCaches enc s.id c (.poll id :: h) = c :: pollCaches enc s.id c h := by
                simp only [pollCaches, hid, if_true]
              rw [hpc]
              exact Rounds.cons ⟨items, body, hw, rfl, hsb.1, hsb.2⟩ ho
            · show subRun enc c h (subStep enc c (.poll id) s) = _
              rw [hstep, hb, he]
              simp only [List.map_append, List.append_assoc]
        · exact (ends (by
            have hd : s.alive = false := by simpa using ha
            rw [subStep_dead enc c _ s hp hd]; exact hd)).elim
      · exact same (by rw [subStep_poll, if_neg hid])
          (by simp only [pollCaches]; rw [if_neg (fun e => hid e.symm)]; rfl)

/-! ### the whole state along a history -/

theorem subCount_cons (op : POp) (h : List POp) : subCount (op :: h) = subCount [op] + subCount h := by
  cases op <;> simp [subCount] <;> omega

theorem subCount_append : ∀ (a b : List POp), subCount (a ++ b) = subCount a + subCount b
  | [], b => by simp [subCount]
  | op :: a, b => by
    rw [List.cons_append, subCount_cons, subCount_append a b, subCount_cons op a]; omega

theorem prun_append (enc : String → String) (st : Sub.State) (a b : List POp) :
    prun enc st (a ++ b) = prun enc (prun enc st a) b := List.foldl_append ..

theorem crun_append (enc : String → String) (c : Cache.State) (a b : List POp) :
    crun enc c (a ++ b) = crun enc (crun enc c a) b := List.foldl_append ..

theorem map_subStep_sub (enc : String → String) (c : Cache.State) (id : String) (acl : Acl) (req : Option Req) :
    ∀ (l : List Subscriber), l.map (subStep enc c (.sub id acl req)) = l
  | [] => rfl
  | x :: l => by rw [List.map_cons, map_subStep_sub enc c id acl req l]; rfl

theorem map_subRun_nil (enc : String → String) (c : Cache.State) :
    ∀ (l : List Subscriber), l.map (subRun enc c []) = l
  | [] => rfl
  | x :: l => by rw [List.map_cons, map_subRun_nil enc c l]; rfl

/-- **one operation on the state**: the cache moves by `cstep`, every existing subscriber by
`subStep`, and a `Subscribe` call appends one subscriber -/
theorem pstep_shape (enc : String → String) (st : Sub.State) (op : POp) (hpre : st.pregated = []) :
    ∃ news, pstep enc st op =
        { cache := cstep enc st.cache op, subs := st.subs.map (subStep enc st.cache op) ++ news, pregated := [] } ∧
      news.length = subCount [op] ∧
      ∀ s ∈ news, ∃ id acl req, op = .sub id acl req ∧ s.id = id ∧ s.acl = acl ∧
        (s.req.mode = .poll → ∃ r, req = some r ∧ Accepted st.cache acl r ∧ r.mode = .poll ∧
          s = pumpAll (doWalk st.cache (newSubscriber false id r acl))) := by
  cases op with
  | sub id acl req =>
    obtain ⟨s, he, h1, h2, h3⟩ := subscribe_shape st id acl req hpre
    refine ⟨[s], ?_, rfl, ?_⟩
    · show subscribe st id acl req = _
      rw [he, map_subStep_sub, hpre]
      rfl
    · intro x hx
      simp only [List.mem_singleton] at hx
      subst hx
      exact ⟨id, acl, req, rfl, h1, h2, h3⟩
  | ca o =>
    refine ⟨[], ?_, rfl, fun s hs => by cases hs⟩
    show feed { st with cache := (st.cache.step enc o).1 } (st.cache.step enc o).2.2 = _
    rw [SubStream.feed_eq, hpre, List.append_nil]
    rfl
  | poll id =>
    refine ⟨[], ?_, rfl, fun s hs => by cases hs⟩
    show poll st id = _
    rw [poll_subs, hpre, List.append_nil]
    rfl
  | eof id =>
    refine ⟨[], ?_, rfl, fun s hs => by cases hs⟩
    show ({ st with subs := st.subs.map (fun s => if s.id = id then eofSub s else s) } : Sub.State) = _
    rw [hpre, List.append_nil]
    rfl

/-- **a history on the state**: the cache moves by `crun`, every subscriber of the start state by
`subRun`, and each `Subscribe` call of the history appends one subscriber -/
theorem prun_shape (enc : String → String) : ∀ (h : List POp) (st : Sub.State), st.pregated = [] →
    ∃ news, prun enc st h =
        { cache := crun enc st.cache h, subs := st.subs.map (subRun enc st.cache h) ++ news, pregated := [] } ∧
      news.length = subCount h
  | [], st, hpre => by
    refine ⟨[], ?_, rfl⟩
    obtain ⟨cache, subs, pregated⟩ := st
    simp only at hpre
    subst hpre
    simp only [map_subRun_nil, List.append_nil]
    rfl
  | op :: h, st, hpre => by
    obtain ⟨n1, he1, hl1, _⟩ := pstep_shape enc st op hpre
    show ∃ news, prun enc (pstep enc st op) h = _ ∧ _
    rw [he1]
    obtain ⟨n2, he2, hl2⟩ := prun_shape enc h
      { cache := cstep enc st.cache op, subs := st.subs.map (subStep enc st.cache op) ++ n1, pregated := [] } rfl
    refine ⟨n1.map (subRun enc (cstep enc st.cache op) h) ++ n2, ?_, ?_⟩
    · rw [he2]
      simp only [List.map_append, List.map_map, List.append_assoc]
      rfl
    · rw [List.length_append, List.length_map, hl1, hl2, subCount_cons op h]

theorem prun_cache (enc : String → String) (h : List POp) (st : Sub.State) (hpre : st.pregated = []) :
    (prun enc st h).cache = crun enc st.cache h := by
  obtain ⟨_, he, _⟩ := prun_shape enc h st hpre
  rw [he]

/-- the cache of a history is the cache model's run of its cache calls -/
theorem crun_eq_runS (enc : String → String) : ∀ (h : List POp) (c : Cache.State),
    crun enc c h = (runS enc c (cacheOps h)).1
  | [], _ => rfl
  | .ca _ :: h, _ => crun_eq_runS enc h _
  | .sub .. :: h, c => crun_eq_runS enc h c
  | .poll _ :: h, c => crun_eq_runS enc h c
  | .eof _ :: h, c => crun_eq_runS enc h c

/-- the `i`-th subscriber is created by the `i`-th `Subscribe` call -/
theorem split_at_sub : ∀ (h : List POp) (i : Nat), i < subCount h →
    ∃ pre id acl req post, h = pre ++ POp.sub id acl req :: post ∧ subCount pre = i
  | [], i, hi => by simp [subCount] at hi
  | .sub id acl req :: h, 0, _ => ⟨[], id, acl, req, h, rfl, rfl⟩
  | .sub id acl req :: h, i + 1, hi => by
    obtain ⟨pre, id', acl', req', post, he, hc⟩ := split_at_sub h i (by simp [subCount] at hi; omega)
    exact ⟨.sub id acl req :: pre, id', acl', req', post, by rw [he]; rfl, by simp [subCount, hc]⟩
  | .ca o :: h, i, hi => by
    obtain ⟨pre, id', acl', req', post, he, hc⟩ := split_at_sub h i hi
    exact ⟨.ca o :: pre, id', acl', req', post, by rw [he]; rfl, hc⟩
  | .poll x :: h, i, hi => by
    obtain ⟨pre, id', acl', req', post, he, hc⟩ := split_at_sub h i hi
    exact ⟨.poll x :: pre, id', acl', req', post, by rw [he]; rfl, hc⟩
  | .eof x :: h, i, hi => by
    obtain ⟨pre, id', acl', req', post, he, hc⟩ := split_at_sub h i hi
    exact ⟨.eof x :: pre, id', acl', req', post, by rw [he]; rfl, hc⟩

theorem goodRun_append (enc : String → String) : ∀ (a b : List POp) (c : Cache.State),
    GoodRun enc c (a ++ b) → GoodRun enc (crun enc c a) b
  | [], _, _, h => h
  | op :: a, b, c, h => goodRun_append enc a b (cstep enc c op) h.2

theorem getElem?_mid {α : Type} (l1 : List α) (x : α) (l2 : List α) : (l1 ++ x :: l2)[l1.length]? = some x := by
  simp

/-- **C05, POLL, all rounds — from any cache, under the `once_static_exact` hypotheses.**
`GoodRun`: of every cache the history passes through, a leaf the walk collects has one value and
its notification carries its target's name (`Functional`, `hT` of `once_static_exact`).  See
`poll_rounds_exact` for the statement without any hypothesis on cache contents. -/
theorem poll_rounds_exact_of_good (enc : String → String) (c0 : Cache.State) (h : List POp)
    (hg : GoodRun enc c0 h) :
    ∀ (i : Nat) (s : Subscriber), (prun enc { cache := c0 } h).subs[i]? = some s →
      s.alive = true → s.req.mode = .poll →
      ∃ pre post, h = pre ++ POp.sub s.id s.acl (some s.req) :: post ∧ subCount pre = i ∧
        Accepted (crun enc c0 pre) s.acl s.req ∧
        Rounds s.acl s.req (crun enc c0 pre :: pollCaches enc s.id (crun enc c0 pre) post) (s.out.map (·.1)) ∧
        s.status = none ∧ Idle s := by
  intro i s hs ha hm
  -- which `Subscribe` call created it
  have hi : i < subCount h := by
    obtain ⟨news, he, hl⟩ := prun_shape enc h { cache := c0 } rfl
    rw [he] at hs
    simp only [List.map_nil, List.nil_append] at hs
    have := (List.getElem?_eq_some_iff.1 hs).1
    omega
  obtain ⟨pre, id, acl, req, post, rfl, hc⟩ := split_at_sub h i hi
  -- the state before that call, the call, the rest
  obtain ⟨n1, he1, hl1⟩ := prun_shape enc pre { cache := c0 } rfl
  simp only [List.map_nil, List.nil_append] at he1
  obtain ⟨s1, hsub, hid1, hacl1, hnew⟩ := subscribe_shape
    { cache := crun enc c0 pre, subs := n1, pregated := [] } id acl req rfl
  obtain ⟨n2, he2, _⟩ := prun_shape enc post
    { cache := crun enc c0 pre, subs := n1 ++ [s1], pregated := [] } rfl
  have hrun : prun enc { cache := c0 } (pre ++ POp.sub id acl req :: post) =
      { cache := crun enc (crun enc c0 pre) post, subs := (n1 ++ [s1]).map (subRun enc (crun enc c0 pre) post) ++ n2,
        pregated := [] } := by
    rw [prun_append, he1]
    show prun enc (subscribe _ id acl req) post = _
    rw [hsub, he2]
  have hs' : s = subRun enc (crun enc c0 pre) post s1 := by
    rw [hrun] at hs
    simp only [List.map_append, List.map_cons, List.map_nil, List.append_assoc, List.cons_append,
      List.nil_append] at hs
    have hidx : i = (n1.map (subRun enc (crun enc c0 pre) post)).length := by
      rw [List.length_map, hl1, hc]
    rw [hidx, getElem?_mid] at hs
    exact (Option.some.inj hs).symm
  have hg2 := goodRun_append enc pre _ c0 hg
  have hgc : Good (crun enc c0 pre) := hg2.1
  have hgp : GoodRun enc (crun enc c0 pre) post := hg2.2
  -- the new subscriber is the initial round of a fresh one
  have hm1 : s1.req.mode = .poll := by rw [← subRun_req enc post (crun enc c0 pre) s1, ← hs']; exact hm
  obtain ⟨r, rfl, hacc, hrm, hs1⟩ := hnew hm1
  have hp1 : PInv s1 := by
    rw [hs1]; exact round_pinv _ hgc _ rfl (newSubscriber_pinv id r acl)
  have ha1 : s1.alive = true := by
    cases hd : s1.alive with
    | true => rfl
    | false =>
      rw [hs', subRun_dead enc post _ s1 hp1 hd, hd] at ha
      cases ha
  cases hw : walkItems (crun enc c0 pre) r with
  | none =>
    have : pumpAll (doWalk (crun enc c0 pre) (newSubscriber false id r acl)) =
        { newSubscriber false id r acl with alive := false, status := some .unknown } := walk_fail _ _ hw
    rw [hs1, this] at ha1
    cases ha1
  | some items =>
    obtain ⟨hf, hT⟩ := hgc r items hw
    obtain ⟨body, hb, hsb⟩ := round_exact (crun enc c0 pre) (newSubscriber false id r acl) items rfl
      (newSubscriber_pinv id r acl).idle hw hf hT
    rw [hb] at hs1
    have hal' : (subRun enc (crun enc c0 pre) post s1).alive = true := by rw [← hs']; exact ha
    obtain ⟨outs, ho, he⟩ := subRun_rounds enc post (crun enc c0 pre) s1 hgp hm1 hp1 hal'
    rw [← hs'] at he
    have e1 : s.id = id := by rw [he, hs1]; rfl
    have e2 : s.acl = acl := by rw [he, hs1]; rfl
    have e3 : s.req = r := by rw [he, hs1]; rfl
    have e4 : s.out.map (·.1) = (body ++ [Resp.sync]) ++ outs := by
      rw [he, hs1]
      simp [newSubscriber, List.map_map, Function.comp_def]
    have e5 : s1.id = id := by rw [hs1]; rfl
    have e6 : s1.acl = acl := by rw [hs1]; rfl
    have e7 : s1.req = r := by rw [hs1]; rfl
    rw [e5, e6, e7] at ho
    refine ⟨pre, post, by rw [e1, e2, e3], hc, by rw [e2, e3]; exact hacc, ?_, by rw [he, hs1]; rfl, ?_⟩
    · rw [e1, e2, e3, e4]
      exact Rounds.cons ⟨items, body, hw, rfl, hsb.1, hsb.2⟩ ho
    · rw [he, hs1]
      exact ⟨rfl, rfl, rfl, rfl⟩

/-! ### reachable caches: no hypothesis on cache contents -/

theorem goodRun_of_ok (enc : String → String) : ∀ (h : List POp) (c : Cache.State), Reach enc c →
    OkRun enc c (cacheOps h) → GoodRun enc c h
  | [], _, _, _ => trivial
  | .ca o :: h, c, hr, hok =>
    ⟨good_of_reach enc c hr, goodRun_of_ok enc h _ (reach_step enc c o hr hok.1) hok.2⟩
  | .sub .. :: h, c, hr, hok => ⟨good_of_reach enc c hr, goodRun_of_ok enc h c hr hok⟩
  | .poll _ :: h, c, hr, hok => ⟨good_of_reach enc c hr, goodRun_of_ok enc h c hr hok⟩
  | .eof _ :: h, c, hr, hok => ⟨good_of_reach enc c hr, goodRun_of_ok enc h c hr hok⟩

/-- **C05, POLL, all rounds.**  Any history of `Subscribe` calls (any mode, ACL, request), cache
API calls, poll triggers and half-closes, from the empty cache, whose cache calls satisfy
`C03.OkRun` (targets added under fresh non-empty names, `Clean` updates).  For every POLL
subscriber `s` alive at the end — the `i`-th subscriber — the history splits at the `i`-th
`Subscribe` call, which carried `s`'s id, ACL and request and was accepted, and `s`'s whole output
is one round per trigger: first the snapshot of the cache as it was at the `Subscribe` call, then,
for each `poll s.id` after it, the snapshot of the cache as it was at that trigger; each round =
one update per distinct leaf `Cache.Query` returned then for a completed subscription path on a
visible target, with the notification it held then, nothing else, followed by exactly one sync
(`Round`, `SnapshotBody`, `walkItems_mem`).  In particular the cache calls between two triggers
add nothing.  The subscriber is idle, without status. -/
theorem poll_rounds_exact (enc : String → String) (cfg : Cfg) (h : List POp)
    (hok : OkRun enc { cfg := cfg } (cacheOps h)) :
    ∀ (i : Nat) (s : Subscriber), (prun enc { cache := { cfg := cfg } } h).subs[i]? = some s →
      s.alive = true → s.req.mode = .poll →
      ∃ pre post, h = pre ++ POp.sub s.id s.acl (some s.req) :: post ∧ subCount pre = i ∧
        Accepted (crun enc { cfg := cfg } pre) s.acl s.req ∧
        Rounds s.acl s.req (crun enc { cfg := cfg } pre ::
          pollCaches enc s.id (crun enc { cfg := cfg } pre) post) (s.out.map (·.1)) ∧
        s.status = none ∧ Idle s :=
  poll_rounds_exact_of_good enc { cfg := cfg } h (goodRun_of_ok enc h _ (reach_init enc cfg) hok)

/-- the number of syncs a live POLL subscriber received = 1 + the number of its poll triggers -/
theorem poll_sync_count (enc : String → String) (cfg : Cfg) (h : List POp)
    (hok : OkRun enc { cfg := cfg } (cacheOps h)) (i : Nat) (s : Subscriber)
    (hs : (prun enc { cache := { cfg := cfg } } h).subs[i]? = some s) (ha : s.alive = true)
    (hm : s.req.mode = .poll) :
    ∃ pre post, h = pre ++ POp.sub s.id s.acl (some s.req) :: post ∧ subCount pre = i ∧
      (s.out.map (·.1)).count Resp.sync =
        1 + (pollCaches enc s.id (crun enc { cfg := cfg } pre) post).length := by
  obtain ⟨pre, post, h1, h2, _, h3, _⟩ := poll_rounds_exact enc cfg h hok i s hs ha hm
  refine ⟨pre, post, h1, h2, ?_⟩
  rw [rounds_sync_count h3, List.length_cons]; omega

/-! ### a cache operation adds nothing to a POLL subscriber -/

/-- the invariant of a state: flow control never pre-shut, every POLL subscriber idle and unregistered -/
structure PSt (st : Sub.State) : Prop where
  pre : st.pregated = []
  subs : ∀ s ∈ st.subs, s.req.mode = .poll → PInv s

theorem pst_init (c : Cache.State) : PSt { cache := c } := ⟨rfl, fun s hs => by cases hs⟩

theorem pstep_pst (enc : String → String) (st : Sub.State) (op : POp) (hi : PSt st) (hg : Good st.cache) :
    PSt (pstep enc st op) := by
  obtain ⟨news, he, _, hn⟩ := pstep_shape enc st op hi.pre
  rw [he]
  refine ⟨rfl, ?_⟩
  intro x hx hm
  rcases List.mem_append.1 hx with hx | hx
  · obtain ⟨s, hs, rfl⟩ := List.mem_map.1 hx
    rw [subStep_req] at hm
    exact subStep_pinv enc st.cache hg op s (hi.subs s hs hm)
  · obtain ⟨id, acl, req, _, _, _, h4⟩ := hn x hx
    obtain ⟨r, _, _, _, rfl⟩ := h4 hm
    exact round_pinv _ hg _ rfl (newSubscriber_pinv id r acl)

theorem prun_pst (enc : String → String) : ∀ (h : List POp) (st : Sub.State), PSt st →
    GoodRun enc st.cache h → PSt (prun enc st h)
  | [], _, hi, _ => hi
  | op :: h, st, hi, hg => by
    have h1 := pstep_pst enc st op hi hg.1
    have hc : (pstep enc st op).cache = cstep enc st.cache op := by
      obtain ⟨_, he, _⟩ := pstep_shape enc st op hi.pre
      rw [he]
    exact prun_pst enc h _ h1 (by rw [hc]; exact hg.2)

/-- **`feed` leaves a POLL subscriber unchanged**: after any history (as in `poll_rounds_exact`), a
cache API call — its events fed to every subscriber — changes no field of any POLL subscriber. -/
theorem feed_leaves_poll (enc : String → String) (cfg : Cfg) (h : List POp)
    (hok : OkRun enc { cfg := cfg } (cacheOps h)) (o : Cache.Op) (i : Nat) (s : Subscriber)
    (hs : (prun enc { cache := { cfg := cfg } } h).subs[i]? = some s) (hm : s.req.mode = .poll) :
    (pstep enc (prun enc { cache := { cfg := cfg } } h) (.ca o)).subs[i]? = some s := by
  have hi := prun_pst enc h _ (pst_init { cfg := cfg }) (goodRun_of_ok enc h _ (reach_init enc cfg) hok)
  have hp : PInv s := hi.subs s (List.mem_of_getElem? hs) hm
  show (feed _ _).subs[i]? = some s
  rw [SubStream.feed_eq]
  simp only [List.getElem?_map, hs, Option.map_some]
  rw [feedSub_pinv _ _ s hp]

/-! ## (1), (2) on reachable caches: no hypothesis on cache contents -/

/-- `poll_initial_exact` on any cache reachable through the API (as `C05.once_static_exact_reachable`) -/
theorem poll_initial_exact_reachable (enc : String → String) (cfg : Cfg) (ops : List Op)
    (hok : OkRun enc { cfg := cfg } ops) (id : String) (a : Acl) (r : Req) (items : List WalkItem)
    (hacc : Accepted (runS enc { cfg := cfg } ops).1 a r) (hmode : r.mode = .poll)
    (hw : walkItems (runS enc { cfg := cfg } ops).1 r = some items) :
    ∃ s, (subscribe { cache := (runS enc { cfg := cfg } ops).1 } id a (some r)).subs = [s] ∧
      s.status = none ∧ s.alive = true ∧ Idle s ∧ s.id = id ∧ s.req = r ∧ s.acl = a ∧
      ∃ body, s.out.map (·.1) = body ++ [Resp.sync] ∧ SnapshotBody a items body ∧ SnapshotOnce a items body :=
  poll_initial_exact _ id a r items hacc hmode hw (walk_functional_reachable enc cfg ops hok r items hw)
    (walk_targets_reachable enc cfg ops hok r items hw)

/-- `poll_trigger_exact` when the current cache is any cache reachable through the API -/
theorem poll_trigger_exact_reachable (enc : String → String) (cfg : Cfg) (ops : List Op)
    (hok : OkRun enc { cfg := cfg } ops) (st : Sub.State) (hc : st.cache = (runS enc { cfg := cfg } ops).1)
    (i : Nat) (s : Subscriber) (items : List WalkItem)
    (hs : st.subs[i]? = some s) (ha : s.alive = true) (hm : s.req.mode = .poll) (hi : Idle s)
    (hw : walkItems st.cache s.req = some items) :
    ∃ body s', (SnapshotBody s.acl items body ∧ SnapshotOnce s.acl items body) ∧
      (poll st s.id).subs[i]? = some s' ∧
      s' = { s with out := s.out ++ (body ++ [Resp.sync]).map (fun r => (r, s.gatedSinceDrain)) } ∧
      s'.out.map (·.1) = s.out.map (·.1) ++ (body ++ [Resp.sync]) ∧
      s'.alive = true ∧ s'.status = s.status ∧ Idle s' := by
  have hg := good_of_reach enc st.cache ⟨cfg, ops, hok, hc⟩ s.req items hw
  exact poll_trigger_exact st i s items hs ha hm hi hw hg.1 hg.2

/-- what a round's `items` are (`C05.walkItems_mem`, for a request that asks for the snapshot): the
leaves `Cache.Query` returns, on the cache of that trigger, for the completed subscription paths -/
theorem round_items {a : Acl} {r : Req} {c : Cache.State} {out : List Resp} (h : Round a r c out)
    (huo : r.updatesOnly = false) :
    ∃ items body, out = body ++ [Resp.sync] ∧ SnapshotBody a items body ∧ SnapshotOnce a items body ∧
      ∀ it : WalkItem, it ∈ items ↔ ∃ s ∈ r.subs, ∃ full found, completePath r s = some full ∧
        c.query r.target full = some found ∧ it ∈ found := by
  obtain ⟨items, body, hw, ho, hb, hb1⟩ := h
  exact ⟨items, body, ho, hb, hb1, walkItems_mem c r items huo hw⟩

/-! ## Non-vacuity

Two targets; `p1`: a POLL subscriber to `a/*` of all targets (`*`); `q`: a POLL subscriber to `t2/a`
whose ACL allows `t2`, half-closed after its first round and polled afterwards; `s`: a STREAM
subscriber (it *does* receive the updates).  Between `p1`'s triggers: writes to both targets
(one leaf rewritten, one new) and a delete. -/

def uA (v : Int) : Upd := { path := ["a", "b"], val := .scalar (.int v), raw := "ab" }
def uC : Upd := { path := ["a", "c"], val := .scalar (.int 7), raw := "ac" }
def uX : Upd := { path := ["x"], val := .scalar (.int 9), raw := "x" }
def reqP : Req := { target := "*", mode := .poll, subs := [{ path := ["a", "*"] }] }
def reqS : Req := { target := "t1", mode := .stream, subs := [{ path := [] }] }
def reqQ : Req := { target := "t2", mode := .poll, subs := [{ path := ["a"] }] }

def preP : List POp :=
  [ .ca (.add "t1"), .ca (.add "t2"),
    .ca (.update 10 false { ts := 1, target := "t1", praw := "p", upd := [uA 1, uX] }),
    .ca (.update 10 false { ts := 1, target := "t2", praw := "p", upd := [uC] }),
    .sub "s" .absent (some reqS) ]

def postP : List POp :=
  [ .sub "q" (.allow ["t2"]) (some reqQ),
    .ca (.update 11 false { ts := 2, target := "t1", praw := "p", upd := [uA 2] }),
    .ca (.update 12 false { ts := 3, target := "t2", praw := "p", upd := [uA 5] }),
    .poll "p1",
    .eof "q",
    .ca (.update 13 false { ts := 4, target := "t2", praw := "p", del := [{ path := ["a", "c"], raw := "d" }] }),
    .ca (.update 14 false { ts := 5, target := "t1", praw := "p", upd := [uC] }),
    .poll "q",
    .poll "p1" ]

def histP : List POp := preP ++ POp.sub "p1" .absent (some reqP) :: postP

theorem histP_ok : OkRun id {} (cacheOps histP) := by
  refine ⟨⟨by decide, rfl⟩, ⟨by decide, by decide⟩, ?_, ?_, ?_, ?_, (fun u hu => by cases hu), ?_, trivial⟩
  · intro u hu
    simp only [List.mem_cons, List.not_mem_nil, or_false] at hu
    rcases hu with rfl | rfl <;> exact ⟨by decide, Or.inr rfl, by decide⟩
  all_goals
    intro u hu
    simp only [List.mem_cons, List.not_mem_nil, or_false] at hu
    subst hu; exact ⟨by decide, Or.inr rfl, by decide⟩

/-- a response, abridged: target, timestamp and paths of an update; `none` for a sync -/
def respView : Resp → Option (String × Int × List Path)
  | .upd n _ => some (n.target, n.ts, n.upd.map (·.path))
  | .del t _ p ts _ => some (t, ts, [p])
  | .sync => none

/-- the run: `p1` (second subscriber) is a live POLL subscriber, `q` ended OK at its half-close,
the STREAM subscriber `s` is alive -/
example : (prun id {} histP).subs.map (fun s => (s.id, s.alive, decide (s.req.mode = Mode.poll), s.status)) =
    [("s", true, false, none), ("p1", true, true, none), ("q", false, true, some Code.ok)] := by decide

/-- what they were sent: `p1` three rounds — the writes and the delete between its triggers show up
only in the next round —; `q` one round (its poll trigger after the half-close added nothing); the
STREAM subscriber `s` the updates as they came -/
example : (prun id {} histP).subs.map (fun s => s.out.map (fun x => respView x.1)) =
    [ [some ("t1", 1, [["x"]]), some ("t1", 1, [["a", "b"]]), none,
       some ("t1", 2, [["a", "b"]]), some ("t1", 5, [["a", "c"]])],
      [some ("t1", 1, [["a", "b"]]), some ("t2", 1, [["a", "c"]]), none,
       some ("t1", 2, [["a", "b"]]), some ("t2", 3, [["a", "b"]]), some ("t2", 1, [["a", "c"]]), none,
       some ("t1", 5, [["a", "c"]]), some ("t1", 2, [["a", "b"]]), some ("t2", 3, [["a", "b"]]), none],
      [some ("t2", 1, [["a", "c"]]), none] ] := by decide

/-- the three trigger caches of `p1` and what the walk collects from each (target, timestamp, key) -/
example : (crun id {} preP :: pollCaches id "p1" (crun id {} preP) postP).map (fun c =>
      (walkItems c reqP).map (fun items => items.map (fun it => (it.1, it.2.2.ts, it.2.1)))) =
    [some [("t1", 1, ["a", "b"]), ("t2", 1, ["a", "c"])],
     some [("t1", 2, ["a", "b"]), ("t2", 3, ["a", "b"]), ("t2", 1, ["a", "c"])],
     some [("t1", 5, ["a", "c"]), ("t1", 2, ["a", "b"]), ("t2", 3, ["a", "b"])]] := by decide

theorem p1_live : ((prun id {} histP).subs[1]?).map (fun s => (s.id, s.alive, decide (s.req.mode = Mode.poll))) =
    some ("p1", true, true) := by decide

/-- `poll_rounds_exact` applies to `p1`: every hypothesis holds -/
example : ∃ s, (prun id {} histP).subs[1]? = some s ∧ s.id = "p1" ∧
    ∃ pre post, histP = pre ++ POp.sub s.id s.acl (some s.req) :: post ∧ subCount pre = 1 ∧
      Rounds s.acl s.req (crun id {} pre :: pollCaches id s.id (crun id {} pre) post) (s.out.map (·.1)) := by
  have hl := p1_live
  cases hs : (prun id {} histP).subs[1]? with
  | none => rw [hs] at hl; cases hl
  | some s =>
    rw [hs] at hl
    simp only [Option.map_some, Option.some.injEq, Prod.mk.injEq, decide_eq_true_eq] at hl
    obtain ⟨h1, h2, h3⟩ := hl
    obtain ⟨pre, post, e1, e2, _, e3, _⟩ := poll_rounds_exact id {} histP histP_ok 1 s hs h2 h3
    exact ⟨s, rfl, h1, pre, post, e1, e2, e3⟩

end C05Poll
end Gnmi
