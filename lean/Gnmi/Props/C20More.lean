import Gnmi.Props.C20
/-!
# C20 — per-value repeat count in every prefix; the exact timestamp of the injected sync

`repeat_exact` (Props/C20.lean) gives "exactly `repeat` emissions" only when the *whole* queue
has run empty.  Here the count is pinned **per value and in every prefix of the emission
sequence** (`dropped_exact`): after any number `n` of `Next` calls, a value configured with
repeat `r ≥ 1`

* is still queued, with remaining repeat `k ≥ 1`, and has been emitted exactly `r - k` times, or
* is no longer queued and has been emitted exactly `r` times — and is never emitted again
  (`dropped_final`);

so "emitted exactly `r` times" holds from the moment the value is dropped, whatever else
(unbounded values included) is still in the queue, and `emitted r times ↔ dropped`
(`emitted_all_iff_dropped`).  A value with repeat `≤ 0` (the code treats every non-positive
repeat as "unbounded") is never dropped (`unbounded_never_dropped`, = `repeat_unbounded`) and
its count is not bounded by any configured number (`unbounded_count_unbounded`: a decided run
on the example configuration).

`sync_timestamp_exact`: the sync marker `Client.reset` injects carries **exactly** the largest
initial timestamp of the configuration (`cfgLatest`: the running maximum `Add` keeps in
`u.latest`, starting from 0, a nil `Timestamp` counting as 0) — `reset_spec` only said
`∃ l, s.pv = syncValue l`.  `sync_emitted_at_latest`: whenever the marker is emitted, it is
emitted with that timestamp, which is ≥ the initial timestamp of every configured value.
-/
namespace Gnmi
namespace C20
open FQ

variable {D : Type} [DOps D] [LawfulDOps D]

/-! ## identities only leave the queue -/

theorem next_ids_subset {u : UQ D} (hi : Inv u) : ∀ i ∈ (next u).2.ids, i ∈ u.ids := by
  intro i hm
  cases next_cases u hi.wf with
  | empty hq h => rw [h] at hm; exact hm
  | dropped v rest hv hmin hrep u' h hvals hw hnid =>
    rw [h] at hm
    simp only [UQ.ids, hvals, hv, List.map_cons, List.mem_cons] at hm ⊢
    exact Or.inr hm
  | requeued v rest hv hmin v' hid hstep hsucc u' h a b hab hvals hw hnid =>
    rw [h] at hm
    simp only [UQ.ids, hvals, hv, hab, List.map_cons, List.map_append, List.mem_cons, List.mem_append] at hm ⊢
    rcases hm with h1 | h1 | h1
    · exact Or.inr (Or.inl h1)
    · exact Or.inl (h1.trans hid)
    · exact Or.inr (Or.inr h1)
  | err v rest hv pv' ds' hnv h => exact absurd h (next_no_err hi).1
  | stuck v rest hv h =>
    rcases h with ⟨h, _⟩ | h | h <;> rw [h] at hm <;> exact hm

theorem after_ids_subset (n : Nat) : ∀ {u : UQ D}, Inv u → ∀ i ∈ (after n u).ids, i ∈ u.ids := by
  induction n with
  | zero => intro u _ i h; exact h
  | succ n ih =>
    intro u hi i h
    rw [after_succ] at h
    exact next_ids_subset hi i (ih (next_inv hi) i h)

omit [LawfulDOps D] in
theorem emits_add (n m : Nat) : ∀ (u : UQ D), emits (n + m) u = emits n u ++ emits m (after n u) := by
  induction n with
  | zero => intro u; simp [emits, results, after]
  | succ n ih =>
    intro u
    have : n + 1 + m = (n + m) + 1 := by omega
    rw [this, emits_succ, emits_succ, after_succ, ih]
    cases (next u).1 <;> simp

/-! ## `dropped_exact` -/

/-- the exact count, for every generator state satisfying the invariant -/
theorem count_exact (n : Nat) : ∀ (u : UQ D), Inv u → ∀ x ∈ u.vals, 1 ≤ x.pv.repeat_ →
    (∃ y ∈ (after n u).vals, y.id = x.id ∧ 1 ≤ y.pv.repeat_ ∧
        ((proj x.id (emits n u)).length : Int) + y.pv.repeat_ = x.pv.repeat_) ∨
    (x.id ∉ (after n u).ids ∧ ((proj x.id (emits n u)).length : Int) = x.pv.repeat_) := by
  induction n with
  | zero =>
    intro u _ x hx hr
    exact Or.inl ⟨x, hx, rfl, hr, by simp [emits, results, proj]⟩
  | succ n ih =>
    intro u hi x hx hr
    rw [after_succ, emits_succ]
    have hi' := next_inv hi
    cases next_cases u hi.wf with
    | empty hq h => rw [hq] at hx; simp at hx
    | dropped v rest hv hmin hrep u' h hvals hw hnid =>
      rw [h] at hi' ⊢
      simp only
      have hnd := hi.nodup
      simp only [UQ.ids, hv] at hnd
      rw [hv] at hx
      rcases List.mem_cons.mp hx with rfl | hx
      · have hnot : x.id ∉ u'.ids := by
          simp only [UQ.ids, hvals]
          exact (List.nodup_cons.mp hnd).1
        have hp : proj x.id (emits n u') = [] := proj_eq_nil_of_not_mem n u' hi' _ hnot
        refine Or.inr ⟨fun hm => hnot (after_ids_subset n hi' _ hm), ?_⟩
        rw [proj_cons_eq _ rfl, hp]
        simp [hrep]
      · rw [proj_cons_ne _ (fun h => id_ne_of_nodup hnd hx h.symm)]
        exact ih u' hi' x (by rw [hvals]; exact hx) hr
    | requeued v rest hv hmin v' hid hstep hsucc u' h a b hab hvals hw hnid =>
      rw [h] at hi' ⊢
      simp only
      have hnd := hi.nodup
      simp only [UQ.ids, hv] at hnd
      rw [hv] at hx
      rcases List.mem_cons.mp hx with rfl | hx
      · have hv'mem : v' ∈ u'.vals := by rw [hvals]; simp
        have hne := hstep.rep_ne
        have hrep := hstep.rep
        have hgt : x.pv.repeat_ > 1 := by omega
        simp only [hgt, if_true] at hrep
        rw [proj_cons_eq _ rfl, ← hid]
        rcases ih u' hi' v' hv'mem (by omega) with ⟨y, hy, h1, h2, h3⟩ | ⟨h1, h2⟩
        · refine Or.inl ⟨y, hy, h1, h2, ?_⟩
          simp only [List.length_cons]
          omega
        · refine Or.inr ⟨h1, ?_⟩
          simp only [List.length_cons]
          omega
      · rw [proj_cons_ne _ (fun h => id_ne_of_nodup hnd hx h.symm)]
        refine ih u' hi' x ?_ hr
        rw [hvals]
        rw [hab] at hx
        rcases List.mem_append.mp hx with hx | hx <;> simp [hx]
    | err v rest hv pv' ds' hnv h => exact absurd h (next_no_err hi).1
    | stuck v rest hv h =>
      rcases h with ⟨h, _⟩ | h | h <;> rw [h] at hi' ⊢ <;> exact ih u hi' x hx hr

/-- **dropped_exact.**  In every prefix of the emission sequence (after any number `n` of `Next`
calls) a configured value with repeat `r ≥ 1` is either still queued with remaining repeat
`k ≥ 1` and has been emitted exactly `r - k` times, or it has been dropped and has been emitted
exactly `r` times. -/
theorem dropped_exact {g : Draws} {values : List (PVal D × Option Draws)} {disableSync : Bool} {u : UQ D}
    (hv : Accepted values) (hb : Built g values disableSync u) (n : Nat) (x : Val D) (hx : x ∈ u.vals)
    (hr : 1 ≤ x.pv.repeat_) :
    (∃ y ∈ (after n u).vals, y.id = x.id ∧ 1 ≤ y.pv.repeat_ ∧
        ((proj x.id (emits n u)).length : Int) + y.pv.repeat_ = x.pv.repeat_) ∨
    (x.id ∉ (after n u).ids ∧ ((proj x.id (emits n u)).length : Int) = x.pv.repeat_) :=
  count_exact n u (built_inv hv hb) x hx hr

/-- a value is emitted `repeat` times exactly when it has left the queue -/
theorem emitted_all_iff_dropped {g : Draws} {values : List (PVal D × Option Draws)} {disableSync : Bool}
    {u : UQ D} (hv : Accepted values) (hb : Built g values disableSync u) (n : Nat) (x : Val D)
    (hx : x ∈ u.vals) (hr : 1 ≤ x.pv.repeat_) :
    ((proj x.id (emits n u)).length : Int) = x.pv.repeat_ ↔ x.id ∉ (after n u).ids := by
  rcases dropped_exact hv hb n x hx hr with ⟨y, hy, h1, h2, h3⟩ | ⟨h1, h2⟩
  · constructor
    · intro h; omega
    · intro h
      exact absurd (List.mem_map.mpr ⟨y, hy, h1⟩) h
  · exact ⟨fun _ => h1, fun _ => h2⟩

/-- once dropped, never emitted again: the count stays at `repeat` in every longer prefix -/
theorem dropped_final {g : Draws} {values : List (PVal D × Option Draws)} {disableSync : Bool} {u : UQ D}
    (hv : Accepted values) (hb : Built g values disableSync u) (n m : Nat) (i : Nat)
    (hd : i ∉ (after n u).ids) : proj i (emits (n + m) u) = proj i (emits n u) := by
  rw [emits_add]
  have := proj_eq_nil_of_not_mem m (after n u) (after_inv n (built_inv hv hb)) i hd
  simp only [proj, List.filter_append] at this ⊢
  rw [this]; simp

/-- the count of a bounded value in any longer prefix: exactly `repeat` from the drop on -/
theorem dropped_count_stays {g : Draws} {values : List (PVal D × Option Draws)} {disableSync : Bool}
    {u : UQ D} (hv : Accepted values) (hb : Built g values disableSync u) (n m : Nat) (x : Val D)
    (hx : x ∈ u.vals) (hr : 1 ≤ x.pv.repeat_) (hd : x.id ∉ (after n u).ids) :
    ((proj x.id (emits (n + m) u)).length : Int) = x.pv.repeat_ := by
  rw [dropped_final hv hb n m x.id hd]
  exact (emitted_all_iff_dropped hv hb n x hx hr).2 hd

/-- unbounded (`repeat ≤ 0`) values are never dropped, in any prefix -/
theorem unbounded_never_dropped {g : Draws} {values : List (PVal D × Option Draws)} {disableSync : Bool}
    {u : UQ D} (hv : Accepted values) (hb : Built g values disableSync u) (n : Nat) (x : Val D)
    (hx : x ∈ u.vals) (hr : x.pv.repeat_ ≤ 0) : x.id ∈ (after n u).ids := by
  obtain ⟨y, hy, h1, _⟩ := repeat_unbounded hv hb n x hx hr
  exact List.mem_map.mpr ⟨y, hy, h1⟩

/-! ## the exact timestamp of the injected sync -/

/-- `Latest()` after `New(values)`: the running maximum of the initial timestamps, from 0 -/
def latestFrom (l0 : Int) (vals : List (Val D)) : Int :=
  vals.foldl (fun m v => if v.t > m then v.t else m) l0

/-- the largest initial timestamp of a configuration (nil `Timestamp` = 0; at least 0) -/
def cfgLatest (values : List (PVal D × Option Draws)) : Int := latestFrom 0 (cfgVals 0 values)

omit [DOps D] [LawfulDOps D] in
theorem latestFrom_ge (vals : List (Val D)) : ∀ l0, l0 ≤ latestFrom l0 vals ∧ ∀ v ∈ vals, v.t ≤ latestFrom l0 vals := by
  induction vals with
  | nil => intro l0; simp [latestFrom]
  | cons v vs ih =>
    intro l0
    simp only [latestFrom, List.foldl_cons]
    by_cases hc : v.t > l0
    · simp only [hc, if_true]
      obtain ⟨h1, h2⟩ := ih v.t
      simp only [latestFrom] at h1 h2
      refine ⟨by omega, ?_⟩
      intro w hw
      rcases List.mem_cons.mp hw with rfl | hw
      · exact h1
      · exact h2 w hw
    · simp only [hc, if_false]
      obtain ⟨h1, h2⟩ := ih l0
      simp only [latestFrom] at h1 h2
      refine ⟨h1, ?_⟩
      intro w hw
      rcases List.mem_cons.mp hw with rfl | hw
      · omega
      · exact h2 w hw

omit [DOps D] [LawfulDOps D] in
theorem latestFrom_attained (vals : List (Val D)) : ∀ l0,
    latestFrom l0 vals = l0 ∨ ∃ v ∈ vals, v.t = latestFrom l0 vals := by
  induction vals with
  | nil => intro l0; exact Or.inl rfl
  | cons v vs ih =>
    intro l0
    simp only [latestFrom, List.foldl_cons]
    rcases ih (if v.t > l0 then v.t else l0) with h | ⟨w, hw, h⟩
    · simp only [latestFrom] at h
      rw [h]
      split
      · exact Or.inr ⟨v, by simp, rfl⟩
      · exact Or.inl rfl
    · exact Or.inr ⟨w, List.mem_cons_of_mem _ hw, h⟩

omit [LawfulDOps D] in
/-- `u.latest` after adding a configuration is the running maximum of its timestamps -/
theorem foldlM_add_latest : ∀ (values : List (PVal D × Option Draws)) (u u' : UQ D), Inv u → LatestOk u →
    (∀ x ∈ values, ValidPV x.1) → values.foldlM (fun u x => add u x.1 x.2) u = .ok u' →
    u'.latest = latestFrom u.latest (cfgVals u.nid values) := by
  intro values
  induction values with
  | nil =>
    intro u u' _ _ _ h
    cases h
    rfl
  | cons x xs ih =>
    intro u u' hi hl hv h
    obtain ⟨u1, h1, hi1, hl1, hn1, _⟩ := add_spec hi hl x.1 x.2 (hv x (List.mem_cons_self ..))
    have hlat : u1.latest = if ({ pv := x.1, own := x.2, id := u.nid } : Val D).withTs.t > u.latest
        then ({ pv := x.1, own := x.2, id := u.nid } : Val D).withTs.t else u.latest := by
      have h1' := h1
      unfold add at h1'
      rw [addValue_spec (u := { u with nid := u.nid + 1 }) hi.wf] at h1'
      cases h1'
      rfl
    simp only [List.foldlM_cons] at h
    have h' : (add u x.1 x.2).bind (fun u => xs.foldlM (fun u x => add u x.1 x.2) u) = .ok u' := h
    rw [h1] at h'
    have := ih u1 u' hi1 hl1 (fun y hy => hv y (List.mem_cons_of_mem _ hy)) h'
    rw [this, hn1, hlat]
    simp only [cfgVals, latestFrom, List.foldl_cons]

omit [LawfulDOps D] in
/-- **sync_timestamp_exact.**  The generator `Client.reset` builds with sync injection queues,
behind every configured value, a marker with identity `values.length`, repeat 1, and timestamp
exactly `cfgLatest values` = the largest initial timestamp of the configuration. -/
theorem sync_timestamp_exact {g : Draws} {values : List (PVal D × Option Draws)} {u : UQ D}
    (hv : Accepted values) (hb : Built g values false u) :
    ∃ pre s, u.vals = pre ++ [s] ∧ pre.Perm (cfgVals 0 values) ∧ s.id = values.length ∧
      s.pv = syncValue (cfgLatest values) ∧ s.t = cfgLatest values ∧
      (∀ x ∈ pre, x.t ≤ s.t) ∧ (s.t = 0 ∨ ∃ x ∈ pre, x.t = s.t) := by
  obtain ⟨u0, h, hi, hl, hn, hg, hp⟩ := new_spec g values hv
  have hlat : u0.latest = cfgLatest values := by
    have := foldlM_add_latest values ({ g := g } : UQ D) u0 (inv_empty g)
      (by intro x hx; simp [UQ.vals] at hx) hv h
    exact this
  obtain ⟨u', h', hi', _, _, hg', _, hq, _⟩ := add_spec hi hl (syncValue u0.latest) none (Or.inl rfl)
  have hs : (({ pv := syncValue u0.latest, own := none, id := u0.nid } : Val D).withTs) =
      { pv := syncValue u0.latest, own := none, id := u0.nid } := withTs_of_isSome (by simp [syncValue])
  rw [hs] at hq
  have ht : ({ pv := syncValue u0.latest, own := none, id := u0.nid } : Val D).t = u0.latest := by
    simp [Val.t, syncValue]
  have hvals : u'.vals = u0.vals ++ [{ pv := syncValue u0.latest, own := none, id := u0.nid }] := by
    simp only [UQ.vals, hq]
    exact ins_last _ _ hi.wf (by intro x hx; rw [ht]; exact hl x hx)
  have hu : u = u' := by
    unfold Built reset at hb
    rw [h] at hb
    simp only [Bool.false_eq_true, if_false] at hb
    rw [h'] at hb
    cases hb
    rfl
  subst hu
  refine ⟨u0.vals, _, hvals, hp, hn, by rw [hlat], by rw [ht, hlat], ?_, ?_⟩
  · intro x hx; rw [ht]; exact hl x hx
  · rw [ht, hlat]
    rcases latestFrom_attained (cfgVals 0 values) 0 with h0 | ⟨w, hw, h0⟩
    · exact Or.inl h0
    · exact Or.inr ⟨w, hp.symm.subset hw, h0⟩

/-- **sync_emitted_at_latest.**  Whenever the injected marker is emitted (at any position of any
prefix of the emission sequence) it is the marker built by `reset`: it carries exactly the largest
initial timestamp `cfgLatest values`, which is at least the initial timestamp of every configured
value; every configured value has been emitted before it (`sync_after_firsts`). -/
theorem sync_emitted_at_latest {g : Draws} {values : List (PVal D × Option Draws)} {u : UQ D}
    (hv : Accepted values) (hb : Built g values false u) (n : Nat) (e : Val D) (he : e ∈ emits n u)
    (hid : e.id = values.length) :
    e.pv = syncValue (cfgLatest values) ∧ e.t = cfgLatest values ∧
      ∀ x ∈ cfgVals 0 values, x.t ≤ e.t := by
  obtain ⟨pre, s, h1, h2, h3, h4, h5, h6, _⟩ := sync_timestamp_exact hv hb
  have hs : s ∈ u.vals := by rw [h1]; simp
  have hep : e ∈ proj s.id (emits n u) := by
    simp only [proj, List.mem_filter, beq_iff_eq]
    exact ⟨he, hid.trans h3.symm⟩
  have hes : e = s := by
    rcases first_emission_is_configured hv hb n s hs with h0 | ⟨rest, h0⟩
    · rw [h0] at hep; cases hep
    · have hlen := sync_once hv hb n
      rw [← h3, h0] at hlen
      have : rest = [] := by
        cases rest with
        | nil => rfl
        | cons _ _ => simp at hlen
      rw [h0, this] at hep
      simpa using hep
  subst hes
  exact ⟨h4, h5, fun x hx => h6 x (h2.symm.subset hx)⟩

/-! ## non-vacuity on the example configuration of Props/C20.lean -/

section NonVacuity

local instance : DOps Int where
  zero := 0
  lt a b := decide (a < b)
  ne0 x := x != 0
  unit v := Int.ofNat v
  isOne f := f == 1
  add a b := a + b
  sub a b := a - b
  mul a b := a * b

/-- the example configuration has initial timestamps 5, 5 and nil: the sync is injected at 5 -/
example : cfgLatest exCfg = 5 := by decide

/-- identity 0 has repeat 3: after 8 calls it has been emitted twice and is queued with
remaining repeat 1 (2 + 1 = 3); identity 2 (repeat 1) was dropped after one emission; the
unbounded identity 1 has been emitted four times already -/
example : (match reset exG exCfg false with
    | .ok u => ((proj 0 (emits 8 u)).length, ((after 8 u).vals.filter (·.id == 0)).map (·.pv.repeat_),
                (proj 2 (emits 8 u)).length, (after 8 u).ids.contains 2, (proj 1 (emits 8 u)).length)
    | _ => (0, [], 0, true, 0)) = (2, [1], 1, false, 4) := by
  decide +kernel

/-- `unbounded_count_unbounded` on the example: the unbounded value (repeat 0) is emitted more
often than any fixed repeat of the configuration (3), and is still queued -/
theorem unbounded_count_unbounded : (match reset exG exCfg false with
    | .ok u => decide ((proj 1 (emits 8 u)).length > 3) && (after 8 u).ids.contains 1
    | _ => false) = true := by
  decide +kernel

end NonVacuity

end C20
end Gnmi
