import Gnmi.Model.ManagerHops
import Gnmi.Props.C13Prog
import Gnmi.Props.C16Mgr
/-!
# C13 / C16 — `createConn`'s next-hop loop, `uniqueNextHops`, `customizeRequest`, `Config.Timeout`

Theorems about `Model/ManagerHops.lean` (put `manager.go` next to it):

1. `uniqueNextHops_spec`, `nextHopOf_spec` — the key set: address prefixes before the separator,
   duplicates merged; every iteration order is a permutation of it.
2. `createConn` as a function of the iteration order, the per-hop outcome script and the context
   script, for **every** address list / script / order: `createConn_first_success` (iff),
   `createConn_success_calls` (no `Connection` call after the successful one),
   `createConn_each_hop_once`, `createConn_all_fail`, `createConn_ctx_between_hops`,
   `createConn_ledger` (one handle acquired iff success, none otherwise), `createConn_defers`
   (every timeout context — also that of the successful call — is cancelled on return; none without
   `Config.Timeout`), `createConn_slow_hop` (the hop outcome `timedOut`).
3. The hop-level LTS `HStep` **refines** the manager LTS (`hstep_refines`, `HReach.greach`): every
   hop-level step is a step of `ManagerLTS.Step` (`dialOk` for the successful call, `dialFail` for
   the three error returns) or a stutter; the hop-level acquisition counter is the ledger of
   `Model/ManagerConn.lean` (`hops_ledger`), so the theorems of `Props/C16Mgr.lean` and
   `Props/C13.lean` hold for multi-hop targets (`hops_held_le_one`, `hops_released_when_idle`,
   `hops_release_once`, `hops_trace_in_discipline`); for all interleavings: `hops_each_hop_once`,
   `hops_no_call_after_success`, `hops_acquire_only_on_success`.
4. `customizeRequest_spec` — what is sent is the configured request with `prefix.target := name`
   (prefix created when absent; non-subscribe requests unchanged), the configured request object is
   not written to and shares no object with the copy.
5. Run form: `dial_returns` (every `createConn` returns within `2·hops + 1` steps of its goroutine:
   every hop call returns — the hypothesis on the `ConnectionManager` built into the rules),
   `hopRun_createConn` (the sequential schedule computes the function of 2.),
   `timeout_leads_to_new_attempt_partial`, `reconnect_leads_to_new_attempt_partial` (C13Prog's
   `timeout_forces_reset` / `reconnect_forces_reset` extended through the multi-hop dial of the
   next attempt; partial: with `m.mu` free — the full statements `TimeoutLeadsToNewAttempt`,
   `ReconnectLeadsToNewAttempt` also cover a `Remove` of another target holding `m.mu`, which needs
   `C13Prog.release_lock` redone at hop level: not done).
-/
namespace Gnmi.C13Hops
open Gnmi.Manager Gnmi.Manager.Hops Gnmi.Session

/-! ## 1. `uniqueNextHops` -/

theorem mem_dedup {l : List String} {a : String} : a ∈ dedup l ↔ a ∈ l := by
  induction l with
  | nil => simp [dedup]
  | cons b l ih =>
    unfold dedup
    split
    · next hb => rw [ih]; constructor
                 · exact List.mem_cons_of_mem _
                 · intro h; rcases List.mem_cons.mp h with rfl | h
                   · exact ih.mp hb
                   · exact h
    · simp [ih]

theorem nodup_dedup (l : List String) : (dedup l).Nodup := by
  induction l with
  | nil => simp [dedup]
  | cons b l ih =>
    unfold dedup
    split
    · exact ih
    · next hb => exact List.nodup_cons.mpr ⟨hb, ih⟩

/-- `strings.Split(a, ";")[0]`: contains no separator and is the whole address or the part of it
before the first separator. -/
theorem nextHopOf_spec (a : String) :
    sepChar ∉ (nextHopOf a).toList ∧
    ((nextHopOf a).toList = a.toList ∨ ∃ rest, a.toList = (nextHopOf a).toList ++ sepChar :: rest) := by
  unfold nextHopOf
  rw [String.toList_ofList]
  generalize a.toList = l
  induction l with
  | nil => simp
  | cons c l ih =>
    by_cases hc : c = sepChar
    · subst hc; simp
    · have hb : (c != sepChar) = true := by simpa using hc
      rw [List.takeWhile_cons, if_pos hb]
      refine ⟨?_, ?_⟩
      · intro hm
        rcases List.mem_cons.mp hm with h | h
        · exact hc h.symm
        · exact ih.1 h
      · rcases ih.2 with h | ⟨rest, h⟩
        · exact .inl (by rw [h])
        · exact .inr ⟨rest, by rw [List.cons_append, ← h]⟩

/-- **`uniqueNextHops_spec`**: the keys are exactly the address prefixes before the separator,
each once; whatever order the `range` yields them in is a permutation of them; the set is empty
only for an empty address list (the guard `len(nhs) == 0` is dead code after `Add`'s own check). -/
theorem uniqueNextHops_spec (addrs : List String) :
    IsIter addrs (uniqueNextHops addrs) ∧
    (∀ order, IsIter addrs order → order.Perm (uniqueNextHops addrs)) ∧
    (uniqueNextHops addrs = [] ↔ addrs = []) := by
  have h1 : IsIter addrs (uniqueNextHops addrs) := ⟨nodup_dedup _, fun h => mem_dedup⟩
  refine ⟨h1, fun order ho => ?_, ?_⟩
  · exact (List.perm_ext_iff_of_nodup ho.1 h1.1).mpr fun a => (ho.2 a).trans (h1.2 a).symm
  · constructor
    · intro he
      cases addrs with
      | nil => rfl
      | cons a l =>
        have : nextHopOf a ∈ uniqueNextHops (a :: l) := (h1.2 _).mpr (by simp)
        rw [he] at this; cases this
    · rintro rfl; rfl

/-- merging: two addresses with the same first element are one next hop -/
example : uniqueNextHops ["a;x", "b", "a;y;z", "b"] = ["a", "b"] := by decide
example : nextHopOf ";x" = "" := by decide

/-! ## 2. `createConn` as a function -/

section func
variable (tmo : Bool) (out : String → HopOut) (ctxDone : Nat → Bool)

/-- the calls for a list of hops that all return what the script says -/
def scripted (hops : List String) : List (String × HopRes) := hops.map fun h => (h, hopRes tmo (out h))

/-- the deferred `cancel()`s after `n` calls: one per call when `Config.Timeout` is set, newest first -/
def dstack (n : Nat) : List Nat := if tmo then (List.range n).reverse else []

theorem dstack_succ (n : Nat) : (if tmo then n :: dstack tmo n else dstack tmo n) = dstack tmo (n + 1) := by
  unfold dstack
  cases tmo
  · simp
  · simp [List.range_succ]

/-- The loop walks over a prefix of failing hops whose `select`s find the context live. -/
theorem loop_skip (pre rest : List String) (calls : List (String × HopRes))
    (hf : ∀ x ∈ pre, hopRes tmo (out x) ≠ .connected)
    (hc : ∀ k, k < pre.length → ctxDone (calls.length + k) = false) :
    loop tmo out ctxDone (pre ++ rest) calls (dstack tmo calls.length) =
      loop tmo out ctxDone rest (calls ++ scripted tmo out pre) (dstack tmo (calls.length + pre.length)) := by
  induction pre generalizing calls with
  | nil => simp [scripted]
  | cons h r ih =>
    have h0 := hc 0 (by simp)
    have hfh := hf h (by simp)
    simp only [List.cons_append, loop, Nat.add_zero] at h0 ⊢
    rw [if_neg (by simp [h0]), dstack_succ]
    have := ih (calls ++ [(h, hopRes tmo (out h))]) (fun x hx => hf x (List.mem_cons_of_mem _ hx))
      (fun k hk => by
        have := hc (k + 1) (by simp; omega)
        simpa [Nat.add_assoc, Nat.add_comm 1] using this)
    simp only [List.length_append, List.length_cons, List.length_nil, Nat.zero_add] at this
    rw [this]
    congr 1
    · simp [scripted]
    · simp [Nat.add_assoc, Nat.add_comm 1]

/-- the last call's hop, when there is one -/
def lastHop (calls : List (String × HopRes)) : Ret :=
  match calls.getLast? with
  | some (h, _) => .lastErr h
  | none => .noAddrs

theorem loop_nil (calls : List (String × HopRes)) (defers : List Nat) :
    loop tmo out ctxDone [] calls defers = ⟨lastHop calls, calls, defers⟩ := rfl

theorem loop_cons_done (h : String) (r : List String) (calls : List (String × HopRes)) (defers : List Nat)
    (hd : ctxDone calls.length = true) :
    loop tmo out ctxDone (h :: r) calls defers = ⟨.ctxErr, calls, defers⟩ := by
  simp [loop, hd]

theorem loop_cons_ok' {h : String} {r : List String} {calls : List (String × HopRes)} {defers : List Nat}
    (hk : hopRes tmo (out h) = .connected) :
    loop tmo out (fun _ => false) (h :: r) calls defers =
      ⟨.conn h, calls ++ [(h, .connected)], if tmo then calls.length :: defers else defers⟩ := by
  simp [loop, hk]

theorem loop_cons_ok (h : String) (r : List String) (calls : List (String × HopRes))
    (hd : ctxDone calls.length = false) (hk : hopRes tmo (out h) = .connected) :
    loop tmo out ctxDone (h :: r) calls (dstack tmo calls.length) =
      ⟨.conn h, calls ++ [(h, .connected)], dstack tmo (calls.length + 1)⟩ := by
  simp [loop, hd, hk, dstack_succ]

/-- How a run of the loop ends: the hops split into the ones tried and the rest. -/
inductive Ending (hops : List String) (o : Out) : Prop
  /-- a call succeeded: it was the last one made -/
  | success (pre post : List String) (h : String) : hops = pre ++ h :: post →
      (∀ x ∈ pre, hopRes tmo (out x) ≠ .connected) → hopRes tmo (out h) = .connected →
      (∀ k, k ≤ pre.length → ctxDone k = false) →
      o = ⟨.conn h, scripted tmo out pre ++ [(h, .connected)], dstack tmo (pre.length + 1)⟩ → Ending hops o
  /-- the context was found cancelled at a `select` -/
  | cancelled (pre post : List String) : hops = pre ++ post → post ≠ [] →
      (∀ x ∈ pre, hopRes tmo (out x) ≠ .connected) → (∀ k, k < pre.length → ctxDone k = false) →
      ctxDone pre.length = true →
      o = ⟨.ctxErr, scripted tmo out pre, dstack tmo pre.length⟩ → Ending hops o
  /-- every hop was tried and failed -/
  | exhausted : (∀ x ∈ hops, hopRes tmo (out x) ≠ .connected) → (∀ k, k < hops.length → ctxDone k = false) →
      o = ⟨lastHop (scripted tmo out hops), scripted tmo out hops, dstack tmo hops.length⟩ → Ending hops o

theorem scripted_length (l : List String) : (scripted tmo out l).length = l.length := by simp [scripted]

/-- Every run of the loop ends in one of the three ways. -/
theorem loop_ending (hops : List String) :
    Ending tmo out ctxDone hops (loop tmo out ctxDone hops [] (dstack tmo 0)) := by
  -- the loop walks to the first hop that succeeds or whose `select` finds the context done
  suffices H : ∀ (rest pre : List String), hops = pre ++ rest →
      (∀ x ∈ pre, hopRes tmo (out x) ≠ .connected) → (∀ k, k < pre.length → ctxDone k = false) →
      Ending tmo out ctxDone hops
        (loop tmo out ctxDone rest (scripted tmo out pre) (dstack tmo (scripted tmo out pre).length)) by
    simpa [scripted] using H hops [] rfl (by simp) (by simp)
  intro rest
  induction rest with
  | nil =>
    intro pre hh hf hc
    rw [List.append_nil] at hh
    subst hh
    rw [loop_nil, scripted_length]
    exact .exhausted hf hc rfl
  | cons h r ih =>
    intro pre hh hf hc
    have hlen := scripted_length tmo out pre
    cases hd : ctxDone pre.length
    · by_cases hk : hopRes tmo (out h) = .connected
      · rw [loop_cons_ok _ _ _ _ _ _ (by rw [hlen]; exact hd) hk, hlen]
        refine .success pre r h hh hf hk (fun k hk' => ?_) rfl
        rcases Nat.lt_or_eq_of_le hk' with h1 | h1
        · exact hc k h1
        · rw [h1]; exact hd
      · have hs := loop_skip tmo out ctxDone [h] r (scripted tmo out pre) (by simpa using hk)
          (by intro k hk'; have : k = 0 := by simpa using hk'
              subst this; simpa [hlen] using hd)
        simp only [List.singleton_append] at hs
        rw [hs]
        have he : scripted tmo out pre ++ scripted tmo out [h] = scripted tmo out (pre ++ [h]) := by
          simp [scripted]
        have := ih (pre ++ [h]) (by simp [hh])
          (by intro x hx; rcases List.mem_append.mp hx with h1 | h1
              · exact hf x h1
              · have : x = h := by simpa using h1
                subst this; exact hk)
          (by intro k hk'
              simp only [List.length_append, List.length_cons, List.length_nil] at hk'
              rcases Nat.lt_or_eq_of_le (Nat.le_of_lt_succ hk') with h1 | h1
              · exact hc k h1
              · rw [h1]; exact hd)
        rw [he]
        simpa [scripted_length] using this
    · rw [loop_cons_done _ _ _ _ _ _ _ (by rw [hlen]; exact hd), hlen]
      exact .cancelled pre (h :: r) hh (by simp) hf hc hd rfl

theorem dstack_zero : dstack tmo 0 = [] := by unfold dstack; split <;> rfl

theorem createConn_nil : createConn tmo [] out ctxDone = ⟨.noAddrs, [], []⟩ := rfl

theorem createConn_loop {hops : List String} (hne : hops ≠ []) :
    createConn tmo hops out ctxDone = loop tmo out ctxDone hops [] (dstack tmo 0) := by
  unfold createConn; rw [if_neg hne, dstack_zero]

/-- How `createConn` ends, for a non-empty key set. -/
theorem createConn_ending {hops : List String} (hne : hops ≠ []) :
    Ending tmo out ctxDone hops (createConn tmo hops out ctxDone) := by
  rw [createConn_loop tmo out ctxDone hne]; exact loop_ending tmo out ctxDone hops

theorem lastHop_scripted {hops : List String} (hne : hops ≠ []) :
    lastHop (scripted tmo out hops) = .lastErr (hops.getLast hne) := by
  unfold lastHop scripted
  rw [List.getLast?_map, List.getLast?_eq_some_getLast hne]
  rfl

theorem acquiredIn_scripted {pre : List String} (hf : ∀ x ∈ pre, hopRes tmo (out x) ≠ .connected) :
    acquiredIn (scripted tmo out pre) = 0 := by
  unfold acquiredIn scripted
  rw [List.length_eq_zero_iff, List.filter_eq_nil_iff]
  intro p hp
  obtain ⟨x, hx, rfl⟩ := List.mem_map.mp hp
  simpa using hf x hx

theorem acquiredIn_append_ok (l : List (String × HopRes)) (h : String) :
    acquiredIn (l ++ [(h, .connected)]) = acquiredIn l + 1 := by
  simp [acquiredIn, List.filter_append]

/-- **`createConn_first_success`.**  `createConn` returns the connection of hop `h` exactly when `h`
is the first hop — in the order the `range` yields them — whose `Connection` call succeeds, and the
context was live at every `select` up to it. -/
theorem createConn_first_success (hops : List String) (h : String) :
    (createConn tmo hops out ctxDone).ret = .conn h ↔
      ∃ pre post, hops = pre ++ h :: post ∧ (∀ x ∈ pre, hopRes tmo (out x) ≠ .connected) ∧
        hopRes tmo (out h) = .connected ∧ ∀ k, k ≤ pre.length → ctxDone k = false := by
  constructor
  · intro hr
    by_cases hne : hops = []
    · subst hne; rw [createConn_nil] at hr; cases hr
    · cases createConn_ending tmo out ctxDone hne with
      | success pre post h' hh hf hk hc ho =>
        rw [ho] at hr
        cases hr
        exact ⟨pre, post, hh, hf, hk, hc⟩
      | cancelled pre post _ _ _ _ _ ho => rw [ho] at hr; cases hr
      | exhausted _ _ ho => rw [ho, lastHop_scripted tmo out hne] at hr; cases hr
  · rintro ⟨pre, post, rfl, hf, hk, hc⟩
    rw [createConn_loop tmo out ctxDone (by simp)]
    have := loop_skip tmo out ctxDone pre (h :: post) [] hf
      (fun k hk' => by simpa using hc k (Nat.le_of_lt hk'))
    simp only [List.length_nil, Nat.zero_add, List.nil_append] at this
    rw [this, ← scripted_length tmo out pre,
      loop_cons_ok _ _ _ _ _ _ (by rw [scripted_length]; exact hc _ (Nat.le_refl _)) hk]

/-- … and then the calls made are exactly: the hops before it (all failed), then `h` — **no
`Connection` call after the successful one** —; with `Config.Timeout` every one of these calls had
a timeout context and all of them, the successful call's included, are cancelled on return. -/
theorem createConn_success_calls {hops : List String} {h : String}
    (hr : (createConn tmo hops out ctxDone).ret = .conn h) :
    ∃ pre post, hops = pre ++ h :: post ∧
      (createConn tmo hops out ctxDone).calls = scripted tmo out pre ++ [(h, .connected)] ∧
      (∀ p ∈ scripted tmo out pre, p.2 ≠ .connected) ∧
      (createConn tmo hops out ctxDone).defers = dstack tmo (pre.length + 1) := by
  by_cases hne : hops = []
  · subst hne; rw [createConn_nil] at hr; cases hr
  · cases createConn_ending tmo out ctxDone hne with
    | success pre post h' hh hf hk hc ho =>
      rw [ho] at hr ⊢
      cases hr
      refine ⟨pre, post, hh, rfl, ?_, rfl⟩
      intro p hp
      obtain ⟨x, hx, rfl⟩ := List.mem_map.mp hp
      exact hf x hx
    | cancelled pre post _ _ _ _ _ ho => rw [ho] at hr; cases hr
    | exhausted _ _ ho => rw [ho, lastHop_scripted tmo out hne] at hr; cases hr

theorem scripted_hops (l : List String) : (scripted tmo out l).map (·.1) = l := by
  simp [scripted, Function.comp_def]

/-- **`createConn_each_hop_once`.**  The hops called are a prefix of the iteration order: each key
at most once (the keys of a map are distinct), in that order. -/
theorem createConn_each_hop_once (hops : List String) :
    (createConn tmo hops out ctxDone).hops <+: hops ∧
    (hops.Nodup → (createConn tmo hops out ctxDone).hops.Nodup) := by
  have key : (createConn tmo hops out ctxDone).hops <+: hops := by
    by_cases hne : hops = []
    · subst hne; exact ⟨[], rfl⟩
    · cases createConn_ending tmo out ctxDone hne with
      | success pre post h hh _ _ _ ho =>
        rw [ho]
        refine ⟨post, ?_⟩
        simp [Out.hops, scripted_hops, hh]
      | cancelled pre post hh _ _ _ _ ho =>
        rw [ho]; exact ⟨post, by simp [Out.hops, scripted_hops, hh]⟩
      | exhausted _ _ ho => rw [ho]; exact ⟨[], by simp [Out.hops, scripted_hops]⟩
  exact ⟨key, fun hn => key.sublist.nodup hn⟩

/-- **`createConn_all_fail`.**  Every hop fails (and nobody cancels): every hop is called once, in
order; the error returned is the one of the **last** call (the named results; errors of the earlier
hops are dropped); no handle is acquired. -/
theorem createConn_all_fail {hops : List String} (hne : hops ≠ [])
    (hf : ∀ x ∈ hops, hopRes tmo (out x) ≠ .connected) (hc : ∀ k, k < hops.length → ctxDone k = false) :
    createConn tmo hops out ctxDone =
      ⟨.lastErr (hops.getLast hne), scripted tmo out hops, dstack tmo hops.length⟩ ∧
    (createConn tmo hops out ctxDone).acquired = 0 := by
  have hl := loop_skip tmo out ctxDone hops [] [] hf (by simpa using hc)
  simp only [List.append_nil, List.length_nil, Nat.zero_add, List.nil_append] at hl
  have he : createConn tmo hops out ctxDone =
      ⟨.lastErr (hops.getLast hne), scripted tmo out hops, dstack tmo hops.length⟩ := by
    rw [createConn_loop tmo out ctxDone hne, hl, loop_nil, lastHop_scripted tmo out hne]
  exact ⟨he, by rw [he]; exact acquiredIn_scripted tmo out hf⟩

/-- **Cancelled between hops.**  The hops tried so far failed and the context is found done at the
next `select` (there is a next key): `createConn` returns `nil, func() {}, ctx.Err()` — the errors
of the failed hops are dropped, no further `Connection` call is made, nothing is acquired. -/
theorem createConn_ctx_between_hops (pre post : List String) (hp : post ≠ [])
    (hf : ∀ x ∈ pre, hopRes tmo (out x) ≠ .connected) (hc : ∀ k, k < pre.length → ctxDone k = false)
    (hd : ctxDone pre.length = true) :
    createConn tmo (pre ++ post) out ctxDone = ⟨.ctxErr, scripted tmo out pre, dstack tmo pre.length⟩ := by
  obtain ⟨h, r, rfl⟩ := List.exists_cons_of_ne_nil hp
  have hl := loop_skip tmo out ctxDone pre (h :: r) [] hf (by simpa using hc)
  simp only [List.length_nil, Nat.zero_add, List.nil_append] at hl
  rw [createConn_loop tmo out ctxDone (by simp), hl, ← scripted_length tmo out pre,
    loop_cons_done _ _ _ _ _ _ _ (by rw [scripted_length]; exact hd)]

/-- **`createConn_ledger`.**  Exactly one handle is acquired when `createConn` returns a
connection, none when it returns an error (whichever of the three): the hop loop as a whole is one
`dialOk` / `dialFail` of the manager LTS as far as the ledger goes. -/
theorem createConn_ledger (hops : List String) :
    (createConn tmo hops out ctxDone).acquired =
      if (createConn tmo hops out ctxDone).ret.isConn then 1 else 0 := by
  by_cases hne : hops = []
  · subst hne; rfl
  · cases createConn_ending tmo out ctxDone hne with
    | success pre post h hh hf hk hc ho =>
      rw [ho]
      simp [Out.acquired, Ret.isConn, acquiredIn_append_ok, acquiredIn_scripted tmo out hf]
    | cancelled pre post _ _ hf _ _ ho =>
      rw [ho]; simp [Out.acquired, Ret.isConn, acquiredIn_scripted tmo out hf]
    | exhausted hf _ ho =>
      rw [ho, lastHop_scripted tmo out hne]
      simp [Out.acquired, Ret.isConn, acquiredIn_scripted tmo out hf]

/-- **The deferred `cancel()`s.**  With `Config.Timeout` set every `Connection` call gets a timeout
context of its own and all of them are cancelled (newest first) when `createConn` returns — the
one of the successful call included, i.e. the context the returned connection was dialled with is
cancelled as the caller receives the connection.  Without a timeout there is nothing to cancel. -/
theorem createConn_defers (hops : List String) :
    (createConn tmo hops out ctxDone).defers = dstack tmo (createConn tmo hops out ctxDone).calls.length := by
  by_cases hne : hops = []
  · subst hne; rw [createConn_nil]; exact (dstack_zero tmo).symm
  · cases createConn_ending tmo out ctxDone hne with
    | success pre post h hh hf hk hc ho => rw [ho]; simp [scripted_length]
    | cancelled pre post _ _ hf _ _ ho => rw [ho]; simp [scripted_length]
    | exhausted hf _ ho => rw [ho]; simp [scripted_length]

end func

/-- the successful call's own `connCtx` is among the cancelled ones -/
theorem createConn_success_ctx_cancelled {hops : List String} {out : String → HopOut} {ctxDone : Nat → Bool}
    {h : String} (hr : (createConn true hops out ctxDone).ret = .conn h) :
    (createConn true hops out ctxDone).calls.length - 1 ∈ (createConn true hops out ctxDone).defers := by
  obtain ⟨pre, post, _, hc, _, hd⟩ := createConn_success_calls true out ctxDone hr
  rw [hd, hc]
  simp [dstack, scripted_length]

/-- **The hop outcome `timedOut`.**  A dial slower than `Config.Timeout` fails that hop — the call
returns `timedOut` — and the loop goes on to the next key; without a timeout the same dial succeeds. -/
theorem createConn_slow_hop (a b : String) (r : List String) (out : String → HopOut) (ctxDone : Nat → Bool)
    (ha : out a = .slow) (hb : out b = .ok) (hc : ∀ k, ctxDone k = false) :
    createConn true (a :: b :: r) out ctxDone = ⟨.conn b, [(a, .timedOut), (b, .connected)], [1, 0]⟩ ∧
    createConn false (a :: b :: r) out ctxDone = ⟨.conn a, [(a, .connected)], []⟩ := by
  simp [createConn, loop, hopRes, ha, hb, hc]

/-- non-vacuity: three next hops, the first refuses, the second is too slow for the timeout, the
third answers; the context is cancelled only later -/
example : createConn true ["a", "b", "c"] (fun h => if h = "a" then .fail else if h = "b" then .slow else .ok)
      (fun k => decide (3 ≤ k)) =
    ⟨.conn "c", [("a", .failed), ("b", .timedOut), ("c", .connected)], [2, 1, 0]⟩ := by decide
/-- … the same with the context cancelled while the second call was in flight -/
example : createConn true ["a", "b", "c"] (fun h => if h = "a" then .fail else if h = "b" then .slow else .ok)
      (fun k => decide (2 ≤ k)) =
    ⟨.ctxErr, [("a", .failed), ("b", .timedOut)], [1, 0]⟩ := by decide


section afterCheck
variable (tmo : Bool) (H : HopSt)
@[simp] theorem afterCheck_script : (H.afterCheck tmo).script = H.script := rfl
@[simp] theorem afterCheck_todo : (H.afterCheck tmo).todo = H.todo := rfl
@[simp] theorem afterCheck_checked : (H.afterCheck tmo).checked = true := rfl
@[simp] theorem afterCheck_calls : (H.afterCheck tmo).calls = H.calls := rfl
@[simp] theorem afterCheck_defers :
    (H.afterCheck tmo).defers = if tmo then H.calls.length :: H.defers else H.defers := rfl
@[simp] theorem afterCheck_sawCancel : (H.afterCheck tmo).sawCancel = H.sawCancel := rfl
@[simp] theorem afterCheck_acq : (H.afterCheck tmo).acq = H.acq := rfl
end afterCheck

/-! ## 3. The hop-level LTS refines the manager LTS -/

section refine
variable {tmo : Bool} {env : Name → Nat → Attempt} {henv : Name → Nat → HopScript}

theorem monStep_pc_ne {next : Attempt} {I I' : Inst} {l : MLabel} (h : MonStep next I l I') : I'.pc ≠ I.pc := by
  cases h <;> simp_all

theorem monStep_to_dial {next : Attempt} {I I' : Inst} {l : MLabel} (h : MonStep next I l I')
    (hp : I'.pc = .dial) : I.pc = .gmeta ∧ I.cur ≠ .metaErr ∧ I'.cur = I.cur ∧ l = .tau := by
  cases h <;> simp_all

theorem monStep_begin {next : Attempt} {I I' : Inst} (h : MonStep next I .begin_ I') :
    I.pc = .timer ∧ I'.pc = .gmeta ∧ I'.cur = next := by
  cases h; simp_all

theorem upd_self {α β : Type} [DecidableEq α] (f : α → β) (k : α) : upd f k (f k) = f := by
  funext x; unfold upd; split
  · next h => rw [h]
  · rfl

theorem applyMon_tau_self (c : Cfg) (i : Nat) : c.applyMon i .tau (c.insts i) = c := by
  simp [Cfg.applyMon, upd_self]

/-- What holds of the `createConn` state of a goroutine, by program counter. -/
structure HopInv (tmo : Bool) (I : Inst) (H : HopSt) : Prop where
  /-- the attempt's two scripts fit -/
  agreeM : I.pc = .gmeta → Agree tmo I.cur H.script
  agreeD : I.pc = .dial → (I.cur = .dialFail ↔ H.script.AllFail tmo)
  /-- the keys yielded so far and the ones to come are the iteration order -/
  split : I.pc = .dial → H.calls.map (·.1) ++ H.todo = H.script.order
  /-- the `range` is not exhausted while in the loop -/
  more : I.pc = .dial → H.script.order = [] ∨ H.todo ≠ []
  /-- every call made so far failed: by the script, or early on a cancelled context -/
  failed : I.pc = .dial → ∀ p ∈ H.calls, p.2 ≠ .connected ∧
      (p.2 = hopRes tmo (H.script.out p.1) ∨ H.sawCancel = true)
  saw : I.pc = .dial → H.sawCancel = true → I.ctxDone = true
  /-- one deferred `cancel()` per call (plus the one of the call in flight) iff `Config.Timeout` -/
  defers : I.pc = .dial → H.defers = dstack tmo (H.calls.length + if H.checked then 1 else 0)

def HInv (tmo : Bool) (hc : HCfg) : Prop := ∀ i, HopInv tmo (hc.c.insts i) (hc.hop i)

theorem hopInv_of_not_pre {I : Inst} {H : HopSt} (h1 : I.pc ≠ .gmeta) (h2 : I.pc ≠ .dial) : HopInv tmo I H :=
  ⟨fun h => absurd h h1, fun h => absurd h h2, fun h => absurd h h2, fun h => absurd h h2,
   fun h => absurd h h2, fun h => absurd h h2, fun h => absurd h h2⟩

theorem hinv_init : HInv tmo HCfg.init := fun _ =>
  hopInv_of_not_pre (I := Inst.dead) (by simp [Inst.dead]) (by simp [Inst.dead])

theorem failRes_ne {I : Inst} {H : HopSt} {h : String} {res : HopRes} (hf : FailRes tmo I H h res) :
    res ≠ .connected := by
  rcases hf with ⟨_, h⟩ | ⟨h, _⟩
  · exact h
  · rw [h]; simp

/-- after a failing call the invariant's bookkeeping part holds again -/
theorem HopInv.afterFail {I : Inst} {H : HopSt} {h : String} {r : List String} {res : HopRes}
    (hi : HopInv tmo I H) (hp : I.pc = .dial) (ht : H.todo = h :: r) (hck : H.checked = true)
    (hf : FailRes tmo I H h res) (hr : r ≠ []) : HopInv tmo I (H.afterCall h r res) := by
  refine ⟨hi.agreeM, hi.agreeD, fun _ => ?_, fun _ => .inr hr, fun _ p hp' => ?_, fun _ hs => ?_, fun _ => ?_⟩
  · have := hi.split hp
    rw [ht] at this
    simpa [HopSt.afterCall] using this
  · simp only [HopSt.afterCall] at hp' ⊢
    rcases List.mem_append.mp hp' with h1 | h1
    · obtain ⟨a, b⟩ := hi.failed hp p h1
      exact ⟨a, b.elim .inl (fun e => .inr (by simp [e]))⟩
    · have : p = (h, res) := by simpa using h1
      subst this
      refine ⟨failRes_ne hf, ?_⟩
      rcases hf with ⟨e, _⟩ | ⟨e, _⟩
      · exact .inl e
      · exact .inr (by simp [e])
  · simp only [HopSt.afterCall, Bool.or_eq_true, decide_eq_true_eq] at hs
    rcases hs with hs | hs
    · exact hi.saw hp hs
    · rcases hf with ⟨e, hne⟩ | ⟨_, hd⟩
      · rw [hs] at e
        cases ho : H.script.out h <;> simp [hopRes, ho] at e
        split at e <;> cases e
      · exact hd
  · have := hi.defers hp
    rw [hck] at this
    simpa [HopSt.afterCall] using this

/-- all hops of the script failed when the last call fails and no call failed on a cancelled context -/
theorem HopInv.allFail {I : Inst} {H : HopSt} {h : String} {res : HopRes}
    (hi : HopInv tmo I H) (hp : I.pc = .dial) (ht : H.todo = [h])
    (hf : FailRes tmo I H h res) : H.script.AllFail tmo ∨ I.ctxDone = true := by
  by_cases hs : H.sawCancel = true
  · exact .inr (hi.saw hp hs)
  · rcases hf with ⟨e, hne⟩ | ⟨_, hd⟩
    · refine .inl fun x hx => ?_
      rw [← hi.split hp, ht] at hx
      rcases List.mem_append.mp hx with h1 | h1
      · obtain ⟨p, hp', rfl⟩ := List.mem_map.mp h1
        obtain ⟨a, b⟩ := hi.failed hp p hp'
        rcases b with b | b
        · rw [← b]; exact a
        · exact absurd b hs
      · have : x = h := by simpa using h1
        subst this; rw [← e]; exact hne
    · exact .inr hd

/-- A non-monitor step does not revive a cancelled context of a goroutine that stays put. -/
theorem step_ctxDone_mono {c c' : Cfg} {l : Label} (hs : Step env c l c') (k : Nat)
    (hpc : (c'.insts k).pc = (c.insts k).pc) (hd : (c.insts k).pc = .dial)
    (h : (c.insts k).ctxDone = true) : (c'.insts k).ctxDone = true := by
  cases hs with
  | mon i hm =>
    by_cases hk : k = i
    · subst hk
      simp only [applyMon_insts, upd_same] at hpc
      exact absurd hpc (monStep_pc_ne hm)
    · simpa [upd_apply, hk] using h
  | add n rt hl ht =>
    by_cases hk : k = c.nInst
    · simp only [upd_apply, hk, if_true] at hpc
      rw [← hk, hd] at hpc; cases hpc
    · simpa [upd_apply, hk] using h
  | removeBegin n i hl ht =>
    by_cases hk : k = i
    · subst hk; simp [Inst.ctxDone]
    · simpa [upd_apply, hk] using h
  | reconApply l₁ l₂ i hb =>
    by_cases hk : k = i
    · subst hk
      simp only [upd_same]
      unfold Inst.applyRecon
      split
      · simp [Inst.ctxDone]
      · exact h
    · simpa [upd_apply, hk] using h
  | tmoFire i j cn hp hw =>
    by_cases hk : k = i
    · subst hk; simpa [Inst.ctxDone] using h
    · simpa [upd_apply, hk] using h
  | _ => exact h

/-- **Refinement, one step.**  Every step of the hop-level LTS is a step of the manager LTS — the
successful `Connection` call is `dialOk`; `len(nhs) == 0`, `ctx.Done()` at a `select` and the
failure of the last hop are `dialFail` — or leaves the manager LTS's configuration as it is (the
`select` that finds the context live, a failing call that is not the last); and the hop invariant
is kept. -/
theorem hstep_refines (ha : EnvAgree tmo env henv) {hc hc' : HCfg} {l : Label}
    (hi : HInv tmo hc) (hs : HStep tmo env henv hc l hc') :
    (Step env hc.c l hc'.c ∨ (l = .tau ∧ hc'.c = hc.c)) ∧ HInv tmo hc' := by
  cases hs with
  | mon i hm =>
    rename_i ml I' H'
    -- the other goroutines are untouched
    have others : ∀ k, k ≠ i → HopInv tmo ((hc.c.applyMon i ml I').insts k) (upd hc.hop i H' k) := by
      intro k hk
      rw [applyMon_insts, upd_other _ _ hk, upd_other _ _ hk]; exact hi k
    have inv : HopInv tmo I' H' → HInv tmo ⟨hc.c.applyMon i ml I', upd hc.hop i H'⟩ := by
      intro h k
      by_cases hk : k = i
      · subst hk; simpa using h
      · exact others k hk
    have hii := hi i
    cases hm with
    | lift hm' h1 h2 h3 =>
      refine ⟨.inl (.mon i hm'), inv (hopInv_of_not_pre ?_ h2)⟩
      intro hg; exact h3 (C13Prog.monStep_to_gmeta hm' hg)
    | begin_ hm' =>
      obtain ⟨_, hp', hcur⟩ := monStep_begin hm'
      refine ⟨.inl (.mon i hm'), inv ?_⟩
      have hd : I'.pc ≠ .dial := by rw [hp']; simp
      exact ⟨fun _ => by rw [hcur]; exact ha _ _, fun h => absurd h hd, fun h => absurd h hd,
        fun h => absurd h hd, fun h => absurd h hd, fun h => absurd h hd, fun h => absurd h hd⟩
    | enter hm' hpd =>
      obtain ⟨hg, hne, hcur, _⟩ := monStep_to_dial hm' hpd
      refine ⟨.inl (.mon i hm'), inv ?_⟩
      have hng : I'.pc ≠ .gmeta := by rw [hpd]; simp
      refine ⟨fun h => absurd h hng, fun _ => ?_, fun _ => by simp [HopSt.enter], fun _ => ?_,
        fun _ p hp => by simp [HopSt.enter] at hp, fun _ hs => by simp [HopSt.enter] at hs,
        fun _ => by simp [HopSt.enter, dstack_zero]⟩
      · rw [hcur]; exact hii.agreeM hg hne
      · simp only [HopSt.enter]
        cases hc.hop i |>.script.order with
        | nil => exact .inl rfl
        | cons a l => exact .inr (by simp)
    | noHops hp ho =>
      have hcur : (hc.c.insts i).cur = .dialFail := (hii.agreeD hp).mpr (by
        intro x hx; rw [ho] at hx; cases hx)
      exact ⟨.inl (.mon i (.dialFail hp (.inl hcur))),
        inv (hopInv_of_not_pre (by simp [dialErr]) (by simp [dialErr]))⟩
    | ctxErr hp ht hck hd =>
      exact ⟨.inl (.mon i (.dialFail hp (.inr hd))),
        inv (hopInv_of_not_pre (by simp [dialErr]) (by simp [dialErr]))⟩
    | check hp ht hck hd =>
      refine ⟨.inr ⟨rfl, applyMon_tau_self _ _⟩, inv ?_⟩
      refine ⟨hii.agreeM, hii.agreeD, hii.split, hii.more, hii.failed, hii.saw, fun _ => ?_⟩
      have := hii.defers hp
      simp only [hck, Bool.false_eq_true, if_false, Nat.add_zero] at this
      simp only [afterCheck_defers, afterCheck_calls, afterCheck_checked, if_true]
      rw [this]; exact dstack_succ tmo _
    | hopOk hp ht hck hk =>
      have hcur : (hc.c.insts i).cur ≠ .dialFail := by
        intro e
        have hall := (hii.agreeD hp).mp e
        refine hall _ ?_ hk
        rw [← hii.split hp, ht]; simp
      exact ⟨.inl (.mon i (.dialOk hp hcur)), inv (hopInv_of_not_pre (by simp) (by simp))⟩
    | hopFail hp ht hck hf hr =>
      exact ⟨.inr ⟨rfl, applyMon_tau_self _ _⟩, inv (hii.afterFail hp ht hck hf hr)⟩
    | hopFailLast hp ht hck hf =>
      have hg : (hc.c.insts i).cur = .dialFail ∨ (hc.c.insts i).ctxDone = true :=
        (hii.allFail hp ht hf).elim (fun h => .inl ((hii.agreeD hp).mpr h)) .inr
      exact ⟨.inl (.mon i (.dialFail hp hg)), inv (hopInv_of_not_pre (by simp [dialErr]) (by simp [dialErr]))⟩
  | other hs' hpc =>
    rename_i c'
    refine ⟨.inl hs', fun k => ?_⟩
    show HopInv tmo (c'.insts k) (hc.hop k)
    have hk := hi k
    rcases step_inst hs' k with ⟨hp, hcu, _⟩ | ⟨ml, hm⟩ | ⟨_, n, rt, _, hI⟩
    · refine ⟨fun h => by rw [hcu]; exact hk.agreeM (hp ▸ h), fun h => by rw [hcu]; exact hk.agreeD (hp ▸ h),
        fun h => hk.split (hp ▸ h), fun h => hk.more (hp ▸ h), fun h => hk.failed (hp ▸ h),
        fun h hs => ?_, fun h => hk.defers (hp ▸ h)⟩
      exact step_ctxDone_mono hs' k hp (hp ▸ h) (hk.saw (hp ▸ h) hs)
    · exact absurd (hpc k hm.pc_ne_done) (monStep_pc_ne hm)
    · rw [hI]; exact hopInv_of_not_pre (by simp) (by simp)

theorem connEff_self' (p : Pc) : connEff p p = .none := C16Mgr.connEff_self p

theorem ghostNext_self (c : Cfg) (g : Ghost) : ghostNext c c g = g := by
  funext i; simp [ghostNext, connEff_self', ConnEff.apply]

/-- **Refinement.**  Every reachable hop-level configuration projects to a reachable configuration
of the manager LTS *with the same connection ledger*, and satisfies the hop invariant: everything
`Props/C13*.lean` and `Props/C16Mgr.lean` prove of `Reach` / `GReach` holds of multi-hop targets. -/
theorem HReach.greach (ha : EnvAgree tmo env henv) {hc : HCfg} {g : Ghost} (h : HReach tmo env henv hc g) :
    GReach env hc.c g ∧ HInv tmo hc := by
  induction h with
  | init => exact ⟨.init, hinv_init⟩
  | @step hc hc' g l _ hs ih =>
    obtain ⟨hr, hinv⟩ := hstep_refines ha ih.2 hs
    refine ⟨?_, hinv⟩
    rcases hr with hr | ⟨_, he⟩
    · exact .step ih.1 hr
    · rw [he, ghostNext_self]; exact ih.1

theorem HReach.reach (ha : EnvAgree tmo env henv) {hc : HCfg} {g : Ghost} (h : HReach tmo env henv hc g) :
    Reach env hc.c := (HReach.greach ha h).1.reach

end refine

/-! ### The ledger at hop level -/

section ledger
variable {tmo : Bool} {env : Name → Nat → Attempt} {henv : Name → Nat → HopScript}

theorem acquired_release (h : Handles) : acquired h.release = acquired h := by
  cases h <;> simp [Handles.release, acquired]

/-- The ledger of `Model/ManagerConn.lean` grows exactly on `Pc.dial → Pc.open_`. -/
theorem acquired_apply (p q : Pc) (h : Handles) :
    acquired ((connEff p q).apply h) = acquired h + if p = .dial ∧ q = .open_ then 1 else 0 := by
  cases p <;> cases q <;> simp [connEff, ConnEff.apply, acquired_release] <;> simp [acquired]

/-- **`hops_acquire_only_on_success`** (every interleaving).  A step of the hop-level LTS counts a
successful `Connection` return exactly when it is the step that leaves `createConn` with a
connection: no acquisition by a failing call, by the error returns, or anywhere else. -/
theorem hops_acquire_only_on_success {hc hc' : HCfg} {l : Label} (hs : HStep tmo env henv hc l hc') (k : Nat) :
    (hc'.hop k).acq = (hc.hop k).acq +
      if (hc.c.insts k).pc = .dial ∧ (hc'.c.insts k).pc = .open_ then 1 else 0 := by
  cases hs with
  | mon i hm =>
    rename_i ml I' H'
    by_cases hk : k = i
    · subst hk
      simp only [applyMon_insts, upd_same]
      cases hm with
      | lift hm' h1 h2 h3 => simp [h1]
      | begin_ hm' => simp [(monStep_begin hm').1]
      | enter hm' hpd => simp [hpd, HopSt.enter]
      | noHops hp ho => simp [dialErr]
      | ctxErr hp ht hck hd => simp [dialErr]
      | check hp ht hck hd => simp [hp]
      | hopOk hp ht hck hk' => simp [hp, HopSt.afterCall]
      | hopFail hp ht hck hf hr => simp [hp, HopSt.afterCall, failRes_ne hf]
      | hopFailLast hp ht hck hf => simp [dialErr, HopSt.afterCall, failRes_ne hf]
    · simp only [applyMon_insts, upd_other _ _ hk]
      have : ¬((hc.c.insts k).pc = .dial ∧ (hc.c.insts k).pc = .open_) := by
        rintro ⟨a, b⟩; rw [a] at b; cases b
      simp [this]
  | other hs' hpc =>
    rename_i c'
    have : ¬((hc.c.insts k).pc = .dial ∧ (c'.insts k).pc = .open_) := by
      rintro ⟨a, b⟩
      have := hpc k (by rw [a]; simp)
      rw [this, a] at b; cases b
    simp [this]

/-- **`hops_ledger`.**  The number of successful `Connection` returns counted call by call at hop
level is the number of acquisitions in the ledger of the manager LTS: `createConn`'s loop as a whole
acquires exactly what `dialOk` acquires. -/
theorem hops_ledger {hc : HCfg} {g : Ghost} (h : HReach tmo env henv hc g) (i : Nat) :
    (hc.hop i).acq = acquired (g i) := by
  induction h with
  | init => rfl
  | @step hc hc' g l _ hs ih =>
    rw [hops_acquire_only_on_success hs i, ih]
    unfold ghostNext
    rw [acquired_apply]

/-- `C16Mgr.held_le_one` for multi-hop targets: whatever the number of next hops and the order they
are tried in, a target's session holds at most one connection. -/
theorem hops_held_le_one (ha : EnvAgree tmo env henv) {hc : HCfg} {g : Ghost}
    (h : HReach tmo env henv hc g) (i : Nat) : held (g i) ≤ 1 :=
  C16Mgr.held_le_one (HReach.greach ha h).1 i

/-- `C16Mgr.released_when_idle` for multi-hop targets — in particular **while `createConn` walks
through the hops** (`Pc.dial`) nothing is held: a hop that failed left nothing behind. -/
theorem hops_released_when_idle (ha : EnvAgree tmo env henv) {hc : HCfg} {g : Ghost}
    (h : HReach tmo env henv hc g) {i : Nat} (hi : C16Mgr.holds (hc.c.insts i).pc = false) :
    held (g i) = 0 ∧ (hc.hop i).acq = released (g i) := by
  have := C16Mgr.released_when_idle (HReach.greach ha h).1 hi
  exact ⟨this.1, by rw [hops_ledger h i]; exact this.2⟩

theorem hops_release_once (ha : EnvAgree tmo env henv) {hc : HCfg} {g : Ghost}
    (h : HReach tmo env henv hc g) (i : Nat) : twice (g i) = 0 ∧ ∀ k ∈ g i, k ≤ 1 :=
  C16Mgr.release_once (HReach.greach ha h).1 i

/-- the callback discipline of C13 for multi-hop targets -/
theorem hops_trace_in_discipline (ha : EnvAgree tmo env henv) {hc : HCfg} {g : Ghost}
    (h : HReach tmo env henv hc g) (n : Name) : Accepts (hc.c.trace n) :=
  C13.trace_in_discipline (HReach.reach ha h) n

/-- **`hops_each_hop_once`** (every interleaving).  While a goroutine is inside `createConn`, the
hops it has called so far followed by the keys still to come are the iteration order — a
duplicate-free list when it is an iteration order of `uniqueNextHops` —: no hop is called twice in
one `createConn`, none outside the key set, whatever other goroutines and API calls do meanwhile. -/
theorem hops_each_hop_once (ha : EnvAgree tmo env henv) {hc : HCfg} {g : Ghost}
    (h : HReach tmo env henv hc g) {i : Nat} (hp : (hc.c.insts i).pc = .dial) :
    (hc.hop i).calls.map (·.1) ++ (hc.hop i).todo = (hc.hop i).script.order ∧
    ((hc.hop i).script.order.Nodup → ((hc.hop i).calls.map (·.1)).Nodup ∧
      ∀ x ∈ (hc.hop i).todo, x ∉ (hc.hop i).calls.map (·.1)) := by
  have hs := ((HReach.greach ha h).2 i).split hp
  refine ⟨hs, fun hn => ?_⟩
  rw [← hs] at hn
  exact ⟨(List.nodup_append.mp hn).1, fun x hx hx' => (List.nodup_append.mp hn).2.2 x hx' x hx rfl⟩

/-- **`hops_no_call_after_success`** (every interleaving).  While a goroutine is inside
`createConn` every call it has made failed: the loop is left at once by the first call that
succeeds (`HMonStep.hopOk` is the only rule for a successful call and it leaves `Pc.dial`). -/
theorem hops_no_call_after_success (ha : EnvAgree tmo env henv) {hc : HCfg} {g : Ghost}
    (h : HReach tmo env henv hc g) {i : Nat} (hp : (hc.c.insts i).pc = .dial) :
    acquiredIn (hc.hop i).calls = 0 := by
  unfold acquiredIn
  rw [List.length_eq_zero_iff, List.filter_eq_nil_iff]
  intro p hp'
  simpa using (((HReach.greach ha h).2 i).failed hp p hp').1

/-- The deferred `cancel()`s at hop level: one per call made (and one for the call in flight) with
`Config.Timeout`, none without. -/
theorem hops_defers (ha : EnvAgree tmo env henv) {hc : HCfg} {g : Ghost}
    (h : HReach tmo env henv hc g) {i : Nat} (hp : (hc.c.insts i).pc = .dial) :
    (hc.hop i).defers = dstack tmo ((hc.hop i).calls.length + if (hc.hop i).checked then 1 else 0) :=
  ((HReach.greach ha h).2 i).defers hp

end ledger

/-! ## 4. `customizeRequest` -/

/-- the configured request is a proper object: its prefix pointer, if any, is allocated -/
def ReqWF (h : Heap) : Req → Prop
  | .subscribe s => ∀ a, s.pfx = some a → a < h.next ∧ ∃ p, h.paths a = some p
  | _ => True

/-- **`customizeRequest_spec`.**  For every configured request and every target name:
* what is sent is the configured request with `prefix.target := name` — the prefix is created when
  the request has none, its other fields (`origin`, `elem`) and the rest of the request (paths,
  mode, …) are kept; a request that is not a `subscribe` (poll, no member set) goes out unchanged;
* no object that existed before the call is written to: **the configured request still reads the
  same** (the manager keeps one `*SubscribeRequest` per target, and callers such as the collector
  hand the same one to every target);
* the prefix object of the request sent is a new one: the copy shares no mutable object with the
  configured request. -/
theorem customizeRequest_spec (h : Heap) (target : String) (sr : Req) (hwf : ReqWF h sr) :
    (customizeRequest h target sr).1.wire (customizeRequest h target sr).2 = (h.wire sr).withTarget target ∧
    (∀ a, a < h.next → (customizeRequest h target sr).1.paths a = h.paths a) ∧
    (customizeRequest h target sr).1.wire sr = h.wire sr ∧
    (∀ s a, (customizeRequest h target sr).2 = .subscribe s → s.pfx = some a → h.next ≤ a) := by
  cases sr with
  | poll => simp [customizeRequest, cloneReq, Heap.wire, WireReq.withTarget]
  | unset => simp [customizeRequest, cloneReq, Heap.wire, WireReq.withTarget]
  | subscribe s =>
    cases hp : s.pfx with
    | none =>
      refine ⟨?_, ?_, ?_, ?_⟩
      · simp [customizeRequest, cloneReq, hp, Heap.wire, WireReq.withTarget, Heap.alloc]
      · intro a ha
        have : a ≠ h.next := Nat.ne_of_lt ha
        simp [customizeRequest, cloneReq, hp, Heap.alloc, this]
      · simp [customizeRequest, cloneReq, hp, Heap.wire]
      · intro s' a hs ha
        simp only [customizeRequest, cloneReq, hp, Heap.alloc] at hs
        cases hs
        simp at ha
        omega
    | some a₀ =>
      obtain ⟨hlt, p, hpa⟩ := hwf a₀ hp
      have hne : a₀ ≠ h.next := Nat.ne_of_lt hlt
      refine ⟨?_, ?_, ?_, ?_⟩
      · simp [customizeRequest, cloneReq, hp, hpa, Heap.wire, WireReq.withTarget, Heap.alloc, Heap.set]
      · intro a ha
        have : a ≠ h.next := Nat.ne_of_lt ha
        simp [customizeRequest, cloneReq, hp, hpa, Heap.alloc, Heap.set, this]
      · simp [customizeRequest, cloneReq, hp, hpa, Heap.wire, Heap.alloc, Heap.set, hne]
      · intro s' a hs ha
        simp only [customizeRequest, cloneReq, hp, hpa, Heap.alloc, Heap.set, if_true] at hs
        cases hs
        simp at ha
        omega

/-- non-vacuity: a request with a prefix (`origin` set, a target of its own) and two paths; the
copy sent names the managed target, the configured request still names its own -/
example :
    let h : Heap := { paths := fun a => if a = 0 then some { target := "cfg", origin := "oc", elems := ["a"] } else none, next := 1 }
    let sr : Req := .subscribe { pfx := some 0, paths := [["x"], ["y", "z"]], mode := 1 }
    ReqWF h sr ∧
    (customizeRequest h "t0" sr).1.wire (customizeRequest h "t0" sr).2 =
      .subscribe { pfx := some { target := "t0", origin := "oc", elems := ["a"] }, paths := [["x"], ["y", "z"]], mode := 1 } ∧
    (customizeRequest h "t0" sr).1.wire sr =
      .subscribe { pfx := some { target := "cfg", origin := "oc", elems := ["a"] }, paths := [["x"], ["y", "z"]], mode := 1 } := by
  refine ⟨?_, by decide, by decide⟩
  intro a ha
  cases ha
  exact ⟨by decide, _, rfl⟩

/-! ## 5a. The sequential schedule; every `createConn` returns -/

section sched
variable {tmo : Bool}

/-- The steps the driver takes inside `createConn` are steps of the hop-level LTS. -/
theorem hopNext_sound {next : Attempt} {nextH : HopScript} {I I' : Inst} {H H' : HopSt}
    (h : hopNext tmo I H = some (I', H')) : HMonStep tmo next nextH I H .tau I' H' := by
  unfold hopNext at h
  split at h
  · cases h
  · next hp =>
    have hp : I.pc = .dial := by simpa using hp
    split at h
    · next ho => cases h; exact .noHops hp ho
    · split at h
      · cases h
      · next hd r ht =>
        split at h
        · next hck =>
          split at h
          · next hctx => cases h; exact .ctxErr hp ht hck hctx
          · next hctx => cases h; exact .check hp ht hck (by simpa using hctx)
        · next hck =>
          have hck : H.checked = true := by simpa using hck
          simp only at h
          split at h
          · next hk => cases h; exact .hopOk hp ht hck hk
          · next hk =>
            split at h
            · next hr => cases h; subst hr; exact .hopFailLast hp ht hck (.inl ⟨rfl, hk⟩)
            · next hr => cases h; exact .hopFail hp ht hck (.inl ⟨rfl, hk⟩) hr

/-- The variant of the loop: two steps per key still to come. -/
def hrank (H : HopSt) : Nat := 2 * H.todo.length + (if H.checked then 0 else 1)

/-- **Every hop call returns; the loop makes progress.**  Inside `createConn` (the `range` not
exhausted) the goroutine has a step — this is the hypothesis on the `ConnectionManager`, built into
the rules: a `Connection` call in flight returns, with a connection or an error —, and each step
either leaves `createConn` or decreases the variant. -/
theorem hopNext_progress {I : Inst} {H : HopSt} (hp : I.pc = .dial)
    (hm : H.script.order = [] ∨ H.todo ≠ []) :
    ∃ I' H', hopNext tmo I H = some (I', H') ∧
      ((I'.pc = .open_ ∨ I'.pc = .connErr 0 false false) ∨
       (I' = I ∧ H'.script = H.script ∧ H'.todo ≠ [] ∧ hrank H' < hrank H)) := by
  by_cases ho : H.script.order = []
  · exact ⟨dialErr I, H, by simp [hopNext, hp, ho], .inl (.inr rfl)⟩
  · have ht := hm.resolve_left ho
    obtain ⟨h, r, ht'⟩ := List.exists_cons_of_ne_nil ht
    cases hck : H.checked
    · cases hd : I.ctxDone
      · refine ⟨I, (H.afterCheck tmo),
          by simp [hopNext, hp, ho, ht', hck, hd], .inr ⟨rfl, rfl, by simp [ht'], ?_⟩⟩
        simp [hrank, hck]
      · exact ⟨dialErr I, H, by simp [hopNext, hp, ho, ht', hck, hd], .inl (.inr rfl)⟩
    · by_cases hk : hopRes tmo (H.script.out h) = .connected
      · exact ⟨{ I with pc := .open_ }, H.afterCall h r .connected,
          by simp [hopNext, hp, ho, ht', hck, hk], .inl (.inl rfl)⟩
      · by_cases hr : r = []
        · exact ⟨dialErr I, H.afterCall h [] (hopRes tmo (H.script.out h)),
            by simp [hopNext, hp, ho, ht', hck, hk, hr], .inl (.inr rfl)⟩
        · refine ⟨I, H.afterCall h r (hopRes tmo (H.script.out h)),
            by simp [hopNext, hp, ho, ht', hck, hk, hr],
            .inr ⟨rfl, rfl, by simpa [HopSt.afterCall] using hr, ?_⟩⟩
          simp [hrank, hck, ht', HopSt.afterCall]; omega

/-- **`createConn` returns**: under the sequential schedule, after at most `2·(keys to come) + 1`
steps of the goroutine the program counter has left `Pc.dial` — with a connection (`Pc.open_`) or
with an error (`monitor` returns: `Pc.connErr`). -/
theorem hopRun_returns (fuel : Nat) {I : Inst} {H : HopSt} (hp : I.pc = .dial)
    (hm : H.script.order = [] ∨ H.todo ≠ []) (hf : hrank H < fuel) :
    (hopRun tmo fuel I H).1.pc = .open_ ∨ (hopRun tmo fuel I H).1.pc = .connErr 0 false false := by
  induction fuel generalizing H with
  | zero => omega
  | succ fuel ih =>
    obtain ⟨I', H', hn, hcase⟩ := hopNext_progress (tmo := tmo) hp hm
    simp only [hopRun, hn]
    rcases hcase with hout | ⟨rfl, hs, ht, hr⟩
    · -- out of `createConn`: `hopNext` has nothing more to do
      have hnd : I'.pc ≠ .dial := by rcases hout with h | h <;> rw [h] <;> simp
      have : ∀ f, hopRun tmo f I' H' = (I', H') := by
        intro f; cases f with
        | zero => rfl
        | succ f => simp [hopRun, hopNext, hnd]
      rw [this]; exact hout
    · exact ih (.inr ht) (by omega)

theorem loop_cons_fail (out : String → HopOut) (ctxDone : Nat → Bool) (h : String) (r : List String)
    (calls : List (String × HopRes)) (defers : List Nat)
    (hd : ctxDone calls.length = false) (hk : hopRes tmo (out h) ≠ .connected) :
    loop tmo out ctxDone (h :: r) calls defers =
      loop tmo out ctxDone r (calls ++ [(h, hopRes tmo (out h))]) (if tmo then calls.length :: defers else defers) := by
  cases hres : hopRes tmo (out h) <;> simp_all [loop]

theorem hopRun_stop {I : Inst} (hnd : I.pc ≠ .dial) (H : HopSt) (fuel : Nat) : hopRun tmo fuel I H = (I, H) := by
  cases fuel with
  | zero => rfl
  | succ f => simp [hopRun, hopNext, hnd]

/-- what `monitor` sees when `createConn` has returned `ret` -/
def afterRet (I : Inst) (ret : Ret) : Inst := if ret.isConn then { I with pc := .open_ } else dialErr I

/-- The sequential schedule walks the loop exactly as the function `loop` does (the context does
not change while nobody else moves). -/
theorem hopRun_loop {I : Inst} (hp : I.pc = .dial) : ∀ (todo : List String) (H : HopSt) (fuel : Nat),
    H.todo = todo → todo ≠ [] → H.script.order ≠ [] → H.checked = false → 2 * todo.length < fuel →
    (hopRun tmo fuel I H).2.calls = (loop tmo H.script.out (fun _ => I.ctxDone) todo H.calls H.defers).calls ∧
    (hopRun tmo fuel I H).2.defers = (loop tmo H.script.out (fun _ => I.ctxDone) todo H.calls H.defers).defers ∧
    (hopRun tmo fuel I H).1 = afterRet I (loop tmo H.script.out (fun _ => I.ctxDone) todo H.calls H.defers).ret := by
  intro todo
  induction todo with
  | nil => intro _ _ _ h; exact absurd rfl h
  | cons h r ih =>
    intro H fuel ht _ ho hck hf
    obtain ⟨f, rfl⟩ : ∃ f, fuel = f + 1 := ⟨fuel - 1, by simp at hf; omega⟩
    cases hd : I.ctxDone
    · -- the `select` finds the context live
      have h1 : hopNext tmo I H = some (I, (H.afterCheck tmo)) := by
        simp [hopNext, hp, ho, ht, hck, hd]
      obtain ⟨f', rfl⟩ : ∃ f', f = f' + 1 := ⟨f - 1, by simp at hf; omega⟩
      simp only [hopRun, h1]
      by_cases hk : hopRes tmo (H.script.out h) = .connected
      · have h2 : hopNext tmo I (H.afterCheck tmo) =
            some ({ I with pc := .open_ }, HopSt.afterCall (H.afterCheck tmo) h r .connected) := by
          simp [hopNext, hp, ho, ht, hk]
        rw [h2]
        simp only
        rw [hopRun_stop (by simp), loop_cons_ok' tmo _ hk]
        simp [HopSt.afterCall, afterRet, Ret.isConn]
      · rw [loop_cons_fail _ _ _ _ _ _ (by simp) hk]
        by_cases hr : r = []
        · subst hr
          have h2 : hopNext tmo I (H.afterCheck tmo) =
              some (dialErr I, HopSt.afterCall (H.afterCheck tmo) h []
                  (hopRes tmo (H.script.out h))) := by
            simp [hopNext, hp, ho, ht, hk]
          rw [h2]
          simp only
          rw [hopRun_stop (by simp [dialErr])]
          simp [HopSt.afterCall, afterRet, loop, Ret.isConn]
        · have h2 : hopNext tmo I (H.afterCheck tmo) =
              some (I, HopSt.afterCall (H.afterCheck tmo) h r
                  (hopRes tmo (H.script.out h))) := by
            simp [hopNext, hp, ho, ht, hk, hr]
          rw [h2]
          simp only
          have := ih (HopSt.afterCall (H.afterCheck tmo) h r
                (hopRes tmo (H.script.out h))) f' rfl hr ho rfl (by simp at hf; omega)
          rw [hd] at this
          simpa [HopSt.afterCall] using this
    · have h1 : hopNext tmo I H = some (dialErr I, H) := by
        simp [hopNext, hp, ho, ht, hck, hd]
      simp only [hopRun, h1]
      rw [hopRun_stop (by simp [dialErr]), loop_cons_done _ _ _ _ _ _ _ (by simp)]
      simp [afterRet, Ret.isConn]

/-- **`hopRun_createConn`.**  Under the sequential schedule the goroutine's walk through
`createConn` — from the call (`HopSt.enter`) to the return — makes the calls, piles up the deferred
`cancel()`s and returns what the function `createConn` of section 2 says, for the iteration order
and outcome script of the attempt and the context as it is (nobody else moves): all the theorems of
section 2 are theorems about runs of the hop-level LTS (`hopNext_sound`). -/
theorem hopRun_createConn {I : Inst} (hp : I.pc = .dial) (H : HopSt) (fuel : Nat)
    (hf : 2 * H.script.order.length < fuel) :
    (hopRun tmo fuel I H.enter).2.calls =
      (createConn tmo H.script.order H.script.out (fun _ => I.ctxDone)).calls ∧
    (hopRun tmo fuel I H.enter).2.defers =
      (createConn tmo H.script.order H.script.out (fun _ => I.ctxDone)).defers ∧
    (hopRun tmo fuel I H.enter).1 =
      afterRet I (createConn tmo H.script.order H.script.out (fun _ => I.ctxDone)).ret := by
  by_cases ho : H.script.order = []
  · obtain ⟨f, rfl⟩ : ∃ f, fuel = f + 1 := ⟨fuel - 1, by omega⟩
    have h1 : hopNext tmo I H.enter = some (dialErr I, H.enter) := by
      simp [hopNext, hp, HopSt.enter, ho]
    simp only [hopRun, h1]
    rw [hopRun_stop (by simp [dialErr]), ho, createConn_nil]
    simp [HopSt.enter, afterRet, Ret.isConn]
  · have := hopRun_loop (tmo := tmo) hp H.script.order H.enter fuel rfl ho ho rfl hf
    unfold createConn
    rw [if_neg ho]
    simpa [HopSt.enter] using this

end sched

/-! ## 5b. A fired receive timeout / a forced `Reconnect` leads to a new attempt whose multi-hop dial returns -/

section runform
variable {tmo : Bool} {env : Name → Nat → Attempt} {henv : Name → Nat → HopScript}

/-- Runs of the `retryMonitor` goroutine of instance `i` at hop level. -/
inductive HMonRun (tmo : Bool) (env : Name → Nat → Attempt) (henv : Name → Nat → HopScript) (i : Nat) :
    HCfg → List MLabel → HCfg → Prop
  | nil (hc : HCfg) : HMonRun tmo env henv i hc [] hc
  | cons {hc hc'' : HCfg} {ml : MLabel} {I' : Inst} {H' : HopSt} {mls : List MLabel} :
      HMonStep tmo (env (hc.c.insts i).name (hc.c.nextAtt (hc.c.insts i).name))
        (henv (hc.c.insts i).name (hc.c.nextAtt (hc.c.insts i).name)) (hc.c.insts i) (hc.hop i) ml I' H' →
      HMonRun tmo env henv i ⟨hc.c.applyMon i ml I', upd hc.hop i H'⟩ mls hc'' →
      HMonRun tmo env henv i hc (ml :: mls) hc''

theorem HMonRun.append {i : Nat} {hc hc₁ hc₂ : HCfg} {a b : List MLabel} (h₁ : HMonRun tmo env henv i hc a hc₁)
    (h₂ : HMonRun tmo env henv i hc₁ b hc₂) : HMonRun tmo env henv i hc (a ++ b) hc₂ := by
  induction h₁ with
  | nil => exact h₂
  | cons hm _ ih => exact .cons hm (ih h₂)

/-- A hop-level monitor run is a run of the hop-level LTS. -/
theorem HMonRun.toHRun {i : Nat} {hc hc' : HCfg} {mls : List MLabel} (h : HMonRun tmo env henv i hc mls hc') :
    ∃ ls, HRun tmo env henv hc ls hc' ∧ ls.length = mls.length := by
  induction h with
  | nil hc => exact ⟨[], .nil hc, rfl⟩
  | cons hm _ ih =>
    obtain ⟨ls, hr, hl⟩ := ih
    exact ⟨_ :: ls, .cons (.mon _ hm) hr, by simp [hl]⟩

theorem hmonStep_name_eq {next : Attempt} {nextH : HopScript} {I I' : Inst} {H H' : HopSt} {l : MLabel}
    (h : HMonStep tmo next nextH I H l I' H') : I'.name = I.name := by
  cases h with
  | lift hm _ _ _ => exact hm.name_eq
  | begin_ hm => exact hm.name_eq
  | enter hm _ => exact hm.name_eq
  | _ => rfl

/-- What a hop-level monitor run changes of the manager configuration: the trace of its name (by the
callbacks made) and its script position (by the attempts begun); not the managed set. -/
theorem HMonRun.facts {i : Nat} {hc hc' : HCfg} {mls : List MLabel} (h : HMonRun tmo env henv i hc mls hc') :
    hc'.c.targets = hc.c.targets ∧ hc'.c.lock = hc.c.lock ∧
    (hc'.c.insts i).name = (hc.c.insts i).name ∧
    hc'.c.trace (hc.c.insts i).name = hc.c.trace (hc.c.insts i).name ++ C13Prog.evs mls ∧
    hc'.c.nextAtt (hc.c.insts i).name = hc.c.nextAtt (hc.c.insts i).name + mls.count .begin_ := by
  induction h with
  | nil hc => simp
  | @cons hc hc'' ml I' H' mls hm _ ih =>
    obtain ⟨h1, h2, h3, h4, h5⟩ := ih
    have hI : (hc.c.applyMon i ml I').insts i = I' := by simp
    have hne := hmonStep_name_eq hm
    simp only [hI, hne] at h3 h4 h5
    refine ⟨by simpa using h1, by simpa using h2, h3, ?_, ?_⟩
    · rw [h4, applyMon_trace]
      cases ml <;> simp
    · rw [h5, applyMon_nextAtt]
      cases ml <;> simp <;> omega

theorem evs_taus {l : List MLabel} (h : ∀ m ∈ l, m = .tau) : C13Prog.evs l = [] := by
  induction l with
  | nil => rfl
  | cons a l ih =>
    have := h a (by simp)
    subst this
    simpa using ih (fun m hm => h m (List.mem_cons_of_mem _ hm))

theorem count_taus {l : List MLabel} (h : ∀ m ∈ l, m = .tau) : l.count .begin_ = 0 := by
  rw [List.count_eq_zero]
  intro hb
  cases h _ hb

/-- The sequential schedule of `createConn` as a run of the hop-level LTS. -/
theorem hopRun_run (i : Nat) (fuel : Nat) : ∀ (hc : HCfg), ∃ mls hc', HMonRun tmo env henv i hc mls hc' ∧
    (∀ m ∈ mls, m = .tau) ∧ mls.length ≤ fuel ∧
    hc'.c.insts i = (hopRun tmo fuel (hc.c.insts i) (hc.hop i)).1 ∧
    hc'.hop i = (hopRun tmo fuel (hc.c.insts i) (hc.hop i)).2 := by
  induction fuel with
  | zero => intro hc; exact ⟨[], hc, .nil hc, by simp, by simp, rfl, rfl⟩
  | succ f ih =>
    intro hc
    cases hn : hopNext tmo (hc.c.insts i) (hc.hop i) with
    | none => exact ⟨[], hc, .nil hc, by simp, by simp, by simp [hopRun, hn], by simp [hopRun, hn]⟩
    | some p =>
      obtain ⟨I', H'⟩ := p
      obtain ⟨mls, hc', hr, ht, hl, e1, e2⟩ := ih ⟨hc.c.applyMon i .tau I', upd hc.hop i H'⟩
      refine ⟨.tau :: mls, hc', .cons (hopNext_sound hn) hr, ?_, by simp; omega, ?_, ?_⟩
      · intro m hm
        rcases List.mem_cons.mp hm with h | h
        · exact h
        · exact ht m h
      · simpa [hopRun, hn] using e1
      · simpa [hopRun, hn] using e2

/-- What "the stream is ended by exactly one `Reset` and a new attempt is made **whose `createConn`
has returned**" means, between hop-level configurations `hc` and `hc'`. -/
structure NewAttempt (tmo : Bool) (env : Name → Nat → Attempt) (henv : Name → Nat → HopScript)
    (hc : HCfg) (n : Name) (i : Nat) (hc' : HCfg) : Prop where
  /-- the callbacks of `n` in between: one `Reset`, `ConnectError`, `MonitorError` -/
  trace : hc'.c.trace n = hc.c.trace n ++ [.reset, .connectError, .monitorError]
  /-- one more attempt was started: the next entry of the script -/
  nextAtt : hc'.c.nextAtt n = hc.c.nextAtt n + 1
  managed : hc'.c.targets n = some i
  cur : (hc'.c.insts i).cur = env n (hc.c.nextAtt n)
  /-- the credentials lookup of that attempt failed: `createConn` is not called, `monitor` returns -/
  noDial : env n (hc.c.nextAtt n) = .metaErr → (hc'.c.insts i).pc = .connErr 0 false false
  /-- otherwise `createConn` was called **and has returned**: it made the `Connection` calls the
  function `createConn` computes from the attempt's iteration order and outcome script on a live
  context (every hop call returned), cancelled every timeout context, and `monitor` goes on with the
  connection (`Pc.open_`) or returns the error -/
  dialled : env n (hc.c.nextAtt n) ≠ .metaErr →
    (hc'.hop i).calls =
      (createConn tmo (henv n (hc.c.nextAtt n)).order (henv n (hc.c.nextAtt n)).out (fun _ => false)).calls ∧
    (hc'.hop i).defers =
      (createConn tmo (henv n (hc.c.nextAtt n)).order (henv n (hc.c.nextAtt n)).out (fun _ => false)).defers ∧
    (hc'.c.insts i).pc =
      if (createConn tmo (henv n (hc.c.nextAtt n)).order (henv n (hc.c.nextAtt n)).out (fun _ => false)).ret.isConn
      then .open_ else .connErr 0 false false

/-- one step, and what it leaves in slot `i` -/
theorem HMonRun.one {i : Nat} {hc : HCfg} {ml : MLabel} {I' : Inst} {H' : HopSt}
    (hm : HMonStep tmo (env (hc.c.insts i).name (hc.c.nextAtt (hc.c.insts i).name))
      (henv (hc.c.insts i).name (hc.c.nextAtt (hc.c.insts i).name)) (hc.c.insts i) (hc.hop i) ml I' H') :
    ∃ hc', HMonRun tmo env henv i hc [ml] hc' ∧ hc'.c.insts i = I' ∧ hc'.hop i = H' :=
  ⟨⟨hc.c.applyMon i ml I', upd hc.hop i H'⟩, .cons hm (.nil _), by simp, by simp⟩

/-- **Core.**  The context of a `Recv` in progress is cancelled (the target managed, no `Remove` of it
under way): steps of its goroutine alone end the stream with one `Reset`, report the error, start
the next scripted attempt on a fresh context, and take it through `createConn` to its return. -/
theorem cancelled_leads_to_new_attempt (ha : EnvAgree tmo env henv) {hc : HCfg} {g : Ghost}
    (h : HReach tmo env henv hc g) {n : Name} {i : Nat} (ht : hc.c.targets n = some i)
    (hl : hc.c.lock ≠ some i) {j : Nat} {cn : Bool} (hp : (hc.c.insts i).pc = .recv j cn)
    (hd : (hc.c.insts i).ctxDone = true) :
    ∃ mls hc', HMonRun tmo env henv i hc mls hc' ∧ NewAttempt tmo env henv hc n i hc' := by
  have hr := HReach.reach ha h
  have hn : (hc.c.insts i).name = n := ((inv_reach hr).tgt n i ht).1
  have hcanc := (C13.monitor_alive hr ht hl).1
  -- `Recv` fails, `Reset`, `ConnectError`, `MonitorError`
  obtain ⟨hc1, r1, e1, f1⟩ := HMonRun.one (tmo := tmo) (env := env) (henv := henv) (i := i) (hc := hc)
    (.lift (.recvCancel hp hd) (by rw [hp]; simp) (by simp) (by simp))
  obtain ⟨hc2, r2, e2, f2⟩ := HMonRun.one (tmo := tmo) (env := env) (henv := henv) (i := i) (hc := hc1)
    (.lift (.resetCb (j := j) (c := cn) (by rw [e1])) (by rw [e1]; simp) (by simp) (by simp))
  obtain ⟨hc3, r3, e3, f3⟩ := HMonRun.one (tmo := tmo) (env := env) (henv := henv) (i := i) (hc := hc2)
    (.lift (.connErrCb (j := j) (c := cn) (r := true) (by rw [e2])) (by rw [e2]; simp) (by simp) (by simp))
  obtain ⟨hc4, r4, e4, f4⟩ := HMonRun.one (tmo := tmo) (env := env) (henv := henv) (i := i) (hc := hc3)
    (.lift (.monErrCb (j := j) (c := cn) (r := true) (by rw [e3])) (by rw [e3]; simp) (by simp) (by simp))
  have d4 : (hc4.c.insts i).ctxDone = true ∧ (hc4.c.insts i).cancelled = false ∧ (hc4.c.insts i).name = n := by
    rw [e4, e3, e2, e1]; exact ⟨hd, hcanc, hn⟩
  -- the timer arm: the next scripted attempt, on a fresh sub-context
  obtain ⟨hc5, r5, e5, f5⟩ := HMonRun.one (tmo := tmo) (env := env) (henv := henv) (i := i) (hc := hc4)
    (.begin_ (.timerFire (by rw [e4])))
  have r15 := r1.append (r2.append (r3.append (r4.append r5)))
  have fa := r15.facts
  rw [hn] at fa
  simp only [List.cons_append, List.nil_append, C13Prog.evs_cons, C13Prog.evs_nil, List.append_nil] at fa
  obtain ⟨fa1, fa2, fa3, fa4, fa5⟩ := fa
  have fb := (r1.append (r2.append (r3.append r4))).facts
  rw [hn] at fb
  have hna4 : hc4.c.nextAtt n = hc.c.nextAtt n := by simpa using fb.2.2.2.2
  rw [d4.2.2, hna4] at e5 f5
  have pc5 : (hc5.c.insts i).pc = .gmeta := by rw [e5]
  have cur5 : (hc5.c.insts i).cur = env n (hc.c.nextAtt n) := by rw [e5]
  have live5 : (hc5.c.insts i).ctxDone = false := by
    rw [e5, d4.1]; simp [Inst.ctxDone, Inst.freshSub, d4.2.1]
  have n5 : (hc5.c.insts i).name = n := by rw [fa3]
  have htr : hc5.c.trace n = hc.c.trace n ++ [.reset, .connectError, .monitorError] := by simpa using fa4
  have hnx : hc5.c.nextAtt n = hc.c.nextAtt n + 1 := by simpa using fa5
  by_cases hme : env n (hc.c.nextAtt n) = .metaErr
  · -- the credentials lookup fails
    obtain ⟨hc6, r6, e6, f6⟩ := HMonRun.one (tmo := tmo) (env := env) (henv := henv) (i := i) (hc := hc5)
      (.lift (.metaFail pc5 (.inl (by rw [cur5]; exact hme))) (by rw [pc5]; simp) (by simp) (by simp))
    have fc := r6.facts
    rw [n5] at fc
    refine ⟨_, hc6, r15.append r6, ?_, ?_, ?_, ?_, fun _ => by rw [e6], fun hne => absurd hme hne⟩
    · rw [fc.2.2.2.1, htr]; simp
    · rw [fc.2.2.2.2, hnx]; simp
    · rw [fc.1, fa1]; exact ht
    · rw [e6]; exact cur5
  · -- `monitor` calls `createConn`; the sequential schedule takes it to its return
    obtain ⟨hc6, r6, e6, f6⟩ := HMonRun.one (tmo := tmo) (env := env) (henv := henv) (i := i) (hc := hc5)
      (.enter (.metaOk pc5 (by rw [cur5]; exact hme)) rfl)
    have pc6 : (hc6.c.insts i).pc = .dial := by rw [e6]
    have live6 : (hc6.c.insts i).ctxDone = false := by rw [e6]; exact live5
    have hs6 : (hc5.hop i).script = henv n (hc.c.nextAtt n) := by rw [f5]
    obtain ⟨mls, hc7, r7, htau, _, e7, f7⟩ := hopRun_run (tmo := tmo) (env := env) (henv := henv) i
      (2 * (henv n (hc.c.nextAtt n)).order.length + 1) hc6
    have hcc := hopRun_createConn (tmo := tmo) pc6 (hc5.hop i)
      (2 * (henv n (hc.c.nextAtt n)).order.length + 1) (by rw [hs6]; omega)
    rw [f6] at e7 f7
    rw [← e7, ← f7, live6, hs6] at hcc
    have fc := (r6.append r7).facts
    rw [n5] at fc
    have ht6 : ∀ m ∈ ([MLabel.tau] ++ mls), m = .tau := by
      intro m hm
      rcases List.mem_cons.mp (by simpa using hm) with h | h
      · exact h
      · exact htau m h
    refine ⟨_, hc7, r15.append (r6.append r7), ?_, ?_, ?_, ?_, fun hm => absurd hm hme, fun _ => ⟨hcc.1, hcc.2.1, ?_⟩⟩
    · rw [fc.2.2.2.1, htr, evs_taus ht6]; simp
    · rw [fc.2.2.2.2, hnx, count_taus ht6]
    · rw [fc.1, fa1]; exact ht
    · rw [hcc.2.2]; unfold afterRet; split
      · rw [e6]; exact cur5
      · rw [e6]; exact cur5
    · rw [hcc.2.2]; unfold afterRet; split <;> rfl

theorem HRun.append' {hc hc₁ hc₂ : HCfg} {a b : List Label} (h₁ : HRun tmo env henv hc a hc₁)
    (h₂ : HRun tmo env henv hc₁ b hc₂) : HRun tmo env henv hc (a ++ b) hc₂ := by
  induction h₁ with
  | nil => exact h₂
  | cons hs _ ih => exact .cons hs (ih h₂)

/-- The steps of C13Prog's stages that belong to a target sitting in `Recv` and leave it there (the
receive timer firing, the pending `Reconnect`'s lookup and effect) are steps of the hop-level LTS
that leave every `createConn` state alone. -/
theorem ownStep_lift {hc : HCfg} {i : Nat} {l : Label} {c' : Cfg}
    (hs : C13Prog.OwnStep env i hc.c l c') {j : Nat} {cn : Bool} (hp : (hc.c.insts i).pc = .recv j cn)
    (hp' : (c'.insts i).pc = .recv j cn) : HStep tmo env henv hc l ⟨c', hc.hop⟩ := by
  have hstep := hs.step
  cases hs with
  | mon hm =>
    simp only [applyMon_insts, upd_same] at hp'
    exact absurd (hp'.trans hp.symm) (monStep_pc_ne hm)
  | tmo j' cn' _ _ =>
    refine .other hstep fun k _ => ?_
    by_cases hk : k = i
    · subst hk; simp
    · simp [upd_apply, hk]
  | lookup l₁ l₂ _ _ _ => exact .other hstep fun k _ => rfl
  | apply l₁ l₂ _ =>
    refine .other hstep fun k _ => ?_
    by_cases hk : k = i
    · subst hk; simp [Inst.applyRecon_pc]
    · simp [upd_apply, hk]

theorem NewAttempt.rebase {hc hc₁ hc' : HCfg} {n : Name} {i : Nat} (h1 : hc₁.c.trace n = hc.c.trace n)
    (h2 : hc₁.c.nextAtt n = hc.c.nextAtt n) (h : NewAttempt tmo env henv hc₁ n i hc') :
    NewAttempt tmo env henv hc n i hc' := by
  obtain ⟨a, b, c, d, e, f⟩ := h
  rw [h1] at a
  rw [h2] at b d e f
  exact ⟨a, b, c, d, e, f⟩

/-- **Full statement (not proved here).**  As `C13Prog.timeout_forces_reset`: the target is managed and
no `Remove` *of it* is under way (`lock ≠ some i` — a `Remove` of **another** target may hold `m.mu`, and
must first be let return: `C13Prog.release_lock`, whose run takes that other target's goroutine through
*its* `createConn` on a cancelled context).  Proved below with `m.mu` free
(`timeout_leads_to_new_attempt_partial`); missing: `release_lock` at hop level (the removed goroutine
leaves its hop loop through `ctxErr` / failing calls — `dial_returns` gives the run, the composition with
the rank argument of `C13Prog.remove_wait_run` is not done). -/
def TimeoutLeadsToNewAttempt (tmo : Bool) (env : Name → Nat → Attempt) (henv : Name → Nat → HopScript) : Prop :=
  ∀ (hc : HCfg) (g : Ghost) (n : Name) (i j : Nat) (cn : Bool), HReach tmo env henv hc g →
    hc.c.targets n = some i → hc.c.lock ≠ some i → (hc.c.insts i).pc = .recv j cn →
    (hc.c.insts i).tmoWaiting = true →
    ∃ ls hc', HRun tmo env henv hc ls hc' ∧ NewAttempt tmo env henv hc n i hc'

/-- **Full statement (not proved here)** of `reconnect_leads_to_new_attempt_partial`, see
`TimeoutLeadsToNewAttempt`. -/
def ReconnectLeadsToNewAttempt (tmo : Bool) (env : Name → Nat → Attempt) (henv : Name → Nat → HopScript) : Prop :=
  ∀ (hc : HCfg) (g : Ghost) (n : Name) (i j : Nat) (cn : Bool), HReach tmo env henv hc g →
    hc.c.targets n = some i → hc.c.lock ≠ some i → (hc.c.insts i).pc = .recv j cn → n ∈ hc.c.byName →
    ∃ ls hc', HRun tmo env henv hc ls hc' ∧ NewAttempt tmo env henv hc n i hc'

/-- **`reconnect_leads_to_new_attempt_partial`** (`C13Prog.reconnect_forces_reset` through the multi-hop
dial).  An `m.Reconnect(n)` is pending — issued by the receive-timeout goroutine or by anybody —
while the goroutine of the managed target `n` is in `Recv`, and `m.mu` is free.  Then some run of the
hop-level LTS (the `Reconnect`'s lookup and effect, then steps of that goroutine alone) ends the
stream with **exactly one `Reset`** (then `ConnectError`, `MonitorError`), starts the next scripted
attempt and takes it **through `createConn` to its return**: every hop of the attempt's iteration
order is tried in turn until one answers, each `Connection` call returns (the hypothesis on the
`ConnectionManager`, built into the rules), the calls made are those of the function `createConn`
(section 2), and `monitor` continues with the connection or with the error. -/
theorem reconnect_leads_to_new_attempt_partial (ha : EnvAgree tmo env henv) {hc : HCfg} {g : Ghost}
    (h : HReach tmo env henv hc g) {n : Name} {i : Nat} (ht : hc.c.targets n = some i)
    (hlk : hc.c.lock = none) {j : Nat} {cn : Bool} (hp : (hc.c.insts i).pc = .recv j cn)
    (hb : n ∈ hc.c.byName) :
    ∃ ls hc', HRun tmo env henv hc ls hc' ∧ NewAttempt tmo env henv hc n i hc' := by
  have hr := HReach.reach ha h
  -- the lookup
  obtain ⟨c₁, hs1, sb1, hbp, hlk1⟩ := C13Prog.lookup_stage hr ht hb hlk
  have hp1 : (c₁.insts i).pc = .recv j cn := by rw [sb1.pc]; exact hp
  have s1 := ownStep_lift (tmo := tmo) (henv := henv) hs1 hp hp1
  have h1 := HReach.step h s1
  have hr1 : Reach env c₁ := HReach.reach ha h1
  -- the effect: the sub-context is cancelled
  obtain ⟨c₂, hs2, sb2, hd2, hlk2⟩ := C13Prog.apply_stage (env := env) hr1 hbp (by rw [hp1]; simp) n
  have hp2 : (c₂.insts i).pc = .recv j cn := by rw [sb2.pc]; exact hp1
  have s2 := ownStep_lift (tmo := tmo) (henv := henv) (hc := ⟨c₁, hc.hop⟩) hs2 hp1 hp2
  have h2 := HReach.step h1 s2
  -- the goroutine on its own
  obtain ⟨mls, hc', hrun, hna⟩ := cancelled_leads_to_new_attempt ha h2 (n := n) (i := i)
    (by show c₂.targets n = some i; rw [sb2.targets, sb1.targets]; exact ht)
    (by show c₂.lock ≠ some i; rw [hlk2, hlk1, hlk]; simp) hp2 hd2
  obtain ⟨ls, hrun', _⟩ := hrun.toHRun
  refine ⟨_, hc', .cons s1 (.cons s2 hrun'), hna.rebase ?_ ?_⟩
  · show c₂.trace n = hc.c.trace n; rw [sb2.trace, sb1.trace]
  · show c₂.nextAtt n = hc.c.nextAtt n; rw [sb2.nextAtt, sb1.nextAtt]

/-- **`timeout_leads_to_new_attempt_partial`** (`C13Prog.timeout_forces_reset` through the multi-hop dial).
The target is managed, its goroutine is in `Recv`, the receive timer is armed and `m.mu` is free.
Then the timer can fire and from there some run of the hop-level LTS — the timeout goroutine's
`m.Reconnect`, then the target's own goroutine — leads to exactly one `Reset` and to a new attempt
whose `createConn` has returned (see `reconnect_leads_to_new_attempt_partial`).  Partial: `m.mu` free
(`TimeoutLeadsToNewAttempt` is the full statement). -/
theorem timeout_leads_to_new_attempt_partial (ha : EnvAgree tmo env henv) {hc : HCfg} {g : Ghost}
    (h : HReach tmo env henv hc g) {n : Name} {i : Nat} (ht : hc.c.targets n = some i)
    (hlk : hc.c.lock = none) {j : Nat} {cn : Bool} (hp : (hc.c.insts i).pc = .recv j cn)
    (hw : (hc.c.insts i).tmoWaiting = true) :
    ∃ ls hc', HRun tmo env henv hc ls hc' ∧ NewAttempt tmo env henv hc n i hc' := by
  have hr := HReach.reach ha h
  have hn : (hc.c.insts i).name = n := ((inv_reach hr).tgt n i ht).1
  obtain ⟨c₁, hs1, sb1, hb, hlk1⟩ := C13Prog.tmo_stage (env := env) hp hw n
  rw [hn] at hb
  have hp1 : (c₁.insts i).pc = .recv j cn := by rw [sb1.pc]; exact hp
  have s1 := ownStep_lift (tmo := tmo) (henv := henv) hs1 hp hp1
  have h1 := HReach.step h s1
  obtain ⟨ls, hc', hrun, hna⟩ := reconnect_leads_to_new_attempt_partial ha h1 (n := n) (i := i)
    (by show c₁.targets n = some i; rw [sb1.targets]; exact ht)
    (by show c₁.lock = none; rw [hlk1]; exact hlk) hp1 hb
  exact ⟨_, hc', .cons s1 hrun, hna.rebase sb1.trace sb1.nextAtt⟩

end runform

/-! ## 5c. `createConn` returns, from every reachable configuration -/

section returns
variable {tmo : Bool} {env : Name → Nat → Attempt} {henv : Name → Nat → HopScript}

/-- **`dial_returns`.**  From every reachable hop-level configuration in which a goroutine is inside
`createConn`, at most `2·(keys to come) + 1` steps **of that goroutine alone** (the `select`s and
the `Connection` calls, each of which returns) take it out of `createConn`: `monitor` goes on with
a connection (`Pc.open_`) or returns the error (`Pc.connErr`); no callback is made and no attempt is
started on the way. -/
theorem dial_returns (ha : EnvAgree tmo env henv) {hc : HCfg} {g : Ghost} (h : HReach tmo env henv hc g)
    {i : Nat} (hp : (hc.c.insts i).pc = .dial) :
    ∃ mls hc', HMonRun tmo env henv i hc mls hc' ∧ (∀ m ∈ mls, m = .tau) ∧
      mls.length ≤ 2 * (hc.hop i).todo.length + 2 ∧
      ((hc'.c.insts i).pc = .open_ ∨ (hc'.c.insts i).pc = .connErr 0 false false) := by
  obtain ⟨mls, hc', hrun, htau, hlen, e1, _⟩ := hopRun_run (tmo := tmo) (env := env) (henv := henv) i
    (2 * (hc.hop i).todo.length + 2) hc
  refine ⟨mls, hc', hrun, htau, hlen, ?_⟩
  rw [e1]
  exact hopRun_returns _ hp (((HReach.greach ha h).2 i).more hp) (by unfold hrank; split <;> omega)

end returns

/-! ## Non-vacuity: a concrete reachable hop-level configuration -/

section examples

/-- The goroutine's next step at hop level under the sequential schedule. -/
def hmonNext (tmo : Bool) (next : Attempt) (nextH : HopScript) (I : Inst) (H : HopSt) :
    Option (MLabel × Inst × HopSt) :=
  if I.pc = .dial then (hopNext tmo I H).map fun p => (.tau, p.1, p.2)
  else match monNext next I with
    | none => none
    | some (l, I') =>
      if l = .begin_ then some (l, I', { H with script := nextH })
      else if I'.pc = .dial then some (l, I', H.enter)
      else some (l, I', H)

theorem hmonNext_sound {tmo : Bool} {next : Attempt} {nextH : HopScript} {I I' : Inst} {H H' : HopSt} {l : MLabel}
    (h : hmonNext tmo next nextH I H = some (l, I', H')) : HMonStep tmo next nextH I H l I' H' := by
  unfold hmonNext at h
  split at h
  · cases hn : hopNext tmo I H with
    | none => simp [hn] at h
    | some p =>
      simp only [hn, Option.map_some, Option.some.injEq, Prod.mk.injEq] at h
      obtain ⟨rfl, rfl, rfl⟩ := h
      exact hopNext_sound hn
  · next hnd =>
    split at h
    · cases h
    · next l₀ I₀ hm =>
      have hm' := monNext_sound hm
      split at h
      · next hl =>
        simp only [Option.some.injEq, Prod.mk.injEq] at h
        obtain ⟨rfl, rfl, rfl⟩ := h
        subst hl
        exact .begin_ hm'
      · next hl =>
        split at h
        · next hd =>
          simp only [Option.some.injEq, Prod.mk.injEq] at h
          obtain ⟨rfl, rfl, rfl⟩ := h
          exact .enter hm' hd
        · next hd =>
          simp only [Option.some.injEq, Prod.mk.injEq] at h
          obtain ⟨rfl, rfl, rfl⟩ := h
          exact .lift hm' hnd hd hl

/-- A hop-level configuration together with the proof that the hop-level LTS reaches it. -/
structure HRCfg (tmo : Bool) (env : Name → Nat → Attempt) (henv : Name → Nat → HopScript) where
  hc : HCfg
  g : Ghost
  reach : HReach tmo env henv hc g

def HRCfg.mon {tmo : Bool} {env : Name → Nat → Attempt} {henv : Name → Nat → HopScript}
    (r : HRCfg tmo env henv) (i : Nat) : Option (HRCfg tmo env henv) :=
  match h : hmonNext tmo (env (r.hc.c.insts i).name (r.hc.c.nextAtt (r.hc.c.insts i).name))
      (henv (r.hc.c.insts i).name (r.hc.c.nextAtt (r.hc.c.insts i).name)) (r.hc.c.insts i) (r.hc.hop i) with
  | some (l, I', H') => some ⟨⟨r.hc.c.applyMon i l I', upd r.hc.hop i H'⟩, _, .step r.reach (.mon i (hmonNext_sound h))⟩
  | none => none

def HRCfg.add {tmo : Bool} {env : Name → Nat → Attempt} {henv : Name → Nat → HopScript}
    (ha : EnvAgree tmo env henv) (r : HRCfg tmo env henv) (n : Name) (rt : Bool) : Option (HRCfg tmo env henv) :=
  if h : r.hc.c.lock = none ∧ r.hc.c.targets n = none then
    some ⟨⟨_, r.hc.hop⟩, _, .step r.reach (.other (.add n rt h.1 h.2) (by
      intro k hk
      by_cases hkn : k = r.hc.c.nInst
      · exfalso; apply hk
        rw [(inv_reach (HReach.reach ha r.reach)).fresh k (by omega)]; rfl
      · simp [upd_apply, hkn]))⟩
  else none

/-- target `t`, first attempt: two next hops, `a` refuses, `b` answers, then a silent stream; every
other attempt fails to dial (no hop answers) -/
def exEnv : Name → Nat → Attempt := fun n k => if n = "t" ∧ k = 0 then .stream [] .silence else .dialFail
def exHenv : Name → Nat → HopScript := fun n k =>
  if n = "t" ∧ k = 0 then { order := ["a", "b"], out := fun h => if h = "a" then .fail else .ok } else {}

theorem exAgree : EnvAgree true exEnv exHenv := by
  intro n k
  unfold exEnv exHenv Agree
  split
  · intro _; simp [HopScript.AllFail, hopRes]
  · intro _; simp [HopScript.AllFail]

/-- `Add`; `reconnectCtx`; the timer fires; credentials; `createConn`: `select`, hop `a` fails,
`select`, hop `b` answers; the stream is opened; the request is sent; `Recv` -/
def exRecv : Option (HRCfg true exEnv exHenv) := do
  let r ← (⟨HCfg.init, Ghost.init, .init⟩ : HRCfg true exEnv exHenv).add exAgree "t" true
  let r ← r.mon 0
  let r ← r.mon 0
  let r ← r.mon 0
  let r ← r.mon 0
  let r ← r.mon 0
  let r ← r.mon 0
  let r ← r.mon 0
  let r ← r.mon 0
  r.mon 0

/-- The hypotheses of `timeout_leads_to_new_attempt_partial` (and of `hops_ledger`, `hops_held_le_one`) are
met by a reachable configuration: the target is managed, `m.mu` free, its goroutine in `Recv` with the
receive timer armed — after a `createConn` that tried two hops and acquired exactly one handle. -/
example : ∃ hc g, HReach true exEnv exHenv hc g ∧ hc.c.targets "t" = some 0 ∧ hc.c.lock = none ∧
    (hc.c.insts 0).pc = .recv 0 false ∧ (hc.c.insts 0).tmoWaiting = true ∧
    (hc.hop 0).calls = [("a", .failed), ("b", .connected)] ∧ (hc.hop 0).defers = [1, 0] ∧
    (hc.hop 0).acq = 1 ∧ g 0 = [0] :=
  ⟨_, _, (exRecv.get (by decide)).reach, by decide, by decide, by decide, by decide, by decide, by decide,
    by decide, by decide⟩

/-- … and a goroutine in the middle of `createConn` (hypothesis of `dial_returns`,
`hops_each_hop_once`): hop `a` has failed, `b` is to come, nothing is held -/
def exDial : Option (HRCfg true exEnv exHenv) := do
  let r ← (⟨HCfg.init, Ghost.init, .init⟩ : HRCfg true exEnv exHenv).add exAgree "t" true
  let r ← r.mon 0
  let r ← r.mon 0
  let r ← r.mon 0
  let r ← r.mon 0
  r.mon 0

example : ∃ hc g, HReach true exEnv exHenv hc g ∧ (hc.c.insts 0).pc = .dial ∧
    (hc.hop 0).calls = [("a", .failed)] ∧ (hc.hop 0).todo = ["b"] ∧ (hc.hop 0).acq = 0 ∧ g 0 = [] :=
  ⟨_, _, (exDial.get (by decide)).reach, by decide, by decide, by decide, by decide, by decide⟩

end examples

end Gnmi.C13Hops
