import Gnmi.Props.C15WireLeaves
/-!
# C15, latency clause: two runs that agree on the data leaves keep agreeing

`C15WireLeaves.runX_data_agrees` (a `def … : Prop`) says that the latency wiring never changes what data
subscribers see.  The step-level halves were there (`Cache.stepX_s`, `refresh_outside_latency_agrees`);
what was missing is a relation between the targets of the two runs that a refresh establishes and that
every function of `Model/Cache.lean` preserves.  This file has:

* `AgreeOutside x t t'` — equal leaves at every path outside `meta/latency`, same sync flag, latest
  timestamp and name.  Established by one refresh from the *same* target (`refresh_agreeOutside`).
  It is **not** preserved by the next refresh: the counters of the two runs legitimately differ
  (`targetLeavesStale` after a latency leaf was written on a backwards clock step), and a refresh copies the
  counters into the leaves `meta/targetLeavesStale`, … which are outside `meta/latency`.
* `AgreeData t t'` — what *is* preserved: equal data leaves (`dataPart`: every key whose first element is
  not `meta`, in storage order), same latest timestamp and name; the sync flag, counters, metadata values
  and every leaf under `meta/` may differ.  (The sync flag is left out: `Model/Cache.lean` never reads it,
  and a refresh re-derives it from the metadata value `sync` and the leaf `meta/sync`, which the relation
  does not track.)
* congruence lemmas (same input, related targets ⇒ same result class, same returned leaf / `updateTS` flag,
  related targets): `updateCore_congr`, `gnmiUpdate1_congr`, `multiUpdates_congr`, `removeCore_congr` (any
  path: wildcard deletes and deletes under `meta` that also remove latency leaves), `gnmiRemove1_congr`,
  `multiDeletes_congr`, `dispatch_congr`, `gnmiUpdate_congr`, `checkTimestamp_congr`;
* everything stored under `meta/…` is invisible to the relation (one-sided `AgreeData (f t) t`):
  `updateCore_meta_agree`, `gnmiUpdate1_metaKey_agree`, `genMetaOne_agree`, `genLatOne_agree`,
  `generateMetaUpdates_agree`, `updateMeta_agree`, `updateMetaX_agree`, `refresh_agreeData`,
  `gnmiUpdate_metaNoti_agree` (`Sync`, `Connect`, `ConnectError`);
* `reset_congr` / `resetXX_congr` (`Reset`: the roots it deletes are determined by the data leaves, `roots_data`);
* the cache: `stepX_agree` (one API call — `Add`, `Remove`, `Reset`, `Sync`, `Connect`, `ConnectError`,
  `GnmiUpdate`, `UpdateMetadata` — on two wired caches with *any two* window configurations keeps their
  targets related), `runX_agree`, and **`runX_data_agrees_partial`**: the restricted form of
  `C15WireLeaves.runX_data_agrees` (data leaves and latest timestamp; `HistOutside` histories);
* `runX_data_agrees_false`: the unrestricted statement is false (decided witness `histMeta`,
  `histMeta_latest_differs`, `histMeta_not_outside`): a restriction on client updates under `meta/…` is necessary.

Restriction (`DataKeyed` / `HistOutside`): the congruences for updates are for notifications all of whose
updates are stored under a data key (first element of the joined path not `meta`).  For an update stored under
`meta/…` the acceptance depends on the leaf stored there (timestamp discipline) or around it (conflicts), and
those leaves differ between the runs — under `meta/latency/…` always, under `meta/<counter>` after a
backwards clock step — and in a multi-update notification whose first update is a data update the
acceptance of a later metadata update decides `updateTS`, i.e. the latest timestamp.  Deletes need no
restriction on the path (`PMap.delete` is a filter, it commutes with `dataPart`), only that stored leaves
carry an update (`TInvD.hasUpd`, an invariant of every reachable target), so that the panic arm is not
reached in either run.  This is stricter than "outside `meta/latency`" for updates (all of `meta/…` is
excluded) and laxer for deletes (none is excluded).
-/
namespace Gnmi.C15Wire
open Gnmi.Cache Gnmi.Acc Gnmi.Feed Gnmi.Latency

/-! ## 1. The relations -/

/-- equal outside `meta/latency`: same leaf at every path the latency loop cannot touch, same sync flag,
latest timestamp and name (counters and metadata values may differ) -/
def AgreeOutside (x : CfgX) (t t' : Target) : Prop :=
  (∀ K, OutsideLatency x K → lookup t.tree K = lookup t'.tree K) ∧
  t.sync = t'.sync ∧ t.latest = t'.latest ∧ t.name = t'.name

/-- **refresh_agreeOutside.**  One refresh from the same target: the wired refresh and the refresh of
`Model/Cache.lean` end in targets that agree outside `meta/latency`. -/
theorem refresh_agreeOutside {a b : Int} (cfg : Cfg) (x : CfgX) (enc : String → String) (now : Int)
    (emit : Bool) (t : Target) (l : LatSt) (hi : TInvD a b t) (hn : t.name ≠ "") :
    AgreeOutside x (t.updateMetaX cfg x enc now emit l).1.1 (t.updateMeta cfg enc now emit).1 :=
  refresh_outside_latency_agrees cfg x enc now emit t l hi hn

/-- same data leaves (in storage order), same latest timestamp and name; the sync flag, counters,
metadata values and the leaves under `meta/` may differ -/
structure AgreeData (t t' : Target) : Prop where
  data : dataPart t = dataPart t'
  latest : t.latest = t'.latest
  name : t.name = t'.name

theorem AgreeData.refl (t : Target) : AgreeData t t := ⟨rfl, rfl, rfl⟩
theorem AgreeData.symm {t t' : Target} (h : AgreeData t t') : AgreeData t' t :=
  ⟨h.data.symm, h.latest.symm, h.name.symm⟩
theorem AgreeData.trans {t t' t'' : Target} (h : AgreeData t t') (h' : AgreeData t' t'') : AgreeData t t'' :=
  ⟨h.data.trans h'.data, h.latest.trans h'.latest, h.name.trans h'.name⟩

/-- only the tree (its data part), the flag, the timestamp and the name matter -/
theorem AgreeData.of_fields {t t' : Target} (h1 : dataPart t = dataPart t')
    (h3 : t.latest = t'.latest) (h4 : t.name = t'.name) : AgreeData t t' := ⟨h1, h3, h4⟩

/-! ## 2. `dataPart` and the tree operations -/

abbrev isDataKV (kv : Path × Noti) : Bool := !isMetaKey kv.1

theorem dataPart_eq (t : Target) : dataPart t = t.tree.filter isDataKV := rfl

theorem lookup_filter_data (m : PMap Noti) (p : Path) (hp : isMetaKey p = false) :
    lookup (m.filter isDataKV) p = lookup m p := by
  unfold lookup
  congr 1
  induction m with
  | nil => rfl
  | cons kv m ih =>
    by_cases hk : isMetaKey kv.1 = true
    · have hne : (kv.1 == p) = false := by
        apply beq_false_of_ne; intro e; rw [e, hp] at hk; cases hk
      simp only [List.filter_cons, isDataKV, hk, Bool.not_true, Bool.false_eq_true, if_false, List.find?_cons, hne]
      exact ih
    · have hk' : isMetaKey kv.1 = false := by simpa using hk
      simp only [List.filter_cons, isDataKV, hk', Bool.not_false, if_true, List.find?_cons]
      cases kv.1 == p <;> simp only [ih]

theorem setLeaf_filter_data (m : PMap Noti) (p : Path) (n : Noti) :
    (setLeaf m p n).filter isDataKV = setLeaf (m.filter isDataKV) p n := by
  unfold setLeaf
  rw [List.filter_map]
  congr 1
  apply List.filter_congr
  intro kv _
  simp only [Function.comp, isDataKV]
  split <;> rfl

theorem conflicts_filter_data (m : PMap Noti) (h : String) (rest : Path) (hh : h ≠ metaRoot) :
    PMap.conflicts (m.filter isDataKV) (h :: rest) = PMap.conflicts m (h :: rest) := by
  unfold PMap.conflicts
  induction m with
  | nil => rfl
  | cons kv m ih =>
    by_cases hk : isMetaKey kv.1 = true
    · have : ((kv.1.isPrefixOf (h :: rest) || (h :: rest).isPrefixOf kv.1) && kv.1 != (h :: rest)) = false := by
        obtain ⟨k, v⟩ := kv
        cases k with
        | nil => simp [isMetaKey] at hk
        | cons k0 ks =>
          have e : k0 = metaRoot := by simpa [isMetaKey] using hk
          subst e
          have h1 : (metaRoot == h) = false := beq_false_of_ne (fun e => hh e.symm)
          have h2 : (h == metaRoot) = false := beq_false_of_ne hh
          simp [List.isPrefixOf, h1, h2]
      simp only [List.filter_cons, isDataKV, hk, Bool.not_true, Bool.false_eq_true, if_false, List.any_cons, this,
        Bool.false_or]
      exact ih
    · have hk' : isMetaKey kv.1 = false := by simpa using hk
      simp only [List.filter_cons, isDataKV, hk', Bool.not_false, if_true, List.any_cons, ih]

theorem add_filter_data (m : PMap Noti) (p : Path) (n : Noti) (hp : isMetaKey p = false) :
    (((p, n) :: m.filter (fun kv => kv.1 != p)) : PMap Noti).filter isDataKV =
      (p, n) :: (m.filter isDataKV).filter (fun kv => kv.1 != p) := by
  simp only [List.filter_cons, isDataKV, hp, Bool.not_false, if_true, List.filter_filter]
  congr 1
  apply List.filter_congr
  intro kv _
  exact Bool.and_comm _ _

theorem add_filter_meta (m : PMap Noti) (p : Path) (n : Noti) (hp : isMetaKey p = true) :
    (((p, n) :: m.filter (fun kv => kv.1 != p)) : PMap Noti).filter isDataKV = m.filter isDataKV := by
  simp only [List.filter_cons, isDataKV, hp, Bool.not_true, Bool.false_eq_true, if_false, List.filter_filter]
  apply List.filter_congr
  intro kv _
  by_cases hk : isMetaKey kv.1 = true
  · simp [hk]
  · have hk' : isMetaKey kv.1 = false := by simpa using hk
    have : (kv.1 != p) = true := by
      simp only [bne_iff_ne, ne_eq]; intro e; rw [e, hp] at hk'; cases hk'
    simp [hk', this]

theorem delete_filter_data (c : Noti → Bool) (m : PMap Noti) (q : Path) :
    (PMap.delete c m q).1.filter isDataKV =
      (m.filter isDataKV).filter (fun kv => !(qmatches q kv.1 && c kv.2)) := by
  simp only [PMap.delete, List.filter_filter]
  apply List.filter_congr
  intro kv _
  exact Bool.and_comm _ _

/-! ## 3. Updates -/

/-- **updateCore_congr.**  `gnmiUpdate` after the path checks, for a data key, from two related targets:
same result class, same returned leaf, related targets. -/
theorem updateCore_congr (cfg : Cfg) (now : Int) {t t' : Target} (hA : AgreeData t t') (h : String) (rest : Path)
    (hh : h ≠ metaRoot) (n : Noti) (u : Upd) :
    (updateCore cfg now t true (h :: rest) n u).1 = (updateCore cfg now t' true (h :: rest) n u).1 ∧
    (updateCore cfg now t true (h :: rest) n u).2.2 = (updateCore cfg now t' true (h :: rest) n u).2.2 ∧
    AgreeData (updateCore cfg now t true (h :: rest) n u).2.1 (updateCore cfg now t' true (h :: rest) n u).2.1 := by
  have hm : isMetaKey (h :: rest) = false := by
    simp only [isMetaKey]; exact beq_false_of_ne hh
  have hd : t.tree.filter isDataKV = t'.tree.filter isDataKV := hA.data
  have hl : lookup t.tree (h :: rest) = lookup t'.tree (h :: rest) := by
    rw [← lookup_filter_data t.tree _ hm, ← lookup_filter_data t'.tree _ hm, hd]
  have hc : PMap.conflicts t.tree (h :: rest) = PMap.conflicts t'.tree (h :: rest) := by
    rw [← conflicts_filter_data t.tree h rest hh, ← conflicts_filter_data t'.tree h rest hh, hd]
  have hset : (setLeaf t.tree (h :: rest) n).filter isDataKV = (setLeaf t'.tree (h :: rest) n).filter isDataKV := by
    rw [setLeaf_filter_data, setLeaf_filter_data, hd]
  unfold updateCore
  rw [hl, hA.latest]
  cases lookup t'.tree (h :: rest) with
  | some old =>
    simp only
    cases verdict cfg now t'.latest old n with
    | stale => exact ⟨rfl, rfl, hd, (by first | rfl | exact hA.latest), hA.name⟩
    | future => exact ⟨rfl, rfl, hd, (by first | rfl | exact hA.latest), hA.name⟩
    | accept =>
      simp only
      cases (n.atomic || old.atomic) with
      | true => exact ⟨rfl, rfl, hset, (by first | rfl | exact hA.latest), hA.name⟩
      | false =>
        simp only [Bool.false_eq_true, if_false]
        cases old.upd with
        | nil => exact ⟨rfl, rfl, hset, (by first | rfl | exact hA.latest), hA.name⟩
        | cons ou _ =>
          simp only
          cases (valueEqual ou.val u.val && cfg.eventDriven) with
          | true => exact ⟨rfl, rfl, hset, (by first | rfl | exact hA.latest), hA.name⟩
          | false => exact ⟨rfl, rfl, hset, (by first | rfl | exact hA.latest), hA.name⟩
  | none =>
    simp only [PMap.add, hc]
    cases PMap.conflicts t'.tree (h :: rest) with
    | true => exact ⟨rfl, rfl, hd, (by first | rfl | exact hA.latest), hA.name⟩
    | false =>
      refine ⟨rfl, rfl, ?_, (by first | rfl | exact hA.latest), hA.name⟩
      show (((h :: rest, n) :: t.tree.filter (fun kv => kv.1 != h :: rest)) : PMap Noti).filter isDataKV =
        (((h :: rest, n) :: t'.tree.filter (fun kv => kv.1 != h :: rest)) : PMap Noti).filter isDataKV
      rw [add_filter_data _ _ _ hm, add_filter_data _ _ _ hm, hd]

/-- the update is stored under a data key: the first element of the joined path is not `meta` -/
def dataKeyed (n : Noti) (u : Upd) : Prop :=
  ∀ h rest, updKey? n u = some (h :: rest) → h ≠ metaRoot

/-- **gnmiUpdate1_congr.**  `Target.gnmiUpdate` from two related targets, for a notification whose first
update is stored under a data key. -/
theorem gnmiUpdate1_congr (cfg : Cfg) (now : Int) {t t' : Target} (hA : AgreeData t t') (n : Noti)
    (hk : ∀ u, n.upd.head? = some u → dataKeyed n u) :
    (Target.gnmiUpdate1 cfg now t n).1 = (Target.gnmiUpdate1 cfg now t' n).1 ∧
    (Target.gnmiUpdate1 cfg now t n).2.2 = (Target.gnmiUpdate1 cfg now t' n).2.2 ∧
    AgreeData (Target.gnmiUpdate1 cfg now t n).2.1 (Target.gnmiUpdate1 cfg now t' n).2.1 := by
  unfold Target.gnmiUpdate1
  cases hu : n.upd with
  | nil => exact ⟨rfl, rfl, hA⟩
  | cons u us =>
    simp only
    have hk' := hk u (by rw [hu]; rfl)
    cases hq : updKey? n u with
    | none => exact ⟨rfl, rfl, hA⟩
    | some p =>
      cases p with
      | nil => exact ⟨rfl, rfl, hA⟩
      | cons h rest =>
        have hh := hk' h rest hq
        simp only [metaPre, hh, if_false]
        exact updateCore_congr cfg now hA h rest hh n u

/-! ## 4. Deletes -/

theorem resetMetaFor_agree (t : Target) (path : Path) : AgreeData (resetMetaFor t path) t := by
  unfold resetMetaFor
  split
  · split
    · exact ⟨rfl, rfl, rfl⟩
    · exact AgreeData.refl _
  · exact AgreeData.refl _

theorem removeCore_agree (t : Target) (ts : Int) (path : Path) :
    dataPart (removeCore t ts path).1 =
      (dataPart t).filter (fun kv => !(qmatches path kv.1 && olderThan ts kv.2)) ∧
    (removeCore t ts path).1.latest = t.latest ∧
    (removeCore t ts path).1.name = t.name := by
  obtain ⟨h1, h2, h3, _, _⟩ := removeCore_spec t ts path
  refine ⟨?_, h2, h3⟩
  rw [dataPart_eq, h1]; exact delete_filter_data _ _ _

/-- **removeCore_congr.**  `WalkDeleted` and its bookkeeping, for *any* path (wildcards, whole-target deletes,
deletes under `meta` that also remove latency leaves): the delete is a filter and commutes with `dataPart`. -/
theorem removeCore_congr {t t' : Target} (hA : AgreeData t t') (ts : Int) (path : Path) :
    AgreeData (removeCore t ts path).1 (removeCore t' ts path).1 := by
  obtain ⟨a1, a3, a4⟩ := removeCore_agree t ts path
  obtain ⟨b1, b3, b4⟩ := removeCore_agree t' ts path
  exact ⟨by rw [a1, b1, hA.data], by rw [a3, b3, hA.latest], by rw [a4, b4, hA.name]⟩

theorem gnmiRemove1_congr {t t' : Target} (hA : AgreeData t t') (n : Noti) :
    AgreeData (Target.gnmiRemove1 t n).1 (Target.gnmiRemove1 t' n).1 := by
  unfold Target.gnmiRemove1
  cases n.del with
  | nil => exact hA
  | cons d _ =>
    simp only
    cases joinKey? n d.path with
    | none => exact hA
    | some path =>
      exact removeCore_congr (((resetMetaFor_agree t path).trans hA).trans (resetMetaFor_agree t' path).symm) n.ts path

/-! ## 5. The loops, the switch, `Target.GnmiUpdate` -/

/-- every update of the notification is stored under a data key -/
def DataKeyed (n : Noti) : Prop := ∀ u ∈ n.upd, dataKeyed n u

structure AccAgree (acc acc' : MultiAcc) : Prop where
  anyErr : acc.anyErr = acc'.anyErr
  anyOk : acc.anyOk = acc'.anyOk
  panicked : acc.panicked = acc'.panicked
  t : AgreeData acc.t acc'.t

theorem multiUpdates_stop (cfg : Cfg) (now : Int) (hdr : Noti) (us : List Upd) (acc : MultiAcc)
    (h : acc.panicked = true) : multiUpdates cfg now hdr us acc = acc := by
  cases us <;> simp [multiUpdates, h]

theorem multiDeletes_stop (hdr : Noti) (ds : List Del) (acc : MultiAcc)
    (h : acc.panicked = true) : multiDeletes hdr ds acc = acc := by
  cases ds <;> simp [multiDeletes, h]

theorem multiUpdates_congr (cfg : Cfg) (now : Int) (hdr : Noti) : ∀ (us : List Upd) (acc acc' : MultiAcc),
    (∀ u ∈ us, dataKeyed { hdr with upd := [u], del := [] } u) → AccAgree acc acc' →
    AccAgree (multiUpdates cfg now hdr us acc) (multiUpdates cfg now hdr us acc')
  | [], _, _, _, h => by simpa [multiUpdates] using h
  | u :: us, acc, acc', hk, h => by
    obtain ⟨c1, c2, c3⟩ := gnmiUpdate1_congr cfg now h.t { hdr with upd := [u], del := [] }
      (by intro u' hu'
          simp only [List.head?_cons, Option.some.injEq] at hu'
          subst hu'; exact hk u (List.mem_cons_self ..))
    have hk' : ∀ u ∈ us, dataKeyed { hdr with upd := [u], del := [] } u :=
      fun u hu => hk u (List.mem_cons_of_mem _ hu)
    by_cases hp : acc.panicked = true
    · rw [multiUpdates_stop _ _ _ _ _ hp, multiUpdates_stop _ _ _ _ _ (by rw [← h.panicked]; exact hp)]
      exact h
    · have hp1 : acc.panicked = false := by simpa using hp
      have hp2 : acc'.panicked = false := by rw [← h.panicked]; exact hp1
      by_cases h1 : (Target.gnmiUpdate1 cfg now acc.t { hdr with upd := [u], del := [] }).1 = .panic
      · have h1' : (Target.gnmiUpdate1 cfg now acc'.t { hdr with upd := [u], del := [] }).1 = .panic := by
          rw [← c1]; exact h1
        simp only [multiUpdates, hp1, hp2, h1, h1', Bool.false_eq_true, if_false, if_true]
        exact ⟨h.anyErr, h.anyOk, rfl, c3⟩
      · have h1' : ¬ (Target.gnmiUpdate1 cfg now acc'.t { hdr with upd := [u], del := [] }).1 = .panic := by
          rw [← c1]; exact h1
        by_cases h2 : (Target.gnmiUpdate1 cfg now acc.t { hdr with upd := [u], del := [] }).1.isErr = true
        · have h2' : (Target.gnmiUpdate1 cfg now acc'.t { hdr with upd := [u], del := [] }).1.isErr = true := by
            rw [← c1]; exact h2
          simp only [multiUpdates, hp1, hp2, h1, h1', h2, h2', Bool.false_eq_true, if_false, if_true]
          exact multiUpdates_congr cfg now hdr us _ _ hk' ⟨rfl, h.anyOk, (by first | rfl | exact h.panicked), c3⟩
        · have h2' : ¬ (Target.gnmiUpdate1 cfg now acc'.t { hdr with upd := [u], del := [] }).1.isErr = true := by
            rw [← c1]; exact h2
          cases h3 : (Target.gnmiUpdate1 cfg now acc.t { hdr with upd := [u], del := [] }).2.2 with
          | none =>
            have h3' : (Target.gnmiUpdate1 cfg now acc'.t { hdr with upd := [u], del := [] }).2.2 = none := by
              rw [← c2]; exact h3
            simp only [multiUpdates, hp1, hp2, h1, h1', h2, h2', h3, h3', Bool.false_eq_true, if_false, if_true]
            exact multiUpdates_congr cfg now hdr us _ _ hk' ⟨h.anyErr, rfl, (by first | rfl | exact h.panicked), c3⟩
          | some nd =>
            have h3' : (Target.gnmiUpdate1 cfg now acc'.t { hdr with upd := [u], del := [] }).2.2 = some nd := by
              rw [← c2]; exact h3
            simp only [multiUpdates, hp1, hp2, h1, h1', h2, h2', h3, h3', Bool.false_eq_true, if_false, if_true]
            exact multiUpdates_congr cfg now hdr us _ _ hk' ⟨h.anyErr, rfl, (by first | rfl | exact h.panicked), c3.data, c3.latest, c3.name⟩

theorem multiDeletes_congr {a b a' b' : Int} (hdr : Noti) (hh : hdr.target ≠ "") :
    ∀ (ds : List Del) (acc acc' : MultiAcc), TInvD a b acc.t → TInvD a' b' acc'.t → AccAgree acc acc' →
    AccAgree (multiDeletes hdr ds acc) (multiDeletes hdr ds acc')
  | [], _, _, _, _, h => by simpa [multiDeletes] using h
  | d :: ds, acc, acc', hi, hi', h => by
    by_cases hp : acc.panicked = true
    · rw [multiDeletes_stop _ _ _ hp, multiDeletes_stop _ _ _ (by rw [← h.panicked]; exact hp)]
      exact h
    · have hp1 : acc.panicked = false := by simpa using hp
      have hp2 : acc'.panicked = false := by rw [← h.panicked]; exact hp1
      obtain ⟨c1, c2, _, _, _⟩ := gnmiRemove1_consequences
        { acc.t with md := { acc.t.md with updated := acc.t.md.updated + 1 } }
        { hdr with upd := [], del := [d] } (hi.with_md _ ⟨rfl, rfl, rfl⟩) (by simp) hh
      obtain ⟨c1', c2', _, _, _⟩ := gnmiRemove1_consequences
        { acc'.t with md := { acc'.t.md with updated := acc'.t.md.updated + 1 } }
        { hdr with upd := [], del := [d] } (hi'.with_md _ ⟨rfl, rfl, rfl⟩) (by simp) hh
      have hA := gnmiRemove1_congr
        (t := { acc.t with md := { acc.t.md with updated := acc.t.md.updated + 1 } })
        (t' := { acc'.t with md := { acc'.t.md with updated := acc'.t.md.updated + 1 } })
        ⟨h.t.data, h.t.latest, h.t.name⟩ { hdr with upd := [], del := [d] }
      unfold multiDeletes
      simp only [hp1, hp2, Bool.false_eq_true, if_false, c1, c1']
      exact multiDeletes_congr hdr hh ds _ _ c2 c2' ⟨h.anyErr, h.anyOk, (by first | rfl | exact h.panicked), hA⟩

theorem singleArm_congr {r r' : Res × Target × Option Noti}
    (h : r.1 = r'.1 ∧ r.2.2 = r'.2.2 ∧ AgreeData r.2.1 r'.2.1) (c : Int) :
    (singleArm r c).1 = (singleArm r' c).1 ∧ (singleArm r c).2.2.2 = (singleArm r' c).2.2.2 ∧
    AgreeData (singleArm r c).2.1 (singleArm r' c).2.1 := by
  obtain ⟨res, tt, on⟩ := r
  obtain ⟨res', tt', on'⟩ := r'
  obtain ⟨h1, h2, h3⟩ := h
  simp only at h1 h2 h3
  subst h1; subst h2
  unfold singleArm
  cases res.isErr with
  | true => exact ⟨rfl, rfl, h3⟩
  | false =>
    cases on with
    | none => exact ⟨rfl, rfl, h3⟩
    | some nd => exact ⟨rfl, rfl, h3.data, h3.latest, h3.name⟩

theorem multiFinish_congr {B B' : MultiAcc} (h : AccAgree B B') :
    ((if B.panicked then ((Res.panic, B.t, B.evs, false) : Res × Target × List (List Event) × Bool)
      else ((if B.anyErr then .err else .ok), B.t, B.evs, B.anyOk)).1 =
     (if B'.panicked then ((Res.panic, B'.t, B'.evs, false) : Res × Target × List (List Event) × Bool)
      else ((if B'.anyErr then .err else .ok), B'.t, B'.evs, B'.anyOk)).1) ∧
    ((if B.panicked then ((Res.panic, B.t, B.evs, false) : Res × Target × List (List Event) × Bool)
      else ((if B.anyErr then .err else .ok), B.t, B.evs, B.anyOk)).2.2.2 =
     (if B'.panicked then ((Res.panic, B'.t, B'.evs, false) : Res × Target × List (List Event) × Bool)
      else ((if B'.anyErr then .err else .ok), B'.t, B'.evs, B'.anyOk)).2.2.2) ∧
    AgreeData
     (if B.panicked then ((Res.panic, B.t, B.evs, false) : Res × Target × List (List Event) × Bool)
      else ((if B.anyErr then .err else .ok), B.t, B.evs, B.anyOk)).2.1
     (if B'.panicked then ((Res.panic, B'.t, B'.evs, false) : Res × Target × List (List Event) × Bool)
      else ((if B'.anyErr then .err else .ok), B'.t, B'.evs, B'.anyOk)).2.1 := by
  rw [← h.panicked, ← h.anyErr, ← h.anyOk]
  cases B.panicked with
  | true => exact ⟨rfl, rfl, h.t⟩
  | false => exact ⟨rfl, rfl, h.t⟩

theorem delArm_congr {r r' : Target × List Event × Bool} (h1 : r.2.2 = false) (h2 : r'.2.2 = false)
    (hA : AgreeData r.1 r'.1) :
    let f := fun (r : Target × List Event × Bool) =>
      (if r.2.2 then ((Res.panic, r.1, [], false) : Res × Target × List (List Event) × Bool)
       else (.ok, r.1, (if r.2.1.isEmpty then [] else [r.2.1]), false))
    (f r).1 = (f r').1 ∧ (f r).2.2.2 = (f r').2.2.2 ∧ AgreeData (f r).2.1 (f r').2.1 := by
  obtain ⟨a, b, c⟩ := r
  obtain ⟨a', b', c'⟩ := r'
  simp only at h1 h2 hA
  subst h1; subst h2
  exact ⟨rfl, rfl, hA⟩

/-- **dispatch_congr.**  The `switch` of `Target.GnmiUpdate` from two related, well-formed targets, for a
notification all of whose updates are stored under data keys (any deletes): same result class, same
`updateTS` flag, related targets. -/
theorem dispatch_congr {a b a' b' : Int} (cfg : Cfg) (now : Int) {t t' : Target} (hA : AgreeData t t')
    (hi : TInvD a b t) (hi' : TInvD a' b' t') (n : Noti) (ht : n.target ≠ "") (hk : DataKeyed n) :
    (t.dispatch cfg now n).1 = (t'.dispatch cfg now n).1 ∧
    (t.dispatch cfg now n).2.2.2 = (t'.dispatch cfg now n).2.2.2 ∧
    AgreeData (t.dispatch cfg now n).2.1 (t'.dispatch cfg now n).2.1 := by
  have hk1 : ∀ u, n.upd.head? = some u → dataKeyed n u := fun u hu => hk u (List.mem_of_mem_head? hu)
  have hmd : ∀ (f : Meta → Meta), AgreeData { t with md := f t.md } { t' with md := f t'.md } :=
    fun _ => ⟨hA.data, hA.latest, hA.name⟩
  unfold Target.dispatch
  by_cases ha : n.atomic = true
  · rw [if_pos ha, if_pos ha]
    by_cases hd : (!n.del.isEmpty) = true
    · rw [if_pos hd, if_pos hd]; exact ⟨rfl, rfl, hA⟩
    · rw [if_neg hd, if_neg hd]
      by_cases hu : n.upd.isEmpty = true
      · rw [if_pos hu, if_pos hu]; exact ⟨rfl, rfl, hA.data, hA.latest, hA.name⟩
      · rw [if_neg hu, if_neg hu]
        exact singleArm_congr (gnmiUpdate1_congr cfg now hA n hk1) _
  · rw [if_neg ha, if_neg ha]
    by_cases hm : n.upd.length + n.del.length > 1
    · rw [if_pos hm, if_pos hm]
      have hu := multiUpdates_congr cfg now { n with upd := [], del := [] } n.upd { t := t } { t := t' }
        (fun u hu => hk u hu) ⟨rfl, rfl, rfl, hA⟩
      have o1 := multiUpdates_ok (a := a) (b := b) cfg now { n with upd := [], del := [] } ht t n.upd { t := t }
        ⟨rfl, hi, Grow.refl _, rfl, rfl⟩
      have o2 := multiUpdates_ok (a := a') (b := b') cfg now { n with upd := [], del := [] } ht t' n.upd { t := t' }
        ⟨rfl, hi', Grow.refl _, rfl, rfl⟩
      exact multiFinish_congr
        (multiDeletes_congr { n with upd := [], del := [] } ht n.del _ _ o1.inv o2.inv hu)
    · rw [if_neg hm, if_neg hm]
      by_cases h1 : n.upd.length = 1
      · rw [if_pos h1, if_pos h1]
        exact singleArm_congr (gnmiUpdate1_congr cfg now hA n hk1) _
      · rw [if_neg h1, if_neg h1]
        by_cases h2 : n.del.length = 1
        · rw [if_pos h2, if_pos h2]
          have hne : n.del ≠ [] := by intro e; rw [e] at h2; cases h2
          obtain ⟨c1, _⟩ := gnmiRemove1_consequences { t with md := { t.md with updated := t.md.updated + 1 } } n
            (hi.with_md _ ⟨rfl, rfl, rfl⟩) hne ht
          obtain ⟨c1', _⟩ := gnmiRemove1_consequences { t' with md := { t'.md with updated := t'.md.updated + 1 } } n
            (hi'.with_md _ ⟨rfl, rfl, rfl⟩) hne ht
          have hR := gnmiRemove1_congr
            (t := { t with md := { t.md with updated := t.md.updated + 1 } })
            (t' := { t' with md := { t'.md with updated := t'.md.updated + 1 } })
            ⟨hA.data, hA.latest, hA.name⟩ n
          exact delArm_congr c1 c1' hR
        · rw [if_neg h2, if_neg h2]
          exact ⟨rfl, rfl, hA.data, hA.latest, hA.name⟩

theorem checkTimestamp_congr {t t' : Target} (hA : AgreeData t t') (ts : Int) :
    AgreeData (t.checkTimestamp ts) (t'.checkTimestamp ts) := by
  have hl := hA.latest
  unfold Target.checkTimestamp
  cases h1 : t.latest with
  | none =>
    rw [h1] at hl
    rw [← hl]
    exact ⟨hA.data, rfl, hA.name⟩
  | some l =>
    rw [h1] at hl
    rw [← hl]
    simp only
    by_cases hc : ts > l
    · simp only [hc, if_true]; exact ⟨hA.data, rfl, hA.name⟩
    · simp only [hc, if_false]; exact ⟨hA.data, by rw [h1, ← hl], hA.name⟩

/-- **gnmiUpdate_congr.**  `Target.GnmiUpdate` (the switch and the deferred `checkTimestamp`). -/
theorem gnmiUpdate_congr {a b a' b' : Int} (cfg : Cfg) (now : Int) {t t' : Target} (hA : AgreeData t t')
    (hi : TInvD a b t) (hi' : TInvD a' b' t') (n : Noti) (ht : n.target ≠ "") (hk : DataKeyed n) :
    (t.gnmiUpdate cfg now n).1 = (t'.gnmiUpdate cfg now n).1 ∧
    AgreeData (t.gnmiUpdate cfg now n).2.1 (t'.gnmiUpdate cfg now n).2.1 := by
  obtain ⟨d1, d2, d3⟩ := dispatch_congr cfg now hA hi hi' n ht hk
  unfold Target.gnmiUpdate
  cases tracksTimestamp? n with
  | none => exact ⟨rfl, hA⟩
  | some tracks =>
    simp only
    refine ⟨d1, ?_⟩
    rw [← d2]
    cases ((t.dispatch cfg now n).2.2.2 && tracks) with
    | true => exact checkTimestamp_congr d3 n.ts
    | false => exact d3

/-! ## 6. Updates stored under `meta/…`, the refresh, `Reset`

With the sync flag left out of the relation, everything that is stored under `meta/…` is invisible:
one-sided lemmas `AgreeData (f t) t`. -/

theorem setLeaf_filter_meta (m : PMap Noti) (p : Path) (n : Noti) (hp : isMetaKey p = true) :
    (setLeaf m p n).filter isDataKV = m.filter isDataKV := by
  rw [setLeaf_filter_data]
  unfold setLeaf
  have : ∀ kv ∈ m.filter isDataKV, (if (kv.1 == p) = true then (kv.1, n) else kv) = kv := by
    intro kv hkv
    have hd : isMetaKey kv.1 = false := by simpa [isDataKV] using (List.mem_filter.1 hkv).2
    have : (kv.1 == p) = false := by
      apply beq_false_of_ne; intro e; rw [e, hp] at hd; cases hd
    simp [this]
  rw [List.map_congr_left this, List.map_id']

theorem updateCore_meta_agree (cfg : Cfg) (now : Int) (t : Target) (rd : Bool) (path : Path) (n : Noti) (u : Upd)
    (hp : isMetaKey path = true) : AgreeData (updateCore cfg now t rd path n u).2.1 t := by
  have hset : dataPart { t with tree := setLeaf t.tree path n } = dataPart t := setLeaf_filter_meta _ _ _ hp
  unfold updateCore
  split
  · split
    · exact ⟨rfl, rfl, rfl⟩
    · exact ⟨rfl, rfl, rfl⟩
    · simp only
      split
      · exact ⟨hset, rfl, rfl⟩
      · split
        · exact ⟨hset, rfl, rfl⟩
        · split
          · exact ⟨hset, rfl, rfl⟩
          · exact ⟨hset, rfl, rfl⟩
  · by_cases hc : PMap.conflicts t.tree path = true
    · simp only [PMap.add, hc, if_true]
      exact AgreeData.refl _
    · simp only [PMap.add, hc, if_false]
      cases rd <;> exact ⟨add_filter_meta t.tree path n hp, rfl, rfl⟩

theorem metaSideEffect_agree {t t' : Target} {name : String} {v : Val} (h : metaSideEffect t name v = some t') :
    AgreeData t' t := by
  unfold metaSideEffect at h
  repeat' split at h
  all_goals (cases h <;> exact ⟨rfl, rfl, rfl⟩)

/-- `Target.gnmiUpdate` of a notification whose first update is stored under `meta/…` leaves the data
leaves, the latest timestamp and the name alone -/
theorem gnmiUpdate1_metaKey_agree (cfg : Cfg) (now : Int) (t : Target) (n : Noti)
    (hk : ∀ u p, n.upd.head? = some u → updKey? n u = some p → isMetaKey p = true) :
    AgreeData (Target.gnmiUpdate1 cfg now t n).2.1 t := by
  unfold Target.gnmiUpdate1
  cases hu : n.upd with
  | nil => exact AgreeData.refl _
  | cons u us =>
    simp only
    cases hq : updKey? n u with
    | none => exact AgreeData.refl _
    | some p =>
      have hm := hk u p (by rw [hu]; rfl) hq
      cases p with
      | nil => exact AgreeData.refl _
      | cons h rest =>
        have hh : h = metaRoot := by simpa [isMetaKey] using hm
        subst hh
        simp only [metaPre, if_true]
        cases rest with
        | nil => exact AgreeData.refl _
        | cons name r2 =>
          simp only
          cases hs : metaSideEffect t name u.val with
          | none => exact AgreeData.refl _
          | some t' =>
            simp only [Option.map_some]
            exact (updateCore_meta_agree cfg now t' false _ n u hm).trans (metaSideEffect_agree hs)

theorem metaNotiAt_key (enc : String → String) (tn : String) (path : Path) (v : Scalar) (now : Int)
    (hn : tn ≠ "") (u : Upd) (p : Path) (hu : (metaNotiAt enc tn path v now).upd.head? = some u)
    (hq : updKey? (metaNotiAt enc tn path v now) u = some p) : p = path := by
  simp only [metaNotiAt, List.head?_cons, Option.some.injEq] at hu
  subst hu
  simp [updKey?, joinKey?, metaNotiAt, hn] at hq
  exact hq.symm

theorem metaNoti_eq_at (enc : String → String) (tn name : String) (v : Scalar) (now : Int) :
    metaNoti enc tn name v now = { metaNotiAt enc tn [metaRoot, name] v now with
      upd := [{ origin := "", path := [metaRoot, name], val := .scalar v,
                raw := rawMetaUpdate name (rawScalar enc v) enc }] } := rfl

theorem metaNoti_key (enc : String → String) (tn name : String) (v : Scalar) (now : Int)
    (hn : tn ≠ "") (u : Upd) (p : Path) (hu : (metaNoti enc tn name v now).upd.head? = some u)
    (hq : updKey? (metaNoti enc tn name v now) u = some p) : p = [metaRoot, name] := by
  simp only [metaNoti, List.head?_cons, Option.some.injEq] at hu
  subst hu
  simp [updKey?, joinKey?, metaNoti, hn] at hq
  exact hq.symm

theorem genMetaOne_agree (cfg : Cfg) (enc : String → String) (now : Int) (emit : Bool)
    (acc : Target × List Event) (name : String) (v : Scalar) (isCur : Val → Bool) (hn : acc.1.name ≠ "") :
    AgreeData (genMetaOne cfg enc now emit acc name v isCur).1 acc.1 := by
  have := gnmiUpdate1_metaKey_agree cfg now acc.1 (metaNoti enc acc.1.name name v now)
    (fun u p hu hq => by rw [metaNoti_key enc _ name v now hn u p hu hq]; rfl)
  unfold genMetaOne
  split
  · exact AgreeData.refl _
  · split
    · exact AgreeData.refl _
    · simp only
      split <;> exact this

theorem genLatOne_agree (cfg : Cfg) (x : CfgX) (enc : String → String) (now : Int) (emit : Bool)
    (vals : List Write) (acc : Target × List Event) (k : Int × Stat) (hn : acc.1.name ≠ "") :
    AgreeData (genLatOne cfg x enc now emit vals acc k).1 acc.1 := by
  unfold genLatOne
  split
  · exact AgreeData.refl _
  · split
    · exact AgreeData.refl _
    · rename_i v _
      split
      · exact AgreeData.refl _
      · have := gnmiUpdate1_metaKey_agree cfg now acc.1 (metaNotiAt enc acc.1.name (latPath x k.1 k.2) (.int v) now)
          (fun u p hu hq => by rw [metaNotiAt_key enc _ _ _ now hn u p hu hq]; rfl)
        simp only
        split <;> exact this

/-- `AgreeData · t` as an invariant of the refresh loops (it carries the name) -/
theorem generateMetaUpdates_agree (cfg : Cfg) (enc : String → String) (now : Int) (emit : Bool) (t : Target)
    (hn : t.name ≠ "") : AgreeData (t.generateMetaUpdates cfg enc now emit).1 t := by
  rw [generateMetaUpdates_eq]
  have hname : ∀ u : Target, AgreeData u t → u.name ≠ "" := fun u h => by rw [h.name]; exact hn
  have step : ∀ {α : Type} (get : Meta → String → Option α) (mk : α → Scalar) (cur : α → Val → Bool)
      (names : List String) (acc : Target × List Event), AgreeData acc.1 t →
      AgreeData (names.foldl (stepG cfg enc now emit get mk cur) acc).1 t := by
    intro α get mk cur names acc h
    refine foldl_stepG_inv (fun u => AgreeData u t) cfg enc now emit get mk cur names ?_ acc h
    intro acc' name _ h'
    unfold stepG
    split
    · exact (genMetaOne_agree cfg enc now emit acc' name _ _ (hname _ h')).trans h'
    · exact h'
  have h1 := step Meta.getBool Scalar.bool curB boolNames (t, []) (AgreeData.refl t)
  have h2 := step Meta.getInt Scalar.int curI intNames _ h1
  have h3 := step Meta.getStr Scalar.str curS strNames _ h2
  unfold genServerName
  split
  · exact (genMetaOne_agree cfg enc now emit _ "serverName" _ _ (hname _ h3)).trans h3
  · exact h3

/-- **updateMeta_agree.**  The refresh of `Model/Cache.lean` leaves data leaves, latest and name alone. -/
theorem updateMeta_agree (cfg : Cfg) (enc : String → String) (now : Int) (emit : Bool) (t : Target)
    (hn : t.name ≠ "") : AgreeData (t.updateMeta cfg enc now emit).1 t := by
  unfold Target.updateMeta
  exact (generateMetaUpdates_agree cfg enc now emit
    { t with md := { t.md with latest := match t.latest with | some x => x | none => zeroUnixNano } } hn).trans
    ⟨rfl, rfl, rfl⟩

theorem foldl_genLatOne_agree (cfg : Cfg) (x : CfgX) (enc : String → String) (now : Int) (emit : Bool)
    (vals : List Write) (t : Target) (hn : t.name ≠ "") : ∀ (ks : List (Int × Stat)) (acc : Target × List Event),
    AgreeData acc.1 t → AgreeData (ks.foldl (genLatOne cfg x enc now emit vals) acc).1 t
  | [], _, h => h
  | k :: ks, acc, h => by
    simp only [List.foldl_cons]
    exact foldl_genLatOne_agree cfg x enc now emit vals t hn ks _
      ((genLatOne_agree cfg x enc now emit vals acc k (by rw [h.name]; exact hn)).trans h)

/-- **updateMetaX_agree.**  So does the refresh of a cache with latency windows. -/
theorem updateMetaX_agree (cfg : Cfg) (x : CfgX) (enc : String → String) (now : Int) (emit : Bool) (t : Target)
    (l : LatSt) (hn : t.name ≠ "") : AgreeData (t.updateMetaX cfg x enc now emit l).1.1 t := by
  rw [updateMetaX_eq]
  exact foldl_genLatOne_agree cfg x enc now emit _ t hn _ _ (updateMeta_agree cfg enc now emit t hn)

/-- **refresh_agreeData.**  A refresh of the wired cache and a refresh of `Model/Cache.lean` from two
related targets (in particular from the same target) end in related targets. -/
theorem refresh_agreeData (cfg : Cfg) (x : CfgX) (enc : String → String) (now : Int) (emit emit' : Bool)
    {t t' : Target} (l : LatSt) (hA : AgreeData t t') (hn : t.name ≠ "") :
    AgreeData (t.updateMetaX cfg x enc now emit l).1.1 (t'.updateMeta cfg enc now emit').1 :=
  ((updateMetaX_agree cfg x enc now emit t l hn).trans hA).trans
    (updateMeta_agree cfg enc now emit' t' (by rw [← hA.name]; exact hn)).symm

/-! ### `Reset` -/

theorem eraseDups_filter {α : Type} [BEq α] [LawfulBEq α] (p : α → Bool) :
    ∀ (n : Nat) (l : List α), l.length ≤ n → l.eraseDups.filter p = (l.filter p).eraseDups
  | _, [], _ => by simp
  | 0, _ :: _, h => by simp at h
  | n + 1, a :: l, h => by
    have hlen : (l.filter (fun b => !b == a)).length ≤ n := by
      have := List.length_filter_le (fun b => !b == a) l
      simp only [List.length_cons] at h
      omega
    have ih := eraseDups_filter p n _ hlen
    rw [List.eraseDups_cons, List.filter_cons]
    by_cases hp : p a = true
    · rw [if_pos hp, List.filter_cons, if_pos hp, List.eraseDups_cons, ih, List.filter_filter, List.filter_filter]
      congr 2
      apply List.filter_congr
      intro b _
      exact Bool.and_comm _ _
    · rw [if_neg hp, List.filter_cons, if_neg hp, ih, List.filter_filter]
      congr 1
      apply List.filter_congr
      intro b _
      by_cases hb : p b = true
      · have : (b == a) = false := by
          apply beq_false_of_ne; intro e; rw [e] at hb; exact hp hb
        simp [hb, this]
      · simp [hb]

theorem heads_data (m : PMap Noti) :
    (m.filterMap (fun kv => kv.1.head?)).filter (· != metaRoot) =
      (m.filter isDataKV).filterMap (fun kv => kv.1.head?) := by
  induction m with
  | nil => rfl
  | cons kv m ih =>
    obtain ⟨k, v⟩ := kv
    cases k with
    | nil => simp [List.filterMap_cons, List.filter_cons, isDataKV, isMetaKey, ih]
    | cons h r =>
      by_cases hh : h = metaRoot
      · subst hh; simp [List.filterMap_cons, List.filter_cons, isDataKV, isMetaKey, ih]
      · have h1 : (h == metaRoot) = false := beq_false_of_ne hh
        simp [List.filterMap_cons, List.filter_cons, isDataKV, isMetaKey, ih, h1, hh]

/-- the roots `Reset` deletes are determined by the data leaves -/
theorem roots_data (m : PMap Noti) :
    (rootChildren m).filter (· != metaRoot) = ((m.filter isDataKV).filterMap (fun kv => kv.1.head?)).eraseDups := by
  unfold rootChildren
  rw [eraseDups_filter _ _ _ (Nat.le_refl _), heads_data]

theorem dropRoots_congr (nm nm' : String) (now : Int) : ∀ (roots : List String) (acc acc' : Target × List Event),
    AgreeData acc.1 acc'.1 → AgreeData (dropRoots nm now roots acc).1 (dropRoots nm' now roots acc').1
  | [], _, _, h => h
  | r :: rs, acc, acc', h => by
    unfold dropRoots
    simp only [List.foldl_cons]
    refine dropRoots_congr nm nm' now rs _ _ ⟨?_, h.latest, h.name⟩
    show ((PMap.delete (fun _ => true) acc.1.tree [r]).1).filter isDataKV =
      ((PMap.delete (fun _ => true) acc'.1.tree [r]).1).filter isDataKV
    rw [delete_filter_data, delete_filter_data]
    have := h.data
    rw [dataPart_eq, dataPart_eq] at this
    rw [this]

/-- **reset_congr.**  `Target.Reset` of the wired cache and of `Model/Cache.lean` from two related
targets end in related targets (latest cleared in both, the same roots deleted). -/
theorem reset_congr (cfg : Cfg) (x : CfgX) (enc : String → String) (now : Int) {t t' : Target} (l : LatSt)
    (hA : AgreeData t t') (hn : t.name ≠ "") :
    AgreeData (t.resetX cfg x enc now l).1.1 (t'.reset cfg enc now).1 := by
  rw [resetX_eq, reset_eq]
  simp only
  have h0 : AgreeData { t with latest := none, md := Meta.clear } { t' with latest := none, md := Meta.clear } :=
    ⟨hA.data, rfl, hA.name⟩
  have h1 := refresh_agreeData cfg x enc now true true { l with vals := [] } h0 hn
  have hr : (rootChildren (Target.updateMetaX cfg x enc now true { t with latest := none, md := Meta.clear }
        { l with vals := [] }).1.1.tree).filter (· != metaRoot) =
      (rootChildren (Target.updateMeta cfg enc now true { t' with latest := none, md := Meta.clear }).1.tree).filter
        (· != metaRoot) := by
    rw [roots_data, roots_data]
    have := h1.data
    rw [dataPart_eq, dataPart_eq] at this
    rw [this]
  rw [hr]
  exact dropRoots_congr _ _ now _ _ _ h1

/-! ## 7. The cache: one API call, histories -/

theorem tracks_metaNoti (enc : String → String) (tn name : String) (v : Scalar) (now : Int) (hn : tn ≠ "") :
    tracksTimestamp? (metaNoti enc tn name v now) = some false := by
  simp [tracksTimestamp?, metaNoti, updKey?, joinKey?, hn]

/-- `Target.GnmiUpdate` of one of the cache's own `meta/<name>` notifications (`Sync`, `Connect`,
`ConnectError`) leaves the data leaves, the latest timestamp and the name alone -/
theorem gnmiUpdate_metaNoti_agree (cfg : Cfg) (enc : String → String) (now : Int) (t : Target) (tn name : String)
    (v : Scalar) (hn : tn ≠ "") : AgreeData (t.gnmiUpdate cfg now (metaNoti enc tn name v now)).2.1 t := by
  have h1 := gnmiUpdate1_metaKey_agree cfg now t (metaNoti enc tn name v now)
    (fun u p hu hq => by rw [metaNoti_key enc _ name v now hn u p hu hq]; rfl)
  unfold Target.gnmiUpdate
  rw [tracks_metaNoti enc tn name v now hn]
  simp only [Bool.and_false, Bool.false_eq_true, if_false]
  have hd : (t.dispatch cfg now (metaNoti enc tn name v now)) =
      singleArm (Target.gnmiUpdate1 cfg now t (metaNoti enc tn name v now)) 1 := by
    unfold Target.dispatch
    simp [metaNoti]
  rw [hd]
  unfold singleArm
  split
  · exact h1
  · split
    · exact ⟨h1.data, h1.latest, h1.name⟩
    · exact h1

theorem xU (cfg : Cfg) (now : Int) (t : Target) (l : LatSt) (n : Noti) :
    (t.gnmiUpdateX cfg now l n).1.2.1 = (t.gnmiUpdate cfg now n).2.1 := by rw [gnmiUpdateX_base]

def OAgree : Option Target → Option Target → Prop
  | some t, some t' => AgreeData t t'
  | none, none => True
  | _, _ => False

/-- same configuration, the same registered names, related targets -/
def SAgree (s s' : State) : Prop := s.cfg = s'.cfg ∧ ∀ name, OAgree (s.get name) (s'.get name)

theorem SAgree.of_maps {s0 s0' s1 s1' : State} (h : SAgree s0 s0') (hc : s1.cfg = s1'.cfg)
    (hg : ∀ name, ∃ F F' : Target → Target, s1.get name = (s0.get name).map F ∧
      s1'.get name = (s0'.get name).map F' ∧
      ∀ t t', s0.get name = some t → s0'.get name = some t' → AgreeData t t' → AgreeData (F t) (F' t')) :
    SAgree s1 s1' := by
  refine ⟨hc, fun name => ?_⟩
  obtain ⟨F, F', g, g', hF⟩ := hg name
  have h2 := h.2 name
  rw [g, g']
  cases h0 : s0.get name with
  | none =>
    cases h0' : s0'.get name with
    | none => exact True.intro
    | some t' => rw [h0, h0'] at h2; exact h2.elim
  | some t =>
    cases h0' : s0'.get name with
    | none => rw [h0, h0'] at h2; exact h2.elim
    | some t' => rw [h0, h0'] at h2; exact hF t t' h0 h0' h2

theorem SAgree.of_one {s0 s0' s1 s1' : State} (h : SAgree s0 s0') (hc : s1.cfg = s1'.cfg) (tn : String)
    (F F' : Target → Target) (g : s1.get tn = (s0.get tn).map F) (g' : s1'.get tn = (s0'.get tn).map F')
    (o : ∀ other, other ≠ tn → s1.get other = s0.get other)
    (o' : ∀ other, other ≠ tn → s1'.get other = s0'.get other)
    (hF : ∀ t t', s0.get tn = some t → s0'.get tn = some t' → AgreeData t t' → AgreeData (F t) (F' t')) :
    SAgree s1 s1' := by
  refine h.of_maps hc (fun name => ?_)
  by_cases e : name = tn
  · subst e; exact ⟨F, F', g, g', hF⟩
  · refine ⟨id, id, ?_, ?_, fun _ _ _ _ hA => hA⟩
    · rw [o name e]; cases s0.get name <;> rfl
    · rw [o' name e]; cases s0'.get name <;> rfl

/-- the restriction on a call: a client notification stores all its updates under data keys (first element
of the joined path not `meta`); deletes, and every other call, are unrestricted -/
def OpOutside : Cache.Op → Prop
  | .update _ _ n => DataKeyed n
  | _ => True

/-- **HistOutside**: no client update of the history is addressed under `meta/…` -/
def HistOutside (ops : List Cache.Op) : Prop := ∀ op ∈ ops, OpOutside op

theorem resetXX_congr (cfg : Cfg) (x x' : CfgX) (enc : String → String) (now : Int) {t t' : Target} (l l' : LatSt)
    (hA : AgreeData t t') (hn : t.name ≠ "") :
    AgreeData (t.resetX cfg x enc now l).1.1 (t'.resetX cfg x' enc now l').1.1 :=
  (reset_congr cfg x enc now l hA hn).trans
    (reset_congr cfg x' enc now l' (AgreeData.refl t') (by rw [← hA.name]; exact hn)).symm

/-- **stepX_agree.**  One API call on two wired caches (any window configurations) whose targets are related:
they stay related. -/
theorem stepX_agree (env : Env) (sx sx' : StateX) (op : Cache.Op) (ho : OpOutside op)
    (hs : SInv sx.s) (hn : NamesUnique sx.s) (hs' : SInv sx'.s) (hn' : NamesUnique sx'.s)
    (h : SAgree sx.s sx'.s) : SAgree (sx.step env (.base op)).1.s (sx'.step env (.base op)).1.s := by
  have hc : (sx.step env (.base op)).1.s.cfg = (sx'.step env (.base op)).1.s.cfg := by
    rw [runX_cfg_step, runX_cfg_step]; exact h.1
  have hcfg := h.1
  cases op with
  | add name =>
    refine ⟨hc, fun nm => ?_⟩
    show OAgree ((sx.s.set name { name := name }).get nm) ((sx'.s.set name { name := name }).get nm)
    by_cases e : nm = name
    · subst e; rw [get_set_same, get_set_same]; exact AgreeData.refl _
    · rw [get_set_other _ _ _ _ e, get_set_other _ _ _ _ e]; exact h.2 nm
  | remove name now =>
    refine ⟨hc, fun nm => ?_⟩
    have h2 := h.2 nm
    simp only [StateX.step, StateX.remove, State.remove, State.get] at h2 ⊢
    by_cases e : nm = name
    · subst e; rw [find_filter_same, find_filter_same]; exact True.intro
    · rw [find_filter_other _ _ _ e, find_filter_other _ _ _ e]; exact h2
  | reset name now =>
    refine h.of_one hc name _ _ (onTargetX_get_same sx name _).1 (onTargetX_get_same sx' name _).1
      (fun other e => (onTargetX_get_other sx name other _ e).1)
      (fun other e => (onTargetX_get_other sx' name other _ e).1) ?_
    intro t t' g0 _ hA
    obtain ⟨_, e2, e3⟩ := hs name t g0
    show AgreeData (t.resetX sx.s.cfg sx.x env.enc now (sx.latOf name)).1.1
      (t'.resetX sx'.s.cfg sx'.x env.enc now (sx'.latOf name)).1.1
    rw [← hcfg]
    exact resetXX_congr _ _ _ _ _ _ _ hA (by rw [e2]; exact e3)
  | sync name now =>
    refine h.of_one hc name _ _ (onTargetX_get_same sx name _).1 (onTargetX_get_same sx' name _).1
      (fun other e => (onTargetX_get_other sx name other _ e).1)
      (fun other e => (onTargetX_get_other sx' name other _ e).1) ?_
    intro t t' g0 _ hA
    obtain ⟨_, _, e3⟩ := hs name t g0
    simp only [xU]
    exact ((gnmiUpdate_metaNoti_agree _ _ _ t name _ _ e3).trans hA).trans
      (gnmiUpdate_metaNoti_agree _ _ _ t' name _ _ e3).symm
  | connectError name msg now =>
    refine h.of_one hc name _ _ (onTargetX_get_same sx name _).1 (onTargetX_get_same sx' name _).1
      (fun other e => (onTargetX_get_other sx name other _ e).1)
      (fun other e => (onTargetX_get_other sx' name other _ e).1) ?_
    intro t t' g0 _ hA
    obtain ⟨_, _, e3⟩ := hs name t g0
    simp only [xU]
    exact ((gnmiUpdate_metaNoti_agree _ _ _ t name _ _ e3).trans hA).trans
      (gnmiUpdate_metaNoti_agree _ _ _ t' name _ _ e3).symm
  | connect name now =>
    refine h.of_one hc name _ _ (onTargetX_get_same sx name _).1 (onTargetX_get_same sx' name _).1
      (fun other e => (onTargetX_get_other sx name other _ e).1)
      (fun other e => (onTargetX_get_other sx' name other _ e).1) ?_
    intro t t' g0 g0' hA
    obtain ⟨i1, _, e3⟩ := hs name t g0
    obtain ⟨i1', _, _⟩ := hs' name t' g0'
    simp only [xU]
    have hm : (metaNoti env.enc name "connected" (.bool true) now).target ≠ "" := e3
    have k1 := (gnmiUpdate_ok sx.s.cfg now t _ i1 hm).2.1
    have k1' := (gnmiUpdate_ok sx'.s.cfg now t' _ i1' hm).2.1
    have hA1 := ((gnmiUpdate_metaNoti_agree sx.s.cfg env.enc now t name "connected" (.bool true) e3).trans hA).trans
      (gnmiUpdate_metaNoti_agree sx'.s.cfg env.enc now t' name "connected" (.bool true) e3).symm
    rw [← hcfg] at k1' hA1 ⊢
    exact (gnmiUpdate_congr sx.s.cfg now hA1 k1 k1' (deleteNotiOf env.enc name [metaRoot, "connectError"] now) e3
      (fun u hu => by cases hu)).2
  | update now pn n =>
    cases pn with
    | true => exact h
    | false =>
      refine h.of_one hc n.target _ _ (gnmiUpdateX_get_same sx now n).1 (gnmiUpdateX_get_same sx' now n).1
        (fun other e => (gnmiUpdateX_get_other sx now false n other (Or.inr e)).1)
        (fun other e => (gnmiUpdateX_get_other sx' now false n other (Or.inr e)).1) ?_
      intro t t' g0 g0' hA
      obtain ⟨i1, _, e3⟩ := hs n.target t g0
      obtain ⟨i1', _, _⟩ := hs' n.target t' g0'
      simp only [xU]
      rw [← hcfg]
      exact (gnmiUpdate_congr sx.s.cfg now hA i1 i1' n e3 ho).2
  | updateMetadata now =>
    refine h.of_maps hc (fun name => ⟨_, _, (updateMetadataX_get sx env.enc now hn name).1,
      (updateMetadataX_get sx' env.enc now hn' name).1, ?_⟩)
    intro t t' g0 g0' hA
    obtain ⟨_, e2, e3⟩ := hs name t g0
    obtain ⟨_, e2', _⟩ := hs' name t' g0'
    exact ((updateMetaX_agree _ _ _ _ _ t _ (by rw [e2]; exact e3)).trans hA).trans
      (updateMetaX_agree _ _ _ _ _ t' _ (by rw [e2']; exact e3)).symm

theorem runX_agree (env : Env) : ∀ (ops : List Cache.Op) (sx sx' : StateX), SInv sx.s → NamesUnique sx.s →
    SInv sx'.s → NamesUnique sx'.s → (∀ op ∈ ops, op.valid) → HistOutside ops → SAgree sx.s sx'.s →
    SAgree (sx.run env (ops.map OpX.base)).s (sx'.run env (ops.map OpX.base)).s
  | [], _, _, _, _, _, _, _, _, h => h
  | op :: ops, sx, sx', hs, hn, hs', hn', hv, ho, h => by
    obtain ⟨a1, a2⟩ := stepX_inv env sx (.base op) hs hn (hv op (List.mem_cons_self ..))
    obtain ⟨b1, b2⟩ := stepX_inv env sx' (.base op) hs' hn' (hv op (List.mem_cons_self ..))
    exact runX_agree env ops _ _ a1 a2 b1 b2 (fun o ho' => hv o (List.mem_cons_of_mem _ ho'))
      (fun o ho' => ho o (List.mem_cons_of_mem _ ho'))
      (stepX_agree env sx sx' op (ho op (List.mem_cons_self ..)) hs hn hs' hn' h)

/-- **runX_data_agrees_partial.**  Along every history of the calls of `Model/Cache.lean` from the empty cache
in which no client update is addressed under `meta/…` (`HistOutside`; deletes of any shape, `Add`, `Remove`,
`Reset`, `Sync`, `Connect`, `ConnectError`, `UpdateMetadata` unrestricted), for a cache with any latency
windows, every registered target of the wired run has the same data leaves (in storage order) and the same
latest timestamp as in `State.run`, and the same names are registered.  What is missing for the `def
runX_data_agrees`: the sync flag (a refresh re-derives it from the metadata value and the `meta/sync` leaf,
which this relation does not track), and updates addressed under `meta/…`. -/
theorem runX_data_agrees_partial (env : Env) (cfg : Cfg) (x : CfgX) (ops : List Cache.Op) (name : String)
    (hv : ∀ op ∈ ops, op.valid) (ho : HistOutside ops) :
    ((StateX.run env { s := { cfg := cfg }, x := x } (ops.map OpX.base)).s.get name).map
        (fun t => (dataPart t, t.latest)) =
      ((State.run env.enc { cfg := cfg } ops).get name).map (fun t => (dataPart t, t.latest)) := by
  have h := runX_agree env ops { s := { cfg := cfg }, x := x } { s := { cfg := cfg }, x := {} }
    (SInv.empty cfg) (NamesUnique.empty cfg) (SInv.empty cfg) (NamesUnique.empty cfg) hv ho
    ⟨rfl, fun nm => by simp [State.get, OAgree]⟩
  rw [runX_lift env ops { s := { cfg := cfg }, x := {} } rfl] at h
  have h2 := h.2 name
  revert h2
  cases (StateX.run env { s := { cfg := cfg }, x := x } (ops.map OpX.base)).s.get name <;>
    cases (State.run env.enc { cfg := cfg } ops).get name <;> intro h2
  · rfl
  · exact h2.elim
  · exact h2.elim
  · simp only [Option.map_some, Option.some.injEq, Prod.mk.injEq]
    exact ⟨h2.data, h2.latest⟩

/-! ## 8. The restriction is necessary: `runX_data_agrees` as stated is false

A target may itself write under `meta/latency/…`.  In the history below the target first sends, in one
notification, `meta/sync = true` and a data update (a latency sample; the first update is under `meta`, so the
latest timestamp is not tracked), the refresh of a cache with a 20 ns window then writes
`meta/latency/window/<w>/max` (timestamp 1020), and the target sends, in one notification of timestamp 980, a
stale data update followed by an update of `meta/latency/window/<w>/max`: with the window that update is
stale (980 < 1020), without it it adds a new leaf — so `updateTS` and hence the latest timestamp differ. -/

def nSyncData : Noti :=
  { ts := 990, target := "t1", praw := "q",
    upd := [{ path := ["meta", "sync"], val := .scalar (.bool true), raw := "s" },
            { path := ["x"], val := .scalar (.int 1), raw := "x" }] }

def nStaleThenLat : Noti :=
  { ts := 980, target := "t1", praw := "q",
    upd := [{ path := ["x"], val := .scalar (.int 5), raw := "x5" },
            { path := ["meta", "latency", "window", "", "max"], val := .scalar (.int 1), raw := "l" }] }

def histMeta : List Cache.Op :=
  [.add "t1", .update 1000 false nSyncData, .updateMetadata 1020, .update 1030 false nStaleThenLat]

theorem histMeta_valid : ∀ op ∈ histMeta, op.valid := by
  intro op h
  simp only [histMeta, List.mem_cons, List.not_mem_nil, or_false] at h
  rcases h with h | h | h | h <;> subst h <;> simp [Op.valid]

/-- the history is excluded by `HistOutside` (its last notification updates a `meta/…` path) -/
theorem histMeta_not_outside : ¬ HistOutside histMeta := by
  intro h
  have h4 := h (.update 1030 false nStaleThenLat) (by simp [histMeta])
  have := h4 { path := ["meta", "latency", "window", "", "max"], val := .scalar (.int 1), raw := "l" }
    (by simp [nStaleThenLat]) "meta" ["latency", "window", "", "max"] (by decide)
  exact this rfl

set_option maxRecDepth 100000 in
/-- with a 20 ns window the latest timestamp of `t1` stays unset, without windows it is 980 -/
theorem histMeta_latest_differs :
    ((StateX.run env0 { s := { cfg := {} }, x := x20 } (histMeta.map OpX.base)).s.get "t1").map (fun t => t.latest)
      = some none ∧
    ((State.run env0.enc { cfg := {} } histMeta).get "t1").map (fun t => t.latest) = some (some 980) := by decide

set_option maxRecDepth 100000 in
theorem histMeta_disagrees :
    ((StateX.run env0 { s := { cfg := {} }, x := x20 } (histMeta.map OpX.base)).s.get "t1").map
        (fun t => (dataPart t, t.sync, t.latest)) ≠
      ((State.run env0.enc { cfg := {} } histMeta).get "t1").map (fun t => (dataPart t, t.sync, t.latest)) := by
  decide

/-- **runX_data_agrees_false.**  The unrestricted statement `C15WireLeaves.runX_data_agrees` does not hold:
`HistOutside` (or some restriction on client updates under `meta/…`) is necessary. -/
theorem runX_data_agrees_false : ¬ runX_data_agrees :=
  fun h => histMeta_disagrees (h env0 {} x20 histMeta "t1" histMeta_valid)

end Gnmi.C15Wire
