import Gnmi.Props.C12
/-!
# C12 — the metadata-writing API calls never reach a panic

`State.step` reports the result class of `Cache.GnmiUpdate` only; for `Sync`, `Connect`,
`ConnectError`, `Reset` and `UpdateMetadata` it returns the constant `.ok`, and `genMetaOne`
drops the result class of the `gnmiUpdate` call it makes (as the Go code drops the *error*:
`if n, _ := t.gnmiUpdate(noti)` — but a Go *panic* in there would not be dropped).  So
`C12.ingest_total` says nothing about these calls.  This file closes that:

* `panics enc s op` collects, for every API call, whether **any** `Target.gnmiUpdate` /
  `Target.gnmiUpdate1` evaluated inside that call yields the `panic` outcome.  For the metadata
  refresh this needs the fold of `generateMetaUpdates` *with* the result class kept
  (`genMetaOneP`, `genServerNameP`, `generateMetaUpdatesP`, `updateMetaP`, `resetP`,
  `updateMetadataP`; the optional `serverName` string of a cache created `WithServerName` is the
  fourth step, `genServerName`); each of
  these is proved to compute exactly the existing model function in its first component
  (`…_fst`), i.e. they are the existing functions plus one observation, not a re-definition.
* `meta_refresh_no_panic`: for every reachable cache state and every API call, `panics = false`.
* direct forms on the existing definitions for the three one-shot calls
  (`sync_no_panic`, `connect_no_panic`, `connectError_no_panic`) and for a single refresh
  step (`genMetaOne_call_no_panic`).
-/
namespace Gnmi
namespace C12
open Cache

/-! ## the metadata refresh with the result class kept -/

/-- the `gnmiUpdate` call of `genMetaOne` reaches a panic -/
def metaCallPanics (cfg : Cfg) (enc : String → String) (now : Int) (t : Target) (name : String)
    (v : Scalar) : Bool :=
  decide ((Target.gnmiUpdate1 cfg now t (metaNoti enc t.name name v now)).1 = .panic)

/-- `genMetaOne`, plus: did its `gnmiUpdate` call (if it makes one) reach a panic -/
def genMetaOneP (cfg : Cfg) (enc : String → String) (now : Int) (emit : Bool)
    (acc : (Target × List Event) × Bool) (name : String) (v : Scalar) (isCur : Val → Bool) :
    (Target × List Event) × Bool :=
  (genMetaOne cfg enc now emit acc.1 name v isCur,
   acc.2 || (!cfg.excluded.contains name && !metaIsCurrent acc.1.1 name isCur &&
     metaCallPanics cfg enc now acc.1.1 name v))

def boolStep (cfg : Cfg) (enc : String → String) (now : Int) (emit : Bool)
    (acc : Target × List Event) (name : String) : Target × List Event :=
  match acc.1.md.getBool name with
  | some v => genMetaOne cfg enc now emit acc name (.bool v)
      (fun sv => match sv with | .scalar (.bool b) => b == v | _ => false)
  | none => acc

def intStep (cfg : Cfg) (enc : String → String) (now : Int) (emit : Bool)
    (acc : Target × List Event) (name : String) : Target × List Event :=
  match acc.1.md.getInt name with
  | some v => genMetaOne cfg enc now emit acc name (.int v)
      (fun sv => match sv with | .scalar (.int i) => i == v | _ => false)
  | none => acc

def strStep (cfg : Cfg) (enc : String → String) (now : Int) (emit : Bool)
    (acc : Target × List Event) (name : String) : Target × List Event :=
  match acc.1.md.getStr name with
  | some v => genMetaOne cfg enc now emit acc name (.str v)
      (fun sv => match sv with | .scalar (.str s) => s == v | _ => false)
  | none => acc

/-- the existing `generateMetaUpdates` is the three folds of these steps followed by the
`serverName` step (definitional) -/
theorem generateMetaUpdates_eq (cfg : Cfg) (enc : String → String) (now : Int) (emit : Bool) (t : Target) :
    t.generateMetaUpdates cfg enc now emit =
      genServerName cfg enc now emit
        (strNames.foldl (strStep cfg enc now emit)
          (intNames.foldl (intStep cfg enc now emit)
            (boolNames.foldl (boolStep cfg enc now emit) (t, [])))) := rfl

/-- `genServerName`, plus the panic observation of the `gnmiUpdate` call it makes (if any) -/
def genServerNameP (cfg : Cfg) (enc : String → String) (now : Int) (emit : Bool)
    (acc : (Target × List Event) × Bool) : (Target × List Event) × Bool :=
  match acc.1.1.serverName with
  | some v => genMetaOneP cfg enc now emit acc "serverName" (.str v)
      (fun sv => match sv with | .scalar (.str s) => s == v | _ => false)
  | none => acc

def boolStepP (cfg : Cfg) (enc : String → String) (now : Int) (emit : Bool)
    (acc : (Target × List Event) × Bool) (name : String) : (Target × List Event) × Bool :=
  match acc.1.1.md.getBool name with
  | some v => genMetaOneP cfg enc now emit acc name (.bool v)
      (fun sv => match sv with | .scalar (.bool b) => b == v | _ => false)
  | none => acc

def intStepP (cfg : Cfg) (enc : String → String) (now : Int) (emit : Bool)
    (acc : (Target × List Event) × Bool) (name : String) : (Target × List Event) × Bool :=
  match acc.1.1.md.getInt name with
  | some v => genMetaOneP cfg enc now emit acc name (.int v)
      (fun sv => match sv with | .scalar (.int i) => i == v | _ => false)
  | none => acc

def strStepP (cfg : Cfg) (enc : String → String) (now : Int) (emit : Bool)
    (acc : (Target × List Event) × Bool) (name : String) : (Target × List Event) × Bool :=
  match acc.1.1.md.getStr name with
  | some v => genMetaOneP cfg enc now emit acc name (.str v)
      (fun sv => match sv with | .scalar (.str s) => s == v | _ => false)
  | none => acc

/-- `generateMetaUpdates` with the panic observation of every `gnmiUpdate` call it makes -/
def generateMetaUpdatesP (cfg : Cfg) (enc : String → String) (now : Int) (emit : Bool) (t : Target) :
    (Target × List Event) × Bool :=
  genServerNameP cfg enc now emit
    (strNames.foldl (strStepP cfg enc now emit)
      (intNames.foldl (intStepP cfg enc now emit)
        (boolNames.foldl (boolStepP cfg enc now emit) ((t, []), false))))

/-- `Target.updateMeta` with the panic observation -/
def updateMetaP (cfg : Cfg) (enc : String → String) (now : Int) (emit : Bool) (t : Target) :
    (Target × List Event) × Bool :=
  let l := match t.latest with
    | some x => x
    | none => zeroUnixNano
  generateMetaUpdatesP cfg enc now emit { t with md := { t.md with latest := l } }

/-- `Target.Reset` with the panic observation (the subtree deletes after the refresh are
`DeleteConditional` calls, which have no partial operation) -/
def resetP (cfg : Cfg) (enc : String → String) (now : Int) (t : Target) : (Target × List Event) × Bool :=
  (t.reset cfg enc now, (updateMetaP cfg enc now true { t with latest := none, md := Meta.clear }).2)

/-- `Cache.UpdateMetadata` with the panic observation -/
def updateMetadataP (s : State) (enc : String → String) (now : Int) : (State × List Event) × Bool :=
  s.targets.foldl (fun acc kv =>
    match acc.1.1.get kv.1 with
    | none => acc
    | some t =>
      let r := updateMetaP s.cfg enc now true t
      ((acc.1.1.set kv.1 r.1.1, acc.1.2 ++ r.1.2), acc.2 || r.2)) ((s, []), false)

/-! ### they compute the existing functions -/

theorem foldl_fst {α β : Type} (g : (β × Bool) → α → (β × Bool)) (f : β → α → β)
    (h : ∀ acc x, (g acc x).1 = f acc.1 x) : ∀ (l : List α) (acc : β × Bool),
    (l.foldl g acc).1 = l.foldl f acc.1
  | [], _ => rfl
  | x :: l, acc => by
    simp only [List.foldl_cons]
    rw [foldl_fst g f h l, h]

theorem boolStepP_fst (cfg : Cfg) (enc : String → String) (now : Int) (emit : Bool)
    (acc : (Target × List Event) × Bool) (name : String) :
    (boolStepP cfg enc now emit acc name).1 = boolStep cfg enc now emit acc.1 name := by
  unfold boolStepP boolStep; split <;> rfl

theorem intStepP_fst (cfg : Cfg) (enc : String → String) (now : Int) (emit : Bool)
    (acc : (Target × List Event) × Bool) (name : String) :
    (intStepP cfg enc now emit acc name).1 = intStep cfg enc now emit acc.1 name := by
  unfold intStepP intStep; split <;> rfl

theorem strStepP_fst (cfg : Cfg) (enc : String → String) (now : Int) (emit : Bool)
    (acc : (Target × List Event) × Bool) (name : String) :
    (strStepP cfg enc now emit acc name).1 = strStep cfg enc now emit acc.1 name := by
  unfold strStepP strStep; split <;> rfl

theorem genServerNameP_fst (cfg : Cfg) (enc : String → String) (now : Int) (emit : Bool)
    (acc : (Target × List Event) × Bool) :
    (genServerNameP cfg enc now emit acc).1 = genServerName cfg enc now emit acc.1 := by
  unfold genServerNameP genServerName
  cases acc.1.1.serverName with
  | none => rfl
  | some v => rfl

theorem generateMetaUpdatesP_fst (cfg : Cfg) (enc : String → String) (now : Int) (emit : Bool) (t : Target) :
    (generateMetaUpdatesP cfg enc now emit t).1 = t.generateMetaUpdates cfg enc now emit := by
  rw [generateMetaUpdates_eq]
  unfold generateMetaUpdatesP
  rw [genServerNameP_fst, foldl_fst _ _ (strStepP_fst cfg enc now emit), foldl_fst _ _ (intStepP_fst cfg enc now emit),
    foldl_fst _ _ (boolStepP_fst cfg enc now emit)]

theorem updateMetaP_fst (cfg : Cfg) (enc : String → String) (now : Int) (emit : Bool) (t : Target) :
    (updateMetaP cfg enc now emit t).1 = t.updateMeta cfg enc now emit :=
  generateMetaUpdatesP_fst ..

theorem resetP_fst (cfg : Cfg) (enc : String → String) (now : Int) (t : Target) :
    (resetP cfg enc now t).1 = t.reset cfg enc now := rfl

theorem updateMetadataP_fst (s : State) (enc : String → String) (now : Int) :
    (updateMetadataP s enc now).1 = s.updateMetadata enc now := by
  unfold updateMetadataP State.updateMetadata
  apply foldl_fst
  intro acc kv
  split
  · rename_i h; simp only [h]
  · rename_i t h; simp only [h, updateMetaP_fst]

/-! ### no call of the refresh reaches a panic -/

/-- **One refresh step.** The `gnmiUpdate` call `genMetaOne` makes on a well-formed, named target
does not reach a panic — whatever is stored under `meta/<name>` (absent, wrong type, a
notification from the peer) and whichever value is written. -/
theorem genMetaOne_call_no_panic {a b : Int} (cfg : Cfg) (enc : String → String) (now : Int)
    (t : Target) (name : String) (v : Scalar) (hi : TInvD a b t) (hn : t.name ≠ "") :
    (Target.gnmiUpdate1 cfg now t (metaNoti enc t.name name v now)).1 ≠ .panic :=
  (gnmiUpdate1_consequences cfg now t (metaNoti enc t.name name v now) hi (by simp [metaNoti]) hn).1

/-- what the instrumented folds maintain -/
structure POK (a b : Int) (t0 : Target) (acc : (Target × List Event) × Bool) : Prop where
  step : MetaStep a b t0 acc.1.1
  flag : acc.2 = false

theorem genMetaOneP_ok {a b : Int} {t0 : Target} (cfg : Cfg) (enc : String → String) (now : Int)
    (emit : Bool) (acc : (Target × List Event) × Bool) (name : String) (v : Scalar) (isCur : Val → Bool)
    (hn : t0.name ≠ "") (h : POK a b t0 acc) :
    POK a b t0 (genMetaOneP cfg enc now emit acc name v isCur) := by
  have hn' : acc.1.1.name ≠ "" := by rw [h.step.name]; exact hn
  refine ⟨h.step.trans (genMetaOne_ok cfg enc now emit acc.1 name v isCur h.step.inv hn'), ?_⟩
  have hc := genMetaOne_call_no_panic cfg enc now acc.1.1 name v h.step.inv hn'
  simp only [genMetaOneP, h.flag, metaCallPanics, hc, decide_false, Bool.and_false, Bool.or_false]

theorem foldl_pok {a b : Int} {t0 : Target}
    (g : (Target × List Event) × Bool → String → (Target × List Event) × Bool)
    (hg : ∀ acc x, POK a b t0 acc → POK a b t0 (g acc x)) :
    ∀ (l : List String) (acc : (Target × List Event) × Bool), POK a b t0 acc → POK a b t0 (l.foldl g acc)
  | [], _, h => h
  | x :: l, acc, h => foldl_pok g hg l (g acc x) (hg acc x h)

theorem generateMetaUpdatesP_ok {a b : Int} (cfg : Cfg) (enc : String → String) (now : Int) (emit : Bool)
    (t : Target) (hi : TInvD a b t) (hn : t.name ≠ "") :
    POK a b t (generateMetaUpdatesP cfg enc now emit t) := by
  unfold generateMetaUpdatesP
  suffices h : POK a b t (strNames.foldl (strStepP cfg enc now emit)
      (intNames.foldl (intStepP cfg enc now emit)
        (boolNames.foldl (boolStepP cfg enc now emit) ((t, []), false)))) by
    unfold genServerNameP; split
    · exact genMetaOneP_ok cfg enc now emit _ _ _ _ hn h
    · exact h
  apply foldl_pok
  · intro acc x h; unfold strStepP; split
    · exact genMetaOneP_ok cfg enc now emit acc x _ _ hn h
    · exact h
  apply foldl_pok
  · intro acc x h; unfold intStepP; split
    · exact genMetaOneP_ok cfg enc now emit acc x _ _ hn h
    · exact h
  apply foldl_pok
  · intro acc x h; unfold boolStepP; split
    · exact genMetaOneP_ok cfg enc now emit acc x _ _ hn h
    · exact h
  exact ⟨MetaStep.refl hi, rfl⟩

/-- **`updateMeta` (the periodic refresh of one target) reaches no panic**, for any counters
`a`, `b` offsets (so also right after `Reset` cleared the metadata). -/
theorem updateMetaP_no_panic {a b : Int} (cfg : Cfg) (enc : String → String) (now : Int) (emit : Bool)
    (t : Target) (hi : TInvD a b t) (hn : t.name ≠ "") : (updateMetaP cfg enc now emit t).2 = false := by
  exact (generateMetaUpdatesP_ok (a := a) (b := b) cfg enc now emit
    { t with md := { t.md with latest := match t.latest with
      | some x => x
      | none => zeroUnixNano } } (hi.with_md _ ⟨rfl, rfl, rfl⟩) hn).flag

/-- **`Reset` reaches no panic.** -/
theorem resetP_no_panic (cfg : Cfg) (enc : String → String) (now : Int) (t : Target) (hi : TInv t)
    (hn : t.name ≠ "") : (resetP cfg enc now t).2 = false := by
  have h0 : TInvD (0 - (nm t.tree : Nat)) 0 { t with latest := none, md := Meta.clear } :=
    ⟨hi.unique, hi.hasUpd, hi.nonEmpty, by simp [Meta.clear], by simp [Meta.clear]⟩
  exact updateMetaP_no_panic cfg enc now true _ h0 hn

/-- **`Cache.UpdateMetadata` reaches no panic** on any well-formed cache state. -/
theorem updateMetadataP_no_panic (s : State) (enc : String → String) (now : Int) (hs : SInv s) :
    (updateMetadataP s enc now).2 = false := by
  unfold updateMetadataP
  suffices ∀ (l : List (String × Target)) (acc : (State × List Event) × Bool), SInv acc.1.1 → acc.2 = false →
      (l.foldl (fun acc kv =>
        match acc.1.1.get kv.1 with
        | none => acc
        | some t =>
          let r := updateMetaP s.cfg enc now true t
          ((acc.1.1.set kv.1 r.1.1, acc.1.2 ++ r.1.2), acc.2 || r.2)) acc).2 = false from
    this s.targets ((s, []), false) hs rfl
  intro l
  induction l with
  | nil => intro acc _ h; exact h
  | cons kv l ih =>
    intro acc h hf
    simp only [List.foldl_cons]
    split
    · exact ih _ h hf
    · rename_i t hg
      obtain ⟨h1, h2, h3⟩ := h kv.1 t hg
      have hn : t.name ≠ "" := by rw [h2]; exact h3
      have hm := updateMeta_ok s.cfg enc now true t h1 hn
      apply ih
      · simp only [updateMetaP_fst]
        exact h.set ⟨hm.inv, hm.name.trans h2, h3⟩
      · simp only [hf, updateMetaP_no_panic s.cfg enc now true t h1 hn, Bool.or_false]

/-! ## every API call -/

/-- Does evaluating the API call `op` in state `s` reach a panic in any of the
`Target.gnmiUpdate` / `gnmiUpdate1` calls it makes?  (`Add` and `Remove` make none.) -/
def panics (enc : String → String) (s : State) : Op → Bool
  | .add _ => false
  | .remove _ _ => false
  | .reset name now =>
    match s.get name with
    | none => false
    | some t => (resetP s.cfg enc now t).2
  | .sync name now =>
    match s.get name with
    | none => false
    | some t => decide ((t.gnmiUpdate s.cfg now (metaNoti enc name "sync" (.bool true) now)).1 = .panic)
  | .connect name now =>
    match s.get name with
    | none => false
    | some t =>
      let r := t.gnmiUpdate s.cfg now (metaNoti enc name "connected" (.bool true) now)
      decide (r.1 = .panic) ||
      decide ((r.2.1.gnmiUpdate s.cfg now (deleteNotiOf enc name [metaRoot, "connectError"] now)).1 = .panic)
  | .connectError name msg now =>
    match s.get name with
    | none => false
    | some t =>
      decide ((t.gnmiUpdate s.cfg now (metaNoti enc name "connectError" (.str msg) now)).1 = .panic)
  | .update now pn n => decide ((s.gnmiUpdate now pn n).1 = .panic)
  | .updateMetadata now => (updateMetadataP s enc now).2

/-- `Sync` on a well-formed target: its `GnmiUpdate` does not panic. -/
theorem sync_no_panic (enc : String → String) (cfg : Cfg) (now : Int) (t : Target) (name : String)
    (hi : TInv t) (hn : name ≠ "") :
    (t.gnmiUpdate cfg now (metaNoti enc name "sync" (.bool true) now)).1 ≠ .panic :=
  (gnmiUpdate_ok cfg now t _ hi hn).1

/-- `Connect`: neither the `meta/connected` update nor the `meta/connectError` delete panics. -/
theorem connect_no_panic (enc : String → String) (cfg : Cfg) (now : Int) (t : Target) (name : String)
    (hi : TInv t) (hn : name ≠ "") :
    let r := t.gnmiUpdate cfg now (metaNoti enc name "connected" (.bool true) now)
    r.1 ≠ .panic ∧
    (r.2.1.gnmiUpdate cfg now (deleteNotiOf enc name [metaRoot, "connectError"] now)).1 ≠ .panic := by
  obtain ⟨a, b, _, _⟩ := gnmiUpdate_ok cfg now t (metaNoti enc name "connected" (.bool true) now) hi hn
  exact ⟨a, (gnmiUpdate_ok cfg now _ (deleteNotiOf enc name [metaRoot, "connectError"] now) b hn).1⟩

/-- `ConnectError` with any message. -/
theorem connectError_no_panic (enc : String → String) (cfg : Cfg) (now : Int) (t : Target)
    (name msg : String) (hi : TInv t) (hn : name ≠ "") :
    (t.gnmiUpdate cfg now (metaNoti enc name "connectError" (.str msg) now)).1 ≠ .panic :=
  (gnmiUpdate_ok cfg now t _ hi hn).1

/-- On a well-formed state no API call reaches a panic. -/
theorem panics_false (enc : String → String) (s : State) (op : Op) (hs : SInv s) :
    panics enc s op = false := by
  cases op with
  | add name => rfl
  | remove name now => rfl
  | reset name now =>
    simp only [panics]
    split
    · rfl
    · rename_i t hg
      obtain ⟨h1, h2, h3⟩ := hs name t hg
      exact resetP_no_panic s.cfg enc now t h1 (by rw [h2]; exact h3)
  | sync name now =>
    simp only [panics]
    split
    · rfl
    · rename_i t hg
      obtain ⟨h1, _, h3⟩ := hs name t hg
      simp [sync_no_panic enc s.cfg now t name h1 h3]
  | connect name now =>
    simp only [panics]
    split
    · rfl
    · rename_i t hg
      obtain ⟨h1, _, h3⟩ := hs name t hg
      obtain ⟨a, b⟩ := connect_no_panic enc s.cfg now t name h1 h3
      simp [a, b]
  | connectError name msg now =>
    simp only [panics]
    split
    · rfl
    · rename_i t hg
      obtain ⟨h1, _, h3⟩ := hs name t hg
      simp [connectError_no_panic enc s.cfg now t name msg h1 h3]
  | update now pn n =>
    have := (step_sinv enc s (.update now pn n) hs trivial).2
    simp only [State.step] at this
    simp [panics, this]
  | updateMetadata now => exact updateMetadataP_no_panic s enc now hs

/-- **C12, metadata refresh.** In every state reachable by any history of API calls (targets
registered under non-empty names), no further API call — `Sync`, `Connect`, `ConnectError`,
`Reset`, `UpdateMetadata`, `GnmiUpdate` — reaches a panic in any of the cache-update calls it
makes internally. -/
theorem meta_refresh_no_panic (enc : String → String) (cfg : Cfg) (ops : List Op)
    (hv : ∀ op ∈ ops, op.valid) (op : Op) :
    panics enc (State.run enc { cfg := cfg } ops) op = false :=
  panics_false enc _ op (run_sinv enc ops _ (SInv.empty cfg) hv)

/-- `panics` observes the calls of the existing model: for `GnmiUpdate` it is the result class
`State.step` reports, for the refresh calls the new state and events are those of `State.step`. -/
theorem panics_update_iff (enc : String → String) (s : State) (now : Int) (pn : Bool) (n : Noti) :
    panics enc s (.update now pn n) = true ↔ (s.step enc (.update now pn n)).2.1 = .panic := by
  simp [panics, State.step]

theorem updateMetadataP_step (enc : String → String) (s : State) (now : Int) :
    (updateMetadataP s enc now).1.1 = (s.step enc (.updateMetadata now)).1 ∧
    (updateMetadataP s enc now).1.2 = (s.step enc (.updateMetadata now)).2.2 := by
  rw [updateMetadataP_fst]; exact ⟨rfl, rfl⟩

/-! ### the observation is not vacuous: on an ill-formed target the refresh does panic -/

/-- a target whose `meta/sync` leaf holds a notification without updates (cannot be reached
through the API: `hasUpd`) -/
def tBad : Target :=
  { name := "dev", tree := [(["meta", "sync"], { ts := 0, target := "dev" })] }

example : metaCallPanics {} id 5 tBad "sync" (.bool false) = true := by decide
example : (updateMetaP {} id 5 true tBad).2 = true := by decide

/-- a reachable-shaped target storing a wrong-typed value under `meta/targetLeaves` (what D7
crashed on): the refresh overwrites it, no panic -/
def tWrong : Target :=
  { name := "dev",
    tree := [(["meta", "targetLeaves"],
      { ts := 1, target := "dev", praw := "p",
        upd := [{ path := ["meta", "targetLeaves"], val := .scalar (.str "x"), raw := "u" }] })] }

example : TInv tWrong :=
  ⟨by simp [UniqueKeys, tWrong], by simp [tWrong], by simp [tWrong], by simp [tWrong, nm, isMetaKey, metaRoot],
   by simp [tWrong]⟩
example : (updateMetaP {} id 5 true tWrong).2 = false := by decide
example : panics id { targets := [("dev", tWrong)] } (.updateMetadata 5) = false := by decide
example : panics id { targets := [("dev", tWrong)] } (.reset "dev" 5) = false := by decide
example : panics id { targets := [("dev", tWrong)] } (.connect "dev" 5) = false := by decide

/-- a target of a cache created `WithServerName` whose `meta/serverName` leaf holds a wrong-typed
value: the fourth step of the refresh (`genServerName`) overwrites it, no panic; on the ill-formed
variant (leaf without update) that step does panic, so the observation covers it -/
def tSrv : Target :=
  { name := "dev", serverName := some "srv",
    tree := [(["meta", "serverName"],
      { ts := 1, target := "dev", praw := "p",
        upd := [{ path := ["meta", "serverName"], val := .scalar (.int 3), raw := "u" }] })] }

example : (updateMetaP {} id 5 true tSrv).2 = false := by decide
example : panics id { cfg := { serverName := "srv" }, targets := [("dev", tSrv)] } (.updateMetadata 5) = false := by
  decide
example : (updateMetaP {} id 5 true
    { tSrv with tree := [(["meta", "serverName"], { ts := 0, target := "dev" })] }).2 = true := by decide

end C12
end Gnmi
