import Gnmi.Lemmas.CTreeConcXRank
/-!
# C10 — never panics, never deadlocks (writer preference), every operation completes

Theorems about the extended locking-protocol LTS `CX` of `Model/CTreeConcX.lean` (the LTS `CC`
of `Model/CTreeConc.lean` with panic outcomes, `sync.RWMutex` writer preference and the read-side
node operations).  `CX.real` is the code as it is; `Reach CX.real s` quantifies over every finite
interleaving, for any number `n` of threads.
-/
namespace Gnmi
namespace C10Safe
open Trie CC CX

variable {n : Nat}

/-! ## 1. panic freedom -/

/-- **No panic.**  No reachable configuration of the code as it is has a panic outcome: no
thread ever finds the node it has locked gone, a walk never finds a child of its snapshot
missing, the unchecked `t.leafBranch.(branch)` of `Children()` never fails, for any number of
threads, any operations, any schedule. -/
theorem never_panics {s : CX.Cfg n} (hr : CX.Reach CX.real s) : s.panic = none :=
  panic_none rfl hr

/-- … in the stronger form: in a reachable configuration no transition's panic condition holds
(so a panic is not even *enabled*). -/
theorem no_panic_enabled {s : CX.Cfg n} (hr : CX.Reach CX.real s) (l : CX.Label n) :
    panics CX.real s l = false :=
  no_panic rfl hr l

theorem reach_exec {v : Variant} : ∀ (ls : List (CX.Label n)) {s s' : CX.Cfg n}, CX.Reach v s →
    CX.exec v s ls = some s' → CX.Reach v s'
  | [], s, s', hr, h => by simp only [CX.exec, Option.some.injEq] at h; exact h ▸ hr
  | l :: ls, s, s', hr, h => by
      simp only [CX.exec] at h
      cases hn : CX.next v s l with
      | none => simp [hn] at h
      | some s1 =>
        simp only [hn] at h
        exact reach_exec ls (CX.Reach.step hr hn) h

/-- the variant without the re-examination of the node after the lock upgrade: after `Lock()`
the node is taken to be what it was under the read lock (`t.leafBranch.(branch)` unchecked).
(The seeded change c10_seed has this shape for the `nil` case only — it remembers `empty` and
installs `newBranch(path, value).leafBranch` without looking again —, which does not panic but
overwrites what was added in the window: that is `C10.mutant_loses_leaf`.  The panic needs the
branch case of the same omission, witnessed here.) -/
def noRecheck : Variant := { rc := false }

/-- `Add(a)` reads the empty root and gives up its read lock; `Add([])` makes the root a leaf;
the first add takes the write lock and — in the variant — asserts `t.leafBranch.(branch)` -/
def staleTrace : List (CX.Label 2) := [
  .call 0 .plain (.add ["a"] 1), .b (.rlockRoot 0), .b (.upgRelease 0),
  .call 1 .plain (.add [] 5), .announce 1, .b (.termRoot 1), .b (.ret 1),
  .announce 0, .b (.upgAcquire 0), .b (.insert 0)]

set_option maxRecDepth 16000 in
/-- **Without the re-check the theorem fails**: in the variant a panic is reachable. -/
theorem never_panics_fails_without_recheck :
    ∃ s : CX.Cfg 2, CX.Reach noRecheck s ∧ s.panic = some 0 := by
  have h : ((CX.exec noRecheck (CX.init 2) staleTrace).map (·.panic)) = some (some 0) := by decide
  cases he : CX.exec noRecheck (CX.init 2) staleTrace with
  | none => rw [he] at h; cases h
  | some s =>
    rw [he] at h
    exact ⟨s, reach_exec _ CX.Reach.init he, by simpa using h⟩

set_option maxRecDepth 16000 in
/-- the same schedule in the code as it is: `insert` is not enabled (the type switch of
`slowAdd` takes the `default:` arm), the add returns its error, nobody panics -/
example : (CX.exec CX.real (CX.init 2) staleTrace) = none ∧
    ((CX.exec CX.real (CX.init 2) (staleTrace.dropLast ++ [.b (.addErr 0), .b (.unlock 0), .b (.ret 0)])).map
      (fun s => (s.panic, walk s.base.trie))) = some (none, [([], 5)]) := by
  constructor <;> decide

/-! ## 2. lock order, no recursive read lock -/

theorem wants_cases {rc : Bool} {b : CC.Cfg n} {τ : Fin n} {x : Path} {m : Mode}
    (h : wants rc b τ = some (x, m)) :
    (lockSite rc b τ = some x ∧ m = .W) ∨ ((b.thr τ).pc = .start ∧ x = [] ∧ m = .R) ∨
    ((b.thr τ).pc = .run ∧ ∃ f k, (b.thr τ).top = some f ∧ x = f.node ++ [k] ∧ m = .R) := by
  unfold wants at h
  simp only at h
  split at h
  · rename_i y hy
    simp only [Option.some.injEq, Prod.mk.injEq] at h
    exact Or.inl ⟨by rw [hy, h.1], h.2.symm⟩
  · split at h
    · rename_i hpc
      right; left
      split at h
      · cases h
      · cases h
      · simp only [Option.some.injEq, Prod.mk.injEq] at h
        exact ⟨hpc, h.1.symm, h.2.symm⟩
    · rename_i hpc
      right; right
      split at h
      · rename_i f htop
        split at h
        · split at h
          · rename_i k nd hk hget
            split at h
            · split at h
              · cases h
              · simp only [Option.some.injEq, Prod.mk.injEq] at h
                exact ⟨hpc, f, k, htop, h.1.symm, h.2.symm⟩
            · cases h
          · cases h
        · cases h
      · cases h
    · cases h

theorem proper_of_prefix_append {a b : Path} {k : String} (h : a <+: b) :
    a <+: b ++ [k] ∧ a ≠ b ++ [k] := by
  refine ⟨h.trans (List.prefix_append _ _), ?_⟩
  intro e
  have := h.length_le
  rw [e] at this
  simp only [List.length_append, List.length_singleton] at this
  omega

/-- **Lock order.**  Whatever lock a thread asks for next (granted or not), every lock it holds
is on a proper ancestor of that node: locks are only ever acquired parent before child. -/
theorem lock_order {s : CX.Cfg n} (hr : CX.Reach CX.real s) (τ : Fin n) (x : Path) (m : Mode)
    (hw : wants true s.base τ = some (x, m)) :
    ∀ f ∈ (s.base.thr τ).stack, f.node <+: x ∧ f.node ≠ x := by
  have hi := inv_reach (reach_base hr)
  intro f hf
  have hne : (s.base.thr τ).stack ≠ [] := by intro e; rw [e] at hf; cases hf
  rcases wants_cases hw with ⟨hs, _⟩ | ⟨hpc, _, _⟩ | ⟨hpc, g, k, htop, hx, _⟩
  · cases lockSite_cases hs with
    | termRoot v hpc _ _ => exact absurd (hi.idle τ (Or.inr hpc)) hne
    | delete q m' hpc _ _ => exact absurd (hi.idle τ (Or.inr hpc)) hne
    | upgAcquire hpc hy =>
      have hc := (hi.win τ hpc).chain
      have h1 := chain_prefix _ _ _ rfl hc f (List.mem_cons_of_mem _ hf)
      have h2 := chain_mem_len _ (chain_tail hc) f hf
      have h3 := chain_top_len _ _ hc
      simp only at h1 h3
      subst hy
      refine ⟨h1, fun e => ?_⟩
      rw [e, h3] at h2; exact Nat.lt_irrefl _ h2
    | termWrite p v g k nd hpc hc htop hrest hget hch hm hy =>
      subst hy
      obtain ⟨r, hst⟩ := stack_of_top htop
      exact proper_of_prefix_append (chain_prefix _ g r hst (hi.chain τ) f hf)
  · exact absurd (hi.idle τ (Or.inr hpc)) hne
  · subst hx
    obtain ⟨r, hst⟩ := stack_of_top htop
    exact proper_of_prefix_append (chain_prefix _ g r hst (hi.chain τ) f hf)

/-- **No recursive read lock** (tree locks): a thread never asks for a read lock on a mutex it
already holds (in either mode).  With writer preference a recursive `RLock` deadlocks as soon
as a writer announces itself in between. -/
theorem no_recursive_rlock {s : CX.Cfg n} (hr : CX.Reach CX.real s) (τ : Fin n) (x : Path)
    (hw : wants true s.base τ = some (x, .R)) : ¬ s.base.holds τ x := by
  rintro ⟨f, hf, hn⟩
  exact (lock_order hr τ x .R hw f hf).2 hn

/-- … and node operations: a thread inside `Value`/`IsBranch`/`Children`/`Leaf.Value` on a leaf
node holds no tree lock, asks for the node's read lock only while it does not hold it
(`nRLock` needs `pc = want`), and the nested `RLock` of the seeded variant (`nRLock2`) does not
exist in the code as it is. -/
theorem no_recursive_rlock_node {s : CX.Cfg n} (hr : CX.Reach CX.real s) (τ : Fin n) (o : NOp)
    (ho : (s.xt τ).nop = some o) :
    (s.base.thr τ).stack = [] ∧ CX.guard CX.real s (.nRLock2 τ) = false ∧
    (CX.guard CX.real s (.nRLock τ) = true → readsH s τ o.h = false) := by
  have hi := inv_reach (reach_base hr)
  have hx := xinv_reach rfl hr
  refine ⟨hi.idle τ (Or.inl (hx.nopIdle τ (by rw [ho]; simp)).1), by simp [CX.guard, CX.real], ?_⟩
  intro hg
  simp only [CX.guard, ho, Bool.and_eq_true, beq_iff_eq] at hg
  simp [readsH, ho, hg.1.1]

/-! ## 2b. no deadlock under writer preference -/

/-- **No deadlock, with `sync.RWMutex` writer preference.**  In every reachable configuration in
which some operation (tree call, node operation, announced `Lock()`) is unfinished, some thread
with an unfinished operation has an enabled transition that is not the start of a new operation.
Reason (`CX.busy_moves`): a thread that cannot move waits for a lock; a read lock is refused only
because of a holder or of an announced writer, who in turn waits only for holders; holders of a
tree node hold strictly more tree locks than the waiting thread (`lock_order`), holders of a leaf
node inside a node operation need no further lock (`no_recursive_rlock_node`). -/
theorem no_deadlock_wp {s : CX.Cfg n} (hr : CX.Reach CX.real s) (τ : Fin n) (hb : busy s τ) :
    ∃ (l : CX.Label n) (s' : CX.Cfg n), busy s l.tid ∧ isStart l = false ∧ CX.Step CX.real s l s' := by
  have hbr := reach_base hr
  obtain ⟨l, h1, h2, h3⟩ := xprogress (inv_reach hbr) (inv2_reach hbr) (xinv_reach rfl hr) τ hb
  exact ⟨l, _, h1, h2, next_of_guard rfl hr h3⟩

/-- the seeded variant c10_seed7: `Tree.Value` calls the locking `IsBranch` -/
def recValue : Variant := { rv := true }

def hA : Handle := ⟨["a"], 0⟩

/-- thread 0 adds the leaf `a`, fetches it (`Get`) and calls `Value()` on it: first `RLock`;
thread 1 calls `Leaf.Update` on the same leaf: `Lock()` announced -/
def recTrace : List (CX.Label 2) := [
  .call 0 .plain (.add ["a"] 1), .b (.rlockRoot 0), .b (.upgRelease 0), .announce 0, .b (.upgAcquire 0),
  .b (.insert 0), .b (.unlock 0), .b (.ret 0),
  .call 0 .plain (.get ["a"]), .b (.rlockRoot 0), .b (.rlockChild 0), .b (.getHit 0), .b (.unlock 0),
  .b (.unlock 0), .b (.ret 0),
  .nBegin 0 hA .treeValue, .nRLock 0, .announceH 1 hA 7]

def recCfg : CX.Cfg 2 := (CX.exec recValue (CX.init 2) recTrace).getD (CX.init 2)

set_option maxRecDepth 16000 in
theorem recCfg_reach : CX.Reach recValue recCfg := by
  have h : (CX.exec recValue (CX.init 2) recTrace).isSome = true := by decide
  obtain ⟨s, hs⟩ := Option.isSome_iff_exists.1 h
  have : recCfg = s := by simp [recCfg, hs]
  rw [this]
  exact reach_exec _ CX.Reach.init hs

set_option maxRecDepth 32000 in
/-- **With the recursive read lock the theorems fail** (seeded change c10_seed7): a reachable
configuration of the variant in which thread 0 read-holds the leaf `a` and needs a second read
lock on it (`no_recursive_rlock_node` is false of the variant), thread 1 has announced its
`Lock()` on `a`, nobody has panicked, both operations are unfinished and **no** transition
other than the start of a new operation is enabled, now or ever (a stuck configuration stays
stuck: new operations do not release locks). -/
theorem deadlock_with_recursive_rlock :
    CX.Reach recValue recCfg ∧ recCfg.panic = none ∧ busy recCfg 0 ∧ busy recCfg 1 ∧
    (recCfg.xt 0).nop = some ⟨hA, .treeValue, .locked⟩ ∧ (recCfg.xt 1).pend = some (.handle hA 7) ∧
    readsH recCfg 0 hA = true ∧ noPendH recCfg 0 hA = false ∧
    Stuck recValue recCfg := by
  refine ⟨recCfg_reach, by decide, Or.inr (Or.inl (by decide)), Or.inr (Or.inr (by decide)), by decide,
    by decide, by decide, by decide, stuck_of_cands (by decide)⟩

set_option maxRecDepth 16000 in
/-- the same schedule in the code as it is: thread 0 finishes `Value()` without a second lock,
then thread 1's update goes through -/
example : ((CX.exec CX.real (CX.init 2) (recTrace ++ [.nRUnlock 0, .b (.hupd 1 hA 7)])).map
    (fun s => (s.panic, (s.xt 0).nres, walk s.base.trie))) = some (none, .leaf 1, [(["a"], 7)]) := by
  decide

/-- writer preference is visible: thread 0 is inside `Get(a)` holding the root's read lock,
thread 1 has announced the `Lock()` of a `Delete`, thread 2's `RLock` of the root is refused
although `CC` (no writer preference) would grant it; thread 0 can move -/
def wpTrace : List (CX.Label 3) := [
  .call 0 .plain (.add ["a"] 1), .b (.rlockRoot 0), .b (.upgRelease 0), .announce 0, .b (.upgAcquire 0),
  .b (.insert 0), .b (.unlock 0), .b (.ret 0),
  .call 0 .plain (.get ["a"]), .b (.rlockRoot 0),
  .call 1 .plain (.del [] none), .announce 1,
  .call 2 .walk (.query [])]

def wpCfg : CX.Cfg 3 := (CX.exec CX.real (CX.init 3) wpTrace).getD (CX.init 3)

set_option maxRecDepth 16000 in
theorem wpCfg_reach : CX.Reach CX.real wpCfg := by
  have h : (CX.exec CX.real (CX.init 3) wpTrace).isSome = true := by decide
  obtain ⟨s, hs⟩ := Option.isSome_iff_exists.1 h
  have : wpCfg = s := by simp [wpCfg, hs]
  rw [this]
  exact reach_exec _ CX.Reach.init hs

set_option maxRecDepth 32000 in
/-- non-vacuity of `no_deadlock_wp`, `lock_order`: three unfinished operations, a refused reader -/
example : CX.Reach CX.real wpCfg ∧ busy wpCfg 0 ∧ busy wpCfg 1 ∧ busy wpCfg 2 ∧
    CC.guard true wpCfg.base (.rlockRoot 2) = true ∧ CX.guard CX.real wpCfg (.b (.rlockRoot 2)) = false ∧
    CX.guard CX.real wpCfg (.b (.delete 1)) = false ∧ CX.guard CX.real wpCfg (.b (.rlockChild 0)) = true ∧
    wants true wpCfg.base 0 = some (["a"], .R) ∧ wants true wpCfg.base 1 = some ([], .W) := by
  refine ⟨wpCfg_reach, Or.inl (by decide), Or.inl (by decide), Or.inl (by decide), by decide, by decide,
    by decide, by decide, by decide, by decide⟩

/-! ## 3a. persistence -/

/-- **Persistence.**  An enabled transition of thread `τ` that takes no lock (the steps inside a
critical section, unlocks, returns, the announcement of a `Lock()`) stays enabled whatever the
other threads do: only `τ` itself can disable it (by taking it).  Together with
`no_deadlock_wp` and `runs_terminate` below: a thread is never stuck for ever. -/
theorem persistence {s s' : CX.Cfg n} {l' : CX.Label n} (hr : CX.Reach CX.real s)
    (h : CX.Step CX.real s l' s') (l : CX.Label n) (hl : isLocal l = true) (hne : l.tid ≠ l'.tid)
    (hg : CX.guard CX.real s l = true) : CX.guard CX.real s' l = true := by
  obtain ⟨hg', rfl⟩ := guard_of_step rfl hr h
  have hf := step_facts (v := CX.real) rfl (reach_base hr) hg'
  have hxt := hf.xt l.tid hne
  have hthr := hf.thr l.tid hne
  have hfro : ∀ f, (s.base.thr l.tid).top = some f →
      shallow (Trie.get (CX.eff CX.real s l').base.trie f.node) = shallow (Trie.get s.base.trie f.node) :=
    fun f htop => hf.fro l.tid hne f (mem_of_top htop)
  cases l with
  | b l0 =>
    simp only [isLocal] at hl
    simp only [CX.guard, Bool.and_eq_true] at hg ⊢
    refine ⟨guard_local_congr hl hthr hfro hg.1, ?_⟩
    cases l0 <;> simp only [isLocalB] at hl <;> (try cases hl) <;>
      simp only [CX.Label.tid, CC.Label.tid] at hxt <;> simp only [bguard, hxt] <;> exact hg.2
  | announce τ =>
    simp only [CX.Label.tid] at hxt hthr hfro
    simp only [CX.guard, Bool.and_eq_true, hxt] at hg ⊢
    refine ⟨hg.1, ?_⟩
    obtain ⟨y, hy⟩ := Option.isSome_iff_exists.1 hg.2
    rw [lockSite_congr hthr hfro hy]; rfl
  | rootCheck τ =>
    simp only [CX.Label.tid] at hxt hthr
    simpa only [CX.guard, hxt, hthr] using hg
  | nRUnlock τ =>
    simp only [CX.Label.tid] at hxt
    simpa only [CX.guard, hxt] using hg
  | _ => cases hl

set_option maxRecDepth 32000 in
/-- non-vacuity of `persistence`: thread 0 is inside `Get(a)` with `getHit` enabled, thread 1 has
announced a delete; thread 2 starts a walk; `getHit 0` is still enabled -/
example : ((CX.exec CX.real (CX.init 3) (wpTrace.dropLast ++ [.b (.rlockChild 0)])).map
    (fun s => (CX.guard CX.real s (.b (.getHit 0)), isLocal (.b (.getHit 0) : CX.Label 3),
      (CX.next CX.real s (.call 2 .walk (.query []))).map (fun s' => CX.guard CX.real s' (.b (.getHit 0)))))) =
    some (true, true, some true) := by decide

/-! ## 3b. every started operation completes -/

/-- **Variant.**  Every transition that is not the start of a new operation decreases
`CX.rank` = (sum of the ranks of the adds / gets / deletes / node operations / announced locks —
a function of (path length − depth, program point, locks held) per thread —, remaining work of
the queries and walks) in the lexicographic order. -/
theorem every_step_decreases {s s' : CX.Cfg n} {l : CX.Label n} (hr : CX.Reach CX.real s)
    (hs : isStart l = false) (h : CX.Step CX.real s l s') :
    Prod.Lex (· < ·) (· < ·) (CX.rank s') (CX.rank s) := by
  obtain ⟨hg, rfl⟩ := guard_of_step rfl hr h
  exact rank_step hr hs hg

/-- one transition of a started operation from a reachable configuration -/
def Continues (s' s : CX.Cfg n) : Prop :=
  ∃ l, CX.Reach CX.real s ∧ isStart l = false ∧ CX.Step CX.real s l s'

/-- **No infinite run without new operations**: whatever the schedule, the operations in flight
can only take finitely many transitions (no livelock, e.g. no endless sequence of lock upgrades). -/
theorem runs_terminate : WellFounded (Continues (n := n)) := by
  have hwf : WellFounded (Prod.Lex (fun a b : Nat => a < b) (fun a b : Nat => a < b)) :=
    (Prod.lex Nat.lt_wfRel Nat.lt_wfRel).wf
  refine Subrelation.wf ?_ (InvImage.wf CX.rank hwf)
  rintro s' s ⟨l, hr, hs, h⟩
  exact every_step_decreases hr hs h

/-- **Every started operation completes** (starvation freedom, ∃-run form).  From every
reachable configuration there is a run, consisting only of transitions of the operations in
flight (no new operation is started), to a configuration in which every thread is idle again:
every `Add`, `Get`, `Query`, `Walk`, `Delete`, `Value`/`IsBranch`/`Children`, `Leaf.Update` that
has been started has returned.  (Stronger, by `runs_terminate` and `no_deadlock_wp`: *every*
maximal run without new operations is finite and ends like this.) -/
theorem every_op_completes {s : CX.Cfg n} (hr : CX.Reach CX.real s) :
    ∃ (ls : List (CX.Label n)) (s' : CX.Cfg n), (∀ l ∈ ls, isStart l = false) ∧
      CX.exec CX.real s ls = some s' ∧ ∀ τ, ¬ busy s' τ := by
  induction s using (runs_terminate (n := n)).induction with
  | _ s ih =>
    by_cases hb : ∃ τ, busy s τ
    · obtain ⟨τ, hτ⟩ := hb
      obtain ⟨l, s1, _, hs, hstep⟩ := no_deadlock_wp hr τ hτ
      obtain ⟨ls, s', h1, h2, h3⟩ := ih s1 ⟨l, hr, hs, hstep⟩ (CX.Reach.step hr hstep)
      refine ⟨l :: ls, s', ?_, ?_, h3⟩
      · intro l' hl'
        rcases List.mem_cons.1 hl' with e | e
        · rw [e]; exact hs
        · exact h1 l' e
      · simp only [CX.exec]
        rw [show CX.next CX.real s l = some s1 from hstep]
        exact h2
    · exact ⟨[], s, by simp, rfl, fun τ hτ => hb ⟨τ, hτ⟩⟩

/-- in particular the operation of any given thread returns: its base program counter is `idle`,
it is inside no node operation and has no announced lock -/
theorem op_returns {s : CX.Cfg n} (hr : CX.Reach CX.real s) (τ : Fin n) :
    ∃ (ls : List (CX.Label n)) (s' : CX.Cfg n), (∀ l ∈ ls, isStart l = false) ∧
      CX.exec CX.real s ls = some s' ∧ (s'.base.thr τ).pc = .idle ∧ (s'.xt τ).nop = none ∧
      (s'.xt τ).pend = none := by
  obtain ⟨ls, s', h1, h2, h3⟩ := every_op_completes hr
  refine ⟨ls, s', h1, h2, ?_, ?_, ?_⟩
  · exact Classical.byContradiction fun h => h3 τ (Or.inl h)
  · exact Classical.byContradiction fun h => h3 τ (Or.inr (Or.inl h))
  · exact Classical.byContradiction fun h => h3 τ (Or.inr (Or.inr h))

/-! ## 4. walks -/

/-- a thread tagged `Walk`/`WalkSorted` runs the base call `query []` -/
theorem walk_call {s : CX.Cfg n} (hr : CX.Reach CX.real s) (τ : Fin n)
    (ha : (s.xt τ).api.isWalk = true) (hpc : (s.base.thr τ).pc ≠ .idle) :
    (s.base.thr τ).call = .query [] :=
  isWalk_call ((xinv_reach rfl hr).api τ hpc) ha

/-- **A walk reports only what was there.**  At every moment of a running `Walk`/`WalkSorted`:
every (path, value) pair handed to the visit function so far was a leaf with that value in some
configuration since the walk was invoked (`qmay`: `C10.qmay_at_invoke`, `qmay_stutter`,
`C10.qmay_later`), and no path was reported twice. -/
theorem walk_reports_sound {s : CX.Cfg n} (hr : CX.Reach CX.real s) (τ : Fin n)
    (ha : (s.xt τ).api.isWalk = true) (hpc : (s.base.thr τ).pc = .run) :
    (∀ kv ∈ (s.base.thr τ).out, kv ∈ s.base.qmay τ) ∧ ((s.base.thr τ).out.map (·.1)).Nodup := by
  have hc := walk_call hr τ ha (by rw [hpc]; simp)
  have := C10.query_reports_sound (reach_base hr) τ [] hc hpc
  exact ⟨fun kv hkv => (this.1 kv hkv).1, this.2⟩

/-- **A finished walk has reported every leaf that was there throughout** (and the list it
returns is what it reported). -/
theorem walk_complete {s : CX.Cfg n} (hr : CX.Reach CX.real s) (τ : Fin n)
    (ha : (s.xt τ).api.isWalk = true) (hpc : (s.base.thr τ).pc = .run)
    (hst : (s.base.thr τ).stack = []) :
    ∀ k ∈ s.base.qmust τ, ∃ v, (k, v) ∈ (s.base.thr τ).out :=
  (C10.query_stability (reach_base hr) τ [] (walk_call hr τ ha (by rw [hpc]; simp)) hpc hst).1

/-- the ghost sets only change with the base configuration: a transition of `CX` that is not a
transition of `CC` leaves them alone; for the others `C10.qmust_later`/`C10.qmay_later` apply -/
theorem qmay_stutter {s s' : CX.Cfg n} {l : CX.Label n} (h : CX.Step CX.real s l s') :
    s'.base = s.base ∨ ∃ l', l'.tid = l.tid ∧ CC.Step true s.base l' s'.base :=
  step_base h

/-- at the invocation of a walk `qmay` is the content of the tree -/
theorem qmay_at_walk {s : CX.Cfg n} (τ : Fin n) (a : Api) :
    (CX.eff CX.real s (.call τ a (.query []))).base.qmay τ = walk s.base.trie := by
  rw [eff_base]; exact C10.qmay_at_invoke s.base τ []

set_option maxRecDepth 32000 in
/-- non-vacuity of `every_op_completes` / `every_step_decreases`: from `wpCfg` (three operations
in flight, one reader barred by an announced writer; rank `(30, 6)`) the get finishes, then the
delete, then the walk; all threads idle, rank `(6, 0)` (the constant part of the rank) -/
example : ((CX.exec CX.real wpCfg [.b (.rlockChild 0), .b (.getHit 0), .b (.unlock 0), .b (.unlock 0),
      .b (.ret 0), .b (.delete 1), .b (.ret 1), .b (.rlockRoot 2), .b (.unlock 2), .b (.ret 2)]).map
    (fun s => ((List.finRange 3).map (fun τ => decide ((s.base.thr τ).pc = .idle) && xidle s τ), CX.rank s))) =
    some ([true, true, true], (6, 0)) ∧ CX.rank wpCfg = (30, 6) := by
  constructor <;> decide

/-! ## 5. outside the model: `Children()` on a retained branch node (finding)

`Get(p)` hands out the `*Tree` of any node.  `Children()`/`IsBranch()`/`Value()` on such a pointer
lock that node only.  For leaf nodes this is the node operation of the LTS.  For a non-root
**branch** node it is not safe in the code: `internalDelete` removes entries from the child map of
every branch node it passes (`delete(b, k)`, `tree.go:403,437`) holding the root's write lock
only, while `Children()` ranges over the same map under the node's read lock.  The two accesses
share no lock: a data race on a Go map, which the runtime may turn into the unrecoverable
`fatal error: concurrent map iteration and map write`.  (Confirmed on the code with
`go test -race`: `runtime.mapiterinit` in `Children` `tree.go:105` vs `runtime.mapdelete_faststr`
in `internalDelete` `tree.go:437`.)  The witness below uses the access sets of
`Model/CTreeConc.lean`: in a reachable configuration with leaves `a/b`, `a/c`, the enabled
`Delete(a/b)` writes node `a` under `[root W]`; a `Children()` on the retained node `a` reads it
under `[a R]`. -/

def brTrace : List (CX.Label 2) := [
  .call 0 .plain (.add ["a", "b"] 1), .b (.rlockRoot 0), .b (.upgRelease 0), .announce 0, .b (.upgAcquire 0),
  .b (.insert 0), .b (.unlock 0), .b (.ret 0),
  .call 0 .plain (.add ["a", "c"] 2), .b (.rlockRoot 0), .b (.rlockChild 0), .b (.upgRelease 0), .announce 0,
  .b (.upgAcquire 0), .b (.insert 0), .b (.unlock 0), .b (.unlock 0), .b (.ret 0),
  .call 1 .plain (.del ["a", "b"] none), .announce 1]

def brCfg : CX.Cfg 2 := (CX.exec CX.real (CX.init 2) brTrace).getD (CX.init 2)

set_option maxRecDepth 16000 in
theorem brCfg_reach : CX.Reach CX.real brCfg := by
  have h : (CX.exec CX.real (CX.init 2) brTrace).isSome = true := by decide
  obtain ⟨s, hs⟩ := Option.isSome_iff_exists.1 h
  have : brCfg = s := by simp [brCfg, hs]
  rw [this]
  exact reach_exec _ CX.Reach.init hs

/-- `Children()` on the retained branch node `a`: a read of `a`'s map under `a`'s read lock -/
def childrenRead : Access := ⟨0, ["a"], 0, false, [(["a"], .R)], .hval⟩
/-- `delete(b, "b")` on `a`'s map inside `Delete(a/b)`: a write under the root's write lock -/
def deleteWrite : Access := ⟨1, ["a"], 0, true, [([], .W)], .del⟩

set_option maxRecDepth 32000 in
/-- **Finding (outside the model's assumptions).**  A reachable configuration in which
`Delete(a/b)` is enabled and writes the child map of the branch node `a` under the root lock
only; a `Children()` on a retained pointer to `a` conflicts with it and shares no lock. -/
theorem children_on_branch_races :
    CX.Reach CX.real brCfg ∧ CX.guard CX.real brCfg (.b (.delete 1)) = true ∧
    walk brCfg.base.trie = [(["a", "b"], 1), (["a", "c"], 2)] ∧
    deleteWrite ∈ accesses true brCfg.base (.delete 1) ∧
    Conflict childrenRead deleteWrite ∧ ¬ CommonLock childrenRead deleteWrite := by
  refine ⟨brCfg_reach, by decide, by decide, by decide, ⟨by decide, rfl, rfl, Or.inr rfl⟩, ?_⟩
  rintro ⟨x, m1, m2, h1, h2, _⟩
  simp only [childrenRead, deleteWrite, List.mem_singleton, Prod.mk.injEq] at h1 h2
  rw [h1.1] at h2
  exact absurd h2.1 (by decide)

end C10Safe
end Gnmi
