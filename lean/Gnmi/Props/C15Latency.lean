import Gnmi.Lemmas.Latency
/-!
# C15, latency clause

"Latency statistics exported for a window are bounded by the smallest and largest latency
observed in that window, up to the configured averaging precision."

Model: `Model/Latency.lean` (`latency/latency.go`); what "observed in that window" means:
`Spec/Latency.lean` (a function of the call history only).  All theorems are for arbitrary sample
sequences, window configurations (any sizes, also `≤ 0`, also duplicates), update instants and
precisions — no bound on anything.

Hypotheses, each stated where it is used:
* `UpdMono` — monotonic clock, as far as it matters: the clock readings taken by the update calls
  never decrease (implied by `ClockMono`, all readings non-decreasing).  It is necessary:
  `nonmonotonic_clock_breaks_bounds`.
* `0 < sfOf prec` — the configured averaging precision is not negative (`0`/unset means 1 ns).
* durations are unbounded integers (no `int64` overflow of the accumulated totals — the very thing
  `AvgPrecision` exists to avoid).

**Finding (stale export through the `0` = "unset" convention).**  The statement about *written*
values (`latency_bounds`) is proved in full.  The stronger reading — every value a metadata reader
*sees* for a window that covers samples is bounded by those samples — is false of the code
(`exported_bounds`, refuted by `exported_bounds_witness` / `exported_bounds_witness_neg`): a
statistic whose value is `0` (an average below the precision, a maximum over non-positive samples, a
minimum reset by a `0` sample) is not written, and the previously written value stays exported next
to the fresh values of the other two statistics.  `exported_bounds_partial` is what holds: the
exported value is bounded whenever the latest update wrote that statistic.  (That a window
*without* samples keeps its last values is pinned by the repository's tests: `stale_after_idle`.)
-/
namespace Gnmi.C15Lat
open Gnmi.Latency

/-- **latency_bounds.**  Monotonic clock (update readings), positive precision.  After any
sequence of `Compute`/`UpdateReset`/`UpdateLast` calls on a fresh `Latency`, every value written by
an update call (`UpdateReset` or `UpdateLast`) at clock reading `now` for a window of size
`wr.size` is bounded (`Bounded`) by the samples `S` that window covers at `now`:
`S` is not empty, the value is not `0`, and
* `max`: the value **is** the largest sample of `S`;
* `min`: the value is a sample of `S` (so `smallest ≤ v ≤ largest`), and it is the smallest one
  unless some sample of `S` is exactly `0`;
* `avg`: `trunc sf smallest ≤ v ≤ trunc sf largest`, `trunc sf x = x / sf * sf` (towards zero). -/
theorem latency_bounds (sizes : List Int) (prec : Option Int) (ops : List Op) (now : Int) (ign : Bool)
    (hsf : 0 < sfOf prec) (hm : UpdMono (ops ++ [.update now ign])) :
    ∀ wr ∈ (((L.new sizes prec).run ops).update now ign).2,
      Bounded (sfOf prec) ((hist (ops ++ [.update now ign])).window wr.size now) wr.stat wr.val := by
  obtain ⟨T, hc⟩ := exists_chain _ hm
  obtain ⟨hc1, hc2⟩ := (chainFrom_snoc_update ops T now ign).1 hc
  have hi := run_inv hsf ops (LInv.new sizes prec T) hc1
  have hu := (hi.update hsf hc2 ign).2
  have e : hist (ops ++ [.update now ign]) = (hist ops).step (.update now ign) := by
    simp [hist, List.foldl_append]
  rw [e]
  exact hu

/-- the same under the plain "monotonic clock" hypothesis (all readings non-decreasing) -/
theorem latency_bounds_clock (sizes : List Int) (prec : Option Int) (ops : List Op) (now : Int)
    (ign : Bool) (hsf : 0 < sfOf prec) (hm : ClockMono (ops ++ [.update now ign])) :
    ∀ wr ∈ (((L.new sizes prec).run ops).update now ign).2,
      Bounded (sfOf prec) ((hist (ops ++ [.update now ign])).window wr.size now) wr.stat wr.val :=
  latency_bounds sizes prec ops now ign hsf (updMono_of_clockMono _ hm)

/-- "bounded by the smallest and largest latency, up to the precision", in plain inequalities -/
def Between (sf : Int) (S : List Int) : Stat → Int → Prop
  | .avg, v => lmin S - sf < v ∧ v < lmax S + sf
  | _, v => lmin S ≤ v ∧ v ≤ lmax S

/-- `Bounded` implies the plain inequalities: `max`/`min` lie in `[smallest, largest]`, the
average in `(smallest − sf, largest + sf)` — tighter than the `± 2·sf` of the design — and even
in `[smallest, largest]` on the side(s) where the bound has the sign that truncation favours
(`v ≤ largest` when `largest ≥ 0`, `smallest ≤ v` when `smallest ≤ 0`), hence exactly in
`[smallest, largest]` for precision 1 ns. -/
theorem bounded_between {sf : Int} (hsf : 0 < sf) {S : List Int} {st : Stat} {v : Int}
    (h : Bounded sf S st v) :
    Between sf S st v ∧ (st = .avg → (0 ≤ lmax S → v ≤ lmax S) ∧ (lmin S ≤ 0 → lmin S ≤ v)) := by
  cases st with
  | max =>
    obtain ⟨hne, _, rfl⟩ := h
    exact ⟨⟨lmin_le_lmax hne, Int.le_refl _⟩, by simp⟩
  | min =>
    obtain ⟨hne, _, hm, _⟩ := h
    exact ⟨⟨(lmin_spec hne).2 _ hm, (lmax_spec hne).2 _ hm⟩, by simp⟩
  | avg =>
    obtain ⟨hne, _, h1, h2⟩ := h
    obtain ⟨a1, _, _, a4⟩ := trunc_bounds sf hsf (lmin S)
    obtain ⟨_, b2, b3, _⟩ := trunc_bounds sf hsf (lmax S)
    refine ⟨⟨by omega, by omega⟩, fun _ => ⟨fun h0 => ?_, fun h0 => ?_⟩⟩
    · have := b3 h0; omega
    · have := a4 h0; omega

/-- **latency_between**: the property's sentence, in inequalities, for every written value. -/
theorem latency_between (sizes : List Int) (prec : Option Int) (ops : List Op) (now : Int) (ign : Bool)
    (hsf : 0 < sfOf prec) (hm : UpdMono (ops ++ [.update now ign])) :
    ∀ wr ∈ (((L.new sizes prec).run ops).update now ign).2,
      Between (sfOf prec) ((hist (ops ++ [.update now ign])).window wr.size now) wr.stat wr.val :=
  fun wr hwr => (bounded_between hsf (latency_bounds sizes prec ops now ign hsf hm wr hwr)).1

/-- with the default precision (1 ns) the written average lies in `[smallest, largest]` -/
theorem avg_exact_default_precision (sizes : List Int) (ops : List Op) (now : Int) (ign : Bool)
    (hm : UpdMono (ops ++ [.update now ign])) :
    ∀ wr ∈ (((L.new sizes none).run ops).update now ign).2, wr.stat = .avg →
      lmin ((hist (ops ++ [.update now ign])).window wr.size now) ≤ wr.val ∧
      wr.val ≤ lmax ((hist (ops ++ [.update now ign])).window wr.size now) := by
  intro wr hwr hst
  have h := latency_bounds sizes none ops now ign (by decide) hm wr hwr
  rw [hst] at h
  obtain ⟨_, _, h1, h2⟩ := h
  have e : sfOf none = 1 := rfl
  rw [e, trunc_one] at h1 h2
  exact ⟨h1, h2⟩

/-- the "unset" convention, stated: a value `0` is never written (so a statistic that *is* `0` —
a window holding only non-positive samples for `max`, an average that truncates to `0`, a
running minimum reset by a `0` sample — is not exported at all) -/
theorem zero_never_written (sizes : List Int) (prec : Option Int) (ops : List Op) (now : Int)
    (ign : Bool) (hsf : 0 < sfOf prec) (hm : UpdMono (ops ++ [.update now ign])) :
    ∀ wr ∈ (((L.new sizes prec).run ops).update now ign).2, wr.val ≠ 0 := by
  intro wr hwr
  have h := latency_bounds sizes prec ops now ign hsf hm wr hwr
  cases hst : wr.stat <;> rw [hst] at h <;> exact h.2.1

/-- written `max` values are positive: non-positive latencies (future-stamped samples) never
surface as a maximum -/
theorem max_written_pos (sizes : List Int) (prec : Option Int) (ops : List Op) (now : Int)
    (ign : Bool) :
    ∀ wr ∈ (((L.new sizes prec).run ops).update now ign).2, wr.stat = .max → 0 < wr.val := by
  intro wr hwr hst
  simp only [L.update, L.flush, List.flatMap_map, List.mem_flatMap] at hwr
  obtain ⟨w, _, hwr⟩ := hwr
  obtain ⟨w', h | h | h⟩ := updateMeta_writes_cases w now ign wr hwr
  · have := setAvg_stat w' wr h; rw [hst] at this; cases this
  · exact setMax_pos w' wr h
  · have := setMin_stat w' wr h; rw [hst] at this; cases this

/-! ## Bookkeeping invariants -/

/-- the state reached by a run is never the `panicked` one (no division by a zero scale factor),
and every window's `count`/`total` are the sums over the slots it holds; every held slot has at
least one update. -/
theorem counts_add_up (sizes : List Int) (prec : Option Int) (ops : List Op)
    (hsf : 0 < sfOf prec) (hm : UpdMono ops) :
    let l := (L.new sizes prec).run ops
    l.panicked = false ∧
    ∀ w ∈ l.windows, w.count = sumCount w.slots ∧ w.total = sumTotal w.slots ∧
      w.sf = sfOf prec ∧ ∀ s ∈ w.slots, 0 < s.count := by
  obtain ⟨T, hc⟩ := exists_chain _ hm
  have hi := run_inv hsf ops (LInv.new sizes prec T) hc
  refine ⟨hi.nopanic, ?_⟩
  intro w hw
  obtain ⟨a, b, c, D, P, _, h2, h3, _⟩ := hi.wins w hw
  refine ⟨b, c, a, ?_⟩
  intro s hs
  rw [h2] at hs
  obtain ⟨p, hp, rfl⟩ := List.mem_map.1 hs
  have hr := h3 p hp
  rw [hr.count]
  have := hr.ne
  cases hq : p.2.samples with
  | nil => exact absurd hq this
  | cons x l => simp only [List.length_cons]; omega

/-- a window never holds slots older than its size: after an update call at `now`, every window
whose statistics were (re)computed by that call (`UpdateLast`, or the window is covered) holds only
slots closed in `(now − size, now]`. -/
theorem slots_recent (sizes : List Int) (prec : Option Int) (ops : List Op) (now : Int) (ign : Bool)
    (hsf : 0 < sfOf prec) (hm : UpdMono (ops ++ [.update now ign])) :
    ∀ w ∈ (((L.new sizes prec).run ops).update now ign).1.windows,
      (ign = true ∨ w.covered = true) → ∀ s ∈ w.slots, now - w.size < s.stop ∧ s.stop ≤ now := by
  obtain ⟨T, hc⟩ := exists_chain _ hm
  obtain ⟨hc1, hc2⟩ := (chainFrom_snoc_update ops T now ign).1 hc
  have hi := run_inv hsf ops (LInv.new sizes prec T) hc1
  exact (hi.closeSlot hc2 ign).flush_recent ign

/-- `w.slots[start:]` in `slide` cannot panic: `start` never exceeds the number of slots -/
theorem slide_in_range (w : Window) (ts : Int) :
    (slideLoop (ts - w.size) w.slots w.count w.total 0).2.2 ≤ w.slots.length :=
  slideLoop_le _ _ _ _

/-! ## The stronger reading: what a metadata reader sees (finding) -/

/-- **Full statement (false of the code, kept).**  After any run of `Compute`/`UpdateReset` calls
ending in an `UpdateReset` at `now`, every value *exported* (= last written: `SetInt` overwrites and
nothing removes an entry) for a configured window **that covers at least one sample at `now`** is
bounded by the samples that window covers.  (A window that covers no sample keeps its last values
exported: the repository's own `TestLatency`, intervals 6 and 7, pins that, so it is not demanded
here; see `stale_after_idle`.) -/
def exported_bounds : Prop :=
  ∀ (sizes : List Int) (prec : Option Int) (ops : List Op) (now : Int),
    0 < sfOf prec → UpdMono (ops ++ [.update now false]) →
    (∀ op ∈ ops, op.isUpdateLast = false) →
    ∀ size ∈ sizes, ∀ st v,
      (hist (ops ++ [.update now false])).window size now ≠ [] →
      exported ((L.new sizes prec).writes (ops ++ [.update now false])) size st = some v →
      Bounded (sfOf prec) ((hist (ops ++ [.update now false])).window size now) st v

/-- witness 1 (window 2 ns, updates every 1 ns, precision 1 µs as in the repository's tests,
monotonic clock): a sample of 5000 ns is exported at `t = 2` (`avg = max = min = 5000`); at `t = 3`
the window covers only a sample of 300 ns: `max` and `min` are rewritten to 300, the average
truncates to `0` = "unset" and is *not* written, so a reader sees `avg = 5000, max = 300, min = 300`
for one and the same window. -/
def staleOps : List Op := [.compute 0 5000, .update 1 false, .update 2 false, .compute 3 300]

theorem exported_bounds_witness :
    exported ((L.new [2] (some 1000)).writes (staleOps ++ [.update 3 false])) 2 .avg = some 5000 ∧
    exported ((L.new [2] (some 1000)).writes (staleOps ++ [.update 3 false])) 2 .max = some 300 ∧
    (hist (staleOps ++ [.update 3 false])).window 2 3 = [300] ∧
    UpdMono (staleOps ++ [.update 3 false]) ∧
    ¬ Bounded 1000 ((hist (staleOps ++ [.update 3 false])).window 2 3) .avg 5000 := by
  refine ⟨by decide, by decide, by decide, by decide, by decide⟩

/-- witness 2 (default precision; a future-stamped sample): at `t = 3` the window covers only a
sample of −5 ns: `avg` and `min` are rewritten to −5, `max` is `0` = "unset" and is not written, so
a reader still sees `max = 100` for a window whose largest latency is −5. -/
def staleOpsNeg : List Op := [.compute 0 100, .update 1 false, .update 2 false, .compute 3 (-5)]

theorem exported_bounds_witness_neg :
    exported ((L.new [2] none).writes (staleOpsNeg ++ [.update 3 false])) 2 .max = some 100 ∧
    (hist (staleOpsNeg ++ [.update 3 false])).window 2 3 = [-5] ∧
    UpdMono (staleOpsNeg ++ [.update 3 false]) ∧
    ¬ Bounded 1 ((hist (staleOpsNeg ++ [.update 3 false])).window 2 3) .max 100 := by
  refine ⟨by decide, by decide, by decide, by decide⟩

theorem exported_bounds_false : ¬ exported_bounds := by
  intro h
  have w := exported_bounds_witness
  have := h [2] (some 1000) staleOps 3 (by decide) w.2.2.2.1 (by decide) 2 (by simp) .avg 5000
    (by rw [w.2.2.1]; simp) w.1
  exact w.2.2.2.2 this

/-- the intended "keep the last value" behaviour, for the record: after an idle gap of one window
the window covers no sample at all, nothing is written, and the reader still sees the old
statistics (pinned by the repository's `TestLatency`). -/
def idleOps : List Op := [.compute 0 100, .update 2 false]

theorem stale_after_idle :
    exported ((L.new [2] none).writes (idleOps ++ [.update 4 false])) 2 .avg = some 100 ∧
    (hist (idleOps ++ [.update 4 false])).window 2 4 = [] ∧
    (((L.new [2] none).run idleOps).update 4 false).2 = [] := by
  decide

theorem writes_snoc (l : L) (ops : List Op) (op : Op) :
    l.writes (ops ++ [op]) = l.writes ops ++ ((l.run ops).step op).2 := by
  induction ops generalizing l with
  | nil => simp [L.writes, L.run]
  | cons o r ih => simp [L.writes, L.run, ih, List.append_assoc]

/-- **exported_bounds_partial.**  The exported value of `(size, st)` is bounded by the samples the
window covers now *whenever the latest update call wrote that statistic* — i.e. excluded are
exactly the statistics the latest update left unwritten (window not yet covered, window without
samples, or value `0`), whose older value stays visible. -/
theorem exported_bounds_partial (sizes : List Int) (prec : Option Int) (ops : List Op) (now : Int)
    (ign : Bool) (hsf : 0 < sfOf prec) (hm : UpdMono (ops ++ [.update now ign]))
    (size : Int) (st : Stat) (v : Int)
    (hw : ∃ wr ∈ (((L.new sizes prec).run ops).update now ign).2, wr.size = size ∧ wr.stat = st)
    (he : exported ((L.new sizes prec).writes (ops ++ [.update now ign])) size st = some v) :
    Bounded (sfOf prec) ((hist (ops ++ [.update now ign])).window size now) st v := by
  rw [writes_snoc] at he
  simp only [exported, List.reverse_append, List.find?_append, L.step] at he
  obtain ⟨wr0, hwr0, hs0, ht0⟩ := hw
  have hsome : ((((L.new sizes prec).run ops).update now ign).2.reverse.find?
      (fun wr => decide (wr.size = size ∧ wr.stat = st))).isSome := by
    rw [List.find?_isSome]
    exact ⟨wr0, List.mem_reverse.2 hwr0, by simp [hs0, ht0]⟩
  cases hf : (((L.new sizes prec).run ops).update now ign).2.reverse.find?
      (fun wr => decide (wr.size = size ∧ wr.stat = st)) with
  | none => rw [hf] at hsome; simp at hsome
  | some wr =>
    rw [hf] at he
    simp only [Option.some_or, Option.map_some, Option.some.injEq] at he
    have hmem := List.mem_reverse.1 (List.mem_of_find?_eq_some hf)
    have hp := List.find?_some hf
    simp only [decide_eq_true_eq] at hp
    have := latency_bounds sizes prec ops now ign hsf hm wr hmem
    rw [hp.1, hp.2, he] at this
    exact this

/-! ## The hypotheses are satisfiable and necessary; the conventions are visible -/

/-- non-vacuity: three windows, precision 1 µs, bursts, a zero and a negative sample, an idle gap;
the clock is monotonic and the final update writes seven values. -/
def demoOps : List Op :=
  [.compute 1000 2500, .compute 1500 7999, .update 2000 false, .compute 2500 0, .compute 2600 (-3100),
   .compute 2700 12345, .update 4000 false, .update 6000 false, .compute 6100 4000]

example : ClockMono (demoOps ++ [.update 8000 false]) := by
  simp [ClockMono, demoOps, Op.now]

example : 0 < sfOf (some 1000) := by decide

example : (((L.new [2000, 4000, 6000] (some 1000)).run demoOps).update 8000 false).2 =
    [⟨2000, .avg, 4000⟩, ⟨2000, .max, 4000⟩, ⟨2000, .min, 4000⟩,
     ⟨4000, .avg, 4000⟩, ⟨4000, .max, 4000⟩, ⟨4000, .min, 4000⟩,
     ⟨6000, .avg, 3000⟩, ⟨6000, .max, 12345⟩, ⟨6000, .min, -3100⟩] := by decide

/-- the `0` convention, seen: samples 5, 0, 7 in one batch — the exported minimum is 7 (a sample,
within `[0, 7]`), not the true minimum 0. -/
theorem zero_sample_resets_min :
    (((L.new [1] none).run [.compute 0 5, .compute 0 0, .compute 0 7]).update 1 false).2 =
      [⟨1, .avg, 4⟩, ⟨1, .max, 7⟩, ⟨1, .min, 7⟩] := by decide

/-- only future-stamped samples: `avg` and `min` are negative, no `max` is written -/
theorem negative_samples_no_max :
    (((L.new [1] none).run [.compute 0 (-5), .compute 0 (-9)]).update 1 false).2 =
      [⟨1, .avg, -7⟩, ⟨1, .min, -9⟩] := by decide

/-- the monotonic-clock hypothesis is necessary: when the clock steps back between two updates
(10 then 8) and forward again, `slide` drops the *first* slot because *some* slot expired; the
window (size 5, update at 14) then exports `max = 900` although the only batch closed in
`(9, 14]` holds the sample 1. -/
theorem nonmonotonic_clock_breaks_bounds :
    let ops : List Op := [.compute 0 1, .update 10 true, .compute 0 900, .update 8 true]
    ¬ UpdMono (ops ++ [.update 14 true]) ∧
    (hist (ops ++ [.update 14 true])).window 5 14 = [1] ∧
    (⟨5, .max, 900⟩ : Write) ∈ (((L.new [5] none).run ops).update 14 true).2 := by
  refine ⟨by decide, by decide, by decide⟩

end Gnmi.C15Lat
