import Gnmi.Props.C18
/-!
# C18 (progress, universal form) — the reconnect loop re-subscribes in *every* run

`C18.loop_continues` exhibits *one* run `disc · sleepStart · wake · reset` from a configuration
in which an inner `Subscribe` has just returned.  This module makes the clause "keeps
re-subscribing until closed" universal over runs and schedules of the **existing** transition
system (`Step`/`Reach`/`Run` of `Model/ClientLTS.lean`; nothing is re-defined):

* `not_closed_not_terminal` — deadlock freedom of goroutine S while `Close` has not been called;
  the only places where S has no transition of its own are the two in which it waits for the
  *transport script* (a connect that hangs, a `Recv` on a stream that neither delivers nor
  ends), and — if the caller cancelled its context — after `Subscribe` returned.
  `blocked_iff_no_S_step` shows the characterisation is exact, `naive_not_terminal_false` that
  the unqualified statement ("some S step is always enabled") is false of the model, and
  `responsive_not_terminal` that it is true for every script without hang / wait.
* `loop_step_persists` — a step of another thread other than the two *stop* steps (`Close`'s
  critical section, cancellation of the caller's context) never disables the step S has enabled;
  `S_never_blocked_by_others`: even a stop step never blocks S (it only redirects it).
* `loop_continues_run` / `loop_continues_run_from` — from the pc S has just after an inner
  `Subscribe` returned (from any later loop pc), with a live context, **every** run that contains
  no stop label and at least 4 (resp. the remaining number of) S-steps passes through the next
  inner `Subscribe`: its S-projection starts with `disc · sleepStart · wake · reset`, the attempt
  counter is incremented, the trace is extended by exactly `disc a · reset (a+1) · start (a+1)`.
  `loop_run_short` is the complement (fewer S-steps: S is still in the loop, its next step
  enabled), `loop_never_stops` the dichotomy, `loop_continues_run_reach` the form for reachable
  configurations (there every step of a run without stop labels *is* an S-step, `live_only_S`).
* `resubscribes_after_every_end`, `run_without_close_resubscribes`, `started_vs_ended` — in any
  reachable configuration with a live context (in particular at the end of any run from `init`
  without a stop label) every ended session is followed by the next `Subscribe`, except possibly
  the last one, and then S is in the loop with its next step enabled.

What "without Close" has to mean in this model: the loop has exactly two legitimate exits
(`C18.returns_only_if_cancelled`): `Close` (`closeCs`) and the cancellation of the caller's
context (`parentCancel`, an environment step).  A run "without Close" is therefore a run without
either label (`isStop`); with `parentCancel` allowed the loop *does* stop (`parentCancel_stops`).
-/
set_option linter.unusedSimpArgs false
set_option linter.unusedVariables false
namespace Gnmi
namespace C18Prog
open ClientLTS

variable {N : Type}

/-! ## Vocabulary -/

/-- the two transitions that end the liveness of the loop: the critical section of
`ReconnectClient.Close`, and the cancellation of the caller's context -/
def isStop : Label → Bool
  | .closeCs | .parentCancel => true
  | _ => false

/-- S waits for the transport script: a connect that hangs, or a `Recv` on a stream that neither
delivers nor ends, with a live context and an open instance -/
def TransportBlocked (s : Script N) (c : Cfg N) : Prop :=
  (c.spc = .connect ∧ (s c.att).conn = .hang ∧ c.ctxDone = false) ∨
  (∃ rest, c.spc = .recv ∧ c.items = .wait :: rest ∧ c.released = false)

/-- a script that never blocks: no hanging connect, no `wait` item -/
def Responsive (s : Script N) : Prop :=
  ∀ a, (s a).conn ≠ .hang ∧ Item.wait ∉ (s a).items

/-- number of S-steps from a loop pc to the next inner `Subscribe` -/
def loopRem : SPc N → Nat
  | .innerRet _ => 4
  | .ctxCheck _ => 3
  | .sleeping => 2
  | .resetCb => 1
  | _ => 0

/-- the S-steps from a loop pc to the next inner `Subscribe` -/
def loopLabels : SPc N → List Label
  | .innerRet _ => [.disc, .sleepStart, .wake, .reset]
  | .ctxCheck _ => [.sleepStart, .wake, .reset]
  | .sleeping => [.wake, .reset]
  | .resetCb => [.reset]
  | _ => []

/-- the events those steps append to the trace (`a` = the attempt that ended) -/
def loopEvents (a : Nat) : SPc N → List (Ev N)
  | .innerRet _ => [.disc a, .reset (a + 1), .start (a + 1)]
  | .ctxCheck _ => [.reset (a + 1), .start (a + 1)]
  | .sleeping => [.reset (a + 1), .start (a + 1)]
  | .resetCb => [.reset (a + 1), .start (a + 1)]
  | _ => []

def isStartEv : Ev N → Bool
  | .start _ => true
  | _ => false

def isEndedEv : Ev N → Bool
  | .ended _ => true
  | _ => false

/-- inner `Subscribe` calls so far -/
def nStarted (t : List (Ev N)) : Nat := t.countP isStartEv
/-- inner `Subscribe` returns so far -/
def nEnded (t : List (Ev N)) : Nat := t.countP isEndedEv

/-! ## Steps of the other threads -/

/-- A step that is not S's leaves S's pc, attempt, stream and trace alone; it can only *release*
S (never un-release it), and unless it is a stop step it leaves the context as it is. -/
theorem other_frame {wrap : Bool} {s : Script N} {c c' : Cfg N} {l : Label}
    (hs : Step wrap s c l c') (hl : l.isS = false) :
    c'.spc = c.spc ∧ c'.att = c.att ∧ c'.items = c.items ∧ c'.trace = c.trace ∧
    (c.released = true → c'.released = true) ∧ (c.ctxDone = true → c'.ctxDone = true) ∧
    (isStop l = false → c'.ctxDone = c.ctxDone) := by
  revert hl
  lts_cases hs =>
    intro hl
    simp_all [Label.isS, isStop, Cfg.released, Cfg.ctxDone, Cfg.doCloseCs, Cfg.hitsCurrent] <;>
    grind

/-- **loop_step_persists.**  Steps of the other threads, other than the two stop steps
(`Close`'s critical section, cancellation of the caller's context), never disable the step
goroutine S has enabled: the same S-label stays enabled. -/
theorem loop_step_persists {wrap : Bool} {s : Script N} {c c' c1 : Cfg N} {l l' : Label}
    (ho : Step wrap s c l' c') (hl' : l'.isS = false) (hns : isStop l' = false)
    (hS : Step wrap s c l c1) (hl : l.isS = true) : ∃ c1', Step wrap s c' l c1' := by
  obtain ⟨hspc, hatt, hit, _, hrel, _, hctx⟩ := other_frame ho hl'
  have hctx := hctx hns
  cases hS
  case subInit hw hp => exact ⟨_, .subInit hw (by rw [hspc]; exact hp)⟩
  case plainStart hw hp => exact ⟨_, .plainStart hw (by rw [hspc]; exact hp)⟩
  case connFail hp hc => exact ⟨_, .connFail (by rw [hspc]; exact hp) (by rw [hatt]; exact hc)⟩
  case connSubFail hp hc => exact ⟨_, .connSubFail (by rw [hspc]; exact hp) (by rw [hatt]; exact hc)⟩
  case connOk hp hc => exact ⟨_, .connOk (by rw [hspc]; exact hp) (by rw [hatt]; exact hc)⟩
  case connAbort hp hd => exact ⟨_, .connAbort (by rw [hspc]; exact hp) (by rw [hctx]; exact hd)⟩
  case install hp => exact ⟨_, .install (by rw [hspc]; exact hp)⟩
  case recvMsg m rest hp hi => exact ⟨_, .recvMsg (by rw [hspc]; exact hp) (by rw [hit]; exact hi)⟩
  case recvWait rest hp hi hr =>
    exact ⟨_, .recvWait (by rw [hspc]; exact hp) (by rw [hit]; exact hi) (hrel hr)⟩
  case recvAbort hp hr => exact ⟨_, .recvAbort (by rw [hspc]; exact hp) (hrel hr)⟩
  case recvTermErr hp hi ht =>
    exact ⟨_, .recvTermErr (by rw [hspc]; exact hp) (by rw [hit]; exact hi) (by rw [hatt]; exact ht)⟩
  case recvEof hp hi ht =>
    exact ⟨_, .recvEof (by rw [hspc]; exact hp) (by rw [hit]; exact hi) (by rw [hatt]; exact ht)⟩
  case handle e rest r hp => exact ⟨_, .handle (by rw [hspc]; exact hp)⟩
  case handled r hp => exact ⟨_, .handled (by rw [hspc]; exact hp)⟩
  case check hp => exact ⟨_, .check (by rw [hspc]; exact hp)⟩
  case runErr hp => exact ⟨_, .runErr (by rw [hspc]; exact hp)⟩
  case plainRet e hw hp => exact ⟨_, .plainRet hw (by rw [hspc]; exact hp)⟩
  case disc e hw hp => exact ⟨_, .disc hw (by rw [hspc]; exact hp)⟩
  case ctxExit e hp hd => exact ⟨_, .ctxExit (by rw [hspc]; exact hp) (by rw [hctx]; exact hd)⟩
  case sleepStart e hp hd => exact ⟨_, .sleepStart (by rw [hspc]; exact hp) (by rw [hctx]; exact hd)⟩
  case wake hp => exact ⟨_, .wake (by rw [hspc]; exact hp)⟩
  case reset hp => exact ⟨_, .reset (by rw [hspc]; exact hp)⟩
  case finish hp => exact ⟨_, .finish (by rw [hspc]; exact hp)⟩
  all_goals simp [Label.isS] at hl

/-! ## Deadlock freedom of S while not closed -/

/-- The characterisation of `TransportBlocked` is exact: S has not returned and has no
transition of its own **iff** it waits for the transport script. -/
theorem blocked_iff_no_S_step {wrap : Bool} (s : Script N) (c : Cfg N) :
    TransportBlocked s c ↔
      (c.spc.isReturned = false ∧ ¬ ∃ l c', Step wrap s c l c' ∧ l.isS = true) := by
  constructor
  · rintro (⟨hp, hc, hd⟩ | ⟨rest, hp, hi, hr⟩)
    · refine ⟨by simp [hp], ?_⟩
      rintro ⟨l, c', hs, hl⟩
      cases hs <;> simp_all [Label.isS]
    · refine ⟨by simp [hp], ?_⟩
      rintro ⟨l, c', hs, hl⟩
      cases hs <;> simp_all [Label.isS]
  · rintro ⟨hr, hno⟩
    rcases s_progress_live (wrap := wrap) s hr with h | h | h
    · exact absurd h hno
    · exact .inl h
    · exact .inr h

/-- in a reconnecting client, `Close` not called and the caller's context not cancelled means
the context of the inner `Subscribe` is live -/
theorem live_of_not_closed {s : Script N} {c : Cfg N} (h : Reach true s c)
    (hk : c.kpc = .idle) (hpc : c.parentC = false) : c.ctxDone = false := by
  obtain ⟨h1, h2, h3, h4, h5, h6, h7, h8⟩ := invA_reach h
  simp [Cfg.ctxDone, hpc, h4, h3, hk]

/-- … and conversely, once `Subscribe` has been called, a live context means `Close` has not
been called (so the only steps of K that could interleave with a live loop is `closeCs`) -/
theorem not_closed_of_live {s : Script N} {c : Cfg N} (h : Reach true s c)
    (hlive : c.ctxDone = false) (hs : c.spc.isIdle = false) : c.kpc = .idle ∧ c.parentC = false := by
  obtain ⟨h1, h2, h3, h4, h5, h6, h7, h8⟩ := invA_reach h
  simp [Cfg.ctxDone, h4, h3, h1, hs] at hlive
  refine ⟨?_, hlive.1⟩
  cases hk : c.kpc <;> simp_all

/-- **not_closed_not_terminal.**  In every reachable configuration of the reconnecting client
in which `Close` has not been called, goroutine S (the `Subscribe` loop) has an enabled
transition of its own, *unless* it is waiting for the transport script inside a session (a
connect that hangs, or a `Recv` on a stream that neither delivers nor ends: rules `connAbort` /
`recvWait` wait for the environment), or the caller cancelled its context and `Subscribe` has
returned.  In particular with a live caller context S never returns and the loop phases
(`loopRem > 0`) are never blocked. -/
theorem not_closed_not_terminal {s : Script N} {c : Cfg N} (h : Reach true s c)
    (hk : c.kpc = .idle) :
    (∃ l c', Step true s c l c' ∧ l.isS = true) ∨ TransportBlocked s c ∨
    (c.spc.isReturned = true ∧ c.parentC = true) := by
  cases hr : c.spc.isReturned with
  | false =>
      rcases s_progress_live (wrap := true) s hr with h | h | h
      · exact .inl h
      · exact .inr (.inl (.inl h))
      · exact .inr (.inl (.inr h))
  | true =>
      refine .inr (.inr ⟨rfl, ?_⟩)
      have hd := C18.returns_only_if_cancelled h (by cases hp : c.spc <;> simp_all)
      cases hpc : c.parentC with
      | true => rfl
      | false => rw [live_of_not_closed h hk hpc] at hd; cases hd

/-- `not_closed_not_terminal` with a live caller context: S has not returned, and has a step
unless it waits for the script. -/
theorem live_not_terminal {s : Script N} {c : Cfg N} (h : Reach true s c)
    (hlive : c.ctxDone = false) :
    c.spc.isReturned = false ∧
    ((∃ l c', Step true s c l c' ∧ l.isS = true) ∨ TransportBlocked s c) := by
  have hr : c.spc.isReturned = false := by
    cases hr : c.spc.isReturned with
    | false => rfl
    | true =>
        have hd := C18.returns_only_if_cancelled h (by cases hp : c.spc <;> simp_all)
        rw [hlive] at hd; cases hd
  refine ⟨hr, ?_⟩
  rcases s_progress_live (wrap := true) s hr with h | h | h
  · exact .inl h
  · exact .inr (.inl h)
  · exact .inr (.inr h)

/-- while S is inside a stream, what the stream still holds is a suffix of the script -/
def InvI (s : Script N) (c : Cfg N) : Prop :=
  c.spc.inStream = true → c.items <:+ (s c.att).items

theorem invI_step {wrap : Bool} {s : Script N} {c c' : Cfg N} {l : Label}
    (hi : InvI s c) (hs : Step wrap s c l c') : InvI s c' := by
  unfold InvI at *
  cases hs
  case recvMsg m rest hp hit =>
    intro _
    have := hi (by simp [hp])
    rw [hit] at this
    exact List.IsSuffix.trans (List.suffix_cons _ _) this
  case recvWait rest hp hit hr =>
    intro _
    have := hi (by simp [hp])
    rw [hit] at this
    exact List.IsSuffix.trans (List.suffix_cons _ _) this
  case handled r hp => cases r <;> simp_all [Cfg.doHandled]
  case check hp => unfold Cfg.doCheck; split <;> simp_all
  case closeInner sd hp => unfold Cfg.doBcClose; split <;> simp_all
  case plainClose hw hp => unfold Cfg.doBcClose; split <;> simp_all
  all_goals
    simp_all [Cfg.doSubInit, Cfg.doPlainStart, Cfg.doConnFail, Cfg.doConnOk, Cfg.doInstall,
      Cfg.doHandle, Cfg.doRunErr, Cfg.doEof, Cfg.doPlainRet, Cfg.doDisc, Cfg.doReset,
      Cfg.doFinish, Cfg.doCloseCs]

theorem invI_reach {wrap : Bool} {s : Script N} {c : Cfg N} (h : Reach wrap s c) : InvI s c := by
  induction h with
  | init => simp [InvI, init]
  | step _ hs ih => exact invI_step ih hs

/-- a responsive script never blocks S -/
theorem responsive_not_blocked {wrap : Bool} {s : Script N} {c : Cfg N} (hs : Responsive s)
    (h : Reach wrap s c) : ¬ TransportBlocked s c := by
  rintro (⟨_, hc, _⟩ | ⟨rest, hp, hi, _⟩)
  · exact (hs c.att).1 hc
  · have hsuf := invI_reach h (by simp [hp])
    exact (hs c.att).2 (hsuf.subset (by simp [hi]))

/-- **responsive_not_terminal.**  For a transport script without hanging connects and blocking
`Recv`s the unqualified statement holds: while `Close` has not been called and the caller's
context is live, S *always* has an enabled transition of its own (and has not returned). -/
theorem responsive_not_terminal {s : Script N} {c : Cfg N} (hs : Responsive s)
    (h : Reach true s c) (hlive : c.ctxDone = false) :
    c.spc.isReturned = false ∧ ∃ l c', Step true s c l c' ∧ l.isS = true := by
  obtain ⟨hr, hstep | hb⟩ := live_not_terminal h hlive
  · exact ⟨hr, hstep⟩
  · exact absurd hb (responsive_not_blocked hs h)

/-- a script whose every connect hangs -/
def hangScript : Script Nat := fun _ => { conn := .hang, items := [], term := .eof }

/-- **The unqualified statement is false of the model**: with a connect that hangs there is a
reachable configuration, `Close` not called, context live, `Subscribe` not returned, in which S
has no transition of its own (it waits for the script). -/
theorem naive_not_terminal_false :
    ∃ c : Cfg Nat, Reach true hangScript c ∧ c.kpc = .idle ∧ c.ctxDone = false ∧
      c.spc.isReturned = false ∧ ¬ ∃ l c', Step true hangScript c l c' ∧ l.isS = true := by
  refine ⟨(init : Cfg Nat).doSubInit, .step .init (.subInit rfl rfl), rfl, rfl, rfl, ?_⟩
  exact ((blocked_iff_no_S_step (wrap := true) hangScript _).mp (.inl ⟨rfl, rfl, rfl⟩)).2

/-- **S_never_blocked_by_others.**  No step of another thread — not even `Close` or the
cancellation of the caller's context — ever blocks goroutine S: if S had a transition before,
it has one after (a stop step merely redirects it towards the exit). -/
theorem S_never_blocked_by_others {s : Script N} {c c' : Cfg N} {l' : Label}
    (h : Reach true s c) (ho : Step true s c l' c') (hl' : l'.isS = false)
    (hS : ∃ l c1, Step true s c l c1 ∧ l.isS = true) :
    ∃ l c1', Step true s c' l c1' ∧ l.isS = true := by
  obtain ⟨l, c1, hS, hl⟩ := hS
  cases hst : isStop l' with
  | false =>
      obtain ⟨c1', h1⟩ := loop_step_persists ho hl' hst hS hl
      exact ⟨l, c1', h1, hl⟩
  | true =>
      have hspc := (other_frame ho hl').1
      have hnr : c'.spc.isReturned = false := by
        rw [hspc]
        cases hr : c.spc.isReturned with
        | false => rfl
        | true =>
            exfalso
            have := (frozen_step hr hS).2
            revert hl
            cases hS <;> simp_all [Label.isS, Cfg.doSubInit, Cfg.doPlainStart, Cfg.doConnFail,
              Cfg.doConnOk, Cfg.doInstall, Cfg.doRecvMsg, Cfg.doRecvWait, Cfg.doHandle,
              Cfg.doRunErr, Cfg.doEof, Cfg.doPlainRet, Cfg.doDisc, Cfg.doReset, Cfg.doFinish]
      refine s_progress s ?_ hnr
      have hA := invA_reach h
      cases ho <;> simp [isStop, Label.isS] at hst hl'
      case closeCs hw hk =>
        cases hi : c.spc.isIdle with
        | true => exact .inr ⟨rfl, rfl, hi⟩
        | false =>
            left
            have : c.cancelSet = true := by rw [hA.cancelSet, hi]; rfl
            simp [Cfg.ctxDone, Cfg.doCloseCs, this]
      case parentCancel hp => exact .inl (by simp [Cfg.ctxDone])

/-! ## The loop, step by step -/

/-- in a loop phase with a live context S's next step is enabled, and it is the head of
`loopLabels` -/
theorem loop_enabled (s : Script N) {c : Cfg N} (hrem : 0 < loopRem c.spc)
    (hlive : c.ctxDone = false) :
    ∃ l c', Step true s c l c' ∧ l.isS = true ∧ (loopLabels c.spc).head? = some l := by
  cases hp : c.spc <;> simp [hp, loopRem] at hrem
  case innerRet e => exact ⟨_, _, .disc rfl hp, rfl, rfl⟩
  case ctxCheck e => exact ⟨_, _, .sleepStart hp hlive, rfl, rfl⟩
  case sleeping => exact ⟨_, _, .wake hp, rfl, rfl⟩
  case resetCb => exact ⟨_, _, .reset hp, rfl, rfl⟩

/-- one S-step in a loop phase with a live context: it is the step `loopLabels` prescribes, the
context stays live, and either S is one phase further (same attempt, the events still to come
unchanged), or it was the reset callback and the next inner `Subscribe` has started -/
theorem loop_S_step {s : Script N} {c c1 : Cfg N} {l : Label} (hs : Step true s c l c1)
    (hl : l.isS = true) (hrem : 0 < loopRem c.spc) (hlive : c.ctxDone = false) :
    l :: loopLabels c1.spc = loopLabels c.spc ∧ c1.ctxDone = false ∧
    ((0 < loopRem c1.spc ∧ loopRem c1.spc + 1 = loopRem c.spc ∧ c1.att = c.att ∧
        c1.trace ++ loopEvents c.att c1.spc = c.trace ++ loopEvents c.att c.spc) ∨
     (c.spc = .resetCb ∧ l = .reset ∧ c1 = c.doReset)) := by
  revert hl hrem hlive
  lts_cases hs =>
    intro hl hrem hlive
    simp_all [Label.isS, loopRem, loopLabels, loopEvents, Cfg.ctxDone, Cfg.doDisc, Cfg.doReset]

/-- **loop_continues_run_from** (universal form of `C18.loop_continues`, from any loop pc).
From any configuration in a loop phase (inner `Subscribe` returned / context checked / sleeping /
about to call reset) with a live context, **every** run that contains no stop label and at
least `loopRem` S-steps — whatever other steps are interleaved — splits into a first part whose
S-projection is exactly the remaining loop steps and which ends with the next inner `Subscribe`
called (attempt + 1, the trace extended by exactly the remaining callbacks), and a rest. -/
theorem loop_continues_run_from {s : Script N} {c c' : Cfg N} {ls : List Label}
    (hr : Run true s c ls c') :
    0 < loopRem c.spc → c.ctxDone = false → (∀ l ∈ ls, isStop l = false) →
    loopRem c.spc ≤ ls.countP Label.isS →
    ∃ l1 l2 c1, ls = l1 ++ l2 ∧ Run true s c l1 c1 ∧ Run true s c1 l2 c' ∧
      l1.filter Label.isS = loopLabels c.spc ∧ c1.spc = .connect ∧ c1.att = c.att + 1 ∧
      c1.trace = c.trace ++ loopEvents c.att c.spc ∧ c1.ctxDone = false := by
  induction hr with
  | nil => intro h _ _ hk; simp at hk; omega
  | @cons c l c1 ls c2 hs hrun ih =>
      intro hrem hlive hns hk
      have hns' : ∀ x ∈ ls, isStop x = false := fun x hx => hns x (by simp [hx])
      cases hl : l.isS with
      | false =>
          obtain ⟨hspc, hatt, _, htr, _, _, hctx⟩ := other_frame hs hl
          have hctx := hctx (hns l (by simp))
          have hk' : loopRem c1.spc ≤ ls.countP Label.isS := by
            rw [hspc]; simpa [List.countP_cons, hl] using hk
          obtain ⟨l1, l2, cm, rfl, h1, h2, h3, h4, h5, h6, h7⟩ :=
            ih (by rw [hspc]; exact hrem) (by rw [hctx]; exact hlive) hns' hk'
          refine ⟨l :: l1, l2, cm, rfl, .cons hs h1, h2, ?_, h4, by omega, ?_, h7⟩
          · simp [List.filter_cons, hl, h3, hspc]
          · rw [h6, htr, hatt, hspc]
      | true =>
          obtain ⟨hlab, hctx1, hcase⟩ := loop_S_step hs hl hrem hlive
          rcases hcase with ⟨hrem1, hdec, hatt, htr⟩ | ⟨hp, rfl, rfl⟩
          · have hk' : loopRem c1.spc ≤ ls.countP Label.isS := by
              simp [List.countP_cons, hl] at hk; omega
            obtain ⟨l1, l2, cm, rfl, h1, h2, h3, h4, h5, h6, h7⟩ := ih hrem1 hctx1 hns' hk'
            refine ⟨l :: l1, l2, cm, rfl, .cons hs h1, h2, ?_, h4, by omega, ?_, h7⟩
            · simp [List.filter_cons, hl, h3, hlab]
            · rw [h6, hatt, htr]
          · exact ⟨[.reset], ls, c.doReset, rfl, .cons hs .nil, hrun,
              by simp [hp, loopLabels, Label.isS], rfl, rfl,
              by simp [Cfg.doReset, hp, loopEvents], hctx1⟩

/-- **loop_run_short** (the complement).  A run without stop labels from a loop phase that
contains *fewer* than `loopRem` S-steps ends in a loop phase of the same attempt, with a live
context, exactly that many phases further — where S's next step is enabled: such a run is never
maximal. -/
theorem loop_run_short {s : Script N} {c c' : Cfg N} {ls : List Label}
    (hr : Run true s c ls c') :
    0 < loopRem c.spc → c.ctxDone = false → (∀ l ∈ ls, isStop l = false) →
    ls.countP Label.isS < loopRem c.spc →
    loopRem c'.spc + ls.countP Label.isS = loopRem c.spc ∧ c'.ctxDone = false ∧
      c'.att = c.att ∧ ∃ l c'', Step true s c' l c'' ∧ l.isS = true := by
  induction hr with
  | nil =>
      intro hrem hlive _ _
      obtain ⟨l, c'', h1, h2, _⟩ := loop_enabled s hrem hlive
      exact ⟨by simp, hlive, rfl, l, c'', h1, h2⟩
  | @cons c l c1 ls c2 hs hrun ih =>
      intro hrem hlive hns hk
      have hns' : ∀ x ∈ ls, isStop x = false := fun x hx => hns x (by simp [hx])
      cases hl : l.isS with
      | false =>
          obtain ⟨hspc, hatt, _, htr, _, _, hctx⟩ := other_frame hs hl
          have hctx := hctx (hns l (by simp))
          have hk' : ls.countP Label.isS < loopRem c1.spc := by
            rw [hspc]; simpa [List.countP_cons, hl] using hk
          obtain ⟨h1, h2, h3, h4⟩ :=
            ih (by rw [hspc]; exact hrem) (by rw [hctx]; exact hlive) hns' hk'
          refine ⟨?_, h2, by omega, h4⟩
          simp only [List.countP_cons, hl]; rw [← hspc]; simpa using h1
      | true =>
          obtain ⟨hlab, hctx1, hcase⟩ := loop_S_step hs hl hrem hlive
          rcases hcase with ⟨hrem1, hdec, hatt, htr⟩ | ⟨hp, rfl, rfl⟩
          · have hk' : ls.countP Label.isS < loopRem c1.spc := by
              simp [List.countP_cons, hl] at hk; omega
            obtain ⟨h1, h2, h3, h4⟩ := ih hrem1 hctx1 hns' hk'
            refine ⟨?_, h2, by omega, h4⟩
            simp only [List.countP_cons, hl]; simp; omega
          · simp [List.countP_cons, hl, hp, loopRem] at hk

/-- **loop_never_stops** (dichotomy).  Every run without stop labels from a loop phase with a
live context either has passed through the next inner `Subscribe`, or ends in a configuration in
which S's next loop step is enabled.  Hence no run that is maximal for S stops inside the loop. -/
theorem loop_never_stops {s : Script N} {c c' : Cfg N} {ls : List Label}
    (hr : Run true s c ls c') (hrem : 0 < loopRem c.spc) (hlive : c.ctxDone = false)
    (hns : ∀ l ∈ ls, isStop l = false) :
    (∃ l1 l2 c1, ls = l1 ++ l2 ∧ Run true s c l1 c1 ∧ Run true s c1 l2 c' ∧
      l1.filter Label.isS = loopLabels c.spc ∧ c1.spc = .connect ∧ c1.att = c.att + 1 ∧
      c1.trace = c.trace ++ loopEvents c.att c.spc ∧ c1.ctxDone = false) ∨
    (0 < loopRem c'.spc ∧ c'.att = c.att ∧ ∃ l c'', Step true s c' l c'' ∧ l.isS = true) := by
  by_cases hk : loopRem c.spc ≤ ls.countP Label.isS
  · exact .inl (loop_continues_run_from hr hrem hlive hns hk)
  · obtain ⟨h1, _, h3, h4⟩ := loop_run_short hr hrem hlive hns (by omega)
    exact .inr ⟨by omega, h3, h4⟩

/-- the trace only grows -/
theorem trace_mono_step {wrap : Bool} {s : Script N} {c c' : Cfg N} {l : Label}
    (hs : Step wrap s c l c') : c.trace <+: c'.trace ∧ c.att ≤ c'.att := by
  lts_cases hs =>
    simp_all [Cfg.doSubInit, Cfg.doPlainStart, Cfg.doConnFail, Cfg.doConnOk, Cfg.doInstall,
      Cfg.doRecvMsg, Cfg.doRecvWait, Cfg.doHandle, Cfg.doRunErr, Cfg.doEof,
      Cfg.doPlainRet, Cfg.doDisc, Cfg.doReset, Cfg.doFinish, Cfg.doCloseCs]

theorem trace_mono_run {wrap : Bool} {s : Script N} {c c' : Cfg N} {ls : List Label}
    (hr : Run wrap s c ls c') : c.trace <+: c'.trace ∧ c.att ≤ c'.att := by
  induction hr with
  | nil => exact ⟨List.prefix_refl _, Nat.le_refl _⟩
  | cons hs _ ih =>
      have := trace_mono_step hs
      exact ⟨this.1.trans ih.1, Nat.le_trans this.2 ih.2⟩

/-- **loop_continues_run** (the universal form of `C18.loop_continues`).  Let an inner
`Subscribe` have just returned (with or without an error `e`) and the context be live.  Then
**every** run from there that contains neither `Close`'s critical section nor the cancellation
of the caller's context, and at least 4 steps of goroutine S — with arbitrary steps of other
threads interleaved anywhere — re-subscribes: S's first four steps are
`disc · sleepStart · wake · reset` (no choice), after them the inner `Subscribe` of attempt
`att + 1` is being called, the trace having grown by exactly
`disc att · reset (att+1) · start (att+1)`; and that `start` stays in the trace to the end. -/
theorem loop_continues_run {s : Script N} {c c' : Cfg N} {ls : List Label} {e : Bool}
    (hp : c.spc = .innerRet e) (hlive : c.ctxDone = false)
    (hr : Run true s c ls c') (hns : ∀ l ∈ ls, isStop l = false)
    (hk : 4 ≤ ls.countP Label.isS) :
    (∃ l1 l2 c1, ls = l1 ++ l2 ∧ Run true s c l1 c1 ∧ Run true s c1 l2 c' ∧
      l1.filter Label.isS = [.disc, .sleepStart, .wake, .reset] ∧
      c1.spc = .connect ∧ c1.att = c.att + 1 ∧
      c1.trace = c.trace ++ [.disc c.att, .reset (c.att + 1), .start (c.att + 1)] ∧
      c1.ctxDone = false) ∧
    Ev.start (c.att + 1) ∈ c'.trace ∧ c.att + 1 ≤ c'.att := by
  have h := loop_continues_run_from hr (by simp [hp, loopRem]) hlive hns (by simpa [hp, loopRem] using hk)
  simp only [hp, loopLabels, loopEvents] at h
  refine ⟨h, ?_⟩
  obtain ⟨l1, l2, c1, _, _, h2, _, _, h5, h6, _⟩ := h
  have hm := trace_mono_run h2
  exact ⟨hm.1.subset (by simp [h6]), by omega⟩

/-! ## Reachable configurations: a live loop is only ever interleaved with stop steps -/

/-- In a reachable configuration of the reconnecting client with `Subscribe` called and a live
context, `Close` has not been called: every enabled transition is S's or a stop step.  (So for
reachable configurations "at least k S-steps" in the theorems above is "at least k steps".) -/
theorem live_only_S {s : Script N} {c c' : Cfg N} {l : Label} (h : Reach true s c)
    (hlive : c.ctxDone = false) (hs : c.spc.isIdle = false) (hst : Step true s c l c') :
    l.isS = true ∨ isStop l = true := by
  obtain ⟨hk, _⟩ := not_closed_of_live h hlive hs
  cases hst <;> simp_all [Label.isS, isStop]

/-- an S-step from a started `Subscribe` with a live context keeps both -/
theorem live_S_step {s : Script N} {c c' : Cfg N} {l : Label} (hs : Step true s c l c')
    (hl : l.isS = true) (hlive : c.ctxDone = false) (hi : c.spc.isIdle = false) :
    c'.ctxDone = false ∧ c'.spc.isIdle = false := by
  revert hl hlive hi
  lts_cases hs =>
    intro hl hlive hi
    simp_all [Label.isS, Cfg.ctxDone, Cfg.doSubInit, Cfg.doPlainStart, Cfg.doConnFail,
      Cfg.doConnOk, Cfg.doInstall, Cfg.doRecvMsg, Cfg.doRecvWait, Cfg.doHandle, Cfg.doRunErr,
      Cfg.doEof, Cfg.doPlainRet, Cfg.doDisc, Cfg.doReset, Cfg.doFinish, Cfg.doCloseCs]

theorem run_without_stop_all_S {s : Script N} {c c' : Cfg N} {ls : List Label}
    (hr : Run true s c ls c') :
    Reach true s c → c.ctxDone = false → c.spc.isIdle = false →
    (∀ l ∈ ls, isStop l = false) →
    ls.countP Label.isS = ls.length ∧ Reach true s c' ∧ c'.ctxDone = false := by
  induction hr with
  | nil => intro h hl _ _; exact ⟨rfl, h, hl⟩
  | @cons c l c1 ls c2 hs hrun ih =>
      intro h hlive hi hns
      have hl : l.isS = true := by
        rcases live_only_S h hlive hi hs with h | h
        · exact h
        · rw [hns l (by simp)] at h; cases h
      have hlive1 := live_S_step hs hl hlive hi
      obtain ⟨h1, h2, h3⟩ := ih (.step h hs) hlive1.1 hlive1.2 (fun x hx => hns x (by simp [hx]))
      exact ⟨by simp [List.countP_cons, hl, h1], h2, h3⟩

/-- **loop_continues_run_reach.**  `loop_continues_run` for reachable configurations, where the
count of S-steps is simply the length of the run: from a reachable configuration in which an
inner `Subscribe` has just returned and the context is live, every run of at least 4 steps
without `Close` / cancellation of the caller's context contains the next `Subscribe`. -/
theorem loop_continues_run_reach {s : Script N} {c c' : Cfg N} {ls : List Label} {e : Bool}
    (h : Reach true s c) (hp : c.spc = .innerRet e) (hlive : c.ctxDone = false)
    (hr : Run true s c ls c') (hns : ∀ l ∈ ls, isStop l = false) (hk : 4 ≤ ls.length) :
    Ev.start (c.att + 1) ∈ c'.trace ∧ c.att + 1 ≤ c'.att ∧
    ls.take 4 = [.disc, .sleepStart, .wake, .reset] := by
  obtain ⟨hall, _, _⟩ := run_without_stop_all_S hr h hlive (by simp [hp]) hns
  obtain ⟨⟨l1, l2, c1, rfl, h1, _, h3, _⟩, h4, h5⟩ :=
    loop_continues_run hp hlive hr hns (by omega)
  refine ⟨h4, h5, ?_⟩
  -- every label of the run is S's, so the S-projection of `l1` is `l1`
  have hl1 : l1.filter Label.isS = l1 := by
    apply List.filter_eq_self.mpr
    intro x hx
    have : (l1 ++ l2).filter Label.isS = l1 ++ l2 := by
      have := List.countP_eq_length.mp hall
      exact List.filter_eq_self.mpr this
    exact (List.filter_eq_self.mp this) x (by simp [hx])
  rw [hl1] at h3
  simp [h3]

/-! ## Whole runs: every ended session is followed by the next Subscribe -/

/-- not yet doomed: the context is live and, before `initDone`, `Close` has not run -/
def Live (c : Cfg N) : Prop := c.ctxDone = false ∧ (c.spc.isIdle = true → c.rcClosed = false)

theorem live_step {s : Script N} {c c' : Cfg N} {l : Label} (hL : Live c)
    (hs : Step true s c l c') (hns : isStop l = false) : Live c' := by
  unfold Live Cfg.ctxDone at *
  revert hns
  lts_cases hs =>
    intro hns
    simp_all [isStop, Cfg.doSubInit, Cfg.doPlainStart, Cfg.doConnFail, Cfg.doConnOk, Cfg.doInstall,
      Cfg.doRecvMsg, Cfg.doRecvWait, Cfg.doHandle, Cfg.doRunErr, Cfg.doEof,
      Cfg.doPlainRet, Cfg.doDisc, Cfg.doReset, Cfg.doFinish, Cfg.doCloseCs]

/-- a run without stop labels keeps the context live -/
theorem live_run {s : Script N} {c c' : Cfg N} {ls : List Label} (hr : Run true s c ls c') :
    Live c → (∀ l ∈ ls, isStop l = false) → Live c' := by
  induction hr with
  | nil => intro h _; exact h
  | cons hs _ ih =>
      intro hL hns
      exact ih (live_step hL hs (hns _ (by simp))) (fun x hx => hns x (by simp [hx]))

theorem reach_run {wrap : Bool} {s : Script N} {c c' : Cfg N} {ls : List Label}
    (h : Reach wrap s c) (hr : Run wrap s c ls c') : Reach wrap s c' := by
  induction hr with
  | nil => exact h
  | cons hs _ ih => exact ih (.step h hs)

theorem idle_att_reach {wrap : Bool} {s : Script N} {c : Cfg N} (h : Reach wrap s c) :
    c.spc.isIdle = true → c.att = 0 := by
  induction h with
  | init => simp [init]
  | step _ hs ih =>
      lts_cases hs =>
        simp_all [Cfg.doSubInit, Cfg.doPlainStart, Cfg.doConnFail, Cfg.doConnOk, Cfg.doInstall,
          Cfg.doRecvMsg, Cfg.doRecvWait, Cfg.doHandle, Cfg.doRunErr, Cfg.doEof,
          Cfg.doPlainRet, Cfg.doDisc, Cfg.doReset, Cfg.doFinish, Cfg.doCloseCs]

theorem mem_rounds_ended (a n : Nat) : Ev.ended a ∈ (rounds n : List (Ev N)) ↔ a < n := by
  induction n with
  | zero => simp [rounds]
  | succ n ih => simp [rounds, ih]; omega

theorem mem_rounds_start (a n : Nat) : Ev.start a ∈ (rounds n : List (Ev N)) ↔ a < n := by
  induction n with
  | zero => simp [rounds]
  | succ n ih => simp [rounds, ih]; omega

/-- **resubscribes_after_every_end.**  In every reachable configuration of the reconnecting
client whose context is live (no `Close`, no cancellation so far): every inner `Subscribe` that
has ended — whatever its outcome — has been followed by the next inner `Subscribe` (attempt
`a + 1` started), except possibly the one that ended last, and in that case S is in the retry
loop of that attempt with its next step enabled (the run has merely not got there yet; by
`loop_continues_run` every continuation without stop labels with `loopRem` more S-steps does). -/
theorem resubscribes_after_every_end {s : Script N} {c : Cfg N} (h : Reach true s c)
    (hlive : c.ctxDone = false) (a : Nat) (he : Ev.ended a ∈ c.trace) :
    Ev.start (a + 1) ∈ c.trace ∨
    (a = c.att ∧ 0 < loopRem c.spc ∧ ∃ l c', Step true s c l c' ∧ l.isS = true) := by
  have hshape := (invD_reach h).shape
  have hmem : Ev.ended a ∈ cbs c.trace := List.mem_filter.mpr ⟨he, rfl⟩
  have hback : ∀ e : Ev N, e ∈ cbs c.trace → e ∈ c.trace := fun e h => (List.mem_filter.mp h).1
  rw [hshape, List.mem_append] at hmem
  have hnd : c.spc.isDone = false := by
    cases hd : c.spc.isDone with
    | false => rfl
    | true => have := C18.returns_only_if_cancelled h hd; rw [hlive] at this; cases this
  rcases hmem with hm | hm
  · -- an earlier round: its successor has started
    left
    have hlt := (mem_rounds_ended a c.att).mp hm
    apply hback
    rw [hshape, List.mem_append]
    by_cases h1 : a + 1 < c.att
    · exact .inl ((mem_rounds_start _ _).mpr h1)
    · right
      have ha : c.att = a + 1 := by omega
      have hni : c.spc.isIdle = false := by
        cases hi : c.spc.isIdle with
        | false => rfl
        | true => have := idle_att_reach h hi; omega
      rw [ha]
      cases hp : c.spc <;> simp_all [roundTail]
  · -- the round in progress has ended: S is in the loop
    right
    have : a = c.att ∧ 0 < loopRem c.spc := by
      cases hp : c.spc <;> simp_all [roundTail, loopRem]
    obtain ⟨l, c', h1, h2, _⟩ := loop_enabled s this.2 hlive
    exact ⟨this.1, this.2, l, c', h1, h2⟩

/-- **run_without_close_resubscribes.**  The same for runs: at the end of *any* finite run from
the initial configuration in which neither `Close` nor the cancellation of the caller's context
occurs, each ended session has been followed by a new `Subscribe`, unless the run stops with a
loop step of S still enabled (so it is not maximal). -/
theorem run_without_close_resubscribes {s : Script N} {c : Cfg N} {ls : List Label}
    (hr : Run true s init ls c) (hns : ∀ l ∈ ls, isStop l = false) (a : Nat)
    (he : Ev.ended a ∈ c.trace) :
    Ev.start (a + 1) ∈ c.trace ∨
    (a = c.att ∧ 0 < loopRem c.spc ∧ ∃ l c', Step true s c l c' ∧ l.isS = true) :=
  resubscribes_after_every_end (reach_run .init hr)
    (live_run hr ⟨rfl, fun _ => rfl⟩ hns).1 a he

/-- **live_run_not_maximal.**  No finite run from the initial configuration without `Close` /
cancellation of the caller's context ends with `Subscribe` returned, and at its end S has a
transition of its own unless it is waiting for the transport script inside a session: the only
way such a run can be maximal for S is a session that neither delivers nor ends. -/
theorem live_run_not_maximal {s : Script N} {c : Cfg N} {ls : List Label}
    (hr : Run true s init ls c) (hns : ∀ l ∈ ls, isStop l = false) :
    c.spc.isReturned = false ∧
    ((∃ l c', Step true s c l c' ∧ l.isS = true) ∨ TransportBlocked s c) :=
  live_not_terminal (reach_run .init hr) (live_run hr ⟨rfl, fun _ => rfl⟩ hns).1

theorem count_cbs (p : Ev N → Bool) (hp : ∀ e, p e = true → e.isCb = true) (t : List (Ev N)) :
    (cbs t).countP p = t.countP p := by
  induction t with
  | nil => rfl
  | cons x r ih =>
      unfold cbs at *
      cases hx : x.isCb with
      | true => simp [List.filter_cons, hx, List.countP_cons, ih]
      | false =>
          have : p x = false := by
            cases hpx : p x with
            | false => rfl
            | true => rw [hp x hpx] at hx; cases hx
          simp [List.filter_cons, hx, List.countP_cons, ih, this]

theorem nStarted_rounds (n : Nat) : nStarted (rounds n : List (Ev N)) = n := by
  induction n with
  | zero => rfl
  | succ n ih => simp [rounds, nStarted, List.countP_append, List.countP_cons, isStartEv] at *; omega

theorem nEnded_rounds (n : Nat) : nEnded (rounds n : List (Ev N)) = n := by
  induction n with
  | zero => rfl
  | succ n ih => simp [rounds, nEnded, List.countP_append, List.countP_cons, isEndedEv] at *; omega

/-- **started_vs_ended.**  In every reachable configuration of the reconnecting client the
number of inner `Subscribe` calls is the number of returned ones, or one more (a session in
progress).  With a live context they are equal only before the first `Subscribe`, or while S is
in the retry loop with its next step enabled: in any run without `Close`, sessions started ≥
sessions ended, and each ended session is followed by a new `Subscribe` unless the run stops
with a loop step of S still enabled. -/
theorem started_vs_ended {s : Script N} {c : Cfg N} (h : Reach true s c) :
    nEnded c.trace ≤ nStarted c.trace ∧ nStarted c.trace ≤ nEnded c.trace + 1 ∧
    (c.ctxDone = false → nStarted c.trace = nEnded c.trace →
      c.spc = .idle ∨ (0 < loopRem c.spc ∧ ∃ l c', Step true s c l c' ∧ l.isS = true)) := by
  have hshape := (invD_reach h).shape
  have h1 : nStarted c.trace = c.att + nStarted (roundTail c.att c.spc) := by
    unfold nStarted
    rw [← count_cbs isStartEv (by intro e; cases e <;> simp [isStartEv, Ev.isCb]), hshape,
      List.countP_append]
    exact congrArg (· + _) (nStarted_rounds c.att)
  have h2 : nEnded c.trace = c.att + nEnded (roundTail c.att c.spc) := by
    unfold nEnded
    rw [← count_cbs isEndedEv (by intro e; cases e <;> simp [isEndedEv, Ev.isCb]), hshape,
      List.countP_append]
    exact congrArg (· + _) (nEnded_rounds c.att)
  rw [h1, h2]
  refine ⟨?_, ?_, ?_⟩
  · cases c.spc <;> simp [roundTail, nStarted, nEnded, isStartEv, isEndedEv, List.countP_cons]
  · cases c.spc <;> simp [roundTail, nStarted, nEnded, isStartEv, isEndedEv, List.countP_cons]
  · intro hlive heq
    have hnd : c.spc.isDone = false := by
      cases hd : c.spc.isDone with
      | false => rfl
      | true => have := C18.returns_only_if_cancelled h hd; rw [hlive] at this; cases this
    cases hp : c.spc <;>
      simp [hp, roundTail, nStarted, nEnded, isStartEv, isEndedEv, List.countP_cons] at heq hnd
    case idle => exact .inl rfl
    all_goals
      obtain ⟨l, c', h1, h2, _⟩ := loop_enabled s (c := c) (by simp [hp, loopRem]) hlive
      exact .inr ⟨by simp [loopRem], l, c', h1, h2⟩

/-! ## Why the cancellation of the caller's context has to be excluded too -/

/-- With `parentCancel` allowed (and no `Close` at all) the loop stops: from *any* configuration
in which an inner `Subscribe` has just returned there is a run without `Close` after which
`Subscribe` has returned and no new session was started. -/
theorem parentCancel_stops {s : Script N} {c : Cfg N} {e : Bool} (hp : c.spc = .innerRet e)
    (hpc : c.parentC = false) :
    ∃ c', Run true s c [.parentCancel, .disc, .ctxExit, .finish] c' ∧
      c'.spc = .returned .canceled ∧ c'.att = c.att ∧ c'.trace = c.trace ++ [.disc c.att] := by
  refine ⟨_, .cons (.parentCancel hpc) (.cons (.disc (e := e) rfl hp)
    (.cons (.ctxExit (e := e) rfl ?_) (.cons (.finish rfl) .nil))), ?_, ?_, ?_⟩
  · simp [Cfg.doDisc, Cfg.ctxDone]
  · simp [Cfg.doFinish]
  · simp [Cfg.doFinish, Cfg.doDisc]
  · simp [Cfg.doFinish, Cfg.doDisc]

/-! ## Non-vacuity -/

/-- the hypotheses of `loop_continues_run` / `loop_continues_run_reach` are met by a reachable
configuration of the `C18.demo` scenario (second connect failed, context live) and a run of 4
steps from it -/
example : ∃ (c c' : Cfg NKind) (ls : List Label), Reach true (scriptOf C18.demo) c ∧
    c.att = 1 ∧ c.spc = .innerRet true ∧ c.ctxDone = false ∧ c.kpc = .idle ∧
    Run true (scriptOf C18.demo) c ls c' ∧ (∀ l ∈ ls, isStop l = false) ∧
    4 ≤ ls.countP Label.isS ∧ c'.att = 2 := by
  let stop : Cfg NKind → Bool :=
    fun c => c.att == 1 && (match c.spc with | .innerRet _ => true | _ => false)
  let c := runS true (scriptOf C18.demo) false stop 200 init
  have hp : c.spc = .innerRet true := rfl
  have hl : c.ctxDone = false := by decide
  obtain ⟨c', hr, _, ha, _⟩ := C18.loop_continues (s := scriptOf C18.demo) hp hl
  exact ⟨c, c', _, runS_reach _ _ .init, by decide, hp, hl, by decide, hr, by decide, by decide,
    by rw [ha]; decide⟩

/-- interleaving: a run in which steps of K (`closeInner`, `closeWait` — not stop steps) are
interleaved with the loop satisfies the hypotheses of `loop_continues_run` (such configurations
are not reachable with a live context, `live_only_S`; the theorem covers them all the same) -/
example : ∃ c' : Cfg Nat,
    Run true hangScript { spc := .innerRet true, kpc := .inner false }
      [.disc, .closeInner, .sleepStart, .closeWait, .wake, .reset] c' ∧ c'.att = 1 :=
  ⟨_, .cons (.disc (e := true) rfl rfl) (.cons (.closeInner (sd := false) rfl)
    (.cons (.sleepStart (e := true) rfl rfl) (.cons (.closeWait (sd := false) (e := true) rfl (by simp))
    (.cons (.wake rfl) (.cons (.reset rfl) .nil))))), rfl⟩

/-- `TransportBlocked` and `Responsive` are both inhabited -/
example : TransportBlocked hangScript (init : Cfg Nat).doSubInit := .inl ⟨rfl, rfl, rfl⟩
example : Responsive (fun _ => { conn := .fail, items := [], term := .err } : Script Nat) :=
  fun _ => ⟨by simp, by simp⟩

end C18Prog
end Gnmi
