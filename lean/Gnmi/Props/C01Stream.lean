import Gnmi.Lemmas.PipelineStream
import Gnmi.Props.C01
/-!
# C01 — the STREAM clause of `pipeline_faithful`

`pipeline_faithful_stream_partial`: for every valid configuration, every run that is any
interleaving of well-formed sessions (`wellFormed true`) of the configured targets with STREAM
clients subscribing anywhere, a STREAM client of a configured target `T` that subscribed at *any*
point of the run (`steps = pre ++ subscribe id T qs :: post`, fresh id) holds at the end exactly
`Relay.expected T (final view) qs` — the second conjunct of `C01.pipeline_faithful`.

It composes
* `C01.collector_cache_holds_final_view` (what the cache holds at the end),
* `C04Seq`'s invariant (`HInv`, `SubInv`: the replay of what the subscriber was sent agrees with
  the cache on the keys its queries match — the collector run is a `C04Seq` history:
  `Lemmas/PipelineStream.lean`),
* `C01S.client_replay` (the `CacheClient` tree is the decoded replay).

Hypotheses beyond those of the ONCE clause (all explicit):
* `"*" ∉ keys cfg.target`: no configured target is literally named `*` (for such a cache the
  STREAM clause is false in the model: `C04Seq.star_target_breaks_convergence`);
* `ExactStream`: every value a target streams is one for which `value.Equal` means "decodes to the
  same Go value" (`ExactV`; true of every non-floating-point scalar: `exactV_of_noFloat`).  The
  collector's cache suppresses an update whose value is `value.Equal` to the stored one (event-driven
  emulation, on by default): `+0.0` then `-0.0` leaves a STREAM client with `+0.0` although the
  target's last value is `-0.0`;
* `queryOK` queries (at most origin + one element), as in the full statement: the STREAM filter
  `compatible` and the snapshot selection `qmatches` agree on them.
-/
namespace Gnmi
namespace C01
open Cache Pipeline Relay SubStream C01S

/-! ## the collector right after start -/

theorem start_cache_ok (cfg : TargetCfg.Cfg) :
    Feed.NamesUnique (Coll.start cfg).cache ∧
    ∀ U t, (Coll.start cfg).cache.get U = some t → t = { name := U } ∧ U ∈ TargetCfg.keys cfg.target := by
  unfold Coll.start
  suffices ∀ (l : List (String × TargetCfg.TgtP)) (c : Coll), (∀ kv ∈ l, kv ∈ cfg.target) →
      (Feed.NamesUnique c.cache ∧
        ∀ U t, c.cache.get U = some t → t = { name := U } ∧ U ∈ TargetCfg.keys cfg.target) →
      Feed.NamesUnique (l.foldl (fun c kv => c.add cfg kv.1 kv.2) c).cache ∧
      ∀ U t, (l.foldl (fun c kv => c.add cfg kv.1 kv.2) c).cache.get U = some t →
        t = { name := U } ∧ U ∈ TargetCfg.keys cfg.target from
    this cfg.target {} (fun kv h => h) ⟨Feed.NamesUnique.empty _, fun U t h => by simp [State.get] at h⟩
  intro l
  induction l with
  | nil => intro c _ h; exact h
  | cons kv l ih =>
    intro c hl h
    simp only [List.foldl_cons]
    apply ih _ (fun x hx => hl x (List.mem_cons_of_mem _ hx))
    rw [add_cache]
    cases kv.2 with
    | none => exact h
    | some t' =>
      simp only
      cases TargetCfg.find t'.request cfg.request with
      | none => exact h
      | some sr =>
        simp only [State.add]
        refine ⟨h.1.set _ _, ?_⟩
        intro U t hg
        by_cases e : U = kv.1
        · rw [e, get_set_same] at hg
          cases hg
          rw [e]
          exact ⟨rfl, List.mem_map.2 ⟨kv, hl kv (List.mem_cons_self ..), rfl⟩⟩
        · rw [get_set_other _ _ _ _ e] at hg
          exact h.2 U t hg

theorem start_inv2 (cfg : TargetCfg.Cfg) (hv : TargetCfg.validate cfg = .ok ())
    (hns : "*" ∉ TargetCfg.keys cfg.target) : Inv2 (TargetCfg.keys cfg.target) (Sys.start cfg) := by
  obtain ⟨hnu, hfresh⟩ := start_cache_ok cfg
  have hne : ∀ x ∈ TargetCfg.keys cfg.target, x ≠ "" := by
    intro x hx
    obtain ⟨t, hmem⟩ := mem_keys hx
    exact (validate_entries hv (x, t) hmem).name_ne
  refine ⟨⟨rfl, ?_, ⟨hnu, ?_, ?_⟩, (fun s hs => by cases hs)⟩, (fun s hs => by cases hs), ?_⟩
  · intro name t hg
    obtain ⟨rfl, hk⟩ := hfresh name t hg
    exact ⟨fresh_target_inv name, rfl, hne name hk⟩
  · intro name t hg
    obtain ⟨rfl, _⟩ := hfresh name t hg
    exact Feed.GT.init _ _
  · cases hg : (Coll.start cfg).cache.get glob with
    | none => exact hg
    | some t => exact absurd (hfresh glob t hg).2 hns
  · intro U hU
    cases hg : (Sys.start cfg).sub.cache.get U with
    | none => rw [hg] at hU; cases hU
    | some t => exact (hfresh U t hg).2

/-! ## views: keys have at least two elements, values are streamed values -/

theorem itemsOf_append (name : String) : ∀ (a b : List Step), itemsOf name (a ++ b) = itemsOf name a ++ itemsOf name b
  | [], _ => rfl
  | .recv n f now it :: a, b => by
    simp only [List.cons_append, itemsOf]
    split
    · rw [itemsOf_append name a b]; rfl
    · exact itemsOf_append name a b
  | .subscribe _ _ _ :: a, b => by
    simp only [List.cons_append, itemsOf]
    exact itemsOf_append name a b

theorem senders_append : ∀ (a b : List Step), senders (a ++ b) = senders a ++ senders b
  | [], _ => rfl
  | .recv n f now it :: a, b => by
    simp only [List.cons_append, senders]
    rw [senders_append a b]
  | .subscribe _ _ _ :: a, b => by
    simp only [List.cons_append, senders]
    exact senders_append a b

theorem wellFormedFrom_append (strict : Bool) : ∀ (a : List TItem) (v : View) (b : List TItem),
    wellFormedFrom strict v (a ++ b) = (wellFormedFrom strict v a && wellFormedFrom strict (a.foldl applyItem v) b)
  | [], v, b => by simp [wellFormedFrom]
  | it :: a, v, b => by
    simp only [List.cons_append, wellFormedFrom, List.foldl_cons]
    rw [wellFormedFrom_append strict a, Bool.and_assoc]

/-- an invariant of views kept by admissible items -/
structure ViewFacts (P : Val → Prop) (v : View) : Prop where
  len : ∀ kv ∈ v, kv.1.length ≥ 2
  vals : ∀ kv ∈ v, P kv.2.2

theorem viewFacts_set {P : Val → Prop} {v : View} (h : ViewFacts P v) (k : Path) (ts : Int) (val : Val)
    (hk : k.length ≥ 2) (hp : P val) : ViewFacts P (v.set k ts val) := by
  constructor
  · intro kv hkv
    rcases List.mem_cons.1 hkv with e | hm
    · rw [e]; exact hk
    · exact h.len kv (List.mem_filter.1 hm).1
  · intro kv hkv
    rcases List.mem_cons.1 hkv with e | hm
    · rw [e]; exact hp
    · exact h.vals kv (List.mem_filter.1 hm).1

theorem viewFacts_remove {P : Val → Prop} {v : View} (h : ViewFacts P v) (q : Path) : ViewFacts P (v.remove q) :=
  ⟨fun kv hkv => h.len kv (List.mem_filter.1 hkv).1, fun kv hkv => h.vals kv (List.mem_filter.1 hkv).1⟩

theorem viewFacts_updates {P : Val → Prop} {pn : Bool} {n : Noti} :
    ∀ (us : List Upd) (v : View), ViewFacts P v → updatesOK true pn n us v = true → (∀ u ∈ us, P u.val) →
      ViewFacts P (applyUpdates pn n us v)
  | [], _, h, _, _ => h
  | u :: us, v, h, hok, hp => by
    unfold updatesOK at hok
    simp only [Bool.and_eq_true] at hok
    have hlen : (keyOf pn n u.path).length ≥ 2 := by
      have := hok.1
      unfold updOK at this
      simp only [Bool.and_eq_true, decide_eq_true_eq] at this
      exact this.1.1.1.1.1.2
    exact viewFacts_updates us _ (viewFacts_set h _ _ _ hlen (hp u (List.mem_cons_self ..))) hok.2
      (fun x hx => hp x (List.mem_cons_of_mem _ hx))

theorem viewFacts_deletes {P : Val → Prop} {pn : Bool} {n : Noti} :
    ∀ (ds : List Del) (v : View), ViewFacts P v → ViewFacts P (applyDeletes pn n ds v)
  | [], _, h => h
  | d :: ds, v, h => viewFacts_deletes ds _ (viewFacts_remove h _)

theorem viewFacts_run {P : Val → Prop} : ∀ (items : List TItem) (v : View), ViewFacts P v →
    wellFormedFrom true v items = true → (∀ u ∈ updatesOf items, P u.val) →
    ViewFacts P (items.foldl applyItem v)
  | [], _, h, _, _ => h
  | it :: r, v, h, hw, hp => by
    simp only [wellFormedFrom, Bool.and_eq_true] at hw
    simp only [List.foldl_cons]
    cases it with
    | update pn n =>
      have hok := hw.1
      unfold Relay.itemOK at hok
      simp only [Bool.and_eq_true] at hok
      apply viewFacts_run r _ _ hw.2 (fun u hu => hp u (by simp [updatesOf, hu]))
      exact viewFacts_deletes _ _ (viewFacts_updates _ _ h hok.1.2 (fun u hu => hp u (by simp [updatesOf, hu])))
    | sync => exact viewFacts_run r _ h hw.2 (fun u hu => hp u (by simpa [updatesOf] using hu))
    | error => exact viewFacts_run r _ h hw.2 (fun u hu => hp u (by simpa [updatesOf] using hu))
    | nilResponse => exact viewFacts_run r _ h hw.2 (fun u hu => hp u (by simpa [updatesOf] using hu))

/-! ## `value.Equal` vs the decoded value -/

/-- `value.Equal` with `v` means "decodes as `v` does" -/
def ExactV (v : Val) : Prop := ∀ w, valueEqual w v = true → decodeVal w = decodeVal v

def noFloatS : Scalar → Bool
  | .double _ => false
  | .float _ => false
  | _ => true

def noFloat : Val → Bool
  | .absent => true
  | .scalar s => noFloatS s
  | .leaflist l => l.all noFloatS

theorem scalarEqual_eq {a b : Scalar} (h : scalarEqual a b = true) (hb : noFloatS b = true) : a = b := by
  cases a <;> cases b <;> simp_all [scalarEqual, noFloatS]

theorem scalarsEqual_eq : ∀ {a b : List Scalar}, scalarsEqual a b = true → b.all noFloatS = true → a = b
  | [], [], _, _ => rfl
  | [], _ :: _, h, _ => by simp [scalarsEqual] at h
  | _ :: _, [], h, _ => by simp [scalarsEqual] at h
  | x :: a, y :: b, h, hb => by
    simp only [scalarsEqual, Bool.and_eq_true] at h
    simp only [List.all_cons, Bool.and_eq_true] at hb
    rw [scalarEqual_eq h.1 hb.1, scalarsEqual_eq h.2 hb.2]

/-- every value without a floating-point scalar is exact -/
theorem exactV_of_noFloat {v : Val} (h : noFloat v = true) : ExactV v := by
  intro w hw
  cases w with
  | absent => cases v <;> simp [valueEqual] at hw
  | scalar a =>
    cases v with
    | scalar b => rw [scalarEqual_eq (a := a) (b := b) hw h]
    | absent => simp [valueEqual] at hw
    | leaflist => simp [valueEqual] at hw
  | leaflist a =>
    cases v with
    | leaflist b => rw [scalarsEqual_eq (a := a) (b := b) hw h]
    | absent => simp [valueEqual] at hw
    | scalar => simp [valueEqual] at hw

/-- every value the stream carries is exact -/
def ExactStream (items : List TItem) : Prop := ∀ u ∈ updatesOf items, ExactV u.val

/-! ## small facts about client requests -/

theorem regQueries_clientReq (T : String) (m : Sub.Mode) (qs : List Path) :
    Sub.regQueries (clientReq T m qs) = qs.map (fun q => T :: q) := by
  unfold Sub.regQueries clientReq
  simp

theorem completePath_clientReq (T : String) (m : Sub.Mode) (qs : List Path) :
    ∀ sp ∈ (clientReq T m qs).subs, (Sub.completePath (clientReq T m qs) sp).isSome = true := by
  intro sp hsp
  simp only [clientReq, List.mem_map] at hsp
  obtain ⟨q, _, rfl⟩ := hsp
  simp [Sub.completePath, clientReq]

theorem denied_absent (r : Sub.Resp) : Sub.denied .absent r = false := by
  unfold Sub.denied
  cases Sub.respTarget r <;> simp [Sub.Acl.check]

theorem headVal_eq (n : Noti) : Relay.headVal n = Feed.headVal n := rfl

theorem qmatches_of_compatible_short : ∀ (q k : Path), q.length ≤ k.length → glob ∉ k →
    compatible q k = true → qmatches q k = true
  | [], _, _, _, _ => by simp [qmatches]
  | g :: q, [], hl, _, _ => by simp at hl
  | g :: q, x :: k, hl, hg, hc => by
    rw [Match.compatible_cons_cons] at hc
    rw [C06.qmatches_cons_cons]
    simp only [Bool.and_eq_true, Bool.or_eq_true] at hc ⊢
    have hx : (x == glob) = false := by
      have : x ≠ glob := fun e => hg (by simp [e])
      simpa using this
    refine ⟨?_, qmatches_of_compatible_short q k (by simpa using hl) (fun h => hg (List.mem_cons_of_mem _ h)) hc.2⟩
    rcases hc.1 with (h | h) | h
    · exact Or.inl h
    · rw [hx] at h; cases h
    · exact Or.inr h

theorem decLeaf_some {n : Noti} {leaf : CLeaf} (h : decLeaf n = some leaf) :
    decodeVal (Relay.headVal n) = .val leaf.val ∧ leaf.ts = n.ts := by
  unfold decLeaf at h
  cases hd : decodeVal (Relay.headVal n) with
  | val cv => rw [hd] at h; simp only [Option.some.injEq] at h; rw [← h]; exact ⟨rfl, rfl⟩
  | skip => rw [hd] at h; cases h
  | err => rw [hd] at h; cases h

theorem sys_run_append (enc : String → String) (s : Sys) (a b : List Step) :
    s.run enc (a ++ b) = (s.run enc a).run enc b := by
  simp [Sys.run, List.foldl_append]

/-! ## the STREAM clause -/

/-- **pipeline_faithful, STREAM client** (the second conjunct of `pipeline_faithful`, proved for
`wellFormed true` streams; see the header for the three extra hypotheses).  A STREAM client of a
configured target `T` that subscribed at any point of the run holds at the end exactly
`Relay.expected T (final view) qs`: its RPC is alive and synced, every leaf it holds is filed under
`T :: …`, and outside `meta/` it holds at `T :: k` the decoded value of `T`'s final view when some
query selects `k`, and nothing otherwise — no missing, no extra, no stale value. -/
theorem pipeline_faithful_stream_partial (enc : String → String) (cfg : TargetCfg.Cfg)
    (hv : TargetCfg.validate cfg = .ok ()) (hns : "*" ∉ TargetCfg.keys cfg.target) (steps : List Step)
    (hs : ∀ x ∈ senders steps, x ∈ TargetCfg.keys cfg.target)
    (hwf : ∀ name ∈ TargetCfg.keys cfg.target, wellFormed true (itemsOf name steps) = true)
    (T : String) (hT : T ∈ TargetCfg.keys cfg.target) (hex : ExactStream (itemsOf T steps))
    (qs : List Path) (hq : ∀ q ∈ qs, queryOK q = true)
    (pre post : List Step) (id : String) (hsplit : steps = pre ++ .subscribe id T qs :: post)
    (hid : ∀ st ∈ pre ++ post, match st with
      | .subscribe id' _ _ => id' ≠ id
      | _ => True) :
    HoldsExpected (((Sys.start cfg).run enc steps).streamView id) T (finalView (itemsOf T steps)) qs := by
  have hne : ∀ x ∈ TargetCfg.keys cfg.target, x ≠ "" := by
    intro x hx
    obtain ⟨t, hmem⟩ := mem_keys hx
    exact (validate_entries hv (x, t) hmem).name_ne
  have hTne : T ≠ "" := hne T hT
  have hstar : T ≠ glob := fun e => hns (by rw [← show glob = "*" from rfl, ← e]; exact hT)
  -- the run, in three phases
  have hidOK : ∀ st ∈ pre ++ post, idOK id st := by
    intro st hst
    have := hid st hst
    cases st <;> exact this
  have hsplit_items : ∀ name, itemsOf name steps = itemsOf name pre ++ itemsOf name post := by
    intro name
    rw [hsplit, itemsOf_append]
    rfl
  have hwf2 : ∀ name ∈ TargetCfg.keys cfg.target,
      wellFormedFrom true [] (itemsOf name pre) = true ∧
      wellFormedFrom true ((itemsOf name pre).foldl applyItem []) (itemsOf name post) = true := by
    intro name hn
    have := hwf name hn
    unfold wellFormed at this
    rw [hsplit_items, wellFormedFrom_append, Bool.and_eq_true] at this
    exact this
  have hs_pre : ∀ x ∈ senders pre, x ∈ TargetCfg.keys cfg.target := by
    intro x hx
    apply hs
    rw [hsplit, senders_append]
    exact List.mem_append_left _ hx
  have hs_post : ∀ x ∈ senders post, x ∈ TargetCfg.keys cfg.target := by
    intro x hx
    apply hs
    rw [hsplit, senders_append]
    exact List.mem_append_right _ (by simpa [senders] using hx)
  -- phase 1: `pre`
  have H0 := start_holds cfg hv
  have I0 := start_inv2 cfg hv hns
  have H1 := Holds.run enc hne pre _ _ H0 hs_pre (fun name hn => (hwf2 name hn).1)
  have T1 := run_tr4 enc hne id (clientReq T .stream qs) pre _ _ H0 I0 hs_pre (fun name hn => (hwf2 name hn).1)
    (fun st hst => hidOK st (List.mem_append_left _ hst))
  have N1 : NoId id ((Sys.start cfg).run enc pre).sub := T1.2.2.2 (fun x hx => by cases hx)
  generalize hs1 : (Sys.start cfg).run enc pre = s1 at H1 T1 N1
  have I1 := T1.1
  -- phase 2: the subscription
  have H2 := H1.step enc hne (.subscribe id T qs) trivial
  simp only at H2
  have I2 := inv2_subscribe enc hne H1 I1 id T qs
  obtain ⟨t1, g1, _, _, _⟩ := H1.each T hT
  have hhas : s1.sub.cache.hasTarget T = true := by
    have hstar' : ¬ T = "*" := hstar
    unfold State.hasTarget
    rw [if_neg hTne, if_neg hstar', g1]; rfl
  have hsub2 : (s1.step enc (.subscribe id T qs)).sub =
      { s1.sub with subs := s1.sub.subs ++ [streamSub s1.sub.cache id (clientReq T .stream qs) .absent] } := by
    simp only [Sys.step]
    rw [if_neg (by rw [H1.alive]; simp)]
    exact subscribe_stream_eq s1.sub id (clientReq T .stream qs) I1.h.pre rfl rfl hTne hhas rfl rfl
  have K2 : KProp id (clientReq T .stream qs) (s1.step enc (.subscribe id T qs)).sub := by
    intro x hx hxid
    rw [hsub2] at hx
    rcases List.mem_append.1 hx with h | h
    · exact absurd hxid (N1 x h)
    · simp only [List.mem_singleton] at h
      subst h
      refine ⟨⟨streamSub_alive _ _ _ _ (completePath_clientReq T .stream qs), ?_, ?_⟩,
        streamSub_req _ _ _ _, streamSub_acl _ _ _ _⟩
      · rw [streamSub_req]; rfl
      · rw [streamSub_req]; rfl
  have Has2 : HasId id (s1.step enc (.subscribe id T qs)).sub := by
    refine ⟨streamSub s1.sub.cache id (clientReq T .stream qs) .absent, ?_, streamSub_id _ _ _ _⟩
    rw [hsub2]
    exact List.mem_append_right _ (List.mem_singleton.2 rfl)
  -- phase 3: `post`
  have hwf_post : ∀ name ∈ TargetCfg.keys cfg.target,
      wellFormedFrom true ((itemsOf name pre).foldl applyItem []) (itemsOf name post) = true :=
    fun name hn => (hwf2 name hn).2
  have T3 := run_tr4 enc hne id (clientReq T .stream qs) post _ _ H2 I2 hs_post hwf_post
    (fun st hst => hidOK st (List.mem_append_right _ hst))
  have hrun : (Sys.start cfg).run enc steps = (s1.step enc (.subscribe id T qs)).run enc post := by
    rw [hsplit, sys_run_append, hs1]
    simp [Sys.run]
  have I3 := T3.1
  have K3 := T3.2.1 K2
  obtain ⟨x0, hx0, hid0⟩ := T3.2.2.1 Has2
  rw [← hrun] at I3 K3 hx0
  -- the cache at the end
  obtain ⟨_, hall⟩ := collector_cache_holds_final_view enc cfg hv steps hs hwf
  obtain ⟨t, gt1, gt2, gt3, gt4⟩ := hall T hT
  have hvok := viewOK_final (itemsOf T steps) (hwf T hT)
  have hvf : ViewFacts ExactV (finalView (itemsOf T steps)) :=
    viewFacts_run (itemsOf T steps) [] ⟨(fun kv h => by cases h), (fun kv h => by cases h)⟩ (hwf T hT) hex
  generalize hfin : (Sys.start cfg).run enc steps = sf at I3 K3 hx0 gt1
  -- the subscriber
  have hfind : ∃ x, sf.sub.subs.find? (fun s => s.id = id) = some x := by
    cases hf : sf.sub.subs.find? (fun s => s.id = id) with
    | some x => exact ⟨x, rfl⟩
    | none =>
      rw [List.find?_eq_none] at hf
      have := hf x0 hx0
      simp [hid0] at this
  obtain ⟨x, hfx⟩ := hfind
  have hx : x ∈ sf.sub.subs := List.mem_of_find?_eq_some hfx
  have hxid : x.id = id := by simpa using List.find?_some hfx
  obtain ⟨hL, hreq, hacl⟩ := K3 x hx hxid
  have inv := I3.h.subs x hx hL
  obtain ⟨g, hgout, hgns, hgext, hgsync, hgq⟩ := inv.ghost
  have hout : x.out = g := by
    rw [hgout, hacl]
    apply List.filter_eq_self.2
    intro a _
    simp [denied_absent]
  have hp : ∀ y ∈ g, respP PG Dne y.1 := by
    rw [← hout]; exact (I3.out x hx).out
  obtain ⟨hcs, hsynced⟩ := client_replay g {} [] csim_init hp hgext
  have hclient : Sys.streamView sf id = Client.run false {} (g.map (·.1)) := by
    unfold Sys.streamView clientOf sentTo
    simp only [hfx, hout, inv.status]
    rfl
  rw [hclient]
  have hregs : x.regs = qs.map (fun q => T :: q) := by
    rw [inv.regsEq, hreq, regQueries_clientReq]
  have hreqT : x.req.target = T := by rw [hreq]; rfl
  rw [hregs, hreqT] at hgq
  have hVT : ∀ k, lookup (treesOf sf.sub.cache T) k = lookup t.tree k := by
    intro k; rw [treesOf_some gt1]
  have hvokc := I3.h.cok.vok
  have hjm : ∀ t' k, (qs.map (fun q => T :: q)).any (fun q => qmatches q (t' :: k)) = true →
      Feed.Sim sf.sub.cache.cfg (lookup (replay g) (t' :: k)) (lookup (treesOf sf.sub.cache t') k) :=
    fun t' k h => hgq.jm t' k h
  -- a key the subscriber's view holds is a selected key of `T`
  have hkeysel : ∀ κ, (lookup (replay g) κ).isSome = true →
      ∃ k n, κ = T :: k ∧ lookup t.tree k = some n ∧ (isMetaKey k = false → selected qs k = true) := by
    intro κ hκ
    obtain ⟨t', k, rfl, hvk, hc⟩ := hgq.jv κ hκ
    obtain ⟨q', hq', hcq⟩ := List.any_eq_true.1 hc
    obtain ⟨q, hqq, rfl⟩ := List.mem_map.1 hq'
    rw [Match.compatible_cons_cons] at hcq
    simp only [Bool.and_eq_true, Bool.or_eq_true, beq_iff_eq] at hcq
    have ht' : t' ≠ glob := ne_glob_of_isSome hvokc hvk
    have hTt : T = t' := by
      rcases hcq.1 with (h | h) | h
      · exact absurd h hstar
      · exact absurd h ht'
      · exact h
    subst hTt
    rw [hVT] at hvk
    cases hl : lookup t.tree k with
    | none => rw [hl] at hvk; cases hvk
    | some n =>
      refine ⟨k, n, rfl, hl, ?_⟩
      intro hmk
      have hget : (finalView (itemsOf T steps)).get k = some (n.ts, Relay.headVal n) := by
        rw [← gt3 k]
        unfold absGet
        simp [hmk, hl]
      have hlen := hvf.len _ (View.get_some_mem hget)
      have hng : glob ∉ k := (I3.h.cok.gt T t gt1).noGlob _ (mem_of_lookup_some hl)
      have hql : q.length ≤ k.length := by
        have := hq q hqq
        unfold queryOK at this
        simp only [decide_eq_true_eq] at this
        simp only at hlen
        omega
      exact List.any_eq_true.2 ⟨q, hqq, qmatches_of_compatible_short q k hql hng hcq.2⟩
  have hmatched : ∀ k, selected qs k = true →
      (qs.map (fun q => T :: q)).any (fun q => qmatches q (T :: k)) = true := by
    intro k hsel
    obtain ⟨q, hqq, hqm⟩ := List.any_eq_true.1 hsel
    refine List.any_eq_true.2 ⟨T :: q, List.mem_map.2 ⟨q, hqq, rfl⟩, ?_⟩
    rw [qmatches_reg]
    exact ⟨Or.inr rfl, hqm⟩
  -- the decoded value does not depend on which of two `value.Equal` notifications is held
  have hdec : ∀ k w n, isMetaKey k = false → lookup t.tree k = some n →
      Feed.Sim sf.sub.cache.cfg (some w) (some n) →
      decodeVal (Relay.headVal w) = decodeVal (Relay.headVal n) := by
    intro k w n hmk hl hsim
    rcases hsim with rfl | ⟨_, _, _, hve⟩
    · rfl
    · have hget : (finalView (itemsOf T steps)).get k = some (n.ts, Relay.headVal n) := by
        rw [← gt3 k]
        unfold absGet
        simp [hmk, hl]
      have hexn : ExactV (Relay.headVal n) := hvf.vals _ (View.get_some_mem hget)
      exact hexn _ hve
  refine ⟨hcs.failed, hsynced (Or.inr hgsync), ?_, ?_⟩
  · intro kv hkv
    have hkv' : kv ∈ (Client.run false {} (g.map (·.1))).tree := hkv
    have hsome := cget_some_of_mem hkv'
    rw [hcs.get kv.1] at hsome
    have hl : (lookup (replay g) kv.1).isSome = true := by
      cases hlk : lookup (replay g) kv.1 with
      | none => rw [show (g.foldl (fun v r => applyResp v r.1) []) = replay g from rfl, hlk] at hsome; cases hsome
      | some _ => rfl
    obtain ⟨k, _, e, _, _⟩ := hkeysel kv.1 hl
    exact ⟨k, e⟩
  · intro k cv hmk
    have hcg : cget (Client.run false {} (g.map (·.1))).tree (T :: k) = (lookup (replay g) (T :: k)).bind decLeaf :=
      hcs.get (T :: k)
    rw [hcg]
    unfold expected
    simp only [List.mem_filterMap, List.mem_filter]
    constructor
    · rintro ⟨ts, h⟩
      cases hlk : lookup (replay g) (T :: k) with
      | none => rw [hlk] at h; cases h
      | some w =>
        rw [hlk] at h
        simp only [Option.bind_some] at h
        obtain ⟨hdv, _⟩ := decLeaf_some h
        obtain ⟨k', n, e, hl, hsel⟩ := hkeysel (T :: k) (by rw [hlk]; rfl)
        simp only [List.cons.injEq, true_and] at e
        subst e
        have hsel' := hsel hmk
        have hsim := hjm T k (hmatched k hsel')
        rw [hlk, hVT, hl] at hsim
        have hget : (finalView (itemsOf T steps)).get k = some (n.ts, Relay.headVal n) := by
          rw [← gt3 k]
          unfold absGet
          simp [hmk, hl]
        refine ⟨(k, (n.ts, Relay.headVal n)), ⟨View.get_some_mem hget, hsel'⟩, ?_⟩
        unfold leafOf
        simp only
        rw [← hdec k w n hmk hl hsim, hdv]
    · rintro ⟨⟨k', xv⟩, ⟨hm, hsel⟩, hlf⟩
      unfold leafOf at hlf
      cases hd : decodeVal xv.2 with
      | val c =>
        rw [hd] at hlf
        simp only [Option.some.injEq, Prod.mk.injEq, List.cons.injEq, true_and] at hlf
        obtain ⟨rfl, rfl⟩ := hlf
        simp only at hsel
        have hget := View.get_of_mem hvok hm
        have habs := gt3 k'
        rw [hget] at habs
        unfold absGet at habs
        simp only [hmk, Bool.false_eq_true, if_false, Option.map_eq_some_iff] at habs
        obtain ⟨n, hl, hx⟩ := habs
        have hsim := hjm T k' (hmatched k' hsel)
        rw [hVT, hl] at hsim
        cases hlk : lookup (replay g) (T :: k') with
        | none => rw [hlk] at hsim; exact hsim.elim
        | some w =>
          rw [hlk] at hsim
          have hdw := hdec k' w n hmk hl hsim
          have hdn : decodeVal (Relay.headVal n) = .val c := by
            rw [← hx] at hd; exact hd
          refine ⟨w.ts, ?_⟩
          simp only [Option.bind_some, decLeaf, hdw, hdn]
      | skip => rw [hd] at hlf; cases hlf
      | err => rw [hd] at hlf; cases hlf

/-! ## Non-vacuity: the two-target run of `Props/C01.lean` (`steps2`: a STREAM client joins in the
middle, a leaf is rewritten, deleted, re-added and re-sent) meets every hypothesis -/

example : "*" ∉ TargetCfg.keys cfg2.target := by decide

theorem steps2_exact : ExactStream (itemsOf "dev1" steps2) := by
  intro u hu
  apply exactV_of_noFloat
  revert u
  decide

example : ∀ q ∈ [([] : Path)], queryOK q = true := by decide

theorem steps2_split : steps2 = steps2.take 3 ++ .subscribe "s1" "dev1" [[]] :: steps2.drop 4 := rfl

theorem steps2_ids : ∀ st ∈ steps2.take 3 ++ steps2.drop 4, match st with
    | .subscribe id' _ _ => id' ≠ "s1"
    | _ => True := by
  intro st hst
  simp only [steps2, List.take, List.drop, List.cons_append, List.nil_append, List.mem_cons,
    List.not_mem_nil, or_false] at hst
  rcases hst with rfl | rfl | rfl | rfl | rfl | rfl | rfl | rfl | rfl <;> trivial

/-- the theorem's conclusion on this run: the STREAM client that joined after the first three
responses holds the rewritten value of `a/b` and the re-added `a/c` -/
example : HoldsExpected (((Sys.start cfg2).run id steps2).streamView "s1") "dev1"
    (finalView (itemsOf "dev1" steps2)) [[]] :=
  pipeline_faithful_stream_partial id cfg2 cfg2_valid (by decide) steps2 (by decide) (by decide) "dev1"
    (by decide) steps2_exact [[]] (by decide) _ _ "s1" steps2_split steps2_ids

/-- … computed: -/
example : (cget (((Sys.start cfg2).run id steps2).streamView "s1").tree ["dev1", "openconfig", "a", "b"],
           cget (((Sys.start cfg2).run id steps2).streamView "s1").tree ["dev1", "openconfig", "a", "c"]) =
    (some { ts := 12, val := .scalar (.int 7) }, some { ts := 14, val := .scalar (.int 3) }) := by decide

/-! ## Why `ExactStream`: signed zeros

The collector's cache (event-driven emulation, the default of `cache.New`) does not hand an update
to the feed when its value is `value.Equal` to the stored one, and `value.Equal` compares doubles
with `==`: `+0.0 == -0.0`.  A target that streams `+0.0` and then `-0.0` for a leaf leaves a STREAM
client with `+0.0` (and the older timestamp) although the target's last value — what a ONCE client
gets — is `-0.0`.  So the STREAM clause of `pipeline_faithful` is false as it stands (its
hypotheses, `wellFormed false` and `RawFaithful`, hold of this run). -/

def updD (ts : Int) (p : Path) (bits : Nat) : TItem :=
  .update true { ts := ts, praw := "nil", upd := [{ path := p, val := .scalar (.double bits), raw := toString bits }] }

def stepsZ : List Step :=
  [ .recv "dev1" true 0 (updD 10 ["a", "b"] 0),
    .subscribe "s1" "dev1" [[]],
    .recv "dev1" false 0 (updD 11 ["a", "b"] (2 ^ 63)) ]

theorem signed_zero_witness :
    cget (((Sys.start cfg2).run id stepsZ).streamView "s1").tree ["dev1", "openconfig", "a", "b"] =
      some { ts := 10, val := .scalar (.f64 0) } ∧
    (finalView (itemsOf "dev1" stepsZ)).get ["openconfig", "a", "b"] = some (11, .scalar (.double (2 ^ 63))) ∧
    (["dev1", "openconfig", "a", "b"], CVal.scalar (.f64 (2 ^ 63))) ∈
      expected "dev1" (finalView (itemsOf "dev1" stepsZ)) [[]] := by decide

theorem stepsZ_hyps : ∀ name ∈ TargetCfg.keys cfg2.target,
    wellFormed false (itemsOf name stepsZ) = true ∧ RawFaithful (itemsOf name stepsZ) := by
  intro name hn
  have : name = "dev1" ∨ name = "dev2" := by simpa [TargetCfg.keys, cfg2] using hn
  rcases this with rfl | rfl
  · refine ⟨by decide, ?_⟩
    unfold RawFaithful
    decide
  · refine ⟨by decide, ?_⟩
    unfold RawFaithful
    decide

/-- **The STREAM clause of `pipeline_faithful`, as stated, does not hold of the composed model**
(signed zeros; see above).  `pipeline_faithful_stream_partial` is the clause with the hypothesis
that excludes them (`ExactStream`) and with `"*"` not a configured target name. -/
theorem pipeline_faithful_refuted : ¬ pipeline_faithful := by
  intro h
  have h1 := (h id cfg2 cfg2_valid stepsZ (by decide) stepsZ_hyps "dev1" (by decide) (by decide) [[]]
    (by decide) (by decide)).2 [.recv "dev1" true 0 (updD 10 ["a", "b"] 0)]
    [.recv "dev1" false 0 (updD 11 ["a", "b"] (2 ^ 63))] "s1" rfl
    (by
      intro st hst
      simp only [List.cons_append, List.nil_append, List.mem_cons, List.not_mem_nil, or_false] at hst
      rcases hst with rfl | rfl <;> trivial)
  obtain ⟨_, _, _, h4⟩ := h1
  obtain ⟨ts, hts⟩ := (h4 ["openconfig", "a", "b"] (.scalar (.f64 (2 ^ 63))) (by decide)).2 signed_zero_witness.2.2
  rw [signed_zero_witness.1] at hts
  simp only [Option.some.injEq, CLeaf.mk.injEq, CVal.scalar.injEq, CScalar.f64.injEq] at hts
  exact absurd hts.2 (by decide)

end C01
end Gnmi
