import Gnmi.Model.WireIngest
import Gnmi.Props.C12Meta
import Gnmi.Props.C12Surfaces
import Gnmi.Props.C19
import Gnmi.Model.Pipeline
/-!
# C12 — from the wire to the cache, the whole manager path, the whole Subscribe request stream

`Model/WireIngest.lean` states the translation between a decoded `gnmi.Notification`
(`RX.Notification`) and what the cache reads from it (`Cache.Noti`), `Cache.GnmiUpdate` and the
target manager's receive loop on decoded messages, and `Server.Subscribe` over a whole request
stream.  This file composes the piecewise C12 theorems along them:

* the translation is the right one: `toNoti_joinKey` (the index the cache model computes from
  the translated notification is `joinPrefixAndPath` of `cache.go` on the message itself, slice
  panic included), `toNoti_key_order` (it does not depend on the iteration order of the key maps:
  `C19.toStrings_perm_invariant`), `toNoti_stamp` (it commutes with the collector's target
  stamping as `Model/Pipeline.lean` has it on the index form);
* `wire_ingest_total`, `wire_ingest_sinv`: every WireValid notification (`Notification.wireValid`,
  exactly as in `Props/C12Surfaces.lean`) × every reachable cache state: no panic
  (`ingest_total` ∘ `toNoti`);
* `mgr_recv_total`, `mgr_session_total`, `wire_session_total`: `manager.handleUpdates` as the
  collector wires it — Connect on the first response, `handleGNMIUpdate`, update → closure (with
  or without stamping) → `Cache.GnmiUpdate`, sync → `Cache.Sync`, error / unset → logged, and the
  `Reset` after the stream ended — never panics on WireValid responses (`manager_handle_total` ∘
  `ingest_total` ∘ `meta_refresh_no_panic`); `mgrSession_reachable`: what a session leaves is a
  state reachable by API calls, so the theorems apply to any number of sessions;
* `wire_rejected_preserves`: a rejected wire message leaves every stored leaf of every target as
  it was (`rejected_preserves` lifted through `toNoti`, `State.gnmiUpdate`, the dispatch);
* `subscribe_all_requests_total`: `Server.Subscribe` over the whole request stream never
  panics; `later_requests_unread`, `later_content_ignored` say what the code does with later
  requests: ONCE / STREAM never read them, POLL treats *any* message as a poll trigger.  The
  expectation "a later request that is not a poll ends the RPC with an error" is **false of the
  code**: `later_nonpoll_rejected_false` (witness run against the Go code:
  `corpus/C12/wi_later_request_ignored.ops`).
-/
namespace Gnmi
namespace C12W
open Gnmi.PV (GPath PathElem TV FloatOps Bytes toStrings getOrigin KeysNodup)
open Gnmi.RX (Notification Update Response Request OldValue Outcome ErrClass CacheView SubOut)
open Gnmi.Cache (Noti Upd Del Val State Res Event Target Cfg Op SInv TInv)
open Gnmi.Wire

variable {F D : Type} [FloatBits F D]

/-! ## 1. the translation is the cache's own reading of the message -/

/-- `ToStrings(p, true)` is target?, origin?, then `ToStrings(p, false)` -/
theorem toStrings_pfx (p : GPath) :
    toStrings (some p) true =
      (if p.target = "" then [] else [p.target]) ++ (if p.origin = "" then [] else [p.origin]) ++
        toStrings (some p) false := by
  simp only [toStrings, PV.header]
  by_cases ht : p.target = "" <;> by_cases ho : p.origin = "" <;> by_cases he : (p.elem.length == 0) = true <;>
    simp [ht, ho, he]

/-- **The index the cache model computes from `toNoti n` is `joinPrefixAndPath(n.Prefix, suffix)`
computed on the message**, for every prefix (nil, no target, origin, both encodings, keys) and
every suffix (nil included); `none` on both sides = the slice expression `p[1:]` panics. -/
theorem toNoti_joinKey (enc : String → String) (n : Notification F D) (sfx : Option GPath) :
    Cache.joinKey? (toNoti enc n).2 (toStrings sfx false) = joinPrefixAndPath n.pfx sfx := by
  have hk : (if (toNoti enc n).2.target = "" then [] else [(toNoti enc n).2.target]) ++
      (if (toNoti enc n).2.origin = "" then [] else [(toNoti enc n).2.origin]) ++ (toNoti enc n).2.pfx ++
      toStrings sfx false = toStrings n.pfx true ++ toStrings sfx false := by
    unfold toNoti
    cases h : n.pfx with
    | none => simp [getTarget, getOrigin, toStrings]
    | some p => simp only [getTarget, getOrigin]; rw [toStrings_pfx]; rfl
  unfold Cache.joinKey? joinPrefixAndPath
  rw [hk]
  generalize toStrings n.pfx true ++ toStrings sfx false = l
  cases l <;> rfl

/-- the leaf an update is stored under -/
theorem toNoti_updKey (enc : String → String) (n : Notification F D) (u : Update F D) :
    Cache.updKey? (toNoti enc n).2 (toUpd enc (some u)) =
      joinPrefixAndPath n.pfx (if n.atomic then none else u.path) := by
  unfold Cache.updKey?
  by_cases ha : n.atomic = true
  · have : (toNoti enc n).2.atomic = true := ha
    simp only [this, ha, if_true]
    exact toNoti_joinKey enc n none
  · have : (toNoti enc n).2.atomic = false := by simpa [toNoti] using ha
    simp only [this, ha]
    exact toNoti_joinKey enc n u.path

/-- … and the path a delete removes -/
theorem toNoti_delKey (enc : String → String) (n : Notification F D) (d : Option GPath) :
    Cache.joinKey? (toNoti enc n).2 (toDel enc d).path = joinPrefixAndPath n.pfx d :=
  toNoti_joinKey enc n d

theorem toNoti_shape (enc : String → String) (n : Notification F D) :
    (toNoti enc n).1 = n.pfx.isNone ∧ (toNoti enc n).2.ts = n.ts ∧ (toNoti enc n).2.atomic = n.atomic ∧
    (toNoti enc n).2.upd.length = n.update.length ∧ (toNoti enc n).2.del.length = n.delete.length := by
  simp [toNoti]

/-! ### independence of the iteration order of key maps (C19) -/

/-- two optional paths that differ only in the iteration order of key maps -/
def OPathPerm : Option GPath → Option GPath → Prop
  | none, none => True
  | some p, some p' => C19.PathPerm p p'
  | _, _ => False

/-- every key map of the path has distinct key names (true of every Go map) -/
def OKeysOK : Option GPath → Prop
  | none => True
  | some p => C19.KeysOK p

theorem pairSort_perm_eq {m m' : List (String × String)} (h : KeysNodup m) (hp : m.Perm m') :
    m.mergeSort PV.pairLe = m'.mergeSort PV.pairLe := by
  apply List.Perm.eq_of_pairwise (le := fun a b : String × String => a.1 ≤ b.1) _
    (PV.pairSort_pairwise m) (PV.pairSort_pairwise m')
    ((PV.pairSort_perm m).trans (hp.trans (PV.pairSort_perm m').symm))
  intro a b ha hb hab hba
  have ha' : a ∈ m := (PV.pairSort_perm m).subset ha
  have hb' : b ∈ m := hp.symm.subset ((PV.pairSort_perm m').subset hb)
  exact PV.eq_of_key_eq h ha' hb' (String.le_antisymm hab hba)

theorem rawElem_perm (enc : String → String) {e e' : PathElem} (h : C19.ElemPerm e e')
    (hk : KeysNodup e.key) : rawElem enc e = rawElem enc e' := by
  unfold rawElem
  have := pairSort_perm_eq hk h.2
  unfold PV.pairLe at this
  rw [h.1, this]

theorem rawElems_perm (enc : String → String) {l l' : List PathElem} (h : C19.ElemsPerm l l')
    (hk : ∀ e ∈ l, KeysNodup e.key) : l.map (rawElem enc) = l'.map (rawElem enc) := by
  induction h with
  | nil => rfl
  | @cons e e' r r' hee _ ih =>
    simp only [List.map_cons]
    rw [rawElem_perm enc hee (hk e List.mem_cons_self), ih (fun x hx => hk x (List.mem_cons_of_mem _ hx))]

theorem rawPath_perm (enc : String → String) {p p' : Option GPath} (h : OPathPerm p p') (hk : OKeysOK p) :
    rawPath enc p = rawPath enc p' := by
  match p, p', h with
  | none, none, _ => rfl
  | some p, some p', h =>
    obtain ⟨ho, ht, hel, hes⟩ := h
    simp only [rawPath, ho, ht, hel, rawElems_perm enc hes hk]

theorem toStrings_operm {p p' : Option GPath} (pfx : Bool) (h : OPathPerm p p') (hk : OKeysOK p) :
    toStrings p pfx = toStrings p' pfx := by
  match p, p', h with
  | none, none, _ => rfl
  | some p, some p', h => exact C19.toStrings_perm_invariant p p' pfx hk h

theorem getOrigin_operm {p p' : Option GPath} (h : OPathPerm p p') : getOrigin p = getOrigin p' := by
  match p, p', h with
  | none, none, _ => rfl
  | some p, some p', h => exact h.1

theorem getTarget_operm {p p' : Option GPath} (h : OPathPerm p p') : getTarget p = getTarget p' := by
  match p, p', h with
  | none, none, _ => rfl
  | some p, some p', h => exact h.2.1

theorem isNone_operm {p p' : Option GPath} (h : OPathPerm p p') : p.isNone = p'.isNone := by
  match p, p', h with
  | none, none, _ => rfl
  | some p, some p', _ => rfl

/-- pointwise relation of two lists -/
inductive ListRel {α : Type} (R : α → α → Prop) : List α → List α → Prop
  | nil : ListRel R [] []
  | cons {a b : α} {l l' : List α} : R a b → ListRel R l l' → ListRel R (a :: l) (b :: l')

theorem ListRel.map_eq {α β : Type} {R : α → α → Prop} {f : α → β} (h : ∀ a b, R a b → f a = f b) :
    ∀ {l l' : List α}, ListRel R l l' → l.map f = l'.map f
  | _, _, .nil => rfl
  | _, _, .cons hab hr => by simp only [List.map_cons, h _ _ hab, ListRel.map_eq h hr]

/-- two update entries that differ only in the key order of their path -/
def UpdPerm : Option (Update F D) → Option (Update F D) → Prop
  | none, none => True
  | some u, some u' => OPathPerm u.path u'.path ∧ OKeysOK u.path ∧ u = { u' with path := u.path }
  | _, _ => False

theorem toUpd_perm (enc : String → String) {u u' : Option (Update F D)} (h : UpdPerm u u') :
    toUpd enc u = toUpd enc u' := by
  match u, u', h with
  | none, none, _ => rfl
  | some u, some u', ⟨hp, hk, he⟩ =>
    have hv : u.val = u'.val := by rw [he]
    have hd : u.dup = u'.dup := by rw [he]
    have ho : u.value = u'.value := by rw [he]
    simp only [toUpd, rawUpd, getOrigin_operm hp, toStrings_operm false hp hk, rawPath_perm enc hp hk, hv, hd, ho]

/-- **`toNoti` does not depend on the iteration order of the key maps** (of the prefix, of the
update paths, of the delete paths): whatever order the Go runtime ranges over `PathElem.Key`,
the cache reads the same thing. -/
theorem toNoti_key_order (enc : String → String) (n n' : Notification F D)
    (hts : n.ts = n'.ts) (hat : n.atomic = n'.atomic)
    (hp : OPathPerm n.pfx n'.pfx) (hpk : OKeysOK n.pfx)
    (hu : ListRel UpdPerm n.update n'.update)
    (hd : ListRel (fun d d' => OPathPerm d d' ∧ OKeysOK d) n.delete n'.delete) :
    toNoti enc n = toNoti enc n' := by
  have h1 : n.update.map (toUpd enc) = n'.update.map (toUpd enc) :=
    ListRel.map_eq (fun _ _ h => toUpd_perm enc h) hu
  have h2 : n.delete.map (toDel enc) = n'.delete.map (toDel enc) :=
    ListRel.map_eq (fun d d' h => by
      simp only [toDel, getOrigin_operm h.1, toStrings_operm false h.1 h.2, rawPath_perm enc h.1 h.2]) hd
  simp only [toNoti, hts, hat, isNone_operm hp, getTarget_operm hp, getOrigin_operm hp,
    toStrings_operm false hp hpk, rawPath_perm enc hp hpk, h1, h2]

/-! ## 2. `Cache.GnmiUpdate` on decoded messages is total -/

omit [FloatBits F D] in
theorem nilUpdateHit_wireValid (n : Notification F D) (hw : n.wireValid = true) : nilUpdateHit n = false := by
  have hall : ∀ u ∈ n.update, u ≠ none := by
    intro u hu he
    simp only [Notification.wireValid, Bool.and_eq_true, List.all_eq_true] at hw
    have := hw.1 u hu
    rw [he] at this
    simp at this
  unfold nilUpdateHit
  split
  · cases hn : n.update with
    | nil => simp
    | cons a r =>
      cases a with
      | none => exact absurd rfl (hall none (by rw [hn]; exact List.mem_cons_self))
      | some a => simp
  · rw [Bool.eq_false_iff]
    intro h
    obtain ⟨u, hu, hnone⟩ := List.any_eq_true.mp h
    cases u with
    | none => exact hall none hu rfl
    | some u => simp at hnone

/-- on a WireValid notification `Cache.GnmiUpdate` is `State.gnmiUpdate` of the translation -/
theorem wireGnmiUpdate_wireValid (enc : String → String) (s : State) (now : Int) (n : Notification F D)
    (hw : n.wireValid = true) :
    wireGnmiUpdate enc s now (some n) = s.gnmiUpdate now (toNoti enc n).1 (toNoti enc n).2 := by
  simp [wireGnmiUpdate, nilUpdateHit_wireValid n hw]

/-- the hypothesis shared by the theorems: a message pointer that is nil or WireValid (what gRPC +
`proto.Unmarshal` deliver is never nil; `Cache.GnmiUpdate(nil)` is an error anyway) -/
def OWireValid (n : Option (Notification F D)) : Prop := ∀ m, n = some m → m.wireValid = true

/-- on a well-formed cache state: no panic, and the state stays well formed -/
theorem wire_ingest_sinv (enc : String → String) (s : State) (hs : SInv s) (now : Int)
    (n : Option (Notification F D)) (hw : OWireValid n) :
    (wireGnmiUpdate enc s now n).1 ≠ .panic ∧ SInv (wireGnmiUpdate enc s now n).2.1 := by
  cases n with
  | none => exact ⟨by simp [wireGnmiUpdate], hs⟩
  | some m =>
    rw [wireGnmiUpdate_wireValid enc s now m (hw m rfl)]
    have := Cache.step_sinv enc s (.update now (toNoti enc m).1 (toNoti enc m).2) hs trivial
    simp only [State.step] at this
    exact ⟨this.2, this.1⟩

/-- **Wire ingest is total.**  For every WireValid `gnmi.Notification` — nil prefix, no target,
unknown target, nil / empty paths in either encoding, keys, origins in prefix and path, absent /
unset / any-armed values, atomic or not, any number of updates and deletes — and every cache state
reachable by any history of API calls: (a) `Cache.GnmiUpdate` on the message does not panic;
(b) `State.gnmiUpdate now (toNoti n)`, the form the statement asks for, does not panic (this one
needs no WireValid: the index form has no nil entries). -/
theorem wire_ingest_total (enc : String → String) (cfg : Cfg) (ops : List Op) (hv : ∀ op ∈ ops, op.valid)
    (now : Int) (n : Notification F D) :
    (n.wireValid = true → (wireGnmiUpdate enc (State.run enc { cfg := cfg } ops) now (some n)).1 ≠ .panic) ∧
    ((State.run enc { cfg := cfg } ops).gnmiUpdate now (toNoti enc n).1 (toNoti enc n).2).1 ≠ .panic := by
  constructor
  · intro hw
    exact (wire_ingest_sinv enc _ (C12.ingest_keeps_invariant enc cfg ops hv) now (some n)
      (fun m hm => by cases hm; exact hw)).1
  · have := C12.ingest_total enc cfg ops hv (.update now (toNoti enc n).1 (toNoti enc n).2) trivial
    simpa [State.step] using this

/-! ## 3. the manager's receive loop as a whole -/

omit [FloatBits F D] in
theorem stampWire_wireValid (name : String) (n : Notification F D) :
    (stampWire name n).wireValid = n.wireValid := by
  unfold stampWire
  cases n.pfx <;> rfl

/-- the `update` arm of `mgrRecv` -/
def mgrUpdate (enc : String → String) (s : State) (now : Int) (m : Notification F D) :
    Outcome (Handled × State × List Event) :=
  if (wireGnmiUpdate enc s now (some m)).1 = .panic then .panic
  else .ok (.update (wireGnmiUpdate enc s now (some m)).1, (wireGnmiUpdate enc s now (some m)).2.1,
    Cache.flattenGroups (wireGnmiUpdate enc s now (some m)).2.2)

theorem mgrRecv_update (enc : String → String) (w : Wiring) (now : Int) (name : String) (s : State)
    (n : Notification F D) :
    mgrRecv enc w now name s (.update (some n)) = mgrUpdate enc s now (match w with
      | .plain => n
      | .collector => stampWire name n) := rfl

theorem mgrUpdate_total (enc : String → String) (s : State) (hs : SInv s) (now : Int) (m : Notification F D)
    (hw : m.wireValid = true) :
    mgrUpdate enc s now m ≠ .panic ∧ ∀ h s' evs, mgrUpdate enc s now m = .ok (h, s', evs) → SInv s' := by
  have := wire_ingest_sinv enc s hs now (some m) (fun x hx => by cases hx; exact hw)
  unfold mgrUpdate
  rw [if_neg this.1]
  refine ⟨by simp, ?_⟩
  intro h s' evs he
  simp only [Outcome.ok.injEq, Prod.mk.injEq] at he
  rw [← he.2.1]; exact this.2

/-- **The translation commutes with the collector's target stamping.**  Stamping the decoded
message (`stampWire`: what the `Update` closure of `cmd/gnmi_collector` does to the protobuf
object) and then translating gives what `Model/Pipeline.lean` (property C01) does on the index
form (`Pipeline.stampTarget`), field for field; the raw rendering of the prefix is the rendering of
the stamped prefix message (`Pipeline.stampRaw` re-assembles the same text from the old one). -/
theorem toNoti_stamp (enc : String → String) (target : String) (n : Notification F D) :
    (toNoti enc (stampWire target n)).1 = false ∧
    (toNoti enc (stampWire target n)).2 =
      { Pipeline.stampTarget enc target (toNoti enc n).1 (toNoti enc n).2 with
        praw := rawPath enc (stampWire target n).pfx } := by
  unfold stampWire Pipeline.stampTarget toNoti
  cases h : n.pfx with
  | none => simp [getTarget, getOrigin, toStrings, PV.header, Pipeline.defaultOrigin, defaultOrigin]
  | some p =>
    simp only [getTarget, getOrigin, Option.isNone_some, Bool.false_eq_true, if_false, toStrings, PV.header,
      Pipeline.defaultOrigin, defaultOrigin, true_and]
    rfl

/-- for a message without prefix the two raw renderings are literally the same text -/
theorem toNoti_stamp_praw_nil (enc : String → String) (target : String) :
    rawPath enc (some { origin := defaultOrigin, target := target }) =
      Pipeline.stampRaw enc target Pipeline.defaultOrigin ";e=;l=" := by
  simp only [rawPath, Pipeline.stampRaw, rawField, Pipeline.rawField, List.map_nil, String.append_assoc,
    defaultOrigin, Pipeline.defaultOrigin]
  rfl

theorem syncPanics_eq (enc : String → String) (s : State) (name : String) (now : Int) :
    syncPanics enc s name now = C12.panics enc s (.sync name now) := rfl

theorem connectPanics_eq (enc : String → String) (s : State) (name : String) (now : Int) :
    connectPanics enc s name now = C12.panics enc s (.connect name now) := rfl

/-- **One response through `handleGNMIUpdate` and the collector's callbacks**: no panic on a
WireValid response (update with anything in it, sync true / false, error, unset oneof), with
either wiring, in every well-formed cache state; the state stays well formed. -/
theorem mgr_recv_total (enc : String → String) (w : Wiring) (now : Int) (name : String) (s : State)
    (hs : SInv s) (r : Response F D) (hw : r.wireValid = true) :
    mgrRecv enc w now name s r ≠ .panic ∧
    ∀ h s' evs, mgrRecv enc w now name s r = .ok (h, s', evs) → SInv s' := by
  cases r with
  | nilMsg => simp [Response.wireValid] at hw
  | unset =>
    refine ⟨by simp [mgrRecv, RX.handleGNMIUpdate], ?_⟩
    intro h s' evs he
    simp only [mgrRecv, RX.handleGNMIUpdate, Outcome.ok.injEq, Prod.mk.injEq] at he
    rw [← he.2.1]; exact hs
  | error p =>
    refine ⟨by simp [mgrRecv, RX.handleGNMIUpdate], ?_⟩
    intro h s' evs he
    simp only [mgrRecv, RX.handleGNMIUpdate, Outcome.ok.injEq, Prod.mk.injEq] at he
    rw [← he.2.1]; exact hs
  | sync b =>
    have hp : syncPanics enc s name now = false := by
      rw [syncPanics_eq]; exact C12.panics_false enc s _ hs
    refine ⟨by simp [mgrRecv, RX.handleGNMIUpdate, hp], ?_⟩
    intro h s' evs he
    simp only [mgrRecv, RX.handleGNMIUpdate, hp, Bool.false_eq_true, if_false, Outcome.ok.injEq,
      Prod.mk.injEq] at he
    rw [← he.2.1]
    exact (Cache.step_sinv enc s (.sync name now) hs trivial).1
  | update n =>
    cases n with
    | none => simp [Response.wireValid] at hw
    | some n =>
      rw [mgrRecv_update]
      apply mgrUpdate_total enc s hs now
      cases w
      · exact hw
      · simp only []; rw [stampWire_wireValid]; exact hw

theorem mgrLoop_cons (enc : String → String) (w : Wiring) (name : String) (connected : Bool) (now : Int)
    (r : Response F D) (rest : List (Int × Response F D)) (acc : SessionOut) :
    mgrLoop enc w name connected ((now, r) :: rest) acc =
      if (!connected && connectPanics enc acc.state name now) = true then .panic
      else
        match mgrRecv enc w now name
            (if connected then (acc.state, ([] : List Event)) else acc.state.connect enc name now).1 r with
        | .panic => .panic
        | .err e => .err e
        | .ok (h, s', evs) =>
          mgrLoop enc w name true rest
            { handled := acc.handled ++ [h], state := s',
              events := acc.events ++
                (if connected then (acc.state, ([] : List Event)) else acc.state.connect enc name now).2 ++ evs } := by
  rw [mgrLoop]; rfl

theorem mgrLoop_total (enc : String → String) (w : Wiring) (name : String) :
    ∀ (rs : List (Int × Response F D)) (connected : Bool) (acc : SessionOut), SInv acc.state →
      (∀ x ∈ rs, x.2.wireValid = true) →
      mgrLoop enc w name connected rs acc ≠ .panic ∧
      ∀ o, mgrLoop enc w name connected rs acc = .ok o → SInv o.state
  | [], _, acc, hs, _ => ⟨by simp [mgrLoop], fun o ho => by simp only [mgrLoop, Outcome.ok.injEq] at ho; rw [← ho]; exact hs⟩
  | (now, r) :: rest, connected, acc, hs, hw => by
    have hcp : connectPanics enc acc.state name now = false := by
      rw [connectPanics_eq]; exact C12.panics_false enc _ _ hs
    have hc : SInv (if connected then (acc.state, ([] : List Event)) else acc.state.connect enc name now).1 := by
      split
      · exact hs
      · exact (Cache.step_sinv enc acc.state (.connect name now) hs trivial).1
    have hr := mgr_recv_total enc w now name _ hc r (hw (now, r) List.mem_cons_self)
    rw [mgrLoop_cons]
    simp only [hcp, Bool.and_false, Bool.false_eq_true, if_false]
    generalize hm : mgrRecv enc w now name
      (if connected then (acc.state, ([] : List Event)) else acc.state.connect enc name now).1 r = m at hr
    match m, hr with
    | .panic, hr => exact absurd rfl hr.1
    | .err e, _ => exact ⟨by simp, fun o ho => by simp at ho⟩
    | .ok (h, s', evs), hr =>
      exact mgrLoop_total enc w name rest true _ (hr.2 h s' evs rfl)
        (fun x hx => hw x (List.mem_cons_of_mem _ hx))

/-- **The whole receive loop of the target manager never panics**: for every well-formed cache
state, either wiring, any target name and every stream of WireValid responses at any clock
readings — `cache.Connect` before the first response, then for each response
`manager.handleGNMIUpdate` → the `Update` closure → `Cache.GnmiUpdate` / `Cache.Sync` / a logged
error — no step reaches a panic, the state the session leaves is well formed, and so the
`cache.Reset` that `handleUpdates` makes when the stream ends reaches no panic either. -/
theorem mgr_session_total (enc : String → String) (w : Wiring) (name : String) (s : State) (hs : SInv s)
    (rs : List (Int × Response F D)) (hw : ∀ x ∈ rs, x.2.wireValid = true) :
    mgrSession enc w name s rs ≠ .panic ∧
    ∀ o, mgrSession enc w name s rs = .ok o →
      SInv o.state ∧ ∀ now, C12.panics enc o.state (.reset name now) = false := by
  have := mgrLoop_total enc w name rs false { state := s } hs hw
  exact ⟨this.1, fun o ho => ⟨this.2 o ho, fun now => C12.panics_false enc _ _ (this.2 o ho)⟩⟩

/-- … in every cache state reachable by any history of API calls (targets registered under
non-empty names) -/
theorem wire_session_total (enc : String → String) (cfg : Cfg) (ops : List Op) (hv : ∀ op ∈ ops, op.valid)
    (w : Wiring) (name : String) (rs : List (Int × Response F D)) (hw : ∀ x ∈ rs, x.2.wireValid = true) :
    mgrSession enc w name (State.run enc { cfg := cfg } ops) rs ≠ .panic :=
  (mgr_session_total enc w name _ (C12.ingest_keeps_invariant enc cfg ops hv) rs hw).1

/-! ### what a session leaves is reachable by API calls -/

theorem run_append (enc : String → String) : ∀ (a : List Op) (s : State) (b : List Op),
    State.run enc s (a ++ b) = State.run enc (State.run enc s a) b
  | [], _, _ => rfl
  | op :: a, s, b => by simp only [List.cons_append, State.run]; exact run_append enc a _ b

/-- one handled response is no call or one API call (`Sync`, or `GnmiUpdate` of the translated —
and, for the collector wiring, stamped — notification) -/
theorem mgrRecv_is_step (enc : String → String) (w : Wiring) (now : Int) (name : String) (s : State)
    (r : Response F D) (h : Handled) (s' : State) (evs : List Event)
    (he : mgrRecv enc w now name s r = .ok (h, s', evs)) :
    ∃ ops : List Op, (∀ op ∈ ops, op.valid) ∧ s' = State.run enc s ops := by
  cases r with
  | nilMsg => simp [mgrRecv, RX.handleGNMIUpdate] at he
  | unset =>
    simp only [mgrRecv, RX.handleGNMIUpdate, Outcome.ok.injEq, Prod.mk.injEq] at he
    exact ⟨[], by simp, he.2.1.symm⟩
  | error p =>
    simp only [mgrRecv, RX.handleGNMIUpdate, Outcome.ok.injEq, Prod.mk.injEq] at he
    exact ⟨[], by simp, he.2.1.symm⟩
  | sync b =>
    simp only [mgrRecv, RX.handleGNMIUpdate] at he
    by_cases hp : syncPanics enc s name now = true
    · simp [hp] at he
    · simp only [hp, Bool.false_eq_true, if_false, Outcome.ok.injEq, Prod.mk.injEq] at he
      exact ⟨[.sync name now], by simp [Op.valid], by rw [← he.2.1]; rfl⟩
  | update n =>
    cases n with
    | none =>
      cases w
      · simp only [mgrRecv, RX.handleGNMIUpdate, Outcome.ok.injEq, Prod.mk.injEq] at he
        exact ⟨[], by simp, he.2.1.symm⟩
      · simp [mgrRecv, RX.handleGNMIUpdate] at he
    | some n =>
      rw [mgrRecv_update] at he
      generalize (match w with
        | .plain => n
        | .collector => stampWire name n) = m at he
      unfold mgrUpdate at he
      by_cases hp : (wireGnmiUpdate enc s now (some m)).1 = .panic
      · rw [if_pos hp] at he; cases he
      · rw [if_neg hp] at he
        simp only [Outcome.ok.injEq, Prod.mk.injEq] at he
        have hst : (wireGnmiUpdate enc s now (some m)).2.1 =
            (s.step enc (.update now (toNoti enc m).1 (toNoti enc m).2)).1 := by
          unfold wireGnmiUpdate at hp ⊢
          simp only [] at hp ⊢
          split
          · rename_i hh; simp [hh] at hp
          · rfl
        exact ⟨[.update now (toNoti enc m).1 (toNoti enc m).2], by simp [Op.valid], by rw [← he.2.1, hst]; rfl⟩

theorem mgrLoop_reachable (enc : String → String) (w : Wiring) (name : String) :
    ∀ (rs : List (Int × Response F D)) (connected : Bool) (acc o : SessionOut),
      mgrLoop enc w name connected rs acc = .ok o →
      ∃ ops : List Op, (∀ op ∈ ops, op.valid) ∧ o.state = State.run enc acc.state ops
  | [], _, acc, o, h => by
    simp only [mgrLoop, Outcome.ok.injEq] at h
    exact ⟨[], by simp, by rw [← h]; rfl⟩
  | (now, r) :: rest, connected, acc, o, h => by
    rw [mgrLoop_cons] at h
    by_cases hcp : (!connected && connectPanics enc acc.state name now) = true
    · rw [if_pos hcp] at h; cases h
    · rw [if_neg hcp] at h
      generalize hm : mgrRecv enc w now name
        (if connected then (acc.state, ([] : List Event)) else acc.state.connect enc name now).1 r = m at h
      match m, h with
      | .panic, h => cases h
      | .err e, h => cases h
      | .ok (hd, s', evs), h =>
        obtain ⟨ops2, hv2, e2⟩ := mgrLoop_reachable enc w name rest true _ o h
        obtain ⟨ops1, hv1, e1⟩ := mgrRecv_is_step enc w now name _ r hd s' evs hm
        simp only [] at e2
        refine ⟨(if connected then [] else [Op.connect name now]) ++ ops1 ++ ops2, ?_, ?_⟩
        · intro op hop
          simp only [List.mem_append] at hop
          rcases hop with (hop | hop) | hop
          · split at hop
            · cases hop
            · simp only [List.mem_singleton] at hop; rw [hop]; trivial
          · exact hv1 op hop
          · exact hv2 op hop
        · rw [e2, e1, run_append, run_append]
          congr 2
          cases connected <;> rfl

/-- **What a manager session leaves is a state reachable by API calls**: starting from
`State.run enc {cfg} ops` the session ends in `State.run enc {cfg} (ops ++ ops')` for valid calls
`ops'` (Connect, then per response a `Sync`, a `GnmiUpdate` of the translated notification, or
nothing).  So `wire_session_total` applies again to the next session, and every theorem about
API-call histories (C02, C03, C14, C15) applies to histories of wire messages. -/
theorem mgrSession_reachable (enc : String → String) (cfg : Cfg) (ops : List Op) (w : Wiring) (name : String)
    (rs : List (Int × Response F D)) (o : SessionOut)
    (h : mgrSession enc w name (State.run enc { cfg := cfg } ops) rs = .ok o) :
    ∃ ops' : List Op, (∀ op ∈ ops', op.valid) ∧ o.state = State.run enc { cfg := cfg } (ops ++ ops') := by
  obtain ⟨ops', hv, e⟩ := mgrLoop_reachable enc w name rs false _ o h
  exact ⟨ops', hv, by rw [e, run_append]⟩

/-! ## 4. a rejected wire message leaves stored data intact -/

theorem singleArm_rejected (r : Res × Target × Option Noti) (cnt : Int)
    (h : (Cache.singleArm r cnt).1 ≠ .ok) : (Cache.singleArm r cnt).2.1 = r.2.1 ∧ r.1 ≠ .ok := by
  unfold Cache.singleArm at h ⊢
  by_cases he : r.1.isErr = true
  · rw [if_pos he]
    exact ⟨rfl, fun h0 => by rw [h0] at he; simp [Res.isErr] at he⟩
  · rw [if_neg he] at h
    exfalso; apply h; split <;> rfl

theorem dispatch_unit_rejected (cfg : Cfg) (now : Int) (t : Target) (n : Noti) (hi : TInv t)
    (ht : n.target ≠ "") (hunit : n.atomic = true ∨ (n.upd.length = 1 ∧ n.del = []))
    (hr : (t.dispatch cfg now n).1 ≠ .ok) : (t.dispatch cfg now n).2.1.tree = t.tree := by
  have key : n.upd ≠ [] → (Cache.singleArm (Target.gnmiUpdate1 cfg now t n) (n.upd.length : Nat)).1 ≠ .ok →
      ∀ cnt, (Cache.singleArm (Target.gnmiUpdate1 cfg now t n) cnt).2.1.tree = t.tree := by
    intro hne h cnt
    obtain ⟨_, h2⟩ := singleArm_rejected _ _ h
    have h3 : (Cache.singleArm (Target.gnmiUpdate1 cfg now t n) cnt).1 ≠ .ok := by
      unfold Cache.singleArm
      have : (Target.gnmiUpdate1 cfg now t n).1.isErr = true := by
        cases hh : (Target.gnmiUpdate1 cfg now t n).1 <;> simp_all [Res.isErr]
      simp [this, h2]
    rw [(singleArm_rejected _ cnt h3).1]
    match hu : n.upd with
    | [] => exact absurd hu hne
    | u :: us =>
      exact C12.rejected_preserves cfg now t n u us hu ht h2
        (Cache.gnmiUpdate1_consequences cfg now t n hi hne ht).1
  unfold Target.dispatch at hr ⊢
  by_cases ha : n.atomic = true
  · simp only [ha, if_true] at hr ⊢
    by_cases hd : (!n.del.isEmpty) = true
    · simp [hd]
    · simp only [hd] at hr ⊢
      by_cases hu : n.upd.isEmpty = true
      · simp [hu] at hr
      · simp only [hu] at hr ⊢
        exact key (by intro h0; rw [h0] at hu; simp at hu) hr _
  · obtain ⟨h1, h2⟩ := hunit.resolve_left ha
    have hne : n.upd ≠ [] := by intro h0; rw [h0] at h1; simp at h1
    simp only [ha, h1, h2] at hr ⊢
    simp only [List.length_nil, Nat.add_zero, Nat.lt_irrefl, if_false, Bool.false_eq_true, gt_iff_lt] at hr ⊢
    have hr' : (Cache.singleArm (Target.gnmiUpdate1 cfg now t n) ((n.upd.length : Nat) : Int)).1 ≠ .ok := by
      rw [h1]; exact hr
    exact key hne hr' 1

/-- **A rejected wire message leaves previously stored data intact.**  A WireValid notification
that is one unit for the cache — a single update, or an atomic notification (stored as one leaf)
— and that `Cache.GnmiUpdate` does not accept (no prefix, unknown target, empty or `meta`-only
path, wrong-typed metadata value, collision with a stored leaf or subtree, stale, too far in the
future, atomic with deletes) leaves *every* leaf of *every* target as it was.  (A notification with
several updates and deletes is applied unit by unit, as the code does: units accepted before a
rejected one stay applied, `C12.rejected_preserves` speaks about each unit.) -/
theorem wire_rejected_preserves (enc : String → String) (s : State) (hs : SInv s) (now : Int)
    (n : Notification F D) (hw : n.wireValid = true)
    (hunit : n.atomic = true ∨ (n.update.length = 1 ∧ n.delete = []))
    (hr : (wireGnmiUpdate enc s now (some n)).1 ≠ .ok) (name : String) :
    ((wireGnmiUpdate enc s now (some n)).2.1.get name).map (·.tree) = (s.get name).map (·.tree) := by
  rw [wireGnmiUpdate_wireValid enc s now n hw] at hr ⊢
  by_cases hpn : (toNoti enc n).1 = true
  · simp [State.gnmiUpdate, hpn]
  · cases hg : s.get (toNoti enc n).2.target with
    | none => simp [State.gnmiUpdate, hpn, hg]
    | some t =>
      have hres : s.gnmiUpdate now (toNoti enc n).1 (toNoti enc n).2 =
          ((t.gnmiUpdate s.cfg now (toNoti enc n).2).1,
           s.set (toNoti enc n).2.target (t.gnmiUpdate s.cfg now (toNoti enc n).2).2.1,
           (t.gnmiUpdate s.cfg now (toNoti enc n).2).2.2) := by
        simp [State.gnmiUpdate, hpn, hg]
      rw [hres] at hr ⊢
      simp only [] at hr ⊢
      obtain ⟨hti, _, htn⟩ := hs _ t hg
      have hunit' : (toNoti enc n).2.atomic = true ∨
          ((toNoti enc n).2.upd.length = 1 ∧ (toNoti enc n).2.del = []) := by
        rcases hunit with h | ⟨h1, h2⟩
        · exact Or.inl h
        · exact Or.inr ⟨by simp [toNoti, h1], by simp [toNoti, h2]⟩
      have htree : (t.gnmiUpdate s.cfg now (toNoti enc n).2).2.1.tree = t.tree := by
        cases htt : Cache.tracksTimestamp? (toNoti enc n).2 with
        | none => simp [Target.gnmiUpdate, htt]
        | some tracks =>
          have hr' : (t.dispatch s.cfg now (toNoti enc n).2).1 ≠ .ok := by
            simpa [Target.gnmiUpdate, htt] using hr
          have := dispatch_unit_rejected s.cfg now t _ hti htn hunit' hr'
          simp only [Target.gnmiUpdate, htt]
          split
          · rw [(Cache.checkTimestamp_frame _ _).1]; exact this
          · exact this
      by_cases hname : name = (toNoti enc n).2.target
      · rw [hname, Cache.get_set_same, hg]
        simp [htree]
      · rw [Cache.get_set_other _ _ _ _ hname]

/-! ## 5. the Subscribe handler over the whole request stream -/

section stream
variable {F D : Type}

theorem pollRounds_total (c : CacheView F D) (hc : c.wireValid = true) (noDup : Bool) (dup : Nat → Nat → Nat)
    (first : Request) : ∀ (later : List Request) (k : Nat), pollRounds c noDup dup first k later ≠ .panic
  | [], _ => by simp [pollRounds]
  | _ :: rest, k => by
    have h1 := C12S.subscribe_total c hc noDup (dup k) first
    have h2 := pollRounds_total c hc noDup dup first rest (k + 1)
    unfold pollRounds
    cases hs : RX.subscribe c noDup (dup k) first with
    | panic => exact absurd hs h1
    | err e => simp
    | ok o =>
      simp only []
      split
      · cases hp : pollRounds c noDup dup first (k + 1) rest with
        | panic => exact absurd hp h2
        | err e => simp
        | ok so => simp
      · simp

/-- **The Subscribe handler is total over the whole request stream**: the first request (any
shape) followed by any sequence of later requests (poll triggers, further `SubscriptionList`s,
unset / unknown oneof arms, nil pointers — no hypothesis on any of them), then end of stream;
every cache of decoded notifications, every coalescing schedule: a result or an error status,
never a panic. -/
theorem subscribe_all_requests_total (c : CacheView F D) (hc : c.wireValid = true) (noDup : Bool)
    (dup : Nat → Nat → Nat) (first : Request) (later : List Request) :
    subscribeStream c noDup dup first later ≠ .panic := by
  have h1 := C12S.subscribe_total c hc noDup (dup 0) first
  have h2 := pollRounds_total c hc noDup dup first later 1
  unfold subscribeStream
  cases hs : RX.subscribe c noDup (dup 0) first with
  | panic => exact absurd hs h1
  | err e => simp
  | ok o =>
    simp only []
    split
    · cases hp : pollRounds c noDup dup first 1 later with
      | panic => exact absurd hp h2
      | err e => simp
      | ok so => simp
    · simp

/-- **ONCE, STREAM and refused requests never read a later request**: whatever follows on the
stream, the RPC's behaviour is that of the first request alone and `stream.Recv` is not called
again. -/
theorem later_requests_unread (c : CacheView F D) (noDup : Bool) (dup : Nat → Nat → Nat) (first : Request)
    (later : List Request) (h : isPollReq first = false) :
    subscribeStream c noDup dup first later = subscribeStream c noDup dup first [] ∧
    ∀ o, subscribeStream c noDup dup first later = .ok o → o.reads = 0 ∧ o.rounds.length = 1 := by
  unfold subscribeStream
  simp only [h, Bool.false_and, Bool.false_eq_true, if_false]
  refine ⟨by first | rfl | trivial, ?_⟩
  intro o ho
  split at ho
  · simp only [Outcome.ok.injEq] at ho; rw [← ho]; exact ⟨rfl, rfl⟩
  · cases ho
  · cases ho

theorem pollRounds_content (c : CacheView F D) (noDup : Bool) (dup : Nat → Nat → Nat) (first : Request) :
    ∀ (later later' : List Request) (k : Nat), later.length = later'.length →
      pollRounds c noDup dup first k later = pollRounds c noDup dup first k later'
  | [], [], _, _ => rfl
  | [], _ :: _, _, h => by simp at h
  | _ :: _, [], _, h => by simp at h
  | _ :: rest, _ :: rest', k, h => by
    unfold pollRounds
    rw [pollRounds_content c noDup dup first rest rest' (k + 1) (by simpa using h)]

/-- **POLL: the content of a later request is ignored.**  The RPC's behaviour depends only on
*how many* messages follow the first request, not on what they are: a poll trigger, a second
`SubscriptionList` (valid or not), an unset oneof, a nil pointer all start one more walk of the
*first* request's subscription. -/
theorem later_content_ignored (c : CacheView F D) (noDup : Bool) (dup : Nat → Nat → Nat) (first : Request)
    (later later' : List Request) (h : later.length = later'.length) :
    subscribeStream c noDup dup first later = subscribeStream c noDup dup first later' := by
  unfold subscribeStream
  rw [pollRounds_content c noDup dup first later later' 1 h]

/-- every later request a POLL subscription reads is answered by one more walk: as many rounds as
requests read, plus the first -/
theorem pollRounds_reads (c : CacheView F D) (noDup : Bool) (dup : Nat → Nat → Nat) (first : Request) :
    ∀ (later : List Request) (k : Nat) (o : StreamOut), pollRounds c noDup dup first k later = .ok o →
      o.rounds.length = o.reads ∧ o.reads ≤ later.length
  | [], _, o, h => by simp only [pollRounds, Outcome.ok.injEq] at h; rw [← h]; exact ⟨rfl, Nat.le_refl _⟩
  | _ :: rest, k, o, h => by
    unfold pollRounds at h
    split at h
    · split at h
      · split at h
        · rename_i so hso
          simp only [Outcome.ok.injEq] at h
          obtain ⟨a, b⟩ := pollRounds_reads c noDup dup first rest (k + 1) so hso
          rw [← h]
          exact ⟨by simp [a], by simp; omega⟩
        · cases h
        · cases h
      · simp only [Outcome.ok.injEq] at h; rw [← h]; exact ⟨rfl, by simp⟩
    · cases h
    · cases h

end stream

/-! ## 6. non-vacuity, witnesses, and the expectation that is false of the code -/

section examples

/-- a trivial float instance for closed examples -/
local instance : FloatOps Unit Unit := ⟨fun _ _ => true, fun _ _ => true, fun _ => (), fun _ _ => ()⟩
local instance : FloatBits Unit Unit := ⟨fun _ => 0, fun _ => 0⟩

abbrev N := Notification Unit Unit
abbrev R := Response Unit Unit

/-- a reachable cache state: two registered targets, one leaf -/
def ops0 : List Op :=
  [.add "dev", .add "t2",
   .update 5 false { ts := 3, target := "dev", praw := "p", upd := [{ path := ["a", "b"], val := .scalar (.int 1), raw := "u" }] }]

def st0 : State := State.run id {} ops0

example : ∀ op ∈ ops0, op.valid := by
  intro op h
  simp only [ops0, List.mem_cons, List.mem_nil_iff, or_false] at h
  rcases h with h | h | h <;> subst h <;> simp [Op.valid]

/-- weird but WireValid notifications -/
def nNilPrefix : N := { ts := 7, update := [some { path := some { elem := [{ name := "a" }] }, val := .intVal 1 }] }
def nEmptyPath : N := { ts := 7, pfx := some { target := "dev" }, update := [some { path := some {}, val := .intVal 1 }] }
def nMetaAlone : N := { ts := 7, pfx := some { target := "dev" }, update := [some { path := some { element := ["meta"] } }] }
def nAtomicNoElem : N := { ts := 7, pfx := some { target := "dev" }, atomic := true, update := [some { path := some { elem := [{ name := "a" }] }, val := .intVal 1 }] }
def nBelowLeaf : N :=
  { ts := 9, pfx := some { target := "dev", elem := [{ name := "a" }] },
    update := [some { path := some { element := ["b", "c"] }, val := .stringVal "x" }] }
def nGood : N :=
  { ts := 9, pfx := some { target := "dev", origin := "oc" },
    update := [some { path := some { elem := [{ name := "if", key := [("name", "eth0")] }] }, val := .boolVal true }],
    delete := [some { elem := [{ name := "*" }] }, some {}] }

example : nNilPrefix.wireValid = true ∧ nEmptyPath.wireValid = true ∧ nMetaAlone.wireValid = true ∧
    nAtomicNoElem.wireValid = true ∧ nBelowLeaf.wireValid = true ∧ nGood.wireValid = true := by decide

/-- what they do to the reachable state: rejected (error), not a panic; the good one is accepted -/
example : (wireGnmiUpdate id st0 10 (some nNilPrefix)).1 = .err := by decide
example : (wireGnmiUpdate id st0 10 (some nEmptyPath)).1 = .err := by decide
example : (wireGnmiUpdate id st0 10 (some nMetaAlone)).1 = .err := by decide
example : (wireGnmiUpdate id st0 10 (some nAtomicNoElem)).1 = .err := by decide
example : (wireGnmiUpdate id st0 10 (some nBelowLeaf)).1 = .err := by decide
example : (wireGnmiUpdate id st0 10 (some nGood)).1 = .ok := by decide
example : (wireGnmiUpdate id st0 10 (none : Option N)).1 = .err := by decide

/-- the translation on a keyed path: index = name, then the key values -/
example : (toNoti id nGood).2.upd.map (·.path) = [["if", "eth0"]] ∧ (toNoti id nGood).2.origin = "oc" ∧
    (toNoti id nGood).2.del.map (·.path) = [["*"], []] := by decide

/-- the hypothesis of `wire_rejected_preserves` is satisfiable, with a non-trivial stored tree -/
example : ((st0.get "dev").map (·.tree.length)) = some 1 ∧ nBelowLeaf.update.length = 1 ∧ nBelowLeaf.delete = [] ∧
    (wireGnmiUpdate id st0 10 (some nBelowLeaf)).1 ≠ .ok := by decide

/-- what WireValid excludes: a nil entry in `Notification.Update` makes `Target.gnmiUpdate`
evaluate `n.Update[0].Path` on it — a panic (an object only an in-process caller can build) -/
example : (wireGnmiUpdate id st0 10 (some ({ pfx := some { target := "dev" }, update := [none] } : N))).1 = .panic := by
  decide
/-- … but only when the message gets as far as the target: without prefix it is rejected before -/
example : (wireGnmiUpdate id st0 10 (some ({ update := [none] } : N))).1 = .err := by decide
/-- the collector closure writes `v.Prefix` of a nil notification (`SubscribeResponse_Update{Update: nil}`) -/
example : (mgrRecv id .collector 10 "dev" st0 (.update none : R)).isPanic = true := by decide
example : (mgrRecv id .plain 10 "dev" st0 (.update none : R)).isPanic = false := by decide

/-- a session: the target reports under a foreign name and without origin; the collector wiring
stamps both (`dev` / `openconfig`) -/
def nForeign : N :=
  { ts := 9, pfx := some { target := "zz" }, update := [some { path := some { elem := [{ name := "x" }] }, val := .intVal 4 }] }
def session0 : List (Int × R) :=
  [(10, .update (some nForeign)), (11, .sync true), (12, .error true), (13, .unset), (14, .update (some nNilPrefix))]

example : ∀ x ∈ session0, x.2.wireValid = true := by decide
example : (mgrSession id .collector "dev" st0 session0).isPanic = false := by decide
example : (match mgrSession id .collector "dev" st0 session0 with
    | .ok o => o.handled
    | _ => []) = [.update .ok, .sync, .logged .remoteError, .logged .nilResponse, .update .ok] := by decide
/-- without the stamping the same stream is dropped twice (unknown target, no prefix) -/
example : (match mgrSession id .plain "dev" st0 session0 with
    | .ok o => o.handled
    | _ => []) = [.update .err, .sync, .logged .remoteError, .logged .nilResponse, .update .err] := by decide

/-! ### the Subscribe request stream -/

open C12S (cache1 pA)

def pollDev : Request :=
  .subscribe (some { pfx := some { target := "dev" }, mode := 2, subs := [some { path := some pA }] })
def onceDev : Request :=
  .subscribe (some { pfx := some { target := "dev" }, mode := 1, subs := [some { path := some pA }] })
/-- as a *first* request this one is refused (no prefix) -/
def badList : Request := .subscribe (some { pfx := none, mode := 7 })

example : RX.subscribe cache1 false (fun _ => 0) badList = .err .invalidArgument := by decide

/-- a POLL subscription followed by: a poll, a second (invalid) subscription list, an unset oneof,
a nil request — four more walks of the first subscription, status OK -/
example : subscribeStream cache1 false (fun _ _ => 0) pollDev [.poll, badList, .unset, .nilMsg] =
    .ok { rounds := List.replicate 5 { sent := [["dev", "a", "b"]], synced := true }, reads := 4 } := by decide

/-- ONCE: the same later requests are never read -/
example : subscribeStream cache1 false (fun _ _ => 0) onceDev [.poll, badList, .unset, .nilMsg] =
    .ok { rounds := [{ sent := [["dev", "a", "b"]], synced := true }], reads := 0 } := by decide

/-- The expectation of the task statement — "each later request that is not a poll trigger ends
the RPC with the error the code returns" — as a proposition about the handler model: -/
def later_nonpoll_rejected : Prop :=
  ∀ (c : CacheView Unit Unit) (noDup : Bool) (dup : Nat → Nat → Nat) (first r : Request),
    c.wireValid = true → isPollReq first = true → r ≠ .poll →
    (∃ o, RX.subscribe c noDup (dup 0) first = .ok o ∧ o.synced = true) →
    ∃ e, subscribeStream c noDup dup first [r] = .err e

/-- **It is false of the code** (`subscribe.go`, `processPollingSubscription`: "Subsequent
receives are only triggers to poll again. The contents of the request are completely ignored"): a
second, invalid `SubscriptionList` on an open POLL RPC is answered with a fresh walk and the RPC
ends OK.  Not a crash (C12 holds: `subscribe_all_requests_total`); witness run against the Go
code: `corpus/C12/wi_later_request_ignored.ops`. -/
theorem later_nonpoll_rejected_false : ¬ later_nonpoll_rejected := by
  intro h
  obtain ⟨e, he⟩ := h cache1 false (fun _ _ => 0) pollDev badList (by decide) (by decide) (by decide)
    ⟨{ sent := [["dev", "a", "b"]], synced := true }, by decide, rfl⟩
  have : subscribeStream cache1 false (fun _ _ => 0) pollDev [badList] =
      .ok { rounds := List.replicate 2 { sent := [["dev", "a", "b"]], synced := true }, reads := 1 } := by decide
  rw [this] at he
  cases he

end examples

end C12W
end Gnmi
