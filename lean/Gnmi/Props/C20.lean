import Gnmi.Lemmas.FakeQueue
/-!
# C20 — the synthetic target emits an ordered, bounded, reproducible update stream

Property theorems only (helper lemmas: `Gnmi/Lemmas/FakeQueue.lean`; vocabulary:
`Gnmi/Spec/FakeQueue.lean`; model: `Gnmi/Model/FakeQueue.lean`).

Everything is stated for
* every configuration the code's own validity checks accept (`Accepted`: every value satisfies
  `ValidPV`, i.e. none of the defects listed in `error_is_config`), of any size, with every kind
  of value, per-value or global PRNGs,
* every stream of raw PRNG draws (`Draws`; the model consumes a finite prefix, any prefix),
* every number `n` of `Next` calls,
* every `float64` arithmetic whose order is a strict total order (`LawfulDOps`: no NaN).

`NoOverflow`: the model computes on `Int` and *checks* every place where the Go code could leave
`int64`; such a run yields the result `overflow` from then on and emits nothing further, so all
statements below hold for it (they speak about what is emitted).  The same goes for `nodraws`
(the supplied prefix of the draw stream ran out).  The theorems therefore transfer to the Go
code for runs without `int64` overflow.

`emits n u` = the values returned by `n` successive `Next` calls; `proj i l` = the emissions of
the `*value` with identity `i`; `u.vals` = the queued values.
-/
namespace Gnmi
namespace C20
open FQ

variable {D : Type} [DOps D] [LawfulDOps D]

/-- every configured value passes the code's own validity checks -/
def Accepted (values : List (PVal D × Option Draws)) : Prop := ∀ x ∈ values, ValidPV x.1

/-- `u` is the generator the fake agent builds (`Client.reset`: `queue.New` + sync injection
unless `disable_sync`) from the configuration `values`, global PRNG draws `g` -/
def Built (g : Draws) (values : List (PVal D × Option Draws)) (disableSync : Bool) (u : UQ D) : Prop :=
  reset g values disableSync = .ok u

/-! ## Construction -/

omit [LawfulDOps D] in
/-- Building a generator from an accepted configuration never fails … -/
theorem build_never_fails (g : Draws) (values : List (PVal D × Option Draws)) (disableSync : Bool)
    (hv : Accepted values) : ∃ u, Built g values disableSync u := by
  cases disableSync with
  | false =>
    obtain ⟨u, _, _, h, _⟩ := reset_spec g values hv
    exact ⟨u, h⟩
  | true =>
    obtain ⟨u, h, _⟩ := new_spec g values hv
    exact ⟨u, by unfold Built reset; rw [h]; rfl⟩

omit [LawfulDOps D] in
/-- … and establishes the invariant `Inv` (well-formed queue, distinct `*value`s, all accepted). -/
theorem built_inv {g : Draws} {values : List (PVal D × Option Draws)} {disableSync : Bool} {u : UQ D}
    (hv : Accepted values) (hb : Built g values disableSync u) : Inv u := by
  cases disableSync with
  | false =>
    obtain ⟨u', _, _, h, hi, _⟩ := reset_spec g values hv
    unfold Built at hb
    rw [h] at hb
    cases hb
    exact hi
  | true =>
    obtain ⟨u', h, hi, _⟩ := new_spec g values hv
    unfold Built reset at hb
    rw [h] at hb
    cases hb
    exact hi

omit [LawfulDOps D] in
/-- The queued values of a freshly built generator are the configured values (in allocation
order `0, 1, …` up to the bucket order), followed — with sync injection — by the sync marker. -/
theorem built_vals {g : Draws} {values : List (PVal D × Option Draws)} {u : UQ D}
    (hv : Accepted values) (hb : Built g values false u) :
    ∃ pre s, u.vals = pre ++ [s] ∧ pre.Perm (cfgVals 0 values) ∧ s.id = values.length ∧
      s.pv.repeat_ = 1 ∧ ∃ l, s.pv = syncValue l := by
  obtain ⟨u', pre, s, h, _, h1, h2, h3, h4, h5, _⟩ := reset_spec g values hv
  unfold Built at hb
  rw [h] at hb
  cases hb
  exact ⟨pre, s, h1, h2, h3, h4, h5⟩

/-! ## `sorted_invariant` -/

omit [DOps D] [LawfulDOps D] in
/-- The binary search of `addValue` is insertion into the sorted bucket list: on a well-formed
queue it never panics and yields exactly `ins` (append to the bucket with the same timestamp,
else a new bucket at the sorted position). -/
theorem addValue_is_sorted_insert (u : UQ D) (hw : WFQ u.q) (v : Val D) :
    addValue u v = .ok { u with q := ins v.withTs v.withTs.t u.q,
                                latest := if v.withTs.t > u.latest then v.withTs.t else u.latest } :=
  addValue_spec hw v

/-- After any number of `Next` calls the buckets are non-empty, strictly ascending by timestamp,
and every value sits in the bucket of its own timestamp. -/
theorem sorted_invariant {g : Draws} {values : List (PVal D × Option Draws)} {disableSync : Bool} {u : UQ D}
    (hv : Accepted values) (hb : Built g values disableSync u) (n : Nat) :
    WFQ (after n u).q ∧ Inv (after n u) :=
  ⟨(after_inv n (built_inv hv hb)).wf, after_inv n (built_inv hv hb)⟩

/-- (step form, no validity needed) `Next` keeps the queue well formed unless it returns an error -/
theorem next_keeps_sorted (u : UQ D) (hw : WFQ u.q) (h : (next u).1 ≠ .err) : WFQ (next u).2.q := by
  cases next_cases u hw with
  | empty hq h' => rw [h']; exact hw
  | dropped v rest hv hmin hrep u' h' hvals hw' hnid => rw [h']; exact hw'
  | requeued v rest hv hmin v' hid hstep hsucc u' h' a b hab hvals hw' hnid => rw [h']; exact hw'
  | err v rest hv pv' ds' hnv h' => exact absurd h' h
  | stuck v rest hv h' => rcases h' with ⟨h', _⟩ | h' | h' <;> rw [h'] <;> exact hw

/-! ## `emission_nondecreasing` -/

/-- The timestamps of successive emissions are non-decreasing. -/
theorem emission_nondecreasing {g : Draws} {values : List (PVal D × Option Draws)} {disableSync : Bool}
    {u : UQ D} (hv : Accepted values) (hb : Built g values disableSync u) (n : Nat) :
    (emits n u).Pairwise (fun a b => a.t ≤ b.t) :=
  emits_sorted n u (built_inv hv hb)

/-! ## Per value: the emissions are a chain of `nextValue` steps from the configured value -/

/-- The emissions of one `*value`: none yet, or the queued (configured) value followed by a chain
of `nextValue` successors. -/
theorem emissions_chain {u : UQ D} (hi : Inv u) (n i : Nat) :
    proj i (emits n u) = [] ∨
      ∃ x rest, x ∈ u.vals ∧ x.id = i ∧ proj i (emits n u) = x :: rest ∧ ChainFrom Succ x rest := by
  by_cases hmem : i ∈ u.ids
  · obtain ⟨x, hx, rfl⟩ := List.mem_map.mp hmem
    rcases emits_chain n u hi x hx with h | ⟨rest, h1, h2⟩
    · exact Or.inl h
    · exact Or.inr ⟨x, rest, hx, rfl, h1, h2⟩
  · exact Or.inl (proj_eq_nil_of_not_mem n u hi i hmem)

/-- The first emission of a configured value is the configured value itself. -/
theorem first_emission_is_configured {g : Draws} {values : List (PVal D × Option Draws)} {disableSync : Bool}
    {u : UQ D} (hv : Accepted values) (hb : Built g values disableSync u) (n : Nat) (x : Val D)
    (hx : x ∈ u.vals) : proj x.id (emits n u) = [] ∨ ∃ rest, proj x.id (emits n u) = x :: rest := by
  rcases emits_chain n u (built_inv hv hb) x hx with h | ⟨rest, h, _⟩
  · exact Or.inl h
  · exact Or.inr ⟨rest, h⟩

/-! ## `delta_bounds` -/

/-- Between two consecutive emissions `a`, `b` of the same value the timestamp advances by a step
within `[delta_min, delta_max]` (`0 ≤ delta_min`), and the delta settings are unchanged. -/
theorem delta_bounds {g : Draws} {values : List (PVal D × Option Draws)} {disableSync : Bool} {u : UQ D}
    (hv : Accepted values) (hb : Built g values disableSync u) (n i : Nat) (l1 l2 : List (Val D)) (a b : Val D)
    (h : proj i (emits n u) = l1 ++ a :: b :: l2) :
    ∃ ta tb, a.pv.ts = some ta ∧ b.pv.ts = some tb ∧ 0 ≤ ta.dmin ∧
      ta.dmin ≤ tb.ts - ta.ts ∧ tb.ts - ta.ts ≤ ta.dmax ∧ tb.dmin = ta.dmin ∧ tb.dmax = ta.dmax := by
  rcases emissions_chain (built_inv hv hb) n i with h0 | ⟨x, rest, _, _, h1, hc⟩
  · rw [h0] at h
    have := congrArg List.length h
    simp at this
  · rw [h1] at h
    have hs : Succ a b := chain_adjacent rest x hc l1 l2 a b h
    obtain ⟨t, d, h2, h3, h4, h5, h6⟩ := hs.facts.ts
    exact ⟨t, _, h2, h6, h3.2.1, by simp only; omega, by simp only; omega, rfl, rfl⟩

/-! ## `repeat_exact` -/

/-- A value configured with repeat `r ≥ 1` is emitted at most `r` times in any prefix … -/
theorem repeat_at_most {g : Draws} {values : List (PVal D × Option Draws)} {disableSync : Bool} {u : UQ D}
    (hv : Accepted values) (hb : Built g values disableSync u) (n : Nat) (x : Val D) (hx : x ∈ u.vals)
    (hr : 1 ≤ x.pv.repeat_) : ((proj x.id (emits n u)).length : Int) ≤ x.pv.repeat_ := by
  rcases emits_chain n u (built_inv hv hb) x hx with h | ⟨rest, h, hc⟩
  · rw [h]; simp only [List.length_nil]; omega
  · rw [h]
    have := chain_length_le rest x hc hr
    simp only [List.length_cons]
    omega

/-- … and exactly `r` times once the queue reports exhaustion, which happens only if every
configured value has a bounded repeat count. -/
theorem repeat_exact {g : Draws} {values : List (PVal D × Option Draws)} {disableSync : Bool} {u : UQ D}
    (hv : Accepted values) (hb : Built g values disableSync u) (n : Nat) (hex : (after n u).vals = [])
    (x : Val D) (hx : x ∈ u.vals) :
    1 ≤ x.pv.repeat_ ∧ ((proj x.id (emits n u)).length : Int) = x.pv.repeat_ :=
  exhausted_count n u (built_inv hv hb) hex x hx

/-- Once exhausted, `Next` keeps returning nil. -/
theorem exhausted_stays (u : UQ D) (hw : WFQ u.q) (h : u.vals = []) : next u = (.nil, u) := by
  cases next_cases u hw with
  | empty hq h' => exact h'
  | dropped v rest hv => rw [hv] at h; cases h
  | requeued v rest hv => rw [hv] at h; cases h
  | err v rest hv => rw [hv] at h; cases h
  | stuck v rest hv => rw [hv] at h; cases h

/-- A value with repeat `≤ 0` (unbounded) is never dropped: it is still queued, with the same
repeat setting, after any number of `Next` calls. -/
theorem repeat_unbounded {g : Draws} {values : List (PVal D × Option Draws)} {disableSync : Bool} {u : UQ D}
    (hv : Accepted values) (hb : Built g values disableSync u) (n : Nat) (x : Val D) (hx : x ∈ u.vals)
    (hr : x.pv.repeat_ ≤ 0) : ∃ y ∈ (after n u).vals, y.id = x.id ∧ y.pv.repeat_ = x.pv.repeat_ :=
  unbounded_stays n u (built_inv hv hb) x hx hr

/-! ## `in_range` -/

/-- Every emission of a value after its first one (i.e. every *generated* value) lies within its
range / is one of its options / (string lists) is the rotated option list or a proper prefix of
the shuffled option list — where range, flags and options are those of the configured value `x`
(`Kind.Same`: options up to rotation for cycled lists, up to permutation for `random` ones); a
value without distribution stays constant. -/
theorem in_range {g : Draws} {values : List (PVal D × Option Draws)} {disableSync : Bool} {u : UQ D}
    (hv : Accepted values) (hb : Built g values disableSync u) (n : Nat) (x : Val D) (rest : List (Val D))
    (h : proj x.id (emits n u) = x :: rest) (hx : x ∈ u.vals) :
    ∀ e ∈ rest, InRange e.pv.kind ∧ Kind.Same x.pv.kind e.pv.kind ∧ e.pv.path = x.pv.path := by
  rcases emits_chain n u (built_inv hv hb) x hx with h0 | ⟨rest', h1, hc⟩
  · rw [h0] at h; cases h
  · rw [h1] at h
    cases h
    intro e he
    obtain ⟨a, ha⟩ := chain_pred rest x hc e he
    have hsame := chain_all (R := Succ) (P := fun a b : Val D => Kind.Same a.pv.kind b.pv.kind ∧ b.pv.path = a.pv.path)
      (fun a b hs => ⟨hs.facts.same, hs.facts.path⟩)
      (fun a b c h1 h2 => ⟨h1.1.trans h2.1, h2.2.trans h1.2⟩) rest x hc e he
    exact ⟨ha.facts.inRange, hsame.1, hsame.2⟩

omit [LawfulDOps D] in
/-- A configured range value is in range from its first emission on (that is what the validity
check accepts). -/
theorem accepted_initial_in_range (pv : PVal D) (h : ValidPV pv) (hr : pv.repeat_ ≠ 1) :
    (∀ v r, pv.kind = .int v (.range r) → r.min ≤ v ∧ v ≤ r.max) ∧
    (∀ v r, pv.kind = .uint v (.range r) → r.min ≤ v ∧ v ≤ r.max) ∧
    (∀ v r, pv.kind = .double v (.range r) → DOps.lt v r.min = false ∧ DOps.lt r.max v = false) := by
  rcases h with h | ⟨_, hk⟩
  · exact absurd h hr
  · refine ⟨?_, ?_, ?_⟩ <;> intro v r he <;> rw [he] at hk <;> simp only [ValidKind] at hk
    · exact ⟨hk.1, hk.2.1⟩
    · exact ⟨hk.1, hk.2.1⟩
    · exact ⟨hk.2.1, hk.2.2.1⟩

/-! ## `sync_after_firsts` -/

/-- With sync injection, when the injected sync marker (identity `values.length`) is emitted,
every configured value (identities `0 … values.length - 1`) has been emitted before … -/
theorem sync_after_firsts {g : Draws} {values : List (PVal D × Option Draws)} {u : UQ D}
    (hv : Accepted values) (hb : Built g values false u) (n : Nat) (l1 l2 : List (Val D)) (e : Val D)
    (he : emits n u = l1 ++ e :: l2) (hid : e.id = values.length) :
    ∀ i, i < values.length → i ∈ l1.map (·.id) := by
  obtain ⟨pre, s, h1, h2, h3, _, _⟩ := built_vals hv hb
  have hfront := emitted_after_front n u (built_inv hv hb) pre [] s h1 l1 l2 e he (hid.trans h3.symm)
  intro i hi
  have hids : ∀ (vals : List (PVal D × Option Draws)) (k i : Nat), k ≤ i → i < k + vals.length →
      ∃ x ∈ cfgVals k vals, x.id = i := by
    intro vals
    induction vals with
    | nil => intro k i h1 h2; simp at h2; omega
    | cons y ys ih =>
      intro k i hk1 hk2
      by_cases hki : i = k
      · exact ⟨_, List.mem_cons_self .., by rw [withTs_id, hki]⟩
      · obtain ⟨x, hx, hxi⟩ := ih (k + 1) i (by omega) (by simp only [List.length_cons] at hk2; omega)
        exact ⟨x, List.mem_cons_of_mem _ hx, hxi⟩
  obtain ⟨x, hx, hxi⟩ := hids values 0 i (by omega) (by omega)
  have := hfront x (h2.symm.subset hx)
  rwa [hxi] at this

/-- … and the marker is emitted at most once (exactly once if the queue runs empty, by
`repeat_exact`). -/
theorem sync_once {g : Draws} {values : List (PVal D × Option Draws)} {u : UQ D}
    (hv : Accepted values) (hb : Built g values false u) (n : Nat) :
    (proj values.length (emits n u)).length ≤ 1 := by
  obtain ⟨pre, s, h1, _, h3, h4, _⟩ := built_vals hv hb
  have hs : s ∈ u.vals := by rw [h1]; simp
  have := repeat_at_most hv hb n s hs (by omega)
  rw [h3, h4] at this
  omega

/-! ## `deterministic` -/

omit [LawfulDOps D] in
/-- Two generators built from the same configuration and the same draw streams return the same
sequence (outputs are a function of configuration and draws; the content of this claim for the
Go code is the correspondence check, which runs two real generators and the model). -/
theorem deterministic {g : Draws} {values : List (PVal D × Option Draws)} {disableSync : Bool} {u₁ u₂ : UQ D}
    (h₁ : Built g values disableSync u₁) (h₂ : Built g values disableSync u₂) (n : Nat) :
    u₁ = u₂ ∧ emits n u₁ = emits n u₂ := by
  unfold Built at h₁ h₂
  rw [h₁] at h₂
  cases h₂
  exact ⟨rfl, rfl⟩

/-! ## `error_is_config` -/

/-- A generator built from an accepted configuration never returns an error and never panics,
whatever the draws and however long it runs. -/
theorem error_is_config {g : Draws} {values : List (PVal D × Option Draws)} {disableSync : Bool} {u : UQ D}
    (hv : Accepted values) (hb : Built g values disableSync u) (n : Nat) :
    ∀ r ∈ results n u, (r matches .err) = false ∧ (r matches .panic) = false := by
  have key : ∀ (n : Nat) (u : UQ D), Inv u →
      ∀ r ∈ results n u, (r matches .err) = false ∧ (r matches .panic) = false := by
    intro n
    induction n with
    | zero => intro u _ r hr; simp [results] at hr
    | succ n ih =>
      intro u hi r hr
      simp only [results, List.mem_cons] at hr
      rcases hr with rfl | hr
      · have := next_no_err hi
        cases h : (next u).1 <;> simp_all
      · exact ih _ (next_inv hi) r hr
  exact key n u (built_inv hv hb)

omit [LawfulDOps D] in
/-- Conversely an error of `nextValue` arises only from one of the listed configuration defects:
the value is to be advanced (`repeat ≠ 1`) and its timestamp is missing or negative, or
`delta_min > delta_max` or `delta_min < 0`, or no value kind is set, or a range has
`minimum > maximum` / the value outside `[minimum, maximum]` / deltas set with
`delta_min > delta_max`, or an option list is empty — i.e. `ValidPV` fails (or the timestamp is
nil, which `addValue` excludes). -/
theorem error_only_on_defect (pv pv' : PVal D) (ds ds' : Draws) (h : nextValue pv ds = .err pv' ds') :
    ¬ ValidPV pv ∨ pv.ts = none := by
  cases hts : pv.ts with
  | none => exact Or.inr rfl
  | some t =>
    refine Or.inl (fun hv => ?_)
    exact (nextValue_fine hv (by simp [hts]) ds).1 _ _ h

/-! ## Non-vacuity: a concrete accepted configuration and its run -/

section NonVacuity

/-- integers as a stand-in for `float64` (a lawful strict total order) -/
local instance : DOps Int where
  zero := 0
  lt a b := decide (a < b)
  ne0 x := x != 0
  unit v := Int.ofNat v
  isOne f := f == 1
  add a b := a + b
  sub a b := a - b
  mul a b := a * b

local instance : LawfulDOps Int where
  irrefl a := by simp [DOps.lt]
  trans a b c h1 h2 := by simp [DOps.lt] at *; omega
  total a b := by simp [DOps.lt]; omega

/-- an int range with deltas and repeat 3, an unbounded rotating string list with its own PRNG,
a delete with nil timestamp and repeat 1 -/
def exCfg : List (PVal Int × Option Draws) :=
  [ ({ path := ["a"], ts := some { ts := 5, dmin := 1, dmax := 3 }, repeat_ := 3,
       kind := Kind.int 4 (IntDist.range { min := 0, max := 10, dmin := -2, dmax := 2 }) }, none),
    ({ path := ["b"], ts := some { ts := 5, dmin := 0, dmax := 2 }, repeat_ := 0,
       kind := Kind.str "x" (ListDist.list ["p", "q", "r"] false) }, some [3, 1, 4, 1, 5, 9, 2, 6, 5, 3, 5, 8]),
    ({ path := ["c"], ts := none, repeat_ := 1, kind := Kind.delete }, none) ]

def exG : Draws := [7, 8, 9, 10, 11, 12, 13, 14]

theorem exCfg_accepted : Accepted exCfg := by
  intro x hx
  simp only [exCfg, List.mem_cons, List.not_mem_nil, or_false] at hx
  rcases hx with rfl | rfl | rfl
  · refine Or.inr ⟨?_, ?_⟩
    · intro t ht
      cases ht
      exact ⟨by decide, by decide, by decide⟩
    · simp only [ValidKind]
      refine ⟨by decide, by decide, fun _ => by decide⟩
  · refine Or.inr ⟨?_, ?_⟩
    · intro t ht
      cases ht
      exact ⟨by decide, by decide, by decide⟩
    · simp [ValidKind]
  · exact Or.inl rfl

/-- the hypotheses of the run theorems are met by a generator that exists … -/
example : ∃ u, Built exG exCfg false u ∧ Inv u := by
  obtain ⟨u, h⟩ := build_never_fails exG exCfg false exCfg_accepted
  exact ⟨u, h, built_inv exCfg_accepted h⟩

/-- … and really emits: (identity, timestamp) of the first eight emissions; the delete with nil
timestamp comes first at 0, the sync marker (identity 3) after the first emission of 0, 1, 2. -/
example : (match reset exG exCfg false with
    | .ok u => (emits 8 u).map (fun (e : Val Int) => (e.id, e.t))
    | _ => []) = [(2, 0), (0, 5), (1, 5), (3, 5), (1, 5), (1, 6), (0, 7), (1, 7)] := by
  decide +kernel

/-- `error_only_on_defect` is not vacuous: a negative timestamp is rejected -/
example : (match nextValue ({ path := [], ts := some { ts := -1 }, repeat_ := 0, kind := Kind.delete } : PVal Int) [] with
    | .err _ _ => true
    | _ => false) = true := by
  decide +kernel

end NonVacuity

end C20
end Gnmi
